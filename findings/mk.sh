#!/bin/sh
# usage: mk.sh file.c  -> builds against the current asan build of /repo's working tree
HX=$(/verif/check build asan 2>/dev/null)
D=$(dirname $HX)
gcc -O1 -g -fsanitize=address,undefined -fno-sanitize-recover=all -DSLU_VERIF -I/repo/SRC -I/verif/harness $1 $D/hobj-*/common.o $D/hobj-*/putil.o $D/libslu.a -lm -lpthread -o ${1%.c}
