/* Reproducer (C04/C19 finding, not C20): [sdcz]gstrf keeps factoring after an exactly zero pivot.
 * Build against the check's asan library (has hook H1 slu_verif_ienv) and the harness allocator:
 *   LIB=$(ls .work/tree-*/asan/libslu.a | head -1)
 *   gcc -w -O1 -g -fsanitize=address,undefined -DSLU_VERIF -I/repo/SRC -Iharness findings/gstrf_zero_pivot_repro.c harness/common.c $LIB -lm -o gs
 *   ASAN_OPTIONS=detect_leaks=0 ./gs 7     -> SEGV at cpanel_bmod.c:364 <- cgstrf.c:365 (tuned);  ./gs -> info = 4 (default tuning) */
/* cgssv on a 10x10 matrix whose first column is stored as explicit zeros, tuning panel=2 relax=2
 * maxsuper=7 rowblk=200 colblk=4 fill=7 (hook H1) */
#include "slu_cdefs.h"
extern int slu_verif_ienv[8];
int main(int argc, char **argv) {
    int n = 10; int_t nnz = 24;
    int_t cp1[] = {1, 6, 7, 8, 11, 13, 14, 17, 20, 23, 25};
    int_t ri1[] = {1, 2, 4, 5, 6, 2, 3, 3, 4, 6, 4, 5, 6, 3, 7, 8, 3, 7, 8, 3, 8, 9, 4, 10};
    float v[] = {0.0, 0.0, 0.0, 0.0, 0.0, 0.0, 0.0, 0.0, 0.0, 0.0, 4.0, 3.0, -3.0, 1.0, 3.0, 0.0, -1.0, -1.0, 0.0, -2.0, 2.0, -4.0, 1.0, 2.0, 2.0, 0.0, 3.0, 4.0, 4.0, 0.0, -3.0, -4.0, 2.0, -4.0, -2.0, 4.0, 1.0, -3.0, -1.0, 4.0, 0.0, -2.0, 1.0, 0.0, 4.0, -2.0, 3.0, -1.0};
    int_t *cp = intMalloc(n + 1), *ri = intMalloc(nnz); singlecomplex *a = singlecomplexMalloc(nnz), *b = singlecomplexMalloc(n);
    for (int j = 0; j <= n; j++) cp[j] = cp1[j] - 1;
    for (int k = 0; k < nnz; k++) { ri[k] = ri1[k] - 1; a[k].r = v[2*k]; a[k].i = v[2*k+1]; }
    for (int i = 0; i < n; i++) { b[i].r = 1; b[i].i = 0; }
    if (argc > 1) { slu_verif_ienv[1] = 2; slu_verif_ienv[2] = 2; slu_verif_ienv[3] = 7; slu_verif_ienv[4] = 200; slu_verif_ienv[5] = 4; slu_verif_ienv[6] = atoi(argv[1]); slu_verif_ienv[7] = 7; }
    SuperMatrix A, L, U, B; superlu_options_t options; SuperLUStat_t stat; int_t info;
    cCreate_CompCol_Matrix(&A, n, n, nnz, a, ri, cp, SLU_NC, SLU_C, SLU_GE);
    cCreate_Dense_Matrix(&B, n, 1, b, n, SLU_DN, SLU_C, SLU_GE);
    int *perm_c = int32Malloc(n), *perm_r = int32Malloc(n);
    set_default_options(&options); StatInit(&stat);
    cgssv(&options, &A, perm_c, perm_r, &L, &U, &B, &stat, &info);
    printf("info = %lld\n", (long long)info);
    return 0;
}
