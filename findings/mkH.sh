#!/bin/sh
# usage: mkH.sh file.c -> builds against the asan build of the framework this directory lives in
ROOT=$(cd "$(dirname "$0")/.." && pwd)
HX=$($ROOT/check build asan 2>/dev/null | tail -1)
D=$(dirname $HX)
REPO=${VERIF_REPO:-/repo}
gcc -O1 -g -fsanitize=address,undefined -fno-sanitize-recover=all -DSLU_VERIF -I$REPO/SRC -I$ROOT/harness $1 $D/hobj-*/common.o $D/hobj-*/putil.o $D/libslu.a -lm -lpthread -o ${1%.c}
