#include "slu_ddefs.h"
int main(){ FILE*f=fopen("/tmp/repro/sym.mtx","w"); fprintf(f,"%%%%MatrixMarket matrix coordinate real symmetric\n3 3 3\n2 1 1.0\n3 1 2.0\n3 2 3.0\n"); fclose(f);
 f=fopen("/tmp/repro/sym.mtx","r"); int m,n; int_t nnz; double*a; int_t*asub,*xa; dreadMM(f,&m,&n,&nnz,&a,&asub,&xa); fclose(f);
 printf("m=%d n=%d nnz=%d xa=%d %d %d %d\n",m,n,(int)nnz,(int)xa[0],(int)xa[1],(int)xa[2],(int)xa[3]); for(int k=0;k<nnz;k++)printf("(%d %g) ",(int)asub[k],a[k]); printf("\n"); return 0;}
