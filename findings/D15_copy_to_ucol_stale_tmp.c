/* ilu_zcopy_to_ucol / ilu_ccopy_to_ucol, second dropping rule under SMILU_3 (ilu_zcopy_to_ucol.c:203-204):
 *     case SMILU_3:  sum->r += tmp;
 * `tmp` is the register of the FIRST loop (l.125: tmp = z_abs1(&dense[irow])) and still holds the modulus of the LAST row
 * visited there; the real files add fabs(ucol[i]) of the entry being removed (ilu_dcopy_to_ucol.c:203).  So in the
 * complex files *sum (the MILU compensation handed to ilu_zpivotL) is  (#removed) * |last visited entry|  instead of the
 * sum of the moduli of the removed entries.
 * Column 3 after one supernode {0,1,2}; the segment lists rows 0,1,2 with values 1, 2, 10; DROP_BASIC | DROP_COLUMN,
 * drop_tol = 0 (the first rule keeps everything), quota = 1: qselect gives tol = 2, the sweep removes 1 and 2.
 * Expected *sum = 1 + 2 = 3.  Observed on the pinned tree: "kept 1 entry; sum = 20 (expected 3)".
 * The same call through ilu_dcopy_to_ucol gives 3.
 * build: findings/mk.sh findings/D15_copy_to_ucol_stale_tmp.c */
#include "slu_zdefs.h"
#include "slu_ddefs.h"
int main(void) {
    int xsup[3] = { 0, 3, 4 }, supno[4] = { 0, 0, 0, 1 }, segrep[1] = { 2 }, repfnz[4] = { 0, 0, 0, -1 }, perm_r[4] = { 0, 1, 2, 3 };
    int_t lsub[3] = { 0, 1, 2 }, xlsub[4] = { 0, 0, 0, 3 }, usub[3], xusub[5] = { 0, 0, 0, 0, 0 };
    doublecomplex dense[4] = { {1, 0}, {2, 0}, {10, 0}, {7, 0} }, ucol[3], sum = { 0, 0 };
    double work[4]; int nnzUj = 0;
    GlobalLU_t Glu; memset(&Glu, 0, sizeof Glu); Glu.n = 4; Glu.xsup = xsup; Glu.supno = supno; Glu.lsub = lsub; Glu.xlsub = xlsub;
    Glu.ucol = ucol; Glu.usub = usub; Glu.xusub = xusub; Glu.nzumax = 3;
    ilu_zcopy_to_ucol(3, 1, segrep, repfnz, perm_r, dense, DROP_BASIC | DROP_COLUMN, SMILU_3, 0.0, 1, &sum, &nnzUj, &Glu, work);
    printf("z: kept %d entry; sum = %g (expected 3)\n", nnzUj, sum.r);
    double ddense[4] = { 1, 2, 10, 7 }, ducol[3], dsum = 0; nnzUj = 0; xusub[4] = 0; Glu.ucol = ducol;
    ilu_dcopy_to_ucol(3, 1, segrep, repfnz, perm_r, ddense, DROP_BASIC | DROP_COLUMN, SMILU_3, 0.0, 1, &dsum, &nnzUj, &Glu, work);
    printf("d: kept %d entry; sum = %g (expected 3)\n", nnzUj, dsum);
    return 0;
}
