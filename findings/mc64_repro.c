/* Reproducer: MC64 (job 5) returns a non-maximal matching and infeasible duals on a 4x4 matrix with ties.
 *   gcc -O0 -g -I/repo/SRC mc64_repro.c /repo/SRC/dldperm.c /repo/SRC/mc64ad.c /repo/SRC/memory.c \
 *       /repo/SRC/util.c /repo/SRC/dmach.c /repo/SRC/superlu_timer.c /repo/SRC/sp_ienv.c \
 *       /repo/SRC/input_error.c -lm -o mc64_repro && ./mc64_repro
 * Matrix (magnitudes)      expected: rows 0..3 -> columns 1,3,0,2, product 2*1*2*1 = 4
 *   3 2 . 2                observed (unfixed): ret=0, perm = 0 1 2 3, product 3*1*1*1 = 3,
 *   1 1 . 1                scaled entry (0,1) = 3, matched entry (1,1) = 1.5
 *   2 1 1 .
 *   . . 1 1
 * exit status 0 iff the matching is optimal and every scaled entry is <= 1 (= 1 on the diagonal). */
#include "slu_ddefs.h"
#include <math.h>
int main(void) {
    int n = 4; int_t nnz = 11;
    int_t colptr[] = {0, 3, 6, 8, 11};
    int_t rowind[] = {0, 1, 2,  0, 1, 2,  2, 3,  0, 1, 3};
    double val[]   = {3, 1, 2,  2, 1, -1, 1, -1, 2, -1, 1};
    int perm[4]; double u[4], v[4];
    int ret = dldperm(5, n, nnz, colptr, rowind, val, perm, u, v);
    printf("ret=%d perm= %d %d %d %d\n", ret, perm[0], perm[1], perm[2], perm[3]);
    double p = 1; int bad = 0;
    for (int j = 0; j < n; j++) for (int_t k = colptr[j]; k < colptr[j + 1]; k++) {
        int i = (int)rowind[k]; double b = fabs(val[k]) * exp(u[i] + v[j]);
        if (perm[i] == j) p *= fabs(val[k]);
        if (b > 1 + 1e-12 || (perm[i] == j && fabs(b - 1) > 1e-12)) { bad++; printf("  scaled entry (%d,%d) = %g%s\n", i, j, b, perm[i] == j ? " (matched, should be 1)" : " (should be <= 1)"); }
    }
    printf("matched product = %g (maximum over all perfect matchings = 4)\n", p);
    return (p == 4 && bad == 0 && ret == 0) ? 0 : 1;
}
