#include "slu_ddefs.h"
extern int slu_verif_ienv[8];
static unsigned long long s=88172645463325252ULL; static unsigned rnd(){ s^=s<<13; s^=s>>7; s^=s<<17; return (unsigned)(s>>11);} 
int main(int argc,char**argv){ int seeds=atoi(argv[1]); int bad=0;
 for(int t=0;t<seeds;t++){ int n=1+rnd()%9; int fill=1+rnd()%3; int ms=1+rnd()%4; int rl=1+rnd()%ms; slu_verif_ienv[1]=1+rnd()%4; slu_verif_ienv[2]=rl; slu_verif_ienv[3]=ms; slu_verif_ienv[4]=2; slu_verif_ienv[5]=2; slu_verif_ienv[6]=fill;
  int_t*cp=intMalloc(n+1),*ri=intMalloc(n*n+1); double*v=doubleMalloc(n*n+1); int k=0; for(int j=0;j<n;j++){cp[j]=k; for(int i=0;i<n;i++) if(i==j|| rnd()%3==0){ri[k]=i;v[k++]=(i==j)?n+1.0:(double)(rnd()%7)-3.0+0.5;}} cp[n]=k;
  SuperMatrix A,AC,L,U; dCreate_CompCol_Matrix(&A,n,n,k,v,ri,cp,SLU_NC,SLU_D,SLU_GE);
  superlu_options_t o; set_default_options(&o); o.ColPerm=(rnd()%2)?NATURAL:COLAMD; SuperLUStat_t st; StatInit(&st);
  int*pc=int32Malloc(n),*pr=int32Malloc(n),*et=int32Malloc(n); GlobalLU_t Glu; int_t info;
  get_perm_c(o.ColPerm,&A,pc); sp_preorder(&o,&A,pc,et,&AC);
  dgstrf(&o,&AC,sp_ienv(2),sp_ienv(1),et,NULL,0,pc,pr,&L,&U,&Glu,&st,&info);
  if(info) {bad++; printf("t=%d info=%lld\n",t,(long long)info);} 
  if(!info){Destroy_SuperNode_Matrix(&L); Destroy_CompCol_Matrix(&U);} Destroy_CompCol_Permuted(&AC); Destroy_CompCol_Matrix(&A); SUPERLU_FREE(pc);SUPERLU_FREE(pr);SUPERLU_FREE(et); StatFree(&st);
 } printf("done bad=%d\n",bad); return 0; }
