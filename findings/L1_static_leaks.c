/* Reproducer for the two leaks found statically by tools/leakscan.py (knownLeakSites in lean/SluProofs/Props/C19.lean):
   LUMemInit-not-enough-memory-pointer-arrays and sp_trsv-quick-return-work.
   Build: compile /repo/SRC/*.c and /repo/CBLAS/*.c into libslu.a, then
   gcc -O1 -g -w -I/repo/SRC L1_static_leaks.c libslu.a -lm -Wl,--wrap=malloc,--wrap=free -o demo && ./demo
   Output on the pinned tree: 'sp_dtrsv on a 0x0 factor: ... not freed by the call: 1' and
   'dgstrf with every request above 8000 bytes refused: info=83460 (n=60), blocks still allocated after the return: 5'. */
#include <stdio.h>
#include <stdlib.h>
#include "slu_ddefs.h"
static long live = 0; static size_t failabove = 0;
void *__real_malloc(size_t); void __real_free(void *);
void *__wrap_malloc(size_t n) { if (failabove && n > failabove) return NULL; void *p = __real_malloc(n); if (p) live++; return p; }
void __wrap_free(void *p) { if (p) live--; __real_free(p); }
int main(void) {
    /* (1) sp_dtrsv on an empty factor */
    { SuperMatrix L, U; SuperLUStat_t stat; int info; double x[1];
      int_t z0[1] = {0}; int z1[1] = {0};
      long before;
      StatInit(&stat);
      dCreate_SuperNode_Matrix(&L, 0, 0, 0, NULL, z0, NULL, z0, z1, z1, SLU_SC, SLU_D, SLU_TRLU);
      dCreate_CompCol_Matrix(&U, 0, 0, 0, NULL, NULL, z0, SLU_NC, SLU_D, SLU_TRU);
      before = live;
      sp_dtrsv("L", "N", "U", &L, &U, x, &stat, &info);
      printf("sp_dtrsv on a 0x0 factor: info=%d, blocks allocated and not freed by the call: %ld\n", info, live - before);
      Destroy_SuperMatrix_Store(&L); Destroy_SuperMatrix_Store(&U); StatFree(&stat); }
    /* (2) dgstrf when the factor arrays cannot be obtained at any size */
    { int n = 60, i, j; int_t nnz = n * n, k = 0; long before;
      double *a = doubleMalloc(nnz); int_t *asub = intMalloc(nnz), *xa = intMalloc(n + 1);
      for (j = 0; j < n; j++) { xa[j] = k; for (i = 0; i < n; i++) { asub[k] = i; a[k++] = (i == j) ? n : 1.0 / (1 + i + j); } } xa[n] = k;
      SuperMatrix A, AC, L, U; superlu_options_t opt; SuperLUStat_t stat; GlobalLU_t Glu; int_t info;
      int *perm_c = int32Malloc(n), *perm_r = int32Malloc(n), *etree = int32Malloc(n);
      dCreate_CompCol_Matrix(&A, n, n, nnz, a, asub, xa, SLU_NC, SLU_D, SLU_GE);
      set_default_options(&opt); opt.ColPerm = NATURAL; StatInit(&stat);
      get_perm_c(NATURAL, &A, perm_c); sp_preorder(&opt, &A, perm_c, etree, &AC);
      before = live; failabove = 8000;
      dgstrf(&opt, &AC, sp_ienv(2), sp_ienv(1), etree, NULL, 0, perm_c, perm_r, &L, &U, &Glu, &stat, &info);
      failabove = 0;
      printf("dgstrf with every request above 8000 bytes refused: info=%lld (n=%d), blocks still allocated after the return: %ld\n", (long long) info, n, live - before);
    }
    return 0;
}
