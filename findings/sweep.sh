#!/bin/sh
export ASAN_OPTIONS=detect_leaks=0
# sweep n fill lo hi step [panel]
n=$1; fill=$2; lo=$3; hi=$4; st=$5; panel=$6; arrow=$7
for lw in $(seq $lo $st $hi); do
  out=$(timeout 5 ./d3 $n $lw $fill $panel $arrow 2>&1); rc=$?
  if [ $rc -ne 0 ]; then echo "lwork=$lw rc=$rc $(echo "$out" | grep -m1 'ERROR\|runtime error')"; fi
done
