/* N4 - after sgsisx (ILU) the supernodal L returned to the caller contains row subscripts -1
 * (SLU_EMPTY); every later use of the factors indexes x[-1]:
 *   sgscon -> sp_strsv  ssp_blas2.c:150   x[irow] -= x[fsupc] * Lval[luptr]   with irow = -1
 *   (READ of size 4, 4 bytes to the left of the 3n-float work block allocated at sgscon.c:124);
 *   sgstrs / sp_strsv transposed (ssp_blas2.c:248) fail the same way.
 * Build: ./mkH.sh N4_ilu_L_subscript_empty_after_singular_pivot.c ; run with ASAN_OPTIONS=detect_leaks=0
 * Input: 7x7, 16 entries spread over 1e-13 .. 1e12 (single precision), Equil = YES, RowPerm = LargeDiag_MC64,
 *        ColPerm = NATURAL, ILU_DropRule = DROP_BASIC, ILU_DropTol = 1e-4, ILU_MILU = SILU, u = 0.5,
 *        tuning panel=1 relax=2 maxsuper=4 rowblk=96 colblk=2 fill=8 ilu-maxsuper=3.
 * The program first factors with nrhs = 0 and no condition estimate, prints info and the offending
 * subscripts of L, then calls sgscon, which is what sgsisx does itself when ConditionNumber = YES. */
#include "slu_sdefs.h"
extern int slu_verif_ienv[8];
int main(void) {
    setvbuf(stdout, NULL, _IONBF, 0);
    enum { n = 7, nnz = 16 };
    static const int cp0[n + 1] = { 0, 2, 4, 7, 9, 11, 13, 16 };
    static const int ri0[nnz] = { 0, 1, 1, 6, 1, 2, 3, 3, 5, 0, 4, 2, 5, 0, 4, 6 };
    static const float v0[nnz] = { -8.98000028e+11f, -0.114299998f, 0.0830999985f, 11860000.f, 1.26300006e+09f, -1.359e-10f,
        -1.28399999e-10f, -7.55999994f, -0.138999999f, -7.60999985e-10f, -1.07399999e-10f, -11620000.f, -1.21200003e-06f,
        -9.32999988e-13f, 7.14999988e+11f, -0.0132799996f };
    slu_verif_ienv[1] = 1; slu_verif_ienv[2] = 2; slu_verif_ienv[3] = 4; slu_verif_ienv[4] = 96;
    slu_verif_ienv[5] = 2; slu_verif_ienv[6] = 8; slu_verif_ienv[7] = 3;
    int_t *cp = intMalloc(n + 1), *ri = intMalloc(nnz); float *v = floatMalloc(nnz);
    for (int j = 0; j <= n; j++) cp[j] = cp0[j];
    for (int k = 0; k < nnz; k++) { ri[k] = ri0[k]; v[k] = v0[k]; }
    SuperMatrix A, L, U, B, X;
    sCreate_CompCol_Matrix(&A, n, n, nnz, v, ri, cp, SLU_NC, SLU_S, SLU_GE);
    float *b = floatMalloc(n), *x = floatMalloc(n); for (int i = 0; i < n; i++) b[i] = 1.0f;
    sCreate_Dense_Matrix(&B, n, 0, b, n, SLU_DN, SLU_S, SLU_GE); sCreate_Dense_Matrix(&X, n, 0, x, n, SLU_DN, SLU_S, SLU_GE);
    superlu_options_t o; ilu_set_default_options(&o);
    o.ColPerm = NATURAL; o.ILU_DropRule = DROP_BASIC; o.ILU_FillFactor = 10.0; o.ILU_MILU = SILU;
    o.RowPerm = LargeDiag_MC64; o.ILU_DropTol = 1e-4; o.DiagPivotThresh = 0.5; o.Equil = YES; o.ConditionNumber = NO;
    SuperLUStat_t st; StatInit(&st);
    int *pc = int32Malloc(n), *pr = int32Malloc(n), *et = int32Malloc(n); float *R = floatMalloc(n), *C = floatMalloc(n);
    GlobalLU_t Glu; mem_usage_t mu; int_t info; float rpg, rcond; char equed[2] = "N";
    sgsisx(&o, &A, pc, pr, et, equed, R, C, &L, &U, NULL, 0, &B, &X, &rpg, &rcond, &Glu, &mu, &st, &info);
    printf("sgsisx info = %lld (n = %d)\n", (long long)info, n);
    SCformat *Ls = L.Store; int bad = 0;
    for (int_t k = 0; k < Ls->rowind_colptr[n]; k++) if (Ls->rowind[k] < 0 || Ls->rowind[k] >= n) { printf("L.rowind[%lld] = %lld\n", (long long)k, (long long)Ls->rowind[k]); bad++; }
    printf("%d subscripts of L outside 0..n-1; perm_r =", bad); for (int i = 0; i < n; i++) printf(" %d", pr[i]); printf("\n");
    int info1; sgscon("1", &L, &U, 1.0f, &rcond, &st, &info1);
    printf("rcond = %g (no sanitizer report: not reproduced)\n", rcond);
    return 0;
}
