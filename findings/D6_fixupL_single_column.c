#include "slu_ddefs.h"
int main(){ int m=3,n=1; int_t*cp=intMalloc(2),*ri=intMalloc(3); double*v=doubleMalloc(3); cp[0]=0;cp[1]=3; ri[0]=0;ri[1]=1;ri[2]=2; v[0]=1;v[1]=2;v[2]=4;
 SuperMatrix A,AC,L,U; dCreate_CompCol_Matrix(&A,m,n,3,v,ri,cp,SLU_NC,SLU_D,SLU_GE);
 superlu_options_t o; set_default_options(&o); o.ColPerm=NATURAL; SuperLUStat_t st; StatInit(&st);
 int pc[1]={0},pr[3],et[1]; GlobalLU_t Glu; int_t info; sp_preorder(&o,&A,pc,et,&AC);
 dgstrf(&o,&AC,sp_ienv(2),sp_ienv(1),et,NULL,0,pc,pr,&L,&U,&Glu,&st,&info);
 SCformat*Ls=L.Store; printf("info=%d perm_r=%d %d %d lsub=%d %d %d vals=%g %g %g\n",(int)info,pr[0],pr[1],pr[2],(int)Ls->rowind[0],(int)Ls->rowind[1],(int)Ls->rowind[2],((double*)Ls->nzval)[0],((double*)Ls->nzval)[1],((double*)Ls->nzval)[2]); return 0;}
