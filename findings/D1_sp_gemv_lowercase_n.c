#include "slu_ddefs.h"
int main(){ /* A 2x4 */
  int_t colptr[5]={0,1,2,3,4}, rowind[4]={0,1,0,1}; double v[4]={1,2,3,4};
  SuperMatrix A; dCreate_CompCol_Matrix(&A,2,4,4,v,rowind,colptr,SLU_NC,SLU_D,SLU_GE);
  double *x=malloc(4*sizeof(double)), *y=malloc(2*sizeof(double)); for(int i=0;i<4;i++)x[i]=1; y[0]=y[1]=1;
  sp_dgemv("n",1.0,&A,x,1,2.0,y,1); printf("y=%g %g\n",y[0],y[1]);
  double *x2=malloc(2*sizeof(double)), *y2=malloc(4*sizeof(double)); x2[0]=x2[1]=1; for(int i=0;i<4;i++)y2[i]=1;
  int r=sp_dgemv("t",1.0,&A,x2,1,2.0,y2,1); printf("r=%d y2=%g %g %g %g\n",r,y2[0],y2[1],y2[2],y2[3]);
  return 0; }
