#!/bin/sh
export ASAN_OPTIONS=detect_leaks=0
n=$1; fill=$2; lo=$3; hi=$4; st=$5; panel=$6; arrow=$7
ref=$(./d3 $n 0 $fill $panel $arrow 2>&1 | grep -o "sx=.*")
echo "ref $ref"
for lw in $(seq $lo $st $hi); do
  out=$(timeout 5 ./d3 $n $lw $fill $panel $arrow 2>&1); rc=$?
  sx=$(echo "$out" | grep -o "sx=.*")
  inf=$(echo "$out" | grep -o "info=[0-9]*")
  if [ $rc -ne 0 ]; then echo "lwork=$lw rc=$rc"; elif [ "$inf" = "info=0" ] && [ "$sx" != "$ref" ]; then echo "lwork=$lw DIFF $sx"; fi
done
