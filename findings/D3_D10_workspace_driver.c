#include "slu_ddefs.h"
#include <unistd.h>
extern int slu_verif_ienv[8];
/* usage: d3 n lwork fill [band] */
int main(int argc,char**argv){ int n=atoi(argv[1]); int lwork=atoi(argv[2]); int fill=atoi(argv[3]); 
  if(fill) slu_verif_ienv[6]=fill; if(argc>4){slu_verif_ienv[1]=atoi(argv[4]); slu_verif_ienv[2]=1; slu_verif_ienv[3]=atoi(argv[4]); slu_verif_ienv[4]=2; slu_verif_ienv[5]=2;}
  int arrow=argc>5?atoi(argv[5]):0; int nnz=3*n-2+(arrow?2*n:0); int_t*cp=intMalloc(n+1),*ri=intMalloc(nnz); double*v=doubleMalloc(nnz); int k=0;
  for(int j=0;j<n;j++){cp[j]=k; if(arrow&&j>1){ri[k]=0;v[k++]=0.5;} if(j>0){ri[k]=j-1;v[k++]=-1;} ri[k]=j;v[k++]=2.5+0.01*j; if(j<n-1){ri[k]=j+1;v[k++]=-1.25;} if(arrow&&j==0){for(int i=2;i<n;i++){ri[k]=i;v[k++]=0.25;}}} cp[n]=k; nnz=k;
  SuperMatrix A,L,U,B,X; dCreate_CompCol_Matrix(&A,n,n,nnz,v,ri,cp,SLU_NC,SLU_D,SLU_GE);
  double*b=doubleMalloc(n),*x=doubleMalloc(n); for(int i=0;i<n;i++)b[i]=1; dCreate_Dense_Matrix(&B,n,1,b,n,SLU_DN,SLU_D,SLU_GE); dCreate_Dense_Matrix(&X,n,1,x,n,SLU_DN,SLU_D,SLU_GE);
  superlu_options_t o; set_default_options(&o); o.ColPerm=NATURAL; SuperLUStat_t st; StatInit(&st);
  int*pc=int32Malloc(n),*pr=int32Malloc(n),*et=int32Malloc(n); double*R=doubleMalloc(n),*C=doubleMalloc(n),ferr,berr,rpg,rcond; char eq[1]; GlobalLU_t Glu; mem_usage_t mu; int_t info;
  void*work=lwork>0?malloc(lwork):NULL;
  alarm(20);
  dgssvx(&o,&A,pc,pr,et,eq,R,C,&L,&U,work,lwork,&B,&X,&rpg,&rcond,&ferr,&berr,&Glu,&mu,&st,&info);
  double sx=0; for(int i=0;i<n;i++) sx+=x[i]*(i+1); printf("info=%lld expansions=%d sx=%.17g\n",(long long)info,st.expansions,info==0?sx:0.0); return 0; }
