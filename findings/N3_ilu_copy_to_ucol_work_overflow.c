/* N3 - heap-buffer-overflow in ilu_[sdcz]copy_to_ucol (secondary dropping) via dgsisx.
 *
 * Build (ASan, hook H1 needed only to set the tuning parameters):  ./mkH.sh N3_ilu_copy_to_ucol_work_overflow.c
 * Observed:  WRITE of size 8, 0 bytes to the right of a 48-byte region (= n*sizeof(double), n = 6)
 *            allocated at dgsitrf.c:303 (`dwork2 = SUPERLU_MALLOC(n * sizeof(double))`), written by
 *            dcopy_(&m, &ucol[xusub[jcol]], &i_1, work, &i_1)  at ilu_dcopy_to_ucol.c:174 with m = 7 > n.
 *            (c/z variants: the loop `work[i] = z_abs1(&ucol[i_1])`, i < m, ilu_zcopy_to_ucol.c:175.)
 * Why m > n (confirmed by printing usub[xusub[jcol]..xusub[jcol+1]) just before the copy): for jcol = 5 the
 *            gathered U column holds the rows  2 3 4 0 1 2 3  (m = 7, rows 2 and 3 twice).  The U-segments are
 *            taken from lsub[] of earlier *supernodes* (isub = xlsub[fsupc] + kfnz - fsupc, segsze = krep-kfnz+1);
 *            with ILU supernodes the segments of different supernodes overlap, so the length of a U column is
 *            not bounded by n, but `work` (dwork2) holds n reals.  Sizing dwork2 by n is therefore not enough;
 *            either m must be bounded (no repeated rows) or the copy limited / work sized by the column length.
 * Input: dense 6x6 diagonally dominant matrix, ILU_DropRule = DROP_BASIC|DROP_COLUMN, ILU_FillFactor = 1,
 *        ILU_MILU = SMILU_1, ILU_DropTol = 0, ColPerm = MMD_ATA, u = 0.5,
 *        tuning panel=2 relax=2 maxsuper=4 rowblk=84 colblk=2 fill=6 ilu-maxsuper=3. */
#include "slu_ddefs.h"
extern int slu_verif_ienv[8];
int main(void) {
    enum { n = 6, nnz = 36 };
    static const int cp0[n + 1] = { 0, 6, 12, 18, 24, 30, 36 };
    static const double v0[nnz] = {
        12.000, -0.403, -0.685, 0.837, 0.598, 0.958, -0.886, 12.000, 0.123, -0.745, -0.024, -0.089,
        -0.937, -0.728, 12.000, 0.994, 0.006, 0.866, 0.816, 0.743, -0.857, 12.000, -0.597, 0.787,
        0.606, 0.761, 0.456, 0.535, 12.000, -0.025, 0.687, -0.511, -0.644, 0.348, 0.848, 12.000 };
    slu_verif_ienv[1] = 2; slu_verif_ienv[2] = 2; slu_verif_ienv[3] = 4; slu_verif_ienv[4] = 84;
    slu_verif_ienv[5] = 2; slu_verif_ienv[6] = 6; slu_verif_ienv[7] = 3;
    int_t *cp = intMalloc(n + 1), *ri = intMalloc(nnz); double *v = doubleMalloc(nnz);
    for (int j = 0; j <= n; j++) cp[j] = cp0[j];
    for (int k = 0; k < nnz; k++) { ri[k] = k % n; v[k] = v0[k]; }
    SuperMatrix A, L, U, B, X;
    dCreate_CompCol_Matrix(&A, n, n, nnz, v, ri, cp, SLU_NC, SLU_D, SLU_GE);
    double *b = doubleMalloc(n), *x = doubleMalloc(n); for (int i = 0; i < n; i++) b[i] = 1.0;
    dCreate_Dense_Matrix(&B, n, 1, b, n, SLU_DN, SLU_D, SLU_GE); dCreate_Dense_Matrix(&X, n, 1, x, n, SLU_DN, SLU_D, SLU_GE);
    superlu_options_t o; ilu_set_default_options(&o);
    o.ColPerm = MMD_ATA; o.ILU_DropRule = DROP_BASIC | DROP_COLUMN; o.ILU_FillFactor = 1.0; o.ILU_MILU = SMILU_1;
    o.RowPerm = NOROWPERM; o.ILU_DropTol = 0.0; o.DiagPivotThresh = 0.5; o.Equil = NO; o.ConditionNumber = NO;
    SuperLUStat_t st; StatInit(&st);
    int *pc = int32Malloc(n), *pr = int32Malloc(n), *et = int32Malloc(n); double *R = doubleMalloc(n), *C = doubleMalloc(n);
    GlobalLU_t Glu; mem_usage_t mu; int_t info; double rpg, rcond; char equed[2] = "N";
    dgsisx(&o, &A, pc, pr, et, equed, R, C, &L, &U, NULL, 0, &B, &X, &rpg, &rcond, &Glu, &mu, &st, &info);
    printf("info = %lld (no sanitizer report: not reproduced)\n", (long long)info);
    return 0;
}
