/* ilu_ddrop_row, secondary dropping (ilu_ddrop_row.c:257-259):  lsub[i] = lsub[m1]; m1--; temp[i] = temp[m1];
 * the norm kept for the row moved from position m1 to position i is temp[m1-1] (after the decrement) instead of
 * temp[m1]: the moved row is judged by its neighbour's norm.
 * Supernode with one column, 6 rows: diagonal 4, then 1/4, 3, 1, 5, 2 (inf-norm = |value|), drop_tol = 1/2,
 * quota = 3 (DROP_BASIC | DROP_PROWS): first loop drops 1/4; qselect picks tol = 2 (the 3rd largest of 2,3,1,5);
 * the second loop must drop the rows with norm <= 2, i.e. 2 and 1, and keep 5 and 3.
 * The routine drops 2 and 5 and keeps 1 and 3.   Expected output "kept rows: 10 13 12   values 4 1 3" (wrong),
 * a correct second loop gives "10 14 12  values 4 5 3" (in some order).
 * build: cc -I/repo/SRC D15_drop_row_neighbour_norm.c <stubs for slu_verif_malloc/free/abort> .work/tree-*/asan/libslu.a -lm -fsanitize=address,undefined
 * observed on the pinned tree: "dropped 3; kept rows: 10 13 12   values 4 1 3" */
#include "slu_ddefs.h"
int main(void) {
    double lusup[6] = { 4, 0.25, 3, 1, 5, 2 }; int_t lsub[6] = { 10, 11, 12, 13, 14, 15 }, xlsub[3] = { 0, 6, 6 }, xlusup[3] = { 0, 6, 6 };
    GlobalLU_t Glu; memset(&Glu, 0, sizeof Glu); Glu.n = 8; Glu.lusup = lusup; Glu.lsub = lsub; Glu.xlsub = xlsub; Glu.xlusup = xlusup;
    superlu_options_t o; ilu_set_default_options(&o); o.ILU_DropRule = DROP_BASIC | DROP_PROWS; o.ILU_MILU = SILU; o.ILU_Norm = INF_NORM;
    double work[8] = { 0 }, work2[8]; int nnzLj = 0; double fill_tol = 0.01;
    int r = ilu_ddrop_row(&o, 0, 0, 0.5, 3, &nnzLj, &fill_tol, &Glu, work + 1, work2, 0);
    printf("dropped %d; kept rows:", r); for (int i = 0; i < xlsub[1]; i++) printf(" %d", (int)lsub[i]);
    printf("   values"); for (int i = 0; i < xlusup[1]; i++) printf(" %g", lusup[i]); printf("\n");
    return 0;
}
