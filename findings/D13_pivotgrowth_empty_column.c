#include "slu_ddefs.h"
int main(){ int n=2; int_t*cp=intMalloc(3),*ri=intMalloc(1); double*v=doubleMalloc(1); cp[0]=0;cp[1]=1;cp[2]=1; ri[0]=0; v[0]=1.0;
  SuperMatrix A,L,U,B,X; dCreate_CompCol_Matrix(&A,n,n,1,v,ri,cp,SLU_NC,SLU_D,SLU_GE);
  double*b=doubleMalloc(n),*x=doubleMalloc(n); b[0]=b[1]=1; dCreate_Dense_Matrix(&B,n,1,b,n,SLU_DN,SLU_D,SLU_GE); dCreate_Dense_Matrix(&X,n,1,x,n,SLU_DN,SLU_D,SLU_GE);
  superlu_options_t o; set_default_options(&o); o.ColPerm=NATURAL; o.Equil=NO; SuperLUStat_t st; StatInit(&st);
  int pc[2],pr[2],et[2]; double R[2],C[2],ferr,berr,rpg=-1,rcond; char eq[1]; GlobalLU_t Glu; mem_usage_t mu; int_t info;
  dgssvx(&o,&A,pc,pr,et,eq,R,C,&L,&U,NULL,0,&B,&X,&rpg,&rcond,&ferr,&berr,&Glu,&mu,&st,&info);
  printf("info=%d rpg=%g\n",(int)info,rpg); return 0; }
