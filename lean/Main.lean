import Slu
/-
sludrv — line-protocol driver (lean_exe).  Reads cases from stdin, dispatches on the family,
prints one `res` line per case.
-/
open Slu

def dispatch (c : Case) : Res :=
  if !c.bad.isEmpty then Res.skip s!"unparsed line: {c.bad.head!}" else
  match lookup? c.fam handlers with
  | some h => h c
  | none => Res.skip s!"no handler for family {c.fam}"

partial def loop (h : IO.FS.Stream) (cur : Option Case) (hash : UInt64) : IO Unit := do
  let line ← h.getLine
  if line.isEmpty then return ()
  let l := (line.dropEndWhile (fun ch => ch == '\n' || ch == '\r')).toString
  if l.startsWith "case " then
    match l.splitOn " " with
    | [_, fam, id] => loop h (some { fam := fam, id := id.toNat?.getD 0 }) (fnv 14695981039346656037 fam)
    | _ => loop h none 0
  else if l == "end" then
    match cur with
    | some c =>
      let r := dispatch c
      IO.println (r.render c.id hash)
      (← IO.getStdout).flush
      loop h none 0
    | none => loop h none 0
  else
    match cur with
    | some c => loop h (some (parseLine c l)) (fnv hash l)
    | none => loop h none 0

def main : IO Unit := do
  loop (← IO.getStdin) none 0
