import Slu.Scalar
/-
Complex arithmetic exactly as the library's macros/functions perform it
(SRC/slu_dcomplex.h: zz_mult, z_add, z_sub, zd_mult, zz_conj; SRC/dcomplex.c: z_div = Smith's
algorithm; the single-precision twins are identical with `float`).  Fidelity B at `Float`/`Float32`;
at `Rat` these are the field operations of Q(i) (see SluProofs/Lemmas/CxField.lean).
-/
namespace Slu
namespace Cx
variable {R : Type}

instance [Zero R] : Zero (Cx R) := ⟨⟨0, 0⟩⟩
instance [Zero R] [One R] : One (Cx R) := ⟨⟨1, 0⟩⟩
instance [Add R] : Add (Cx R) := ⟨fun a b => ⟨a.re + b.re, a.im + b.im⟩⟩
instance [Sub R] : Sub (Cx R) := ⟨fun a b => ⟨a.re - b.re, a.im - b.im⟩⟩
instance [Neg R] : Neg (Cx R) := ⟨fun a => ⟨-a.re, -a.im⟩⟩
/-- `zz_mult`: cr = a.r*b.r - a.i*b.i; ci = a.i*b.r + a.r*b.i -/
instance [Add R] [Sub R] [Mul R] : Mul (Cx R) :=
  ⟨fun a b => ⟨a.re * b.re - a.im * b.im, a.im * b.re + a.re * b.im⟩⟩

/-- `z_div` (Smith's algorithm, dcomplex.c:32-58); the division-by-zero exit is not modelled
(callers divide by a pivot that was tested to be nonzero) -/
def smithDiv [Zero R] [One R] [Add R] [Sub R] [Mul R] [Div R] [Neg R] [LT R] [DecidableLT R] [LE R] [DecidableLE R]
    (a b : Cx R) : Cx R :=
  let abr := if b.re < 0 then -b.re else b.re
  let abi := if b.im < 0 then -b.im else b.im
  if abr ≤ abi then
    let ratio := b.re / b.im
    let den := b.im * (1 + ratio * ratio)
    ⟨(a.re * ratio + a.im) / den, (a.im * ratio - a.re) / den⟩
  else
    let ratio := b.im / b.re
    let den := b.re * (1 + ratio * ratio)
    ⟨(a.re + a.im * ratio) / den, (a.im - a.re * ratio) / den⟩

instance [Zero R] [One R] [Add R] [Sub R] [Mul R] [Div R] [Neg R] [LT R] [DecidableLT R] [LE R] [DecidableLE R] :
    Div (Cx R) := ⟨smithDiv⟩

def conj [Neg R] (a : Cx R) : Cx R := ⟨a.re, -a.im⟩
end Cx

/-- conjugation: identity on real scalars -/
class HasConj (K : Type) where
  conj : K → K
instance : HasConj Float := ⟨id⟩
instance : HasConj Float32 := ⟨id⟩
instance : HasConj Rat := ⟨id⟩
instance {R : Type} [Neg R] : HasConj (Cx R) := ⟨Cx.conj⟩

/-- exact test `x == 0` as the C code writes it (`x == 0.0`, `pivmax == 0.0`) -/
class IsZero (K : Type) where
  isZero : K → Bool
instance : IsZero Float := ⟨fun x => x == 0.0⟩
instance : IsZero Float32 := ⟨fun x => x == 0.0⟩
instance : IsZero Rat := ⟨fun x => x == 0⟩
instance {R : Type} [IsZero R] : IsZero (Cx R) := ⟨fun z => IsZero.isZero z.re && IsZero.isZero z.im⟩

end Slu
