import Slu.Model.Cblas
import Slu.Model.Kernels
/-
C14 — the bundled reference BLAS, level 2: `[sdcz]gemv_` (CBLAS/dgemv.c:139-281, sgemv.c,
zgemv.c:140-355, cgemv.c) and `[sdcz]trsv_` (CBLAS/dtrsv.c:135-325, strsv.c, ztrsv.c:137-449,
ctrsv.c).  Core Lean only.  Fidelity **B** at `Float/Float32/Cx _` (compared bit for bit by family
`cblas`), **X** at `Rat / Cx Rat`.

* `gemv`: the loop nest of `?gemv_` is the loop nest of `sp_?gemv` (SRC/dsp_blas2.c:402-482) run on a
  matrix whose every column stores all `m` rows: quick return `m == 0 || n == 0 || (alpha == 0 &&
  beta == 1)`; "first form y := beta*y" (`beta == 0`: y is set to 0 and not read); return when
  `alpha == 0`; op = N: per column `if (X(jx) != 0.) { temp = alpha*X(jx); Y(i) += temp*A(i,j) }`;
  op = T/C: `temp = 0; temp += [conj]A(i,j)*X(i); Y(jy) += alpha*temp`.  So `gemv` IS
  `Kernels.spGemv` on `denseCSC` (same operations, same order; the f2c complex product writes
  the imaginary part as `a.r*b.i + a.i*b.r`, `Cx`'s `*` as `a.i*b.r + a.r*b.i` — IEEE addition is
  commutative, the correspondence check compares the bits).  The `incx == 1` / `incy == 1`
  special-case loops of the C text visit the same positions as the general loops.
  NOT mirrored: the argument check (an `info != 0` call prints through `input_error` and returns
  with y untouched).  dgemv.c:141 tests `strncmp(trans, "C", 1)==0` where the three other precisions
  test `!=0`: `dgemv_` REJECTS trans = "C" (info = 1) and lets every other letter through as
  "transpose"; `sgemv_/cgemv_/zgemv_` accept N, T, C (upper case only).
* `trsv`: statement order of `?trsv_`; positions through `spos` (the `incx == 1` copies of the loops
  visit the same positions).  op = N: column sweep with the `if (X(j) != 0.)` skip; op = T/C: dot
  product form, `temp -= [conj]A(i,j)*X(i)`, division by `[conj]A(j,j)` when `diag = "N"`
  (`z_div`/`c_div` = Smith's algorithm = the `Div (Cx _)` instance).
-/
namespace Slu.Cblas
open Slu Slu.Kernels

section lvl2
variable {K : Type} [Inhabited K] [Zero K] [One K] [Add K] [Sub K] [Mul K] [Div K] [Conj K] [BEq K]

/-- the `m x n` column-major array `a` (leading dimension `lda`) as a column list storing every row -/
def denseCSC (m n lda : Nat) (a : Array K) : CSC K where
  m := m
  n := n
  colptr := (Array.range (n + 1)).map (· * m)
  rowind := (Array.range (m * n)).map (· % m)
  val := (Array.range (m * n)).map fun k => a[k % m + (k / m) * lda]!

/-- `[sdcz]gemv_` on arguments that pass the argument check -/
def gemv (tr : Tr) (m n : Nat) (alpha : K) (a : Array K) (lda : Nat) (x : Array K) (incx : Int)
    (beta : K) (y : Array K) (incy : Int) : Array K :=
  spGemv tr alpha (denseCSC m n lda a) x incx beta y incy

/-- `[sdcz]trsv_` on arguments that pass the argument check (`n ≥ 0`, `lda ≥ max(1,n)`, `incx ≠ 0`) -/
def trsv (upper : Bool) (tr : Tr) (nounit : Bool) (n : Nat) (a : Array K) (lda : Nat)
    (x : Array K) (incx : Int) : Array K :=
  let A (i j : Nat) : K := a[i + j * lda]!
  let P (i : Nat) : Nat := spos n incx i
  if tr == Tr.N then
    if upper then
      loop n (fun (x : Array K) jj =>
        let j := n - 1 - jj
        if x[P j]! == 0 then x else
        let x := if nounit then x.setIfInBounds (P j) (x[P j]! / A j j) else x
        let temp := x[P j]!
        loop j (fun (x : Array K) ii => let i := j - 1 - ii
          x.setIfInBounds (P i) (x[P i]! - temp * A i j)) x) x
    else
      loop n (fun (x : Array K) j =>
        if x[P j]! == 0 then x else
        let x := if nounit then x.setIfInBounds (P j) (x[P j]! / A j j) else x
        let temp := x[P j]!
        loop (n - 1 - j) (fun (x : Array K) ii => let i := j + 1 + ii
          x.setIfInBounds (P i) (x[P i]! - temp * A i j)) x) x
  else
    if upper then
      loop n (fun (x : Array K) j =>
        let temp := loop j (fun (t : K) i => t - cj tr (A i j) * x[P i]!) x[P j]!
        let temp := if nounit then temp / cj tr (A j j) else temp
        x.setIfInBounds (P j) temp) x
    else
      loop n (fun (x : Array K) jj =>
        let j := n - 1 - jj
        let temp := loop (n - 1 - j) (fun (t : K) ii => let i := n - 1 - ii
          t - cj tr (A i j) * x[P i]!) x[P j]!
        let temp := if nounit then temp / cj tr (A j j) else temp
        x.setIfInBounds (P j) temp) x

end lvl2
end Slu.Cblas
