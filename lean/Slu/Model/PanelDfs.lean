import Slu.Model.ColDfs
/-
Array-level, statement-order mirror of SRC/[sdcz]panel_dfs.c — the WHOLE routine (the four precisions are
textually identical up to the routine prefix and the element type of `dense` / `A->nzval`: values are only
MOVED from `a[k]` to `dense_col[krow]`, never computed with, so the model is generic in the value type `V`).
Fidelity level B (integer mirror: every integer array the routine reads or writes is an `Array Int`,
`EMPTY = -1`; reads/writes `rd`/`wr`, `repOf`, `slice` are the definitions of Slu/Model/ColDfs.lean).

The inner explicit-stack loop (dpanel_dfs.c:173-251) is the machine of dcolumn_dfs.c:164-227
(`Slu.ColDfs.rowStep/popStep/step/run`) with exactly these textual differences:
  (D1) the row mark is `marker[row]` (offset 0, not `marker2 = marker + 2*m`) and the mark VALUE is the
       panel column `jj` (not `jcol`);
  (D2) `repfnz` is the slice `repfnz_col = repfnz + (jj-jcol)*m` of the panel array;
  (D3) an unpivoted row goes to `panel_lsub[nextl_col++]` (`nextl_col` starts at `(jj-jcol)*m`), not to
       `lsub[nextl++]`: `Glu->lsub` is READ ONLY here, there is no growth request and no `jsuper` test;
  (D4) `segrep[nseg++] = krep` happens only if `marker1[krep] < jcol` (`marker1 = marker + m`), and then
       `marker1[krep] = jj`: a representative is recorded in the SHARED `segrep` only the first time any
       column of the panel finishes it;  `nseg` starts at 0 (line 113);
  (D5) the roots are the rows `asub[xa_begin[jj] .. xa_end[jj])` of A (NCP view), not an EMPTY-terminated
       `lsub_col` (nothing is cleared), and `dense_col[krow] = a[k]` is stored for EVERY entry, before the
       mark test (line 130);
  (D6) `xdfs = xlsub[krep]; maxdfs = xprune[krep]` — the same PRUNED range as column_dfs (`xprune` is the
       routine's argument, the same array dgstrf hands to column_dfs / pruneL).

* `rowStep`   dpanel_dfs.c:179-224   * `popStep` 234-244   * `step`/`run` 173-251 (fuel as in ColDfs)
* `rootStep`  dpanel_dfs.c:129-255 — one entry `k` of column jj      * `colLoop` 128-257
* `panelLoop` dpanel_dfs.c:120-262 — `for (jj = jcol; jj < jcol + w; jj++)`, `repfnz_col += m; dense_col += m`
* `panelDfs`  the whole routine (lines 105-264).
Core Lean only.  Properties: SluProofs/Lemmas/PanelDfs.lean, SluProofs/Props/C02.lean.
-/
namespace Slu.PanelDfs
open Slu.ColDfs (EMPTY oob rd wr repOf slice allBelow)

/-- what the search only reads; `jj` is the panel column being searched -/
structure Env where
  m : Int
  jcol : Int
  jj : Int
  perm_r : Array Int
  xsup : Array Int
  supno : Array Int
  lsub : Array Int
  xlsub : Array Int
  xprune : Array Int

/-- what the search writes (`marker` is the whole `3*m` array: `marker[0..m)`, `marker1 = marker + m`;
`repfnz`, `panelLsub` are the whole `w*m` panel arrays; `nextl` is `nextl_col`) -/
structure St where
  panelLsub : Array Int
  marker : Array Int
  repfnz : Array Int
  parent : Array Int
  xplore : Array Int
  segrep : Array Int
  nseg : Int
  nextl : Int

structure Cfg where
  krep : Int
  xdfs : Int
  maxdfs : Int
  st : St

/-- `(jj - jcol) * m`: offset of `repfnz_col` / `dense_col` / start of `nextl_col` -/
def Env.off (e : Env) : Int := (e.jj - e.jcol) * e.m

/-- the ColDfs view of the read-only arrays (only `repOf` is used through it) -/
def Env.cenv (e : Env) : Slu.ColDfs.Env :=
  { m := e.m, jcol := e.jcol, perm_r := e.perm_r, xsup := e.xsup, supno := e.supno, xlsub := e.xlsub, xprune := e.xprune }

/-- `repfnz_col[s]` -/
def fnz (e : Env) (st : St) (s : Int) : Int := rd st.repfnz (e.off + s)

/-- lines 142 / 189: `panel_lsub[nextl_col++] = row` -/
def appendRow (st : St) (row : Int) : St :=
  { st with panelLsub := wr st.panelLsub st.nextl row, nextl := st.nextl + 1 }

/-- lines 157 / 203-204: `if (myfnz > kperm) repfnz_col[rep] = kperm` -/
def lowerFnz (e : Env) (st : St) (rep myfnz kperm : Int) : St :=
  if myfnz > kperm then { st with repfnz := wr st.repfnz (e.off + rep) kperm } else st

/-- lines 179-224 -/
def rowStep (e : Env) (c : Cfg) : Cfg :=
  let st := c.st
  let kchild := rd e.lsub c.xdfs
  let xdfs := c.xdfs + 1
  let chmark := rd st.marker kchild
  if chmark ≠ e.jj then
    let st := { st with marker := wr st.marker kchild e.jj }
    let chperm := rd e.perm_r kchild
    if chperm = EMPTY then
      { c with xdfs := xdfs, st := appendRow st kchild }
    else
      let chrep := repOf e.cenv chperm
      let myfnz := fnz e st chrep
      if myfnz ≠ EMPTY then
        { c with xdfs := xdfs, st := lowerFnz e st chrep myfnz chperm }
      else
        let st := { st with xplore := wr st.xplore c.krep xdfs }
        let st := { st with parent := wr st.parent chrep c.krep }
        let st := { st with repfnz := wr st.repfnz (e.off + chrep) chperm }
        { krep := chrep, xdfs := rd e.xlsub chrep, maxdfs := rd e.xprune chrep, st := st }
  else { c with xdfs := xdfs }

/-- lines 234-238: record `krep` in the shared `segrep` the first time a panel column finishes it -/
def record (e : Env) (st : St) (krep : Int) : St :=
  if rd st.marker (e.m + krep) < e.jcol then
    { st with segrep := wr st.segrep st.nseg krep, nseg := st.nseg + 1, marker := wr st.marker (e.m + krep) e.jj }
  else st

/-- lines 234-244 -/
def popStep (e : Env) (c : Cfg) : Cfg ⊕ St :=
  let st := record e c.st c.krep
  let kpar := rd st.parent c.krep
  if kpar = EMPTY then .inr st
  else .inl { krep := kpar, xdfs := rd st.xplore kpar, maxdfs := rd e.xprune kpar, st := st }

def step (e : Env) (c : Cfg) : Cfg ⊕ St :=
  if c.xdfs < c.maxdfs then .inl (rowStep e c) else popStep e c

def run (e : Env) : Nat → Cfg → Option St
  | 0, _ => none
  | fuel + 1, c =>
    match step e c with
    | .inl c' => run e fuel c'
    | .inr st => some st

/-- lines 131-255 (after the `dense_col` store): one nonzero `krow` of column jj -/
def rootStep (e : Env) (fuel : Nat) (st : St) (krow : Int) : Option St :=
  let kmark := rd st.marker krow
  if kmark = e.jj then some st
  else
    let st := { st with marker := wr st.marker krow e.jj }
    let kperm := rd e.perm_r krow
    if kperm = EMPTY then some (appendRow st krow)
    else
      let krep := repOf e.cenv kperm
      let myfnz := fnz e st krep
      if myfnz ≠ EMPTY then some (lowerFnz e st krep myfnz kperm)
      else
        let st := { st with parent := wr st.parent krep EMPTY }
        let st := { st with repfnz := wr st.repfnz (e.off + krep) kperm }
        run e fuel { krep := krep, xdfs := rd e.xlsub krep, maxdfs := rd e.xprune krep, st := st }

/-- the integer part of lines 128-257 for a list of rows (the rows `asub[xa_begin[jj] .. xa_end[jj])`) -/
def search (e : Env) (fuel : Nat) : List Int → St → Option St
  | [], st => some st
  | krow :: rows, st =>
    match rootStep e fuel st krow with
    | none => none
    | some st' => search e fuel rows st'

/-- `a[i] = v` on a value array -/
def wrV {V : Type} (a : Array V) (i : Int) (v : V) : Array V := if 0 ≤ i then a.setIfInBounds i.toNat v else a

/-- line 130 for every entry of the column: `dense_col[asub[k]] = a[k]`, in storage order (later wins) -/
def scatter {V : Type} (dense : Array V) (off : Int) : List (Int × V) → Array V
  | [] => dense
  | (krow, v) :: rest => scatter (wrV dense (off + krow) v) off rest

/-- everything the routine is handed -/
structure Input (V : Type) where
  m : Int
  w : Int
  jcol : Int
  asub : Array Int
  nzval : Array V
  colbeg : Array Int
  colend : Array Int
  perm_r : Array Int
  dense : Array V
  panelLsub : Array Int
  segrep : Array Int
  repfnz : Array Int
  xprune : Array Int
  marker : Array Int
  parent : Array Int
  xplore : Array Int
  xsup : Array Int
  supno : Array Int
  lsub : Array Int
  xlsub : Array Int

variable {V : Type}

def Input.env (i : Input V) (jj : Int) : Env :=
  { m := i.m, jcol := i.jcol, jj := jj, perm_r := i.perm_r, xsup := i.xsup, supno := i.supno, lsub := i.lsub,
    xlsub := i.xlsub, xprune := i.xprune }

/-- lines 110-113: `*nseg = 0` -/
def Input.st0 (i : Input V) : St :=
  { panelLsub := i.panelLsub, marker := i.marker, repfnz := i.repfnz, parent := i.parent, xplore := i.xplore,
    segrep := i.segrep, nseg := 0, nextl := 0 }

/-- the positions `xa_begin[jj] .. xa_end[jj]-1` -/
def colRange (i : Input V) (jj : Int) : List Nat :=
  List.range' (rd i.colbeg jj).toNat (rd i.colend jj - rd i.colbeg jj).toNat

/-- `asub[xa_begin[jj] .. xa_end[jj])` -/
def colRows (i : Input V) (jj : Int) : List Int := slice i.asub (rd i.colbeg jj) (rd i.colend jj)

/-- `(asub[k], a[k])` for the entries of column jj (an out-of-range value read is skipped: excluded by `wfPanelIn`) -/
def colEntries (i : Input V) (jj : Int) : List (Int × V) :=
  (colRange i jj).filterMap fun (k : Nat) => (i.nzval[k]?).map fun v => (rd i.asub (k : Int), v)

/-- a fuel that always suffices on well-formed states: as `Slu.ColDfs.fuelBound` -/
def fuelBound (i : Input V) : Nat := (i.jcol.toNat + 1) * (i.lsub.size + 2)

/-- lines 120-262: the columns `jj = jcol + k`, `k = done .. done + n - 1`.  The order of the stores
`dense_col[krow] = a[k]` relative to the integer stores is immaterial (disjoint arrays), so the column's
scatter is done in one go. -/
def panelLoop (i : Input V) (fuel : Nat) : Nat → Int → St → Array V → Option (St × Array V)
  | 0, _, st, dense => some (st, dense)
  | n + 1, jj, st, dense =>
    let e := i.env jj
    let dense := scatter dense e.off (colEntries i jj)
    match search e fuel (colRows i jj) { st with nextl := e.off } with
    | none => none
    | some st' => panelLoop i fuel n (jj + 1) st' dense

/-- everything the routine leaves behind (`xprune`, `perm_r`, A and `Glu` are read only) -/
structure Output (V : Type) where
  nseg : Int
  dense : Array V
  panelLsub : Array Int
  segrep : Array Int
  repfnz : Array Int
  marker : Array Int
  parent : Array Int
  xplore : Array Int

/-- `[sdcz]panel_dfs` -/
def panelDfs (i : Input V) (fuel : Nat) : Option (Output V) :=
  match panelLoop i fuel i.w.toNat i.jcol i.st0 i.dense with
  | none => none
  | some (st, dense) =>
    some { nseg := st.nseg, dense := dense, panelLsub := st.panelLsub, segrep := st.segrep, repfnz := st.repfnz,
           marker := st.marker, parent := st.parent, xplore := st.xplore }

/-! ### the graph read off the arrays and the well-formedness the theorems assume -/

/-- the ColDfs input that describes the same factored part (columns `0 .. jcol-1`): used only for its
graph (`adjR`, `repN`, `rootCols`) and its read-only well-formedness -/
def Input.cenv (i : Input V) : Slu.ColDfs.Env := (i.env i.jcol).cenv

/-- decidable well-formedness of the state handed to the routine -/
def wfPanelIn (i : Input V) : Bool :=
  let e := i.cenv
  let nextl0 := rd i.xlsub i.jcol
  decide (0 ≤ i.jcol) && decide (1 ≤ i.w) && decide (i.jcol + i.w ≤ i.m) &&
  decide ((i.perm_r.size : Int) = i.m) && decide ((i.marker.size : Int) = 3 * i.m) &&
  decide ((i.repfnz.size : Int) = i.w * i.m) && decide ((i.panelLsub.size : Int) = i.w * i.m) &&
  decide ((i.dense.size : Int) = i.w * i.m) &&
  decide (i.jcol ≤ i.parent.size) && decide (i.jcol ≤ i.xplore.size) && decide (i.jcol ≤ i.segrep.size) &&
  decide (0 ≤ nextl0) && decide (nextl0 ≤ i.lsub.size) &&
  allBelow i.m (fun r => rd i.perm_r r = EMPTY || (0 ≤ rd i.perm_r r && rd i.perm_r r < i.jcol)) &&
  -- no row carries the mark of a panel column yet; no representative is recorded for this panel yet
  allBelow i.m (fun r => rd i.marker r < i.jcol) &&
  allBelow i.jcol (fun s => rd i.marker (i.m + s) < i.jcol) &&
  -- repfnz of the panel is clean (dgstrf: resetrep_col after every column)
  allBelow (i.w * i.m) (fun x => rd i.repfnz x = EMPTY) &&
  allBelow i.jcol (fun k => (k : Int) ≤ repOf e k && repOf e k < i.jcol && repOf e (repOf e k) = repOf e k) &&
  allBelow i.jcol (fun s => repOf e s ≠ s ||
    (0 ≤ rd i.xlsub s && rd i.xlsub s ≤ rd i.xprune s && rd i.xprune s ≤ nextl0 &&
     (Slu.ColDfs.adjRows e i.lsub s).all fun row => 0 ≤ row && row < i.m && (rd i.perm_r row = EMPTY || (s : Int) ≤ rd i.perm_r row))) &&
  -- the panel columns of A: positions inside asub/nzval, rows in range
  allBelow i.w (fun k =>
    let jj := i.jcol + k
    0 ≤ rd i.colbeg jj && rd i.colbeg jj ≤ rd i.colend jj && rd i.colend jj ≤ i.asub.size && rd i.colend jj ≤ i.nzval.size &&
    (colRows i jj).all fun row => 0 ≤ row && row < i.m)

end Slu.PanelDfs
