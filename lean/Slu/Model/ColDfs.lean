/-
Array-level, statement-order mirror of SRC/[sdcz]column_dfs.c (the four precisions are textually
identical up to the routine prefix: no numeric value is touched).  Fidelity level B (integer mirror:
every array the routine reads or writes is an `Array Int`, indices and stored values are C `int`s,
`EMPTY = -1`).

* `rowStep`   dcolumn_dfs.c:170-211 — one trip of `while (xdfs < maxdfs)`: read `kchild`, marker test,
              `chperm = perm_r[kchild]`; EMPTY: append to `lsub` of jcol (+ the row-subset test that
              clears `jsuper`); else `chrep`, `repfnz` update or descent (`xplore[krep] = xdfs`,
              `parent[chrep] = krep`, `repfnz[chrep] = chperm`, `xdfs/maxdfs` of the new node).
* `step`      dcolumn_dfs.c:164-227 — the `do … while (kpar != EMPTY)` loop as a machine on
              `(krep, xdfs, maxdfs)`: a row step while `xdfs < maxdfs`, otherwise
              `segrep[nseg++] = krep`, `kpar = parent[krep]`, stop on EMPTY or resume the parent at
              `xplore[kpar]`, `xprune[kpar]`.
* `run`       the machine iterated with fuel (`none` = fuel exhausted; Lemmas/ColDfs.lean proves a
              bound computed from the arrays under which that never happens).
* `rootStep`  dcolumn_dfs.c:124-231 — one nonzero `krow` of `A(:,jcol)` (one trip of the `for` loop).
* `search`    dcolumn_dfs.c:122-233 — the `for` loop over `lsub_col[0..]` up to the EMPTY terminator
              (the loop also overwrites the entries it has read by EMPTY: `clearCol`).
* `boundary`  dcolumn_dfs.c:235-279 — same supernode as jcol-1?  (row-subset flag `jsuper`, the T2 test
              `nextl-jptr != jptr-jm1ptr-1`, `maxsuper`), compression of the previous supernode's
              subscripts when it has >= 3 columns, `supno/xsup/xprune/xlsub` updates.
* `columnDfs` the whole routine.

Abstracted: the growth request `nextl >= nzlmax -> LUMemXpand` (lines 139-143, 181-186) — the model
assumes the capacity is enough (`lsub.size > nextl` throughout; storage growth is C07/C08's business);
the correspondence family allocates `nzlmax` accordingly and never lets the branch fire.
An out-of-range read yields the poison value `oob`; an out-of-range write is dropped (the C code
would be aborted by the sanitizer on the exact-size arrays of the family).
Core Lean only.  Properties: SluProofs/Lemmas/ColDfs.lean, SluProofs/Props/C02.lean.
-/
namespace Slu.ColDfs

/-- `SLU_EMPTY` -/
abbrev EMPTY : Int := -1
/-- what an out-of-range read returns -/
abbrev oob : Int := -99999

/-- `a[i]` -/
def rd (a : Array Int) (i : Int) : Int := if 0 ≤ i then a.getD i.toNat oob else oob
/-- `a[i] = v` -/
def wr (a : Array Int) (i : Int) (v : Int) : Array Int := if 0 ≤ i then a.setIfInBounds i.toNat v else a

/-- what the search only reads -/
structure Env where
  m : Int
  jcol : Int
  perm_r : Array Int
  xsup : Array Int
  supno : Array Int
  xlsub : Array Int
  xprune : Array Int

/-- what the search writes (`marker` is the whole `3*m` array; the routine uses `marker2 = marker + 2*m`) -/
structure St where
  lsub : Array Int
  marker : Array Int
  repfnz : Array Int
  parent : Array Int
  xplore : Array Int
  segrep : Array Int
  nseg : Int
  nextl : Int
  jsuper : Int

/-- the configuration of the explicit-stack loop -/
structure Cfg where
  krep : Int
  xdfs : Int
  maxdfs : Int
  st : St

/-- `xsup[supno[kperm]+1] - 1`: representative (last column) of the supernode of column `kperm` -/
def repOf (e : Env) (kperm : Int) : Int := rd e.xsup (rd e.supno kperm + 1) - 1

/-- `marker2[row]` -/
def mk2 (e : Env) (st : St) (row : Int) : Int := rd st.marker (2 * e.m + row)

/-- lines 138-144 / 180-187: `lsub[nextl++] = row; if (mark != jcolm1) jsuper = EMPTY` -/
def appendRow (e : Env) (st : St) (row mark : Int) : St :=
  let st := { st with lsub := wr st.lsub st.nextl row, nextl := st.nextl + 1 }
  if mark ≠ e.jcol - 1 then { st with jsuper := EMPTY } else st

/-- lines 152-155 / 195-197: `if (myfnz > kperm) repfnz[rep] = kperm` -/
def lowerFnz (st : St) (rep myfnz kperm : Int) : St :=
  if myfnz > kperm then { st with repfnz := wr st.repfnz rep kperm } else st

/-- lines 170-211 -/
def rowStep (e : Env) (c : Cfg) : Cfg :=
  let st := c.st
  let kchild := rd st.lsub c.xdfs
  let xdfs := c.xdfs + 1
  let chmark := mk2 e st kchild
  if chmark ≠ e.jcol then
    let st := { st with marker := wr st.marker (2 * e.m + kchild) e.jcol }
    let chperm := rd e.perm_r kchild
    if chperm = EMPTY then
      { c with xdfs := xdfs, st := appendRow e st kchild chmark }
    else
      let chrep := repOf e chperm
      let myfnz := rd st.repfnz chrep
      if myfnz ≠ EMPTY then
        { c with xdfs := xdfs, st := lowerFnz st chrep myfnz chperm }
      else
        let st := { st with xplore := wr st.xplore c.krep xdfs }
        let st := { st with parent := wr st.parent chrep c.krep }
        let st := { st with repfnz := wr st.repfnz chrep chperm }
        { krep := chrep, xdfs := rd e.xlsub chrep, maxdfs := rd e.xprune chrep, st := st }
  else { c with xdfs := xdfs }

/-- lines 219-225: place `krep` in postorder, pop -/
def popStep (e : Env) (c : Cfg) : Cfg ⊕ St :=
  let st := { c.st with segrep := wr c.st.segrep c.st.nseg c.krep, nseg := c.st.nseg + 1 }
  let kpar := rd st.parent c.krep
  if kpar = EMPTY then .inr st
  else .inl { krep := kpar, xdfs := rd st.xplore kpar, maxdfs := rd e.xprune kpar, st := st }

/-- one transition of the `do … while` loop -/
def step (e : Env) (c : Cfg) : Cfg ⊕ St :=
  if c.xdfs < c.maxdfs then .inl (rowStep e c) else popStep e c

/-- the loop, at most `fuel` transitions -/
def run (e : Env) : Nat → Cfg → Option St
  | 0, _ => none
  | fuel + 1, c =>
    match step e c with
    | .inl c' => run e fuel c'
    | .inr st => some st

/-- lines 124-231: one nonzero `krow` of the column -/
def rootStep (e : Env) (fuel : Nat) (st : St) (krow : Int) : Option St :=
  let kmark := mk2 e st krow
  if kmark = e.jcol then some st
  else
    let st := { st with marker := wr st.marker (2 * e.m + krow) e.jcol }
    let kperm := rd e.perm_r krow
    if kperm = EMPTY then some (appendRow e st krow kmark)
    else
      let krep := repOf e kperm
      let myfnz := rd st.repfnz krep
      if myfnz ≠ EMPTY then some (lowerFnz st krep myfnz kperm)
      else
        let st := { st with parent := wr st.parent krep EMPTY }
        let st := { st with repfnz := wr st.repfnz krep kperm }
        run e fuel { krep := krep, xdfs := rd e.xlsub krep, maxdfs := rd e.xprune krep, st := st }

/-- lines 122-233 -/
def search (e : Env) (fuel : Nat) : List Int → St → Option St
  | [], st => some st
  | krow :: rows, st =>
    match rootStep e fuel st krow with
    | none => none
    | some st' => search e fuel rows st'

/-- the entries of `lsub_col` before the EMPTY terminator -/
def colRows (lsubCol : Array Int) : List Int := lsubCol.toList.takeWhile (· ≠ EMPTY)

/-- `lsub_col[k] = EMPTY` for every entry read -/
def clearCol (lsubCol : Array Int) : Array Int :=
  let n := (colRows lsubCol).length
  (lsubCol.toList.mapIdx fun i v => if i < n then EMPTY else v).toArray

/-- everything the routine is handed -/
structure Input where
  m : Int
  jcol : Int
  maxsuper : Int
  perm_r : Array Int
  nseg : Int
  lsubCol : Array Int
  segrep : Array Int
  repfnz : Array Int
  xprune : Array Int
  marker : Array Int
  parent : Array Int
  xplore : Array Int
  xsup : Array Int
  supno : Array Int
  lsub : Array Int
  xlsub : Array Int

def Input.env (i : Input) : Env :=
  { m := i.m, jcol := i.jcol, perm_r := i.perm_r, xsup := i.xsup, supno := i.supno, xlsub := i.xlsub, xprune := i.xprune }

/-- lines 116-119 -/
def Input.st0 (i : Input) : St :=
  { lsub := i.lsub, marker := i.marker, repfnz := i.repfnz, parent := i.parent, xplore := i.xplore,
    segrep := i.segrep, nseg := i.nseg, nextl := rd i.xlsub i.jcol, jsuper := rd i.supno i.jcol }

/-- everything the routine leaves behind -/
structure Output where
  ret : Int
  nseg : Int
  lsubCol : Array Int
  segrep : Array Int
  repfnz : Array Int
  xprune : Array Int
  marker : Array Int
  parent : Array Int
  xplore : Array Int
  xsup : Array Int
  supno : Array Int
  lsub : Array Int
  xlsub : Array Int
  deriving Repr

/-- lines 265-266: `for (ifrom = jm1ptr; ifrom < nextl; ++ifrom, ++ito) lsub[ito] = lsub[ifrom]` -/
def copyDown (lsub : Array Int) : Nat → Int → Int → Array Int
  | 0, _, _ => lsub
  | n + 1, ifrom, ito => copyDown (wr lsub ito (rd lsub ifrom)) n (ifrom + 1) (ito + 1)

/-- the arrays the supernode-boundary part works on -/
structure Bnd where
  lsub : Array Int
  xlsub : Array Int
  xprune : Array Int
  xsup : Array Int
  supno : Array Int
  nextl : Int

/-- lines 235-279 -/
def boundary (jcol maxsuper : Int) (jsuper0 : Int) (b : Bnd) : Bnd :=
  let jcolp1 := jcol + 1
  let jcolm1 := jcol - 1
  let nsuper0 := rd b.supno jcol
  let (b, nsuper) :=
    if jcol = 0 then
      ({ b with supno := wr b.supno 0 0 }, (0 : Int))
    else
      let fsupc := rd b.xsup nsuper0
      let jptr := rd b.xlsub jcol
      let jm1ptr := rd b.xlsub jcolm1
      let jsuper := if b.nextl - jptr ≠ jptr - jm1ptr - 1 then EMPTY else jsuper0
      let jsuper := if jcol - fsupc ≥ maxsuper then EMPTY else jsuper
      if jsuper = EMPTY then
        let b :=
          if fsupc < jcolm1 - 1 then
            let ito := rd b.xlsub (fsupc + 1)
            let b := { b with xlsub := wr b.xlsub jcolm1 ito }
            let istop := ito + jptr - jm1ptr
            let b := { b with xprune := wr b.xprune jcolm1 istop }
            let b := { b with xlsub := wr b.xlsub jcol istop }
            let cnt := (b.nextl - jm1ptr).toNat
            { b with lsub := copyDown b.lsub cnt jm1ptr ito, nextl := ito + cnt }
          else b
        let nsuper := nsuper0 + 1
        ({ b with supno := wr b.supno jcol nsuper }, nsuper)
      else (b, nsuper0)
  let b := { b with xsup := wr b.xsup (nsuper + 1) jcolp1 }
  let b := { b with supno := wr b.supno jcolp1 nsuper }
  let b := { b with xprune := wr b.xprune jcol b.nextl }
  { b with xlsub := wr b.xlsub jcolp1 b.nextl }

/-- `[sdcz]column_dfs` (return value 0: the capacity is assumed sufficient) -/
def columnDfs (i : Input) (fuel : Nat) : Option Output :=
  match search i.env fuel (colRows i.lsubCol) i.st0 with
  | none => none
  | some st =>
    let b := boundary i.jcol i.maxsuper st.jsuper
      { lsub := st.lsub, xlsub := i.xlsub, xprune := i.xprune, xsup := i.xsup, supno := i.supno, nextl := st.nextl }
    some { ret := 0, nseg := st.nseg, lsubCol := clearCol i.lsubCol, segrep := st.segrep, repfnz := st.repfnz,
           xprune := b.xprune, marker := st.marker, parent := st.parent, xplore := st.xplore,
           xsup := b.xsup, supno := b.supno, lsub := b.lsub, xlsub := b.xlsub }

/-- a fuel that always suffices on well-formed states (Lemmas/ColDfs.lean: `columnDfs_eq_dfsList`, `rootStep_spec`):
every reached representative costs at most its pruned list length + 1 transitions -/
def fuelBound (i : Input) : Nat := (i.jcol.toNat + 1) * (i.lsub.size + 2)

/-! ### The graph read off the arrays, and the well-formedness the theorems assume -/

/-- `a[lo], …, a[hi-1]` -/
def slice (a : Array Int) (lo hi : Int) : List Int :=
  (List.range' lo.toNat (hi - lo).toNat).map fun (k : Nat) => rd a (k : Int)

/-- the rows the search scans below representative `s`: `lsub[xlsub[s] .. xprune[s])` -/
def adjRows (e : Env) (lsub : Array Int) (s : Int) : List Int := slice lsub (rd e.xlsub s) (rd e.xprune s)

/-- columns beyond `s` whose pivot row lies in the pruned list of `s`, in storage order -/
def adjCols (e : Env) (lsub : Array Int) (s : Nat) : List Nat :=
  (adjRows e lsub s).filterMap fun row =>
    let kp := rd e.perm_r row
    if (s : Int) < kp then some kp.toNat else none

/-- `repOf` on naturals -/
def repN (e : Env) (k : Nat) : Nat := (repOf e k).toNat

/-- successor representatives of representative `s`, in storage order of the pruned list -/
def adjG (e : Env) (lsub : Array Int) (s : Nat) : List Nat := (adjCols e lsub s).map (repN e)

/-- the pivot columns of the pivoted rows among `rows` -/
def rootCols (e : Env) (rows : List Int) : List Nat :=
  rows.filterMap fun row => let kp := rd e.perm_r row; if kp = EMPTY then none else some kp.toNat

/-- the representatives that count as visited on entry (`repfnz[s] != EMPTY`) -/
def visited0 (jcol : Int) (repfnz : Array Int) : List Nat :=
  (List.range jcol.toNat).filter fun s => rd repfnz s ≠ EMPTY

/-- the rows without a pivot column yet (only these can be appended to `lsub`) -/
def unpivoted (m : Int) (perm_r : Array Int) : List Nat :=
  (List.range m.toNat).filter fun r => rd perm_r r = EMPTY

/-- for all `0 <= k < n` -/
def allBelow (n : Int) (p : Nat → Bool) : Bool := (List.range n.toNat).all p

/-- decidable well-formedness of the state handed to the routine (everything the theorems assume) -/
def wfIn (i : Input) : Bool :=
  let e := i.env
  let nextl0 := rd i.xlsub i.jcol
  decide (0 ≤ i.jcol) && decide (i.jcol < i.m) &&
  -- sizes
  decide ((i.perm_r.size : Int) = i.m) && decide ((i.marker.size : Int) = 3 * i.m) &&
  decide (i.jcol ≤ i.repfnz.size) && decide (i.jcol ≤ i.parent.size) && decide (i.jcol ≤ i.xplore.size) &&
  decide (0 ≤ i.nseg) &&
  -- `segrep`: room for one entry per column below jcol; the entries already there (the panel's segments) are distinct
  -- columns below jcol, and those this column has not reached (`repfnz = EMPTY`) lie below the representative of every
  -- pivoted nonzero of the column (they are segments of OTHER columns of the panel, below the panel's first column,
  -- whereas a pivoted nonzero was pivoted inside the panel): the search never appends one of them again
  (decide (i.jcol ≤ i.segrep.size) && decide (slice i.segrep 0 i.nseg).Nodup &&
   (slice i.segrep 0 i.nseg).all (fun v => 0 ≤ v && v < i.jcol && (rd i.repfnz v ≠ EMPTY ||
     (colRows i.lsubCol).all fun row => rd i.perm_r row = EMPTY || v < repOf e (rd i.perm_r row)))) &&
  decide (0 ≤ nextl0) && decide (nextl0 + (unpivoted i.m i.perm_r).length ≤ i.lsub.size) &&
  -- pivot columns of rows: EMPTY or a previous column
  allBelow i.m (fun r => rd i.perm_r r = EMPTY || (0 ≤ rd i.perm_r r && rd i.perm_r r < i.jcol)) &&
  -- no row carries this column's mark yet
  allBelow i.m (fun r => mk2 e i.st0 r ≠ i.jcol) &&
  -- representatives: last column of a run of consecutive columns
  allBelow i.jcol (fun k => (k : Int) ≤ repOf e k && repOf e k < i.jcol && repOf e (repOf e k) = repOf e k) &&
  -- pruned lists: inside the part of lsub that is already filled, rows in range, pivoted at the last column of the
  -- supernode or beyond it (the edges of the graph), or at an earlier column of the SAME supernode (the list
  -- `[sdcz]snode_dfs` writes for the last column of a relaxed supernode holds all the supernode's rows; the search
  -- skips such a row because `repfnz` of the node it is scanning is set): the graph is acyclic
  allBelow i.jcol (fun s => repOf e s ≠ s ||
    (0 ≤ rd i.xlsub s && rd i.xlsub s ≤ rd i.xprune s && rd i.xprune s ≤ nextl0 &&
     (adjRows e i.lsub s).all fun row => 0 ≤ row && row < i.m &&
       (rd i.perm_r row = EMPTY || (s : Int) ≤ rd i.perm_r row || repOf e (rd i.perm_r row) = s))) &&
  -- the column's own rows
  (colRows i.lsubCol).all (fun row => 0 ≤ row && row < i.m)

end Slu.ColDfs
