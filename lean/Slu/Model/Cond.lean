import Slu.Model.Sparse
/-
C12 — model of `[sdcz]langs` (SRC/dlangs.c:70-127; complex files use the modulus `z_abs`/`c_abs`)
and of `[sdcz]PivotGrowth` (SRC/dpivotgrowth.c:60-121; complex files use `z_abs1`, i.e.
`Mag.abs1`).  Fidelity B: the folds below visit the stored entries in the order of the C loops, so
the `Float`/`Float32` instances reproduce the C results bit for bit.
-/
namespace Slu.Cond
open Slu

variable {K R : Type} [Inhabited K]
variable [Zero R] [Add R] [LT R] [DecidableLT R]

/-- `norm = 'M'`: largest magnitude (dlangs.c:85-89) -/
def langsMax (absK : K → R) (A : CSC K) : R :=
  (List.range A.n).foldl (fun value j => (A.col j).foldl (fun value e => smax value (absK e.2)) value) 0

/-- `norm = 'O' / '1'`: largest column sum (dlangs.c:91-98) -/
def langsOne (absK : K → R) (A : CSC K) : R :=
  (List.range A.n).foldl (fun value j => smax value ((A.col j).foldl (fun sum e => sum + absK e.2) 0)) 0

/-- the row sums accumulated in storage order (dlangs.c:104-109) -/
def rowSums (absK : K → R) (A : CSC K) : Array R :=
  (List.range A.n).foldl (fun rwork j =>
    (A.col j).foldl (fun (rwork : Array R) e => rwork.setIfInBounds e.1 (rwork.getD e.1 0 + absK e.2)) rwork)
    (Array.replicate A.m 0)

/-- `norm = 'I'`: largest row sum (dlangs.c:100-113) -/
def langsInf (absK : K → R) (A : CSC K) : R :=
  (rowSums absK A).foldl (fun value s => smax value s) 0

/-- `[sdcz]langs`; `none` = the routine aborts ("Not implemented." for F/E, "Illegal norm") -/
def langs (absK : K → R) (norm : Char) (A : CSC K) : Option R :=
  if min A.m A.n = 0 then some 0
  else if norm = 'M' then some (langsMax absK A)
  else if norm = 'O' ∨ norm = '1' then some (langsOne absK A)
  else if norm = 'I' then some (langsInf absK A)
  else none

/-! ### reciprocal pivot growth -/

/-- `U(i,j)` as `LUFac.decodeU`, except that positions beyond the rows stored by the supernode read
as zero (a supernode of a singular factorization may store fewer rows than it has columns; on every
supernode with `j - fsupc < nsupr` the two decoders agree, see `decodeUg_eq`) -/
def decodeUg {K : Type} [Inhabited K] [Zero K] [Add K] (F : LUFac K) (i j : Nat) : K :=
  let f := F.L.fsupc j
  if i < f then F.U.get i j
  else if i ≤ j then (if i - f < F.L.nsupr j then F.L.valAt j (i - f) else 0)
  else 0

variable [One R] [Div R] [BEq R] [Mag K R]

/-- `inv_perm_c[perm_c[j]] = j` (dpivotgrowth.c:86-87) -/
def invPerm (perm_c : Array Nat) (n : Nat) : Array Nat :=
  (List.range n).foldl (fun (a : Array Nat) j => a.setIfInBounds (perm_c.getD j 0) j) (Array.replicate n 0)

/-- largest magnitude of the stored entries of one column of a CSC matrix -/
def colMaxAbs (A : CSC K) (j : Nat) : R := (A.col j).foldl (fun m e => smax m (Mag.abs1 e.2)) 0

/-- `maxuj`: the entries of column `j` of U kept in column storage, then the `nz_in_U = d + 1`
leading entries of the column's slice of the supernodal rectangle (`luval = Lval + luptr + d*nsupr`),
`for (i = 0; i < nz_in_U && i < nsupr; ++i)`: a supernode made of a structurally empty column of a
singular factorization stores no rows -/
def colMaxU (F : LUFac K) (j luptr nsupr d : Nat) : R :=
  (List.range (min (d + 1) nsupr)).foldl (fun m i => smax m (Mag.abs1 (F.L.lusup.getD (luptr + d * nsupr + i) default)))
    (colMaxAbs F.U j)

/-- update of `rpg` by column `j = fsupc + d` (dpivotgrowth.c:98-116) -/
def pgColumn (A : CSC K) (inv : Array Nat) (F : LUFac K) (fsupc luptr nsupr : Nat) (rpg : R) (d : Nat) : R :=
  let j := fsupc + d
  let maxaj : R := colMaxAbs A (inv.getD j 0)
  let maxuj : R := colMaxU F j luptr nsupr d
  if maxuj == 0 then smin rpg 1 else smin rpg (maxaj / maxuj)

/-- one supernode `k`: the inner loop `for (j = fsupc; j < L_FST_SUPC(k+1) && j < ncols; ++j)` and the
value of the test `j >= ncols` after it -/
def pgSuper (ncols : Nat) (A : CSC K) (inv : Array Nat) (F : LUFac K) (rpg : R) (k : Nat) : R × Bool :=
  let fsupc := F.L.xsup.getD k 0
  let nsupr := F.L.xlsub.getD (fsupc + 1) 0 - F.L.xlsub.getD fsupc 0
  let luptr := F.L.xlusup.getD fsupc 0
  let hi := min (F.L.xsup.getD (k + 1) 0) ncols
  let rpg' := (List.range (hi - fsupc)).foldl (pgColumn A inv F fsupc luptr nsupr) rpg
  let jExit := if fsupc < hi then hi else fsupc
  (rpg', decide (jExit ≥ ncols))

/-- `[sdcz]PivotGrowth(ncols, A, perm_c, L, U)`; `smlnum = dmach("S")` -/
def pivotGrowth (ncols : Nat) (A : CSC K) (perm_c : Array Nat) (F : LUFac K) (smlnum : R) : R :=
  let inv := invPerm perm_c A.n
  ((List.range (F.L.nsuper + 1)).foldl (fun (st : R × Bool) k =>
      if st.2 then st else pgSuper ncols A inv F st.1 k) ((1 : R) / smlnum, false)).1

end Slu.Cond
