import Slu.Model.Cx
/-
C14 — the bundled reference BLAS, level 1 (`/repo/CBLAS/*.c`, f2c translations with hand-unrolled
loops).  This is the BLAS the library runs on whenever it is not built against a vendor BLAS, and
what the `asan` variant of the check links.  Core Lean only.

Fidelity **B** (bit mirror) when executed at `Float`, `Float32`, `Cx Float`, `Cx Float32`; level **X**
at `Rat` / `Cx Rat` (theorems in SluProofs/Props/C14.lean, lemmas in SluProofs/Lemmas/Cblas.lean).

Conventions
* a vector is `Array K` + explicit `n : Int`, `inc : Int`; the element with (0-based) logical index
  `i` lives at array position `spos n inc i = (inc < 0 ? (1-n)*inc : 0) + i*inc` — the f2c text's
  `ix = (-(*n)+1) * *incx + 1` (1-based) for negative increments; `inc = 0` is accepted wherever
  the C text accepts it (copy, axpy, dot, swap, nrm2: every logical element is position 0);
* every floating-point expression keeps the association of the C text.  The single-precision files
  are NOT the float image of the double ones: f2c's `dabs(x) = (doublereal)abs(x)` and
  `r_imag` (returns double) promote the surrounding expression to double, e.g. each block of six in
  `sasum_` is summed in double and rounded once, `icamax_` compares an unrounded double sum with the
  rounded float maximum, `snrm2_` forms `scale * sqrt(ssq)` in double.  `Widen R W` (`up`, `down`)
  carries that: `Float32 → Float`; the identity for `Float` and `Rat`;
* f2c.h `abs(x) = ((x) >= 0 ? (x) : -(x))` keeps `-0.0` and negates a NaN: `f2cabs`;
* the `if (*n < k) return` after each clean-up loop is not a separate branch of the model: with
  `n < k` the block loop `(List.range (n / k))` is empty.

Mirrored text (file: lines of the function body)
  asumR  dasum.c:35-83, sasum.c:36-84        iamaxR idamax.c:33-77, isamax.c:33-77
  copyR  dcopy.c:33-89, scopy.c              scalR  dscal.c:33-78, sscal.c
  axpyR  daxpy.c:33-89, saxpy.c              dotR   ddot.c:36-92, sdot.c
  swapR  dswap.c:35-97, sswap.c              nrm2R  dnrm2.c:38-79, snrm2.c:42-84
  asumZ  dzasum.c:32-64 + dcabs1.c:18-24     asumC  scasum.c:35-68
  iamaxC izamax.c:33-78, icamax.c:34-65      copyC  zcopy.c:30-67, ccopy.c
  scalC  zscal.c:31-63, cscal.c              axpyC  zaxpy.c:32-78, caxpy.c
  dotcC  zdotc.c:30-80, cdotc.c              swapC  zswap.c:22-70, cswap.c
  nrm2C  dznrm2.c:42-96, scnrm2.c:42-95
-/
namespace Slu.Cblas
open Slu

/-- promotion to the type an f2c expression containing `dabs` / `r_imag` / `sqrt` is evaluated in -/
class Widen (R : Type) (W : outParam Type) where
  up : R → W
  down : W → R
instance : Widen Float Float := ⟨id, id⟩
instance : Widen Float32 Float := ⟨Float32.toFloat, Float.toFloat32⟩
instance : Widen Rat Rat := ⟨id, id⟩

/-- libm `sqrt(double)` (only executed; the exact theorems stop before it) -/
class HasSqrt (W : Type) where
  sqrt : W → W
instance : HasSqrt Float := ⟨Float.sqrt⟩

/-- array position of logical element `i` of an `n`-vector with increment `inc` -/
def spos (n : Nat) (inc : Int) (i : Nat) : Nat :=
  ((if inc < 0 then (1 - (n : Int)) * inc else 0) + (i : Int) * inc).toNat

/-- `for (i = 0; i < n; ++i) st = f st i` -/
@[inline] def loop {T : Type} (n : Nat) (f : T → Nat → T) (t : T) : T := (List.range n).foldl f t

/-- clean-up loop of `n % k` steps followed by `n / k` unrolled blocks starting at `m + k*g` -/
@[inline] def unrolled {T : Type} (k n : Nat) (f : T → Nat → T) (blk : T → Nat → T) (t : T) : T :=
  let m := n % k
  loop (n / k) (fun t g => blk t (m + k * g)) (loop m f t)

section anyK
variable {K : Type} [Zero K]

/-- general-increment loop of `?copy_` (dcopy.c:44-60, zcopy.c:41-57) -/
def copyG (n : Nat) (x : Array K) (incx : Int) (y : Array K) (incy : Int) : Array K :=
  loop n (fun y i => y.setIfInBounds (spos n incy i) (x.getD (spos n incx i) 0)) y

/-- general-increment loop of `?swap_` (dswap.c:46-66, zswap.c:33-49): returns `(x, y)` -/
def swapG (n : Nat) (x : Array K) (incx : Int) (y : Array K) (incy : Int) : Array K × Array K :=
  loop n (fun (s : Array K × Array K) i =>
    let ix := spos n incx i; let iy := spos n incy i
    let tmp := s.1.getD ix 0
    let x1 := s.1.setIfInBounds ix (s.2.getD iy 0)
    (x1, s.2.setIfInBounds iy tmp)) (x, y)

/-- one statement group `tmp = x[i]; x[i] = y[i]; y[i] = tmp` -/
@[inline] def swap1 (s : Array K × Array K) (i : Nat) : Array K × Array K :=
  let tmp := s.1.getD i 0
  (s.1.setIfInBounds i (s.2.getD i 0), s.2.setIfInBounds i tmp)

end anyK

/-! ### real routines (`d*`, `s*`) -/
section real
variable {R W : Type} [Zero R] [One R] [Add R] [Mul R] [Div R] [Neg R] [LE R] [DecidableLE R]
  [LT R] [DecidableLT R] [IsZero R] [Add W] [Mul W] [Widen R W]

/-- f2c.h:39 `#define abs(x) ((x) >= 0 ? (x) : -(x))` -/
@[inline] def f2cabs (x : R) : R := if x ≥ 0 then x else -x

/-- `dasum_` / `sasum_` -/
def asumR (n : Int) (x : Array R) (incx : Int) : R :=
  if n ≤ 0 ∨ incx ≤ 0 then 0 else
  let N := n.toNat
  let a (i : Nat) : W := Widen.up (f2cabs (x.getD i 0))
  if incx ≠ 1 then
    loop N (fun (t : R) i => Widen.down (Widen.up t + a (spos N incx i))) 0
  else
    unrolled 6 N (fun (t : R) i => Widen.down (Widen.up t + a i))
      (fun (t : R) b => Widen.down (Widen.up t + a b + a (b + 1) + a (b + 2) + a (b + 3) + a (b + 4) + a (b + 5))) 0

/-- `idamax_` / `isamax_` (1-based result; the float→double→float round trip of `dabs` is exact) -/
def iamaxR (n : Int) (x : Array R) (incx : Int) : Int :=
  if n < 1 ∨ incx ≤ 0 then 0 else
  if n = 1 then 1 else
  let N := n.toNat
  (loop (N - 1) (fun (s : Int × R) k =>
      let v := f2cabs (x.getD (spos N incx (k + 1)) 0)
      if v ≤ s.2 then s else (((k + 2 : Nat) : Int), v)) ((1 : Int), f2cabs (x.getD 0 0))).1

/-- `dcopy_` / `scopy_` -/
def copyR (n : Int) (x : Array R) (incx : Int) (y : Array R) (incy : Int) : Array R :=
  if n ≤ 0 then y else
  let N := n.toNat
  if incx = 1 ∧ incy = 1 then
    let f := fun (y : Array R) i => y.setIfInBounds i (x.getD i 0)
    unrolled 7 N f (fun y b => f (f (f (f (f (f (f y b) (b + 1)) (b + 2)) (b + 3)) (b + 4)) (b + 5)) (b + 6)) y
  else copyG N x incx y incy

/-- `dscal_` / `sscal_` -/
def scalR (n : Int) (a : R) (x : Array R) (incx : Int) : Array R :=
  if n ≤ 0 ∨ incx ≤ 0 then x else
  let N := n.toNat
  let f := fun (x : Array R) i => x.setIfInBounds i (a * x.getD i 0)
  if incx ≠ 1 then loop N (fun x i => f x (spos N incx i)) x
  else unrolled 5 N f (fun x b => f (f (f (f (f x b) (b + 1)) (b + 2)) (b + 3)) (b + 4)) x

/-- `daxpy_` / `saxpy_` -/
def axpyR (n : Int) (a : R) (x : Array R) (incx : Int) (y : Array R) (incy : Int) : Array R :=
  if n ≤ 0 then y else
  if IsZero.isZero a then y else
  let N := n.toNat
  let f := fun (y : Array R) (iy ix : Nat) => y.setIfInBounds iy (y.getD iy 0 + a * x.getD ix 0)
  if incx = 1 ∧ incy = 1 then
    unrolled 4 N (fun y i => f y i i)
      (fun y b => f (f (f (f y b b) (b + 1) (b + 1)) (b + 2) (b + 2)) (b + 3) (b + 3)) y
  else loop N (fun y i => f y (spos N incy i) (spos N incx i)) y

/-- `ddot_` / `sdot_` (`sdot_` is float arithmetic throughout) -/
def dotR (n : Int) (x : Array R) (incx : Int) (y : Array R) (incy : Int) : R :=
  if n ≤ 0 then 0 else
  let N := n.toNat
  let p (i j : Nat) : R := x.getD i 0 * y.getD j 0
  if incx = 1 ∧ incy = 1 then
    unrolled 5 N (fun (t : R) i => t + p i i)
      (fun (t : R) b => t + p b b + p (b + 1) (b + 1) + p (b + 2) (b + 2) + p (b + 3) (b + 3) + p (b + 4) (b + 4)) 0
  else loop N (fun (t : R) i => t + p (spos N incx i) (spos N incy i)) 0

/-- `dswap_` / `sswap_`: returns `(x, y)` -/
def swapR (n : Int) (x : Array R) (incx : Int) (y : Array R) (incy : Int) : Array R × Array R :=
  if n ≤ 0 then (x, y) else
  let N := n.toNat
  if incx = 1 ∧ incy = 1 then
    unrolled 3 N swap1 (fun s b => swap1 (swap1 (swap1 s b) (b + 1)) (b + 2)) (x, y)
  else swapG N x incx y incy

/-- one step of the inlined `?lassq` recurrence (dnrm2.c:62-73): state `(scale, ssq)` -/
def ssqStep (s : R × R) (v : R) : R × R :=
  if IsZero.isZero v then s else
  let absxi := f2cabs v
  if s.1 < absxi then
    let d := s.1 / absxi
    (absxi, s.2 * (d * d) + 1)
  else
    let d := absxi / s.1
    (s.1, s.2 + d * d)

/-- the `(scale, ssq)` pair `dnrm2_` / `snrm2_` hold after their loop (`n ≥ 2`) -/
def nrm2AccR (N : Nat) (x : Array R) (incx : Int) : R × R :=
  loop N (fun s i => ssqStep s (x.getD (spos N incx i) 0)) (0, 1)

/-- `dnrm2_` / `snrm2_`; `norm = scale * sqrt(ssq)` is a double expression in both files -/
def nrm2R [HasSqrt W] (n : Int) (x : Array R) (incx : Int) : R :=
  if n < 1 then 0 else
  if n = 1 then f2cabs (x.getD 0 0) else
  let s := nrm2AccR n.toNat x incx
  Widen.down (Widen.up s.1 * HasSqrt.sqrt (Widen.up s.2))

end real

/-! ### complex routines (`z*`, `c*`, `dz*`, `sc*`, `iz*`, `ic*`) -/
section cplx
variable {R W : Type} [Zero R] [One R] [Add R] [Sub R] [Mul R] [Div R] [Neg R] [LE R] [DecidableLE R]
  [LT R] [DecidableLT R] [IsZero R] [Add W] [Mul W] [LE W] [DecidableLE W] [IsZero W] [Widen R W]

/-- the product as every f2c complex file spells it:
`z.r = a.r*b.r - a.i*b.i, z.i = a.r*b.i + a.i*b.r` -/
@[inline] def cmulF (a b : Cx R) : Cx R := ⟨a.re * b.re - a.im * b.im, a.re * b.im + a.im * b.re⟩

/-- `dcabs1_` (dcabs1.c:22): `abs(re) + abs(im)` -/
@[inline] def dcabs1 (z : Cx R) : R := f2cabs z.re + f2cabs z.im

/-- `(r__1 = CX(i).r, dabs(r__1)) + (r__2 = r_imag(&CX(i)), dabs(r__2))`: a double expression -/
@[inline] def cabs1W (z : Cx R) : W := Widen.up (f2cabs z.re) + Widen.up (f2cabs z.im)

/-- `dzasum_`: `stemp += dcabs1_(&ZX(ix))` -/
def asumZ (n : Int) (x : Array (Cx R)) (incx : Int) : R :=
  if n ≤ 0 ∨ incx ≤ 0 then 0 else
  let N := n.toNat
  loop N (fun (t : R) i => t + dcabs1 (x.getD (spos N incx i) 0)) 0

/-- `scasum_`: `stemp = stemp + dabs(re) + dabs(r_imag(..))` summed in double, rounded per element -/
def asumC (n : Int) (x : Array (Cx R)) (incx : Int) : R :=
  if n ≤ 0 ∨ incx ≤ 0 then 0 else
  let N := n.toNat
  loop N (fun (t : R) i =>
    let z := x.getD (spos N incx i) 0
    Widen.down (Widen.up t + Widen.up (f2cabs z.re) + Widen.up (f2cabs z.im))) 0

/-- `izamax_` / `icamax_`: `smax` is stored in `R`; the test compares the unrounded sum with it -/
def iamaxC (n : Int) (x : Array (Cx R)) (incx : Int) : Int :=
  if n < 1 ∨ incx ≤ 0 then 0 else
  if n = 1 then 1 else
  let N := n.toNat
  (loop (N - 1) (fun (s : Int × R) k =>
      let z := x.getD (spos N incx (k + 1)) 0
      if (cabs1W z : W) ≤ Widen.up s.2 then s else (((k + 2 : Nat) : Int), Widen.down (cabs1W z : W)))
    ((1 : Int), Widen.down (cabs1W (x.getD 0 0) : W))).1

/-- `zcopy_` / `ccopy_` -/
def copyC (n : Int) (x : Array (Cx R)) (incx : Int) (y : Array (Cx R)) (incy : Int) : Array (Cx R) :=
  if n ≤ 0 then y else copyG n.toNat x incx y incy

/-- `zscal_` / `cscal_` -/
def scalC (n : Int) (a : Cx R) (x : Array (Cx R)) (incx : Int) : Array (Cx R) :=
  if n ≤ 0 ∨ incx ≤ 0 then x else
  let N := n.toNat
  loop N (fun x i => let p := spos N incx i; x.setIfInBounds p (cmulF a (x.getD p 0))) x

/-- `zaxpy_` (`dcabs1_(za) == 0.`) / `caxpy_` (`dabs(re) + dabs(r_imag) == 0.f`, in double) -/
def axpyC (n : Int) (a : Cx R) (x : Array (Cx R)) (incx : Int) (y : Array (Cx R)) (incy : Int) : Array (Cx R) :=
  if n ≤ 0 then y else
  if IsZero.isZero (cabs1W a : W) then y else
  let N := n.toNat
  loop N (fun y i =>
    let iy := spos N incy i
    let z2 := cmulF a (x.getD (spos N incx i) 0)
    let yv := y.getD iy 0
    y.setIfInBounds iy ⟨yv.re + z2.re, yv.im + z2.im⟩) y

/-- `zdotc_` / `cdotc_`: `Σ conj(x_i) * y_i` -/
def dotcC (n : Int) (x : Array (Cx R)) (incx : Int) (y : Array (Cx R)) (incy : Int) : Cx R :=
  if n ≤ 0 then ⟨0, 0⟩ else
  let N := n.toNat
  loop N (fun (t : Cx R) i =>
    let xv := x.getD (spos N incx i) 0
    let z3 : Cx R := ⟨xv.re, -xv.im⟩
    let z2 := cmulF z3 (y.getD (spos N incy i) 0)
    ⟨t.re + z2.re, t.im + z2.im⟩) ⟨0, 0⟩

/-- `zswap_` / `cswap_` -/
def swapC (n : Int) (x : Array (Cx R)) (incx : Int) (y : Array (Cx R)) (incy : Int) :
    Array (Cx R) × Array (Cx R) :=
  if n ≤ 0 then (x, y) else swapG n.toNat x incx y incy

/-- the `(scale, ssq)` pair of `dznrm2_` / `scnrm2_`: real part first, then imaginary part -/
def nrm2AccC (N : Nat) (x : Array (Cx R)) (incx : Int) : R × R :=
  loop N (fun s i => let z := x.getD (spos N incx i) 0; ssqStep (ssqStep s z.re) z.im) (0, 1)

/-- `dznrm2_` / `scnrm2_` (no `n == 1` special case) -/
def nrm2C [HasSqrt W] (n : Int) (x : Array (Cx R)) (incx : Int) : R :=
  if n < 1 then 0 else
  let s := nrm2AccC n.toNat x incx
  Widen.down (Widen.up s.1 * HasSqrt.sqrt (Widen.up s.2))

end cplx
end Slu.Cblas
