import Slu.Model.LU
/-
Call histories of the expert driver `[sdcz]gssvx` (C06): what is carried from one call to the next
and what each value of `options->Fact` does with it.

Mirrors (fidelity X — exact specification level, built on `Slu.LU.luFactor`):
* SRC/dgssvx.c:388-399  `nofact = (Fact != FACTORED)`; a factoring call resets `equed`, a FACTORED
  call reads `equed`, `R`, `C` as inputs;
* SRC/dgssvx.c:521-533  `get_perm_c` only when `Fact == DOFACT`; SRC/sp_preorder.c:115 the
  elimination tree / postorder only when `Fact == DOFACT` — otherwise `perm_c`, `etree` are inputs;
* SRC/dgstrf.c:269-275   `usepr = (fact == SamePattern_SameRowPerm)`, `iperm_r` = inverse of the
  `perm_r` left by the previous call; SRC/dpivotL.c:116,149-156 the remembered pivot is tried first
  and abandoned for the rest of the factorization when it fails the threshold test;
* SRC/dgssvx.c:599-651   scaling of B, `gstrs` with `trant`, scaling of X;
* the re-adoption of the previous L/U storage (SRC/dmemory.c:300-331) has no counterpart at this
  level: at the exact specification level L and U are determined by the column order and the pivot
  sequence, wherever they are stored (it is tied by the correspondence harness, family `history`).

Oracle inputs of a call (fidelity O): the column ordering + elimination tree that `get_perm_c` /
`sp_preorder` produce for a DOFACT call, and the outcome `(equed, R, C)` of `gsequ`/`laqgs` for a
factoring call (those are the subjects of C10 and C11).  The theorems of C06 hold for *every* value
of these oracles.
-/
namespace Slu.History
open Slu Slu.LU

inductive Fact where
  | DOFACT | SamePattern | SamePattern_SameRowPerm | FACTORED
deriving DecidableEq, Repr, Inhabited

inductive Trans where
  | NOTRANS | TRANS | CONJ
deriving DecidableEq, Repr, Inhabited

inductive Equed where
  | N | R | C | B
deriving DecidableEq, Repr, Inhabited

def Equed.row : Equed → Bool
  | .R | .B => true
  | _ => false
def Equed.col : Equed → Bool
  | .C | .B => true
  | _ => false

/-- one expert-driver call -/
structure Call (K R : Type) where
  fact : Fact
  trans : Trans := .NOTRANS
  n : Nat
  /-- column `j` of the matrix handed to the call, a length-`n` vector (ignored by FACTORED) -/
  A : Nat → Vec K
  /-- `options->DiagPivotThresh` -/
  u : R
  /-- candidate order of (permuted) column `j`: any list of rows -/
  order : Nat → List Nat
  /-- oracle, DOFACT only: `perm_c` after `get_perm_c` and the postorder of `sp_preorder` -/
  permC : Array Nat := #[]
  /-- oracle, DOFACT only: the elimination tree -/
  etree : Array Nat := #[]
  /-- oracle, factoring calls only: outcome of `gsequ` + `laqgs` for `A` -/
  equed : Equed := .N
  Rs : Array R := #[]
  Cs : Array R := #[]
  /-- right-hand sides -/
  B : List (Vec K) := []

/-- what the caller carries from one call to the next -/
structure DriverState (K R : Type) where
  n : Nat
  permC : Array Nat
  etree : Array Nat
  /-- pivot list (`perm_r[piv k] = k`), L, U, the final reuse flag and the factorization's info -/
  fac : St K
  equed : Equed
  Rs : Array R
  Cs : Array R
  /-- a successful factorization is held -/
  factored : Bool
  /-- ghost: the factorization problem of the last factoring call (its equilibrated, column-permuted
  matrix, threshold, candidate orders, remembered pivots) -/
  P : Params K R

structure Out (K : Type) where
  info : Nat
  X : List (Vec K)
  /-- factoring calls: every remembered pivot was kept (`usepr` still set at the end) -/
  reused : Bool := false

section model
variable {K R : Type} [Mag K R] [Zero K] [One K] [Add K] [Sub K] [Mul K] [Div K] [HasConj K]
variable [Zero R] [Mul R] [LT R] [DecidableLT R] [LE R] [DecidableLE R] [IsZero R]

/-- the state before any call -/
def init : DriverState K R :=
  { n := 0, permC := #[], etree := #[], fac := {}, equed := .N, Rs := #[], Cs := #[], factored := false,
    P := { m := 0, n := 0, col := fun _ => #[], u := 0, order := fun _ => [], oldPiv := fun _ => 0, diagRow := fun _ => 0 } }

/-- `iperm_c`: position of `j` in `perm_c` (`perm_c[iperm_c[j]] = j`) -/
def invPerm (p : Array Nat) : Array Nat :=
  (List.range p.size).foldl (fun (a : Array Nat) i => a.setIfInBounds (p.getD i 0) i) (Array.replicate p.size 0)

/-- entry `(i, jc)` of `diag(R) A diag(C)` as `laqgs` applies it -/
def scaleEntry (eq : Equed) (Rs Cs : Array R) (i jc : Nat) (x : K) : K :=
  let x1 := if eq.row then Mag.rscale x (Rs.getD i 0) else x
  if eq.col then Mag.rscale x1 (Cs.getD jc 0) else x1

/-- column ordering used by a call: computed (oracle) for DOFACT, inherited otherwise -/
def callPermC (s : DriverState K R) (c : Call K R) : Array Nat :=
  if c.fact = .DOFACT then c.permC else s.permC
def callEtree (s : DriverState K R) (c : Call K R) : Array Nat :=
  if c.fact = .DOFACT then c.etree else s.etree

/-- the factorization problem a factoring call poses to `gstrf`: the equilibrated matrix in the
column order of `perm_c`, the remembered pivots `iperm_r[j]` of the state, the diagonal rows -/
def paramsOf (s : DriverState K R) (c : Call K R) : Params K R :=
  let ipc := invPerm (callPermC s c)
  { m := c.n, n := c.n,
    col := fun j => (c.A (ipc.getD j 0)).mapIdx fun i x => scaleEntry c.equed c.Rs c.Cs i (ipc.getD j 0) x,
    u := c.u, order := c.order,
    oldPiv := fun j => s.fac.piv.getD j 0,
    diagRow := fun j => ipc.getD j 0 }

/-- state after a factoring call (DOFACT, SamePattern, SamePattern_SameRowPerm) -/
def factorCall (s : DriverState K R) (c : Call K R) : DriverState K R :=
  let P := paramsOf s c
  let st := luFactor P (c.fact == .SamePattern_SameRowPerm)
  { n := c.n, permC := callPermC s c, etree := callEtree s c, fac := st, equed := c.equed, Rs := c.Rs, Cs := c.Cs,
    factored := st.info == 0, P := P }

def scaleVec (on : Bool) (sc : Array R) (v : Vec K) : Vec K :=
  if on then v.mapIdx fun i x => Mag.rscale x (sc.getD i 0) else v

/-- solve phase of the driver with the factors held by `s` (dgssvx.c:599-651) -/
def solveWith (s : DriverState K R) (t : Trans) (b : Vec K) : Vec K :=
  match t with
  | .NOTRANS => scaleVec s.equed.col s.Cs (gstrsN s.fac.piv s.fac.L s.fac.U s.permC (scaleVec s.equed.row s.Rs b))
  | .TRANS => scaleVec s.equed.row s.Rs (gstrsT id s.fac.piv s.fac.L s.fac.U s.permC (scaleVec s.equed.col s.Cs b))
  | .CONJ => scaleVec s.equed.row s.Rs (gstrsT HasConj.conj s.fac.piv s.fac.L s.fac.U s.permC (scaleVec s.equed.col s.Cs b))

/-- one call of the expert driver -/
def stepCall (s : DriverState K R) (c : Call K R) : DriverState K R × Out K :=
  if c.fact = .FACTORED then
    (s, { info := 0, X := c.B.map (solveWith s c.trans) })
  else
    let s' := factorCall s c
    if s'.fac.info ≠ 0 then (s', { info := s'.fac.info, X := c.B })
    else (s', { info := 0, X := c.B.map (solveWith s' c.trans), reused := s'.fac.usepr })

/-- a whole history: the final state and the outputs of all calls, in order -/
def runHistory (s : DriverState K R) : List (Call K R) → DriverState K R × List (Out K)
  | [] => (s, [])
  | c :: cs =>
    let r := stepCall s c
    let rest := runHistory r.1 cs
    (rest.1, r.2 :: rest.2)

/-- the full trace of a history: (state before, call, state after, output) for every call -/
def trace (s : DriverState K R) : List (Call K R) → List (DriverState K R × Call K R × DriverState K R × Out K)
  | [] => []
  | c :: cs => (s, c, (stepCall s c).1, (stepCall s c).2) :: trace (stepCall s c).1 cs

end model
end Slu.History
