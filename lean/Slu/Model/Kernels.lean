import Slu.Model.Sparse
import Slu.Model.CxRat
/-
C14 — sparse triangular solve / multiply kernels.  Core Lean only.

Fidelity
* `spGemv`, `spGemm`  : statement-order mirror of `sp_[sdcz]gemv` (SRC/dsp_blas2.c:377-483,
  SRC/zsp_blas2.c:466-600) and `sp_[sdcz]gemm` (SRC/dsp_blas3.c:124-135) — level **B** when run at
  `Float/Float32/Cx _` (no BLAS call, fixed summation order), level **X** when run at `Rat/Cx Rat`.
  The model implements the DOCUMENTED behaviour: every spelling "N","n","T","t","C","c" is
  accepted and the vector lengths follow the normalised flag (the pinned tree got both wrong for
  lower case: defect D1).  Strides follow the BLAS convention of the header comment
  (`kx = -(len-1)*inc` for negative increments); the C code implements `incy = 1` only for op = N and
  `incx = 1` only for op = T/C ("Not implemented." ABORT otherwise) — the model is total.
* `spTrsv`            : level **X**, follows the loop structure of `sp_[sdcz]trsv`
  (SRC/dsp_blas2.c:129-303, SRC/zsp_blas2.c:131-392): supernode by supernode, dense solve with the
  diagonal block (`dlsolve`/`dusolve`/`dtrsv_`, SRC/dmyblas2.c:38-158) followed by the
  gather/scatter update through the row subscripts; the `nsupc == 1` special cases of the C code are
  the `nsupc = 1` instances of the general step.  `diag` has the DOCUMENTED meaning: with
  `diag = 'U'` the diagonal is not referenced and taken as one (the C code ignores `diag`: it always
  divides by the stored diagonal of U — see the finding recorded for C14).
* `trsvRef`           : dense reference semantics: plain forward / back substitution on
  `op(decodeL)` / `op(decodeU)`; the theorems of `SluProofs/Props/C14.lean` are about it and the
  driver checks `spTrsv = trsvRef` in exact arithmetic on every case.
* `gstrsCol`, `gstrs` : `[sdcz]gstrs` (SRC/dgstrs.c:146-320): permute, two triangular solves,
  permute, column by column of a padded `ldb x nrhs` array.
-/
namespace Slu.Kernels
open Slu

inductive Tr | N | T | C
deriving BEq, DecidableEq, Repr, Inhabited

inductive UpLo | L | U
deriving BEq, DecidableEq, Repr, Inhabited

/-- documented spellings of `trans` -/
def Tr.ofFlag? (s : String) : Option Tr :=
  if s = "N" ∨ s = "n" then some .N else if s = "T" ∨ s = "t" then some .T
  else if s = "C" ∨ s = "c" then some .C else none
def UpLo.ofFlag? (s : String) : Option UpLo :=
  if s = "L" ∨ s = "l" then some .L else if s = "U" ∨ s = "u" then some .U else none
/-- `diag`: `true` = unit -/
def unitOfFlag? (s : String) : Option Bool :=
  if s = "U" ∨ s = "u" then some true else if s = "N" ∨ s = "n" then some false else none

section generic
variable {K : Type} [Inhabited K] [Zero K] [One K] [Add K] [Sub K] [Mul K] [Conj K]

/-- `sum_{j<n} f j`, left to right -/
def sumTo (n : Nat) (f : Nat → K) : K := (List.range n).foldl (fun acc j => acc + f j) 0

/-- conjugate iff the operation is the conjugate transpose -/
@[inline] def cj (tr : Tr) (v : K) : K := if tr == Tr.C then Conj.conj v else v

/-- position of element `i` of a strided vector of `len` elements (BLAS: `kx = -(len-1)*inc` when
`inc < 0`), SRC/dsp_blas2.c:416-419 -/
def vpos (len : Nat) (inc : Int) (i : Nat) : Nat :=
  if inc > 0 then i * inc.toNat else (len - 1 - i) * (-inc).toNat

/-! ### sp_gemv / sp_gemm -/

/-- number of elements of x / y for a given op (SRC/dsp_blas2.c:409-415, with the normalised flag) -/
def lenX (tr : Tr) (A : CSC K) : Nat := if tr == Tr.N then A.n else A.m
def lenY (tr : Tr) (A : CSC K) : Nat := if tr == Tr.N then A.m else A.n

/-- "First form y := beta*y" (l.423-443); y is not read when beta = 0 -/
def gemvScale [BEq K] (beta : K) (leny : Nat) (incy : Int) (y : Array K) : Array K :=
  if beta == 1 then y else
    (List.range leny).foldl (fun (y : Array K) i =>
      y.setIfInBounds (vpos leny incy i) ((fun (_ : Nat) (v : K) => if beta == 0 then 0 else beta * v) i y[vpos leny incy i]!)) y

/-- "Form y := alpha*A*x + y" (l.447-462): one pass over the columns, columns with x_j = 0 skipped -/
def gemvN [BEq K] (alpha : K) (A : CSC K) (x : Array K) (lenx : Nat) (incx : Int) (leny : Nat) (incy : Int)
    (y : Array K) : Array K :=
  (List.range A.n).foldl (fun (y : Array K) j =>
    if x[vpos lenx incx j]! == 0 then y else
    (A.col j).foldl (fun (y : Array K) (e : Nat × K) =>
      y.setIfInBounds (vpos leny incy e.1) (y[vpos leny incy e.1]! + alpha * x[vpos lenx incx j]! * e.2)) y) y

/-- "Form y := alpha*A'*x + y" (l.463-479) resp. the conjugated variant (zsp_blas2.c:574-595) -/
def gemvT (tr : Tr) (alpha : K) (A : CSC K) (x : Array K) (lenx : Nat) (incx : Int) (leny : Nat) (incy : Int)
    (y : Array K) : Array K :=
  (List.range A.n).foldl (fun (y : Array K) j =>
    y.setIfInBounds (vpos leny incy j)
      ((fun (j : Nat) (v : K) => v + alpha * (A.col j).foldl (fun (t : K) (e : Nat × K) => t + cj tr e.2 * x[vpos lenx incx e.1]!) 0)
        j y[vpos leny incy j]!)) y

/-- `y := alpha*op(A)*x + beta*y` — SRC/dsp_blas2.c:402-482 in statement order. -/
def spGemv [BEq K] (tr : Tr) (alpha : K) (A : CSC K) (x : Array K) (incx : Int) (beta : K)
    (y : Array K) (incy : Int) : Array K :=
  -- quick return
  if A.m == 0 || A.n == 0 || (alpha == 0 && beta == 1) then y else
  let y1 := gemvScale beta (lenY tr A) incy y
  if alpha == 0 then y1 else
  if tr == Tr.N then gemvN alpha A x (lenX tr A) incx (lenY tr A) incy y1
  else gemvT tr alpha A x (lenX tr A) incx (lenY tr A) incy y1

/-- `len` consecutive elements starting at `off` -/
def slice (a : Array K) (off len : Nat) : Array K := (Array.range len).map fun i => a[off + i]!
/-- write `v` back at `off` -/
def unslice (a : Array K) (off : Nat) (v : Array K) : Array K :=
  (List.range v.size).foldl (fun (a : Array K) i => a.setIfInBounds (off + i) v[i]!) a

/-- `C := alpha*op(A)*B + beta*C`, column by column — SRC/dsp_blas3.c:124-135 (`transb` is not
referenced by the routine; `ncolC` is its argument `n`) -/
def spGemm [BEq K] (tr : Tr) (ncolC : Nat) (alpha : K) (A : CSC K) (b : Array K) (ldb : Nat) (beta : K)
    (c : Array K) (ldc : Nat) : Array K :=
  let lenx := lenX tr A
  let leny := lenY tr A
  (List.range ncolC).foldl (fun (c : Array K) j =>
    unslice c (ldc * j) (spGemv tr alpha A (slice b (ldb * j) lenx) 1 beta (slice c (ldc * j) leny) 1)) c

/-- entry (i,j) of `op(A)` read off the storage: stored entries at the same position are added,
conjugation (op = C) is applied to each stored value -/
def opEntry (tr : Tr) (A : CSC K) (i j : Nat) : K :=
  if tr == Tr.N then (A.col j).foldl (fun acc e => if e.1 = i then acc + e.2 else acc) 0
  else (A.col i).foldl (fun acc e => if e.1 = j then acc + cj tr e.2 else acc) 0

/-- dense `y = alpha*op(A)*x + beta*y` by definition (entry `i` of the result), reference for gemv -/
def gemvRef (tr : Tr) (alpha : K) (A : CSC K) (x : Nat → K) (beta : K) (y : Nat → K) (i : Nat) : K :=
  alpha * sumTo (lenX tr A) (fun j => opEntry tr A i j * x j) + beta * y i

/-! ### sp_trsv on the supernodal storage -/
variable [Div K]

/-- geometry of supernode `k` as read by the C macros `L_FST_SUPC`, `L_SUB_START`, `L_NZ_START` -/
structure SN where
  fsupc : Nat
  nsupc : Nat
  istart : Nat
  nsupr : Nat
  luptr : Nat
deriving Repr, Inhabited

def snode (L : SNode K) (k : Nat) : SN :=
  let fsupc := L.xsup[k]!
  { fsupc := fsupc, nsupc := L.xsup[k+1]! - fsupc, istart := L.xlsub[fsupc]!,
    nsupr := L.xlsub[fsupc+1]! - L.xlsub[fsupc]!, luptr := L.xlusup[fsupc]! }

/-- entry (i,j) of the rectangle of supernode `s` (column-major, leading dimension `nsupr`) -/
@[inline] def blk (L : SNode K) (s : SN) (i j : Nat) : K := L.lusup[s.luptr + j * s.nsupr + i]!

/-- `x := inv(L)*x` — dsp_blas2.c:131-188 -/
def trsvLN (F : LUFac K) (x : Array K) : Array K :=
  (List.range (F.L.nsuper + 1)).foldl (fun (x : Array K) k =>
    let s := snode F.L k
    -- dlsolve: unit lower solve with the diagonal block
    let x1 := (List.range s.nsupc).foldl (fun (x : Array K) i =>
      x.setIfInBounds (s.fsupc + i)
        ((List.range i).foldl (fun (acc : K) j => acc - x[s.fsupc + j]! * blk F.L s i j) x[s.fsupc + i]!)) x
    -- dmatvec into work[], then scatter
    (List.range (s.nsupr - s.nsupc)).foldl (fun (x : Array K) i =>
      let w := sumTo s.nsupc (fun j => blk F.L s (s.nsupc + i) j * x1[s.fsupc + j]!)
      let r := F.L.lsub[s.istart + s.nsupc + i]!
      x.setIfInBounds r (x[r]! - w)) x1) x

/-- `x := inv(U)*x` — dsp_blas2.c:190-226; `unit` = documented `diag = 'U'` -/
def trsvUN (F : LUFac K) (unit : Bool) (x : Array K) : Array K :=
  (List.range (F.L.nsuper + 1)).foldl (fun (x : Array K) kk =>
    let s := snode F.L (F.L.nsuper - kk)
    -- dusolve: column-oriented back substitution with the diagonal block
    let x1 := (List.range s.nsupc).foldl (fun (x : Array K) t =>
      let jc := s.nsupc - 1 - t
      let xj := if unit then x[s.fsupc + jc]! else x[s.fsupc + jc]! / blk F.L s jc jc
      let x := x.setIfInBounds (s.fsupc + jc) xj
      (List.range jc).foldl (fun (x : Array K) ir =>
        x.setIfInBounds (s.fsupc + ir) (x[s.fsupc + ir]! - xj * blk F.L s ir jc)) x) x
    -- rows above the supernode, from the column storage of U
    (List.range s.nsupc).foldl (fun (x : Array K) jj =>
      let jcol := s.fsupc + jj
      (F.U.col jcol).foldl (fun (x : Array K) (e : Nat × K) =>
        x.setIfInBounds e.1 (x[e.1]! - x[jcol]! * e.2)) x) x1) x

/-- `x := inv(L')*x` resp. `conj(inv(L'))*x` — dsp_blas2.c:230-263, zsp_blas2.c:315-351 -/
def trsvLT (F : LUFac K) (tr : Tr) (x : Array K) : Array K :=
  (List.range (F.L.nsuper + 1)).foldl (fun (x : Array K) kk =>
    let s := snode F.L (F.L.nsuper - kk)
    -- gather from the rows below the diagonal block
    let x1 := (List.range s.nsupc).foldl (fun (x : Array K) jj =>
      let jcol := s.fsupc + jj
      (List.range (s.nsupr - s.nsupc)).foldl (fun (x : Array K) i =>
        let r := F.L.lsub[s.istart + s.nsupc + i]!
        x.setIfInBounds jcol (x[jcol]! - x[r]! * cj tr (blk F.L s (s.nsupc + i) jj))) x) x
    -- dtrsv_("L", trans, "U"): unit lower transposed solve with the diagonal block
    (List.range s.nsupc).foldl (fun (x : Array K) t =>
      let j := s.nsupc - 1 - t
      x.setIfInBounds (s.fsupc + j)
        ((List.range (s.nsupc - 1 - j)).foldl (fun (acc : K) d =>
          let i := j + 1 + d
          acc - cj tr (blk F.L s i j) * x[s.fsupc + i]!) x[s.fsupc + j]!)) x1) x

/-- `x := inv(U')*x` resp. `conj(inv(U'))*x` — dsp_blas2.c:264-300, zsp_blas2.c:352-390 -/
def trsvUT (F : LUFac K) (tr : Tr) (unit : Bool) (x : Array K) : Array K :=
  (List.range (F.L.nsuper + 1)).foldl (fun (x : Array K) k =>
    let s := snode F.L k
    let x1 := (List.range s.nsupc).foldl (fun (x : Array K) jj =>
      let jcol := s.fsupc + jj
      (F.U.col jcol).foldl (fun (x : Array K) (e : Nat × K) =>
        x.setIfInBounds jcol (x[jcol]! - x[e.1]! * cj tr e.2)) x) x
    -- dtrsv_("U", trans, "N")
    (List.range s.nsupc).foldl (fun (x : Array K) j =>
      let acc := (List.range j).foldl (fun (acc : K) i => acc - cj tr (blk F.L s i j) * x[s.fsupc + i]!) x[s.fsupc + j]!
      x.setIfInBounds (s.fsupc + j) (if unit then acc else acc / cj tr (blk F.L s j j))) x1) x

/-- `sp_[sdcz]trsv(uplo, trans, diag, L, U, x)`, documented semantics -/
def spTrsv (F : LUFac K) (uplo : UpLo) (tr : Tr) (unit : Bool) (x : Array K) : Array K :=
  if F.L.n == 0 then x else
  match uplo, tr with
  | .L, .N => trsvLN F x          -- L's diagonal is one whether or not it is "assumed" so
  | .U, .N => trsvUN F unit x
  | .L, t => trsvLT F t x
  | .U, t => trsvUT F t unit x

/-! ### dense reference semantics -/

/-- `op(T)` entrywise -/
def opM (tr : Tr) (T : Nat → Nat → K) (i j : Nat) : K :=
  match tr with
  | .N => T i j
  | .T => T j i
  | .C => Conj.conj (T j i)

/-- forward substitution: `[x_0 .. x_{k-1}]` with `x_i = (b_i - sum_{j<i} M i j x_j) / d_i` -/
def fwdSub (M : Nat → Nat → K) (d : Nat → K) (b : Nat → K) : Nat → Array K
  | 0 => #[]
  | k+1 =>
    let xs := fwdSub M d b k
    xs.push ((b k - sumTo k (fun j => M k j * xs.getD j 0)) / d k)

/-- back substitution: `[x_{n-k} .. x_{n-1}]` with
`x_i = (b_i - sum_{j>i} M i j x_j) / d_i` -/
def bwdSub (M : Nat → Nat → K) (d : Nat → K) (b : Nat → K) (n : Nat) : Nat → List K
  | 0 => []
  | k+1 =>
    let xs := bwdSub M d b n k
    let i := n - (k + 1)
    ((b i - sumTo k (fun t => M i (i + 1 + t) * xs.getD t 0)) / d i) :: xs

/-- the triangular matrix a call of `sp_trsv` refers to: `op(decodeL)` / `op(decodeU)` with the
diagonal replaced by one when `diag = 'U'` -/
def trsvMat (F : LUFac K) (uplo : UpLo) (tr : Tr) (unit : Bool) (i j : Nat) : K :=
  if unit && i == j then 1 else
  opM tr (if uplo == UpLo.L then F.decodeL else F.decodeU) i j

/-- is `op(T)` lower triangular? -/
def effLower (uplo : UpLo) (tr : Tr) : Bool := (uplo == UpLo.L) == (tr == Tr.N)

/-- dense reference for `sp_trsv`: substitution on `trsvMat` -/
def trsvRef (F : LUFac K) (uplo : UpLo) (tr : Tr) (unit : Bool) (b : Array K) : Array K :=
  let n := F.L.n
  let M := trsvMat F uplo tr unit
  if effLower uplo tr then fwdSub M (fun i => M i i) (fun i => b.getD i 0) n
  else (bwdSub M (fun i => M i i) (fun i => b.getD i 0) n n).toArray

/-! ### gstrs -/

/-- one right-hand side of `[sdcz]gstrs` — dgstrs.c:146-315 -/
def gstrsCol (F : LUFac K) (permc permr : Array Nat) (tr : Tr) (b : Array K) : Array K :=
  let n := F.L.n
  let scatter (p : Array Nat) (v : Array K) : Array K :=
    (List.range n).foldl (fun (s : Array K) k => s.setIfInBounds p[k]! v[k]!) (Array.replicate n (0 : K))
  let gather (p : Array Nat) (v : Array K) : Array K := (Array.range n).map fun k => v[p[k]!]!
  if tr == Tr.N then
    gather permc (spTrsv F .U .N false (spTrsv F .L .N true (scatter permr b)))
  else
    gather permr (spTrsv F .L tr true (spTrsv F .U tr false (scatter permc b)))

/-- all right-hand sides of a padded `ldb x nrhs` array (column-major); rows `n..ldb-1` of every
column and everything behind column `nrhs-1` are left as they are -/
def gstrs (solve : Array K → Array K) (n ldb nrhs : Nat) (B : Array K) : Array K :=
  (List.range nrhs).foldl (fun (B : Array K) j => unslice B (ldb * j) (solve (slice B (ldb * j) n))) B

end generic

end Slu.Kernels
