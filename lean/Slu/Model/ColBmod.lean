import Slu.Model.MyBlas2
/-
`[sdcz]column_bmod` — the numeric update of one column `jcol` by the supernodes listed in `segrep`
(sup-col updates in topological order) followed by the update inside the column's own supernode.
Core Lean only.

Mirrors (fidelity **B** at `Float / Float32 / Cx Float / Cx Float32`, **X** at `Rat / Cx Rat`)
SRC/dcolumn_bmod.c:51-352 (and scolumn_bmod.c, ccolumn_bmod.c, zcolumn_bmod.c), the `#else` branch of
`USE_VENDOR_BLAS` (the library's own `lsolve` / `matvec`, mirrored in Slu/Model/MyBlas2.lean and
REUSED here):
* `segGeom`   : dcolumn_bmod.c:122-143 (`fsupc, fst_col, d_fsupc, luptr, lptr, kfnz, segsze, nsupc,
                nsupr, nrow, krep_ind`);
* `seg1`      : :152-161 (col-col update);
* `seg2`      : :163-179 (2cols-col), `seg3` : :163-168, 180-196 (3cols-col; the complex files
                compute `ukj - (ukj1*l1 + ukj2*l2)`, the real ones `ukj - ukj1*l1 - ukj2*l2`);
* `segN`      : :200-262 (gather into `tempv`, `lsolve`, `matvec` into `tempv1 = &tempv[segsze]`,
                scatter back, `dense[irow] -= tempv1[i]`, both parts of `tempv` zeroed);
* `colSegment`: one iteration of the loop :116-264, `colTail` : :266-351 (copy the SPA into
                `lusup`, `xlusup[jcol+1]`, then `lsolve` + `matvec` + `lusup[isub] -= tempv[i]` when
                `fst_col < jcol`), `colBmod` the whole routine.

Abstractions.  (1) `while (new_next > nzlumax) LUMemXpand(...)` (:273-278) is not modelled: the
caller of the model provides arrays of sufficient capacity (memory growth is C07/C08's business); the
routine then returns 0.  (2) Integers are `Nat`: on the states the routine is specified for every
intermediate index is non-negative (`repfnz[krep] ≥ 0` for a listed segment; SUPERLU_MAX with
`fpanelc ≥ 0`), Nat subtraction never truncates there.  (3) Pointer walks (`luptr++`, `isub++`) are
closed-form addresses as in MyBlas2.lean.  (4) `ops[TRSV]`, `ops[GEMV]` are carried as increments;
`segOps = false` mirrors ccolumn_bmod.c, which — unlike the other three files — does NOT count the
flops of the segment loop (the two `ops[...] +=` lines of zcolumn_bmod.c:144-145 are absent there).
-/
namespace Slu.ColBmod
open Slu Slu.MyBlas2

/-- the integers of one U-segment (dcolumn_bmod.c:122-143) -/
structure Seg where
  lptr : Nat      -- xlsub[fsupc] + d_fsupc
  luptr : Nat     -- xlusup[fst_col] + d_fsupc
  nsupr : Nat
  nsupc : Nat     -- krep - fst_col + 1
  nrow : Nat      -- nsupr - d_fsupc - nsupc
  segsze : Nat    -- krep - kfnz + 1
  noZeros : Nat   -- kfnz - fst_col
  cnt : Nat       -- trip count of `for (i = lptr + nsupc; i < xlsub[fsupc+1]; ++i)`
  deriving Repr, DecidableEq

def segGeom (fpanelc : Nat) (xsup supno xlsub xlusup repfnz : Array Nat) (krep : Nat) : Seg :=
  let fsupc := xsup[supno[krep]!]!
  let fstCol := max fsupc fpanelc
  let dFsupc := fstCol - fsupc
  let luptr := xlusup[fstCol]! + dFsupc
  let lptr := xlsub[fsupc]! + dFsupc
  let kfnz := max repfnz[krep]! fpanelc
  let segsze := krep - kfnz + 1
  let nsupc := krep - fstCol + 1
  let nsupr := xlsub[fsupc + 1]! - xlsub[fsupc]!
  { lptr := lptr, luptr := luptr, nsupr := nsupr, nsupc := nsupc, nrow := nsupr - dFsupc - nsupc,
    segsze := segsze, noZeros := kfnz - fstCol, cnt := xlsub[fsupc + 1]! - (lptr + nsupc) }

section generic
variable {K : Type} [Inhabited K] [Add K] [Sub K] [Mul K]

/-- Case 1: `segsze == 1`, col-col update (dcolumn_bmod.c:152-161) -/
def seg1 (lsub : Array Nat) (g : Seg) (lusup dense : Array K) : Array K :=
  let ukj := dense[lsub[g.lptr + g.nsupc - 1]!]!
  let lp := g.luptr + (g.nsupr * (g.nsupc - 1) + g.nsupc)
  (List.range g.cnt).foldl (fun (d : Array K) t =>
    d.setIfInBounds lsub[g.lptr + g.nsupc + t]! (d[lsub[g.lptr + g.nsupc + t]!]! - ukj * lusup[lp + t]!)) dense

/-- Case 2: `segsze == 2` (dcolumn_bmod.c:163-179) -/
def seg2 (lsub : Array Nat) (g : Seg) (lusup dense : Array K) : Array K :=
  let ki := g.lptr + g.nsupc - 1
  let ukj0 := dense[lsub[ki]!]!
  let lp := g.luptr + (g.nsupr * (g.nsupc - 1) + g.nsupc - 1)
  let ukj1 := dense[lsub[ki - 1]!]!
  let lp1 := lp - g.nsupr
  let ukj := ukj0 - ukj1 * lusup[lp1]!
  let d1 := dense.setIfInBounds lsub[ki]! ukj
  (List.range g.cnt).foldl (fun (d : Array K) t =>
    d.setIfInBounds lsub[g.lptr + g.nsupc + t]!
      (d[lsub[g.lptr + g.nsupc + t]!]! - (ukj * lusup[lp + 1 + t]! + ukj1 * lusup[lp1 + 1 + t]!))) d1

/-- Case 3: `segsze == 3` (dcolumn_bmod.c:163-168, 180-196; zcolumn_bmod.c:180-205) -/
def seg3 (cplx : Bool) (lsub : Array Nat) (g : Seg) (lusup dense : Array K) : Array K :=
  let ki := g.lptr + g.nsupc - 1
  let ukj0 := dense[lsub[ki]!]!
  let lp := g.luptr + (g.nsupr * (g.nsupc - 1) + g.nsupc - 1)
  let ukj10 := dense[lsub[ki - 1]!]!
  let lp1 := lp - g.nsupr
  let ukj2 := dense[lsub[ki - 2]!]!
  let lp2 := lp1 - g.nsupr
  let ukj1 := ukj10 - ukj2 * lusup[lp2 - 1]!
  let ukj := if cplx then ukj0 - (ukj1 * lusup[lp1]! + ukj2 * lusup[lp2]!)
             else ukj0 - ukj1 * lusup[lp1]! - ukj2 * lusup[lp2]!
  let d1 := (dense.setIfInBounds lsub[ki]! ukj).setIfInBounds lsub[ki - 1]! ukj1
  (List.range g.cnt).foldl (fun (d : Array K) t =>
    d.setIfInBounds lsub[g.lptr + g.nsupc + t]!
      (d[lsub[g.lptr + g.nsupc + t]!]! -
        (ukj * lusup[lp + 1 + t]! + ukj1 * lusup[lp1 + 1 + t]! + ukj2 * lusup[lp2 + 1 + t]!))) d1

variable [Zero K]

/-- "Copy U[*,j] segment from dense[*] to tempv[*]" (dcolumn_bmod.c:209-214) -/
def segGather (lsub : Array Nat) (isub n : Nat) (dense tempv : Array K) : Array K :=
  (List.range n).foldl (fun (tv : Array K) i => tv.setIfInBounds (0 + i) dense[lsub[isub + i]!]!) tempv

/-- "Scatter tempv[] into SPA dense[] as a temporary storage" (dcolumn_bmod.c:247-253), the stores
into `dense` -/
def segScatterU (lsub : Array Nat) (isub n : Nat) (tempv dense : Array K) : Array K :=
  (List.range n).foldl (fun (d : Array K) i => d.setIfInBounds lsub[isub + i]! tempv[i]!) dense

/-- "Scatter tempv1[] into SPA dense[]" (dcolumn_bmod.c:256-261), the stores into `dense` -/
def segScatterL (lsub : Array Nat) (isub n : Nat) (y dense : Array K) : Array K :=
  (List.range n).foldl (fun (d : Array K) i =>
    d.setIfInBounds lsub[isub + i]! (d[lsub[isub + i]!]! - y[i]!)) dense

/-- `tempv[i] = zero` (i < segsze), `tempv1[i] = zero` (i < nrow): cells `0 .. n-1` -/
def zeroPrefix (n : Nat) (tempv : Array K) : Array K :=
  (List.range n).foldl (fun (tv : Array K) i => tv.setIfInBounds (0 + i) 0) tempv

/-- general case: sup-col update (dcolumn_bmod.c:200-262); returns (dense, tempv) -/
def segN (cplx : Bool) (lsub : Array Nat) (g : Seg) (lusup dense tempv : Array K) : Array K × Array K :=
  let isub := g.lptr + g.noZeros
  let tv1 := segGather lsub isub g.segsze dense tempv
  let lp := g.luptr + (g.nsupr * g.noZeros + g.noZeros)
  let tv2 := lsolve cplx g.nsupr g.segsze lusup lp tv1 0
  -- tempv1 = &tempv[segsze]; matvec reads tempv[0..segsze) and accumulates into tempv1[0..nrow)
  let y := matvec cplx g.nsupr g.nrow g.segsze lusup (lp + g.segsze) tv2 0 (tv2.extract g.segsze tv2.size)
  let d1 := segScatterU lsub isub g.segsze tv2 dense
  let d2 := segScatterL lsub (isub + g.segsze) g.nrow y d1
  (d2, zeroPrefix (g.segsze + g.nrow) tv2)

/-- the four-way dispatch on `segsze` (dcolumn_bmod.c:152, 163, 169, 198); returns (dense, tempv) -/
def segUpdate (cplx : Bool) (lsub : Array Nat) (g : Seg) (lusup dense tempv : Array K) : Array K × Array K :=
  if g.segsze = 1 then (seg1 lsub g lusup dense, tempv)
  else if g.segsze ≤ 3 then
    if g.segsze = 2 then (seg2 lsub g lusup dense, tempv)
    else (seg3 cplx lsub g lusup dense, tempv)
  else segN cplx lsub g lusup dense tempv

/-- one iteration of `for (ksub = 0; ksub < nseg; ksub++)` for the representative `krep` -/
def colSegment (cplx segOps : Bool) (jcol fpanelc : Nat) (xsup supno lsub xlsub repfnz : Array Nat) (krep : Nat)
    (st : SnodeSt K) : SnodeSt K :=
  if supno[jcol]! ≠ supno[krep]! then
    let g := segGeom fpanelc xsup supno xlsub st.xlusup repfnz krep
    let kT := if segOps then (if cplx then 4 else 1) else 0
    let kG := if segOps then (if cplx then 8 else 2) else 0
    let p := segUpdate cplx lsub g st.lusup st.dense st.tempv
    { st with dense := p.1, tempv := p.2,
              opsTrsv := st.opsTrsv + kT * (g.segsze * (g.segsze - 1)),
              opsGemv := st.opsGemv + kG * (g.nrow * g.segsze) }
  else st

/-- "Process the supernodal portion of L\U[*,j]" (dcolumn_bmod.c:266-351).  For `fpanelc ≤ fsupc`
this is `snodeBmod`; in general the in-supernode update starts at `fst_col = max(fsupc, fpanelc)`. -/
def colTail (cplx : Bool) (jcol fpanelc : Nat) (xsup supno lsub xlsub : Array Nat) (st : SnodeSt K) : SnodeSt K :=
  let nextlu := st.xlusup[jcol]!
  let fsupc := xsup[supno[jcol]!]!
  let istart := xlsub[fsupc]!
  let nsupr := xlsub[fsupc + 1]! - istart
  let p := snodeScatter lsub istart nsupr nextlu st.lusup st.dense
  let xlusup := st.xlusup.setIfInBounds (jcol + 1) (nextlu + nsupr)
  let fstCol := max fsupc fpanelc
  if fstCol < jcol then
    let dFsupc := fstCol - fsupc
    let luptr := xlusup[fstCol]! + dFsupc
    let nsupc := jcol - fstCol
    let nrow := nsupr - dFsupc - nsupc
    let ufirst := xlusup[jcol]! + dFsupc
    let lusup1 := lsolveA cplx nsupr nsupc p.1 luptr ufirst
    let tempv1 := matvec cplx nsupr nrow nsupc lusup1 (luptr + nsupc) lusup1 ufirst st.tempv
    let q := snodeUnload (ufirst + nsupc) nrow lusup1 tempv1
    { lusup := q.1, xlusup := xlusup, dense := p.2, tempv := q.2,
      opsTrsv := st.opsTrsv + (if cplx then 4 else 1) * nsupc * (nsupc - 1),
      opsGemv := st.opsGemv + (if cplx then 8 else 2) * nrow * nsupc }
  else
    { st with lusup := p.1, xlusup := xlusup, dense := p.2 }

/-- the segment loop: `k = nseg-1 .. 0`, `krep = segrep[k]` -/
def colSegments (cplx segOps : Bool) (jcol nseg fpanelc : Nat) (segrep repfnz xsup supno lsub xlsub : Array Nat)
    (st : SnodeSt K) : SnodeSt K :=
  (List.range nseg).foldl (fun (st : SnodeSt K) ksub =>
    colSegment cplx segOps jcol fpanelc xsup supno lsub xlsub repfnz segrep[nseg - 1 - ksub]! st) st

/-- `[sdcz]column_bmod(jcol, nseg, dense, tempv, segrep, repfnz, fpanelc, Glu, stat)` returning 0 -/
def colBmod (cplx segOps : Bool) (jcol nseg fpanelc : Nat) (segrep repfnz xsup supno lsub xlsub : Array Nat)
    (st : SnodeSt K) : SnodeSt K :=
  colTail cplx jcol fpanelc xsup supno lsub xlsub
    (colSegments cplx segOps jcol nseg fpanelc segrep repfnz xsup supno lsub xlsub st)

end generic
end Slu.ColBmod
