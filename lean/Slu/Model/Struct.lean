import Slu.Model.Sparse
/-
C03 — structural well-formedness of a returned (L, U) pair, clause by clause as the property states
it (fidelity S).  `wfSC` is the executable predicate used by every family that receives factors;
`countnzL/U` are the formulae of SRC/util.c:225-264 (`countnz`).
-/
namespace Slu.Struct
open Slu

variable {K : Type} [Inhabited K]

def nodup (l : List Nat) : Bool :=
  match l with
  | [] => true
  | x :: xs => !(xs.contains x) && nodup xs

/-- number of stored L entries (unit diagonal included) and U entries (supernodal triangles included)
as `countnz` computes them -/
def countnzL (L : SNode K) : Nat :=
  (List.range (L.nsuper + 1)).foldl (fun acc s =>
    let f := L.xsup[s]!; let nsupc := L.xsup[s+1]! - f
    let nsupr := L.xlsub[f+1]! - L.xlsub[f]!
    (List.range nsupc).foldl (fun a c => a + (nsupr - c)) acc) 0

def countnzU (F : LUFac K) : Nat :=
  (List.range (F.L.nsuper + 1)).foldl (fun acc s =>
    let f := F.L.xsup[s]!; let nsupc := F.L.xsup[s+1]! - f
    (List.range nsupc).foldl (fun a c => a + (c + 1)) acc) (F.U.colptr[F.L.n]!)

/-- first violated clause of C03, `none` when the structure is well-formed.
`ilu = true` allows a repeated row index inside a U column (incomplete LU). -/
def wfSC (F : LUFac K) (ilu : Bool := false) : Option String := Id.run do
  let L := F.L; let U := F.U
  let n := L.n; let m := L.m
  if n = 0 then return none
  let ns := L.nsuper + 1
  -- array lengths
  if L.xsup.size < ns + 1 then return some "xsup shorter than nsuper+2"
  if L.supno.size < n then return some "supno shorter than n"
  if L.xlsub.size < n + 1 ∨ L.xlusup.size < n + 1 ∨ U.colptr.size < n + 1 then return some "pointer array shorter than n+1"
  -- supernodes partition the columns into consecutive non-empty ranges
  if L.xsup[0]! ≠ 0 then return some "xsup[0] != 0"
  if L.xsup[ns]! ≠ n then return some s!"xsup[nsuper+1] = {L.xsup[ns]!} != n"
  for s in List.range ns do
    if ¬ (L.xsup[s]! < L.xsup[s+1]!) then return some s!"supernode {s} is empty or out of order"
    for j in List.range (L.xsup[s+1]! - L.xsup[s]!) do
      if L.supno[L.xsup[s]! + j]! ≠ s then return some s!"col_to_sup[{L.xsup[s]! + j}] != {s}"
  -- pointers monotone, value arrays of exactly the implied lengths
  if L.xlsub[0]! ≠ 0 ∨ L.xlusup[0]! ≠ 0 ∨ U.colptr[0]! ≠ 0 then return some "a pointer array does not start at 0"
  for j in List.range n do
    if L.xlsub[j]! > L.xlsub[j+1]! then return some s!"xlsub not monotone at {j}"
    if L.xlusup[j]! > L.xlusup[j+1]! then return some s!"xlusup not monotone at {j}"
    if U.colptr[j]! > U.colptr[j+1]! then return some s!"U colptr not monotone at {j}"
  if L.lsub.size ≠ L.xlsub[n]! then return some s!"lsub has {L.lsub.size} entries, xlsub[n] = {L.xlsub[n]!}"
  if L.lusup.size ≠ L.xlusup[n]! then return some s!"lusup has {L.lusup.size} entries, xlusup[n] = {L.xlusup[n]!}"
  if U.rowind.size ≠ U.colptr[n]! ∨ U.val.size ≠ U.colptr[n]! then return some "U arrays do not have colptr[n] entries"
  -- per supernode: one shared row list; leading entries are its own columns; the rest distinct rows below it
  for s in List.range ns do
    let f := L.xsup[s]!; let l := L.xsup[s+1]! - 1
    let nsupc := l - f + 1
    let lo := L.xlsub[f]!; let hi := L.xlsub[f+1]!
    let nsupr := hi - lo
    if nsupr < nsupc then return some s!"supernode {s}: row list shorter than its width"
    for k in List.range (nsupc - 1) do
      if L.xlsub[f + 1 + k]! ≠ hi then return some s!"supernode {s}: column {f+1+k} does not share the row list"
    let rows := (List.range nsupr).map fun d => L.lsub[lo + d]!
    for c in List.range nsupc do
      if rows[c]! ≠ f + c then return some s!"supernode {s}: leading row entry {c} is {rows[c]!}, expected {f + c}"
    let rest := rows.drop nsupc
    if ¬ rest.all (fun r => r > l ∧ r < m) then return some s!"supernode {s}: a trailing row is not below the supernode or out of range"
    if ¬ nodup rest then return some s!"supernode {s}: repeated row in the row list"
    for c in List.range nsupc do
      if L.xlusup[f + c + 1]! - L.xlusup[f + c]! ≠ nsupr then return some s!"column {f + c}: value slice length != rows of its supernode"
  -- U: rows strictly above the column's supernode, no repeats
  for j in List.range n do
    let f := L.xsup[L.supno[j]!]!
    let rs := (List.range (U.colptr[j+1]! - U.colptr[j]!)).map fun d => U.rowind[U.colptr[j]! + d]!
    if ¬ rs.all (fun r => r < f) then return some s!"U column {j}: a row is not strictly above its supernode"
    if ¬ ilu ∧ ¬ nodup rs then return some s!"U column {j}: repeated row index"
  -- stored counts
  if F.nnzL ≠ countnzL L then return some s!"L.nnz = {F.nnzL}, actual {countnzL L}"
  if F.nnzU ≠ countnzU F then return some s!"U.nnz = {F.nnzU}, actual {countnzU F}"
  return none

end Slu.Struct

namespace Slu.Struct
open Slu
variable {K : Type} [Inhabited K]

/-! ### The same predicate as a plain Boolean conjunction (the form the soundness theorem is about) -/

def rowsOf (L : SNode K) (s : Nat) : List Nat :=
  let f := L.xsup[s]!
  (List.range (L.xlsub[f+1]! - L.xlsub[f]!)).map fun d => L.lsub[L.xlsub[f]! + d]!

def ucolRows (F : LUFac K) (j : Nat) : List Nat :=
  (List.range (F.U.colptr[j+1]! - F.U.colptr[j]!)).map fun d => F.U.rowind[F.U.colptr[j]! + d]!

/-- C03 as a Boolean: every clause is a bounded quantifier over ranges -/
def wfb (F : LUFac K) (ilu : Bool := false) : Bool :=
  let L := F.L; let U := F.U; let n := L.n; let m := L.m; let ns := L.nsuper + 1
  n = 0 ||
  (decide (ns + 1 ≤ L.xsup.size) && decide (n ≤ L.supno.size) &&
   decide (n + 1 ≤ L.xlsub.size) && decide (n + 1 ≤ L.xlusup.size) && decide (n + 1 ≤ U.colptr.size) &&
   decide (L.xsup[0]! = 0) && decide (L.xsup[ns]! = n) &&
   (List.range ns).all (fun s => decide (L.xsup[s]! < L.xsup[s+1]!) &&
      (List.range (L.xsup[s+1]! - L.xsup[s]!)).all (fun c => decide (L.supno[L.xsup[s]! + c]! = s))) &&
   decide (L.xlsub[0]! = 0) && decide (L.xlusup[0]! = 0) && decide (U.colptr[0]! = 0) &&
   (List.range n).all (fun j => decide (L.xlsub[j]! ≤ L.xlsub[j+1]!) && decide (L.xlusup[j]! ≤ L.xlusup[j+1]!) &&
      decide (U.colptr[j]! ≤ U.colptr[j+1]!)) &&
   decide (L.lsub.size = L.xlsub[n]!) && decide (L.lusup.size = L.xlusup[n]!) &&
   decide (U.rowind.size = U.colptr[n]!) && decide (U.val.size = U.colptr[n]!) &&
   (List.range ns).all (fun s =>
      let f := L.xsup[s]!; let l := L.xsup[s+1]! - 1; let w := l - f + 1
      let rows := rowsOf L s
      decide (w ≤ rows.length) &&
      (List.range (w - 1)).all (fun k => decide (L.xlsub[f + 1 + k]! = L.xlsub[f+1]!)) &&
      (List.range w).all (fun c => decide (rows[c]! = f + c)) &&
      (rows.drop w).all (fun r => decide (l < r) && decide (r < m)) &&
      nodup (rows.drop w) &&
      (List.range w).all (fun c => decide (L.xlusup[f + c + 1]! - L.xlusup[f + c]! = rows.length))) &&
   (List.range n).all (fun j =>
      (ucolRows F j).all (fun r => decide (r < L.xsup[L.supno[j]!]!)) && (ilu || nodup (ucolRows F j))) &&
   decide (F.nnzL = countnzL L) && decide (F.nnzU = countnzU F))

/-- lists built with the marker test of `[sdcz]snode_dfs` / `[sdcz]column_dfs`
(`if marker[r] != tag { marker[r] = tag; lsub[nextl++] = r }`): `acc` is what has been appended -/
def markerFilter : List Nat → List Nat → List Nat
  | [], acc => acc
  | r :: rs, acc => if acc.contains r then markerFilter rs acc else markerFilter rs (acc ++ [r])

/-- `fixupL` on one supernode's row list (SRC/util.c:324-335): every subscript is replaced by its
position under `perm_r` -/
def fixupRows (permR : Nat → Nat) (rows : List Nat) : List Nat := rows.map permR

end Slu.Struct
