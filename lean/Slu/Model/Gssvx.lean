import Slu.Model.Cx
import Slu.Model.Equil
import Slu.Model.Lacon
/-
C05 — model of the glue of the expert driver `[sdcz]gssvx` (SRC/dgssvx.c:349-640 and the s/c/z
twins; complex files use `zd_mult`, i.e. `Mag.rscale`), Fact = DOFACT.

Fidelity B (bit mirror) for everything the driver itself computes:
  * dgssvx.c:483-499  SLU_NR: the row-compressed arrays are handed on as the column-compressed
                      arrays of A' and the sense of Trans is reversed (`Lacon.effTrans`);
  * dgssvx.c:501-513  `gsequ` + `laqgs` on those arrays (`Slu.Equil`, the C11 bit mirror);
  * dgssvx.c:586-599  `Bmat[i+j*ldb] *= R[i]` (notran && rowequ)  else  `*= C[i]` (!notran && colequ);
  * dgssvx.c:601-604  `Xmat[i+j*ldx] = Bmat[i+j*ldb]`;
  * dgssvx.c:626-637  `Xmat[i+j*ldx] *= C[i]` (notran && colequ)  else  `*= R[i]` (!notran && rowequ).
Every cell `i + j*ld` (i < n <= ld, j < nrhs) is visited exactly once by each of these loop nests and
the cells are independent, so the loop nests are the index-wise maps below, bit for bit.

The inner solver — `gstrs(trant, ...)` followed, when IterRefine != NOREFINE, by `gsrfs(trant, ...)`
on the factors of the equilibrated (and, for SLU_NR, transposed) matrix — is the parameter `inner`
(fidelity X; it is modelled in `Slu.LU.gstrsN/gstrsT` and `Slu.Refine.refineCol`).

DOCUMENTED versus IMPLEMENTED behaviour for SLU_NR with Trans = CONJ.  The documentation asks for
`A^H X = B`.  dgssvx.c:488-494 maps every Trans != NOTRANS to `trant = NOTRANS` on A', i.e. it
solves `A^T X = B`.  `gssvx (documented := true)` solves the conjugated system with the same inner
solver (`conj (inner N (conj b))`); `documented := false` is the statement mirror of the C code.
The two coincide on real data and whenever (storage, Trans) != (SLU_NR, CONJ).
-/
namespace Slu.Gssvx
open Slu Slu.Equil Slu.Lacon

/-- the options the glue looks at -/
structure Opts where
  trans : Trans
  equil : Bool
  rowStored : Bool          -- A->Stype == SLU_NR
  refine : Bool             -- options->IterRefine != NOREFINE
deriving Repr, Inhabited

/-- machine constants of `gsequ` / `laqgs`: `smlnum`, `bignum = 1/smlnum`, `THRESH = 0.1`,
`small = sfmin/prec`, `large = 1/small` -/
structure Mach (R : Type) where
  sml : R
  big : R
  thresh : R
  small : R
  large : R

def Equed.rowequ : Equed → Bool
  | .R => true | .B => true | _ => false
def Equed.colequ : Equed → Bool
  | .C => true | .B => true | _ => false

/-- the four ways the stored square matrix (A for SLU_NC, A' for SLU_NR) can act on a vector:
itself, its transpose, its conjugate transpose, its entrywise conjugate -/
inductive Op | N | T | C | J
deriving DecidableEq, Repr, Inhabited

def opOfTrans : Trans → Op
  | .N => .N | .T => .T | .C => .C

/-- the DOCUMENTED system `op(A) X = B` read in storage coordinates: SLU_NR storage holds A', so
`A x` is `T` on the stored matrix, `A' x` is `N` and `A^H x` is the entrywise conjugate `J` -/
def docOp (o : Opts) : Op :=
  if o.rowStored then (match o.trans with | .N => .T | .T => .N | .C => .J)
  else opOfTrans o.trans

/-- what `gstrs(trant)` solves (dgssvx.c:488-494) -/
def implOp (o : Opts) : Op := opOfTrans (effTrans o.rowStored o.trans).1

section model
variable {K R : Type} [Mag K R]
variable [Zero R] [One R] [Mul R] [Div R] [LT R] [DecidableLT R] [LE R] [DecidableLE R] [BEq R]

/-- result of the equilibration step -/
structure Equ (K R : Type) where
  equed : Equed
  r : Nat → R          -- content of R[] after the step
  c : Nat → R          -- content of C[] after the step
  aout : List K        -- nzval after the step, storage order

/-- dgssvx.c:501-513 with `nofact`: `equed = 'N'`; when Equil = YES `gsequ` runs (and writes R, C as
far as it gets), and when it reports no zero row/column `laqgs` scales the stored values. -/
def equilStep (equil : Bool) (n : Nat) (es : List (Entry K)) (M : Mach R) (r0 c0 : Nat → R) : Equ K R :=
  if !equil then { equed := .N, r := r0, c := c0, aout := es.map (·.val) } else
  let o := gsequ n n es M.sml M.big
  let r := o.r.getD r0
  let c := o.c.getD c0
  if o.info ≠ 0 then { equed := .N, r := r, c := c, aout := es.map (·.val) } else
  let q := laqgs n n es r c M.thresh M.small M.large (o.rowcnd.getD 1) (o.colcnd.getD 1) (o.amax.getD 0)
  { equed := q.1, r := r, c := c, aout := q.2 }

/-- `for (j < nrhs) for (i < n) M[i + j*ld] *= s[i]` -/
def scaleMat (n nrhs ld : Nat) (M : Array K) (s : Nat → R) : Array K :=
  M.mapIdx fun k x => if k % ld < n ∧ k / ld < nrhs then Mag.rscale x (s (k % ld)) else x

/-- `for (j < nrhs) for (i < n) X[i + j*ldx] = B[i + j*ldb]` -/
def copyMat (n nrhs ldb ldx : Nat) (B X : Array K) : Array K :=
  X.mapIdx fun k x => if k % ldx < n ∧ k / ldx < nrhs then B.getD (k % ldx + (k / ldx) * ldb) x else x

/-- column `j` (first `n` entries) of a column-major array with leading dimension `ld` -/
def colOf [Inhabited K] (n ld : Nat) (M : Array K) (j : Nat) : Array K :=
  (Array.range n).map fun i => M.getD (i + j * ld) default

/-- replace the first `n` entries of every column `j < nrhs` by `f j` -/
def setCols (n nrhs ld : Nat) (M : Array K) (f : Nat → Array K) : Array K :=
  M.mapIdx fun k x => if k % ld < n ∧ k / ld < nrhs then (f (k / ld)).getD (k % ld) x else x

/-- dgssvx.c:586-599 -/
def scaleB (notran : Bool) (q : Equed) (n nrhs ldb : Nat) (B : Array K) (r c : Nat → R) : Array K :=
  if notran then (if Equed.rowequ q then scaleMat n nrhs ldb B r else B)
  else if Equed.colequ q then scaleMat n nrhs ldb B c else B

/-- dgssvx.c:626-637 -/
def unscaleX (notran : Bool) (q : Equed) (n nrhs ldx : Nat) (X : Array K) (r c : Nat → R) : Array K :=
  if notran then (if Equed.colequ q then scaleMat n nrhs ldx X c else X)
  else if Equed.rowequ q then scaleMat n nrhs ldx X r else X

/-- what the driver leaves behind -/
structure Out (K R : Type) where
  equed : Equed
  r : Nat → R
  c : Nat → R
  aout : List K        -- nzval of A (storage order) on exit
  bout : Array K       -- B on exit
  x : Array K          -- X on exit

variable [HasConj K] [Inhabited K]

/-- the solve handed to the inner solver for one right-hand side -/
def solveCol (documented : Bool) (o : Opts) (inner : Trans → Array K → Array K) (b : Array K) : Array K :=
  if documented ∧ o.rowStored ∧ o.trans = .C then
    (inner .N (b.map HasConj.conj)).map HasConj.conj
  else inner (effTrans o.rowStored o.trans).1 b

/-- `[sdcz]gssvx`, Fact = DOFACT, after argument screening.
* `es` — the stored entries of A (SLU_NC) resp. A' (SLU_NR), in storage order;
* `r0`, `c0`, `B`, `X` — contents of R[], C[], B, X on entry;
* `facOk` — `gstrf` returned info = 0 (otherwise the driver returns after the equilibration);
* `inner tr b` — `gstrs(tr)` (+ `gsrfs(tr)` when refinement is on) applied to one right-hand side
  of the equilibrated system, with the factors of the equilibrated matrix. -/
def gssvx (documented : Bool) (o : Opts) (M : Mach R) (n nrhs ldb ldx : Nat) (es : List (Entry K))
    (r0 c0 : Nat → R) (B X : Array K) (facOk : Bool) (inner : Trans → Array K → Array K) : Out K R :=
  let notran := (effTrans o.rowStored o.trans).2
  let e := equilStep o.equil n es M r0 c0
  if !facOk ∨ nrhs = 0 then { equed := e.equed, r := e.r, c := e.c, aout := e.aout, bout := B, x := X } else
  let B1 := scaleB notran e.equed n nrhs ldb B e.r e.c
  let X1 := copyMat n nrhs ldb ldx B1 X
  let X2 := setCols n nrhs ldx X1 fun j => solveCol documented o inner (colOf n ldx X1 j)
  let X3 := unscaleX notran e.equed n nrhs ldx X2 e.r e.c
  { equed := e.equed, r := e.r, c := e.c, aout := e.aout, bout := B1, x := X3 }

/-- the inner solver assembled from `gstrs` and `gsrfs` (dgssvx.c:606-624): refinement works on the
scaled right-hand side and the solution of `gstrs` -/
def innerOf (refineOn : Bool) (gstrs : Trans → Array K → Array K)
    (gsrfs : Trans → Array K → Array K → Array K) (tr : Trans) (b : Array K) : Array K :=
  let x := gstrs tr b
  if refineOn then gsrfs tr b x else x

end model
end Slu.Gssvx
