/-
Slu.Mem — the factor-storage allocator of SuperLU as a pure state machine (core Lean only).

Mirrors, statement by statement, the integer arithmetic of
  SRC/[sdcz]memory.c   (line numbers of dmemory.c, pinned tree)
    dSetupSpace 54-66, duser_malloc 70-87, duser_free 90-98, dQuerySpace 111-139,
    ilu_dQuerySpace 152-182, dLUMemInit 196-333 (size query 229-231, pointer arrays 243-255,
    the four first allocations 257-260, retry/halving loop 262-287; the branch
    `fact == SamePattern_SameRowPerm` — storage of the previous factorization re-adopted — is `memInitReuse`,
    with its own line-by-line table further down, line numbers of /repo HEAD 4a8c012), dLUWorkInit 339-393,
    dLUWorkFree 414-428, dLUMemXpand 439-493, dexpand 507-633 (malloc mode 536-556, workspace mode:
    first allocation 560-575, later expansion 577-625), dmemory_usage 712-724
  SRC/memory.c         user_bcopy 138-146 (backward byte copy), copy_mem_int 128-135
and the growth protocol of the factor routines (dgstrf.c:317-321, dcolumn_dfs.c:139-143/181-186,
dsnode_dfs.c:90-94/103-107, dcopy_to_ucol.c:85-93, dcolumn_bmod.c:273-279).

Fidelity: S (integer, exact) for every offset/length/counter; B (bit mirror) for the two places
where the C code computes with `float`: `new_len = alpha * *prev_len` with `float alpha = 1.5`,
`alpha = Reduce(alpha) = (alpha + 1) / 2` (dmemory.c:45, 519-527, 544-546, 586-588) and the
`mem_usage` formulas of `QuerySpace`.  `alpha` only ever takes the values `1 + 2^-k`, k = 1..11, so it
is represented by `k`; `growLen k p` computes `(int_t)((float)(1 + 2^-k) * (float)p)` in pure natural
number arithmetic (int -> float conversion and the product both rounded to 24 significant bits,
round-to-nearest-even, then truncated), so that it can be evaluated by the kernel (`decide`) and
reasoned about; `growLenF32` is the same expression in Lean's `Float32` (the driver compares the two
with each other and with the C code on every run).

The caller's buffer is abstract: byte offsets relative to `work`, `used/top1/top2/size` as in
`LU_stack_t`; `base4` says that `work` is 4 (mod 8) instead of 0 (mod 8).  Pointers are offsets
(`Int`, because on the current tree they do become negative — defect D3).  In malloc mode the
"offset" of a region is the serial number of the block that holds it.

The code as it is on the pinned tree has three defects in this file (DESIGN.md section 7: D3, D7,
D10).  Every function takes a `Fixes` record: `asIs` mirrors the pinned code, `fixed` is the minimal
repair proposed in `SluProofs/Props/C08.lean`.  `expand_asIs`/`expand_fixed` etc. are the two
instances.
-/
namespace Slu.Mem

/-- `MemType` (slu_util.h:118): also the layout order inside a workspace. -/
inductive MemType where
  | LUSUP | UCOL | LSUB | USUB
deriving DecidableEq, Repr, Inhabited

/-- byte sizes: `iw = sizeof(int)`, `liw = sizeof(int_t)`, `dw = sizeof(scalar)` -/
structure Words where
  iw : Int := 4
  liw : Int := 4
  dw : Int := 8
deriving Repr, DecidableEq, Inhabited

/-- `lword` of dexpand (dmemory.c:531-532) -/
def Words.lword (w : Words) : MemType → Int
  | .LUSUP => w.dw
  | .UCOL => w.dw
  | .LSUB => w.liw
  | .USUB => w.liw

/-- which repairs are applied (all `false` = the pinned tree) -/
structure Fixes where
  /-- D3: the retry loop of `LUMemInit` restores the stack marks it saved before the four first
  allocations instead of `user_free`ing a computed total, and tests the five pointer arrays -/
  d3 : Bool
  /-- D7: a UCOL expansion inside a workspace tests the `2*extra` bytes it takes -/
  d7 : Bool
  /-- D10: the first attempt grows by at least one element and a reduced factor that no longer grows
  the array (`new_len <= *prev_len`) is a failure -/
  d10 : Bool
  /-- D11 (64-bit index builds): the three `int_t` pointer arrays xlsub, xlusup, xusub are taken from a
  workspace with `(n+1)*sizeof(int_t)` bytes instead of `(n+1)*sizeof(int)` -/
  d11 : Bool
deriving Repr, DecidableEq, Inhabited

/-- the pinned tree -/
def asIs : Fixes := ⟨false, false, false, false⟩
/-- every repair -/
def fixed : Fixes := ⟨true, true, true, true⟩
/-- /repo after the `fix:` commits ba17e55 (D3), 1d60195 (D10) and c7d64d2 (D11); D7 still open -/
def current : Fixes := ⟨true, false, true, true⟩

/-! ### `(int_t)(alpha * prev_len)` with `float alpha = 1 + 2^-k` -/

/-- smallest `s` (searching upward from `s`) with `N < 2^(24+s)` -/
def shiftFor : Nat → Nat → Nat → Nat
  | 0, _, s => s
  | f+1, N, s => if N < 2 ^ (24 + s) then s else shiftFor f N (s + 1)

/-- `N` rounded to 24 significant bits, round-to-nearest-even (the value of `(float)N`, and of the
float nearest to any dyadic rational with numerator `N`) -/
def rne24 (N : Nat) : Nat :=
  let s := shiftFor N N 0
  if s = 0 then N else
  let q := N / 2 ^ s
  let r := N % 2 ^ s
  let h := 2 ^ (s - 1)
  let q' := if r > h ∨ (r = h ∧ q % 2 = 1) then q + 1 else q
  q' * 2 ^ s

/-- `(int_t)(alpha * p)` for `alpha = 1 + 2^-k` held in a `float` (negative `p` never occurs; it is
mapped to 0) -/
def growLen (k : Nat) (p : Int) : Int :=
  Int.ofNat (rne24 (rne24 p.toNat * (2 ^ k + 1)) / 2 ^ k)

/-- `alpha` after `k-1` applications of `Reduce` to `1.5f`, computed in `Float32` as the C code does -/
def alphaF32 : Nat → Float32
  | 0 => 2.0
  | 1 => 1.5
  | k+1 => (alphaF32 k + 1) / 2

/-- the same truncated product in `Float32` (executable mirror, used for the start-up self test) -/
def growLenF32 (k : Nat) (p : Int) : Int :=
  ((alphaF32 k * Float32.ofInt p).toInt64).toInt

/-! ### State -/

/-- `GlobalLU_t` restricted to what the allocator reads and writes -/
structure St where
  /-- `MemModel == USER` -/
  user : Bool := false
  /-- `work` is 4 (mod 8) -/
  base4 : Bool := false
  /-- `Glu->n` -/
  n : Int := 0
  size : Int := 0
  used : Int := 0
  top1 : Int := 0
  top2 : Int := 0
  /-- all five pointer arrays xsup, supno, xlsub, xlusup, xusub are non-NULL -/
  hdrOk : Bool := true
  /-- end of the last pointer array (workspace mode) -/
  hdrEnd : Int := 0
  offL : Int := 0
  offU : Int := 0
  offS : Int := 0
  offB : Int := 0
  capL : Int := 0
  capU : Int := 0
  capS : Int := 0
  capB : Int := 0
  /-- `Glu->num_expansions` -/
  nexp : Int := 0
  /-- start and byte length of iwork / dwork inside the workspace -/
  iwork : Int := 0
  iworkLen : Int := 0
  dwork : Int := 0
  dworkLen : Int := 0
  /-- number of `SUPERLU_MALLOC`s issued so far from `[sdcz]memory.c` (malloc mode) -/
  mallocs : Nat := 0
deriving Repr, DecidableEq, Inhabited

def St.off (s : St) : MemType → Int
  | .LUSUP => s.offL | .UCOL => s.offU | .LSUB => s.offS | .USUB => s.offB
def St.cap (s : St) : MemType → Int
  | .LUSUP => s.capL | .UCOL => s.capU | .LSUB => s.capS | .USUB => s.capB
def St.setOff (s : St) (t : MemType) (v : Int) : St :=
  match t with
  | .LUSUP => { s with offL := v } | .UCOL => { s with offU := v }
  | .LSUB => { s with offS := v } | .USUB => { s with offB := v }
def St.setCap (s : St) (t : MemType) (v : Int) : St :=
  match t with
  | .LUSUP => { s with capL := v } | .UCOL => { s with capU := v }
  | .LSUB => { s with capS := v } | .USUB => { s with capB := v }

/-- `Glu->nzlumax / nzumax / nzlmax` as `LUMemXpand`'s callers pass them: the current length of the
array being grown (`nzumax` serves UCOL and USUB) -/
def St.nz (s : St) : MemType → Int
  | .LUSUP => s.capL | .UCOL => s.capU | .LSUB => s.capS | .USUB => s.capU

/-- `StackFull(x)` (dmemory.c:41) -/
def St.full (s : St) (x : Int) : Prop := x + s.used ≥ s.size
instance (s : St) (x : Int) : Decidable (s.full x) := by unfold St.full; infer_instance

/-- `duser_malloc(bytes, HEAD)`; `none` = NULL -/
def userMallocHead (bytes : Int) (s : St) : St × Option Int :=
  if s.full bytes then (s, none)
  else ({ s with top1 := s.top1 + bytes, used := s.used + bytes }, some s.top1)

/-- `duser_malloc(bytes, TAIL)` -/
def userMallocTail (bytes : Int) (s : St) : St × Option Int :=
  if s.full bytes then (s, none)
  else ({ s with top2 := s.top2 - bytes, used := s.used + bytes }, some (s.top2 - bytes))

/-- `duser_free(bytes, HEAD)` -/
def userFreeHead (bytes : Int) (s : St) : St :=
  { s with top1 := s.top1 - bytes, used := s.used - bytes }

/-- `duser_free(bytes, TAIL)` -/
def userFreeTail (bytes : Int) (s : St) : St :=
  { s with top2 := s.top2 + bytes, used := s.used - bytes }

/-- address of offset `off` modulo 8 -/
def St.addr8 (s : St) (off : Int) : Int := ((if s.base4 then 4 else 0) + off) % 8
/-- `DoubleAlign(addr) - addr` -/
def St.alignPad (s : St) (off : Int) : Int := (8 - s.addr8 off) % 8

/-- `dmemory_usage` (dmemory.c:712-724) -/
def memoryUsage (w : Words) (nzlmax nzumax nzlumax n : Int) : Int :=
  10 * n * w.iw + nzlmax * w.liw + nzumax * (w.liw + w.dw) + nzlumax * w.dw

/-! ### expand -/

/-- bytes that the fullness test is given for an expansion by `extra` bytes: the pinned code always
tests `extra`, although a UCOL expansion takes `2*extra` (D7) -/
def needBytes (fx : Fixes) (t : MemType) (extra : Int) : Int :=
  if fx.d7 = true ∧ t = .UCOL then 2 * extra else extra

/-- the `while ( StackFull(extra) )` loop of dmemory.c:583-590: `fuel` reductions of alpha are still
allowed, alpha is currently `1 + 2^-k` and gave `nl` -/
def userSearch (fx : Fixes) (s : St) (t : MemType) (prev lw : Int) : Nat → Nat → Int → Option Int
  | 0, _, nl => if s.full (needBytes fx t ((nl - prev) * lw)) then none else some nl
  | f+1, k, nl =>
    if s.full (needBytes fx t ((nl - prev) * lw)) then
      if fx.d10 = true ∧ growLen (k + 1) prev ≤ prev then none
      else userSearch fx s t prev lw f (k + 1) (growLen (k + 1) prev)
    else some nl

/-- the `while ( !new_mem )` loop of dmemory.c:541-547: `c` mallocs have been issued, `fail c` says
that the next one returns NULL.  Returns the accepted length and the new malloc count. -/
def sysSearch (fx : Fixes) (fail : Nat → Bool) (prev : Int) : Nat → Nat → Int → Nat → Option Int × Nat
  | 0, _, nl, c => if fail c = true then (none, c + 1) else (some nl, c + 1)
  | f+1, k, nl, c =>
    if fail c = true then
      if fx.d10 = true ∧ growLen (k + 1) prev ≤ prev then (none, c + 1)
      else sysSearch fx fail prev f (k + 1) (growLen (k + 1) prev) (c + 1)
    else (some nl, c + 1)

/-- `new_len = alpha * *prev_len` on the first attempt (alpha = 1.5); the repair grows by at least one
element -/
def firstLen (fx : Fixes) (prev : Int) : Int :=
  if fx.d10 = true ∧ growLen 1 prev ≤ prev then prev + 1 else growLen 1 prev

/-- move the regions behind `t` by `extra` bytes and take the space (dmemory.c:597-619) -/
def shiftAfter (t : MemType) (extra : Int) (s : St) : St :=
  match t with
  | .LUSUP => { s with offU := s.offU + extra, offS := s.offS + extra, offB := s.offB + extra,
                       top1 := s.top1 + extra, used := s.used + extra }
  | .UCOL => { s with offS := s.offS + extra, offB := s.offB + extra,
                      top1 := s.top1 + extra + extra, used := s.used + extra + extra }
  | .LSUB => { s with offB := s.offB + extra, top1 := s.top1 + extra, used := s.used + extra }
  | .USUB => s

/-- `dexpand(&prev_len, type, len_to_copy, keep_prev, Glu)` on the extents.  Result: new state and
`some new_len` (also stored into `*prev_len`) or `none` when the C function returns NULL. -/
def expand (fx : Fixes) (w : Words) (fail : Nat → Bool) (prevLen : Int) (t : MemType) (keepPrev : Bool)
    (s : St) : St × Option Int :=
  let lw := w.lword t
  if s.nexp = 0 then
    -- first allocation: new_len = *prev_len
    if s.user = false then
      let s1 := { s with mallocs := s.mallocs + 1 }
      if fail s.mallocs = true then ((s1.setOff t 0).setCap t prevLen, none)
      else ((s1.setOff t (Int.ofNat s.mallocs + 1)).setCap t prevLen, some prevLen)
    else
      match userMallocHead (prevLen * lw) s with
      | (s1, none) => ((s1.setOff t 0).setCap t prevLen, none)
      | (s1, some p) =>
        let pad := if (t = .LUSUP ∨ t = .UCOL) then s1.alignPad p else 0
        let s2 := { s1 with top1 := s1.top1 + pad, used := s1.used + pad }
        ((s2.setOff t (p + pad)).setCap t prevLen, some prevLen)
  else if s.user = false then
    if keepPrev = true then
      let s1 := { s with mallocs := s.mallocs + 1 }
      if fail s.mallocs = true then (s1, none)
      else ({ (s1.setOff t (Int.ofNat s.mallocs + 1)).setCap t prevLen with nexp := s.nexp + 1 }, some prevLen)
    else
      match sysSearch fx fail prevLen 10 1 (firstLen fx prevLen) s.mallocs with
      | (none, c) => ({ s with mallocs := c }, none)
      | (some nl, c) =>
        ({ (({ s with mallocs := c }).setOff t (Int.ofNat c)).setCap t nl with nexp := s.nexp + 1 }, some nl)
  else
    let found : Option Int :=
      if keepPrev = true then
        (if s.full (needBytes fx t ((prevLen - prevLen) * lw)) then none else some prevLen)
      else userSearch fx s t prevLen lw 10 1 (firstLen fx prevLen)
    match found with
    | none => (s, none)
    | some nl =>
      let s1 := shiftAfter t ((nl - prevLen) * lw) s
      ({ s1.setCap t nl with nexp := s.nexp + 1 }, some nl)

/-- `dLUMemXpand(jcol, next, mem_type, &maxlen, Glu)` with `maxlen` loaded from `Glu` as every
caller does.  Returns the new state and the routine's return value (0 or bytes + n). -/
def memXpand (fx : Fixes) (w : Words) (fail : Nat → Bool) (t : MemType) (s : St) : St × Int :=
  match expand fx w fail (s.nz t) t (decide (t = .USUB)) s with
  | (s1, none) => (s1, memoryUsage w s1.capS s1.capU s1.capL s1.n + s1.n)
  | (s1, some _) => (s1, 0)

/-! ### LUMemInit / LUWorkInit / LUWorkFree -/

/-- what the factor routine passes to `LUMemInit` -/
structure Cfg where
  m : Int
  n : Int
  /-- `Astore->nnz` -/
  annz : Int
  /-- `panel_size` argument -/
  panel : Int
  /-- `SUPERLU_MAX(sp_ienv(3), sp_ienv(7))` -/
  maxsuper : Int
  /-- `sp_ienv(4)` -/
  rowblk : Int
  /-- `sp_ienv(6)` (an integer-valued double) -/
  fill : Int
  lwork : Int
  base4 : Bool := false
  w : Words := {}
  /-- ILU (`[sdcz]gsitrf`): four more work arrays are not part of LUMemInit; only QuerySpace differs -/
  ilu : Bool := false
deriving Repr, DecidableEq, Inhabited

/-- `TempSpace(m, w)` (dmemory.c:44) -/
def tempSpace (c : Cfg) : Int :=
  (2 * c.panel + 4 + 3) * c.m * c.w.iw + (c.panel + 1) * c.m * c.w.dw

/-- value returned for `lwork == -1` (dmemory.c:229-231) -/
def queryInfo (c : Cfg) : Int :=
  let nz := c.fill * c.annz
  (5 * c.n + 5) * c.w.iw + tempSpace c + (nz + nz) * c.w.iw + (nz + nz) * c.w.dw + c.n

/-- `isize`, `dsize` of `dLUWorkInit` (dmemory.c:349-351) -/
def isize (c : Cfg) : Int := ((2 * c.panel + 2 + 3) * c.m) * c.w.iw
def numTempv (c : Cfg) : Int :=
  if c.m > (c.maxsuper + c.rowblk) * c.panel then c.m else (c.maxsuper + c.rowblk) * c.panel
def dsize (c : Cfg) : Int := (c.m * c.panel + numTempv c) * c.w.dw

/-- the four first allocations (dmemory.c:257-260 / 283-286); `true` iff none returned NULL -/
def init4 (fx : Fixes) (w : Words) (fail : Nat → Bool) (nzlu nzu nzl : Int) (s : St) : St × Bool :=
  let r1 := expand fx w fail nzlu .LUSUP false s
  let r2 := expand fx w fail nzu .UCOL false r1.1
  let r3 := expand fx w fail nzl .LSUB false r2.1
  let r4 := expand fx w fail nzu .USUB true r3.1
  (r4.1, r1.2.isSome && r2.2.isSome && r3.2.isSome && r4.2.isSome)

/-- outcome of the allocation phase -/
inductive Alloc where
  /-- all four arrays allocated with these lengths (nzlumax, nzumax, nzlmax) -/
  | ok (nzlu nzu nzl : Int)
  /-- "Not enough memory": the halved lengths went below nnz(A) -/
  | short (nzlu nzu nzl : Int)
  /-- the C loop would not terminate -/
  | spin
deriving Repr, DecidableEq, Inhabited

/-- the `while ( !lusup || !ucol || !lsub || !usub )` loop (dmemory.c:262-287) including the first
attempt -/
def initLoop (fx : Fixes) (w : Words) (fail : Nat → Bool) (annz : Int) : Nat → Int → Int → Int → St → St × Alloc
  | 0, _, _, _, s => (s, .spin)
  | f+1, nzlu, nzu, nzl, s =>
    match init4 fx w fail nzlu nzu nzl s with
    | (s4, true) => (s4, .ok nzlu nzu nzl)
    | (s4, false) =>
      let s5 : St :=
        if s.user = false then s4
        else if fx.d3 = true then { s4 with used := s.used, top1 := s.top1 }
        else userFreeHead ((nzlu + nzu) * w.dw + (nzl + nzu) * w.iw) s4
      let nzlu' := nzlu / 2
      let nzu' := nzu / 2
      let nzl' := nzl / 2
      if nzlu' < annz then (s5, .short nzlu' nzu' nzl')
      else initLoop fx w fail annz f nzlu' nzu' nzl' s5

/-- `dLUWorkInit` in a workspace (dmemory.c:353-392): 0 or the byte count it returns -/
def workInitUser (c : Cfg) (s : St) : St × Int :=
  match userMallocTail (isize c) s with
  | (s1, none) => (s1, isize c + c.n)
  | (s1, some pi) =>
    let s2 := { s1 with iwork := pi, iworkLen := isize c }
    match userMallocTail (dsize c) s2 with
    | (s3, none) => (s3, isize c + dsize c + c.n)
    | (s3, some pd) =>
      -- DoubleAlign(p) - 8 for a misaligned p: 4 bytes lower
      let extra := if s3.addr8 pd ≠ 0 then s3.addr8 pd else 0
      ({ s3 with top2 := s3.top2 - extra, used := s3.used + extra, dwork := pd - extra, dworkLen := dsize c }, 0)

/-- `dLUWorkInit` with library allocation: `int32Calloc` aborts on failure (memory.c), the real work
array is an ordinary `SUPERLU_MALLOC` in `[sdcz]memory.c` -/
def workInitSys (c : Cfg) (fail : Nat → Bool) (s : St) : St × Int :=
  let s1 := { s with mallocs := s.mallocs + 1 }
  if fail s.mallocs = true then (s1, isize c + dsize c + c.n) else (s1, 0)

/-- `dSetupSpace` + `Glu->n`, `Glu->expanders` (malloc #0) -/
def setupSpace (c : Cfg) : St :=
  if c.lwork = 0 then { n := c.n, mallocs := 1 }
  else { user := true, base4 := c.base4, n := c.n, top2 := (c.lwork / 4) * 4, size := (c.lwork / 4) * 4 }

/-- the five pointer arrays xsup, supno, xlsub, xlusup, xusub at the head of the workspace
(dmemory.c:249-253): xsup, supno are `int[n+1]` (`hb` bytes each), xlsub, xlusup, xusub are `int_t[n+1]`
(`hbl` bytes each once D11 is repaired); `hdrOk` records whether all five calls returned non-NULL -/
def hdrAlloc (hb hbl : Int) (s0 : St) : St :=
  let a1 := userMallocHead hb s0
  let a2 := userMallocHead hb a1.1
  let a3 := userMallocHead hbl a2.1
  let a4 := userMallocHead hbl a3.1
  let a5 := userMallocHead hbl a4.1
  { a5.1 with hdrOk := a1.2.isSome && a2.2.isSome && a3.2.isSome && a4.2.isSome && a5.2.isSome,
              hdrEnd := a5.1.top1 }

/-- result of `LUMemInit` -/
structure InitRes where
  st : St
  /-- return value: 0, or bytes + n -/
  info : Int
  /-- the C code would loop forever -/
  spin : Bool := false
deriving Repr, DecidableEq, Inhabited

/-- `dLUMemInit` for `fact != SamePattern_SameRowPerm`, `lwork >= 0` (dmemory.c:196-333); the other branch is
`memInitReuse` below.
Malloc count convention: only `SUPERLU_MALLOC`s written in `[sdcz]memory.c` are counted — #0 is
`Glu->expanders` (ABORT on failure, not modelled), #1..#4 the four arrays, then the work array. -/
def memInit (fx : Fixes) (fail : Nat → Bool) (c : Cfg) : InitRes :=
  let w := c.w
  let nz := c.fill * c.annz
  let s0 := setupSpace c
  -- the five pointer arrays (unchecked on the pinned tree)
  let s1 : St := if s0.user = false then s0
    else hdrAlloc ((c.n + 1) * w.iw) ((c.n + 1) * (if fx.d11 = true then w.liw else w.iw)) s0
  if fx.d3 = true ∧ s1.hdrOk = false then
    { st := s1, info := memoryUsage w nz nz nz c.n + c.n }
  else
  match initLoop fx w fail c.annz (nz.toNat + 2) nz nz nz s1 with
  | (s2, .spin) => { st := s2, info := 0, spin := true }
  | (s2, .short nzlu nzu nzl) => { st := s2, info := memoryUsage w nzl nzu nzlu c.n + c.n }
  | (s2, .ok nzlu nzu nzl) =>
    let r := if s2.user = true then workInitUser c s2 else workInitSys c fail s2
    if r.2 ≠ 0 then { st := r.1, info := r.2 + memoryUsage w nzl nzu nzlu c.n + c.n }
    else { st := { r.1 with nexp := r.1.nexp + 1 }, info := 0 }

/-- `dLUWorkFree` (dmemory.c:414-428) -/
def workFree (s : St) : St :=
  if s.user = false then s
  else { s with used := s.used - (s.size - s.top2), top2 := s.size,
                iwork := s.size, iworkLen := 0, dwork := s.size, dworkLen := 0 }

/-! ### `LUMemInit`, branch `fact == SamePattern_SameRowPerm` (storage of the previous factorization re-adopted)

Line numbers of dmemory.c on /repo HEAD 4a8c012 (the four precision copies are line-for-line the same).
`prev` is what the previous factorization left in `Glu` (and in the stores of `L`, `U`, which hold the same
base pointers: [sdcz]gstrf.c:437-451 copies `Glu->lusup/ucol/lsub/usub` and the pointer arrays back into
`L->Store`, `U->Store` after every factorization, so `Lstore->nzval == Glu->lusup` etc. on entry) — i.e. the
state after `LUWorkFree` ([sdcz]gstrf.c:433).

What the branch does, statement by statement:
  208      `Glu->n = n`
  209      `Glu->num_expansions = 0`
  211-213  `Glu->expanders = SUPERLU_MALLOC(...)` (one malloc from `[sdcz]memory.c`; ABORT on failure)
  302-306  the five pointer arrays are taken from `L->Store` / `U->Store`: nothing is allocated, the head of
           a workspace (`hdrEnd`) stays where it is
  307-309  `nzlmax, nzumax, nzlumax` := `Glu->nzlmax, Glu->nzumax, Glu->nzlumax` (the lengths the previous
           factorization ended with, expansions included)
  311-315  `lwork == -1`: size query from those lengths (`queryInfoReuse`)
  316-317  `lwork == 0`: `Glu->MemModel = SYSTEM` — nothing else
  318-321  otherwise: `Glu->MemModel = USER; Glu->stack.top2 = (lwork/4)*4; Glu->stack.size = Glu->stack.top2`.
           NOT touched: `Glu->stack.used`, `Glu->stack.top1` (they still describe the pointer arrays and the
           four L/U arrays at the head of the buffer) and `Glu->stack.array` (the `work` argument is not read:
           the buffer, hence its alignment `base4`, is the one of the previous call).  `dSetupSpace` is NOT
           called (it would zero `used` and `top1`: see `reuse_reset_loses_bytes` in Props/C08.lean).
  324-327  `expanders[t].mem` := the four base pointers of the previous factorization: offsets unchanged,
           nothing is copied, moved or cleared
  328-331  `expanders[LSUB].size = nzlmax`, `[LUSUP].size = nzlumax`, `[USUB].size = nzumax`,
           `[UCOL].size = nzumax`: USUB's recorded length is `nzumax` whatever it was
  334-345  `Glu->...` := the same values
  347-352  `LUWorkInit`: the two work arrays from the tail (workspace) / two library allocations, exactly as in
           the other branch; on failure `info + memory_usage(nzlmax, nzumax, nzlumax, n) + n`
  354      `++Glu->num_expansions`
-/

/-- value returned for `lwork == -1` (dmemory.c:311-315): the estimate uses the lengths of the previous
factorization instead of `fill_ratio * nnz(A)` -/
def queryInfoReuse (c : Cfg) (prev : St) : Int :=
  (5 * c.n + 5) * c.w.iw + tempSpace c + (prev.capS + prev.capU) * c.w.iw + (prev.capL + prev.capU) * c.w.dw + c.n

/-- dmemory.c:208-213 and 300-345: everything up to the call of `LUWorkInit`.  Library allocation: the
array "offsets" are block numbers; they stay, and the malloc counter goes on counting, so that blocks
allocated later get fresh numbers. -/
def reuseSetup (c : Cfg) (prev : St) : St :=
  { prev with
    n := c.n                                                         -- 208
    nexp := 0                                                        -- 209
    mallocs := prev.mallocs + 1                                      -- 211 (Glu->expanders)
    user := decide (c.lwork ≠ 0)                                     -- 316-319
    top2 := if c.lwork = 0 then prev.top2 else (c.lwork / 4) * 4     -- 320
    size := if c.lwork = 0 then prev.size else (c.lwork / 4) * 4     -- 321
    capB := prev.capU }                                              -- 330; used, top1, base4, hdrEnd, off*, capL/U/S kept

/-- `[sdcz]LUMemInit` for `fact == SamePattern_SameRowPerm`, `lwork >= 0` (dmemory.c:208-213, 298-355).
No `Fixes` parameter: none of the defects D3, D7, D10, D11 is in this branch. -/
def memInitReuse (fail : Nat → Bool) (c : Cfg) (prev : St) : InitRes :=
  let s0 := reuseSetup c prev
  let r := if s0.user = true then workInitUser c s0 else workInitSys c fail s0      -- 347
  if r.2 ≠ 0 then { st := r.1, info := r.2 + memoryUsage c.w s0.capS s0.capU s0.capL c.n + c.n }   -- 348-352
  else { st := { r.1 with nexp := r.1.nexp + 1 }, info := 0 }                       -- 354

/-- what the same branch does when the set-up of lines 316-322 is replaced by a call of `SetupSpace`
(a plausible "clean-up"; seeded changes C07-9 and C08-9): `used` and `top1` are zeroed as well
(dmemory.c:60-61).  Not the library's behaviour — kept here so that the driver can name the deviation and
the proofs can show what it breaks. -/
def memInitReuseReset (fail : Nat → Bool) (c : Cfg) (prev : St) : InitRes :=
  memInitReuse fail c (if c.lwork = 0 then prev else { prev with used := 0, top1 := 0 })

abbrev expand_asIs := expand asIs
abbrev expand_fixed := expand fixed
abbrev memXpand_asIs := memXpand asIs
abbrev memXpand_fixed := memXpand fixed
abbrev memInit_asIs := memInit asIs
abbrev memInit_fixed := memInit fixed

/-! ### The growth protocol of the factor routines -/

/-- `while ( new_next > maxlen ) { if ( mem_error = LUMemXpand(...) ) return mem_error; }`
(dgstrf.c:318, dsnode_dfs.c:103, dcolumn_bmod.c:273; for UCOL the body also expands USUB,
dcopy_to_ucol.c:85-93).  `fuel` bounds the number of iterations; `none` = fuel exhausted, i.e. the C
loop is still running. -/
def growUntil (fx : Fixes) (w : Words) (fail : Nat → Bool) (t : MemType) (need : Int) : Nat → St → Option (St × Int)
  | 0, s => if need > s.nz t then none else some (s, 0)
  | f+1, s =>
    if need > s.nz t then
      let r := memXpand fx w fail t s
      if r.2 = 0 then
        if t = .UCOL then
          let r2 := memXpand fx w fail .USUB r.1
          if r2.2 = 0 then growUntil fx w fail t need f r2.1 else some r2
        else growUntil fx w fail t need f r.1
      else some r
    else some (s, 0)

/-! ### Live blocks of a workspace (what is handed to writers) -/

/-- `(offset, byte length)` of every array that lives in the caller's buffer -/
def St.blocks (w : Words) (s : St) : List (Int × Int) :=
  let hb := (s.n + 1) * w.iw
  let hl := (s.n + 1) * w.liw
  [ (s.hdrEnd - 3 * hl - 2 * hb, hb), (s.hdrEnd - 3 * hl - hb, hb), (s.hdrEnd - 3 * hl, hl), (s.hdrEnd - 2 * hl, hl),
    (s.hdrEnd - hl, hl),
    (s.offL, s.capL * w.dw), (s.offU, s.capU * w.dw), (s.offS, s.capS * w.liw), (s.offB, s.capB * w.liw),
    (s.dwork, s.dworkLen), (s.iwork, s.iworkLen) ]

/-! ### Contents: what `expand` moves (C07) -/

/-- memory as bytes of an abstract type `β`: block number (0 = the caller's workspace, `k > 0` = the
`k`-th block obtained from `SUPERLU_MALLOC` in `[sdcz]memory.c`) and byte offset -/
abbrev Store (β : Type) := Nat → Int → β

/-- `user_bcopy(src, dest, bytes)` (memory.c:138-146): the byte loop runs from the last byte down to
the first, inside one block; `bcopyDesc src dst n m` performs the iterations for indices `n-1 … 0` -/
def bcopyDesc {β : Type} (src dst : Int) : Nat → (Int → β) → (Int → β)
  | 0, m => m
  | n+1, m => bcopyDesc src dst n (fun a => if a = dst + Int.ofNat n then m (src + Int.ofNat n) else m a)

/-- the array that follows `t` in a workspace -/
def MemType.next : MemType → MemType
  | .LUSUP => .UCOL | .UCOL => .LSUB | .LSUB => .USUB | .USUB => .USUB

/-- block and byte offset of array `t` -/
def St.blk (s : St) (t : MemType) : Nat := if s.user = true then 0 else (s.off t).toNat
def St.boff (s : St) (t : MemType) : Int := if s.user = true then s.off t else 0

/-- byte `j` of array `t` -/
def rbyte {β : Type} (σ : Store β) (s : St) (t : MemType) (j : Int) : β := σ (s.blk t) (s.boff t + j)

/-- the data movement of `dexpand` between the state before (`s`) and after (`s'`) a successful call:
workspace — `user_bcopy` of everything between the next array and `top1` by `extra` bytes
(dmemory.c:597-600; nothing for USUB); library allocation — `copy_mem_int/copy_mem_double` of
`len_to_copy` elements into the new block (dmemory.c:550-554) -/
def moveStore {β : Type} (w : Words) (t : MemType) (lenToCopy : Int) (s s' : St) (σ : Store β) : Store β :=
  if s.user = true then
    match t with
    | .USUB => σ
    | _ =>
      let src := s.off t.next
      let extra := s'.off t.next - src
      fun b => if b = 0 then bcopyDesc src (src + extra) (s.top1 - src).toNat (σ 0) else σ b
  else
    fun b a => if b = s'.blk t ∧ 0 ≤ a ∧ a < lenToCopy * w.lword t then σ (s.blk t) a else σ b a

/-! ### QuerySpace (B level) -/

/-- `dQuerySpace` (dmemory.c:111-139): `(for_lu, total_needed)` as float bit patterns.
`nzL = nzval_colptr[n]`, `nsL = rowind_colptr[n]`, `nzU = colptr[n]`. -/
def querySpace (w : Words) (panel n nzL nsL nzU : Int) : UInt32 × UInt32 :=
  let f (x : Int) : Float := Float.ofInt x
  let a : Float32 := ((4.0 * f n + 3.0) * f w.iw + f (nzL * w.dw) + f (nsL * w.iw)).toFloat32
  let b : Float32 := ((f n + 1.0) * f w.iw + f (nzU * (w.dw + w.iw))).toFloat32
  let forLu := a + b
  let t : Float32 := ((2.0 * f panel + 4.0 + 3.0) * f n * f w.iw + (f panel + 1.0) * f n * f w.dw).toFloat32
  (forLu.toBits, (forLu + t).toBits)

/-- `ilu_dQuerySpace` (dmemory.c:152-182): `iword`, `dword` are floats there -/
def querySpaceIlu (w : Words) (panel n nzL nsL nzU : Int) : UInt32 × UInt32 :=
  let g (x : Int) : Float32 := Float32.ofInt x
  let a : Float32 := (4.0 * g n + 3.0) * g w.iw + g nzL * g w.dw + g nsL * g w.iw
  let b : Float32 := (g n + 1.0) * g w.iw + g nzU * (g w.dw + g w.iw)
  let forLu := a + b
  let t : Float32 := (2.0 * g panel + 9.0 + 3.0) * g n * g w.iw + (g panel + 1.0) * g n * g w.dw
  (forLu.toBits, (forLu + t).toBits)

/-- `for_lu` as an exact integer: the byte size of the used prefixes of the returned arrays plus the
five pointer arrays -/
def forLuExact (w : Words) (n nzL nsL nzU : Int) : Int :=
  (4 * n + 3) * w.iw + nzL * w.dw + nsL * w.iw + (n + 1) * w.iw + nzU * (w.dw + w.iw)

end Slu.Mem
