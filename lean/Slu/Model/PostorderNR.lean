import Slu.Model.Order
/-
C10 — the LOOP FORM of the tree postorder, as the library executes it.  Fidelity S (integer, exact), core Lean only.

`Slu.Order.treePostorder` follows the recursive `etdfs` that sp_coletree.c keeps under `#if 0`; the routine that runs is

* `SRC/sp_coletree.c:TreePostorder 335-370` -> `buildKids` (work arrays: `first_kid[0..n] = -1`, `next_kid` as
  `mxCallocInt` returns it — all zero —, then `for (v = n-1; v >= 0; v--)` pushes v on the list of its parent) and
  `treePostorderNR`;
* `SRC/sp_coletree.c:nr_etdfs 277-330` -> `step` / `run`: one transition per evaluation of a loop head.
  `Mode.down c` is the head of the outer `while (postnum != n)` with `current = c`; `Mode.up c` is the head of the
  inner `while (next == -1)` right after `post[c] = postnum++; next = next_kid[c]` is about to be evaluated;
  `Mode.done` is either exit (`postnum == n` at the outer head, or the stopping criterion `postnum == n+1`).

The slot `next_kid[n]` of the dummy root is never assigned by TreePostorder: the exit of the inner loop at the root
relies on the zero that `mxCallocInt` put there (a -1 there would send the walk to `parent[n]`).  The initial content
of `next_kid` is therefore a parameter of `buildKidsFrom`; `buildKids` passes the zeros of `mxCallocInt`.

`SluProofs/Lemmas/PostorderNR.lean` proves `treePostorderNR n parent = treePostorder n parent` for every heap-ordered
forest (Props/C10: `treePostorderNR_eq`), with an explicit bound on the number of loop-head evaluations.
-/
namespace Slu.Order.NR

structure Kids where
  first : Array Int
  next  : Array Int
deriving Inhabited, Repr

/-- one pass of `for (v = n-1; v >= 0; v--) { dad = parent[v]; next_kid[v] = first_kid[dad]; first_kid[dad] = v; }` -/
def pushKid (parent : Array Nat) (k : Kids) (v : Nat) : Kids :=
  let dad := parent.getD v 0
  { first := k.first.setIfInBounds dad (Int.ofNat v), next := k.next.setIfInBounds v (k.first.getD dad 0) }

/-- TreePostorder 343-353 with `next_kid` holding `next0` on entry -/
def buildKidsFrom (next0 : Array Int) (n : Nat) (parent : Array Nat) : Kids :=
  (List.range n).reverse.foldl (pushKid parent) { first := Array.replicate (n + 1) (-1), next := next0 }

/-- the work arrays as the library sets them up (`mxCallocInt`: zeros) -/
def buildKids (n : Nat) (parent : Array Nat) : Kids := buildKidsFrom (Array.replicate (n + 1) 0) n parent

inductive Mode where
  | down (c : Nat)
  | up (c : Nat)
  | done
deriving Inhabited, Repr, DecidableEq

structure St where
  mode : Mode
  postnum : Nat
  post : Array Nat
deriving Inhabited, Repr

/-- one loop-head evaluation of `nr_etdfs` -/
def step (n : Nat) (parent : Array Nat) (k : Kids) (s : St) : St :=
  match s.mode with
  | .done => s
  | .down c =>
    if s.postnum = n then { s with mode := .done }
    else
      let first := k.first.getD c 0
      if first = -1 then
        { mode := .up c, postnum := s.postnum + 1, post := s.post.setIfInBounds c s.postnum }
      else { s with mode := .down first.toNat }
  | .up c =>
    let next := k.next.getD c 0
    if next = -1 then
      let c' := parent.getD c 0
      { mode := .up c', postnum := s.postnum + 1, post := s.post.setIfInBounds c' s.postnum }
    else if s.postnum = n + 1 then { s with mode := .done }
    else { s with mode := .down next.toNat }

def run (n : Nat) (parent : Array Nat) (k : Kids) : Nat → St → St
  | 0, s => s
  | fuel + 1, s => run n parent k fuel (step n parent k s)

/-- `nr_etdfs(n, parent, first_kid, next_kid, post, 0)` on `post` as `mxCallocInt` returns it; every vertex is at a
loop head at most twice, `2n + 3` evaluations always suffice (`treePostorderNR_eq`) -/
def nrEtdfs (n : Nat) (parent : Array Nat) (k : Kids) : St :=
  run n parent k (2 * n + 3) { mode := .down n, postnum := 0, post := Array.replicate (n + 1) 0 }

/-- `TreePostorder(n, parent)` as executed -/
def treePostorderNR (n : Nat) (parent : Array Nat) : Array Nat := (nrEtdfs n parent (buildKids n parent)).post

/-- the loop ran to one of its exits within the fuel -/
def finished (n : Nat) (parent : Array Nat) : Bool := (nrEtdfs n parent (buildKids n parent)).mode == Mode.done

end Slu.Order.NR
