import Slu.Model.Sparse
import Slu.Model.Lacon
/-
C13 — model of `[sdcz]gsrfs` (SRC/dgsrfs.c:141-460 and the s/c/z twins) and of the refinement glue
of `[sdcz]gssvx` (dgssvx.c:603-640).

Fidelity B (bit mirror) for everything BERR depends on: the residual `B - op(A) X` as formed by
`sp_[sdcz]gemv(transc, -1, A, X, 1, 1, work, 1)` (dsp_blas2.c:437-477, zsp_blas2.c:500-560),
`|op(A)||X| + |B|` (dgsrfs.c:299-315), the safeguarded ratio (316-326), the stopping rule (336).
The sub-expressions which the single-precision files evaluate in double (`fabs()` returns double,
`c_abs1()` returns double) are kept in the record `Arith`, so that the same definitions run at
`Float`, `Float32`, `Cx Float`, `Cx Float32` (compared with the C code) and at `Rat` / `Cx Rat`
(reasoned about).  The solver (`gstrs`) is a parameter.  FERR is modelled at specification level
(fidelity X): weights (dgsrfs.c:395-399), the `lacon2` loop (401-427) and the normalisation
(430-443).
-/
namespace Slu.Refine
open Slu Slu.Lacon

/-- precision-dependent primitives of `gsrfs` -/
structure Arith (K R : Type) where
  /-- `fabs` resp. `z_abs1` (BERR) -/
  absK : K → R
  /-- `z_abs` resp. `fabs` (FERR weights and normalisation) -/
  absF : K → R
  /-- value of `acc += a * b` (single precision: product and sum in double, one rounding) -/
  mulAdd : R → R → R → R
  /-- `fabs(work[i]) / rwork[i]` -/
  div1 : R → R → R
  /-- `(safe1 + fabs(work[i])) / rwork[i]` -/
  div2 : R → R → R → R
  ofNat : Nat → R
  kzero : K
  /-- `x[jx] != 0.` resp. `!z_eq(&x[jx], &comp_zero)` -/
  isZero : K → Bool
  /-- `alpha * t` with `alpha = -1` (`ndone`) -/
  negMul : K → K
  mul : K → K → K
  add : K → K → K
  conj : K → K
  /-- `work[i] *= r` (real factor) -/
  scale : K → R → K

variable {K R : Type} [Inhabited K]

/-- `work := b - op(A) x` exactly as `dcopy` + `sp_gemv(transc, -1, A, x, 1, 1, work, 1)` form it -/
def resid (Ar : Arith K R) (tr : Trans) (A : CSC K) (x b : Array K) : Array K :=
  match tr with
  | .N =>
    (List.range A.n).foldl (fun (y : Array K) j =>
      let xj := x.getD j Ar.kzero
      if Ar.isZero xj then y else
      let temp := Ar.negMul xj
      (A.col j).foldl (fun (y : Array K) e => y.setIfInBounds e.1 (Ar.add (y.getD e.1 Ar.kzero) (Ar.mul temp e.2))) y) b
  | t =>
    (List.range A.n).foldl (fun (y : Array K) j =>
      let temp := (A.col j).foldl (fun temp e =>
        Ar.add temp (Ar.mul (if t = .C then Ar.conj e.2 else e.2) (x.getD e.1 Ar.kzero))) Ar.kzero
      y.setIfInBounds j (Ar.add (y.getD j Ar.kzero) (Ar.negMul temp))) b

variable [Zero R] [Add R]

/-- `rwork := |op(A)||x| + |b|` (dgsrfs.c:299-315) -/
def denom (Ar : Arith K R) (tr : Trans) (A : CSC K) (x b : Array K) : Array R :=
  let rwork0 : Array R := b.map Ar.absK
  match tr with
  | .N =>
    (List.range A.n).foldl (fun (rw : Array R) k =>
      let xk := Ar.absK (x.getD k Ar.kzero)
      (A.col k).foldl (fun (rw : Array R) e => rw.setIfInBounds e.1 (Ar.mulAdd (rw.getD e.1 0) (Ar.absK e.2) xk)) rw) rwork0
  | _ =>
    (List.range A.n).foldl (fun (rw : Array R) k =>
      let s := (A.col k).foldl (fun s e => Ar.mulAdd s (Ar.absK e.2) (Ar.absK (x.getD e.1 Ar.kzero))) 0
      rw.setIfInBounds k (rw.getD k 0 + s)) rwork0

variable [LT R] [DecidableLT R] [BEq R]

/-- the safeguarded maximum (dgsrfs.c:316-327) -/
def berrOf (Ar : Arith K R) (safe1 safe2 : R) (work : Array K) (rwork : Array R) : R :=
  (List.range rwork.size).foldl (fun s i =>
    let d := rwork.getD i 0
    let r := Ar.absK (work.getD i Ar.kzero)
    if d > safe2 then smax s (Ar.div1 r d)
    else if d != 0 then smax s (Ar.div2 safe1 r d)
    else s) 0

variable [Mul R] [Div R]

/-- `safe1 = nz * safmin`, `safe2 = safe1 / eps` with `nz = A->ncol + 1` (dgsrfs.c:237-244) -/
def safe1 (Ar : Arith K R) (n : Nat) (safmin : R) : R := Ar.ofNat (n + 1) * safmin
def safe2 (Ar : Arith K R) (n : Nat) (safmin eps : R) : R := safe1 Ar n safmin / eps

/-- BERR of a given `x`: what one pass of the loop body stores in `berr[j]` -/
def berrX (Ar : Arith K R) (tr : Trans) (A : CSC K) (safmin eps : R) (b x : Array K) : R :=
  berrOf Ar (safe1 Ar A.n safmin) (safe2 Ar A.n safmin eps) (resid Ar tr A x b) (denom Ar tr A x b)

variable [LE R] [DecidableLE R] [OfNat R 2] [OfNat R 3]

def ITMAX : Nat := 5

/-- dgsrfs.c:336: `berr[j] > eps && berr[j] * 2. <= lstres && count < ITMAX` -/
def continue? (berr eps lstres : R) (count : Nat) : Bool :=
  decide (berr > eps) && decide (berr * 2 ≤ lstres) && decide (count < ITMAX)

/-- the `while (1)` loop for one right-hand side: returns `(x, berr, count)`.
`solve` = `gstrs(trans, ...)` applied to the residual; `fuel` only makes the recursion structural
(six passes always suffice). -/
def refineLoop (Ar : Arith K R) (tr : Trans) (A : CSC K) (safmin eps : R) (solve : Array K → Array K)
    (b : Array K) : Nat → Array K → R → Nat → Array K × R × Nat
  | 0, x, _, count => (x, berrX Ar tr A safmin eps b x, count)
  | fuel + 1, x, lstres, count =>
    let work := resid Ar tr A x b
    let berr := berrOf Ar (safe1 Ar A.n safmin) (safe2 Ar A.n safmin eps) work (denom Ar tr A x b)
    if continue? berr eps lstres count then
      let dx := solve work
      let x' := (Array.range x.size).map fun i => Ar.add (x.getD i Ar.kzero) (dx.getD i Ar.kzero)
      refineLoop Ar tr A safmin eps solve b fuel x' berr (count + 1)
    else (x, berr, count)

/-- one right-hand side of `gsrfs`: `lstres = 3`, `count = 0` -/
def refineCol (Ar : Arith K R) (tr : Trans) (A : CSC K) (safmin eps : R) (solve : Array K → Array K)
    (b x : Array K) : Array K × R × Nat :=
  refineLoop Ar tr A safmin eps solve b (ITMAX + 1) x 3 0

/-! ### FERR (specification level) -/

/-- dgsrfs.c:395-399: `W_i = |r_i| + (nnz_i + 1) eps (|op(A)||x|+|b|)_i (+ safe1)` -/
def ferrWeights (Ar : Arith K R) (safe1 safe2 eps : R) (cnt : Nat → Nat) (work : Array K) (rwork : Array R) : Array R :=
  (Array.range rwork.size).map fun i =>
    let d := rwork.getD i 0
    let w := Ar.absF (work.getD i Ar.kzero) + Ar.ofNat (cnt i + 1) * eps * d
    if d > safe2 then w else w + safe1

/-- dgsrfs.c:401-443.  `s` = the equilibration factors applied around the solves (`C` for notran &
colequ, `R` for trans & rowequ, otherwise `none`), `solve`/`solveT` = `gstrs(trans)` / `gstrs(transt)`. -/
def ferrOf (Ar : Arith K R) (P : Prim K R) (w : Array R) (s : Option (Array R))
    (solve solveT : Array K → Array K) (x : Array K) : R :=
  let n := x.size
  let sc (v : Array K) (f : Array R) : Array K := (Array.range n).map fun i => Ar.scale (v.getD i Ar.kzero) (f.getD i 0)
  let scS (v : Array K) : Array K := match s with | some f => sc v f | none => v
  let T1 (v : Array K) : Array K := sc (solveT (scS v)) w          -- kase = 1
  let T2 (v : Array K) : Array K := scS (solve (sc v w))          -- kase = 2
  let est := (run P T1 T2 maxCalls (init P n 0)).est
  let lstres : R := (List.range n).foldl (fun m i =>
    let a := Ar.absF (x.getD i Ar.kzero)
    smax m (match s with | some f => f.getD i 0 * a | none => a)) 0
  if lstres != 0 then est / lstres else est

/-! ### glue of `[sdcz]gssvx` (dgssvx.c:617-624) -/

/-- refinement disabled: `ferr[j] = berr[j] = 1.0` and X stays the `gstrs` solution -/
def driverRefine [One R] (refineOn : Bool) (nrhs : Nat) (x0 : Array (Array K))
    (gsrfs : Array (Array K) → Array (Array K) × Array R × Array R) : Array (Array K) × Array R × Array R :=
  if refineOn then gsrfs x0 else (x0, Array.replicate nrhs 1, Array.replicate nrhs 1)

/-! ### instances -/

def cmul {R : Type} [Mul R] [Add R] [Sub R] (a b : Cx R) : Cx R := ⟨a.re * b.re - a.im * b.im, a.im * b.re + a.re * b.im⟩
def cadd {R : Type} [Add R] (a b : Cx R) : Cx R := ⟨a.re + b.re, a.im + b.im⟩

def arithD : Arith Float Float where
  absK := Float.abs
  absF := Float.abs
  mulAdd acc a b := acc + a * b
  div1 r d := r / d
  div2 s r d := (s + r) / d
  ofNat := Float.ofNat
  kzero := 0
  isZero x := x == 0
  negMul x := -1.0 * x
  mul a b := a * b
  add a b := a + b
  conj a := a
  scale a r := a * r

def arithS : Arith Float32 Float32 where
  absK := Float32.abs
  absF := Float32.abs
  mulAdd acc a b := (acc.toFloat + a.toFloat * b.toFloat).toFloat32
  div1 r d := (r.toFloat / d.toFloat).toFloat32
  div2 s r d := ((s.toFloat + r.toFloat) / d.toFloat).toFloat32
  ofNat := Float32.ofNat
  kzero := 0
  isZero x := x == 0
  negMul x := -1.0 * x
  mul a b := a * b
  add a b := a + b
  conj a := a
  scale a r := a * r

def arithZ : Arith (Cx Float) Float where
  absK := Mag.abs1
  absF := zabsD
  mulAdd acc a b := acc + a * b
  div1 r d := r / d
  div2 s r d := (r + s) / d
  ofNat := Float.ofNat
  kzero := ⟨0, 0⟩
  isZero x := x.re == 0 && x.im == 0
  negMul x := cmul ⟨-1.0, 0.0⟩ x
  mul := cmul
  add := cadd
  conj a := ⟨a.re, -a.im⟩
  scale a r := ⟨a.re * r, a.im * r⟩

def arithC : Arith (Cx Float32) Float32 where
  absK := Mag.abs1
  absF := zabsS
  mulAdd acc a b := (acc.toFloat + a.toFloat * b.toFloat).toFloat32
  div1 r d := (r.toFloat / d.toFloat).toFloat32
  div2 s r d := ((r.toFloat + s.toFloat) / d.toFloat).toFloat32
  ofNat := Float32.ofNat
  kzero := ⟨0, 0⟩
  isZero x := x.re == 0 && x.im == 0
  negMul x := cmul ⟨-1.0, 0.0⟩ x
  mul := cmul
  add := cadd
  conj a := ⟨a.re, -a.im⟩
  scale a r := ⟨a.re * r, a.im * r⟩

/-- exact real arithmetic -/
def arithQ : Arith Rat Rat where
  absK := rabs
  absF := rabs
  mulAdd acc a b := acc + a * b
  div1 r d := r / d
  div2 s r d := (s + r) / d
  ofNat n := (n : Rat)
  kzero := 0
  isZero x := x == 0
  negMul x := -1 * x
  mul a b := a * b
  add a b := a + b
  conj a := a
  scale a r := a * r

/-- exact complex arithmetic with the library's magnitude `|re| + |im|` -/
def arithQC : Arith (Cx Rat) Rat where
  absK := Mag.abs1
  absF := Mag.abs1
  mulAdd acc a b := acc + a * b
  div1 r d := r / d
  div2 s r d := (r + s) / d
  ofNat n := (n : Rat)
  kzero := ⟨0, 0⟩
  isZero x := x.re == 0 && x.im == 0
  negMul x := cmul ⟨-1, 0⟩ x
  mul := cmul
  add := cadd
  conj a := ⟨a.re, -a.im⟩
  scale a r := ⟨a.re * r, a.im * r⟩

end Slu.Refine
