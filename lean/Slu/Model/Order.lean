/-
C10 — column orderings, structure of AᵀA / Aᵀ+A, column elimination tree, postorder, sp_preorder.
Fidelity S (symbolic / integer, exact).  Core Lean only.

Mirrors
* `SRC/get_perm_c.c:getata 153-269`      -> `getata`   (transpose, then per column the union of the
                                            transposed columns, first occurrence kept, diagonal skipped)
* `SRC/get_perm_c.c:at_plus_a 287-399`   -> `atPlusA`  (column of A followed by column of Aᵀ)
* `SRC/sp_coletree.c:find 113-128`       -> `find`     (path halving, statement order)
* `SRC/sp_coletree.c:sp_coletree 172-229`-> `coletree` (first-column stars + Liu's algorithm with the
                                            same make_set / link / find / root[] updates)
* `SRC/sp_coletree.c:sp_symetree 398-432`-> `symetree`
* `SRC/sp_coletree.c:etdfs 259-275` (the recursive reference the source keeps under `#if 0`;
  `nr_etdfs 277-330` is its loop form) and `TreePostorder 335-370` -> `order`, `treePostorder`
  (children in increasing order, result indexed by vertex, `post[n] = n`)
* `SRC/sp_preorder.c:73-209`             -> `spPreorder`
* `SRC/relax_snode.c:43-85`              -> `relaxSnode`
* `SRC/heap_relax_snode.c:36-135`        -> `heapRelaxSnode`
`mmd.c`, `colamd.c` are oracles (level O): their output is an *input* of `spPreorder`, checked on
every run by `isPerm` (soundness: `isPerm_iff_bijective`).
`etreeDef` is the definition (elimination game on the graph of AᵀA), cubic, used as the reference.
-/
namespace Slu.Order

/-! ### storage -/

/-- `a[b .. e)` as a list -/
def slice (a : Array Nat) (b e : Nat) : List Nat := (a.toList.drop b).take (e - b)

/-- pattern of an m-by-n matrix in column-compressed storage (NCformat without values) -/
structure Pat where
  m : Nat
  n : Nat
  colptr : Array Nat
  rowind : Array Nat
deriving Inhabited, Repr

/-- row indices of column `j`, in storage order -/
def Pat.col (A : Pat) (j : Nat) : List Nat := slice A.rowind (A.colptr.getD j 0) (A.colptr.getD (j+1) 0)

/-- column-permuted view (NCPformat without values) -/
structure View where
  colbeg : Array Nat
  colend : Array Nat
  rowind : Array Nat
deriving Inhabited, Repr

def View.col (V : View) (j : Nat) : List Nat := slice V.rowind (V.colbeg.getD j 0) (V.colend.getD j 0)

/-- running column pointers `s, s+|c0|, s+|c0|+|c1|, ...` -/
def ptrs : Nat → List (List Nat) → List Nat
  | s, [] => [s]
  | s, c :: cs => s :: ptrs (s + c.length) cs

/-- compressed storage of a list of columns -/
def ofCols (m : Nat) (cols : List (List Nat)) : Pat :=
  { m := m, n := cols.length, colptr := (ptrs 0 cols).toArray, rowind := cols.flatten.toArray }

/-! ### permutations -/

def distinct : List Nat → Bool
  | [] => true
  | x :: xs => !xs.contains x && distinct xs

/-- executable checker: `p` is a permutation of `0..n-1` -/
def isPerm (n : Nat) (p : Array Nat) : Bool :=
  p.size == n && p.toList.all (· < n) && distinct p.toList

/-! ### structure of AᵀA and Aᵀ+A (get_perm_c.c) -/

/-- column `k` of T = Aᵀ as the transposition loop of the source builds it: the columns `j` of A that
hold row `k`, `j` increasing, once per stored occurrence -/
def transposeCol (n : Nat) (col : Nat → List Nat) (k : Nat) : List Nat :=
  (List.range n).flatMap fun j => ((col j).filter (· == k)).map fun _ => j

/-- the `marker[]` loop: keep the first occurrence of every element not in `seen` -/
def dedupFrom : List Nat → List Nat → List Nat
  | _, [] => []
  | seen, x :: xs => if seen.contains x then dedupFrom seen xs else x :: dedupFrom (x :: seen) xs

/-- column `j` of B = AᵀA without the diagonal, in the order the source emits it -/
def ataCol (n : Nat) (col : Nat → List Nat) (j : Nat) : List Nat :=
  dedupFrom [j] ((col j).flatMap (transposeCol n col))

/-- column `j` of B = A + Aᵀ without the diagonal -/
def apaCol (n : Nat) (col : Nat → List Nat) (j : Nat) : List Nat :=
  dedupFrom [j] (col j ++ transposeCol n col j)

def getata (A : Pat) : Pat := ofCols A.n ((List.range A.n).map (ataCol A.n A.col))
def atPlusA (A : Pat) : Pat := ofCols A.n ((List.range A.n).map (apaCol A.n A.col))

/-! ### disjoint sets with path halving, Liu's algorithm (sp_coletree.c) -/

def findLoop : Nat → Array Nat → Nat → Array Nat × Nat
  | 0, pp, i => (pp, pp.getD i 0)
  | fuel + 1, pp, i =>
    let p := pp.getD i 0
    let gp := pp.getD p 0
    if gp = p then (pp, p) else findLoop fuel (pp.setIfInBounds i gp) gp

/-- `find(i, pp)` with path halving; returns the updated `pp` and the set name -/
def find (pp : Array Nat) (i : Nat) : Array Nat × Nat := findLoop pp.size pp i

structure St where
  pp : Array Nat
  root : Array Nat
  parent : Array Nat
deriving Inhabited

/-- the inner loop body of sp_coletree / sp_symetree for one (already star-mapped) row index -/
def liuEdge (col : Nat) (sc : St × Nat) (row : Nat) : St × Nat :=
  let (st, cset) := sc
  if row ≥ col then (st, cset) else
  let (pp, rset) := find st.pp row
  let rroot := st.root.getD rset 0
  if rroot ≠ col then
    ({ pp := pp.setIfInBounds cset rset, root := st.root.setIfInBounds rset col,
       parent := st.parent.setIfInBounds rroot col }, rset)
  else ({ st with pp := pp }, cset)

/-- `cset = make_set(col); root[cset] = col; parent[col] = nc` -/
def liuInit (nc : Nat) (st : St) (col : Nat) : St :=
  { pp := st.pp.setIfInBounds col col, root := st.root.setIfInBounds col col,
    parent := st.parent.setIfInBounds col nc }

/-- one iteration of the column loop -/
def liuCol (nc : Nat) (nbrs : Nat → List Nat) (st : St) (col : Nat) : St :=
  ((nbrs col).foldl (liuEdge col) (liuInit nc st col, col)).1

/-- Liu's algorithm; `nbrs col` lists the row indices visited for column `col` -/
def liu (nc : Nat) (nbrs : Nat → List Nat) : Array Nat :=
  ((List.range nc).foldl (liuCol nc nbrs)
    { pp := Array.replicate nc 0, root := Array.replicate nc 0, parent := Array.replicate nc 0 }).parent

/-- `firstcol[r]`: first column holding row `r`, `nc` if none -/
def firstcol (nc : Nat) (col : Nat → List Nat) (r : Nat) : Nat :=
  ((List.range nc).find? fun j => (col j).contains r).getD nc

/-- column elimination tree of an nr-by-nc pattern given by its columns -/
def coletree (nr nc : Nat) (col : Nat → List Nat) : Array Nat :=
  let fc := (Array.range nr).map (firstcol nc col)
  liu nc fun c => (col c).map fun r => fc.getD r nc

/-- symmetric elimination tree (uses the entries above the diagonal only) -/
def symetree (n : Nat) (col : Nat → List Nat) : Array Nat := liu n col

/-! ### the definition: elimination game on the graph of AᵀA -/

def adjGet (g : Array (Array Bool)) (i j : Nat) : Bool := (g.getD i #[]).getD j false
def adjSet (g : Array (Array Bool)) (i j : Nat) : Array (Array Bool) :=
  g.setIfInBounds i ((g.getD i #[]).setIfInBounds j true)

/-- graph of AᵀA without the diagonal: i ~ j iff the columns share a row -/
def ataAdj (n : Nat) (col : Nat → List Nat) : Array (Array Bool) :=
  (Array.range n).map fun i => (Array.range n).map fun j =>
    i != j && (col i).any fun k => (col j).contains k

/-- graph of A + Aᵀ without the diagonal -/
def symAdj (n : Nat) (col : Nat → List Nat) : Array (Array Bool) :=
  (Array.range n).map fun i => (Array.range n).map fun j =>
    i != j && ((col j).contains i || (col i).contains j)

/-- parent(v) = smallest higher-numbered neighbour of v when v is eliminated; eliminating v makes its
higher-numbered neighbours pairwise adjacent (the fill of symbolic Cholesky).  Cubic. -/
def etreeOfGraph (n : Nat) (g0 : Array (Array Bool)) : Array Nat :=
  ((List.range n).foldl (fun (gp : Array (Array Bool) × Array Nat) v =>
    let (g, parent) := gp
    let nb := (List.range n).filter fun i => i > v && adjGet g i v
    let g' := nb.foldl (fun g i => nb.foldl (fun g j => if i ≠ j then adjSet g i j else g) g) g
    (g', parent.push (nb.headD n))) (g0, #[])).2

/-- the column elimination tree by definition -/
def etreeDef (n : Nat) (col : Nat → List Nat) : Array Nat := etreeOfGraph n (ataAdj n col)

/-! ### postorder (sp_coletree.c:TreePostorder) -/

/-- children of `v` in increasing order (the `first_kid/next_kid` lists); only `c < v` qualify, which is
every child in a heap-ordered forest -/
def kids (parent : Array Nat) (v : Nat) : List Nat :=
  (List.range v).filter fun c => parent.getD c 0 == v

theorem lt_of_mem_kids {parent : Array Nat} {v c : Nat} (h : c ∈ kids parent v) : c < v := by
  unfold kids at h
  exact List.mem_range.mp (List.mem_filter.mp h).1

/-- `etdfs`: vertices of the subtree of `v` in the order they are numbered -/
def order (parent : Array Nat) (v : Nat) : List Nat :=
  (kids parent v).attach.flatMap (fun c => order parent c.1) ++ [v]
termination_by v
decreasing_by exact lt_of_mem_kids c.2

/-- `post[v]` = number of `v` in the depth-first search from the dummy root `n`; `post[n] = n` -/
def treePostorder (n : Nat) (parent : Array Nat) : Array Nat :=
  let l := order parent n
  ((List.range (n + 1)).map fun v => l.idxOf v).toArray

/-! ### sp_preorder -/

/-- `for (i = 0; i < n; ++i) a[idx i] = val i` -/
def scatter (n : Nat) (idx val : Nat → Nat) (init : Array Nat) : Array Nat :=
  (List.range n).foldl (fun a i => a.setIfInBounds (idx i) (val i)) init

/-- first `n` entries -/
def firstN (n : Nat) (a : Array Nat) : Array Nat := ((List.range n).map fun i => a.getD i 0).toArray

structure PreOut where
  permc : Array Nat
  etree : Array Nat
  colbeg : Array Nat
  colend : Array Nat
deriving Inhabited, Repr

def PreOut.view (o : PreOut) (A : Pat) : View := { colbeg := o.colbeg, colend := o.colend, rowind := A.rowind }

/-- the permuted view of step 1 (sp_preorder.c:111-114) -/
def permView (A : Pat) (permc : Array Nat) : View :=
  { colbeg := scatter A.n (permc.getD · 0) (A.colptr.getD · 0) (Array.replicate A.n 0),
    colend := scatter A.n (permc.getD · 0) (fun i => A.colptr.getD (i + 1) 0) (Array.replicate A.n 0),
    rowind := A.rowind }

/-- `sp_preorder` with `Fact = DOFACT`; `sym` = `options->SymmetricMode` -/
def spPreorder (A : Pat) (permc : Array Nat) (sym : Bool) : PreOut :=
  let n := A.n
  let V := permView A permc
  let etree := coletree A.m n V.col
  if sym then { permc := permc, etree := etree, colbeg := V.colbeg, colend := V.colend } else
  let post := treePostorder n etree
  let pst : Nat → Nat := (post.getD · 0)
  let iw := Array.replicate (n + 1) 0
  { etree := firstN n (scatter n pst (fun i => pst (etree.getD i 0)) iw),
    colbeg := firstN n (scatter n pst (V.colbeg.getD · 0) iw),
    colend := firstN n (scatter n pst (V.colend.getD · 0) iw),
    permc := firstN n (((List.range n).map fun i => pst (permc.getD i 0)).toArray) }

/-! ### relaxed supernodes (relax_snode.c) -/

/-- number of descendants of every vertex (first loop) -/
def descendants (n : Nat) (et : Array Nat) : Array Nat :=
  (List.range n).foldl (fun d j =>
    let p := et.getD j 0
    if p ≠ n then d.setIfInBounds p (d.getD p 0 + d.getD j 0 + 1) else d) (Array.replicate (n + 1) 0)

/-- climb while the parent has fewer than `relax` descendants -/
def climb (n relax : Nat) (et desc : Array Nat) : Nat → Nat → Nat
  | 0, j => j
  | fuel + 1, j =>
    let p := et.getD j 0
    if p ≠ n ∧ desc.getD p 0 < relax then climb n relax et desc fuel p else j

def relaxLoop (n relax : Nat) (et desc : Array Nat) : Nat → Nat → Array Int → Array Int
  | 0, _, re => re
  | fuel + 1, j, re =>
    if j ≥ n then re else
    let last := climb n relax et desc n j
    let re := re.setIfInBounds j (Int.ofNat last)
    -- search for a new leaf
    let nxt := ((List.range n).find? fun k => k > last && desc.getD k 0 == 0).getD n
    relaxLoop n relax et desc fuel nxt re

/-- `relax_end[]` of relax_snode (−1 = SLU_EMPTY) -/
def relaxSnode (n relax : Nat) (et : Array Nat) : Array Nat × Array Int :=
  let desc := descendants n et
  (firstN n desc, relaxLoop n relax et desc (n + 1) 0 (Array.replicate n (-1)))

/-! ### heap_relax_snode.c:36-135 (SymmetricMode: the tree is heap ordered, not postordered) -/

def heapRelaxLoop (n relax : Nat) (et desc invp : Array Nat) : Nat → Nat → Array Int → Array Int
  | 0, _, re => re
  | fuel + 1, j, re =>
    if j ≥ n then re else
    let last := climb n relax et desc n j
    let blk := (List.range (last + 1 - j)).map (· + j)           -- snode_start .. last
    let k := blk.foldl (fun k i => if invp.getD i 0 < k then invp.getD i 0 else k) n
    let l := invp.getD last 0
    let re :=
      if l - k = last - j then re.setIfInBounds k (Int.ofNat l)   -- also a supernode of the original tree
      else blk.foldl (fun re i => if desc.getD i 0 == 0 then re.setIfInBounds (invp.getD i 0) (Int.ofNat (invp.getD i 0)) else re) re
    let nxt := ((List.range n).find? fun k => k > last && desc.getD k 0 == 0).getD n
    heapRelaxLoop n relax et desc invp fuel nxt re

/-- `(descendants[] in postorder labels, relax_end[] in the caller's labels)` of heap_relax_snode -/
def heapRelaxSnode (n relax : Nat) (et : Array Nat) : Array Nat × Array Int :=
  let post := treePostorder n et
  let pst : Nat → Nat := (post.getD · 0)
  let invp := scatter (n + 1) pst id (Array.replicate (n + 1) 0)
  let et' := firstN n (scatter n pst (fun i => pst (et.getD i 0)) (Array.replicate (n + 1) 0))
  let desc := descendants n et'
  (firstN n desc, heapRelaxLoop n relax et' desc invp (n + 1) 0 (Array.replicate n (-1)))

end Slu.Order
