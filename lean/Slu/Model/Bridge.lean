import Slu.Basic
/-
C20 — model of the Fortran-callable bridge `c_fortran_[sdcz]gssv_` (fidelity S: symbolic state machine).

Source: FORTRAN/c_fortran_dgssv.c (and the s/c/z twins, identical up to the type prefix):
* `iopt = 1` (lines 66-139): `set_default_options`, `StatInit`; fresh arrays `rowind0/colptr0` are
  filled with the caller's indices minus one (lines 75-79: the caller's 1-based arrays are only read);
  `dCreate_CompCol_Matrix`, `get_perm_c`, `sp_preorder`, `dgstrf`; the factors `L, U, perm_c, perm_r`
  are parked in a heap `factors_t` whose address is the handle (lines 128-134); everything else
  (`etree`, `A`'s store, `AC`, `rowind0`, `colptr0`, `stat`) is released (lines 136-142).
* `iopt = 2` (lines 144-164): unpack the handle, wrap `b` as a dense matrix, `dgstrs(NOTRANS, ...)`.
* `iopt = 3` (lines 166-176): free `perm_r, perm_c, L, U` (stores and headers) and the handle block.

The numerical work is *abstract*: `Num.factor` stands for `get_perm_c ∘ sp_preorder ∘ gstrf` with the
default options and yields an opaque factorization token plus `info`; `Num.solve` stands for
`gstrs(NOTRANS)`.  The C simple driver `[sdcz]gssv` on an `SLU_NC` matrix with default options is the
composition `gssv` below (dgssv.c:196-222: the same calls in the same order; on `info ≠ 0` B is left
alone).  Handles are modelled as fresh naturals (C: addresses of live `malloc` blocks, distinct by
the allocator's contract).
-/
namespace Slu.Bridge

abbrev Handle := Nat

/-- the caller's compressed-column arrays; `FMat` is read 1-based (Fortran), `CMat` 0-based (C) -/
structure FMat (V : Type) where
  n : Nat
  colptr : Array Int
  rowind : Array Int
  values : V

structure CMat (V : Type) where
  n : Nat
  colptr : Array Int
  rowind : Array Int
  values : V

/-- `x0[i] = x[i] - 1` -/
def shift0 (a : Array Int) : Array Int := a.map (· - 1)
/-- the inverse shift (what an in-place implementation would have to undo) -/
def shift1 (a : Array Int) : Array Int := a.map (· + 1)

/-- c_fortran_dgssv.c:75-79: the shifted indices go into fresh arrays; the pair returned is
(the caller's arrays after the statement, the 0-based copy handed to SuperLU). -/
def copyShift {V : Type} (A : FMat V) : FMat V × CMat V :=
  (A, { n := A.n, colptr := shift0 A.colptr, rowind := shift0 A.rowind, values := A.values })

def toC {V : Type} (A : FMat V) : CMat V := (copyShift A).2

/-- abstract numerics -/
structure Num (V F B : Type) where
  /-- `get_perm_c; sp_preorder; gstrf` with default options: token `(L, U, perm_c, perm_r)` and `info` -/
  factor : CMat V → F × Int
  /-- `gstrs(NOTRANS, L, U, perm_c, perm_r, B)`: B overwritten with the solution -/
  solve : F → B → B

/-- `[sdcz]gssv(&options_default, A, perm_c, perm_r, L, U, B, &stat, &info)` for `SLU_NC` input -/
def gssv {V F B : Type} (N : Num V F B) (A : CMat V) (b : B) : B × Int :=
  let fi := N.factor A
  if fi.2 = 0 then (N.solve fi.1 b, 0) else (b, fi.2)

/-- heap blocks a handle owns between `iopt = 1` and `iopt = 3` (SCformat: store + 6 arrays,
NCformat: store + 3 arrays, the two `SuperMatrix` headers, the two permutations, `factors_t`) -/
inductive Blk
  | permR | permC | Lhdr | Uhdr
  | Lstore | Lnzval | LnzvalColptr | Lrowind | LrowindColptr | LcolToSup | LsupToCol
  | Ustore | Unzval | Urowind | Ucolptr
  | factors
deriving DecidableEq, Repr

def owned : List Blk :=
  [.permR, .permC, .Lhdr, .Uhdr, .Lstore, .Lnzval, .LnzvalColptr, .Lrowind, .LrowindColptr, .LcolToSup,
   .LsupToCol, .Ustore, .Unzval, .Urowind, .Ucolptr, .factors]

/-- what a handle points to -/
structure Entry (F : Type) where
  tok : F
  info : Int

/-- bridge state: finite map handle ↦ stored factorization, the allocation ledger (library-owned
live blocks, tagged by owner), the next fresh handle -/
structure St (F : Type) where
  live : List (Handle × Entry F)
  ledger : List (Handle × Blk)
  next : Handle

def init {F : Type} : St F := { live := [], ledger := [], next := 0 }

def find {α : Type} (h : Handle) : List (Handle × α) → Option α
  | [] => none
  | (k, v) :: t => if k = h then some v else find h t

def erase {α : Type} (h : Handle) (l : List (Handle × α)) : List (Handle × α) :=
  l.filter (fun p => p.1 != h)

inductive Op (V B : Type)
  | factor (A : FMat V)
  | solve (h : Handle) (b : B)
  | free (h : Handle)

inductive Out (V B : Type)
  /-- handle, `info`, the caller's arrays after the call -/
  | factored (h : Handle) (info : Int) (A' : FMat V)
  | solved (b : B)
  | freed
  /-- outside the documented protocol (unknown / freed handle, solve on a failed factorization):
  undefined behaviour in C -/
  | err

def step {V F B : Type} (N : Num V F B) (st : St F) : Op V B → St F × Out V B
  | .factor A =>
    let (A', A0) := copyShift A
    let fi := N.factor A0
    let h := st.next
    ({ live := (h, { tok := fi.1, info := fi.2 }) :: st.live,
       ledger := owned.map (fun b => (h, b)) ++ st.ledger,
       next := h + 1 },
     .factored h fi.2 A')
  | .solve h b =>
    match find h st.live with
    | some e => if e.info = 0 then (st, .solved (N.solve e.tok b)) else (st, .err)
    | none => (st, .err)
  | .free h =>
    match find h st.live with
    | some _ => ({ live := erase h st.live, ledger := erase h st.ledger, next := st.next }, .freed)
    | none => (st, .err)

/-- run an operation sequence, collecting the outputs -/
def run {V F B : Type} (N : Num V F B) : St F → List (Op V B) → St F × List (Out V B)
  | st, [] => (st, [])
  | st, op :: ops =>
    let (st', o) := step N st op
    let (st'', os) := run N st' ops
    (st'', o :: os)

/-! ### Specification machine: remembers only which matrix each handle was created from and answers
every request with the C driver `gssv` on that matrix. -/

structure Spec (V : Type) where
  mats : List (Handle × FMat V)
  next : Handle

def specInit {V : Type} : Spec V := { mats := [], next := 0 }

def specStep {V F B : Type} (N : Num V F B) (sp : Spec V) : Op V B → Spec V × Out V B
  | .factor A => ({ mats := (sp.next, A) :: sp.mats, next := sp.next + 1 }, .factored sp.next (N.factor (toC A)).2 A)
  | .solve h b =>
    match find h sp.mats with
    | some A => let r := gssv N (toC A) b; if r.2 = 0 then (sp, .solved r.1) else (sp, .err)
    | none => (sp, .err)
  | .free h =>
    match find h sp.mats with
    | some _ => ({ mats := erase h sp.mats, next := sp.next }, .freed)
    | none => (sp, .err)

def specRun {V F B : Type} (N : Num V F B) : Spec V → List (Op V B) → Spec V × List (Out V B)
  | sp, [] => (sp, [])
  | sp, op :: ops =>
    let (sp', o) := specStep N sp op
    let (sp'', os) := specRun N sp' ops
    (sp'', o :: os)

end Slu.Bridge
