import Slu.Basic
import Slu.Scalar
import Slu.Model.Cx
/-
Complex arithmetic on `Cx R` (core Lean only).

* `Add/Sub/Neg/Mul/Zero/One` are generic in `R` and follow the library's macros statement by
  statement (`z_add`, `z_sub`, `zz_mult` of SRC/slu_dcomplex.h: `cr = a.r*b.r - a.i*b.i`,
  `ci = a.i*b.r + a.r*b.i`), so that the `Cx Float` / `Cx Float32` instances are bit mirrors of the
  C code while the `Cx Rat` instance is the exact field of Gaussian rationals (proved a `Field` in
  `SluProofs/Lemmas/CxRat.lean`).
* `Inv/Div` are given for `Cx Rat` only (exact quotient; `0⁻¹ = 0` as for `Rat`).
* `Conj K` : complex conjugation (`zz_conj`), identity on real types.
* `z_eq(a,b) = a.r == b.r && a.i == b.i` is the derived `BEq` of the structure.
-/
namespace Slu

class Conj (K : Type) where
  conj : K → K

instance : Conj Rat := ⟨id⟩
instance : Conj Float := ⟨id⟩
instance : Conj Float32 := ⟨id⟩

namespace Cx
variable {R : Type}

-- Zero/One/Add/Sub/Neg/Mul on `Cx R` are the instances of Slu/Model/Cx.lean (same definitions)
/-- `zz_conj(a, b)`: `a.r = b.r; a.i = -b.i` -/
instance [Neg R] : Conj (Cx R) := ⟨fun a => ⟨a.re, -a.im⟩⟩

/-- exact inverse in the Gaussian rationals -/
instance : Inv (Cx Rat) := ⟨fun w => let d := w.re * w.re + w.im * w.im; ⟨w.re / d, -w.im / d⟩⟩
instance : Div (Cx Rat) := ⟨fun z w => z * w⁻¹⟩

theorem zero_def [Zero R] : (0 : Cx R) = ⟨0, 0⟩ := rfl
theorem one_def [Zero R] [One R] : (1 : Cx R) = ⟨1, 0⟩ := rfl
theorem add_def [Add R] (a b : Cx R) : a + b = ⟨a.re + b.re, a.im + b.im⟩ := rfl
theorem sub_def [Sub R] (a b : Cx R) : a - b = ⟨a.re - b.re, a.im - b.im⟩ := rfl
theorem neg_def [Neg R] (a : Cx R) : -a = ⟨-a.re, -a.im⟩ := rfl
theorem mul_def [Add R] [Sub R] [Mul R] (a b : Cx R) :
    a * b = ⟨a.re * b.re - a.im * b.im, a.im * b.re + a.re * b.im⟩ := rfl
theorem inv_def (w : Cx Rat) :
    w⁻¹ = ⟨w.re / (w.re * w.re + w.im * w.im), -w.im / (w.re * w.re + w.im * w.im)⟩ := rfl
theorem div_def (z w : Cx Rat) : z / w = z * w⁻¹ := rfl
theorem conj_def [Neg R] (a : Cx R) : Conj.conj a = (⟨a.re, -a.im⟩ : Cx R) := rfl

/-- embedding of the reals -/
def ofRe [Zero R] (x : R) : Cx R := ⟨x, 0⟩
end Cx

end Slu
