import Slu.Model.Struct
import Slu.Model.Order
/-
C03 — `symbNaive`: set-level symbolic factorization (fidelity S, exact).  Core Lean only.

Predicts the WHOLE structure `[sdcz]gstrf` returns — supernode partition (`xsup`/`supno`), the row
set of every supernode of L, the row set of every column of U, `nnz(L)`, `nnz(U)` — from
  (a) the pattern of `B = Pr·A·Pc` (columns as lists of row indices, rows in PIVOT numbering:
      row `perm_r[i]` of B is row `i` of A, so "row r is already pivotal at column j" reads `r < j`),
  (b) `relax_end` (relaxed-supernode boundaries: `Slu.Order.relaxSnode` / `heapRelaxSnode`),
  (c) `maxsuper` (`sp_ienv(3)`).
Panels (`dpanel_dfs.c`), symmetric pruning (`dpruneL.c`), subscript compression
(`dcolumn_dfs.c:256-270`), the two copies of a relaxed supernode's subscripts (`dsnode_dfs.c:100-111`)
and memory expansion leave no trace in the returned structure; the rules below are the whole of it
(0 mismatches against `[sdcz]gstrf` on > 100 000 generated factorizations, family `symb`):

R1 relaxed supernode `[j..k]`, `k = relax_end[j]` (`dgstrf.c:301-351`, `dsnode_dfs.c:81-98`): its row set
   is the union of the rows of columns `j..k` of B; its columns have no U part outside the supernode.
R2 column `j` outside a relaxed supernode (`dpanel_dfs.c:118-242` + `dcolumn_dfs.c:120-225`): the reach
   `R` of column `j` = rows of `B(:,j)` closed under "a reached row `r < j` lying in supernode `t` adds
   the explored list of `t`", where the explored list of a relaxed supernode is its whole row set and
   that of any other supernode is the structure of its LAST column.  Explored lists only hold rows
   `≥ first(t)`, so one ascending pass over the supernodes computes the closure.
R3 `struct(j) = {j} ∪ {r ∈ R : r > j}` (`dcolumn_dfs.c:133-141, 172-180`; the pivot row is row `j`).
R4 T2 supernode test (`dcolumn_dfs.c:228-243`): column `j` joins the supernode `t` of column `j-1` iff
   `t` is not relaxed (then `j-1` went through the column DFS, whose marks `marker2[·] = j-1` are
   exactly `struct(j-1)`), every row of `struct(j)` is in `struct(j-1)`,
   `|struct(j)| = |struct(j-1)| - 1` and `j - first(t) < maxsuper`.
R5 U part of column `j` (`dcopy_to_ucol.c:74-108`): for every reached supernode `t` other than the one
   `j` belongs to, the segment `[lo..last(t)]`, `lo = first(t)` when `t` is relaxed (its explored list
   keeps its own pivot rows), otherwise the least reached row of `t`.
R6 stored row list of a supernode (`util.c:fixupL`, pivot rows swapped to the front by `pivotL`):
   its own columns `first..last` in order, then the rows of its row set below `last`.
R7 `nnz` fields: `countnz` (`util.c:225-264`) of that structure.
-/
namespace Slu.Symb
open Slu Slu.Struct

/-- one supernode while it is being built (`last` moves while a T2 supernode grows) -/
structure SN where
  first : Nat
  last : Nat
  relaxed : Bool
  /-- row set: `struct(first)` (R3) or the union of R1 -/
  rows : List Nat
  /-- what a depth-first search entering the supernode explores (R2) -/
  expl : List Nat
deriving Inhabited, Repr

structure St where
  /-- supernodes, NEWEST FIRST -/
  sns : List SN
  /-- U row sets of the columns covered by `sns`, NEWEST FIRST (a relaxed supernode enters all its
  columns at once: they have no U part outside the supernode) -/
  ucols : List (List Nat)
deriving Inhabited, Repr

/-- `a ∪ b` as duplicate-free lists: the marker loop of the DFS routines -/
def union (a b : List Nat) : List Nat := markerFilter b a

/-- reached rows that lie in supernode `t` -/
def hits (t : SN) (R : List Nat) : List Nat := R.filter fun r => decide (t.first ≤ r) && decide (r ≤ t.last)

/-- R2: reach of a column with rows `col`; `sns` newest first, so `foldr` visits the oldest first -/
def reach (sns : List SN) (col : List Nat) : List Nat :=
  sns.foldr (fun t R => if (hits t R).isEmpty then R else union R t.expl) (union [] col)

/-- `lo, lo+1, …, hi` -/
def seg (lo hi : Nat) : List Nat := (List.range (hi + 1 - lo)).map (· + lo)

/-- R5: the U segment supernode `t` contributes to a column whose reach is `R` -/
def useg (t : SN) (R : List Nat) : List Nat :=
  match hits t R with
  | [] => []
  | h :: hs => seg (if t.relaxed then t.first else hs.foldl min h) t.last

/-- U rows of a column from the supernodes `sns` (newest first), ascending -/
def ucolOf (sns : List SN) (R : List Nat) : List Nat := sns.reverse.flatMap fun t => useg t R

def subset (a b : List Nat) : Bool := a.all fun x => b.contains x

/-- R4 -/
def joins (maxsuper j : Nat) (sj : List Nat) (t : SN) : Bool :=
  !t.relaxed && subset sj t.expl && decide (sj.length + 1 = t.expl.length) && decide (j - t.first < maxsuper)

/-- R2–R5 for one column outside the relaxed supernodes -/
def colStep (maxsuper : Nat) (col : List Nat) (j : Nat) (st : St) : St :=
  let R := reach st.sns col
  let sj := j :: R.filter (fun r => decide (j < r))
  let fresh : SN := { first := j, last := j, relaxed := false, rows := sj, expl := sj }
  match st.sns with
  | [] => { sns := [fresh], ucols := ucolOf [] R :: st.ucols }
  | t :: rest =>
    if joins maxsuper j sj t then
      { sns := { t with last := j, expl := sj } :: rest, ucols := ucolOf rest R :: st.ucols }
    else
      { sns := fresh :: t :: rest, ucols := ucolOf (t :: rest) R :: st.ucols }

/-- R1; `k` is clamped to `j ≤ k < n` so that the model is total -/
def relaxStep (n : Nat) (cols : Nat → List Nat) (j k : Nat) (st : St) : St :=
  let k := max j (min k (n - 1))
  let rows := (seg j k).foldl (fun acc i => union acc (cols i)) []
  { sns := { first := j, last := k, relaxed := true, rows := rows, expl := rows } :: st.sns,
    ucols := List.replicate (k + 1 - j) [] ++ st.ucols }

/-- one column: inside a relaxed supernode already opened / start of one / ordinary column -/
def step (n maxsuper : Nat) (cols : Nat → List Nat) (relaxEnd : Nat → Option Nat) (st : St) (j : Nat) : St :=
  match st.sns with
  | t :: _ =>
    if j ≤ t.last then st else
    match relaxEnd j with
    | some k => relaxStep n cols j k st
    | none => colStep maxsuper (cols j) j st
  | [] =>
    match relaxEnd j with
    | some k => relaxStep n cols j k st
    | none => colStep maxsuper (cols j) j st

def run (n maxsuper : Nat) (cols : Nat → List Nat) (relaxEnd : Nat → Option Nat) : St :=
  (List.range n).foldl (step n maxsuper cols relaxEnd) { sns := [], ucols := [] }

/-- the predicted structure -/
structure Out where
  n : Nat
  /-- `xsup`: first column of every supernode, then `n` -/
  xsup : List Nat
  /-- `supno`: supernode of every column -/
  supno : List Nat
  /-- R6: stored row list of every supernode -/
  rows : List (List Nat)
  /-- U row set of every column, ascending -/
  ucols : List (List Nat)
deriving Inhabited, Repr

/-- R6 -/
def rowList (t : SN) : List Nat := seg t.first t.last ++ t.rows.filter (fun r => decide (t.last < r))

/-- supernode number of column `j` given the supernodes in ascending order -/
def supOf (sns : List SN) (j : Nat) : Nat := sns.findIdx fun t => decide (j ≤ t.last)

def outOf (n : Nat) (st : St) : Out :=
  let sns := st.sns.reverse
  { n := n, xsup := sns.map (·.first) ++ [n], supno := (List.range n).map (supOf sns),
    rows := sns.map rowList, ucols := st.ucols.reverse }

/-- **the set-level symbolic factorization** of an `m × n` pattern (`m` is not needed: row indices are
just numbers) -/
def symbNaive (n maxsuper : Nat) (cols : Nat → List Nat) (relaxEnd : Nat → Option Nat) : Out :=
  outOf n (run n maxsuper cols relaxEnd)

/-! ### the predicted structure as SCformat / NCformat arrays (values are `Unit`) -/

/-- running offsets `s, s+|l0|, s+|l0|+|l1|, …` -/
def offs : Nat → List Nat → List Nat
  | s, [] => [s]
  | s, c :: cs => s :: offs (s + c) cs

/-- the predicted structure packed as `fixupL` / `dgstrf.c:437-460` leave it: `xlsub` of the first
column of a supernode points at its row list, that of its other columns at the end of the list -/
def toFac (m : Nat) (o : Out) : LUFac Unit :=
  let ns := o.rows.length
  let loff := offs 0 (o.rows.map (·.length))
  let xlsub : List Nat := (List.range o.n).map (fun j =>
    let s := o.supno[j]!
    if o.xsup[s]! = j then loff[s]! else loff[s + 1]!) ++ [loff[ns]!]
  let widths : List Nat := (List.range o.n).map fun j => (o.rows[o.supno[j]!]!).length
  let xlusup := offs 0 widths
  let ucp := offs 0 (o.ucols.map (·.length))
  let F : LUFac Unit :=
    { L := { m := m, n := o.n, nsuper := ns - 1, xsup := o.xsup.toArray, supno := o.supno.toArray,
             xlsub := xlsub.toArray, lsub := o.rows.flatten.toArray,
             xlusup := xlusup.toArray, lusup := Array.replicate (xlusup[o.n]!) () },
      U := { m := m, n := o.n, colptr := ucp.toArray, rowind := o.ucols.flatten.toArray,
             val := Array.replicate (ucp[o.n]!) () },
      nnzL := 0, nnzU := 0 }
  { F with nnzL := countnzL F.L, nnzU := countnzU F }

/-! ### inputs from what the library hands to / gets from `gstrf` -/

/-- columns of `Pr·A·Pc` in pivot numbering: column `perm_c[i]` is column `i` of A, row `r` of A is
row `perm_r[r]` -/
def permutedCols (A : Order.Pat) (permC permR : Array Nat) : Nat → List Nat :=
  let ipc := (List.range A.n).foldl (fun (a : Array Nat) i => a.setIfInBounds (permC.getD i 0) i) (Array.replicate A.n 0)
  fun j => (A.col (ipc.getD j 0)).map fun r => permR.getD r 0

/-- `relax_end[]` as `dgstrf.c:280-285` computes it from the etree -/
def relaxEndOf (n relax : Nat) (etree : Array Nat) (symmetric : Bool) : Nat → Option Nat :=
  let re := if symmetric then (Order.heapRelaxSnode n relax etree).2 else (Order.relaxSnode n relax etree).2
  fun j => let v := re.getD j (-1); if v < 0 then none else some v.toNat

end Slu.Symb
