import Slu.Scalar
/-
C17 — model of `[sdcz]ldperm` (job 5) and the executable matching-certificate checker.

Source: SRC/dldperm.c:96-182 (and SRC/sldperm.c, cldperm.c, zldperm.c; the s/c/z twins first copy
`nzval` into a fresh double array: `nzval_d[i] = nzval[i]` resp. `c_abs1/z_abs1(&nzval[i])`).

Fidelity
* `ldperm` — S (exact, integer): the glue around MC64: `++colptr[i]`, `++adjncy[i]` (dldperm.c:120-121),
  call, `--colptr[i]`, `--adjncy[i]`, `--perm[i]` (dldperm.c:164-166), `u[i] = dw[i]`, `v[i] = dw[n+i]`
  (dldperm.c:168-172), `return info[0]`.  NOTE: ldperm returns the duals as *logarithms*; the
  exponentiation `R[i] = exp(R[i]); C[i] = exp(C[i])` is done by the caller (dgsisx.c:562-565).
* `mc64ad_` (SRC/mc64ad.c, about 2 600 lines of translated Fortran) — O (oracle): a *parameter* of
  the model returning `(cperm, dw, info)`; it receives the shifted arrays read-only.  Its output is
  checked on every run by `matchingCert` / `matchingCertS` below, whose soundness (certificate ⇒
  maximal product) is `SluProofs/Props/C17.lean`.
-/
namespace Slu.Ldperm
open Slu

/-- what the oracle hands back: `cperm` (1-based), the work array `dw` (`dw[0..n)` = row duals,
`dw[n..2n)` = column duals) and `info[0]` -/
structure Mc64Out (R : Type) where
  cperm : Array Int
  dw : Array R
  info : Int
deriving Inhabited

/-- everything observable after `ldperm` returns -/
structure Out (R : Type) where
  colptr : Array Int      -- the caller's arrays after the call
  adjncy : Array Int
  perm : Array Int
  u : Array R
  v : Array R
  ret : Int
deriving Inhabited

/-- `for (i...) ++a[i]` -/
def shiftUp (a : Array Int) : Array Int := a.map (· + 1)
/-- `for (i...) --a[i]` -/
def shiftDown (a : Array Int) : Array Int := a.map (· - 1)

/-- `[sdcz]ldperm(5, n, nnz, colptr, adjncy, nzval, perm, u, v)`; `w` are the magnitudes handed to
MC64 (`nzval` itself for d, the converted copy for s, `abs1` for c/z). -/
def ldperm {R W : Type} [Inhabited R]
    (mc64 : (n : Nat) → (ip irn : Array Int) → (a : W) → Mc64Out R)
    (n : Nat) (colptr adjncy : Array Int) (w : W) : Out R :=
  let ip := shiftUp colptr
  let irn := shiftUp adjncy
  let o := mc64 n ip irn w
  { colptr := shiftDown ip,
    adjncy := shiftDown irn,
    perm := shiftDown o.cperm,
    u := (Array.range n).map fun i => o.dw[i]!,
    v := (Array.range n).map fun i => o.dw[n + i]!,
    ret := o.info }

/-! ### The certificate checker (exact rationals) -/

/-- a stored entry `(row, column, weight)` -/
abbrev WEntry := Nat × Nat × Rat

/-- the weight matrix denoted by an entry list: first stored entry at `(i,j)`, `0` if none -/
def Wof (es : List WEntry) (i j : Nat) : Rat :=
  match es.find? (fun e => e.1 == i && e.2.1 == j) with
  | some e => e.2.2
  | none => 0

/-- `σ` maps `0..n-1` injectively into `0..n-1` -/
def isPermFn (n : Nat) (σ : Nat → Nat) : Bool :=
  (List.range n).all (fun i => decide (σ i < n)) &&
  (List.range n).all (fun i => (List.range n).all fun j => i == j || σ i != σ j)

/-- Slack form of the certificate: weights nonnegative, scalings positive, every scaled entry at most
`hi`, every matched scaled entry at least `lo`, `0 < lo`.  `σ i` is the column matched to row `i`. -/
def matchingCertS (lo hi : Rat) (n : Nat) (es : List WEntry) (σ : Nat → Nat) (r c : Nat → Rat) : Bool :=
  decide (0 < lo) &&
  isPermFn n σ &&
  (List.range n).all (fun i => decide (0 < r i) && decide (0 < c i)) &&
  es.all (fun e => decide (0 ≤ e.2.2) && decide (r e.1 * e.2.2 * c e.2.1 ≤ hi)) &&
  (List.range n).all (fun i => decide (lo ≤ r i * Wof es i (σ i) * c (σ i)))

/-- The exact certificate of the property: every scaled entry at most one, matched entries exactly one. -/
def matchingCert (n : Nat) (es : List WEntry) (σ : Nat → Nat) (r c : Nat → Rat) : Bool :=
  matchingCertS 1 1 n es σ r c

/-! ### Executable helpers used by the driver (not subject of theorems) -/

/-- all ways of inserting `x` into a list -/
def insertAll (x : Nat) : List Nat → List (List Nat)
  | [] => [[x]]
  | y :: ys => (x :: y :: ys) :: (insertAll x ys).map (y :: ·)

/-- all permutations of a list -/
def perms : List Nat → List (List Nat)
  | [] => [[]]
  | x :: xs => (perms xs).flatMap (insertAll x)

/-- product of the weights along the assignment row `i` ↦ column `p[i]` -/
def prodAlong (es : List WEntry) (p : List Nat) : Rat :=
  (List.range p.length).foldl (fun acc i => acc * Wof es i (p.getD i 0)) 1

/-- largest product over all `n!` assignments (brute force, intended for `n ≤ 7`) -/
def bruteBest (n : Nat) (es : List WEntry) : Rat :=
  (perms (List.range n)).foldl (fun acc p => let q := prodAlong es p; if acc < q then q else acc) 0

/-- Kuhn's augmenting-path search: try to match column `j`; `adj j` = rows of column `j`;
`mate[i]` = column currently matched to row `i` (or `n` = free). -/
def tryAugment (n : Nat) (adj : Nat → List Nat) (j : Nat) (seen mate : Array Nat) :
    (fuel : Nat) → Bool × Array Nat × Array Nat
  | 0 => (false, seen, mate)
  | fuel + 1 =>
    (adj j).foldl (fun (st : Bool × Array Nat × Array Nat) i =>
      let (done, seen, mate) := st
      if done || seen.getD i 1 == 1 then (done, seen, mate) else
      let seen := seen.setIfInBounds i 1
      let m := mate.getD i n
      if m == n then (true, seen, mate.setIfInBounds i j)
      else
        let (ok, seen', mate') := tryAugment n adj m seen mate fuel
        if ok then (true, seen', mate'.setIfInBounds i j) else (false, seen', mate'))
      (false, seen, mate)

/-- size of a maximum matching of the bipartite graph columns ↔ rows given by `(row, col)` pairs -/
def maxMatching (n : Nat) (edges : List (Nat × Nat)) : Nat :=
  let adj : Nat → List Nat := fun j => (edges.filter (fun e => e.2 == j)).map (·.1)
  let mate := (List.range n).foldl (fun (mate : Array Nat) j =>
    let (_, _, mate') := tryAugment n adj j (Array.replicate n 0) mate (n + 1)
    mate') (Array.replicate n n)
  (mate.toList.filter (· != n)).length

/-- `2^-p`-grid truncation (toward zero for nonnegative `q`) -/
def truncQ (p : Nat) (q : Rat) : Rat := ((q * ((2 ^ p : Nat) : Rat)).floor : Rat) / ((2 ^ p : Nat) : Rat)

/-- `exp x` for a rational `|x| ≤ 131072`, relative error below `2^-100` (argument halving 18 times,
31 Taylor terms, repeated squaring on a `2^-200` grid).  Driver-side evaluation of the scale factors
`exp(u_i)`, `exp(v_j)` that dgsisx.c:563-564 forms in floating point; `none` if `|x| > 131072`.
(The duals of an n x n matrix of doubles are sums of at most 2n logarithms of magnitude below 745,
so for the orders generated, n ≤ 32, they never leave this range; MC64 returns the warning 2 when
a scale factor would overflow the floating-point range, and the exact evaluation here goes on.) -/
def expQ (x : Rat) : Option Rat :=
  let ax := if x < 0 then -x else x
  if ax > 131072 then none else
  let y := ax / 262144
  let (s, _) := (List.range 31).foldl (fun (st : Rat × Rat) k =>
    let (s, t) := st
    let t' := truncQ 220 (t * y / ((k + 1 : Nat) : Rat))
    (s + t', t')) ((1 : Rat), (1 : Rat))
  let e := (List.range 18).foldl (fun (e : Rat) _ => truncQ 200 (e * e)) s
  some (if x < 0 then 1 / e else e)

end Slu.Ldperm
