import Slu.Basic
/-
C16 — model of the matrix file readers (fidelity S: exact, integer/rational; text layer follows the
C statements, `strtod`'s rounding is O-level and is checked per run in exact rationals).

Sources mirrored (the s/c/z twins differ only in the value type and in reading (re, im) pairs):
* SRC/dreadhb.c:101-111  `dParseIntFormat`      -> `parseIntFormat`
* SRC/dreadhb.c:113-139  `dParseFloatFormat`    -> `parseFloatFormat`
* SRC/dreadhb.c:141-160  `ReadVector`           -> `readVector`   (fixed-width slicing, `item - 1`)
* SRC/dreadhb.c:162-183  `dReadValues`          -> `readValues`   (D -> E, `atof`; complex pairs may
                                                                  straddle lines: zreadhb.c:162-193)
* SRC/dreadhb.c:192-288  `FormFullA`            -> `formFull`     (transpose by counting sort, merge)
* SRC/dreadhb.c:290-360  `dreadhb`              -> `readHB`
* SRC/dreadrb.c:277-355  `dreadrb`              -> `readRB`
* SRC/dreadMM.c:34-213   `dreadMM`              -> `readMM`       (header, comments, zero-base
                                                                  heuristic, symmetric expansion,
                                                                  counting sort)
* SRC/dreadtriple.c:27-128 `dreadtriple`        -> `readTriple`
* counting sort (dreadMM.c:183-207, dreadtriple.c:98-122) -> `cscOfTriplets`
* SRC/dreadhb.c:162-183, zreadhb.c:162-193 once more, loop by loop -> `Values.readValues`,
  `Values.readValuesCx` (section 9; `readHBRBLoops` is `readHBRB` over them)

The model implements the DOCUMENTED behaviour where the pinned code deviates from it:
* symmetric expansion has `2*nnz - ndiag` entries (the code sizes its arrays as `2*nnz - n`);
* `(sP,kEw.d)` (comma after the scale factor, the standard Fortran spelling) yields count `k`
  (the code re-reads the count only after `P`, obtains 0 and then never terminates);
* a scale factor `sP` applies to F-edited fields without exponent (Fortran: external = internal*10^s);
* `[cz]readMM` accept the `complex` header (the code only accepts `real`).
Each of these is listed in the C16 report; the correspondence check shows them as failures.
-/
namespace Slu.Readers

/-! ## 1. Characters, integers, decimals (the parts of `atoi`, `strtod`, `scanf` that are used) -/

@[inline] def isDigit (c : Char) : Bool := decide ('0' ≤ c) && decide (c ≤ '9')
@[inline] def digitVal (c : Char) : Nat := c.toNat - 48
/-- C `isspace` in the "C" locale -/
@[inline] def isSpace (c : Char) : Bool :=
  c == ' ' || c == '\t' || c == '\n' || c == '\r' || c.toNat == 11 || c.toNat == 12

/-- accumulate leading decimal digits: `(value, number of digits, rest)` -/
def takeDigits : Nat → Nat → List Char → Nat × Nat × List Char
  | acc, cnt, [] => (acc, cnt, [])
  | acc, cnt, c :: cs => if isDigit c then takeDigits (acc * 10 + digitVal c) (cnt + 1) cs else (acc, cnt, c :: cs)

def skipWs : List Char → List Char
  | [] => []
  | c :: cs => if isSpace c then skipWs cs else c :: cs

/-- optional sign: `(negative?, rest)` -/
def takeSign : List Char → Bool × List Char
  | '-' :: cs => (true, cs)
  | '+' :: cs => (false, cs)
  | cs => (false, cs)

/-- `scanf("%d")` / the successful part of `atoi`: white space, optional sign, at least one digit -/
def scanInt (s : List Char) : Option (Int × List Char) :=
  let (neg, s1) := takeSign (skipWs s)
  let (v, cnt, rest) := takeDigits 0 0 s1
  if cnt = 0 then none else some (if neg then -(v : Int) else (v : Int), rest)

/-- `atoi` (0 when no number is present) -/
def atoi (s : List Char) : Int := match scanInt s with | some (v, _) => v | none => 0

def pow10 (k : Int) : Rat :=
  if k ≥ 0 then ((10 ^ k.toNat : Nat) : Rat) else 1 / ((10 ^ (-k).toNat : Nat) : Rat)

/-- result of scanning a decimal floating constant -/
structure Dec where
  val : Rat
  hasExp : Bool
  rest : List Char

/-- `strtod` restricted to decimal constants: white space, sign, digits [. digits] [e|E [sign] digits]
(at least one mantissa digit; the exponent part is consumed only if it has a digit).  The value is
the exact rational denoted by the text; rounding to the machine type is not part of the model. -/
def scanDec (s : List Char) : Option Dec :=
  let (neg, s1) := takeSign (skipWs s)
  let (ip, ic, s2) := takeDigits 0 0 s1
  let (m, fc, s3) := match s2 with
    | '.' :: t => let (m, fc, s3) := takeDigits ip 0 t; (m, fc, s3)
    | _ => (ip, 0, s2)
  if ic + fc = 0 then none else
  let (e, hasExp, s4) : Int × Bool × List Char := match s3 with
    | c :: t =>
      if c == 'e' || c == 'E' then
        let (eneg, t1) := takeSign t
        let (ev, ecnt, t2) := takeDigits 0 0 t1
        if ecnt = 0 then (0, false, s3) else (if eneg then -(ev : Int) else (ev : Int), true, t2)
      else (0, false, s3)
    | [] => (0, false, s3)
  let mag : Rat := (m : Rat) * pow10 (e - (fc : Int))
  some { val := if neg then -mag else mag, hasExp := hasExp, rest := s4 }

/-- `atof` -/
def atofRat (s : List Char) : Rat := match scanDec s with | some d => d.val | none => 0

/-! ## 2. stdio on a character stream -/

/-- `fgets(buf, lim, fp)`: at most `lim-1` characters, stopping after a newline: `(line, rest)` -/
def fgets : Nat → List Char → List Char × List Char
  | 0, s => ([], s)
  | 1, s => ([], s)
  | _, [] => ([], [])
  | lim + 1, c :: cs =>
    if c == '\n' then ([c], cs) else
    let (l, r) := fgets lim cs
    (c :: l, r)

/-- `fscanf(fp, "%kc", buf)`: exactly `k` characters, newlines included -/
def readN (k : Nat) (s : List Char) : List Char × List Char := (s.take k, s.drop k)

/-- `dDumpLine`: discard through the next newline -/
def dumpLine : List Char → List Char
  | [] => []
  | c :: cs => if c == '\n' then cs else dumpLine cs

/-! ## 3. Fortran edit descriptors (dreadhb.c:101-139) -/

/-- characters after the first `(`  (`while (*tmp++ != '(') ;`) -/
def afterParen : List Char → Option (List Char)
  | [] => none
  | c :: cs => if c == '(' then some cs else afterParen cs

def dropUntil (p : Char → Bool) : List Char → Option (List Char)
  | [] => none
  | c :: cs => if p c then some (c :: cs) else dropUntil p cs

/-- `(kIw)` -> `(k, w)`; `sscanf("%d")` reads the repeat count after the parenthesis, the width after
the letter.  An omitted repeat count means 1 (Fortran; the C code leaves the variable unset). -/
def parseIntFormat (buf : List Char) : Option (Nat × Nat) := do
  let s ← afterParen buf
  let num : Int := match scanInt s with | some (v, _) => v | none => 1
  let s2 ← dropUntil (fun c => c == 'I' || c == 'i') s
  let (w, _) ← scanInt (s2.drop 1)
  pure (num.toNat, w.toNat)

@[inline] def isEDF (c : Char) : Bool := c == 'E' || c == 'e' || c == 'D' || c == 'd' || c == 'F' || c == 'f'

/-- the scan of dreadhb.c:120-131: walk to the first E/D/F letter; after a `P` (and, as documented
for `(sP,kEw.d)`, after a comma) the repeat count is re-read.  Returns
`(count, scale factor seen, letter, characters after the letter)`. -/
def floatScan : Int → Int → List Char → Option (Int × Int × Char × List Char)
  | _, _, [] => none
  | num, sc, c :: cs =>
    if isEDF c then some (num, sc, c, cs)
    else if c == 'P' || c == 'p' then floatScan (atoi cs) num cs
    else if c == ',' then floatScan (atoi cs) sc cs
    else floatScan num sc cs

/-- parsed value descriptor -/
structure FloatFmt where
  count : Nat
  width : Nat
  scale : Int      -- `s` of `sP` (0 when absent)
  letter : Char
deriving Repr, DecidableEq, Inhabited

/-- `(kEw.d)`, `(kDw.d)`, `(kFw.d)`, `(sPkEw.d)`, `(sP,kEw.d)` -> count `k`, width `w` -/
def parseFloatFormat (buf : List Char) : Option FloatFmt := do
  let s ← afterParen buf
  let (num, sc, letter, s2) ← floatScan (atoi s) 0 s
  -- width: digits up to '.' or ')'  (`*period = '\0'; atoi(tmp)`)
  pure { count := num.toNat, width := (atoi s2).toNat, scale := sc, letter := letter }

/-! ## 4. Fixed-width fields (dreadhb.c:141-183) -/

/-- the `j`-th field of width `w` of a line (`buf[(j+1)*w] = 0; &buf[j*w]`) -/
def field (line : List Char) (j w : Nat) : List Char := (line.drop (j * w)).take w

/-- the fields read from one line when `cnt` items are still wanted -/
def lineFields (line : List Char) (perline w cnt : Nat) : List (List Char) :=
  (List.range (min perline cnt)).map fun j => field line j w

/-- generic line-by-line field reader: `n` fields, `perline` per line of width `w`.
`none` when `perline = 0` (the C loop would never terminate). -/
def readFields (perline w : Nat) (n : Nat) (s : List Char) : Option (List (List Char) × List Char) :=
  if _h : perline = 0 then (if n = 0 then some ([], s) else none) else
  if _hn : n = 0 then some ([], s) else
    let (line, rest) := fgets 100 s
    match readFields perline w (n - min perline n) rest with
    | some (fs, r) => some (lineFields line perline w n ++ fs, r)
    | none => none
termination_by n
decreasing_by omega

/-- `ReadVector`: integers, converted to 0-based -/
def readVector (perline w n : Nat) (s : List Char) : Option (List Int × List Char) :=
  (readFields perline w n s).map fun (fs, r) => (fs.map (fun f => atoi f - 1), r)

/-- `D`/`d` -> `E` inside a field (dreadhb.c:175-176) -/
def dToE (f : List Char) : List Char := f.map fun c => if c == 'D' || c == 'd' then 'E' else c

/-- value of one field under a descriptor: `atof` after D->E; a scale factor divides fields that
carry no exponent (Fortran 10.8.5; relevant for F editing only) -/
def fieldValue (fmt : FloatFmt) (f : List Char) : Rat :=
  match scanDec (dToE f) with
  | some d => if d.hasExp || fmt.scale == 0 then d.val else d.val * pow10 (-fmt.scale)
  | none => 0

/-- `dReadValues` (real: `n` numbers; complex: `2n` numbers, pairs may straddle lines) -/
def readValues (fmt : FloatFmt) (n : Nat) (s : List Char) : Option (List Rat × List Char) :=
  (readFields fmt.count fmt.width n s).map fun (fs, r) => (fs.map (fieldValue fmt), r)

/-! ## 5. Coordinate -> compressed column: the counting sort (dreadMM.c:183-207) -/

structure Trip (α : Type) where
  row : Nat
  col : Nat
  val : α
deriving Repr, BEq, DecidableEq, Inhabited

def Trip.swap {α : Type} (t : Trip α) : Trip α := { row := t.col, col := t.row, val := t.val }

/-- `++xa[col[nz]]` for every triplet, from `xa[j] = 0` -/
def countCols {α : Type} (n : Nat) (ts : List (Trip α)) : Array Nat :=
  ts.foldl (fun xa t => xa.modify t.col (· + 1)) (Array.replicate n 0)

/-- exclusive prefix sums: `k = 0; for j: xa[j] = k; k += jsize` -/
def startsOf (cnt : Array Nat) : Array Nat :=
  (cnt.foldl (fun (acc : Array Nat × Nat) c => (acc.1.push acc.2, acc.2 + c)) (#[], 0)).1

/-- `k = xa[j]; asub[k] = row; a[k] = val; ++xa[j]` for every triplet in file order -/
def scatter {α : Type} (starts : Array Nat) (ts : List (Trip α)) (out : Array (Trip α)) : Array Nat × Array (Trip α) :=
  ts.foldl (fun (st : Array Nat × Array (Trip α)) t =>
    (st.1.modify t.col (· + 1), st.2.setIfInBounds (st.1.getD t.col 0) t)) (starts, out)

/-- the whole conversion; returns `(colptr, entries in storage order)`; the final shift
`xa[j] = xa[j-1]; xa[0] = 0` is the `#[0] ++ ·` -/
def cscOfTriplets {α : Type} [Inhabited α] (n : Nat) (ts : List (Trip α)) : Array Nat × Array (Trip α) :=
  let starts := startsOf (countCols n ts)
  let (xa, out) := scatter starts ts (Array.replicate ts.length default)
  (#[0] ++ xa, out)

/-! ## 6. Symmetric expansion -/

/-- dreadMM.c:165-173: each off-diagonal entry is followed by its mirror image -/
def mmExpand {α : Type} (ts : List (Trip α)) : List (Trip α) :=
  ts.flatMap fun t => if t.row ≠ t.col then [t, t.swap] else [t]

/-- entries of columns `0..n-1` of a compressed-column structure, storage order -/
def colSeg {β : Type} (colptr : Array Nat) (xs : Array β) (j : Nat) : List β :=
  (xs.toList.drop (colptr.getD j 0)).take (colptr.getD (j + 1) 0 - colptr.getD j 0)

/-- `FormFullA` (dreadhb.c:192-288) on the stored triangle given as its entry list `es` in storage
order (column by column): `T` = transpose by counting sort; column `j` of the result is column `j`
of `T` without the diagonal followed by column `j` of the stored triangle. -/
def formFull {α : Type} [Inhabited α] (n : Nat) (es : List (Trip α)) : List (List (Trip α)) :=
  let (tptr, tout) := cscOfTriplets n (es.map Trip.swap)
  (List.range n).map fun j =>
    (colSeg tptr tout j).filter (fun t => t.row ≠ j) ++ es.filter (fun t => t.col = j)

/-- flatten columns into `(colptr, entries)`: `a_colptr[j+1] = k` -/
def cscOfCols {α : Type} (cols : List (List (Trip α))) : Array Nat × Array (Trip α) :=
  cols.foldl (fun (acc : Array Nat × Array (Trip α)) c => (acc.1.push (acc.2.size + c.length), acc.2 ++ c.toArray)) (#[0], #[])

/-! ## 7. The four readers -/

/-- what a reader returns -/
structure Result where
  m : Int
  n : Int
  nnz : Int
  colptr : Array Int
  rowind : Array Int
  /-- real: one rational per entry; complex: (re, im) interleaved -/
  vals : Array Rat
deriving Inhabited

def natsOf (l : List Int) : Option (List Nat) := l.mapM fun x => if x ≥ 0 then some x.toNat else none

/-- storage-order entries of a CSC given by plain arrays; `vpe` = values per entry (1 or 2) -/
def entriesOf (n : Nat) (colptr rowind : Array Nat) (vals : Array Rat) (vpe : Nat) : List (Trip (List Rat)) :=
  (List.range n).flatMap fun j =>
    (List.range (colptr.getD (j + 1) 0 - colptr.getD j 0)).map fun d =>
      let k := colptr.getD j 0 + d
      { row := rowind.getD k 0, col := j, val := (List.range vpe).map fun t => vals.getD (vpe * k + t) 0 }

def resultOfCsc (m n : Nat) (colptr : Array Nat) (out : Array (Trip (List Rat))) : Result :=
  { m := m, n := n, nnz := out.size, colptr := colptr.map Int.ofNat, rowind := out.map (fun t => (t.row : Int)),
    vals := out.foldl (fun acc t => acc ++ t.val.toArray) #[] }

/-- header + data of Harwell-Boeing (`rb = false`) and Rutherford-Boeing (`rb = true`) files -/
def readHBRB (rb cplx : Bool) (s0 : List Char) : Except String Result := do
  let (_, s) := fgets 100 s0                                   -- line 1: title, key
  -- line 2: (5I14) resp. 4 fields; `sscanf("%d")` leaves `tmp` unchanged on a blank field
  let nf := if rb then 4 else 5
  let (tmps, s) := (List.range nf).foldl (fun (acc : List Int × List Char) _ =>
      let (f, r) := readN 14 acc.2
      let prev := acc.1.getLastD 0
      (acc.1 ++ [match scanInt f with | some (v, _) => v | none => prev], r)) (([] : List Int), s)
  let numerLines := tmps.getD 3 0
  let rhscrd := if rb then 0 else tmps.getD 4 0
  let s := dumpLine s
  -- line 3
  let (type, s) := readN 3 s
  let (_, s) := readN 11 s
  let (f, s) := readN 14 s; let nrow := atoi f
  let (f, s) := readN 14 s; let ncol := atoi f
  let (f, s) := readN 14 s; let nonz := atoi f
  let (_, s) := readN 14 s
  let s := dumpLine s
  if nrow < 0 || ncol < 0 || nonz < 0 then throw "negative dimension"
  -- line 4
  let (f, s) := readN 16 s
  let some (colnum, colsize) := parseIntFormat f | throw "pointer format"
  let (f, s) := readN 16 s
  let some (rownum, rowsize) := parseIntFormat f | throw "index format"
  let (f, s) := readN 20 s
  let some vfmt := parseFloatFormat f | throw "value format"
  let s := if rb then s else (readN 20 s).2
  let s := dumpLine s
  let s := if rhscrd ≠ 0 then dumpLine s else s                -- line 5
  let n := ncol.toNat; let nz := nonz.toNat
  let some (cp, s) := readVector colnum colsize (n + 1) s | throw "pointer format: zero count"
  let some (ri, s) := readVector rownum rowsize nz s | throw "index format: zero count"
  let vpe := if cplx then 2 else 1
  let (vals, _) ← if numerLines ≠ 0 then
      match readValues vfmt (vpe * nz) s with
      | some r => pure r
      | none => throw "value format: zero count"
    else pure (List.replicate (vpe * nz) (0 : Rat), s)
  let sym := match type with | [_, c, _] => c == 'S' || c == 's' | _ => false
  if !sym then
    return { m := nrow, n := ncol, nnz := nonz, colptr := cp.toArray, rowind := ri.toArray, vals := vals.toArray }
  -- symmetric: FormFullA needs genuine indices
  let some cpn := natsOf cp | throw "negative pointer"
  let some rin := natsOf ri | throw "negative index"
  let es := entriesOf n cpn.toArray rin.toArray vals.toArray vpe
  if es.any (fun t => t.row ≥ n) then throw "row index out of range in a symmetric file"
  let (colptr, out) := cscOfCols (formFull n es)
  return resultOfCsc nrow.toNat n colptr out

def readHB := readHBRB false
def readRB := readHBRB true

/-- lower-case copy (`tolower` over the header line) -/
def lower (s : List Char) : List Char := s.map Char.toLower

/-- `sscanf("%s")`: skip white space, take the maximal run of non-space characters -/
def scanTok (s : List Char) : Option (List Char × List Char) :=
  let s1 := skipWs s
  let tok := s1.takeWhile (fun c => !isSpace c)
  if tok.isEmpty then none else some (tok, s1.drop tok.length)

/-- the triplet loop shared by `readMM` and `readtriple` (dreadMM.c:139-178, dreadtriple.c:60-93):
`nonz` triplets `row col value[s]`, zero-base detection on the first one, bound check. -/
def readTriplets (vpe : Nat) (m n : Nat) : Nat → Bool → Bool → List Char → List (Trip (List Rat)) →
    Except String (List (Trip (List Rat)))
  | 0, _, _, _, acc => pure acc.reverse
  | k + 1, first, zb, s, acc => do
    let some (r, s) := scanInt s | throw "triplet: row expected"
    let some (c, s) := scanInt s | throw "triplet: column expected"
    let (vs, s) ← (List.range vpe).foldlM (fun (st : List Rat × List Char) _ =>
        match scanDec st.2 with
        | some d => pure (st.1 ++ [d.val], d.rest)
        | none => throw "triplet: value expected") (([] : List Rat), s)
    let zb := if first then (r == 0 || c == 0) else zb
    let r := if zb then r else r - 1
    let c := if zb then c else c - 1
    if r < 0 || r ≥ m || c < 0 || c ≥ n then throw "triplet out of bound (the reader exits)"
    readTriplets vpe m n k false zb s ({ row := r.toNat, col := c.toNat, val := vs } :: acc)

/-- Matrix Market coordinate files.  `cplx` selects `[cz]readMM`; `arith` is the arithmetic token the
header must carry (`complex` for complex data; the driver passes `real` to replay files written
for the pinned `[cz]readMM`, which accept only that). -/
def readMM (cplx : Bool) (s0 : List Char) (arith : String := if cplx then "complex" else "real") :
    Except String Result := do
  let (line, s) := fgets 512 s0
  let l := lower line
  let some (banner, l) := scanTok l | throw "header: 5 tokens expected"
  let some (mtx, l) := scanTok l | throw "header: 5 tokens expected"
  let some (crd, l) := scanTok l | throw "header: 5 tokens expected"
  let some (arithTok, l) := scanTok l | throw "header: 5 tokens expected"
  let some (sym, _) := scanTok l | throw "header: 5 tokens expected"
  if banner ≠ "%%matrixmarket".toList then throw "header: banner"
  if mtx ≠ "matrix".toList then throw "header: not a matrix"
  if crd ≠ "coordinate".toList then throw "header: not coordinate"
  if arithTok ≠ arith.toList then throw "header: arithmetic"
  let expand := sym ≠ "general".toList
  -- comments: `while (banner[0]=='%') { fgets(line); sscanf(line, "%s", banner); }`
  let rec skip (fuel : Nat) (s : List Char) (first : Char) (line : List Char) : List Char × List Char :=
    match fuel with
    | 0 => (line, s)
    | fuel + 1 =>
      if first == '%' then
        if s.isEmpty then (line, s) else
        let (line, s) := fgets 512 s
        let first := match scanTok line with | some (c :: _, _) => c | _ => first
        skip fuel s first line
      else (line, s)
  let (sizeLine, s) := skip (s.length + 1) s '%' line
  let some (mm, l) := scanInt sizeLine | throw "size line"
  let some (nn, l) := scanInt l | throw "size line"
  let some (nz, _) := scanInt l | throw "size line"
  if mm ≠ nn then throw "rectangular (the reader exits)"
  if nn < 0 || nz < 0 then throw "negative size"
  let n := nn.toNat
  let ts ← readTriplets (if cplx then 2 else 1) n n nz.toNat true false s []
  let ts := if expand then mmExpand ts else ts
  let (colptr, out) := cscOfTriplets n ts
  return resultOfCsc n n colptr out

/-- SuperLU's own triplet format: `n nnz` then the triplets -/
def readTriple (cplx : Bool) (s : List Char) : Except String Result := do
  let some (nn, s) := scanInt s | throw "n expected"
  let some (nz, s) := scanInt s | throw "nnz expected"
  if nn < 0 || nz < 0 then throw "negative size"
  let n := nn.toNat
  let ts ← readTriplets (if cplx then 2 else 1) n n nz.toNat true false s []
  let (colptr, out) := cscOfTriplets n ts
  return resultOfCsc n n colptr out

/-! ## 8. Printer side: what a well-formed integer block is -/

/-- decimal digits of a natural number, most significant first -/
def natDigits (n : Nat) : List Char :=
  if h : n < 10 then [Char.ofNat (48 + n)] else natDigits (n / 10) ++ [Char.ofNat (48 + n % 10)]
termination_by n
decreasing_by omega

/-- `Iw` output: right-justified in `w` columns -/
def printField (w : Nat) (x : Nat) : List Char :=
  let d := natDigits x
  List.replicate (w - d.length) ' ' ++ d

/-- one line of at most `k` fields, newline-terminated -/
def printLine (w : Nat) (xs : List Nat) : List Char := xs.flatMap (printField w) ++ ['\n']

/-- `(kIw)` output of a list: full lines of `k` fields, the last one possibly shorter -/
def printInts (k w : Nat) (xs : List Nat) : List Char :=
  if _h : k = 0 then [] else
  if hx : xs = [] then [] else
    printLine w (xs.take k) ++ printInts k w (xs.drop k)
termination_by xs.length
decreasing_by
  simp only [List.length_drop]
  have : xs.length ≠ 0 := by simpa using hx
  omega

/-- a triplet line `row col value` with 1-based indices and a natural-number value -/
def printTripLine (t : Trip Nat) : List Char :=
  natDigits (t.row + 1) ++ [' '] ++ natDigits (t.col + 1) ++ [' '] ++ natDigits t.val ++ ['\n']

/-- a well-formed file of SuperLU's triplet format: `n nnz`, then one line per entry, any order -/
def printTriple (n : Nat) (ts : List (Trip Nat)) : List Char :=
  natDigits n ++ [' '] ++ natDigits ts.length ++ ['\n'] ++ ts.flatMap printTripLine

/-- rendering of a value descriptor, e.g. `(1P,4E20.12)` -/
def renderFloatFmt (scale : Option (Int × Bool)) (k : Nat) (letter : Char) (w d : Nat) : List Char :=
  let sgn (z : Int) : List Char := if z < 0 then '-' :: natDigits z.natAbs else natDigits z.natAbs
  ['('] ++ (match scale with
    | some (sc, comma) => sgn sc ++ ['P'] ++ (if comma then [','] else [])
    | none => []) ++ natDigits k ++ [letter] ++ natDigits w ++ ['.'] ++ natDigits d ++ [')']

def renderIntFmt (k w : Nat) : List Char := ['('] ++ natDigits k ++ ['I'] ++ natDigits w ++ [')']

/-! ## 9. The value layer of `[sdcz]ReadValues`, loop by loop (dreadhb.c:162-183, zreadhb.c:162-193;
the same text in `[sdcz]readrb.c`)

Section 4 specifies the value block as "the first `n` fields"; this section follows the C statements
instead: the `while (i < n)` loop over text lines, the `for (j = 0; j < perline && i < n; j++)` loop
over the fields of one line, the cut `buf[(j+1)*persize] = 0; &buf[j*persize]`, the replacement of the
Fortran exponent letter, the conversion, and — for the complex types — the toggle `pair` that is
initialised once, BEFORE the line loop, so that a (real, imaginary) pair may straddle a line end.
`conv` stands for `atof` (libc); a text line is what `fgets(buf, 100, fp)` delivers (`fgetsLines`).
A stream that ends early is outside the model (the C code then re-reads its stale buffer): the model
stops at the last line. -/
namespace Values

variable {α σ : Type}

/-- the inner loop `for (j = 0; j < perline && i < n; j++) { ... }` on one line; `fuel = perline - j`,
`more st` is the test `i < n` on the loop state, `body` what is done with the field text:
* `tmp = buf[(j+1)*persize]; buf[(j+1)*persize] = 0; s = j*persize;`  -> `field line j persize`
* `for (k = 0; k < persize; ++k) if (buf[s+k] == 'D' || buf[s+k] == 'd') buf[s+k] = 'E';` -> `dToE`
* the statements between the replacement and `buf[(j+1)*persize] = tmp;`               -> `body` -/
def scanLine (persize : Nat) (body : List Char → σ → σ) (more : σ → Bool) (line : List Char) :
    Nat → Nat → σ → σ
  | 0, _, st => st
  | fuel + 1, j, st =>
    if more st then
      scanLine persize body more line fuel (j + 1) (body (dToE (field line j persize)) st)
    else st

/-- the outer loop `while (i < n) { fgets(buf, 100, fp); for ... }` -/
def scanLines (perline persize : Nat) (body : List Char → σ → σ) (more : σ → Bool) :
    List (List Char) → σ → σ
  | [], st => st
  | line :: rest, st =>
    if more st then scanLines perline persize body more rest (scanLine persize body more line perline 0 st)
    else st

/-- `dReadValues` / `sReadValues` (dreadhb.c:162-183): `destination[i++] = atof(&buf[s]);`
The state is the list of values stored so far (`i` is its length). -/
def readValues (perline persize : Nat) (conv : List Char → α) (n : Nat) (lines : List (List Char)) : List α :=
  scanLines perline persize (fun f out => out ++ [conv f]) (fun out => decide (out.length < n)) lines []

/-- state of `zReadValues`: the pairs stored so far (`i` is their number) and the toggle together
with the pending real part: `none` is `pair == 0`, `some re` is `pair == 1, realpart == re` -/
structure CxState (α : Type) where
  out : List (α × α)
  pend : Option α

/-- zreadhb.c:178-187: `if (pair == 0) { realpart = atof(&buf[s]); pair = 1; }
else { destination[i].r = realpart; destination[i++].i = atof(&buf[s]); pair = 0; }` -/
def cxBody (conv : List Char → α) (f : List Char) (st : CxState α) : CxState α :=
  match st.pend with
  | none => { out := st.out, pend := some (conv f) }
  | some re => { out := st.out ++ [(re, conv f)], pend := none }

/-- `zReadValues` / `cReadValues` (zreadhb.c:162-193): `i = pair = 0;` once, then the two loops; `n`
complex numbers are `2n` fields, and the toggle survives the line breaks. -/
def readValuesCx (perline persize : Nat) (conv : List Char → α) (n : Nat) (lines : List (List Char)) :
    List (α × α) :=
  (scanLines perline persize (cxBody conv) (fun st => decide (st.out.length < n)) lines
    { out := [], pend := none }).out

/-- the outer loop of a WRONG variant that clears the toggle whenever a new line is fetched
(`pair = 0;` moved inside the `while`) -/
def scanLinesReset (perline persize : Nat) (conv : List Char → α) (n : Nat) :
    List (List Char) → CxState α → CxState α
  | [], st => st
  | line :: rest, st =>
    if decide (st.out.length < n) then
      scanLinesReset perline persize conv n rest
        (scanLine persize (cxBody conv) (fun st => decide (st.out.length < n)) line perline 0
          { out := st.out, pend := none })
    else st

/-- the variant: right for even `perline`, wrong as soon as a pair straddles a line end -/
def readValuesCxResetPerLine (perline persize : Nat) (conv : List Char → α) (n : Nat)
    (lines : List (List Char)) : List (α × α) :=
  (scanLinesReset perline persize conv n lines { out := [], pend := none }).out

/-- the text lines `fgets(buf, 100, fp)` delivers until the stream is exhausted -/
def fgetsLines (s : List Char) : List (List Char) :=
  let rec go : Nat → List Char → List (List Char)
    | 0, _ => []
    | fuel + 1, s =>
      if s.isEmpty then [] else
      let (l, r) := fgets 100 s
      l :: go fuel r
  go s.length s

/-! ### printer side (used in theorems and examples only) -/

/-- a field right-justified in `persize` columns (Fortran `Ew.d` / `Dw.d` / `Fw.d` output) -/
def pad (persize : Nat) (f : List Char) : List Char := List.replicate (persize - f.length) ' ' ++ f

/-- one text line of the given fields, newline-terminated as `fgets` delivers it -/
def printFieldsLine (persize : Nat) (fs : List (List Char)) : List Char := fs.flatMap (pad persize) ++ ['\n']

/-- the value block of a list of field texts: lines of `perline` right-justified fields of width
`persize`, the last line possibly shorter -/
def printFields (perline persize : Nat) (fields : List (List Char)) : List (List Char) :=
  if _h : perline = 0 then [] else
  if hx : fields = [] then [] else
    printFieldsLine persize (fields.take perline) :: printFields perline persize (fields.drop perline)
termination_by fields.length
decreasing_by
  simp only [List.length_drop]
  have : fields.length ≠ 0 := by simpa using hx
  omega

/-- `[(a, b), (c, d), ...]` of `[a, b, c, d, ...]` (a trailing single element is dropped) -/
def pairUp : List α → List (α × α)
  | a :: b :: rest => (a, b) :: pairUp rest
  | _ => []

end Values

/-- the value block through the loops of section 9; complex values as (re, im) interleaved.  The
conversion is `fieldValue` (exact decimal; its own `dToE` is idempotent after the loop's). -/
def loopValues (cplx : Bool) (fmt : FloatFmt) (nz : Nat) (s : List Char) : List Rat :=
  let lines := Values.fgetsLines s
  if cplx then
    (Values.readValuesCx fmt.count fmt.width (fieldValue fmt) nz lines).flatMap fun p => [p.1, p.2]
  else Values.readValues fmt.count fmt.width (fieldValue fmt) nz lines

/-- `readHBRB` with the value block read by `loopValues` (the statement-level loops of
`[sdcz]ReadValues`) instead of the field specification of section 4; everything else is the text of
`readHBRB`.  The driver runs both against the C readers. -/
def readHBRBLoops (rb cplx : Bool) (s0 : List Char) : Except String Result := do
  let (_, s) := fgets 100 s0
  let nf := if rb then 4 else 5
  let (tmps, s) := (List.range nf).foldl (fun (acc : List Int × List Char) _ =>
      let (f, r) := readN 14 acc.2
      let prev := acc.1.getLastD 0
      (acc.1 ++ [match scanInt f with | some (v, _) => v | none => prev], r)) (([] : List Int), s)
  let numerLines := tmps.getD 3 0
  let rhscrd := if rb then 0 else tmps.getD 4 0
  let s := dumpLine s
  let (type, s) := readN 3 s
  let (_, s) := readN 11 s
  let (f, s) := readN 14 s; let nrow := atoi f
  let (f, s) := readN 14 s; let ncol := atoi f
  let (f, s) := readN 14 s; let nonz := atoi f
  let (_, s) := readN 14 s
  let s := dumpLine s
  if nrow < 0 || ncol < 0 || nonz < 0 then throw "negative dimension"
  let (f, s) := readN 16 s
  let some (colnum, colsize) := parseIntFormat f | throw "pointer format"
  let (f, s) := readN 16 s
  let some (rownum, rowsize) := parseIntFormat f | throw "index format"
  let (f, s) := readN 20 s
  let some vfmt := parseFloatFormat f | throw "value format"
  let s := if rb then s else (readN 20 s).2
  let s := dumpLine s
  let s := if rhscrd ≠ 0 then dumpLine s else s
  let n := ncol.toNat; let nz := nonz.toNat
  let some (cp, s) := readVector colnum colsize (n + 1) s | throw "pointer format: zero count"
  let some (ri, s) := readVector rownum rowsize nz s | throw "index format: zero count"
  let vpe := if cplx then 2 else 1
  let vals := if numerLines ≠ 0 then loopValues cplx vfmt nz s else List.replicate (vpe * nz) (0 : Rat)
  if vals.length ≠ vpe * nz then
    throw s!"the loops stored {vals.length} numbers, {vpe * nz} announced"
  let sym := match type with | [_, c, _] => c == 'S' || c == 's' | _ => false
  if !sym then
    return { m := nrow, n := ncol, nnz := nonz, colptr := cp.toArray, rowind := ri.toArray, vals := vals.toArray }
  let some cpn := natsOf cp | throw "negative pointer"
  let some rin := natsOf ri | throw "negative index"
  let es := entriesOf n cpn.toArray rin.toArray vals.toArray vpe
  if es.any (fun t => t.row ≥ n) then throw "row index out of range in a symmetric file"
  let (colptr, out) := cscOfCols (formFull n es)
  return resultOfCsc nrow.toNat n colptr out

end Slu.Readers
