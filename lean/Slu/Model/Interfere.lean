/-
C09 — abstract small-step semantics of library calls over a shared store (core Lean only).

Fidelity level: S (symbolic).  This is not a mirror of one C file; it is the frame in which the
property "calls on distinct data do not interfere" is stated.  What it abstracts:

* a *location* is one addressable cell (a byte, a word — the granularity is irrelevant);
* a *call* (`Proc`) is a deterministic state machine: control/register state `σ` plus the shared
  store; `step` returns `none` when the call has returned;
* every call has a read footprint `rd` and a write footprint `wr`.  In SuperLU these are
    - the objects reachable from the call's arguments (`SuperMatrix` stores, `perm_c/perm_r/etree`,
      `GlobalLU_t`, `SuperLUStat_t`, the caller's work array, `isave[3]` of `dlacon2.c`, …:
      SRC/slu_util.h:326-359 keeps all factorization state in caller-owned structures),
    - the blocks the call allocates itself (SRC/sp_coletree.c:73-80,160-203, `intMalloc` etc.; the
      allocator is modelled as handing each call a private arena, i.e. libc `malloc` is trusted to be
      thread-safe and results do not depend on the addresses it returns),
    - read-only shared data: `const` tables and the tuning values of SRC/sp_ienv.c (`rd` only).
  A writable object with static storage duration would be a location in the write footprint of
  *every* call that touches it and is what `NonInterf` excludes; `Slu.C09.census_clean` ties that
  hypothesis to the source (regenerated `Slu/Gen/Census.lean`).

`Respects` is the footprint discipline (frame + locality); `run` executes an arbitrary interleaving
(`List ι` = which thread makes the next step).  The theorems are in `SluProofs/Props/C09.lean`.
The definitions are total and computable so that the example systems can be executed.
-/
namespace Slu.Interfere

abbrev Loc := Nat
abbrev Store (V : Type) := Loc → V

/-- one call: footprints and a deterministic small-step transition (`none` = returned) -/
structure Proc (σ V : Type) where
  rd : Loc → Bool
  wr : Loc → Bool
  step : σ → Store V → Option (σ × Store V)

variable {ι σ V : Type}

/-- everything the call may touch -/
def Proc.acc (p : Proc σ V) (x : Loc) : Bool := p.rd x || p.wr x

def agreeOn (f : Loc → Bool) (s t : Store V) : Prop := ∀ x, f x = true → s x = t x

/-- the footprint discipline: writes stay inside `wr` (frame), and the step is a function of the
control state and of the store restricted to `rd ∪ wr` only (locality) -/
structure Proc.Respects (p : Proc σ V) : Prop where
  frame : ∀ l s l' s', p.step l s = some (l', s') → ∀ x, p.wr x = false → s' x = s x
  locality : ∀ l s t, agreeOn p.acc s t →
    (p.step l s = none ∧ p.step l t = none) ∨
    (∃ l' s' t', p.step l s = some (l', s') ∧ p.step l t = some (l', t') ∧ agreeOn p.wr s' t')

/-- one step of a call run on its own; a returned call stays where it is -/
def Proc.step1 (p : Proc σ V) (c : σ × Store V) : σ × Store V :=
  match p.step c.1 c.2 with
  | none => c
  | some c' => c'

/-- `k` steps of a call run alone -/
def Proc.runAlone (p : Proc σ V) : Nat → σ × Store V → σ × Store V
  | 0, c => c
  | k + 1, c => p.runAlone k (p.step1 c)

/-- configuration of a system of concurrently running calls -/
structure Config (ι σ V : Type) where
  loc : ι → σ
  st : Store V

/-- thread `i` makes one step (no-op when it has returned) -/
def stepAt [DecidableEq ι] (ps : ι → Proc σ V) (i : ι) (c : Config ι σ V) : Config ι σ V :=
  match (ps i).step (c.loc i) c.st with
  | none => c
  | some (l', s') => { loc := fun j => if j = i then l' else c.loc j, st := s' }

/-- run an interleaving: the list says which thread moves next -/
def run [DecidableEq ι] (ps : ι → Proc σ V) : List ι → Config ι σ V → Config ι σ V
  | [], c => c
  | i :: rest, c => run ps rest (stepAt ps i c)

/-- no call writes what another call may touch (reads of common read-only data are allowed) -/
def NonInterf (ps : ι → Proc σ V) : Prop :=
  ∀ i j, i ≠ j → ∀ x, (ps i).wr x = true → (ps j).acc x = false

/-- every call has returned -/
def Finished (ps : ι → Proc σ V) (c : Config ι σ V) : Prop :=
  ∀ i, (ps i).step (c.loc i) c.st = none

/-- the serial schedule: the calls one after the other in the given order, `k i` steps each -/
def serial (order : List ι) (k : ι → Nat) : List ι :=
  order.flatMap fun i => List.replicate (k i) i

/-! ### A concrete instance (executable; used by the `example`s of Props/C09.lean)

`axpyProc base n a`: a call that owns the cells `base .. base+2n-1`, reads the tuning cell `0`
(shared, read-only) and performs `y[k] := a*x[k] + y[k] + tune` for k = 0..n-1, one element per step;
its control state is the loop counter. -/
def axpyProc (base n : Nat) (a : Int) : Proc Nat Int where
  rd := fun (x : Nat) => x == 0 || (base ≤ x && x < base + n)
  wr := fun (x : Nat) => base + n ≤ x && x < base + 2 * n
  step := fun k s =>
    if k < n then
      some (k + 1, fun (x : Nat) => if x = base + n + k then a * s (base + k) + s (base + n + k) + s 0 else s x)
    else none

end Slu.Interfere
