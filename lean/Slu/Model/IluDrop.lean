import Slu.Model.QSelect
import Slu.Model.Ilu
/-
C15 — the row dropping of the incomplete LU: `ilu_[sdcz]drop_row` (SRC/ilu_ddrop_row.c:62-356,
ilu_sdrop_row.c, ilu_cdrop_row.c, ilu_zdrop_row.c likewise; scalar instances `opsF64`, `opsF32`, `opsC64`, `opsC32`), level **B** for everything that is comparison, row movement and index
arithmetic, following statement order.  Core Lean only.  (`qselect`: Slu/Model/QSelect.lean.)

LAYOUT.  The routine works on the supernode `first..last`, an `m x n` column-major block of `lusup`
starting at `xlusup[first]` (leading dimension `m`) with row subscripts `lsub[xlsub[first] ..+m)`.  Every
operation of the two dropping loops acts on a WHOLE ROW of the block (`dswap_/dcopy_/daxpy_` with stride `m`,
`for (j..n) lusup[.. + j*m]`), so the loops are written on the block as an array of rows (`gather`), written
back (`scatter`) before the compaction loops of l.329-352, which are mirrored index by index on the flat
arrays.  The result compared with the C routine is the WHOLE of `lusup`, `lsub`, `xlsub`, `xlusup`
(stale entries behind the compacted block included), the return value, `*nnzLj`, `*fill_tol`, `nzp` (hook H2
phase 2), `dwork` (zeroed on exit) and `dwork2` (the array `qselect` permuted).

SCALARS.  `DropOps K R T` collects what depends on the C types: `K` the entries, `R` the type of the row
norms `temp[]`, `d_max`, `d_min`, `alpha`; `T` the type of `drop_tol`, `tol`, `*fill_tol` (`double` also in
the single-precision file: `register double tol`, `double drop_tol`, `double *fill_tol`).  Instances
`opsF64`, `opsF32` mirror the bundled CBLAS (`CBLAS/dasum.c`, `dnrm2.c`, `idamax.c`, `s*`: the
stride `m >= 2` branch; f2c's `abs(x) = x >= 0 ? x : -x`; `dnrm2`'s scale/ssq loop; the float file's mixed
float/double expressions evaluated through `Float` exactly where C promotes) and `opsRat` is the exact
reading (1-norm and max-norm; the 2-norm is irrational and is a parameter there).
`alpha = pow(n, -1/ILU_MILU_Dim)` (l.102) is an INPUT of the model (libm `pow`).

WHAT THE CODE DOES (and the model mirrors) that is easy to misread:
 * first pass: a row is dropped when `temp[i] < drop_tol` (strict), second pass when `temp[i] <= tol`;
 * the first dropped row is SWAPPED with row `m-1` (the last row), which from then on is the accumulator of
   the MILU compensation (`SMILU_1/2`: signed sums; `SMILU_3`: sums of moduli, the first one via `fabs`);
   later dropped rows are added to row `m-1` and overwritten by the last undropped row `m1`;
 * second pass, l.257-259: `lsub[i] = lsub[m1]; m1--; temp[i] = temp[m1];` — the norm stored for the row that
   was moved to position `i` is the norm of row `m1-1` (AFTER the decrement), not of the moved row `m1`;
   the moved row is then judged by its neighbour's norm (see `dropRow_secondary_uses_neighbour_norm` in
   Props/C15.lean; when `i = m1 = n` this reads `temp[n-1] = dwork[-1]`, mirrored as reading index `n-1`
   of the model's `temp`, whose value is never used);
 * the diagonal block rows `0..n-1` are never visited (`i` starts at `n`); the compensation multiplies the
   diagonal entries `lusup[xlusup_first + j*(m+1)]` (l.283-319), with the `SMILU_1` replacement branch
   `t == -1  =>  diag *= *fill_tol; nzp++`.
-/
namespace Slu.IluDrop
open Slu Slu.Ilu Slu.QSelect

inductive Nrm | one | two | inf
deriving BEq, DecidableEq, Repr, Inhabited

/-- the bits of `options->ILU_DropRule` the routine reads -/
structure Rule where
  nodrop : Bool      -- drop_rule == NODROP (0)
  basic : Bool       -- DROP_BASIC
  secondary : Bool   -- DROP_SECONDARY
  interp : Bool      -- DROP_INTERP
deriving Repr, Inhabited

structure DropOps (K R T : Type) where
  /-- l.124-138: the "average abs value" of a row of length n -/
  rowNorm : Nrm → Array K → R
  /-- `daxpy_` with alpha = 1: `y + x` (accumulator first) -/
  add : K → K → K
  /-- l.156-158: `acc += fabs(x)` -/
  addAbs : K → K → K
  /-- l.172-175: `fabs(x)` -/
  absK : K → K
  /-- `temp[i] < drop_tol` -/
  ltTol : R → T → Bool
  /-- `temp[i] <= tol` -/
  leTol : R → T → Bool
  /-- `tol = d_max`, `tol = qselect(..)` -/
  tolOfR : R → T
  zeroR : R
  oneR : R
  /-- l.200-201: `d_max = 1/d_max; d_min = 1/d_min; tol = 1/(d_max + (d_min - d_max) * quota / (m-n-r))` -/
  interp : R → R → Int → Int → T
  /-- l.285-318 for one column: `diagComp milu alpha fill_tol diag t = (new diag, replaced?)`; `t` is the
  accumulator entry, the caller skips the column when `isZero t` -/
  diagComp : Milu → R → T → K → K → K × Bool
  isZero : K → Bool
  /-- `*fill_tol = -nzp` -/
  negCount : Nat → T

/-- state of the two dropping loops -/
structure DSt (K R : Type) where
  rows : Array (Array K)
  subs : Array Int
  /-- `temp[i]`, indexed by row position `i` (the C array is `dwork - n`) -/
  temp : Array R
  m1 : Nat
  r : Nat
  dmax : R
  dmin : R
  /-- positions handled: ghost trace `(original position of the row dropped, norm consulted)`, newest first;
  not read by the model -/
  trace : List (Nat × R) := []
  /-- ghost: original position of the row now stored at each position -/
  orig : Array Nat := #[]

section
variable {K R T : Type} [Inhabited K] [Inhabited R] [LT R] [DecidableLT R]

/-- l.143-178 / 223-258: "drop the current row and move the last undropped row here" -/
def dropAt (ops : DropOps K R T) (milu : Milu) (m : Nat) (s : DSt K R) (i : Nat) (consulted : R) : DSt K R :=
  let r := s.r + 1
  let rows :=
    if 1 < r then
      let acc := s.rows[m - 1]!
      let x := s.rows[i]!
      let acc' := match milu with
        | .smilu1 | .smilu2 => Array.zipWith ops.add acc x
        | .smilu3 => Array.zipWith ops.addAbs acc x
        | .silu => acc
      let rows := s.rows.setIfInBounds (m - 1) acc'
      rows.setIfInBounds i rows[s.m1]!
    else
      let a := s.rows[s.m1]!
      let b := s.rows[i]!
      let rows := (s.rows.setIfInBounds s.m1 b).setIfInBounds i a
      if milu == .smilu3 then rows.setIfInBounds s.m1 (rows[s.m1]!.map ops.absK) else rows
  { s with rows := rows, subs := s.subs.setIfInBounds i s.subs[s.m1]!, m1 := s.m1 - 1, r := r,
           trace := (s.orig[i]!, consulted) :: s.trace,
           orig := (s.orig.setIfInBounds i s.orig[s.m1]!).setIfInBounds s.m1 s.orig[i]! }

/-- l.121-187, `for (i = n; i <= m1; )`; fuel `m1 - i + 1` is exact (each turn `i++` or `m1--`) -/
def pass1 (ops : DropOps K R T) (nrm : Nrm) (milu : Milu) (basic : Bool) (dropTol : T) (m : Nat) :
    Nat → Nat → DSt K R → DSt K R
  | 0, _, s => s
  | f + 1, i, s =>
    if i ≤ s.m1 then
      let t := ops.rowNorm nrm s.rows[i]!
      let s := { s with temp := s.temp.setIfInBounds i t }
      if basic && ops.ltTol t dropTol then pass1 ops nrm milu basic dropTol m f i (dropAt ops milu m s i t)
      else
        let s := { s with dmax := if s.dmax < t then t else s.dmax, dmin := if t < s.dmin then t else s.dmin }
        pass1 ops nrm milu basic dropTol m f (i + 1) s
    else s

/-- l.218-265 -/
def pass2 (ops : DropOps K R T) (milu : Milu) (tol : T) (m : Nat) : Nat → Nat → DSt K R → DSt K R
  | 0, _, s => s
  | f + 1, i, s =>
    if i ≤ s.m1 then
      if ops.leTol s.temp[i]! tol then
        let s' := dropAt ops milu m s i s.temp[i]!
        let s' := { s' with temp := s'.temp.setIfInBounds i s'.temp[s'.m1]! }
        pass2 ops milu tol m f i s'
      else pass2 ops milu tol m f (i + 1) s
    else s

/-- `quota = ceil((double)quota / (double)n)` (l.190) -/
def ceilDiv (q : Int) (n : Nat) : Int := -((-q) / (n : Int))

structure Pass2Info (R T : Type) where
  ran : Bool := false
  usedSelect : Bool := false
  usedInterp : Bool := false
  tol : Option T := none
  /-- `dwork2` after `qselect` (first `len` entries) -/
  work2 : Array R := #[]
  fuelOk : Bool := true

/-- l.189-267 -/
def secondary (ops : DropOps K R T) (rule : Rule) (milu : Milu) (quota : Int) (m n : Nat) (s : DSt K R) :
    DSt K R × Pass2Info R T :=
  let q := ceilDiv quota n
  if rule.secondary && decide (q < ((m : Int) - s.r)) then
    let tol0 : T := ops.tolOfR s.dmax
    let (tol, info) : T × Pass2Info R T :=
      if (n : Int) < q then
        if rule.interp then
          let t := ops.interp s.dmax s.dmin q ((m : Int) - n - s.r)
          (t, { ran := true, usedInterp := true, tol := some t })
        else
          let len := s.m1 + 1 - n
          let w := s.temp.extract n (n + len)
          match qselect len w (q - n) with
          | some (v, w') => (ops.tolOfR v, { ran := true, usedSelect := true, tol := some (ops.tolOfR v), work2 := w' })
          | none => (tol0, { ran := true, usedSelect := true, fuelOk := false })
      else (tol0, { ran := true, tol := some tol0 })
    (pass2 ops milu tol m (s.m1 + 1 - n) n s, info)
  else (s, {})

/-- l.278-327: the compensation of the diagonal; returns the rows and `nzp` -/
def diagFix (ops : DropOps K R T) (milu : Milu) (alpha : R) (fillTol : T) (m n : Nat) (rows : Array (Array K)) :
    Array (Array K) × Nat :=
  if milu == .silu then (rows, 0) else
  (List.range n).foldl (fun (acc : Array (Array K) × Nat) j =>
    let t := (acc.1[m - 1]!)[j]!
    if ops.isZero t then acc else
    let d := (acc.1[j]!)[j]!
    let o := ops.diagComp milu alpha fillTol d t
    (acc.1.setIfInBounds j ((acc.1[j]!).setIfInBounds j o.1), if o.2 then acc.2 + 1 else acc.2)) (rows, 0)

structure DropIn (K R T : Type) where
  rule : Rule
  milu : Milu
  nrm : Nrm
  first : Nat
  last : Nat
  dropTol : T
  quota : Int
  nnzLj : Int
  fillTol : T
  alpha : R
  lastc : Bool
  lusup : Array K
  lsub : Array Int
  xlsub : Array Int
  xlusup : Array Int

structure DropOut (K R T : Type) where
  ret : Nat
  nnzLj : Int
  fillTol : T
  nzp : Nat
  lusup : Array K
  lsub : Array Int
  xlsub : Array Int
  xlusup : Array Int
  /-- the block as rows after the loops and the diagonal compensation (all `m` rows; the first `m - ret` are kept) -/
  rows : Array (Array K)
  subs : Array Int
  st : Option (DSt K R)
  p2 : Pass2Info R T
  quick : Bool

/-- the `m x n` block as rows -/
def gather (lusup : Array K) (xf m n : Nat) : Array (Array K) :=
  (Array.range m).map fun i => (Array.range n).map fun j => lusup[xf + i + j * m]!

/-- write the rows back (column-major, leading dimension `m`) -/
def scatter (lusup : Array K) (xf m n : Nat) (rows : Array (Array K)) : Array K :=
  (List.range m).foldl (fun a i => (List.range n).foldl (fun a j => a.setIfInBounds (xf + i + j * m) (rows[i]!)[j]!) a) lusup

/-- the two loops and the diagonal compensation on the block (rows, subscripts), l.120-327 -/
def dropBlock (ops : DropOps K R T) (rule : Rule) (milu : Milu) (nrm : Nrm) (dropTol : T) (quota : Int)
    (alpha : R) (fillTol : T) (m n : Nat) (rows : Array (Array K)) (subs : Array Int) :
    DSt K R × Pass2Info R T × Array (Array K) × Nat :=
  let s0 : DSt K R := { rows := rows, subs := subs, temp := Array.replicate m ops.zeroR, m1 := m - 1, r := 0,
                        dmax := ops.zeroR, dmin := ops.oneR, orig := Array.range m }
  let s1 := pass1 ops nrm milu rule.basic dropTol m (m - n) n s0
  let (s2, info) := secondary ops rule milu quota m n s1
  if s2.r = 0 then (s2, info, s2.rows, 0) else
  let (rows', nzp) := diagFix ops milu alpha fillTol m n s2.rows
  (s2, info, rows', nzp)

/-- `ilu_[sd]drop_row` -/
def dropRow (ops : DropOps K R T) (inp : DropIn K R T) : DropOut K R T :=
  let xf := (inp.xlusup[inp.first]!).toNat
  let sf := (inp.xlsub[inp.first]!).toNat
  let m := ((inp.xlusup[inp.first + 1]!) - inp.xlusup[inp.first]!).toNat
  let n := inp.last - inp.first + 1
  let nzlc := if inp.lastc then ((inp.xlusup[inp.last + 2]!) - inp.xlusup[inp.last + 1]!).toNat else 0
  let quickOut : DropOut K R T :=
    { ret := 0, nnzLj := inp.nnzLj + m * n, fillTol := inp.fillTol, nzp := 0, lusup := inp.lusup, lsub := inp.lsub,
      xlsub := inp.xlsub, xlusup := inp.xlusup, rows := gather inp.lusup xf m n, subs := inp.lsub.extract sf (sf + m),
      st := none, p2 := {}, quick := true }
  if m = 0 ∨ m = n ∨ inp.rule.nodrop then quickOut else
  let rows0 := gather inp.lusup xf m n
  let subs0 := inp.lsub.extract sf (sf + m)
  let (s2, info, rows, nzp) := dropBlock ops inp.rule inp.milu inp.nrm inp.dropTol inp.quota inp.alpha inp.fillTol m n rows0 subs0
  let r := s2.r
  if r = 0 then { quickOut with st := some s2, p2 := info, quick := false } else
  let lusup := scatter inp.lusup xf m n rows
  let lsub := (List.range m).foldl (fun a i => a.setIfInBounds (sf + i) s2.subs[i]!) inp.lsub
  -- l.329-352
  let m1 := m - r
  let lusup := (List.range (n - 1)).foldl (fun a j0 =>
    let j := j0 + 1
    (List.range m1).foldl (fun a i => a.setIfInBounds (i + (xf + j * m1)) a[i + (xf + j * m)]!) a) lusup
  let lusup := (List.range nzlc).foldl (fun a i => a.setIfInBounds (xf + i + n * m1) a[xf + i + n * m]!) lusup
  let xl1 := inp.xlsub[inp.last + 1]!
  let lsub := (List.range nzlc).foldl (fun a i => a.setIfInBounds (xl1 - r + i).toNat a[(xl1 + i).toNat]!) lsub
  let (xlusup, xlsub) := (List.range (inp.last + 1 - inp.first)).foldl (fun (acc : Array Int × Array Int) t =>
    let i := inp.first + 1 + t
    (acc.1.setIfInBounds i (acc.1[i]! - (r : Int) * ((i : Int) - inp.first)), acc.2.setIfInBounds i (acc.2[i]! - r))) (inp.xlusup, inp.xlsub)
  let (xlusup, xlsub) := if inp.lastc then
      (xlusup.setIfInBounds (inp.last + 2) (xlusup[inp.last + 2]! - (r : Int) * n), xlsub.setIfInBounds (inp.last + 2) (xlsub[inp.last + 2]! - r))
    else (xlusup, xlsub)
  { ret := r, nnzLj := inp.nnzLj + ((m - r : Nat) : Int) * n, fillTol := if 0 < nzp then ops.negCount nzp else inp.fillTol, nzp := nzp,
    lusup := lusup, lsub := lsub, xlsub := xlsub, xlusup := xlusup, rows := rows, subs := s2.subs, st := some s2, p2 := info, quick := false }

end

/-! ### the scalar instances -/

/-- f2c.h: `#define abs(x) ((x) >= 0 ? (x) : -(x))` -/
@[inline] def f2cAbs {R : Type} [Zero R] [Neg R] [LE R] [DecidableLE R] (x : R) : R := if x ≥ 0 then x else -x

section real
variable {R : Type} [Inhabited R] [Zero R] [One R] [Neg R] [Add R] [Mul R] [Div R] [LT R] [DecidableLT R] [LE R] [DecidableLE R] [BEq R]

/-- `[sd]asum_` with a stride ≠ 1 (CBLAS/dasum.c:40-44): sequential sum of `abs` -/
def asumG (x : Array R) : R := x.foldl (fun acc v => acc + f2cAbs v) 0

/-- `i[sd]amax_` with a stride ≠ 1 (CBLAS/idamax.c:44-56), zero-based -/
def iamaxG (x : Array R) : Nat :=
  if x.size ≤ 1 then 0 else
  ((List.range (x.size - 1)).foldl (fun (acc : Nat × R) t =>
    let i := t + 1
    if f2cAbs x[i]! ≤ acc.2 then acc else (i, f2cAbs x[i]!)) (0, f2cAbs x[0]!)).1

/-- the scale/ssq loop of `[sd]nrm2_` (CBLAS/dnrm2.c:46-66) -/
def nrm2Loop (x : Array R) : R × R :=
  x.foldl (fun (acc : R × R) v =>
    if v != 0 then
      let a := f2cAbs v
      if acc.1 < a then
        let d := acc.1 / a
        (a, acc.2 * (d * d) + 1)
      else
        let d := a / acc.1
        (acc.1, acc.2 + d * d)
    else acc) (0, 1)
end real

/-- `fabs` on the C side is the IEEE sign clear -/
def opsF64 : DropOps Float Float Float :=
  { rowNorm := fun nrm x => match nrm with
      | .one => asumG x / x.size.toFloat
      | .two =>
        let nr : Float := if x.size = 0 then 0 else if x.size = 1 then f2cAbs x[0]! else
                  let ss := nrm2Loop x; ss.1 * Float.sqrt ss.2
        nr / Float.sqrt x.size.toFloat
      | .inf => Float.abs x[iamaxG x]!
    add := fun y x => y + 1.0 * x
    addAbs := fun y x => y + Float.abs x
    absK := Float.abs
    ltTol := fun a b => a < b
    leTol := fun a b => a ≤ b
    tolOfR := id
    zeroR := 0.0
    oneR := 1.0
    interp := fun dmax dmin q d =>
      let dmax := 1.0 / dmax
      let dmin := 1.0 / dmin
      1.0 / (dmax + (dmin - dmax) * Float.ofInt q / Float.ofInt d)
    diagComp := fun milu alpha fillTol d t =>
      let omega := if t > 0.0 then (let w := 2.0 * (1.0 - alpha) / t; if w < 1.0 then w else 1.0)
                   else (let w := 2.0 * (1.0 - alpha) / t; if w > -1.0 then w else -1.0)
      let t := t * omega
      match milu with
      | .smilu1 => if t != -1.0 then (d * (1.0 + t), false) else (d * fillTol, true)
      | .smilu2 => (d * (1.0 + Float.abs t), false)
      | .smilu3 => (d * (1.0 + t), false)
      | .silu => (d, false)
    isZero := fun t => t == 0.0
    negCount := fun k => -(Float.ofNat k) }

/-- the single-precision file: `temp[]`, `d_max`, `d_min`, `alpha`, `t`, `omega` are `float`; `drop_tol`, `tol`,
`*fill_tol` and every expression with a `double` literal or operand are evaluated in `double` and rounded on
assignment.  `x / (double)n` with `x` a float and `n` a small integer rounds like the float quotient
(double rounding is innocuous for one `+ - * /` or `sqrt` of float operands). -/
def opsF32 : DropOps Float32 Float32 Float :=
  { rowNorm := fun nrm x => match nrm with
      | .one => ((asumG x).toFloat / x.size.toFloat).toFloat32
      | .two =>
        let nr : Float32 := if x.size = 0 then 0 else if x.size = 1 then f2cAbs x[0]! else
                  let ss := nrm2Loop x; (ss.1.toFloat * Float.sqrt ss.2.toFloat).toFloat32
        (nr.toFloat / Float.sqrt x.size.toFloat).toFloat32
      | .inf => Float32.abs x[iamaxG x]!
    add := fun y x => y + 1.0 * x
    addAbs := fun y x => y + Float32.abs x
    absK := Float32.abs
    ltTol := fun a b => a.toFloat < b
    leTol := fun a b => a.toFloat ≤ b
    tolOfR := fun a => a.toFloat
    zeroR := 0.0
    oneR := 1.0
    interp := fun dmax dmin q d =>
      let dmax : Float32 := (1.0 / dmax.toFloat).toFloat32
      let dmin : Float32 := (1.0 / dmin.toFloat).toFloat32
      let e : Float32 := dmax + (dmin - dmax) * (Float.ofInt q).toFloat32 / (Float.ofInt d).toFloat32
      1.0 / e.toFloat
    diagComp := fun milu alpha fillTol d t =>
      let w : Float := 2.0 * (1.0 - alpha.toFloat) / t.toFloat
      let omega : Float32 := if t > 0.0 then (if w < 1.0 then w else 1.0).toFloat32
                             else (if w > -1.0 then w else -1.0).toFloat32
      let t := t * omega
      match milu with
      | .smilu1 => if t != -1.0 then (d * (1.0 + t), false) else ((d.toFloat * fillTol).toFloat32, true)
      | .smilu2 => ((d.toFloat * (1.0 + Float.abs t.toFloat)).toFloat32, false)
      | .smilu3 => (d * (1.0 + t), false)
      | .silu => (d, false)
    isZero := fun t => t == 0.0
    negCount := fun k => -(Float.ofNat k) }

/-- exact reading; `nrm2` is the 2-norm divided by `sqrt n` as the caller defines it (irrational in general) -/
def opsRat (nrm2 : Array Rat → Rat) : DropOps Rat Rat Rat :=
  { rowNorm := fun nrm x => match nrm with
      | .one => asumG x / x.size
      | .two => nrm2 x
      | .inf => rabs x[iamaxG x]!
    add := fun y x => y + x
    addAbs := fun y x => y + rabs x
    absK := rabs
    ltTol := fun a b => a < b
    leTol := fun a b => a ≤ b
    tolOfR := id
    zeroR := 0
    oneR := 1
    interp := fun dmax dmin q d =>
      let dmax := 1 / dmax
      let dmin := 1 / dmin
      1 / (dmax + (dmin - dmax) * q / d)
    diagComp := fun milu alpha fillTol d t =>
      let omega := if t > 0 then (let w := 2 * (1 - alpha) / t; if w < 1 then w else 1)
                   else (let w := 2 * (1 - alpha) / t; if w > -1 then w else -1)
      let t := t * omega
      match milu with
      | .smilu1 => if t != -1 then (d * (1 + t), false) else (d * fillTol, true)
      | .smilu2 => (d * (1 + rabs t), false)
      | .smilu3 => (d * (1 + t), false)
      | .silu => (d, false)
    isZero := fun t => t == 0
    negCount := fun k => -(k : Rat) }


/-! ### the complex files (`ilu_[cz]drop_row`) -/
section cplx
variable {R : Type} [Inhabited R] [Zero R] [One R] [Neg R] [Add R] [Mul R] [Div R] [LT R] [DecidableLT R] [LE R] [DecidableLE R] [BEq R]

/-- `dcabs1_` (CBLAS/dcabs1.c): `abs(re) + abs(im)` with f2c's `abs` -/
def cabs1F (z : Cx R) : R := f2cAbs z.re + f2cAbs z.im

/-- `dzasum_` with a stride ≠ 1 (CBLAS/dzasum.c:31-36): `stemp += dcabs1(zx)` -/
def casumG (x : Array (Cx R)) : R := x.foldl (fun acc v => acc + cabs1F v) 0

/-- `izamax_` with a stride ≠ 1 (CBLAS/izamax.c:36-48), zero-based -/
def icamaxG (x : Array (Cx R)) : Nat :=
  if x.size ≤ 1 then 0 else
  ((List.range (x.size - 1)).foldl (fun (acc : Nat × R) t =>
    let i := t + 1
    if cabs1F x[i]! ≤ acc.2 then acc else (i, cabs1F x[i]!)) (0, cabs1F x[0]!)).1

/-- the scale/ssq loop of `dznrm2_` (CBLAS/dznrm2.c:44-75): real part, then imaginary part of every entry -/
def cnrm2Loop (x : Array (Cx R)) : R × R :=
  let upd (acc : R × R) (v : R) : R × R :=
    if v != 0 then
      let a := f2cAbs v
      if acc.1 < a then
        let d := acc.1 / a
        (a, acc.2 * (d * d) + 1)
      else
        let d := a / acc.1
        (acc.1, acc.2 + d * d)
    else acc
  x.foldl (fun acc z => upd (upd acc z.re) z.im) (0, 1)
end cplx

/-- `ilu_zdrop_row` (double complex): norms `dzasum_/dznrm2_/izamax_` + `z_abs1`, `zaxpy_` with alpha = (1,0),
`.r += z_abs1`, `omega = min(2(1-alpha)/z_abs1(t), 1)`, `zd_mult / z_add / zz_mult` (slu_dcomplex.h) -/
def opsC64 : DropOps (Cx Float) Float Float :=
  { rowNorm := fun nrm x => match nrm with
      | .one => casumG x / x.size.toFloat
      | .two =>
        let nr : Float := if x.size = 0 then 0 else (let ss := cnrm2Loop x; ss.1 * Float.sqrt ss.2)
        nr / Float.sqrt x.size.toFloat
      | .inf => Mag.abs1 x[icamaxG x]!
    add := fun y x => ⟨y.re + (1.0 * x.re - 0.0 * x.im), y.im + (1.0 * x.im + 0.0 * x.re)⟩
    addAbs := fun y x => ⟨y.re + Mag.abs1 x, y.im⟩
    absK := fun x => ⟨Mag.abs1 x, 0.0⟩
    ltTol := fun a b => a < b
    leTol := fun a b => a ≤ b
    tolOfR := id
    zeroR := 0.0
    oneR := 1.0
    interp := opsF64.interp
    diagComp := fun milu alpha fillTol d t =>
      let w : Float := 2.0 * (1.0 - alpha) / Mag.abs1 t
      let omega : Float := if w < 1.0 then w else 1.0
      let t : Cx Float := ⟨t.re * omega, t.im * omega⟩
      let t1 : Cx Float := ⟨t.re + 1.0, t.im + 0.0⟩
      let zz : Cx Float := ⟨d.re * t1.re - d.im * t1.im, d.im * t1.re + d.re * t1.im⟩
      match milu with
      | .smilu1 => if !(t.re == -1.0 && t.im == 0.0) then (zz, false) else (⟨d.re * fillTol, d.im * fillTol⟩, true)
      | .smilu2 => let f : Float := 1.0 + Mag.abs1 t; (⟨d.re * f, d.im * f⟩, false)
      | .smilu3 => (zz, false)
      | .silu => (d, false)
    isZero := fun t => t.re == 0.0 && t.im == 0.0
    negCount := fun k => -(Float.ofNat k) }


/-- `ilu_cdrop_row` (single complex).  Where C promotes to `double` the model goes through `Float`:
`scasum_` adds `(double)stemp + dabs(re) + dabs(im)` in double and rounds to float once per entry (CBLAS/scasum.c:36-39),
`icamax_` compares the DOUBLE sum `dabs(re) + dabs(im)` with the float `smax` (CBLAS/icamax.c:34-43), `c_abs1` adds in
float (scomplex.c:84-93), `omega`, `* fill_tol` and `* (1.0 + c_abs1(t))` are double expressions rounded on assignment. -/
def opsC32 : DropOps (Cx Float32) Float32 Float :=
  let cabD (z : Cx Float32) : Float := (f2cAbs z.re).toFloat + (f2cAbs z.im).toFloat
  { rowNorm := fun nrm x => match nrm with
      | .one =>
        let sm : Float32 := x.foldl (fun (acc : Float32) v => ((acc.toFloat + (f2cAbs v.re).toFloat) + (f2cAbs v.im).toFloat).toFloat32) 0
        (sm.toFloat / x.size.toFloat).toFloat32
      | .two =>
        let nr : Float32 := if x.size = 0 then 0 else (let ss := cnrm2Loop x; (ss.1.toFloat * Float.sqrt ss.2.toFloat).toFloat32)
        (nr.toFloat / Float.sqrt x.size.toFloat).toFloat32
      | .inf =>
        let k : Nat := if x.size ≤ 1 then 0 else
          ((List.range (x.size - 1)).foldl (fun (acc : Nat × Float32) t =>
            let i := t + 1
            if cabD x[i]! ≤ acc.2.toFloat then acc else (i, (cabD x[i]!).toFloat32)) (0, (cabD x[0]!).toFloat32)).1
        Mag.abs1 x[k]!
    add := fun y x => ⟨y.re + (1.0 * x.re - 0.0 * x.im), y.im + (1.0 * x.im + 0.0 * x.re)⟩
    addAbs := fun y x => ⟨y.re + Mag.abs1 x, y.im⟩
    absK := fun x => ⟨Mag.abs1 x, 0.0⟩
    ltTol := fun a b => a.toFloat < b
    leTol := fun a b => a.toFloat ≤ b
    tolOfR := fun a => a.toFloat
    zeroR := 0.0
    oneR := 1.0
    interp := opsF32.interp
    diagComp := fun milu alpha fillTol d t =>
      let a1 : Float32 := Mag.abs1 t
      let w : Float := 2.0 * (1.0 - alpha.toFloat) / a1.toFloat
      let omega : Float32 := (if w < 1.0 then w else 1.0).toFloat32
      let t : Cx Float32 := ⟨t.re * omega, t.im * omega⟩
      let t1 : Cx Float32 := ⟨t.re + 1.0, t.im + 0.0⟩
      let zz : Cx Float32 := ⟨d.re * t1.re - d.im * t1.im, d.im * t1.re + d.re * t1.im⟩
      match milu with
      | .smilu1 => if !(t.re == -1.0 && t.im == 0.0) then (zz, false)
                   else (⟨(d.re.toFloat * fillTol).toFloat32, (d.im.toFloat * fillTol).toFloat32⟩, true)
      | .smilu2 =>
        let a2 : Float32 := Mag.abs1 t
        let f : Float := 1.0 + a2.toFloat
        (⟨(d.re.toFloat * f).toFloat32, (d.im.toFloat * f).toFloat32⟩, false)
      | .smilu3 => (zz, false)
      | .silu => (d, false)
    isZero := fun t => t.re == 0.0 && t.im == 0.0
    negCount := fun k => -(Float.ofNat k) }

end Slu.IluDrop
