import Slu.Gen.ArgChains
/-
C18 — the DOCUMENTED argument preconditions of the driver and computational routines, hand-written
from the header comments of SRC/[sdcz]gssv.c, gssvx.c, gsisx.c, gstrs.c, gsrfs.c, gscon.c, gsequ.c,
[sdcz]sp_blas2.c (sp_trsv, sp_gemv) and from the classes the property names (non-square or negative
dimensions, wrong Stype/Dtype/Mtype tag, leading dimension below n, option value outside its
enumeration, lwork < -1, equed letter / non-positive scale factor with pre-computed factors,
mismatched B and X).  Fidelity level S (exact, integer).

For each routine: the ordered list of (argument position, what must hold) and
`specInfo_<routine> dt a` = -(position of the first violated precondition), 0 if none.  `dt` is the
Dtype tag of the precision (SLU_S, SLU_D, SLU_C, SLU_Z).  `Args` and the enumerators come from the
generated `Slu/Gen/ArgChains.lean`; this file never looks at the generated chains.

Positions are those of the C prototypes:
  gssv   (options, A, perm_c, perm_r, L, U, B, stat, info)
  gssvx  (options, A, perm_c, perm_r, etree, equed, R, C, L, U, work, lwork, B, X, ...)   gsisx: same
  gstrs  (trans, L, U, perm_c, perm_r, B, stat, info)
  gsrfs  (trans, A, L, U, perm_c, perm_r, equed, R, C, B, X, ferr, berr, stat, info)
  gscon  (norm, L, U, anorm, rcond, stat, info)
  gsequ  (A, r, c, rowcnd, colcnd, amax, info)
  sp_trsv(uplo, trans, diag, L, U, x, stat, info)
  sp_gemv(trans, alpha, A, x, incx, beta, y, incy)
-/
namespace Slu.ArgSpec
open Slu.ArgChains

/-- one documented precondition -/
structure Pre where
  pos : Int
  what : String
  ok : Args → Bool

/-- -(position of the first violated precondition), 0 if none -/
def firstViolated : List Pre → Args → Int
  | [], _ => 0
  | p :: ps, a => if p.ok a then firstViolated ps a else -p.pos

/-- positions whose precondition is violated (all of them, in order) -/
def violated (l : List Pre) (a : Args) : List Int := (l.filter (fun p => !p.ok a)).map (·.pos)

/-! ### building blocks -/
/-- `SUPERLU_MAX(0, n)` -/
abbrev max0 (n : Int) : Int := if 0 > n then 0 else n
/-- square with a non-negative order -/
abbrev squareNonneg (r c : Int) : Prop := r = c ∧ 0 ≤ r
/-- the three type tags of a SuperMatrix -/
abbrev tags (s d m S D M : Int) : Prop := s = S ∧ d = D ∧ m = M
/-- character codes -/
abbrev chN : Int := 78
abbrev chR : Int := 82
abbrev chC : Int := 67
abbrev chB : Int := 66
abbrev chL : Int := 76
abbrev chU : Int := 85
abbrev chT : Int := 84
abbrev chI : Int := 73
abbrev chO : Int := 79
abbrev ch1 : Int := 49
abbrev lower (c : Int) : Int := c + 32

abbrev transEnumOk (t : Int) : Prop := t = NOTRANS ∨ t = TRANS ∨ t = CONJ
abbrev factorL (a : Args) (dt : Int) : Prop :=
  squareNonneg a.L_nrow a.L_ncol ∧ tags a.L_Stype a.L_Dtype a.L_Mtype SLU_SC dt SLU_TRLU
abbrev factorU (a : Args) (dt : Int) : Prop :=
  squareNonneg a.U_nrow a.U_ncol ∧ tags a.U_Stype a.U_Dtype a.U_Mtype SLU_NC dt SLU_TRU
/-- dense right-hand side / solution block with leading dimension at least max(0,n) -/
abbrev denseB (a : Args) (dt n : Int) : Prop :=
  max0 n ≤ a.B_Store_lda ∧ tags a.B_Stype a.B_Dtype a.B_Mtype SLU_DN dt SLU_GE
abbrev denseX (a : Args) (dt n : Int) : Prop :=
  max0 n ≤ a.X_Store_lda ∧ tags a.X_Stype a.X_Dtype a.X_Mtype SLU_DN dt SLU_GE

/-! ### gssv -/
def spec_gssv (dt : Int) : List Pre := [
  ⟨1, "options->Fact = DOFACT", fun a => decide (a.options_Fact = DOFACT)⟩,
  ⟨2, "A square, order >= 0, Stype NC or NR, Dtype, Mtype GE", fun a => decide (
      squareNonneg a.A_nrow a.A_ncol ∧ (a.A_Stype = SLU_NC ∨ a.A_Stype = SLU_NR) ∧ a.A_Dtype = dt ∧ a.A_Mtype = SLU_GE)⟩,
  ⟨7, "B: ncol >= 0, lda >= max(0,n), DN/Dtype/GE", fun a => decide (0 ≤ a.B_ncol ∧ denseB a dt a.A_nrow)⟩ ]
def specInfo_gssv (dt : Int) (a : Args) : Int := firstViolated (spec_gssv dt) a

/-! ### gssvx, gsisx (same documentation of the screened arguments)
"If B->ncol = 0, only LU decomposition is performed, the triangular solve is skipped": the description
of B is a precondition only when B has columns, and likewise X. -/
abbrev optionsOk (a : Args) : Prop :=
  (a.options_Fact = DOFACT ∨ a.options_Fact = SamePattern ∨ a.options_Fact = SamePattern_SameRowPerm ∨ a.options_Fact = FACTORED) ∧
  transEnumOk a.options_Trans ∧ (a.options_Equil = NO ∨ a.options_Equil = YES)
abbrev rowEquilibrated (a : Args) : Prop := a.equed_ch = chR ∨ a.equed_ch = chB
abbrev colEquilibrated (a : Args) : Prop := a.equed_ch = chC ∨ a.equed_ch = chB
def spec_gssvx (dt : Int) : List Pre := [
  ⟨1, "options: Fact, Trans, Equil inside their enumerations", fun a => decide (optionsOk a)⟩,
  ⟨2, "A square, order >= 0, Stype NC or NR, Dtype, Mtype GE", fun a => decide (
      squareNonneg a.A_nrow a.A_ncol ∧ (a.A_Stype = SLU_NC ∨ a.A_Stype = SLU_NR) ∧ a.A_Dtype = dt ∧ a.A_Mtype = SLU_GE)⟩,
  ⟨6, "Fact = FACTORED: equed is one of N R C B", fun a => decide (
      a.options_Fact = FACTORED → (a.equed_ch = chN ∨ rowEquilibrated a ∨ colEquilibrated a))⟩,
  ⟨7, "Fact = FACTORED and equed = R or B: every R[i] > 0", fun a => decide (
      a.options_Fact = FACTORED → rowEquilibrated a → 0 < a.rcmin_R)⟩,
  ⟨8, "Fact = FACTORED and equed = C or B: every C[i] > 0", fun a => decide (
      a.options_Fact = FACTORED → colEquilibrated a → 0 < a.rcmin_C)⟩,
  ⟨12, "lwork >= -1", fun a => decide (-1 ≤ a.lwork)⟩,
  ⟨13, "B: ncol >= 0 and, unless ncol = 0 (factor only, B is not examined), lda >= max(0,n), DN/Dtype/GE", fun a => decide (
      0 ≤ a.B_ncol ∧ (0 < a.B_ncol → denseB a dt a.A_nrow))⟩,
  ⟨14, "X: ncol >= 0, ncol = B->ncol unless B->ncol = 0 and, unless ncol = 0, ldx >= max(0,n), DN/Dtype/GE", fun a => decide (
      0 ≤ a.X_ncol ∧ (a.B_ncol = 0 ∨ a.B_ncol = a.X_ncol) ∧ (0 < a.X_ncol → denseX a dt a.A_nrow))⟩ ]
def specInfo_gssvx (dt : Int) (a : Args) : Int := firstViolated (spec_gssvx dt) a
def spec_gsisx (dt : Int) : List Pre := spec_gssvx dt
def specInfo_gsisx (dt : Int) (a : Args) : Int := firstViolated (spec_gsisx dt) a

/-! ### gstrs -/
def spec_gstrs (dt : Int) : List Pre := [
  ⟨1, "trans is NOTRANS, TRANS or CONJ", fun a => decide (transEnumOk a.trans)⟩,
  ⟨2, "L square, order >= 0, SC/Dtype/TRLU", fun a => decide (factorL a dt)⟩,
  ⟨3, "U square, order >= 0, NC/Dtype/TRU", fun a => decide (factorU a dt)⟩,
  ⟨6, "B: ldb >= max(0,n), DN/Dtype/GE", fun a => decide (denseB a dt a.L_nrow)⟩ ]
def specInfo_gstrs (dt : Int) (a : Args) : Int := firstViolated (spec_gstrs dt) a

/-! ### gsrfs -/
def spec_gsrfs (dt : Int) : List Pre := [
  ⟨1, "trans is NOTRANS, TRANS or CONJ", fun a => decide (transEnumOk a.trans)⟩,
  ⟨2, "A square, order >= 0, NC/Dtype/GE", fun a => decide (
      squareNonneg a.A_nrow a.A_ncol ∧ tags a.A_Stype a.A_Dtype a.A_Mtype SLU_NC dt SLU_GE)⟩,
  ⟨3, "L square, order >= 0, SC/Dtype/TRLU", fun a => decide (factorL a dt)⟩,
  ⟨4, "U square, order >= 0, NC/Dtype/TRU", fun a => decide (factorU a dt)⟩,
  ⟨10, "B: ldb >= max(0,n), DN/Dtype/GE", fun a => decide (denseB a dt a.A_nrow)⟩,
  ⟨11, "X: ldx >= max(0,n), DN/Dtype/GE", fun a => decide (denseX a dt a.A_nrow)⟩ ]
def specInfo_gsrfs (dt : Int) (a : Args) : Int := firstViolated (spec_gsrfs dt) a

/-! ### gscon -/
def spec_gscon (dt : Int) : List Pre := [
  ⟨1, "norm is '1', 'O' or 'I'", fun a => decide (a.norm_ch = ch1 ∨ a.norm_ch = chO ∨ a.norm_ch = chI)⟩,
  ⟨2, "L square, order >= 0, SC/Dtype/TRLU", fun a => decide (factorL a dt)⟩,
  ⟨3, "U square, order >= 0, NC/Dtype/TRU", fun a => decide (factorU a dt)⟩ ]
def specInfo_gscon (dt : Int) (a : Args) : Int := firstViolated (spec_gscon dt) a

/-! ### gsequ -/
def spec_gsequ (dt : Int) : List Pre := [
  ⟨1, "A: nrow >= 0, ncol >= 0, NC/Dtype/GE", fun a => decide (
      0 ≤ a.A_nrow ∧ 0 ≤ a.A_ncol ∧ tags a.A_Stype a.A_Dtype a.A_Mtype SLU_NC dt SLU_GE)⟩ ]
def specInfo_gsequ (dt : Int) (a : Args) : Int := firstViolated (spec_gsequ dt) a

/-! ### sp_trsv — the header documents upper AND lower case letters and the type tags of L and U -/
abbrev letter (c x : Int) : Prop := c = x ∨ c = lower x
def spec_sp_trsv (dt : Int) : List Pre := [
  ⟨1, "uplo is U, u, L or l", fun a => decide (letter a.uplo_ch chL ∨ letter a.uplo_ch chU)⟩,
  ⟨2, "trans is N, n, T, t, C or c", fun a => decide (letter a.trans_ch chN ∨ letter a.trans_ch chT ∨ letter a.trans_ch chC)⟩,
  ⟨3, "diag is U, u, N or n", fun a => decide (letter a.diag_ch chU ∨ letter a.diag_ch chN)⟩,
  ⟨4, "L square, order >= 0, SC/Dtype/TRLU", fun a => decide (factorL a dt)⟩,
  ⟨5, "U square, order >= 0, NC/Dtype/TRU", fun a => decide (factorU a dt)⟩ ]
def specInfo_sp_trsv (dt : Int) (a : Args) : Int := firstViolated (spec_sp_trsv dt) a
/-- where the implemented chain is known to differ from the header (see `argchain_sp_trsv_partial`):
upper-case letters only (the header also documents the lower-case letters: a LEGAL call is rejected, which is
outside C18).  The type tags of L and U are tested since "fix: sp_[sdcz]trsv, sp_[sdcz]gemv: test the documented
Stype/Dtype/Mtype" -/
abbrev sp_trsv_agrees (_dt : Int) (a : Args) : Prop :=
  a.uplo_ch ≠ lower chL ∧ a.uplo_ch ≠ lower chU ∧ a.trans_ch ≠ lower chN ∧ a.trans_ch ≠ lower chT ∧ a.trans_ch ≠ lower chC ∧
  a.diag_ch ≠ lower chU ∧ a.diag_ch ≠ lower chN

/-! ### sp_gemv — "Stype = NC or NCP; Dtype; Mtype = GE" is documented for A -/
def spec_sp_gemv (dt : Int) : List Pre := [
  ⟨1, "trans is N, n, T, t, C or c", fun a => decide (letter a.trans_ch chN ∨ letter a.trans_ch chT ∨ letter a.trans_ch chC)⟩,
  ⟨3, "A: nrow >= 0, ncol >= 0, Stype NC or NCP, Dtype, Mtype GE", fun a => decide (
      0 ≤ a.A_nrow ∧ 0 ≤ a.A_ncol ∧ (a.A_Stype = SLU_NC ∨ a.A_Stype = SLU_NCP) ∧ a.A_Dtype = dt ∧ a.A_Mtype = SLU_GE)⟩,
  ⟨5, "incx is not zero", fun a => decide (a.incx ≠ 0)⟩,
  ⟨8, "incy is not zero", fun a => decide (a.incy ≠ 0)⟩ ]
def specInfo_sp_gemv (dt : Int) (a : Args) : Int := firstViolated (spec_sp_gemv dt) a

/-! ### gsisx: where the implemented chain differs from the header (see `argchain_gsisx_partial`):
`[sdcz]gsisx` examines the description of B and X even when they have no columns, i.e. it rejects calls
the header allows (outside the scope of C18, which is about illegal arguments). -/
abbrev gsisx_agrees (dt : Int) (a : Args) : Prop :=
  (a.B_ncol = 0 → denseB a dt a.A_nrow) ∧ (a.X_ncol = 0 → denseX a dt a.A_nrow)

/-! ### what may happen ahead of the screening exit (compared with the translator's findings) -/
/-- caller objects the routine is allowed to write before it has validated its arguments: none.
`[sdcz]gssvx/gsisx` set `*equed = 'N'` when Fact != FACTORED before screening; that write is
recorded here as the one tolerated exception (equed is an output argument in that mode) and
reported as a deviation by the correspondence family (tag `equed-prewrite`). -/
def allowedPrewrites (routine : String) : List String :=
  if routine = "gssvx" ∨ routine = "gsisx" then ["*equed"] else []
/-- functions a routine may call before the screening exit (pure queries only) -/
def allowedPrecalls (routine : String) (dbl : Bool) : List String :=
  if routine = "gssvx" ∨ routine = "gsisx" then [if dbl then "dmach" else "smach"] else []

/-! ### the four precisions differ by the Dtype tag only -/
/-- shift every Dtype tag by `k` (SLU_S = 0, SLU_D = 1, SLU_C = 2, SLU_Z = 3) -/
def retag (k : Int) (a : Args) : Args :=
  { a with A_Dtype := a.A_Dtype + k, L_Dtype := a.L_Dtype + k, U_Dtype := a.U_Dtype + k,
           B_Dtype := a.B_Dtype + k, X_Dtype := a.X_Dtype + k }

/-! ### table used by the driver -/
def dtOf (ty : Char) : Int := if ty = 's' then SLU_S else if ty = 'd' then SLU_D else if ty = 'c' then SLU_C else SLU_Z
def specTable : List (String × (Int → List Pre)) := [
  ("gssv", spec_gssv), ("gssvx", spec_gssvx), ("gsisx", spec_gsisx), ("gstrs", spec_gstrs), ("gsrfs", spec_gsrfs),
  ("gscon", spec_gscon), ("gsequ", spec_gsequ), ("sp_trsv", spec_sp_trsv), ("sp_gemv", spec_sp_gemv)]

end Slu.ArgSpec
