import Slu.Model.IluDrop
/-
C15 — the dropping of U entries of the incomplete LU: `ilu_[sdcz]copy_to_ucol`
(SRC/ilu_dcopy_to_ucol.c:43-228, ilu_scopy_to_ucol.c, ilu_ccopy_to_ucol.c, ilu_zcopy_to_ucol.c likewise), level **B**
(bit mirror, statement order) for everything the routine computes; the memory growth requests
(`[sdcz]LUMemXpand`, l.110-121) are abstracted: the model assumes `nzumax` suffices (the family hands in
arrays of exactly the size the column needs).  Core Lean only.  Reuses `Slu.IluDrop.Rule`, `DropOps`
(`leTol`, `tolOfR`, `zeroR`, `interp` of CC's scalar instances) and `Slu.QSelect.qselect`.

WHAT THE CODE DOES (and the model mirrors):
 * l.91-93: `drop_rule == NODROP` => `drop_tol = -1, quota = Glu->n`;
 * l.97-160: segments `k = nseg-1 .. 0`, skipped when `supno[krep] == supno[jcol]` or `repfnz[krep] == EMPTY`;
   rows `lsub[xlsub[fsupc] + kfnz - fsupc ..+ krep-kfnz+1)`; every row: `tmp = |dense[irow]|` (`fabs`, `[cz]_abs1`),
   kept iff `quota > 0 && tmp >= drop_tol` (then `d_max/d_min` tracking, `usub[nextu] = perm_r[irow]`,
   `ucol[nextu] = dense[irow]`), else added to `*sum` (SMILU_1/2 signed, SMILU_3 `tmp`); `dense[irow] = 0` in both
   cases, so a row listed twice is read as zero the second time;
 * l.162-163: `xusub[jcol+1] = nextu`, `m` = number kept;
 * l.165-221: when `drop_rule & DROP_SECONDARY && m > quota`: `tol = d_max`; if `quota > 0`: interpolation
   (`DROP_INTERP`) or `[sd]qselect(m, work, quota)` on a copy of the kept values — in the REAL files the copy is
   `dcopy_` of the SIGNED values (the threshold is the `quota`-th largest signed value, possibly negative), in the
   complex files `work[i] = [cz]_abs1(ucol[..])`; then the sweep `for (i = x0; i <= m0;)` removing entries with
   `|ucol[i]| <= tol` by moving the last live entry into the hole (the moved entry is re-examined: no index slip
   here, unlike `ilu_?drop_row`); SMILU_3 in the COMPLEX files adds the STALE `tmp` of the first loop (the modulus
   of the last row visited there) instead of the modulus of the entry removed (ilu_zcopy_to_ucol.c:204,
   ilu_ccopy_to_ucol.c:204) — mirrored by `sec3`;
 * l.223-227: SMILU_2 `*sum = |*sum|` (complex: `(abs1, 0)`), complex SMILU_3 `sum->i = 0`; `*nnzUj += m`; return 0.
-/
namespace Slu.IluDropU
open Slu Slu.Ilu Slu.IluDrop Slu.QSelect

/-- what depends on the C types, beyond CC's `DropOps` -/
structure UOps (K R T : Type) where
  base : DropOps K R T
  /-- `tmp = fabs(x)` / `z_abs1(&x)` -/
  abs1 : K → R
  /-- `tmp >= drop_tol` -/
  geTol : R → T → Bool
  /-- `*sum += x` / `z_add(sum, sum, &x)` -/
  addK : K → K → K
  /-- `*sum += tmp` / `sum->r += tmp` -/
  addR : K → R → K
  /-- second sweep, SMILU_3: `sec3 sum entry staleTmp` -/
  sec3 : K → K → R → K
  /-- l.223: SMILU_2 -/
  fin2 : K → K
  /-- l.227 (complex files): SMILU_3 -/
  fin3 : K → K
  zeroK : K
  /-- `1.0 / [sd]mach("Safe minimum")` -/
  dminInit : R
  /-- the value `[sd]qselect` sees for an entry -/
  workOf : K → R
  /-- `drop_tol = -1.0` -/
  negOneT : T

/-- state of the first loop -/
structure S1 (K R : Type) where
  /-- `(usub, ucol)` written so far, in order -/
  kept : Array (Int × K)
  dense : Array K
  sum : K
  dmax : R
  dmin : R
  /-- the register `tmp` (stale after the loop; read by the complex second sweep) -/
  tmp : R
  /-- ghost: `(row, value)` dropped, newest first -/
  dropped : List (Nat × K) := []
  /-- ghost: `(row, value)` kept, newest first -/
  keptRows : List (Nat × K) := []

section
variable {K R T : Type} [Inhabited K] [Inhabited R] [LT R] [DecidableLT R]

/-- l.124-156 for one row -/
def step1 (ops : UOps K R T) (milu : Milu) (dropTol : T) (quota : Int) (permR : Array Int) (s : S1 K R) (irow : Nat) : S1 K R :=
  let x := s.dense[irow]!
  let tmp := ops.abs1 x
  let s' : S1 K R :=
    if decide (0 < quota) && ops.geTol tmp dropTol then
      { s with kept := s.kept.push (permR[irow]!, x), dmax := if s.dmax < tmp then tmp else s.dmax,
               dmin := if tmp < s.dmin then tmp else s.dmin, tmp := tmp, keptRows := (irow, x) :: s.keptRows }
    else
      { s with sum := (match milu with
                        | .smilu1 | .smilu2 => ops.addK s.sum x
                        | .smilu3 => ops.addR s.sum tmp
                        | .silu => s.sum),
               tmp := tmp, dropped := (irow, x) :: s.dropped }
  { s' with dense := s'.dense.setIfInBounds irow ops.zeroK }

/-- the rows of the U-segments in the order the routine visits them (l.97-108, 123-124) -/
def segRows (jcol nseg : Nat) (segrep repfnz xsup supno lsub xlsub : Array Int) : List Nat :=
  ((List.range nseg).map fun ksub =>
    let krep := (segrep[nseg - 1 - ksub]!).toNat
    let ksupno := supno[krep]!
    if ksupno != supno[jcol]! then
      let kfnz := repfnz[krep]!
      if kfnz != -1 then
        let fsupc := xsup[ksupno.toNat]!
        let isub := xlsub[fsupc.toNat]! + kfnz - fsupc
        let segsze := ((krep : Int) - kfnz + 1).toNat
        (List.range segsze).map fun (i : Nat) => (lsub[(isub + (i : Int)).toNat]!).toNat
      else []
    else []).flatten

/-- state of the second sweep: the `m` slots `ucol/usub[x0 .. x0+m)`, `cnt = m0 - x0 + 1` live ones -/
structure S2 (K : Type) where
  a : Array (Int × K)
  cnt : Nat
  sum : K
  /-- ghost: entries removed, newest first -/
  removed : List (Int × K) := []

/-- l.195-220: `for (i = x0; i <= m0; )`, fuel `cnt - i` -/
def sweep (ops : UOps K R T) (milu : Milu) (tol : T) (tmp : R) : Nat → Nat → S2 K → S2 K
  | 0, _, s => s
  | f + 1, i, s =>
    if i < s.cnt then
      let e := s.a[i]!
      if ops.base.leTol (ops.abs1 e.2) tol then
        let sum := match milu with
          | .smilu1 | .smilu2 => ops.addK s.sum e.2
          | .smilu3 => ops.sec3 s.sum e.2 tmp
          | .silu => s.sum
        sweep ops milu tol tmp f i { a := s.a.setIfInBounds i s.a[s.cnt - 1]!, cnt := s.cnt - 1, sum := sum, removed := e :: s.removed }
      else sweep ops milu tol tmp f (i + 1) s
    else s

structure UIn (K R T : Type) where
  jcol : Nat
  nseg : Nat
  segrep : Array Int
  repfnz : Array Int
  permR : Array Int
  dense : Array K
  rule : Rule
  milu : Milu
  dropTol : T
  quota : Int
  nnzUj : Int
  /-- `Glu->n` -/
  n : Nat
  xsup : Array Int
  supno : Array Int
  lsub : Array Int
  xlsub : Array Int
  ucol : Array K
  usub : Array Int
  xusub : Array Int
  work : Array R

structure UOut (K R T : Type) where
  ucol : Array K
  usub : Array Int
  xusub : Array Int
  dense : Array K
  sum : K
  nnzUj : Int
  work : Array R
  /-- number of entries after the first loop -/
  m1 : Nat
  /-- number of entries kept -/
  cnt : Nat
  s1 : S1 K R
  s2 : S2 K
  tol : Option T
  path : String
  fuelOk : Bool

/-- first loop on the list of rows -/
def pass1 (ops : UOps K R T) (milu : Milu) (dropTol : T) (quota : Int) (permR : Array Int) (dense : Array K) (rows : List Nat) : S1 K R :=
  rows.foldl (step1 ops milu dropTol quota permR)
    { kept := #[], dense := dense, sum := ops.zeroK, dmax := ops.base.zeroR, dmin := ops.dminInit, tmp := ops.base.zeroR }

/-- l.165-221: threshold of the second rule; `(tol, work afterwards, path, fuel flag)` -/
def secTol (ops : UOps K R T) (rule : Rule) (quota : Int) (n : Nat) (s1 : S1 K R) (work : Array R) : T × Array R × String × Bool :=
  let m := s1.kept.size
  let tol0 := ops.base.tolOfR s1.dmax
  if 0 < quota then
    if rule.interp then (ops.base.interp s1.dmax s1.dmin quota m, work, "interp", true)
    else
      let vals : Array R := s1.kept.map fun e => ops.workOf e.2
      let w : Array R := if m ≤ n then (List.range m).foldl (fun w i => w.setIfInBounds i vals[i]!) work else vals
      match qselect m w quota with
      | some (v, w') => (ops.base.tolOfR v, if m ≤ n then w' else work, "select", true)
      | none => (tol0, work, "select", false)
  else (tol0, work, "dmax", true)

/-- what the two rules decide, without the storage: the routine on the list `rows` of the rows its U-segments list
(l.91-93 and l.123-221).  `(state of the first loop, state after the second sweep, threshold of the second rule if it
ran, work afterwards, path tag, fuel flag)` -/
def dropCore (ops : UOps K R T) (rule : Rule) (milu : Milu) (dropTol0 : T) (quota0 : Int) (n : Nat) (permR : Array Int)
    (dense : Array K) (work : Array R) (rows : List Nat) : S1 K R × S2 K × Option T × Array R × String × Bool :=
  let dropTol := if rule.nodrop then ops.negOneT else dropTol0
  let quota : Int := if rule.nodrop then n else quota0
  let s1 := pass1 ops milu dropTol quota permR dense rows
  let m := s1.kept.size
  if rule.secondary && decide (quota < (m : Int)) then
    let r := secTol ops rule quota n s1 work
    (s1, sweep ops milu r.1 s1.tmp m 0 { a := s1.kept, cnt := m, sum := s1.sum }, some r.1, r.2.1, r.2.2.1, r.2.2.2)
  else (s1, { a := s1.kept, cnt := m, sum := s1.sum }, none, work, "first", true)

/-- l.223-227 -/
def finSum (ops : UOps K R T) (milu : Milu) (s : K) : K :=
  match milu with
  | .smilu2 => ops.fin2 s
  | .smilu3 => ops.fin3 s
  | _ => s

/-- `ilu_[sdcz]copy_to_ucol` (return value 0: capacity suffices) -/
def copyToUcol (ops : UOps K R T) (inp : UIn K R T) : UOut K R T :=
  let rows := segRows inp.jcol inp.nseg inp.segrep inp.repfnz inp.xsup inp.supno inp.lsub inp.xlsub
  let c := dropCore ops inp.rule inp.milu inp.dropTol inp.quota inp.n inp.permR inp.dense inp.work rows
  let s1 := c.1
  let s2 := c.2.1
  let x0 := (inp.xusub[inp.jcol]!).toNat
  let m := s1.kept.size
  let ucol := (List.range m).foldl (fun a i => a.setIfInBounds (x0 + i) (s2.a[i]!).2) inp.ucol
  let usub := (List.range m).foldl (fun a i => a.setIfInBounds (x0 + i) (s2.a[i]!).1) inp.usub
  { ucol := ucol, usub := usub, xusub := inp.xusub.setIfInBounds (inp.jcol + 1) ((x0 + s2.cnt : Nat) : Int),
    dense := s1.dense, sum := finSum ops inp.milu s2.sum, nnzUj := inp.nnzUj + s2.cnt, work := c.2.2.2.1, m1 := m, cnt := s2.cnt, s1 := s1,
    s2 := s2, tol := c.2.2.1, path := c.2.2.2.2.1, fuelOk := c.2.2.2.2.2 }

end

/-! ### scalar instances -/

def uopsF64 : UOps Float Float Float :=
  { base := opsF64, abs1 := Float.abs, geTol := fun a b => a ≥ b, addK := fun s x => s + x, addR := fun s t => s + t,
    sec3 := fun s x _ => s + Float.abs x, fin2 := Float.abs, fin3 := id, zeroK := 0.0,
    dminInit := Float.ofBits 0x7FD0000000000000, workOf := id, negOneT := -1.0 }

/-- the single-precision file: `tmp`, `drop_tol`, `tol` are `double`; `d_max`, `d_min`, `*sum` are `float` (a double
sum of two floats rounded to float is the float sum) -/
def uopsF32 : UOps Float32 Float32 Float :=
  { base := opsF32, abs1 := Float32.abs, geTol := fun a b => a.toFloat ≥ b, addK := fun s x => s + x, addR := fun s t => s + t,
    sec3 := fun s x _ => s + Float32.abs x, fin2 := Float32.abs, fin3 := id, zeroK := 0.0,
    dminInit := Float32.ofBits 0x7E800000, workOf := id, negOneT := -1.0 }

def uopsC64 : UOps (Cx Float) Float Float :=
  { base := opsC64, abs1 := Mag.abs1, geTol := fun a b => a ≥ b, addK := fun s x => ⟨s.re + x.re, s.im + x.im⟩,
    addR := fun s t => ⟨s.re + t, s.im⟩, sec3 := fun s _ t => ⟨s.re + t, s.im⟩, fin2 := fun s => ⟨Mag.abs1 s, 0.0⟩,
    fin3 := fun s => ⟨s.re, 0.0⟩, zeroK := ⟨0.0, 0.0⟩, dminInit := Float.ofBits 0x7FD0000000000000, workOf := Mag.abs1,
    negOneT := -1.0 }

def uopsC32 : UOps (Cx Float32) Float32 Float :=
  { base := opsC32, abs1 := Mag.abs1, geTol := fun a b => a.toFloat ≥ b, addK := fun s x => ⟨s.re + x.re, s.im + x.im⟩,
    addR := fun s t => ⟨s.re + t, s.im⟩, sec3 := fun s _ t => ⟨s.re + t, s.im⟩, fin2 := fun s => ⟨Mag.abs1 s, 0.0⟩,
    fin3 := fun s => ⟨s.re, 0.0⟩, zeroK := ⟨0.0, 0.0⟩, dminInit := Float32.ofBits 0x7E800000, workOf := Mag.abs1,
    negOneT := -1.0 }

/-- exact reading of the real files (`dminInit` is a parameter: any positive bound) -/
def uopsRat (nrm2 : Array Rat → Rat) (dmin0 : Rat) : UOps Rat Rat Rat :=
  { base := opsRat nrm2, abs1 := rabs, geTol := fun a b => decide (b ≤ a), addK := fun s x => s + x, addR := fun s t => s + t,
    sec3 := fun s x _ => s + rabs x, fin2 := rabs, fin3 := id, zeroK := 0, dminInit := dmin0, workOf := id, negOneT := -1 }

end Slu.IluDropU
