import Slu.Scalar
/-
C12 — model of the reverse-communication 1-norm estimator `[sdcz]lacon2_` and of the `[sdcz]gscon`
loop built on it (fidelity B: bit mirror of SRC/dlacon2.c:88-235, slacon2.c, zlacon2.c:88-232,
clacon2.c, dgscon.c:117-169 / zgscon.c:117-163), plus the rcond / norm glue of `[sdcz]gssvx`
(dgssvx.c:483-497 storage flip, 568-579 norm selection, 647-651 warning).

The routine is a state machine: the caller keeps `(kase, isave[0..2], est, x, v, isgn)` between
calls and overwrites `x` by `A*x` (kase = 1) or `A'*x` (kase = 2).  `step` is one call.  Everything
that differs between the four precisions (the BLAS-1 kernels with *their* summation order, the
sign / normalisation step, the promoted-to-double sub-expressions of the single precision files)
is collected in a record `Prim K R`, so that the control flow is written once, executed at
`Float`, `Float32`, `Cx Float`, `Cx Float32` (compared bit-for-bit with the C code, every
reverse-communication state) and reasoned about at `Rat` (SluProofs/Props/C12.lean).

BLAS-1 kernels mirrored (the library is built with the bundled CBLAS):
 * CBLAS/dasum.c: clean-up loop of `n % 6` terms, then groups of six added left to right into the
   same accumulator — a plain left-to-right sum in double;
 * CBLAS/sasum.c: the same text with `dabs(x) = (doublereal)abs(x)`: the clean-up loop rounds to
   float after every term, each group of six is accumulated **in double** and rounded once;
 * CBLAS/idamax.c, isamax.c: first index of the strict maximum of `abs(x) = x >= 0 ? x : -x`;
 * SRC/dzsum1.c, scsum1.c: left-to-right sum of `z_abs` / `c_abs` (dcomplex.c:62, scomplex.c:62);
 * SRC/izmax1.c, icmax1.c: first strict maximum of `fabs(re)` (the imaginary part is ignored).
-/
namespace Slu.Lacon
open Slu

/-- precision-dependent primitives of `lacon2` -/
structure Prim (K R : Type) where
  /-- `x[i] = 1. / (double)(*n)` -/
  ninv : Nat → K
  zero : K
  one : K
  /-- `fabs(v[0])` resp. `z_abs(&v[0])` (the `n == 1` exit) -/
  absEst : K → R
  /-- `dasum_` / `sasum_` / `dzsum1_slu` / `scsum1_slu` -/
  asum : Array K → R
  /-- `idamax_ - 1` / `izmax1_slu - 1` (0-based) -/
  imax : Array K → Nat
  /-- `d_sign(one, x)` resp. `x / |x|` guarded by `safmin` -/
  sgn : K → K
  /-- `i_dnnt(d_sign(one, x))` -/
  sgnI : K → Int
  /-- the real files test for a repeated sign vector, the complex files do not (zlacon2.c:180-184) -/
  signTest : Bool
  /-- `x[jlast] != fabs(x[j])` resp. `x[jlast].r != fabs(x[j].r)` -/
  neqLast : K → K → Bool
  /-- `altsgn * ((double)(i) / (double)(n - 1) + 1.)`, `i` 0-based -/
  alt : Nat → Nat → K
  /-- `asum / (double)(n * 3) * 2.` -/
  fin : R → Nat → R

/-- everything the caller keeps between two calls -/
structure St (K R : Type) where
  kase : Nat
  jump : Nat          -- isave[0]
  j : Nat             -- isave[1] (0-based)
  iter : Nat          -- isave[2]
  est : R
  x : Array K
  v : Array K
  isgn : Array Int

variable {K R : Type} [LT R] [DecidableLT R] [LE R] [DecidableLE R]

/-- `L50`: `x = e_j`, ask for `A*x` -/
def toL50 (P : Prim K R) (s : St K R) (j iter : Nat) : St K R :=
  { s with j := j, iter := iter,
           x := (Array.replicate s.x.size P.zero).setIfInBounds j P.one, kase := 1, jump := 3 }

/-- `L120`: the alternating-sign vector, ask for `A*x` -/
def toL120 (P : Prim K R) (s : St K R) : St K R :=
  { s with x := (Array.range s.x.size).map (P.alt s.x.size), kase := 1, jump := 5 }

/-- `L20` tail / `L90` tail: replace `x` by its sign vector, remember it, ask for `A'*x` -/
def toSign (P : Prim K R) (s : St K R) (jump : Nat) : St K R :=
  { s with x := s.x.map P.sgn, isgn := if P.signTest then s.x.map P.sgnI else s.isgn,
           kase := 2, jump := jump }

/-- one call of `lacon2_` (n = `s.x.size`).  A `switch (isave[0])` without `default` falls through
to `L20`, hence the last branch. -/
def step (P : Prim K R) (s : St K R) : St K R :=
  let n := s.x.size
  if s.kase = 0 then
    { s with x := Array.replicate n (P.ninv n), kase := 1, jump := 1 }
  else if s.jump = 2 then
    toL50 P s (P.imax s.x) 2
  else if s.jump = 3 then
    let s1 : St K R := { s with v := s.x, est := P.asum s.x }
    if P.signTest && (List.range n).all (fun i => P.sgnI (s.x.getD i P.zero) == s.isgn.getD i 0) then
      toL120 P s1
    else if s1.est ≤ s.est then toL120 P s1
    else toSign P s1 4
  else if s.jump = 4 then
    let jlast := s.j
    let j := P.imax s.x
    if P.neqLast (s.x.getD jlast P.zero) (s.x.getD j P.zero) && s.iter < 5 then toL50 P s j (s.iter + 1)
    else toL120 P { s with j := j }
  else if s.jump = 5 then
    let temp := P.fin (P.asum s.x) n
    if temp > s.est then { s with v := s.x, est := temp, kase := 0 } else { s with kase := 0 }
  else
    if n = 1 then
      { s with v := s.v.setIfInBounds 0 (s.x.getD 0 P.zero), est := P.absEst (s.x.getD 0 P.zero), kase := 0 }
    else toSign P { s with est := P.asum s.x } 2

/-- the caller's loop: call, stop on `kase = 0`, otherwise overwrite `x` by `T x` (kase 1) or
`Tt x` (kase 2) and call again; `fuel` bounds the number of calls (12 always suffice, see
`lacon_terminates`). -/
def run (P : Prim K R) (T Tt : Array K → Array K) : Nat → St K R → St K R
  | 0, s => s
  | fuel + 1, s =>
    let s' := step P s
    if s'.kase = 0 then s' else run P T Tt fuel { s' with x := (if s'.kase = 1 then T else Tt) s'.x }

/-- state before the first call (`kase = 0`; the other fields are not read by the first call) -/
def init (P : Prim K R) (n : Nat) (est0 : R) : St K R :=
  { kase := 0, jump := 0, j := 0, iter := 0, est := est0,
    x := Array.replicate n P.zero, v := Array.replicate n P.zero, isgn := Array.replicate n 0 }

/-- number of `lacon2_` calls that always suffices (1 start + 1 + 1 + 4*(2) + 1) -/
def maxCalls : Nat := 12

/-- `[sdcz]gscon` after argument screening: the estimator driven by the triangular solves
(`solveN` = inv(U) inv(L), `solveT` = inv(L') inv(U')), then `rcond = (1/ainvnm)/anorm`. -/
def gscon [Div R] [BEq R] (P : Prim K R) (zeroR oneR : R) (onenrm : Bool)
    (solveN solveT : Array K → Array K) (n : Nat) (anorm : R) : R :=
  if n = 0 then oneR else
  -- kase == kase1 (1 for the one norm, 2 for the infinity norm) selects the non-transposed solves
  let T := if onenrm then solveN else solveT
  let Tt := if onenrm then solveT else solveN
  let ainvnm := (run P T Tt maxCalls (init P n zeroR)).est
  if ainvnm != zeroR then (oneR / ainvnm) / anorm else zeroR

/-! ### glue of `[sdcz]gssvx` -/

/-- `Trans` option -/
inductive Trans | N | T | C
deriving DecidableEq, Repr, Inhabited

def Trans.ofString (s : String) : Trans := if s = "N" then .N else if s = "T" then .T else .C

/-- dgssvx.c:483-497: a row-stored A is handed on as the column-stored A' and the transpose
argument is reversed; returns `(trant, notran)` as used by the rest of the driver. -/
def effTrans (rowStored : Bool) (t : Trans) : Trans × Bool :=
  if rowStored then (if t = .N then (.T, false) else (.N, true))
  else (t, t = .N)

/-- dgssvx.c:571-575: the norm handed to `langs` and `gscon` -/
def normChar (rowStored : Bool) (t : Trans) : Char := if (effTrans rowStored t).2 then '1' else 'I'

/-- dgssvx.c:647-651: `if (*rcond < dmach("E")) *info = A->ncol + 1;` (info was 0) -/
def warnInfo (rcond eps : R) (n : Nat) : Nat := if rcond < eps then n + 1 else 0

/-! ### the four executable instances and the exact one -/

/-- f2c.h: `#define abs(x) ((x) >= 0 ? (x) : -(x))` -/
@[inline] def f2cAbs {R : Type} [OfNat R 0] [LE R] [DecidableLE R] [Neg R] (x : R) : R := if x ≥ 0 then x else -x

/-- first index of the strict maximum of `key` (idamax_/isamax_/izmax1/icmax1, increment 1) -/
def imaxBy {K R : Type} [LE R] [DecidableLE R] (key : K → R) (dflt : K) (x : Array K) : Nat :=
  ((List.range (x.size - 1)).foldl (fun (bm : Nat × R) i =>
      let a := key (x.getD (i + 1) dflt)
      if a ≤ bm.2 then bm else (i + 1, a)) (0, key (x.getD 0 dflt))).1

/-- CBLAS/dasum.c -/
def asumD (x : Array Float) : Float := x.foldl (fun acc a => acc + f2cAbs a) 0

/-- CBLAS/sasum.c -/
def asumS (x : Array Float32) : Float32 :=
  let n := x.size
  let m := n % 6
  let a (i : Nat) : Float := (f2cAbs (x.getD i 0)).toFloat
  let st : Float32 := (List.range m).foldl (fun acc i => (acc.toFloat + a i).toFloat32) 0
  if m ≠ 0 ∧ n < 6 then st else
  (List.range ((n - m) / 6)).foldl (fun acc g =>
    let b := m + 6 * g
    (acc.toFloat + a b + a (b + 1) + a (b + 2) + a (b + 3) + a (b + 4) + a (b + 5)).toFloat32) st

/-- `i_dnnt(d_sign(one, x))`: `x >= 0 ? 1 : -1` -/
def sgnIOf {R : Type} [OfNat R 0] [LE R] [DecidableLE R] (x : R) : Int := if x ≥ 0 then 1 else -1

def primD : Prim Float Float where
  ninv n := 1.0 / Float.ofNat n
  zero := 0
  one := 1
  absEst := Float.abs
  asum := asumD
  imax := imaxBy (fun a : Float => f2cAbs a) 0
  sgn x := if x ≥ 0 then 1.0 else -1.0
  sgnI := sgnIOf
  signTest := true
  neqLast a b := a != Float.abs b
  alt n i := (if i % 2 = 0 then 1.0 else -1.0) * (Float.ofNat i / Float.ofNat (n - 1) + 1.0)
  fin t n := t / Float.ofNat (n * 3) * 2.0

/-- slacon2.c is the `sed` image of dlacon2.c: literals such as `1.`, `2.` stay double, so the
sub-expressions that contain them are evaluated in double and rounded on assignment -/
def primS : Prim Float32 Float32 where
  ninv n := (1.0 / (Float32.ofNat n).toFloat).toFloat32
  zero := 0
  one := 1
  absEst := Float32.abs
  asum := asumS
  imax := imaxBy (fun a : Float32 => f2cAbs a) 0
  sgn x := if x ≥ 0 then 1.0 else -1.0
  sgnI := sgnIOf
  signTest := true
  neqLast a b := a != Float32.abs b
  alt n i := ((if i % 2 = 0 then 1.0 else -1.0) *
    ((Float32.ofNat i / Float32.ofNat (n - 1)).toFloat + 1.0)).toFloat32
  fin t n := ((t / Float32.ofNat (n * 3)).toFloat * 2.0).toFloat32

/-- dcomplex.c:62 `z_abs` -/
def zabsD (z : Cx Float) : Float :=
  let re := if z.re < 0 then -z.re else z.re
  let im := if z.im < 0 then -z.im else z.im
  let (re, im) := if im > re then (im, re) else (re, im)
  if re + im == re then re else
  let t := im / re
  re * Float.sqrt (1.0 + t * t)

/-- scomplex.c:62 `c_abs`: `temp = real*sqrt(1.0 + temp*temp)` is evaluated in double -/
def zabsS (z : Cx Float32) : Float32 :=
  let re := if z.re < 0 then -z.re else z.re
  let im := if z.im < 0 then -z.im else z.im
  let (re, im) := if im > re then (im, re) else (re, im)
  if re + im == re then re else
  let t := im / re
  (re.toFloat * Float.sqrt (1.0 + (t * t).toFloat)).toFloat32

def primZ (safmin : Float) : Prim (Cx Float) Float where
  ninv n := ⟨1.0 / Float.ofNat n, 0⟩
  zero := ⟨0, 0⟩
  one := ⟨1, 0⟩
  absEst := zabsD
  asum x := x.foldl (fun acc a => acc + zabsD a) 0
  imax := imaxBy (fun a : Cx Float => Float.abs a.re) ⟨0, 0⟩
  sgn x := let d := zabsD x
    if d > safmin then let d1 := 1 / d; ⟨x.re * d1, x.im * d1⟩ else ⟨1, 0⟩
  sgnI _ := 0
  signTest := false
  neqLast a b := a.re != Float.abs b.re
  alt n i := ⟨(if i % 2 = 0 then 1.0 else -1.0) * (Float.ofNat i / Float.ofNat (n - 1) + 1.0), 0⟩
  fin t n := t / Float.ofNat (n * 3) * 2.0

def primC (safmin : Float32) : Prim (Cx Float32) Float32 where
  ninv n := ⟨(1.0 / (Float32.ofNat n).toFloat).toFloat32, 0⟩
  zero := ⟨0, 0⟩
  one := ⟨1, 0⟩
  absEst := zabsS
  asum x := x.foldl (fun acc a => acc + zabsS a) 0
  imax := imaxBy (fun a : Cx Float32 => Float32.abs a.re) ⟨0, 0⟩
  sgn x := let d := zabsS x
    if d > safmin then let d1 := 1 / d; ⟨x.re * d1, x.im * d1⟩ else ⟨1, 0⟩
  sgnI _ := 0
  signTest := false
  neqLast a b := a.re != Float32.abs b.re
  alt n i := ⟨((if i % 2 = 0 then 1.0 else -1.0) *
    ((Float32.ofNat i / Float32.ofNat (n - 1)).toFloat + 1.0)).toFloat32, 0⟩
  -- `scsum1_slu` returns double: the division by `(float)(n*3)` is a double division
  fin t n := (t.toFloat / (Float32.ofNat (n * 3)).toFloat * 2.0).toFloat32

/-- exact real instance (what the theorems are about) -/
def primQ : Prim Rat Rat where
  ninv n := 1 / (n : Rat)
  zero := 0
  one := 1
  absEst := rabs
  asum x := x.foldl (fun acc a => acc + rabs a) 0
  imax := imaxBy (fun a : Rat => rabs a) 0
  sgn x := if x ≥ 0 then 1 else -1
  sgnI := sgnIOf
  signTest := true
  neqLast a b := a != rabs b
  alt n i := (if i % 2 = 0 then 1 else -1) * ((i : Rat) / ((n - 1 : Nat) : Rat) + 1)
  fin t n := t / ((n * 3 : Nat) : Rat) * 2

/-- exact complex instance with the magnitude `|re| + |im|` standing for the modulus (the modulus is
irrational; the theorems only use the laws `Lawful` which both magnitudes satisfy) -/
def primQC : Prim (Cx Rat) Rat where
  ninv n := ⟨1 / (n : Rat), 0⟩
  zero := ⟨0, 0⟩
  one := ⟨1, 0⟩
  absEst z := rabs z.re + rabs z.im
  asum x := x.foldl (fun acc a => acc + (rabs a.re + rabs a.im)) 0
  imax := imaxBy (fun a : Cx Rat => rabs a.re) ⟨0, 0⟩
  sgn x := let d := rabs x.re + rabs x.im
    if d > 0 then ⟨x.re / d, x.im / d⟩ else ⟨1, 0⟩
  sgnI _ := 0
  signTest := false
  neqLast a b := a.re != rabs b.re
  alt n i := ⟨(if i % 2 = 0 then 1 else -1) * ((i : Rat) / ((n - 1 : Nat) : Rat) + 1), 0⟩
  fin t n := t / ((n * 3 : Nat) : Rat) * 2

end Slu.Lacon
