import Slu.Model.LU
import Slu.Model.Ilu
/-
C15 — the incomplete LU factorization as a whole (`[sdcz]gsitrf`), specification level.  Core Lean only.

`iluFactor` is the column loop of SRC/dgsitrf.c in EXACT arithmetic, written on the pattern of
`Slu.LU.luFactor` (Slu/Model/LU.lean): vectors are indexed by ORIGINAL row number, the row permutation is
the pivot list, `L[k]` is column k of L (1 at its pivot row), `U[j]` holds `u_0j .. u_jj`.

For column j (`colStep`):
 1. forward elimination by the previous (already dropped) L columns — `Slu.LU.elim`, reused unchanged.
    All multipliers `u_0j .. u_(j-1)j` are computed and USED for the update before anything is dropped
    (dgsitrf.c: [sdcz]panel_bmod / column_bmod run before ilu_[sdcz]copy_to_ucol);
 2. the DROP ORACLE `dropU` says which of the multipliers are not stored in U(:,j)
    (ilu_dcopy_to_ucol.c:121-147 first rule `|u| < drop_tol`, l.163-221 secondary rule by quota / qselect);
 3. the dropped values are accumulated into `drop_sum` according to the MILU mode
    (ilu_dcopy_to_ucol.c:132-145, 196-207, 223: SILU nothing; SMILU_1 the signed sum; SMILU_2 the modulus of
    the signed sum; SMILU_3 the sum of the moduli) and damped: `drop_sum *= omega` (dgsitrf.c:549-558;
    `omega` is a parameter function of the column and the raw sum — any function);
 4. the pivot is chosen by the EXISTING `iluPivotChoice` (Slu/Model/Ilu.lean, the bit mirror of
    ilu_[sdcz]pivotL.c): candidates = the rows of `order j` that are not yet pivot rows, with the
    eligibility flag `elig j r` (`marker_relax[r] <= j`), threshold `u`, remembered row, diagonal row,
    replacement value `fillTol j`, the MILU mode and the damped `drop_sum`;
 5. the value left at the pivot (`pivVal`: the eliminated value, or `fill_tol` when the column maximum is
    zero, or the MILU-reset value) is stored at the pivot row and the column is scaled by its reciprocal —
    what `iluApply` does to the candidate list, done here on the whole vector (rows that are not listed in
    `order j` are scaled too, exactly as in `Slu.LU.step`); `ilu_apply_matches_colStep` (Props/C15.lean)
    proves that `iluApply` on the candidate list leaves exactly the stored pivot and the entries of this
    vector.
After column j (`lStep`) the second oracle acts on the FINISHED columns 0..j (ilu_[sdcz]drop_row, called
per supernode from dgsitrf.c:372-383 and 588-627): `dropL` zeroes entries of L below the unit diagonal
(the oracle cannot touch `L(piv t, t) = 1`: the routine starts below the diagonal block,
ilu_ddrop_row.c:124), `diagMul` multiplies diagonal entries of U (the MILU compensation of the dropped rows,
ilu_ddrop_row.c:262-300: `*= 1+t`, `*= 1+|t|`, `*= fill_tol`).

WHAT IS AN ORACLE: which entries are dropped (both rules of copy_to_ucol, both rules of drop_row, the
norms, quotas, dynamic tolerances, qselect) and the factors `diagMul`.  ANY oracle is allowed, including
"drop nothing" (`noDrop`).  WHAT IS NOT MODELLED: supernodes and relaxed supernodes as storage (they leave
no trace in exact arithmetic: Props/C02.lean, schedule independence), panels, the symbolic factorization
on the dropped structure, memory expansion, `iinfo` contributions of drop_row (`nzp`).

`E` is GHOST state: column k of the error matrix `E = L̃·Ũ − Pr·A·Pc`, written from the oracle's
choices only (never read by the factorization):
  * when column j is finished:  `E(i,j) = − Σ_{t dropped from U(:,j)} u_tj · L̃(i,t)
                                          + [i = pivot row of j] · (stored pivot − eliminated value)`;
  * when `lStep` drops `L(i,t)` and scales `U(k,k)` by `f_k`:
        `E(i,k) += − Σ_{t ≤ k, (i,t) dropped} U(t,k) · L(i,t)  +  (f_k − 1) · U(k,k) · L̃(i,k)`.
(The error of a dropped U entry is a multiple of a whole L column, not a single entry: the library computes
the complete column first and drops when it stores.)  `SluProofs/Props/C15.lean` proves
`L̃·Ũ = Pr·A·Pc + E` entrywise for every oracle (`iluFactor_identity_with_error`) and `E = 0`,
`iluFactor = luFactor` when nothing is dropped and no pivot is replaced.

The model STOPS (`fail := j+1`) at a column where the policy returns no pivot position, or the row it
returns is not a free row `< m`, or the value left at the pivot has magnitude zero (the routine would
divide by zero).  Theorem `iluFactor_udiag_nonzero` shows that none of this happens when every column has
an eligible candidate row.
-/
namespace Slu.Ilu
open Slu Slu.LU

/-- how the scalar type enters `ilu_[sdcz]pivotL` / `ilu_[sdcz]copy_to_ucol`: `drop_sum` seen as an
increment of magnitudes, the embedding of a real (replacement value, modulus), the MILU_2/3 reset
increment `sgn(pivot) * drop_sum` -/
structure Flavour (K R : Type) where
  dsOf : K → R
  ofR : R → K
  resetInc : K → K → K

/-- the real routines (`realPivotG`) -/
def realFlavour {R : Type} [Zero R] [One R] [Neg R] [Mul R] [LE R] [DecidableLE R] : Flavour R R :=
  { dsOf := id, ofR := id, resetInc := fun ds v => sgnG v * ds }

/-- the complex routines (`complexPivotG`); `t` stands for the modulus used by `z_sgn` -/
def complexFlavour {R : Type} [Zero R] [One R] [Add R] [Sub R] [Mul R] [Div R] [BEq R]
    (t : Cx R → R) : Flavour (Cx R) R :=
  { dsOf := fun d => d.re, ofR := fun r => ⟨r, 0⟩, resetInc := fun ds v => sgnCG t v * ds }

structure IluParams (K R : Type) where
  m : Nat
  n : Nat
  /-- column j of `A*Pc` as a length-m vector -/
  col : Nat → Vec K
  /-- diag_pivot_thresh -/
  u : R
  /-- candidate row order of column j -/
  order : Nat → List Nat
  /-- iperm_r[j] (read while `usepr`) -/
  oldPiv : Nat → Nat
  /-- iperm_c[j] -/
  diagRow : Nat → Nat
  milu : Milu
  /-- `amax[j] * fill_tol(j)` (dgsitrf.c:561-568): the value that replaces a zero pivot of column j -/
  fillTol : Nat → R
  /-- `marker_relax[r] <= j` -/
  elig : Nat → Nat → Bool
  /-- the damping factor of dgsitrf.c:549-558 as a function of the column and the raw sum -/
  omega : Nat → K → R

/-- the complete-LU parameters with the same matrix, threshold, candidate order, remembered and diagonal rows -/
def IluParams.toLU {K R : Type} (P : IluParams K R) : LU.Params K R :=
  { m := P.m, n := P.n, col := P.col, u := P.u, order := P.order, oldPiv := P.oldPiv, diagRow := P.diagRow }

structure IluSt (K : Type) where
  piv : Array Nat := #[]
  L : Array (Vec K) := #[]
  U : Array (Array K) := #[]
  /-- ghost: column k of `L̃Ũ − Pr A Pc`, indexed by original row -/
  E : Array (Vec K) := #[]
  usepr : Bool := false
  /-- return value of the pivot routine, per column -/
  rets : Array Nat := #[]
  /-- 0, or j+1 when the model stopped at column j -/
  fail : Nat := 0
deriving Inhabited

/-- the factors as a complete-LU state -/
def IluSt.toLU {K : Type} (st : IluSt K) : LU.St K :=
  { piv := st.piv, L := st.L, U := st.U, usepr := st.usepr, info := st.fail }

/-- `info` of `[sdcz]gsitrf` as far as the pivot routine contributes: the number of replaced pivots -/
def IluSt.iinfo {K : Type} (st : IluSt K) : Nat := replaceCount st.rets.toList

/-- level O: the dropping rules.  Every field is an arbitrary function of the state and the column data. -/
structure DropOracle (K : Type) where
  /-- `dropU st j w us t`: multiplier `u_tj` (position t of `us`) is not stored in U(:,j) -/
  dropU : IluSt K → Nat → Vec K → List K → Nat → Bool
  /-- `dropL st j t i`: after column j, entry `L(i,t)` (t ≤ j) is zeroed (ignored when `i = piv t`) -/
  dropL : IluSt K → Nat → Nat → Nat → Bool
  /-- `diagMul st j k`: after column j, `U(k,k)` is multiplied by this factor -/
  diagMul : IluSt K → Nat → Nat → K

/-- dropping disabled -/
def noDrop {K : Type} [One K] : DropOracle K :=
  { dropU := fun _ _ _ _ _ => false, dropL := fun _ _ _ _ => false, diagMul := fun _ _ _ => 1 }

section lists
variable {K : Type} [Zero K]

/-- the multipliers that are stored: dropped positions zeroed -/
def keepU (us : List K) (d : Nat → Bool) : List K := us.zipIdx.map fun x => if d x.2 then 0 else x.1

/-- the multipliers that are dropped: kept positions zeroed -/
def dropdU (us : List K) (d : Nat → Bool) : List K := us.zipIdx.map fun x => if d x.2 then x.1 else 0

/-- the dropped values, in order -/
def droppedVals (us : List K) (d : Nat → Bool) : List K := (us.zipIdx.filter fun x => d x.2).map (·.1)

/-- `Σ_t us[t] * Ls[t](i)` (the shape of `Slu.LU.dotL`) -/
def edot [Add K] [Mul K] (us : List K) (Ls : List (Nat × Vec K)) (i : Nat) : K :=
  (List.zipWith (fun u (pl : Nat × Vec K) => u * pl.2.get i) us Ls).sum
end lists

section factor
variable {K R : Type} [Inhabited K] [Mag K R] [Zero K] [One K] [Add K] [Sub K] [Mul K] [Div K]
variable [Zero R] [One R] [Neg R] [Add R] [Mul R] [LT R] [DecidableLT R] [LE R] [DecidableLE R] [BEq R]

/-- `*sum` on exit of ilu_[sdcz]copy_to_ucol -/
def rawSum (F : Flavour K R) (milu : Milu) (dropped : List K) : K :=
  match milu with
  | .silu => 0
  | .smilu1 => dropped.sum
  | .smilu2 => F.ofR (Mag.abs1 dropped.sum)
  | .smilu3 => (dropped.map fun v => F.ofR (Mag.abs1 v)).sum

/-- `drop_sum` as passed to the pivot routine (dgsitrf.c:549-558: `drop_sum *= omega`) -/
def dropSumOf (F : Flavour K R) (P : IluParams K R) (j : Nat) (dropped : List K) : K :=
  let raw := rawSum F P.milu dropped
  Mag.rscale raw (P.omega j raw)

/-- candidate rows of column j: the rows of `order j` that are not yet pivot rows -/
def iluCands (P : IluParams K R) (piv : Array Nat) (j : Nat) (w : Vec K) : List (Cand K) :=
  ((P.order j).filter (fun r => !(piv.contains r))).map fun r => { row := r, val := w.get r, elig := P.elig j r }

/-- first free eligible row (ilu_dpivotL.c:166-168; `swap[jcol..]` are the free rows) -/
def iluFreeRow (P : IluParams K R) (piv : Array Nat) (j : Nat) : Option Nat :=
  (List.range P.m).find? fun r => !(piv.contains r) && P.elig j r

/-- the argument record of `ilu_[sdcz]pivotL` for column j -/
def iluPivIn (P : IluParams K R) (piv : Array Nat) (usepr : Bool) (j : Nat) (w : Vec K) (dsum : K) : PivIn K R :=
  { jcol := j, u := P.u, usepr := usepr, pivrowIn := P.oldPiv j, diagind := P.diagRow j,
    cands := iluCands P piv j w, fillTol := P.fillTol j, milu := P.milu, dropSum := dsum,
    freeRow := iluFreeRow P piv j }

/-- the pivot decision for column j -/
def iluPivOut (F : Flavour K R) (P : IluParams K R) (piv : Array Nat) (usepr : Bool) (j : Nat) (w : Vec K) (dsum : K) : PivOut K :=
  iluPivotChoice (iluPivIn P piv usepr j w dsum) (fun p => P.u * p) (F.dsOf dsum) F.ofR (F.resetInc dsum)

/-- one column of the incomplete factorization (steps 1-5 of the header) -/
def colStep (F : Flavour K R) (P : IluParams K R) (drop : DropOracle K) (st : IluSt K) (j : Nat) : IluSt K :=
  if st.fail ≠ 0 then st else
  let prev : List (Nat × Vec K) := (List.range j).map fun k => (st.piv.getD k 0, st.L.getD k #[])
  let (w, us) := elim prev (P.col j)
  let d := drop.dropU st j w us
  let dsum := dropSumOf F P j (droppedVals us d)
  let o := iluPivOut F P st.piv st.usepr j w dsum
  let p := o.pivrow
  let pv := o.pivVal
  if o.pos.isNone || st.piv.contains p || decide (P.m ≤ p) || (Mag.abs1 pv : R) == 0 then
    { st with fail := j + 1, usepr := false, rets := st.rets.push o.ret }
  else
  let temp : K := 1 / pv
  let l : Vec K := (w.setIfInBounds p pv).map (· * temp)
  let e : Vec K := (Array.range P.m).map fun i => (if i = p then pv - w.get p else 0) - edot (dropdU us d) prev i
  { piv := st.piv.push p, L := st.L.push l, U := st.U.push ((keepU us d ++ [pv]).toArray), E := st.E.push e,
    usepr := o.usepr, rets := st.rets.push o.ret, fail := 0 }

/-- the row dropping of ilu_[sdcz]drop_row after column j: zero entries of the finished L columns, scale
diagonal entries of U, record the change of `L̃Ũ` in `E` -/
def lStep (drop : DropOracle K) (st : IluSt K) (j : Nat) : IluSt K :=
  if st.fail ≠ 0 then st else
  let dl (t i : Nat) : Bool := drop.dropL st j t i && !(i == st.piv.getD t 0)
  let f := drop.diagMul st j
  let L' : Array (Vec K) := st.L.mapIdx fun t l => l.mapIdx fun i x => if dl t i then 0 else x
  let U' : Array (Array K) := st.U.mapIdx fun k uc => uc.mapIdx fun t x => if t = k then x * f k else x
  let E' : Array (Vec K) := st.E.mapIdx fun k e => e.mapIdx fun i x =>
    x - ((List.range (k + 1)).map fun t =>
          if dl t i then (st.U.getD k #[]).getD t 0 * (st.L.getD t #[]).get i else 0).sum
      + (f k - 1) * (st.U.getD k #[]).getD k 0 * (L'.getD k #[]).get i
  { st with L := L', U := U', E := E' }

/-- the state after the first `j` columns -/
def iluRun (F : Flavour K R) (P : IluParams K R) (drop : DropOracle K) (usepr : Bool) (j : Nat) : IluSt K :=
  (List.range j).foldl (fun st j => lStep drop (colStep F P drop st j) j) { usepr := usepr }

/-- `[sdcz]gsitrf` at specification level -/
def iluFactor (F : Flavour K R) (P : IluParams K R) (drop : DropOracle K) (usepr : Bool) : IluSt K :=
  iluRun F P drop usepr P.n

/-! ### the complete LU driven by the ILU pivot policy -/

/-- one column of a COMPLETE LU (`Slu.LU.step`) whose pivot is chosen by `iluPivotChoice` with
`drop_sum = 0`: nothing dropped, nothing compensated; a nonzero return of the policy stops the
factorization as `Slu.LU.step` does -/
def luStepIluPivot (F : Flavour K R) (P : IluParams K R) (st : LU.St K) (j : Nat) : LU.St K :=
  if st.info ≠ 0 then st else
  let prev : List (Nat × Vec K) := (List.range j).map fun k => (st.piv.getD k 0, st.L.getD k #[])
  let (w, us) := elim prev (P.col j)
  let o := iluPivOut F P st.piv st.usepr j w 0
  if o.ret ≠ 0 then { st with info := o.ret, usepr := false } else
  let p := o.pivrow
  let piv := w.get p
  let temp : K := 1 / piv
  let l : Vec K := w.map (· * temp)
  { piv := st.piv.push p, L := st.L.push l, U := st.U.push ((us ++ [piv]).toArray), usepr := o.usepr, info := 0 }

def luFactorIluPivot (F : Flavour K R) (P : IluParams K R) (usepr : Bool) : LU.St K :=
  (List.range P.n).foldl (luStepIluPivot F P) { usepr := usepr }

end factor

end Slu.Ilu
