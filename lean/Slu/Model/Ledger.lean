/-
C19 — allocation ledger of the documented API lifecycle, and the growth protocol of the subscript
arrays (core Lean only).  Fidelity level: S (symbolic, exact counts).

Part 1 (`Ledger`).  The state is the multiset of live *library-allocated* blocks, each tagged with
the object the caller was handed (or counted in `temp` when it is internal to a running call).  The
per-API effects mirror, in malloc mode (`lwork = 0`) unless `ws` is set:
  * `[sdcz]Create_CompCol/CompRow_Matrix`, `Create_Dense_Matrix`   SRC/[sdcz]util.c: 1 block (Store)
  * `StatInit/StatFree`                                             SRC/util.c:368-372, 428-433: 3 blocks
  * `sp_preorder`                                                   SRC/sp_preorder.c:92-99: Store+colbeg+colend
  * `[sdcz]gstrf`                                                   SRC/dgstrf.c:255-467, SRC/dmemory.c:190-349:
        expanders, iwork, dwork, xplore, xprune, iperm_c, relax_end (+ iperm_r) are call-internal;
        on return with info in 0..n the caller owns L (Store + 6 arrays) and U (Store + 3 arrays);
        on the early returns (lwork = -1 query, out of space info > n) it owns nothing;
        with `SamePattern_SameRowPerm` the storage of L and U is reused;
  * `[sdcz]gssv`   SRC/dgssv.c:183-236:   (NR input: AA + its Store), etree, the permuted view, gstrf, gstrs
  * `[sdcz]gssvx`, `[sdcz]gsisx`  SRC/dgssvx.c:480-700: the same plus the four Fact modes and the
        singular / out-of-space / query exits (SRC/dgssvx.c:546-559)
  * `Destroy_*`  SRC/util.c:128-207.
The *specification* written here releases every internal block on every exit; the correspondence
check (`Slu.Drv.Lifecycle`) compares `liveCount` with the harness' `led_live_blocks(1)` after every
operation, so an exit path of the C code that forgets a block shows up at that operation.

Part 2 (`Grow`).  The check-then-expand protocol of the subscript array `lsub`:
  * append   `lsub[nextl++] = krow; if (nextl >= nzlmax) expand`      SRC/dsnode_dfs.c:86-93, dcolumn_dfs.c:137-143
  * copyTail `new_next = nextl + len; while (new_next >= nzlmax) expand; copy` SRC/dsnode_dfs.c:99-113
  * compress (reclaim after a closed supernode)                          SRC/dcolumn_dfs.c:253-266
and of `ucol/usub` (`while (new_next > nzumax) expand; copy`, SRC/dcopy_to_ucol.c:78-88).
Expansion either fails (the routine returns) or yields a strictly larger capacity
(SRC/dmemory.c `dexpand`: `new_len > prev_len`).
-/
namespace Slu.Ledger

/-! ## Part 1: the ledger -/

/-- objects the caller can hold; `h` distinguishes instances -/
inductive Obj where
  | mat (h : Nat)              -- Store of a compressed-column/row SuperMatrix
  | dense (h : Nat)            -- Store of a dense SuperMatrix
  | stat (h : Nat)             -- SuperLUStat_t arrays
  | acview (h : Nat)           -- permuted-column view made by sp_preorder
  | facL (h : Nat) (ws : Bool) -- L factor (ws: arrays live in the caller's work buffer)
  | facU (h : Nat) (ws : Bool)
deriving DecidableEq, Repr

/-- number of library blocks that make up an object -/
def Obj.blocks : Obj → Nat
  | .mat _ => 1
  | .dense _ => 1
  | .stat _ => 3
  | .acview _ => 3
  | .facL _ ws => if ws then 1 else 7
  | .facU _ ws => if ws then 1 else 4

/-! ### What each object consists of, as access paths

`Obj.blocks` above is a count.  The table below names the blocks: for every object the caller can be handed, the
pointer fields reachable from it, where each pointer comes from, which routine builds the object and which routine
is documented to release it.  It is compared with the TEXT of the constructing and releasing routines on every run
(`tools/ownscan.py` -> `Slu/Gen/Ownership.lean`, theorems `destroy_frees_what_is_owned`,
`constructors_allocate_what_is_owned` of Props/C19.lean), and with the counts (`blocks_eq_library_paths`).
Sources: SRC/util.c:128-207 (Destroy_*), 360-372, 428-433 (StatInit/StatFree); SRC/[sdcz]util.c:38-160 (Create_*);
SRC/sp_preorder.c:86-99; SRC/[sdcz]gstrf.c:436-460 (L and U are headers around Glu's arrays);
SRC/[sdcz]memory.c:190-349 ([sdcz]LUMemInit fills Glu), 437-450 ([sdcz]LUWorkFree).
Documented SuperLU behaviour recorded here: `[sdcz]Create_*_Matrix` allocate only the `Store` header and keep the
caller's arrays; `Destroy_CompCol_Matrix` etc. free those arrays as well (the matrix takes them over), while
`Destroy_SuperMatrix_Store` frees the header only - the releaser for L and U whose arrays live in the caller's work
area (`lwork > 0`). -/

/-- where a pointer stored in an object comes from -/
inductive Origin where
  | lib                      -- a block the constructing routine allocates itself: a library block, counted in `Obj.blocks`
  | caller (arg : String)    -- the caller's array, handed in as parameter `arg`; the object takes it over (its releaser frees it)
  | glu (field : String)     -- `Glu->field`: obtained by [sdcz]LUMemInit from the allocator / the growable storage (a library block
                             -- under library allocation, a piece of the caller's work area when `lwork > 0`)
  | view (src : String)      -- a pointer into ANOTHER object (access path `src`): not owned, never released through this object
deriving DecidableEq, Repr

structure PathSpec where
  path : String              -- `Store`, `Store->nzval`, `ops`, ...
  origin : Origin
deriving DecidableEq, Repr

/-- one way of building an object, and the routine documented to release what was built -/
structure ObjSpec where
  name : String
  ctors : List (String × String)   -- (constructing routine, parameter that receives the object)
  releaser : String
  releaserParam : String
  workArea : Bool := false         -- the `glu` arrays are pieces of the caller's work area: not library blocks, not released
  paths : List PathSpec
deriving DecidableEq, Repr

/-- the four precisions of a routine family: `fourPrec "" "gstrf"` = sgstrf, dgstrf, cgstrf, zgstrf -/
def fourPrec (pre post : String) : List String := ["s", "d", "c", "z"].map fun p => pre ++ p ++ post

def PathSpec.isOwned (ws : Bool) (p : PathSpec) : Bool :=
  match p.origin with
  | .lib => true
  | .caller _ => true
  | .glu _ => !ws
  | .view _ => false

def PathSpec.isLibrary (ws : Bool) (p : PathSpec) : Bool :=
  match p.origin with
  | .lib => true
  | .glu _ => !ws
  | _ => false

/-- **the blocks the specification says the object owns**: exactly what its documented releaser must free -/
def specOwned (s : ObjSpec) : List String := (s.paths.filter (PathSpec.isOwned s.workArea)).map (·.path)

/-- the owned blocks that the library allocated (the others were the caller's arrays, taken over) -/
def specLibrary (s : ObjSpec) : List String := (s.paths.filter (PathSpec.isLibrary s.workArea)).map (·.path)

def compColPaths (val ind ptr : Origin) : List PathSpec :=
  [⟨"Store", .lib⟩, ⟨"Store->nzval", val⟩, ⟨"Store->rowind", ind⟩, ⟨"Store->colptr", ptr⟩]

/-- column-compressed matrix made by `[sdcz]Create_CompCol_Matrix(A, .., nzval, rowind, colptr, ..)` -/
def specCompCol : ObjSpec :=
  { name := "CompCol", ctors := (fourPrec "" "Create_CompCol_Matrix").map (·, "A"),
    releaser := "Destroy_CompCol_Matrix", releaserParam := "A",
    paths := compColPaths (.caller "nzval") (.caller "rowind") (.caller "colptr") }

/-- row-compressed matrix made by `[sdcz]Create_CompRow_Matrix(A, .., nzval, colind, rowptr, ..)` -/
def specCompRow : ObjSpec :=
  { name := "CompRow", ctors := (fourPrec "" "Create_CompRow_Matrix").map (·, "A"),
    releaser := "Destroy_CompRow_Matrix", releaserParam := "A",
    paths := [⟨"Store", .lib⟩, ⟨"Store->nzval", .caller "nzval"⟩, ⟨"Store->colind", .caller "colind"⟩, ⟨"Store->rowptr", .caller "rowptr"⟩] }

/-- dense matrix made by `[sdcz]Create_Dense_Matrix(X, m, n, x, ldx, ..)` -/
def specDense : ObjSpec :=
  { name := "Dense", ctors := (fourPrec "" "Create_Dense_Matrix").map (·, "X"),
    releaser := "Destroy_Dense_Matrix", releaserParam := "A",
    paths := [⟨"Store", .lib⟩, ⟨"Store->nzval", .caller "x"⟩] }

/-- the arrays of a `SuperLUStat_t` (the struct itself is the caller's) -/
def specStat : ObjSpec :=
  { name := "Stat", ctors := [("StatInit", "stat")], releaser := "StatFree", releaserParam := "stat",
    paths := [⟨"panel_histo", .lib⟩, ⟨"utime", .lib⟩, ⟨"ops", .lib⟩] }

/-- the permuted-column view AC = A*Pc made by `sp_preorder`: shares A's values and row indices -/
def specPermuted : ObjSpec :=
  { name := "CompCol_Permuted", ctors := [("sp_preorder", "AC")], releaser := "Destroy_CompCol_Permuted", releaserParam := "A",
    paths := [⟨"Store", .lib⟩, ⟨"Store->colbeg", .lib⟩, ⟨"Store->colend", .lib⟩,
              ⟨"Store->nzval", .view "A->Store->nzval"⟩, ⟨"Store->rowind", .view "A->Store->rowind"⟩] }

def superNodePaths (f : String → Origin) : List PathSpec :=
  [⟨"Store", .lib⟩, ⟨"Store->nzval", f "nzval"⟩, ⟨"Store->nzval_colptr", f "nzval_colptr"⟩, ⟨"Store->rowind", f "rowind"⟩,
   ⟨"Store->rowind_colptr", f "rowind_colptr"⟩, ⟨"Store->col_to_sup", f "col_to_sup"⟩, ⟨"Store->sup_to_col", f "sup_to_col"⟩]

/-- supernodal matrix made by a direct call of `[sdcz]Create_SuperNode_Matrix` (public, not a ledger event of its own) -/
def specSuperNode : ObjSpec :=
  { name := "SuperNode", ctors := (fourPrec "" "Create_SuperNode_Matrix").map (·, "L"),
    releaser := "Destroy_SuperNode_Matrix", releaserParam := "A", paths := superNodePaths .caller }

/-- which array of `GlobalLU_t` each array of the L factor is ([sdcz]gstrf.c:447-450) -/
def gluOfL : String → Origin
  | "nzval" => .glu "lusup" | "nzval_colptr" => .glu "xlusup" | "rowind" => .glu "lsub"
  | "rowind_colptr" => .glu "xlsub" | "col_to_sup" => .glu "supno" | _ => .glu "xsup"

/-- the L factor returned by `[sdcz]gstrf` / `[sdcz]gsitrf` (and the drivers that call them) -/
def specL (ws : Bool) : ObjSpec :=
  { name := if ws then "L (work area)" else "L", ctors := (fourPrec "" "gstrf" ++ fourPrec "" "gsitrf").map (·, "L"),
    releaser := if ws then "Destroy_SuperMatrix_Store" else "Destroy_SuperNode_Matrix", releaserParam := "A",
    workArea := ws, paths := superNodePaths gluOfL }

/-- the U factor -/
def specU (ws : Bool) : ObjSpec :=
  { name := if ws then "U (work area)" else "U", ctors := (fourPrec "" "gstrf" ++ fourPrec "" "gsitrf").map (·, "U"),
    releaser := if ws then "Destroy_SuperMatrix_Store" else "Destroy_CompCol_Matrix", releaserParam := "A",
    workArea := ws, paths := compColPaths (.glu "ucol") (.glu "usub") (.glu "xusub") }

/-- the ways an object of the ledger can have been built -/
def Obj.specs : Obj → List ObjSpec
  | .mat _ => [specCompCol, specCompRow]
  | .dense _ => [specDense]
  | .stat _ => [specStat]
  | .acview _ => [specPermuted]
  | .facL _ ws => [specL ws]
  | .facU _ ws => [specU ws]

def allSpecs : List ObjSpec :=
  [specCompCol, specCompRow, specDense, specStat, specPermuted, specSuperNode, specL false, specL true, specU false, specU true]

structure State where
  live : List Obj := []     -- one entry per live block handed to the caller, tagged with its object
  temp : Nat := 0           -- live blocks internal to the running call
  dfree : Nat := 0          -- frees of blocks that were not live (double / foreign frees)
  handed : List Obj := []   -- objects the caller currently holds
deriving Repr

def State.liveCount (s : State) : Nat := s.live.length + s.temp

/-- the library allocates the blocks of `o` and hands it to the caller -/
def allocObj (o : Obj) (s : State) : State :=
  { s with live := List.replicate o.blocks o ++ s.live, handed := o :: s.handed }

/-- the caller destroys `o`: all its blocks are freed; missing ones are counted as double frees -/
def releaseObj (o : Obj) (s : State) : State :=
  { s with live := s.live.filter (fun x => x != o),
           dfree := s.dfree + (o.blocks - s.live.count o),
           handed := s.handed.filter (fun x => x != o) }

/-- `k` call-internal blocks around `f` (allocated before, freed after) -/
def withTemp (k : Nat) (f : State → State) (s : State) : State :=
  let s1 := f { s with temp := s.temp + k }
  { s1 with temp := s1.temp - k, dfree := s1.dfree + (k - s1.temp) }

inductive Out where | ok | singular | oos | query
deriving DecidableEq, Repr
inductive Fact where | dofact | samePattern | sameRowPerm | factored
deriving DecidableEq, Repr

/-- documented API events, with the outcome the call had -/
inductive Op where
  | createMat (h : Nat) | createDense (h : Nat) | statInit (h : Nat)
  | getPermC
  | preorder (h : Nat)
  | gstrf (h : Nat) (fact : Fact) (ws : Bool) (out : Out)
  | gstrs | gsrfs | gscon | querySpace
  | gssv (h : Nat) (nr : Bool) (out : Out)
  | gssvx (h : Nat) (nr : Bool) (fact : Fact) (ws : Bool) (out : Out)   -- also gsisx
  | destroy (o : Obj)
deriving Repr

/-- allocation effect of the factorization kernel (`[sdcz]gstrf` / `[sdcz]gsitrf`) -/
def gstrfEffect (h : Nat) (fact : Fact) (ws : Bool) (out : Out) : State → State :=
  withTemp 1 fun s =>            -- Glu->expanders (dmemory.c:206)
    match out with
    | .query => s                -- dLUMemInit returns the estimate (dmemory.c:214-217)
    | .oos => withTemp 9 id s    -- work arrays and the L/U arrays obtained so far: all released
    | _ => withTemp 6 (fun s =>  -- iwork, dwork, xplore, xprune, iperm_c, relax_end
        if fact = .sameRowPerm then s else allocObj (.facU h ws) (allocObj (.facL h ws) s)) s

def step (s : State) : Op → State
  | .createMat h => allocObj (.mat h) s
  | .createDense h => allocObj (.dense h) s
  | .statInit h => allocObj (.stat h) s
  | .getPermC => withTemp 8 id s
  | .preorder h => withTemp 4 (allocObj (.acview h)) s
  | .gstrf h fact ws out => gstrfEffect h fact ws out s
  | .gstrs => withTemp 2 id s
  | .gsrfs => withTemp 5 id s
  | .gscon => withTemp 2 id s
  | .querySpace => s
  | .gssv h nr out =>
      withTemp (if nr then 2 else 0) (withTemp 1 (withTemp 3 fun s =>
        let s := gstrfEffect h .dofact false out s
        if out = .ok then withTemp 2 id s else s)) s
  | .gssvx h nr fact ws out =>
      withTemp (if nr then 2 else 0) (fun s =>
        if fact = .factored then withTemp 2 id s
        else withTemp 3 (fun s =>
          let s := gstrfEffect h fact ws out s
          if out = .ok then withTemp 2 id s else s) s) s
  | .destroy o => releaseObj o s

def run (s : State) (ops : List Op) : State := ops.foldl step s

/-- what the documentation requires of the caller before each call -/
def documented (s : State) : Op → Bool
  | .createMat h => !s.handed.contains (.mat h)
  | .createDense h => !s.handed.contains (.dense h)
  | .statInit h => !s.handed.contains (.stat h)
  | .preorder h => !s.handed.contains (.acview h)
  | .gstrf h fact ws _ =>
      if fact = .sameRowPerm then s.handed.contains (.facL h ws) && s.handed.contains (.facU h ws)
      else fact != .factored && !s.handed.contains (.facL h ws) && !s.handed.contains (.facU h ws)
  | .gssv h _ out => out != .query && !s.handed.contains (.facL h false) && !s.handed.contains (.facU h false)
  | .gssvx h _ fact ws out =>
      if fact = .sameRowPerm || fact = .factored then
        s.handed.contains (.facL h ws) && s.handed.contains (.facU h ws) && (fact != .factored || out = .ok)
      else !s.handed.contains (.facL h ws) && !s.handed.contains (.facU h ws)
  | .destroy o => s.handed.contains o
  | _ => true

/-- a lifecycle made as documented: every call meets its precondition in the state it is made in -/
def documentedAll : State → List Op → Bool
  | _, [] => true
  | s, op :: rest => documented s op && documentedAll (step s op) rest

/-! ## Part 2: growth protocol of a growable array -/
namespace Grow

structure G where
  next : Nat
  cap : Nat
  failed : Bool := false
deriving Repr, DecidableEq

/-- one write: (index written, capacity at that moment) -/
abbrev Write := Nat × Nat

/-- outcome of one expansion request: `none` = allocation failed, `some d` = capacity grows by d+1 -/
abbrev Grant := Option Nat

/-- expand until `need < cap` (strict = true, lsub) or `need ≤ cap` (strict = false, ucol/usub) -/
def growUntil (strict : Bool) (need : Nat) : Nat → List Grant → Option Nat
  | cap, gs =>
    if (if strict then need < cap else need ≤ cap) then some cap else
    match gs with
    | [] => none
    | none :: _ => none
    | some d :: rest => growUntil strict need (cap + d + 1) rest

inductive GOp where
  | append (g : Grant)                       -- lsub[nextl++] = krow; if (nextl >= nzlmax) expand
  | copyTail (len : Nat) (gs : List Grant)   -- pruning copy of dsnode_dfs.c:99-113
  | compress (drop keep : Nat)               -- dcolumn_dfs.c:253-266: `keep` entries move down by `drop`
deriving Repr

def writesRange (start len cap : Nat) : List Write := (List.range len).map fun i => (start + i, cap)

/-- one protocol step: new state and the writes it performed -/
def gstep (g : G) : GOp → G × List Write
  | .append gr =>
    if g.failed then (g, []) else
    let w := [(g.next, g.cap)]
    let n1 := g.next + 1
    if n1 ≥ g.cap then
      match gr with
      | none => ({ g with next := n1, failed := true }, w)
      | some d => ({ g with next := n1, cap := g.cap + d + 1 }, w)
    else ({ g with next := n1 }, w)
  | .copyTail len gs =>
    if g.failed then (g, []) else
    match growUntil true (g.next + len) g.cap gs with
    | none => ({ g with failed := true }, [])
    | some c => ({ g with next := g.next + len, cap := c }, writesRange g.next len c)
  | .compress drop keep =>
    if g.failed then (g, []) else
    let d := min drop g.next
    let k := min keep (g.next - d)
    ({ g with next := g.next - d }, writesRange (g.next - d - k) k g.cap)

def grun (g : G) : List GOp → G × List Write
  | [] => (g, [])
  | op :: rest =>
    let (g1, w1) := gstep g op
    let (g2, w2) := grun g1 rest
    (g2, w1 ++ w2)

/-- the pre-fix loop test of dsnode_dfs.c (`while (new_next > nzlmax)`), kept to show what the
invariant excludes (defect D8) -/
def gstepOld (g : G) : GOp → G × List Write
  | .copyTail len gs =>
    if g.failed then (g, []) else
    match growUntil false (g.next + len) g.cap gs with
    | none => ({ g with failed := true }, [])
    | some c => ({ g with next := g.next + len, cap := c }, writesRange g.next len c)
  | op => gstep g op

/-- `ucol/usub` protocol: reserve `len` slots (`while (new_next > nzumax) expand`), then write them -/
def reserve (g : G) (len : Nat) (gs : List Grant) : G × List Write :=
  if g.failed then (g, []) else
  match growUntil false (g.next + len) g.cap gs with
  | none => ({ g with failed := true }, [])
  | some c => ({ g with next := g.next + len, cap := c }, writesRange g.next len c)

end Grow
end Slu.Ledger
