import Slu.Proto
import Slu.Scalar
/-
Sparse storage formats of SuperLU (SRC/supermatrix.h) as plain data, their mathematical reading
(dense views) and their decoding from the line protocol.  Fidelity S (exact, integer).

* `CSC`   = NCformat (column compressed; an NRformat matrix is the CSC of its transpose)
* `SNode` = SCformat (supernodal L with the diagonal blocks of U stored in the same rectangles)
* `decodeL`, `decodeU` : the matrices that `[sdcz]gstrs`, `sp_[sdcz]trsv`, `[sdcz]PivotGrowth`
  read out of an (L, U) pair (SRC/dgstrs.c:158-250, SRC/dsp_blas2.c:140-260).
-/
namespace Slu

structure CSC (K : Type) where
  m : Nat
  n : Nat
  colptr : Array Nat
  rowind : Array Nat
  val : Array K
deriving Inhabited

namespace CSC
variable {K : Type} [Inhabited K]

/-- stored entries of column `j`, in storage order, as (row, value) -/
def col (A : CSC K) (j : Nat) : List (Nat × K) :=
  (List.range (A.colptr[j+1]! - A.colptr[j]!)).map fun d => (A.rowind[A.colptr[j]! + d]!, A.val[A.colptr[j]! + d]!)

/-- all stored entries (row, col, value), column-major -/
def entries (A : CSC K) : List (Nat × Nat × K) :=
  (List.range A.n).flatMap fun j => (A.col j).map fun (i, v) => (i, j, v)

/-- mathematical entry (i,j): the sum of the stored entries at that position (0 if none) -/
def get [Zero K] [Add K] (A : CSC K) (i j : Nat) : K :=
  (A.col j).foldl (fun acc (r, v) => if r = i then acc + v else acc) 0

def nnz (A : CSC K) : Nat := A.colptr[A.n]!

/-- structural well-formedness of column-compressed storage -/
def wf (A : CSC K) : Bool :=
  A.colptr.size = A.n + 1 && A.colptr[0]! = 0 &&
  (List.range A.n).all (fun j => A.colptr[j]! ≤ A.colptr[j+1]!) &&
  A.colptr[A.n]! ≤ A.rowind.size && A.colptr[A.n]! ≤ A.val.size &&
  (List.range (A.colptr[A.n]!)).all (fun k => A.rowind[k]! < A.m)

/-- transpose (as a new CSC, rows sorted) -/
def transpose (A : CSC K) : CSC K :=
  let es := A.entries
  let cols : List (List (Nat × K)) := (List.range A.m).map fun i => (es.filter (fun e => e.1 = i)).map fun e => (e.2.1, e.2.2)
  let colptr := cols.foldl (fun (acc : Array Nat) c => acc.push (acc.back! + c.length)) #[0]
  { m := A.n, n := A.m, colptr := colptr, rowind := (cols.flatMap (·.map (·.1))).toArray, val := (cols.flatMap (·.map (·.2))).toArray }

def mapVal {K' : Type} (A : CSC K) (f : K → K') : CSC K' :=
  { m := A.m, n := A.n, colptr := A.colptr, rowind := A.rowind, val := A.val.map f }

/-- decode `<pfx>.dims`, `<pfx>.colptr`, `<pfx>.rowind` and values decoded by `dec` from `<pfx>.val` -/
def ofCase (c : Case) (pfx : String) (dec : Array UInt64 → Array K) : CSC K :=
  let d := c.nat (pfx ++ ".dims")
  { m := d[0]!, n := d[1]!, colptr := c.nat (pfx ++ ".colptr"), rowind := c.nat (pfx ++ ".rowind"), val := dec (c.raw (pfx ++ ".val")) }
end CSC

/-- SCformat: supernodal L, with U's diagonal blocks in the upper triangles of the rectangles -/
structure SNode (K : Type) where
  m : Nat
  n : Nat
  nsuper : Nat               -- number of supernodes minus one (as in the C struct)
  xsup : Array Nat           -- sup_to_col, nsuper+2 entries
  supno : Array Nat          -- col_to_sup, n entries
  xlsub : Array Nat          -- rowind_colptr, n+1
  lsub : Array Nat           -- rowind
  xlusup : Array Nat         -- nzval_colptr, n+1
  lusup : Array K            -- nzval
deriving Inhabited

structure LUFac (K : Type) where
  L : SNode K
  U : CSC K
  nnzL : Nat
  nnzU : Nat
deriving Inhabited

namespace SNode
variable {K : Type} [Inhabited K]

def fsupc (L : SNode K) (j : Nat) : Nat := L.xsup[L.supno[j]!]!
/-- number of rows of the rectangle holding column `j` -/
def nsupr (L : SNode K) (j : Nat) : Nat := let f := L.fsupc j; L.xlsub[f+1]! - L.xlsub[f]!
/-- row list of the supernode containing column `j` -/
def rows (L : SNode K) (j : Nat) : List Nat :=
  let f := L.fsupc j
  (List.range (L.nsupr j)).map fun d => L.lsub[L.xlsub[f]! + d]!
/-- stored value at position `p` of column `j`'s slice of the rectangle -/
def valAt (L : SNode K) (j p : Nat) : K := L.lusup[L.xlusup[j]! + p]!
end SNode

namespace LUFac
variable {K : Type} [Inhabited K] [Zero K] [One K] [Add K]

/-- L(i,j): unit diagonal, strictly-lower entries from the rectangle (rows are those listed in the
supernode's row list from position `j - fsupc + 1` on), zero elsewhere -/
def decodeL (F : LUFac K) (i j : Nat) : K :=
  if i = j then 1 else
  let f := F.L.fsupc j
  let rows := F.L.rows j
  (((List.range rows.length).filter fun p => p > j - f ∧ rows[p]! = i).foldl (fun acc p => acc + F.L.valAt j p) 0)

/-- U(i,j): rows above the supernode from column storage, rows `fsupc..j` from the rectangle -/
def decodeU (F : LUFac K) (i j : Nat) : K :=
  let f := F.L.fsupc j
  if i < f then F.U.get i j
  else if i ≤ j then F.L.valAt j (i - f)
  else 0

/-- decode the `L.*`, `U.*` arrays written by `out_LU_<t>` -/
def ofCase (c : Case) (dec : Array UInt64 → Array K) : LUFac K :=
  let d := c.nat "L.dims"
  let nz := c.nat "LU.nnz"
  { L := { m := d[0]!, n := d[1]!, nsuper := d[2]!, xsup := c.nat "L.xsup", supno := c.nat "L.supno",
           xlsub := c.nat "L.xlsub", lsub := c.nat "L.lsub", xlusup := c.nat "L.xlusup", lusup := dec (c.raw "L.lusup") },
    U := { m := d[0]!, n := d[1]!, colptr := c.nat "U.colptr", rowind := c.nat "U.rowind", val := dec (c.raw "U.val") },
    nnzL := nz[0]!, nnzU := nz[1]! }
end LUFac

/-- exact rational decoders for the protocol (`none` on inf/nan) -/
def decRat? (c : Case) (name : String) : Option (Array Rat) := ratsOf c.isDouble (c.raw name)
def decCxRat? (c : Case) (name : String) : Option (Array (Cx Rat)) := cxRatsOf c.isDouble (c.raw name)

end Slu
