import Slu.Model.Kernels
/-
C15 — incomplete LU: pivot policy, zero-pivot replacement, the gsisx glue around MC64.
Core Lean only.

* `iluPivotChoice` — level **B** transcription of `ilu_[sd]pivotL` (SRC/ilu_dpivotL.c:110-286): scan of
  the candidate rows of column `jcol` in storage order (rows belonging to a later relaxed supernode
  are skipped, l.122), the MILU variants of the magnitude (`SMILU_1`: |v + drop_sum|; `SMILU_2/3`:
  |v|, `drop_sum` added to the maximum), the singular return (no eligible candidate, l.147-153), the
  zero-pivot branch (l.154-187: diagonal, else first eligible candidate, else first free row of
  `swap`; value replaced by `fill_tol`; `info = jcol+1`), the threshold / reuse / diagonal
  preference policy (l.188-227), the MILU reset of the pivot (l.229-241).  `resetInc` abstracts
  `SGN(v)*drop_sum` (real) resp. `z_sgn(v)*drop_sum` (complex, ilu_zpivotL.c:236-241 since the `fix:`
  commit that made the SMILU_2/3 reset add `sgn(pivot)*drop_sum`): `realPivot`, `complexPivot`.
  The SAME definition is executed at `Float`, `Float32`, `Cx Float`, `Cx Float32` against the values the
  real routines saw (hook H2 of ilu_[sdcz]pivotL.c, driver `Slu.Drv.IluEvents`: chosen row, return value,
  reuse flag and every candidate value after reset / interchange / cdiv are compared bit for bit) and
  reasoned about at `Rat` / `Cx Rat` (`realPivot`, `complexPivot`).  `thr` is `thresh = u * pivmax` with
  `u` a C double also in the single-precision files (l.216); `iluApply` is the store of the new pivot
  value, the row interchange and the cdiv through the reciprocal (l.286-306); `Modulus.zabs` mirrors
  `z_abs` / `c_abs` (dcomplex.c:62-80, scomplex.c:62-80) used by `z_sgn` / `c_sgn`.
* `replaceCount` — `iinfo` bookkeeping of `[sdcz]gsitrf` (dgsitrf.c:430-437, 551-559): one per column
  for which the policy returned nonzero.
* `foldPerm`, `invPerm`, `restoreRows` — `[sdcz]gsisx` glue (dgsisx.c:546-584 and 637-655): MC64's
  row permutation `perm` is applied to A's row indices before the factorization, folded into `perm_r`
  afterwards (`perm_r := perm_r ∘ perm`) and undone on A (`rowind := iperm ∘ rowind`).
* dropping (`ilu_*drop_row`, `ilu_*copy_to_ucol`, `qselect`) is level **O**: an arbitrary function
  `DropFn` that may delete candidate entries and returns the compensation `drop_sum`; `iluColumn`
  composes it with the pivot policy.
* the solve of `gsisx` is `Kernels.gstrsCol` on the returned factors (C14).
-/
namespace Slu.Ilu
open Slu

inductive Milu | silu | smilu1 | smilu2 | smilu3
deriving BEq, DecidableEq, Repr, Inhabited

/-- the variants in which `drop_sum` is a sum of magnitudes -/
def Milu.absVariant : Milu → Bool
  | .smilu2 => true
  | .smilu3 => true
  | _ => false

/-- one candidate row of the current column (position `nsupc + k` of the supernode's row list) -/
structure Cand (K : Type) where
  row : Nat
  val : K
  /-- `marker[row] <= jcol`: the row does not belong to a later relaxed supernode -/
  elig : Bool
deriving Inhabited

structure PivIn (K R : Type) where
  jcol : Nat
  u : R
  usepr : Bool
  pivrowIn : Nat
  diagind : Nat
  cands : List (Cand K)
  fillTol : R
  milu : Milu
  dropSum : K
  /-- first `swap[icol]`, `icol >= jcol`, with `marker[swap[icol]] <= jcol` (l.166-168) -/
  freeRow : Option Nat
deriving Inhabited

structure PivOut (K : Type) where
  /-- return value of the routine: 0, or `jcol+1` when the column was (numerically) singular -/
  ret : Nat
  /-- position (index into `cands`) of the pivot; `none` = singular return without a pivot -/
  pos : Option Nat
  pivrow : Nat
  usepr : Bool
  /-- value stored at the pivot position on exit (after replacement / MILU reset, before cdiv) -/
  pivVal : K
deriving Inhabited

section
variable {K R : Type} [Inhabited K] [Mag K R] [Zero R] [One R] [Neg R] [Add R] [Mul R] [LT R] [DecidableLT R]
  [LE R] [DecidableLE R] [BEq R] [Add K]

/-- magnitude used by the scan -/
def scanMag (milu : Milu) (dropSum : K) (v : K) : R :=
  match milu with
  | .smilu1 => Mag.abs1 (v + dropSum)
  | _ => Mag.abs1 v

/-- magnitude used by the reuse / diagonal tests (l.194-205, 212-223); `ds` is `drop_sum` as a real -/
def testMag (milu : Milu) (dropSum : K) (ds : R) (v : K) : R :=
  match milu with
  | .smilu1 => Mag.abs1 (v + dropSum)
  | .smilu2 | .smilu3 => Mag.abs1 v + ds
  | .silu => Mag.abs1 v

structure Scan (R : Type) where
  pivmax : R
  pivptr : Nat
  oldPtr : Option Nat
  diag : Option Nat
  ptr0 : Option Nat

/-- one iteration of the scan loop l.119-143 (position `k` of `cands`) -/
def scanStep (inp : PivIn K R) (s : Scan R) (k : Nat) : Scan R :=
  let c := inp.cands[k]!
  if !c.elig then s else
  let rtemp : R := scanMag inp.milu inp.dropSum c.val
  { pivmax := if rtemp > s.pivmax then rtemp else s.pivmax,
    pivptr := if rtemp > s.pivmax then k else s.pivptr,
    oldPtr := if inp.usepr && c.row == inp.pivrowIn then some k else s.oldPtr,
    diag := if c.row == inp.diagind then some k else s.diag,
    ptr0 := if s.ptr0.isNone then some k else s.ptr0 }

def scanInit : Scan R := { pivmax := -(1 : R), pivptr := 0, oldPtr := none, diag := none, ptr0 := none }

/-- the scan loop l.119-143; positions are indices into `cands` -/
def scan (inp : PivIn K R) : Scan R := (List.range inp.cands.length).foldl (scanStep inp) scanInit

/-- the policy of l.188-227 once the column maximum is nonzero: reuse of the remembered pivot
(only when the scan found it among the eligible candidates: `old_pivptr` starts at SLU_EMPTY and
`usepr` is cleared after the scan when it is still empty), else diagonal preference, else the
maximum.  Returns the chosen position and the new `usepr`. -/
def choosePtr (inp : PivIn K R) (thr : R → R) (ds : R) (s : Scan R) (pivmax : R) : Nat × Bool :=
  let thresh := thr pivmax
  let tm (k : Nat) : R := testMag inp.milu inp.dropSum ds (inp.cands[k]!).val
  let op := s.oldPtr.getD 0
  if inp.usepr && s.oldPtr.isSome && !(tm op == 0) && decide (tm op ≥ thresh) then (op, true) else
  match s.diag with
  | some d => if !(tm d == 0) && decide (tm d ≥ thresh) then (d, false) else (s.pivptr, false)
  | none => (s.pivptr, false)

/-- `ilu_[sdcz]pivotL`.  `thr pivmax` = `u * pivmax` (l.216), `ds` = `drop_sum` seen as a magnitude
increment (SMILU_2/3), `ofR` embeds the replacement value, `resetInc v` = the increment applied to the
chosen pivot by the MILU reset. -/
def iluPivotChoice (inp : PivIn K R) (thr : R → R) (ds : R) (ofR : R → K) (resetInc : K → K) : PivOut K :=
  let s := scan inp
  let pivmax : R := if inp.milu.absVariant then s.pivmax + ds else s.pivmax
  let valAt (k : Nat) : K := (inp.cands[k]!).val
  let rowAt (k : Nat) : Nat := (inp.cands[k]!).row
  if pivmax < 0 then
    { ret := inp.jcol + 1, pos := none, pivrow := inp.pivrowIn, usepr := false, pivVal := default }
  else if pivmax == 0 then
    match s.diag, s.ptr0 with
    | some d, _ => { ret := inp.jcol + 1, pos := some d, pivrow := rowAt d, usepr := false, pivVal := ofR inp.fillTol }
    | none, some p => { ret := inp.jcol + 1, pos := some p, pivrow := rowAt p, usepr := false, pivVal := ofR inp.fillTol }
    | none, none =>
      match inp.freeRow with
      | none => { ret := inp.jcol + 1, pos := none, pivrow := inp.pivrowIn, usepr := false, pivVal := default }
      | some fr =>
        -- "pick up the pivot row" (l.177-178): its position in the list if present, else position 0
        let p := ((List.range inp.cands.length).find? (fun k => rowAt k == fr)).getD 0
        { ret := inp.jcol + 1, pos := some p, pivrow := fr, usepr := false, pivVal := ofR inp.fillTol }
  else
    let cp := choosePtr inp thr ds s pivmax
    let ptr2 := cp.1
    let reuse := cp.2
    let pivrow := if reuse then inp.pivrowIn else rowAt ptr2
    let v := valAt ptr2
    let v' : K := match inp.milu with
      | .silu => v
      | .smilu1 => v + inp.dropSum
      | _ => v + resetInc v
    { ret := 0, pos := some ptr2, pivrow := pivrow, usepr := reuse, pivVal := v' }
end

/-- `SGN(x) = ((x)>=0?1:-1)` of ilu_dpivotL.c:28-30 (an `int` that the C code multiplies with `drop_sum`) -/
def sgnG {R : Type} [Zero R] [One R] [Neg R] [LE R] [DecidableLE R] (x : R) : R := if x ≥ 0 then 1 else -1

/-- `SGN(x)` at the rationals -/
def sgnR (x : Rat) : Rat := sgnG x

section
variable {R : Type} [Inhabited R] [Mag R R] [Zero R] [One R] [Neg R] [Add R] [Mul R] [LT R] [DecidableLT R]
  [LE R] [DecidableLE R] [BEq R]

/-- the real routines `ilu_[sd]pivotL` over any real scalar type: `drop_sum` is a real number, the
MILU_2/3 reset adds `SGN(pivot)*drop_sum` (l.265) -/
def realPivotG (thr : R → R) (inp : PivIn R R) : PivOut R :=
  iluPivotChoice inp thr inp.dropSum id (fun v => sgnG v * inp.dropSum)
end

/-- the real routines `ilu_[sd]pivotL` in exact arithmetic -/
def realPivot (inp : PivIn Rat Rat) : PivOut Rat := realPivotG (fun p => inp.u * p) inp

section
variable {R : Type} [Inhabited R] [Mag (Cx R) R] [Zero R] [One R] [Neg R] [Add R] [Sub R] [Mul R] [Div R]
  [LT R] [DecidableLT R] [LE R] [DecidableLE R] [BEq R]

/-- `z_sgn` (dcomplex.c:120-132): `z / |z|`, and `1` when `|z| = 0`; `t` stands for the modulus `z_abs` -/
def sgnCG (t : Cx R → R) (z : Cx R) : Cx R :=
  if t z == 0 then ⟨1, 0⟩ else ⟨z.re / t z, z.im / t z⟩

/-- the complex routines `ilu_[cz]pivotL` over any real scalar type: `drop_sum` is a complex number whose
real part is what the magnitude tests add (`drop_sum.r`), the replacement value is `fill_tol + 0i`, the
MILU_2/3 reset adds `z_sgn(pivot) * drop_sum` (zz_mult, l.270-272) -/
def complexPivotG (thr : R → R) (t : Cx R → R) (inp : PivIn (Cx R) R) : PivOut (Cx R) :=
  iluPivotChoice inp thr inp.dropSum.re (fun r => ⟨r, 0⟩) (fun v => sgnCG t v * inp.dropSum)
end

/-- `z_sgn` at the Gaussian rationals; `t` stands for the modulus `z_abs` (irrational in general — the
theorems hold for every `t` that is non-negative and vanishes only at 0) -/
def sgnC (t : Cx Rat → Rat) (z : Cx Rat) : Cx Rat := sgnCG t z

/-- the complex routines `ilu_[cz]pivotL` in exact arithmetic -/
def complexPivot (t : Cx Rat → Rat) (inp : PivIn (Cx Rat) Rat) : PivOut (Cx Rat) :=
  complexPivotG (fun p => inp.u * p) t inp

/-! ### store, row interchange, cdiv (l.206-207 / 258-270, 286-306) -/

section
variable {K : Type} [One K] [Mul K] [Div K]
/-- what the routine leaves in the column: the new pivot value is stored at the chosen position
(`lu_col_ptr[pivptr] = pivmax` resp. the MILU reset), the chosen position is exchanged with position 0
(row subscript and value), every other value is multiplied by `temp = 1/pivot` (`z_div(&temp,&one,..)`,
`zz_mult`).  A return without a pivot changes nothing. -/
def iluApply (cands : List (Cand K)) (o : PivOut K) : List (Cand K) :=
  match o.pos with
  | none => cands
  | some p =>
    match cands[p]?, cands[0]? with
    | some pc, some first =>
      let pv : Cand K := { pc with val := o.pivVal }
      let swapped := if p = 0 then cands.set 0 pv else (cands.set p first).set 0 pv
      let temp : K := 1 / pv.val
      swapped.zipIdx.map fun c => if c.2 = 0 then c.1 else { c.1 with val := c.1.val * temp }
    | _, _ => cands
end

/-! ### the modulus used by `z_sgn` / `c_sgn` (floating point only) -/

/-- `z_abs` (dcomplex.c:62-80) resp. `c_abs` (scomplex.c:62-80) -/
class Modulus (R : Type) where
  zabs : Cx R → R

/-- `z_abs`: all in double -/
def zabsF (z : Cx Float) : Float :=
  let real := if z.re < 0 then -z.re else z.re
  let imag := if z.im < 0 then -z.im else z.im
  let hi := if imag > real then imag else real
  let lo := if imag > real then real else imag
  if hi + lo == hi then hi else
  let temp := lo / hi
  hi * Float.sqrt (1.0 + temp * temp)

/-- `c_abs`: `temp = imag/real` and `temp*temp` in float, `1.0 + .`, `sqrt`, `real * .` in double, the
result rounded to float (`float temp`) -/
def zabsF32 (z : Cx Float32) : Float32 :=
  let real := if z.re < 0 then -z.re else z.re
  let imag := if z.im < 0 then -z.im else z.im
  let hi := if imag > real then imag else real
  let lo := if imag > real then real else imag
  if hi + lo == hi then hi else
  let temp : Float32 := lo / hi
  let t2 : Float32 := temp * temp
  (hi.toFloat * Float.sqrt (1.0 + t2.toFloat)).toFloat32

instance : Modulus Float := ⟨zabsF⟩
instance : Modulus Float32 := ⟨zabsF32⟩

/-! ### the dropping oracle -/

/-- level O: whatever `ilu_*copy_to_ucol` / `ilu_*drop_row` do to the candidate entries of a column
(delete some, add the compensation to `drop_sum`) -/
structure DropFn (K : Type) where
  keep : Nat → List (Cand K) → List (Cand K)
  dropSum : Nat → List (Cand K) → K

section
variable {K R : Type} [Inhabited K] [Mag K R] [Zero R] [One R] [Neg R] [Add R] [Mul R] [LT R] [DecidableLT R]
  [LE R] [DecidableLE R] [BEq R] [Add K]

/-- one column of the incomplete factorization as far as the property is concerned: the oracle drops,
then the policy chooses -/
def iluColumn (drop : DropFn K) (inp : PivIn K R) (dsOf : K → R) (ofR : R → K) (resetInc : K → K → K) : PivOut K :=
  let cands := drop.keep inp.jcol inp.cands
  let dsum := drop.dropSum inp.jcol inp.cands
  iluPivotChoice { inp with cands := cands, dropSum := dsum } (fun p => inp.u * p) (dsOf dsum) ofR (resetInc dsum)
end

/-- `iinfo` of `[sdcz]gsitrf`: the number of columns for which the policy returned nonzero -/
def replaceCount (rets : List Nat) : Nat := (rets.filter (· ≠ 0)).length

/-! ### gsisx glue: MC64 row permutation -/

/-- `perm_tmp[i] = perm_r[perm[i]]` (dgsisx.c:645) -/
def foldPerm (permr perm : Array Nat) : Array Nat := (Array.range perm.size).map fun i => permr[perm[i]!]!

/-- `iperm[perm[i]] = i` (dgsisx.c:648) -/
def invPerm (perm : Array Nat) : Array Nat :=
  (List.range perm.size).foldl (fun (ip : Array Nat) i => ip.setIfInBounds perm[i]! i) (Array.replicate perm.size 0)

/-- `rowind[i] = perm[rowind[i]]` (dgsisx.c:574-578) -/
def permuteRows (perm : Array Nat) (rowind : Array Nat) : Array Nat := rowind.map fun r => perm[r]!

/-- `rowind[i] = iperm[rowind[i]]` (dgsisx.c:652) -/
def restoreRows (perm : Array Nat) (rowind : Array Nat) : Array Nat := permuteRows (invPerm perm) rowind

/-- is `p` a permutation of `0..n-1`? (executable; used by the driver on perm_c / perm_r) -/
def isPerm (n : Nat) (p : Array Nat) : Bool :=
  p.size == n && (List.range n).all (fun i => p[i]! < n) &&
  (List.range n).all (fun v => ((List.range n).filter (fun i => p[i]! == v)).length == 1)

/-- `p` maps `0..n-1` injectively into `0..n-1` (hence bijectively, `permOn_surj`) -/
def PermOn (n : Nat) (p : Array Nat) : Prop :=
  p.size = n ∧ (∀ i, i < n → p[i]! < n) ∧ (∀ i j, i < n → j < n → p[i]! = p[j]! → i = j)

/-- the solve step of `[sdcz]gsisx` (dgsisx.c:686-697): B is copied into X (leading dimension `ldx`)
and `[sdcz]gstrs` runs on X with the returned factors -/
def gsisxSolve {K : Type} [Inhabited K] [Zero K] [One K] [Add K] [Sub K] [Mul K] [Div K] [Conj K]
    (F : LUFac K) (permc permr : Array Nat) (tr : Kernels.Tr) (n ldb ldx nrhs : Nat) (B X : Array K) : Array K :=
  let X1 := (List.range nrhs).foldl (fun (X : Array K) j => Kernels.unslice X (ldx * j) (Kernels.slice B (ldb * j) n)) X
  Kernels.gstrs (Kernels.gstrsCol F permc permr tr) n ldx nrhs X1

end Slu.Ilu
