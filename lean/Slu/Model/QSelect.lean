import Slu.Basic
/-
C15 — `[sd]qselect` (SRC/qselect.c:24-53 double, 55-84 float), level **B** (bit mirror; the routine only
compares, copies and does index arithmetic).  Core Lean only.

    k = max(k,0); k = min(k,n-1);
    while (n > 1) {
        i = 0; j = n-1; p = j; val = A[p];
        while (i < j) {
            for (; !(A[i] < val) && i < p; i++);          -- scanUp
            if (A[i] < val) { A[p] = A[i]; p = i; }
            for (; !(A[j] > val) && j > p; j--);          -- scanDown
            if (A[j] > val) { A[p] = A[j]; p = j; }
        }                                                  -- partStep / partLoop
        A[p] = val;
        if (p == k) return val;
        else if (p > k) n = p;
        else { p++; n -= p; A += p; k -= p; }
    }
    return A[0];

This is the text of the routine AFTER /repo commit fba5c82 (comparisons written `!(A[i] < val)`,
`!(A[j] > val)` so that an unordered entry ends neither scan early nor keeps it from moving).
The array is the caller's array with the window `A += p` kept as an offset `lo`.  The only
operation on the scalar type is `<` (`a > b` is `b < a`), so the same definition runs at `Float`,
`Float32` (NaN: every comparison false, as in C) and is reasoned about at `Rat`.

Loops are written with explicit fuel taken from the indices (`p - i`, `j - p`, `n`, `n`): the fuel of
the two scans is exact (they stop at `i = p` / `j = p` by themselves); `partLoop` and `qsel` report
`false` / `none` if their fuel ran out — `qselect_terminates` (SluProofs/Props/C15.lean) proves that
this never happens when `<` is asymmetric (true of Float, Float32 with NaN, Rat).
-/
namespace Slu.QSelect

variable {R : Type} [Inhabited R] [LT R] [DecidableLT R]

/-- `for (; !(A[i] < val) && i < p; i++);` — `scanUp A lo val p fuel i`, called with `fuel = p - i` -/
def scanUp (A : Array R) (lo : Nat) (val : R) (p : Nat) : Nat → Nat → Nat
  | 0, i => i
  | f + 1, i => if ¬ (A[lo + i]! < val) ∧ i < p then scanUp A lo val p f (i + 1) else i

/-- `for (; !(A[j] > val) && j > p; j--);` — called with `fuel = j - p` -/
def scanDown (A : Array R) (lo : Nat) (val : R) (p : Nat) : Nat → Nat → Nat
  | 0, j => j
  | f + 1, j => if ¬ (val < A[lo + j]!) ∧ p < j then scanDown A lo val p f (j - 1) else j

/-- state of the inner `while (i < j)` loop -/
structure PSt (R : Type) where
  A : Array R
  i : Nat
  j : Nat
  p : Nat

/-- one iteration of the body of `while (i < j)` -/
def partStep (lo : Nat) (val : R) (s : PSt R) : PSt R :=
  let i := scanUp s.A lo val s.p (s.p - s.i) s.i
  let A1 := if s.A[lo + i]! < val then s.A.setIfInBounds (lo + s.p) s.A[lo + i]! else s.A
  let p1 := if s.A[lo + i]! < val then i else s.p
  let j := scanDown A1 lo val p1 (s.j - p1) s.j
  let A2 := if val < A1[lo + j]! then A1.setIfInBounds (lo + p1) A1[lo + j]! else A1
  let p2 := if val < A1[lo + j]! then j else p1
  { A := A2, i := i, j := j, p := p2 }

/-- `while (i < j) body`; the flag is `false` when the fuel ran out with `i < j` still true -/
def partLoop (lo : Nat) (val : R) : Nat → PSt R → PSt R × Bool
  | 0, s => (s, decide (¬ s.i < s.j))
  | f + 1, s => if s.i < s.j then partLoop lo val f (partStep lo val s) else (s, true)

/-- the partition of the window `A[lo .. lo+n)` around `val = A[lo+n-1]`, including `A[p] = val`:
returns the array, `p`, and the fuel flag -/
def partition (A : Array R) (lo n : Nat) : Array R × Nat × Bool :=
  let val := A[lo + n - 1]!
  let r := partLoop lo val n { A := A, i := 0, j := n - 1, p := n - 1 }
  (r.1.A.setIfInBounds (lo + r.1.p) val, r.1.p, r.2)

/-- the outer `while (n > 1)`; `none` = fuel exhausted -/
def qsel : Nat → Array R → Nat → Nat → Nat → Option (R × Array R)
  | 0, _, _, _, _ => none
  | f + 1, A, lo, n, k =>
    if 1 < n then
      let val := A[lo + n - 1]!
      let r := partition A lo n
      if !r.2.2 then none else
      let p := r.2.1
      if p = k then some (val, r.1)
      else if k < p then qsel f r.1 lo p k
      else qsel f r.1 (lo + (p + 1)) (n - (p + 1)) (k - (p + 1))
    else some (A[lo]!, A)

/-- the clamping of `k` (qselect.c:29-30) -/
def clampK (n : Nat) (k : Int) : Nat := (min (max k 0) ((n : Int) - 1)).toNat

/-- `[sd]qselect(n, A, k)` for `n ≥ 1`: the value returned and the array afterwards -/
def qselect (n : Nat) (A : Array R) (k : Int) : Option (R × Array R) :=
  qsel (n + 1) A 0 n (clampK n k)

end Slu.QSelect
