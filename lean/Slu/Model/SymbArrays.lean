/-
C03 — array-level mirrors of three routines of the symbolic factorization (fidelity B: statement order,
integers as integers, numeric values only MOVED, never computed with, hence `K` is any type).  Core Lean only.

(a) `pruneL`      mirrors SRC/dpruneL.c:50-157 ([sc z]pruneL.c differ in the type of `utemp`/`lusup` only).
    `kmax` is kept as `hi = kmax + 1` (so `while (kmin <= kmax)` reads `lo < hi`, `lsub[kmax]` reads
    `lsub[hi-1]`); the search loop `for (krow ...) if (lsub[krow] == pivrow) { do_prune = TRUE; break; }`
    (lines 99-105) is `List.any`.  The partition loop (lines 117-149) runs on fuel `hi - lo`
    (`Slu.SymbArr.pruneL_partition_terminates` in SluProofs/Props/C03.lean: the fuel is never what stops it).
(b) `copyToUcol`  mirrors SRC/dcopy_to_ucol.c:69-108.  The growth request `while (new_next > nzumax)`
    (lines 85-93) is NOT modelled: the model writes `usub[nextu]`/`ucol[nextu]` into arrays that are long
    enough (hypothesis `capacity suffices`; the growth branch belongs to C07/C08).
(c) `snodeDfs`    mirrors SRC/dsnode_dfs.c:79-122.  The growth requests (lines 91-95, 103-107) are not
    modelled (same hypothesis on `lsub`).

Arrays: subscripts/pointers that are never negative in a valid state (`lsub xlsub xlusup xsup segrep
asub xa_begin xa_end xprune xusub`) are `Array Nat`; arrays that hold `SLU_EMPTY = -1` or a signed
counter (`perm_r repfnz marker supno usub`) are `Array Int`.  Reads are `getD` (total), writes are
`setIfInBounds`.
-/
namespace Slu.SymbArr

/-- `SLU_EMPTY` -/
def EMPTY : Int := -1

/-- `t = a[i]; a[i] = a[j]; a[j] = t;` -/
@[inline] def swapAt {α : Type} (a : Array α) (i j : Nat) (d : α) : Array α :=
  let t := a.getD i d
  (a.setIfInBounds i (a.getD j d)).setIfInBounds j t

/-- is row `r` pivoted: `perm_r[r] != SLU_EMPTY` -/
@[inline] def pivoted (permR : Array Int) (r : Nat) : Bool := permR.getD r EMPTY != EMPTY

/-! ### (a) dpruneL.c -/

/-- dpruneL.c:117-149, the quicksort-type partition; `hi = kmax + 1`.  Returns `(kmin, lsub, lusup)`. -/
def partLoop {K : Type} (z : K) (permR : Array Int) (movnum : Bool) (xlu xl : Nat) :
    Nat → Nat → Nat → Array Nat → Array K → Nat × Array Nat × Array K
  | 0, lo, _, lsub, lusup => (lo, lsub, lusup)
  | f+1, lo, hi, lsub, lusup =>
    if lo < hi then                                                   -- while ( kmin <= kmax )
      if !pivoted permR (lsub.getD (hi-1) 0) then                      -- perm_r[lsub[kmax]] == EMPTY
        partLoop z permR movnum xlu xl f lo (hi-1) lsub lusup          --   kmax--
      else if pivoted permR (lsub.getD lo 0) then                      -- perm_r[lsub[kmin]] != EMPTY
        partLoop z permR movnum xlu xl f (lo+1) hi lsub lusup          --   kmin++
      else
        let lsub' := swapAt lsub lo (hi-1) 0                           -- interchange the subscripts
        let lusup' := if movnum then                                   -- and the numerical values
            swapAt lusup (xlu + (lo - xl)) (xlu + (hi-1 - xl)) z else lusup
        partLoop z permR movnum xlu xl f (lo+1) (hi-1) lsub' lusup'    --   kmin++; kmax--
    else (lo, lsub, lusup)

/-- what dpruneL modifies -/
structure PruneSt (K : Type) where
  lsub : Array Nat
  lusup : Array K
  xprune : Array Nat

/-- the read-only arguments of dpruneL -/
structure PruneArgs where
  jcol : Nat
  permR : Array Int
  pivrow : Nat
  segrep : Array Nat
  repfnz : Array Int
  xsup : Array Nat
  supno : Array Int
  xlsub : Array Nat
  xlusup : Array Nat

/-- dpruneL.c:99-105: `xprune[irep] >= xlsub[irep1]` and the pivot row occurs in `lsub[kmin..kmax]` -/
def doPrune (a : PruneArgs) (lsub xprune : Array Nat) (irep : Nat) : Bool :=
  decide (a.xlsub.getD (irep+1) 0 ≤ xprune.getD irep 0) &&
  (List.range' (a.xlsub.getD irep 0) (a.xlsub.getD (irep+1) 0 - a.xlsub.getD irep 0)).any
    (fun k => lsub.getD k 0 == a.pivrow)

/-- which of the skip tests of dpruneL.c:82-98 lets `irep` through -/
def eligible (a : PruneArgs) (irep : Nat) : Bool :=
  a.repfnz.getD irep EMPTY != EMPTY &&                          -- zero U-segment: continue
  a.supno.getD irep 0 != a.supno.getD (irep+1) 0 &&             -- fragmented segment: continue
  a.supno.getD irep 0 != a.supno.getD a.jcol 0                  -- if ( supno[irep] != jsupno )

/-- the partition of one representative (dpruneL.c:111-151) -/
def pruneOne {K : Type} (z : K) (a : PruneArgs) (st : PruneSt K) (irep : Nat) : PruneSt K :=
  let movnum := a.xsup.getD (a.supno.getD irep 0).toNat 0 == irep       -- irep == xsup[supno[irep]]
  let kmin := a.xlsub.getD irep 0
  let hi := a.xlsub.getD (irep+1) 0                                      -- kmax + 1
  let r := partLoop z a.permR movnum (a.xlusup.getD irep 0) kmin (hi - kmin) kmin hi st.lsub st.lusup
  { lsub := r.2.1, lusup := r.2.2, xprune := st.xprune.setIfInBounds irep r.1 }   -- xprune[irep] = kmin

/-- one turn of `for (i = 0; i < nseg; i++)` (dpruneL.c:77-155) -/
def pruneStep {K : Type} (z : K) (a : PruneArgs) (st : PruneSt K) (i : Nat) : PruneSt K :=
  let irep := a.segrep.getD i 0
  if !eligible a irep then st
  else if !doPrune a st.lsub st.xprune irep then st
  else pruneOne z a st irep

/-- `dpruneL(jcol, perm_r, pivrow, nseg, segrep, repfnz, xprune, Glu)` -/
def pruneL {K : Type} (z : K) (a : PruneArgs) (nseg : Nat) (st : PruneSt K) : PruneSt K :=
  (List.range nseg).foldl (pruneStep z a) st

/-! ### (b) dcopy_to_ucol.c -/

/-- what dcopy_to_ucol modifies (`xusub[jcol+1]` is set from `nextu` at the end) -/
structure UcolSt (K : Type) where
  nextu : Nat
  usub : Array Int
  ucol : Array K
  dense : Array K

/-- dcopy_to_ucol.c:95-102: `for (i = 0; i < segsze; i++)` -/
def copySeg {K : Type} (z : K) (permR : Array Int) (lsub : Array Nat) : Nat → Nat → UcolSt K → UcolSt K
  | 0, _, st => st
  | n+1, isub, st =>
    let irow := lsub.getD isub 0
    copySeg z permR lsub n (isub+1)
      { nextu := st.nextu + 1
        usub := st.usub.setIfInBounds st.nextu (permR.getD irow EMPTY)     -- usub[nextu] = perm_r[irow]
        ucol := st.ucol.setIfInBounds st.nextu (st.dense.getD irow z)      -- ucol[nextu] = dense[irow]
        dense := st.dense.setIfInBounds irow z }                           -- dense[irow] = zero

structure UcolArgs where
  jcol : Nat
  nseg : Nat
  segrep : Array Nat
  repfnz : Array Int
  permR : Array Int
  xsup : Array Nat
  supno : Array Int
  lsub : Array Nat
  xlsub : Array Nat

/-- is the segment of `krep` gathered (dcopy_to_ucol.c:75-77) -/
def ucolKeeps (a : UcolArgs) (krep : Nat) : Bool :=
  a.supno.getD krep 0 != a.supno.getD a.jcol 0 && a.repfnz.getD krep EMPTY != EMPTY

/-- one turn of `for (ksub = 0; ksub < nseg; ksub++)` with `krep = segrep[k--]` (dcopy_to_ucol.c:71-106) -/
def ucolStep {K : Type} (z : K) (a : UcolArgs) (st : UcolSt K) (ksub : Nat) : UcolSt K :=
  let krep := a.segrep.getD (a.nseg - 1 - ksub) 0
  if !ucolKeeps a krep then st else
  let kfnz := (a.repfnz.getD krep EMPTY).toNat
  let fsupc := a.xsup.getD (a.supno.getD krep 0).toNat 0
  let isub := a.xlsub.getD fsupc 0 + kfnz - fsupc
  let segsze := krep - kfnz + 1
  copySeg z a.permR a.lsub segsze isub st

/-- `dcopy_to_ucol`; returns the state and the new `xusub` -/
def copyToUcol {K : Type} (z : K) (a : UcolArgs) (xusub : Array Nat) (usub : Array Int) (ucol dense : Array K) :
    UcolSt K × Array Nat :=
  let st := (List.range a.nseg).foldl (ucolStep z a)
    { nextu := xusub.getD a.jcol 0, usub := usub, ucol := ucol, dense := dense }
  (st, xusub.setIfInBounds (a.jcol+1) st.nextu)                            -- xusub[jcol+1] = nextu

/-! ### (c) dsnode_dfs.c -/

structure SnodeSt where
  marker : Array Int
  lsub : Array Nat
  nextl : Nat
  supno : Array Int

/-- dsnode_dfs.c:86-96: one nonzero `krow = asub[k]` -/
def snodeVisit (kcol : Nat) (st : SnodeSt) (krow : Nat) : SnodeSt :=
  if st.marker.getD krow EMPTY != (kcol : Int) then                        -- first time visit krow
    { st with marker := st.marker.setIfInBounds krow kcol
              lsub := st.lsub.setIfInBounds st.nextl krow
              nextl := st.nextl + 1 }
  else st

/-- the subscripts of column `i` of A in storage order -/
def colRows (asub xaBegin xaEnd : Array Nat) (i : Nat) : List Nat :=
  (List.range' (xaBegin.getD i 0) (xaEnd.getD i 0 - xaBegin.getD i 0)).map (fun k => asub.getD k 0)

/-- dsnode_dfs.c:84-99: one column `i` -/
def snodeCol (kcol : Nat) (nsuper : Int) (asub xaBegin xaEnd : Array Nat) (st : SnodeSt) (i : Nat) : SnodeSt :=
  let st := (colRows asub xaBegin xaEnd i).foldl (snodeVisit kcol) st
  { st with supno := st.supno.setIfInBounds i nsuper }                      -- supno[i] = nsuper

/-- dsnode_dfs.c:110-111: `for (ifrom = xlsub[jcol]; ifrom < nextl; ) lsub[ito++] = lsub[ifrom++];` -/
def copyDup : Nat → Nat → Nat → Array Nat → Array Nat
  | 0, _, _, lsub => lsub
  | n+1, ifrom, ito, lsub => copyDup n (ifrom+1) (ito+1) (lsub.setIfInBounds ito (lsub.getD ifrom 0))

structure SnodeOut where
  marker : Array Int
  lsub : Array Nat
  supno : Array Int
  xsup : Array Nat
  xlsub : Array Nat
  xprune : Array Nat

/-- `dsnode_dfs(jcol, kcol, asub, xa_begin, xa_end, xprune, marker, Glu)` -/
def snodeDfs (jcol kcol : Nat) (asub xaBegin xaEnd : Array Nat) (xprune : Array Nat) (marker : Array Int)
    (xsup : Array Nat) (supno : Array Int) (lsub xlsub : Array Nat) : SnodeOut :=
  let nsuper : Int := supno.getD jcol 0 + 1                                 -- nsuper = ++supno[jcol]
  let supno := supno.setIfInBounds jcol nsuper
  let first := xlsub.getD jcol 0                                            -- nextl = xlsub[jcol]
  let st := (List.range' jcol (kcol + 1 - jcol)).foldl (snodeCol kcol nsuper asub xaBegin xaEnd)
    { marker := marker, lsub := lsub, nextl := first, supno := supno }
  let nextl := st.nextl
  -- Supernode > 1, then make a copy of the subscripts for pruning
  let (lsub, xlsub, nextl) :=
    if jcol < kcol then
      let lsub := copyDup (nextl - first) first nextl st.lsub
      let xlsub := (List.range' (jcol+1) (kcol - jcol)).foldl (fun x i => x.setIfInBounds i nextl) xlsub
      (lsub, xlsub, nextl + (nextl - first))
    else (st.lsub, xlsub, nextl)
  { marker := st.marker
    lsub := lsub
    supno := st.supno.setIfInBounds (kcol+1) nsuper                        -- supno[kcol+1] = nsuper
    xsup := xsup.setIfInBounds (nsuper+1).toNat (kcol+1)                    -- xsup[nsuper+1] = kcol + 1
    xlsub := xlsub.setIfInBounds (kcol+1) nextl                             -- xlsub[kcol+1] = nextl
    xprune := xprune.setIfInBounds kcol nextl }                             -- xprune[kcol] = nextl

end Slu.SymbArr
