import Slu.Model.Cx
import Slu.Model.Sparse
/-
LU factorization with threshold partial pivoting, permuted triangular solves and the simple driver.

* `pivotChoice`, `cdiv` — fidelity B (statement mirror of SRC/[sdcz]pivotL.c:113-194): executed at
  `Float`/`Float32`/`Cx _` against the values the real code saw (hook H2), reasoned about at `Rat`.
* `luFactor` — fidelity X (exact specification level): left-looking column LU driven by
  `pivotChoice`; L and U are determined by the column order and the pivot sequence, so panels,
  supernodes, 2-D blocking and pruning leave no trace in the result (DESIGN.md 3.2).  Candidate
  order within a column (which decides ties) is a parameter.
* `gstrs`, `gssv` — fidelity X: SRC/dgstrs.c:158-330, SRC/dgssv.c:178-236.

Vectors are indexed by ORIGINAL row number; the row permutation is carried by the pivot list
(`perm_r[piv[k]] = k`).
-/
namespace Slu.LU
open Slu

abbrev Vec (K : Type) := Array K

section vec
variable {K : Type} [Zero K]
@[inline] def Vec.get (v : Vec K) (i : Nat) : K := v.getD i 0
/-- `w - u * l` entrywise (one column update of the left-looking elimination) -/
def axpy [Sub K] [Mul K] (w l : Vec K) (u : K) : Vec K := w.mapIdx fun i x => x - u * l.getD i 0
end vec

/-! ### Pivot policy (SRC/dpivotL.c) -/

structure PivotOut where
  info : Nat      -- 0, or jcol+1 when every candidate is exactly zero
  pos : Nat       -- position of the pivot in the candidate list
  row : Nat       -- pivot row recorded in perm_r
  usepr : Bool    -- updated reuse flag
deriving Repr, DecidableEq, Inhabited

section pivot
variable {K R : Type} [Mag K R] [Zero R] [LT R] [DecidableLT R] [LE R] [DecidableLE R] [IsZero R]

/-- the scan of dpivotL.c:124-133: (pivmax, pivptr), first maximum wins (`rtemp > pivmax`) -/
def scanPivAux : List (Nat × K) → Nat → R × Nat → R × Nat
  | [], _, acc => acc
  | c :: rest, k, acc =>
    let r : R := Mag.abs1 c.2
    scanPivAux rest (k + 1) (if r > acc.1 then (r, k) else acc)

def scanPiv (cands : List (Nat × K)) : R × Nat := scanPivAux cands 0 ((0 : R), 0)

/-- last position whose row equals `r` (the C loop overwrites on every match; rows are distinct) -/
def findRowAux : List (Nat × K) → Nat → Nat → Option Nat → Option Nat
  | [], _, _, acc => acc
  | c :: rest, r, k, acc => findRowAux rest r (k + 1) (if c.1 = r then some k else acc)

def findRow (cands : List (Nat × K)) (r : Nat) : Option Nat := findRowAux cands r 0 none

/-- the acceptance test `rtemp != 0.0 && rtemp >= thresh` applied to candidate `p` -/
def passes (cands : List (Nat × K)) (thresh : R) (p : Nat) : Bool :=
  match cands[p]? with
  | some c => let r : R := Mag.abs1 c.2; !(IsZero.isZero r) && decide (r ≥ thresh)
  | none => false

/-- `dpivotL` decision part (lines 118-165). `oldRow = iperm_r[jcol]` is read only when `usepr`. -/
def pivotChoice (jcol : Nat) (cands : List (Nat × K)) (thr : R → R) (usepr : Bool) (oldRow diagRow : Nat) : PivotOut :=
  let (pivmax, pivptr) := scanPiv (R := R) cands
  -- NOTE (deliberate deviation, unreachable under the documented precondition of
  -- SamePattern_SameRowPerm): when the remembered row is not among the candidates the C code tests
  -- the FIRST candidate instead (old_pivptr keeps its initial value) but records the remembered row;
  -- the model abandons reuse in that case.  The event-level correspondence would expose any run in
  -- which the two differ.
  let oldPtr? := if usepr then findRow cands oldRow else none
  let diag := findRow cands diagRow
  if IsZero.isZero pivmax then { info := jcol + 1, pos := pivptr, row := 0, usepr := false } else
  let thresh := thr pivmax   -- `thresh = u * pivmax` (u is a double also in the single-precision files)
  match (oldPtr?.filter (passes cands thresh)) with
  | some op => { info := 0, pos := op, row := oldRow, usepr := true }
  | none =>
  let pivptr := match diag with
    | some d => if passes cands thresh d then d else pivptr
    | none => pivptr
  { info := 0, pos := pivptr, row := (cands[pivptr]?.map (·.1)).getD 0, usepr := false }
end pivot

section cdivsec
variable {K : Type} [One K] [Mul K] [Div K]
/-- row interchange + `cdiv` (dpivotL.c:170-192): pivot moved to the front, the displaced first
entry takes its place, every other value is multiplied by `1/pivot` -/
def cdiv (cands : List (Nat × K)) (pos : Nat) : List (Nat × K) :=
  match cands[pos]?, cands[0]? with
  | some pv, some first =>
    let swapped := (cands.set pos first).set 0 pv
    let temp : K := 1 / pv.2
    swapped.zipIdx.map fun c => if c.2 = 0 then c.1 else (c.1.1, c.1.2 * temp)
  | _, _ => cands
end cdivsec

/-! ### Column LU (exact specification level) -/

structure St (K : Type) where
  piv : Array Nat := #[]             -- pivot rows, in column order
  L : Array (Vec K) := #[]           -- L columns indexed by original row (1 at the pivot row)
  U : Array (Array K) := #[]         -- U column j holds u_0j .. u_jj
  usepr : Bool := false
  info : Nat := 0
deriving Inhabited

section factor
variable {K R : Type} [Mag K R] [Zero K] [One K] [Sub K] [Mul K] [Div K]
variable [Zero R] [Mul R] [LT R] [DecidableLT R] [LE R] [DecidableLE R] [IsZero R]

/-- forward elimination of a column by the previous L columns: returns the remaining vector and
the multipliers `u_k = w[piv k]` in order -/
def elim : List (Nat × Vec K) → Vec K → Vec K × List K
  | [], w => (w, [])
  | (p, l) :: rest, w =>
    let u := w.get p
    let r := elim rest (axpy w l u)
    (r.1, u :: r.2)

/-- parameters of a factorization: the matrix columns (already in the order `A*Pc`), threshold,
candidate order per column, remembered pivots, diagonal rows -/
structure Params (K R : Type) where
  m : Nat
  n : Nat
  col : Nat → Vec K            -- column j of A*Pc as a length-m vector
  u : R
  order : Nat → List Nat       -- candidate row order of column j (any list of rows)
  oldPiv : Nat → Nat           -- iperm_r[j] (used while usepr)
  diagRow : Nat → Nat          -- iperm_c[j]

/-- one column of the factorization -/
def step (P : Params K R) (st : St K) (j : Nat) : St K :=
  if st.info ≠ 0 then st else
  let prev : List (Nat × Vec K) := (List.range j).map fun k => (st.piv.getD k 0, st.L.getD k #[])
  let (w, us) := elim prev (P.col j)
  let cands : List (Nat × K) := ((P.order j).filter (fun r => !(st.piv.contains r))).map fun r => (r, w.get r)
  let o := pivotChoice (R := R) j cands (fun p => P.u * p) st.usepr (P.oldPiv j) (P.diagRow j)
  if o.info ≠ 0 then { st with info := o.info, usepr := false } else
  let p := o.row
  let piv := w.get p
  let temp : K := 1 / piv
  let l : Vec K := w.map (· * temp)
  { piv := st.piv.push p, L := st.L.push l, U := st.U.push ((us ++ [piv]).toArray), usepr := o.usepr, info := 0 }

def luFactor (P : Params K R) (usepr : Bool) : St K :=
  (List.range P.n).foldl (step P) { usepr := usepr }

/-- completed row permutation (dgstrf.c:413-428): pivot rows get their column number, the remaining
rows are numbered upward from the rank in increasing row order -/
def permR (m : Nat) (piv : Array Nat) : Array Nat :=
  let k0 := piv.size
  let rest := (List.range m).filter fun i => !(piv.contains i)
  (Array.range m).map fun i =>
    match piv.toList.idxOf? i with
    | some k => k
    | none => k0 + (rest.idxOf i)
end factor

/-! ### Triangular solves with the factors (SRC/dgstrs.c) and the simple driver -/

section solve
variable {K : Type} [Zero K] [One K] [Add K] [Sub K] [Mul K] [Div K] [HasConj K]

/-- back substitution, last unknown first: `backSub U y n k = [z_{n-k}, …, z_{n-1}]` with
`z_j = (y_j - Σ_{j' > j} U(j, j') z_j') / U(j, j)`; `U.getD j' #[]` is column `j'` of U -/
def backSub (U : Array (Array K)) (y : Array K) (n : Nat) : Nat → List K
  | 0 => []
  | k + 1 =>
    let zs := backSub U y n k
    let j := n - (k + 1)
    let s := (List.range k).foldl (fun (s : K) t => s - (U.getD (j + 1 + t) #[]).getD j 0 * zs.getD t 0) (y.getD j 0)
    (s / (U.getD j #[]).getD j 0) :: zs

/-- `U z = y` by back substitution -/
def backSolve (U : Array (Array K)) (y : Array K) : Array K := (backSub U y U.size U.size).toArray

/-- NOTRANS solve of `A x = b` with `Pr (A Pc) = L U`:
forward elimination of `b` by the L columns (this applies `Pr` and `L⁻¹` at once), back
substitution, then `x[c] = z[perm_c[c]]` (dgstrs.c:158-250) -/
def gstrsN (piv : Array Nat) (L : Array (Vec K)) (U : Array (Array K)) (permC : Array Nat) (b : Vec K) : Vec K :=
  let prev := (List.range piv.size).map fun k => (piv.getD k 0, L.getD k #[])
  let y := (elim prev b).2.toArray
  let z := backSolve U y
  (Array.range permC.size).map fun c => z.getD (permC.getD c 0) 0

/-- back substitution for an abstract upper triangular system `Σ_{j' ≥ j} M j j' z_j' = y j`,
last unknown first: `triBack M y n k = [z_{n-k}, …, z_{n-1}]` -/
def triBack (M : Nat → Nat → K) (y : Nat → K) (n : Nat) : Nat → List K
  | 0 => []
  | k + 1 =>
    let zs := triBack M y n k
    let j := n - (k + 1)
    let s := (List.range k).foldl (fun (s : K) t => s - M j (j + 1 + t) * zs.getD t 0) (y j)
    (s / M j j) :: zs

/-- TRANS / CONJ solve `op(F) x = b` for a square `F` with `Pr (F Pc) = L U`
(SRC/dgstrs.c:252-330, zgstrs.c): permute `b` by `perm_c`, solve `op(U)ᵀ t = c'` (a lower
triangular system, solved as an upper one on reversed indices), then `op(L)ᵀ ξ = t` in pivot order,
and scatter `x[piv k] = ξ_k`.  `f` is the identity (TRANS) or conjugation (CONJ). -/
def gstrsT (f : K → K) (piv : Array Nat) (L : Array (Vec K)) (U : Array (Array K)) (permC : Array Nat) (b : Vec K) : Vec K :=
  let n := piv.size
  let rev (a : Nat) : Nat := n - 1 - a
  -- c'[perm_c[c]] = b[c]
  let cp (j : Nat) : K := b.get (((List.range n).find? fun c => permC.getD c 0 = j).getD 0)
  let zs := triBack (fun a a' => f ((U.getD (rev a) #[]).getD (rev a') 0)) (fun a => cp (rev a)) n n
  let t (k : Nat) : K := zs.getD (rev k) 0
  let xi := triBack (fun k k' => if k = k' then 1 else f ((L.getD k #[]).get (piv.getD k' 0))) t n n
  (Array.range n).map fun i => xi.getD (((List.range n).find? fun k => piv.getD k 0 = i).getD 0) 0
end solve

end Slu.LU
