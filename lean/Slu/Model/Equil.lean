import Slu.Scalar
/-
C11 — model of `[sdcz]gsequ` and `[sdcz]laqgs` (fidelity B: bit mirror).

Source: SRC/dgsequ.c:94-203, SRC/dlaqgs.c:91-160 (and the s/c/z twins; complex files use
`z_abs1`/`zd_mult`, i.e. `Mag.abs1`/`Mag.rscale`).

The C code keeps `r[]`/`c[]` in arrays updated entry by entry in storage order.  Each array cell is
a running `SUPERLU_MAX` over the entries of that row (column) *in storage order*, so the value of
cell `i` is the left fold below, evaluated in the same order: bit-identical at `Float`.
-/
namespace Slu.Equil
open Slu

/-- a stored entry: (row, column, value), listed in storage (column-major) order -/
structure Entry (K : Type) where
  row : Nat
  col : Nat
  val : K
deriving Inhabited

variable {K R : Type} [Mag K R]
variable [Zero R] [One R] [Mul R] [Div R] [LT R] [DecidableLT R] [BEq R]

/-- running maximum of the magnitudes of row `i` (dgsequ.c:140-144) -/
def rowMax (es : List (Entry K)) (i : Nat) : R :=
  es.foldl (fun acc e => if e.row = i then smax acc (Mag.abs1 e.val) else acc) 0

/-- `rcmax` / `rcmin` scans (dgsequ.c:147-152) -/
def scanMax (f : Nat → R) (k : Nat) : R := (List.range k).foldl (fun acc i => smax acc (f i)) 0
def scanMin (big : R) (f : Nat → R) (k : Nat) : R := (List.range k).foldl (fun acc i => smin acc (f i)) big

/-- `1. / SUPERLU_MIN( SUPERLU_MAX( x, smlnum ), bignum )` (dgsequ.c:165) -/
def invClamp (sml big x : R) : R := 1 / smin (smax x sml) big

/-- running maximum of column `j` after row scaling (dgsequ.c:176-180) -/
def colMax (es : List (Entry K)) (r : Nat → R) (j : Nat) : R :=
  es.foldl (fun acc e => if e.col = j then smax acc (Mag.abs1 e.val * r e.row) else acc) 0

/-- result of `gsequ`; `none` = "not written by the routine" -/
structure Out (R : Type) where
  info : Nat
  r : Option (Nat → R)        -- row array content after the call (when written)
  c : Option (Nat → R)
  rowcnd : Option R
  colcnd : Option R
  amax : Option R

/-- `gsequ` after argument screening (dgsequ.c:119-203). -/
def gsequ (m n : Nat) (es : List (Entry K)) (sml big : R) : Out R :=
  if m = 0 ∨ n = 0 then
    { info := 0, r := none, c := none, rowcnd := some 1, colcnd := some 1, amax := some 0 }
  else
    let r0 : Nat → R := rowMax es
    let rcmax := scanMax r0 m
    let rcmin := scanMin big r0 m
    if rcmin == 0 then
      -- first zero row, 1-based; r holds the raw maxima, nothing else written
      let i := ((List.range m).find? (fun i => r0 i == 0)).getD 0
      { info := i + 1, r := some r0, c := none, rowcnd := none, colcnd := none, amax := some rcmax }
    else
      let r : Nat → R := fun i => invClamp sml big (r0 i)
      let rowcnd := smax rcmin sml / smin rcmax big
      let c0 : Nat → R := colMax es r
      let cmax := scanMax c0 n
      let cmin := scanMin big c0 n
      if cmin == 0 then
        let j := ((List.range n).find? (fun j => c0 j == 0)).getD 0
        { info := m + j + 1, r := some r, c := some c0, rowcnd := some rowcnd, colcnd := none, amax := some rcmax }
      else
        { info := 0, r := some r, c := some (fun j => invClamp sml big (c0 j)),
          rowcnd := some rowcnd, colcnd := some (smax cmin sml / smin cmax big), amax := some rcmax }

/-- the four outcomes of `laqgs` -/
inductive Equed | N | R | C | B
deriving DecidableEq, Repr, Inhabited

def Equed.toChar : Equed → Char
  | .N => 'N' | .R => 'R' | .C => 'C' | .B => 'B'

variable [LE R] [DecidableLE R]

/-- decision rule of `laqgs` (dlaqgs.c:121-157); `thresh` = 0.1, `small = sfmin/eps`, `large = 1/small` -/
def laqgsRule (thresh small large rowcnd colcnd amax : R) : Equed :=
  if rowcnd ≥ thresh ∧ amax ≥ small ∧ amax ≤ large then
    (if colcnd ≥ thresh then .N else .C)
  else if colcnd ≥ thresh then .R else .B

/-- new value of one stored entry (dlaqgs.c:125-155); for `B` the C code forms `cj * r[irow]` first -/
def laqgsEntry (q : Equed) (r c : Nat → R) (e : Entry K) : K :=
  match q with
  | .N => e.val
  | .C => Mag.rscale e.val (c e.col)
  | .R => Mag.rscale e.val (r e.row)
  | .B => Mag.rscale e.val (c e.col * r e.row)

def laqgs (m n : Nat) (es : List (Entry K)) (r c : Nat → R) (thresh small large rowcnd colcnd amax : R) :
    Equed × List K :=
  if m = 0 ∨ n = 0 then (.N, es.map (·.val)) else
  let q := laqgsRule thresh small large rowcnd colcnd amax
  (q, es.map (laqgsEntry q r c))

end Slu.Equil
