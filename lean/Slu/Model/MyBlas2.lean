import Slu.Model.Kernels
/-
SuperLU's own dense level-2 kernels and the relaxed-supernode column update that calls them.
Core Lean only.

Mirrors (fidelity **B** when run at `Float / Float32 / Cx Float / Cx Float32`, **X** at `Rat / Cx Rat`)
* `lsolveG`, `lsolve`, `lsolveA` : `[sd]lsolve` SRC/dmyblas2.c:38-128, SRC/smyblas2.c:38-128 (unit
  lower solve unrolled over 8 / 4 / 2 columns) and `[cz]lsolve` SRC/zmyblas2.c:39-108,
  SRC/cmyblas2.c:39-108 (unrolled over 4 / 2 columns, `zz_mult` + `z_sub`);
* `usolve`                       : `[sdcz]usolve` dmyblas2.c:136-154, zmyblas2.c:116-135 (`z_div`);
* `matvec`                       : `[sd]matvec` dmyblas2.c:161-227 (8 / 4 / 1 columns, the products of
  one block are summed FIRST and the sum is added to `Mxvec[k]`) and `[cz]matvec`
  zmyblas2.c:143-188 (4 / 1 columns, every product is added to `Mxvec[k]` in turn);
* `snodeBmod`                    : `[sdcz]snode_bmod` SRC/dsnode_bmod.c:33-120 (the `#else` branch
  of `USE_VENDOR_BLAS`), SRC/zsnode_bmod.c likewise.

What "mirror" means here.  The C code walks pointers `Mki_t` that are advanced once per use; the
model addresses the same cells in closed form: in a block that starts at column `fc` the cell read
for (row k, column fc+t) is `M[(fc+t)*ldm + k]`.  One unrolled C expression
`rhs[k] - x0 * *Mki0++ - x1 * *Mki1++ - ...` is, by C's left associativity, the left fold
`((rhs[k] - x0*m0) - x1*m1) - ...`; `Mxvec[k] += vi0*m0 + vi1*m1 + ...` is
`Mxvec[k] + (((vi0*m0 + vi1*m1) + vi2*m2) + ...)` (the sum does NOT start from 0: `0 + (-0) = +0`);
the complex routines accumulate through `temp` into `rhs[k]` / `Mxvec[k]` one product at a time.
Both shapes are folds over the block width `w`, so one definition with the width as a parameter
covers every unrolling factor; the order of the blocks (`while (firstcol < ncol - 7)`, …) and of the
statements inside a block (all `x_s` computed from the OLD `rhs`, then stored, then the update loop)
is that of the C text.  The flag `cplx` selects the unrolling of the complex files.

Aliasing.  `snode_bmod` calls `lsolve(nsupr, nsupc, &lusup[luptr], &lusup[ufirst])`: matrix and
right-hand side live in the SAME array.  `lsolveG` therefore reads the matrix through a function of
the CURRENT state (`rd s i`), instantiated by `lsolve` (separate arrays, as in `sp_trsv`) and
`lsolveA` (one array, two offsets, as in `snode_bmod`).  `matvec` and `usolve` never write what they
read through `M` / `vec`, and no caller passes an `Mxvec` overlapping them.
-/
namespace Slu.MyBlas2
open Slu

section generic
variable {K : Type} [Inhabited K] [Add K] [Sub K] [Mul K]

/-! ### lsolve -/

/-- `x0 .. x_{w-1}` of the block that starts at column `fc`:
`x_s = rhs[fc+s] - x0 * M(fc+s, fc) - ... - x_{s-1} * M(fc+s, fc+s-1)`, left to right
(dmyblas2.c:58-70, 96-99, 117-118; zmyblas2.c:56-68, 87-89).  Nothing is stored yet. -/
def lsolveXs (w ldm : Nat) (rd : Array K → Nat → K) (a : Array K) (ro fc : Nat) : Array K :=
  (List.range w).foldl (fun (xs : Array K) s =>
    xs.push ((List.range s).foldl (fun (acc : K) t => acc - xs[t]! * rd a ((fc + t) * ldm + (fc + s)))
      a[ro + fc + s]!)) #[]

/-- one block of `w` columns: the `x_s`, the stores `rhs[++firstcol] = x_s` (s = 1..w-1; `x0` is
already in place), then `for (k = firstcol; k < ncol; k++) rhs[k] = rhs[k] - x0 * *Mki0++ - ...` -/
def lsolveBlock (w ldm ncol : Nat) (rd : Array K → Nat → K) (a : Array K) (ro fc : Nat) : Array K :=
  let xs := lsolveXs w ldm rd a ro fc
  let a1 := (List.range (w - 1)).foldl (fun (a : Array K) s => a.setIfInBounds (ro + fc + s + 1) xs[s + 1]!) a
  (List.range (ncol - (fc + w))).foldl (fun (a : Array K) d =>
    a.setIfInBounds (ro + (fc + w + d))
      ((List.range w).foldl (fun (acc : K) t => acc - xs[t]! * rd a ((fc + t) * ldm + (fc + w + d)))
        a[ro + (fc + w + d)]!)) a1

/-- `while ( firstcol < ncol - (w-1) ) { block; }` on the state (array, firstcol); `fuel` bounds the
number of iterations (`ncol` is always enough: every iteration advances `firstcol` by `w ≥ 1`) -/
def lsolveWhile (w ldm ncol : Nat) (rd : Array K → Nat → K) (ro : Nat) : Nat → Array K × Nat → Array K × Nat
  | 0, st => st
  | fuel + 1, st =>
    if st.2 + (w - 1) < ncol then
      lsolveWhile w ldm ncol rd ro fuel (lsolveBlock w ldm ncol rd st.1 ro st.2, st.2 + w)
    else st

/-- `[sdcz]lsolve(ldm, ncol, M, rhs)` with the matrix read through `rd` (see the header) -/
def lsolveG (cplx : Bool) (ldm ncol : Nat) (rd : Array K → Nat → K) (rhs : Array K) (ro : Nat) : Array K :=
  let s0 : Array K × Nat := (rhs, 0)
  let s1 := if cplx then s0 else lsolveWhile 8 ldm ncol rd ro ncol s0      -- "Do 8 columns" (real files only)
  let s2 := lsolveWhile 4 ldm ncol rd ro ncol s1                            -- "Do 4 columns"
  if s2.2 + 1 < ncol then lsolveBlock 2 ldm ncol rd s2.1 ro s2.2 else s2.1  -- "Do 2 columns"

/-- matrix and right-hand side in different arrays (`sp_trsv`, `gstrs`) -/
def lsolve (cplx : Bool) (ldm ncol : Nat) (M : Array K) (mo : Nat) (rhs : Array K) (ro : Nat) : Array K :=
  lsolveG cplx ldm ncol (fun _ i => M[mo + i]!) rhs ro

/-- matrix and right-hand side in the same array (`snode_bmod`) -/
def lsolveA (cplx : Bool) (ldm ncol : Nat) (a : Array K) (mo ro : Nat) : Array K :=
  lsolveG cplx ldm ncol (fun s i => s[mo + i]!) a ro

/-! ### usolve -/

/-- `[sdcz]usolve(ldm, ncol, M, rhs)` — dmyblas2.c:141-153 -/
def usolve [Div K] (ldm ncol : Nat) (M : Array K) (mo : Nat) (rhs : Array K) (ro : Nat) : Array K :=
  (List.range ncol).foldl (fun (rhs : Array K) j =>
    let jcol := ncol - 1 - j
    let xj := rhs[ro + jcol]! / M[mo + (jcol + jcol * ldm)]!
    let rhs := rhs.setIfInBounds (ro + jcol) xj
    (List.range jcol).foldl (fun (rhs : Array K) irow =>
      rhs.setIfInBounds (ro + irow) (rhs[ro + irow]! - xj * M[mo + (irow + jcol * ldm)]!)) rhs) rhs

/-! ### matvec -/

/-- the value stored into `Mxvec[k]` by one block of `w ≥ 1` columns starting at `fc` -/
@[inline] def matvecCell (cplx : Bool) (w ldm : Nat) (M : Array K) (mo : Nat) (vec : Array K) (vo fc k : Nat) (yk : K) : K :=
  if cplx then
    (List.range w).foldl (fun (acc : K) t => acc + vec[vo + (fc + t)]! * M[mo + ((fc + t) * ldm + k)]!) yk
  else
    yk + (List.range (w - 1)).foldl
      (fun (acc : K) t => acc + vec[vo + (fc + (t + 1))]! * M[mo + ((fc + (t + 1)) * ldm + k)]!)
      (vec[vo + fc]! * M[mo + (fc * ldm + k)]!)

/-- `for (k = 0; k < nrow; k++) Mxvec[k] += ...` -/
def matvecBlock (cplx : Bool) (w ldm nrow : Nat) (M : Array K) (mo : Nat) (vec : Array K) (vo fc : Nat)
    (y : Array K) : Array K :=
  (List.range nrow).foldl (fun (y : Array K) k =>
    y.setIfInBounds k (matvecCell cplx w ldm M mo vec vo fc k y[k]!)) y

def matvecWhile (cplx : Bool) (w ldm nrow ncol : Nat) (M : Array K) (mo : Nat) (vec : Array K) (vo : Nat) :
    Nat → Array K × Nat → Array K × Nat
  | 0, st => st
  | fuel + 1, st =>
    if st.2 + (w - 1) < ncol then
      matvecWhile cplx w ldm nrow ncol M mo vec vo fuel (matvecBlock cplx w ldm nrow M mo vec vo st.2 st.1, st.2 + w)
    else st

/-- `[sdcz]matvec(ldm, nrow, ncol, M, vec, Mxvec)` -/
def matvec (cplx : Bool) (ldm nrow ncol : Nat) (M : Array K) (mo : Nat) (vec : Array K) (vo : Nat) (y : Array K) : Array K :=
  let s0 : Array K × Nat := (y, 0)
  let s1 := if cplx then s0 else matvecWhile cplx 8 ldm nrow ncol M mo vec vo ncol s0
  let s2 := matvecWhile cplx 4 ldm nrow ncol M mo vec vo ncol s1
  (matvecWhile cplx 1 ldm nrow ncol M mo vec vo ncol s2).1

/-! ### snode_bmod -/

/-- what `[sdcz]snode_bmod` reads and writes: `Glu->lusup`, `Glu->xlusup`, `dense`, `tempv`, and the
two counters of `stat->ops` it increments (as increments) -/
structure SnodeSt (K : Type) where
  lusup : Array K
  xlusup : Array Nat
  dense : Array K
  tempv : Array K
  opsTrsv : Nat := 0
  opsGemv : Nat := 0

variable [Zero K]

/-- "Process the supernodal portion of L\U[*,j]" (dsnode_bmod.c:75-80): copy `dense[irow]` into the
next cell of `lusup` and clear it, row by row in the order of `lsub` -/
def snodeScatter (lsub : Array Nat) (istart nsupr nextlu : Nat) (lusup dense : Array K) : Array K × Array K :=
  (List.range nsupr).foldl (fun (p : Array K × Array K) t =>
    (p.1.setIfInBounds (nextlu + t) p.2[lsub[istart + t]!]!, p.2.setIfInBounds lsub[istart + t]! 0)) (lusup, dense)

/-- "Scatter tempv[*] into lusup[*]" (dsnode_bmod.c:111-115) -/
def snodeUnload (iptr nrow : Nat) (lusup tempv : Array K) : Array K × Array K :=
  (List.range nrow).foldl (fun (p : Array K × Array K) i =>
    (p.1.setIfInBounds (iptr + i) (p.1[iptr + i]! - p.2[i]!), p.2.setIfInBounds i 0)) (lusup, tempv)

/-- `[sdcz]snode_bmod(jcol, jsupno, fsupc, dense, tempv, Glu, stat)`; `jsupno` is not referenced by
the routine.  Own-BLAS branch. -/
def snodeBmod (cplx : Bool) (jcol fsupc : Nat) (lsub xlsub : Array Nat) (st : SnodeSt K) : SnodeSt K :=
  let nextlu := st.xlusup[jcol]!
  let istart := xlsub[fsupc]!
  let nsupr := xlsub[fsupc + 1]! - istart
  let p := snodeScatter lsub istart nsupr nextlu st.lusup st.dense
  let xlusup := st.xlusup.setIfInBounds (jcol + 1) (nextlu + nsupr)
  if fsupc < jcol then
    let luptr := xlusup[fsupc]!
    let nsupc := jcol - fsupc
    let ufirst := xlusup[jcol]!
    let nrow := nsupr - nsupc
    let lusup1 := lsolveA cplx nsupr nsupc p.1 luptr ufirst
    let tempv1 := matvec cplx nsupr nrow nsupc lusup1 (luptr + nsupc) lusup1 ufirst st.tempv
    let q := snodeUnload (ufirst + nsupc) nrow lusup1 tempv1
    { lusup := q.1, xlusup := xlusup, dense := p.2, tempv := q.2,
      opsTrsv := st.opsTrsv + (if cplx then 4 else 1) * nsupc * (nsupc - 1),
      opsGemv := st.opsGemv + (if cplx then 8 else 2) * nrow * nsupc }
  else
    { st with lusup := p.1, xlusup := xlusup, dense := p.2 }

end generic

end Slu.MyBlas2
