import Slu.Model.LU
/-
Depth-first search on the column dependency graph of the left-looking LU, and the elimination
schedule it produces (specification level of SRC/[sdcz]column_dfs.c / [sdcz]panel_dfs.c).

Nodes are the previous columns `k < j` ("pivot numbering": row `piv k` is pivotal in column `k`).
`adj k` lists the successors of `k`: the columns `k'` with `k < k' < j` whose pivot row lies in
struct(L_k).  Every successor is larger than its node, so the graph is a DAG and `j - k` bounds the
depth of the search below `k`; the functions take that bound as fuel (`dfsRevPost j …`).

* `dfsVisit`   — visit one node: skip it if already finished, otherwise search all its successors in
  turn and put the node in FRONT of the list.  The accumulator therefore holds the finished nodes in
  REVERSE POSTORDER — the order in which [sdcz]column_bmod / panel_bmod walk `segrep` (from the end).
* `dfsRevPost` — the search started from each root in turn (roots = the previous columns whose pivot
  row is a nonzero row of `A(:,j)`); `dfsPost` is its reverse, the postorder that `segrep` holds.
* `numAdj`, `numRoots` — the numerically nonzero pattern read off a factorization state.
* `dfsSchedule` — one single-column supernode per reached column, in reverse postorder.

In a DAG a successor can never be an ancestor on the search stack, so "already finished" and the C
code's "already marked" coincide; supernode representatives and pruning are not modelled here.
Core Lean only.  Properties: SluProofs/Lemmas/DfsTopo.lean, SluProofs/Props/C02.lean.
-/
namespace Slu.LU
open Slu

/-- visit node `k` with accumulator `post` (finished nodes, last finished first) -/
def dfsVisit (adj : Nat → List Nat) : Nat → Nat → List Nat → List Nat
  | 0, _, post => post
  | fuel + 1, k, post =>
    if k ∈ post then post
    else k :: (adj k).foldl (fun acc r => dfsVisit adj fuel r acc) post

/-- visit the nodes `rs` in turn -/
def dfsList (adj : Nat → List Nat) (fuel : Nat) (rs : List Nat) (post : List Nat) : List Nat :=
  rs.foldl (fun acc r => dfsVisit adj fuel r acc) post

/-- reverse postorder of the depth-first search from `roots` (`j` = number of nodes = fuel) -/
def dfsRevPost (j : Nat) (adj : Nat → List Nat) (roots : List Nat) : List Nat :=
  dfsList adj j roots []

/-- postorder of the depth-first search from `roots` (what `segrep` holds, one node per column) -/
def dfsPost (j : Nat) (adj : Nat → List Nat) (roots : List Nat) : List Nat :=
  (dfsRevPost j adj roots).reverse

section pattern
variable {K : Type} [Zero K] [DecidableEq K]

/-- numerically nonzero successors of column `k`: the `k'` with `k < k' < j` and `L_k(piv k') ≠ 0` -/
def numAdj (st : St K) (j k : Nat) : List Nat :=
  (List.range j).filter fun k' => decide (k < k') && decide ((st.L.getD k #[]).get (st.piv.getD k' 0) ≠ 0)

/-- numerically nonzero roots of a column `w`: the `k < j` with `w(piv k) ≠ 0` -/
def numRoots (st : St K) (j : Nat) (w : Vec K) : List Nat :=
  (List.range j).filter fun k => decide (w.get (st.piv.getD k 0) ≠ 0)
end pattern

/-- the columns `order` of the state as a sequence of single-column supernodes -/
def scheduleOf {K : Type} (st : St K) (order : List Nat) : List (List (Nat × Vec K)) :=
  order.map fun k => [(st.piv.getD k 0, st.L.getD k #[])]

/-- the schedule of column `j` for a pattern `adj` and start rows `roots`: reverse DFS postorder -/
def dfsSchedule {K : Type} (st : St K) (j : Nat) (adj : Nat → List Nat) (roots : List Nat) :
    List (List (Nat × Vec K)) :=
  scheduleOf st (dfsRevPost j adj roots)

/-- the schedule of column `j` (= `w`) computed from the numerically nonzero pattern -/
def dfsScheduleNum {K : Type} [Zero K] [DecidableEq K] (st : St K) (j : Nat) (w : Vec K) :
    List (List (Nat × Vec K)) :=
  dfsSchedule st j (numAdj st j) (numRoots st j w)

/-! ### Supernode representatives

The real search runs on SUPERNODES: `rep k` is the representative (last column) of the supernode
that holds column `k`, `adjS s` lists the columns `k' > s` whose pivot row lies in the structure of
supernode `s` below its diagonal block.  A hit on column `k` visits the node `rep k` and records the
smallest column hit in that supernode (`repfnz`); the numeric update then applies, for every
representative in reverse postorder, the columns `repfnz..rep` of that supernode as ONE block. -/

/-- the columns `lo, lo+1, …, hi` -/
def colSeg (lo hi : Nat) : List Nat := List.range' lo (hi + 1 - lo)

/-- reverse postorder of the search on supernode representatives -/
def snodeReps (j : Nat) (rep : Nat → Nat) (adjS : Nat → List Nat) (roots : List Nat) : List Nat :=
  dfsRevPost j (fun s => (adjS s).map rep) (roots.map rep)

/-- `repfnz[s]`: the smallest column of supernode `s` among the columns `hits` met by the search -/
def snodeFnz (rep : Nat → Nat) (hits : List Nat) (s : Nat) : Nat :=
  (hits.filter fun k => rep k == s).foldl min s

/-- the supernodal segments `repfnz[s]..s`, one per reached representative, in reverse postorder -/
def snodeSegs (j : Nat) (rep : Nat → Nat) (adjS : Nat → List Nat) (roots : List Nat) : List (List Nat) :=
  let reps := snodeReps j rep adjS roots
  let hits := roots ++ reps.flatMap adjS
  reps.map fun s => colSeg (snodeFnz rep hits s) s

/-- the supernodal schedule of column `j`: one block per reached supernode -/
def snodeSchedule {K : Type} (st : St K) (j : Nat) (rep : Nat → Nat) (adjS : Nat → List Nat) (roots : List Nat) :
    List (List (Nat × Vec K)) :=
  (snodeSegs j rep adjS roots).map fun seg => seg.map fun k => (st.piv.getD k 0, st.L.getD k #[])

end Slu.LU
