import Slu.Proto
import Slu.Model.Ilu
import Slu.Drv.Lu
/-
C15 — event-level bit mirror of `ilu_[sdcz]pivotL` (hook H2, harness/ilu_events.c, prefix `ie.`).

Corr  every recorded pivot step: `Slu.Ilu.realPivotG` / `complexPivotG` (the SAME `iluPivotChoice` the
      theorems of Props/C15 are about) followed by `iluApply` is run at the routine's own arithmetic type
      (`Float`, `Float32`, `Cx Float`, `Cx Float32`) on the phase-0 record — candidate rows and values,
      eligibility flags `marker[row] <= jcol`, free row of `swap`, milu, drop_sum, fill_tol, u, reuse flag,
      remembered row — and compared with the phase-1 record: return value, chosen row, updated reuse flag,
      row subscripts after the interchange, and EVERY candidate value after reset / interchange / cdiv,
      bit for bit (NaN canonicalised as in `firstDiff`).  Nothing is compared with a tolerance: `z_abs` /
      `c_abs` inside `z_sgn` use only `+ * / sqrt`, all correctly rounded, so `Float.sqrt` mirrors them.
Prop  on the implementation's own outputs, exact rationals of the recorded floats:
      (a) the routine returns 0 or jcol+1;
      (b) return 0  => the pivot it leaves (position 0 after the interchange) is nonzero;
      (c) an eligible candidate exists => a pivot is chosen, and a return of jcol+1 leaves exactly
          `fill_tol` (rounded to the storage type) + 0i as the pivot;
      (d) the chosen row is an eligible candidate of the column and after the interchange it heads the
          column; inside a factorization (family `ilu`) a column without eligible candidate must not
          return 0 (only the free row could be taken, with return value jcol+1).  In the unit-level family
          `ilupiv` inputs outside the hypotheses of `ilu_pivot_total` (no eligible candidate) are generated
          on purpose: for them only (a), (b) and the bit mirror are evaluated.
-/
namespace Slu.Drv.IluEvents
open Slu Slu.Ilu Slu.Drv.Lu

structure IEv where
  jcol : Nat
  useprIn : Bool
  oldrowRaw : Int
  diagind : Nat
  milu : Milu
  miluRaw : Int
  ncand : Nat
  n : Nat
  freeRow : Option Nat
  pivrow : Int
  useprOut : Bool
  info : Int
  haveExit : Bool
  clamped : Bool
  badrow : Bool
  off : Nat
deriving Inhabited

def nhdr : Nat := 16

/-- `milu_t` of slu_util.h: SILU, SMILU_1, SMILU_2, SMILU_3 -/
def miluOf (x : Int) : Milu := if x == 1 then .smilu1 else if x == 2 then .smilu2 else if x == 3 then .smilu3 else .silu

def decodeIluEvents (c : Case) : Array IEv := Id.run do
  let h := c.int "ie.hdr"
  let k := h.size / nhdr
  let mut off := 0
  let mut out : Array IEv := #[]
  for i in List.range k do
    let g (t : Nat) : Int := h[nhdr*i+t]!
    out := out.push { jcol := (g 0).toNat, useprIn := g 1 ≠ 0, oldrowRaw := g 2, diagind := natOr (g 3), milu := miluOf (g 4), miluRaw := g 4,
                      ncand := (g 5).toNat, n := (g 6).toNat, freeRow := if g 7 < 0 then none else some (g 7).toNat,
                      pivrow := g 8, useprOut := g 9 ≠ 0, info := g 10, haveExit := g 11 ≠ 0, clamped := g 12 ≠ 0, badrow := g 13 ≠ 0, off := off }
    off := off + (g 5).toNat
  return out

/-- `pivmax = fill_tol` : the `double` argument converted to the routine's real type -/
class FromDbl (R : Type) where
  ofDbl : Float → R
instance : FromDbl Float := ⟨id⟩
instance : FromDbl Float32 := ⟨Float.toFloat32⟩

/-- what the model predicts for one event, in type-neutral form -/
structure Pred where
  ret : Nat
  pos : Option Nat
  pivrow : Nat
  usepr : Bool
  rowsAfter : Array Nat
  bitsAfter : Array UInt64

def mkCands {K : Type} (rows : Array Nat) (elig : Array Int) (vals : Array K) [Inhabited K] : List (Cand K) :=
  (List.range rows.size).map fun k => { row := rows[k]!, val := vals[k]!, elig := (elig.getD k 0) == 1 }

section real
variable (R : Type) [Inhabited R] [Mag R R] [Wire R] [Zero R] [One R] [Neg R] [Add R] [Mul R] [Div R]
  [LT R] [DecidableLT R] [LE R] [DecidableLE R] [BEq R] [ThrMul R] [FromDbl R]

/-- `ilu_[sd]pivotL` on one recorded event -/
def predReal (e : IEv) (u ft : Float) (dsBits : Array UInt64) (rows : Array Nat) (elig : Array Int) (valBits : Array UInt64) : Pred :=
  let vals : Array R := Wire.dec valBits
  let ds : R := (Wire.dec dsBits : Array R)[0]!
  let cands := mkCands rows elig vals
  let inp : PivIn R R := { jcol := e.jcol, u := FromDbl.ofDbl u, usepr := e.useprIn, pivrowIn := natOr e.oldrowRaw, diagind := e.diagind,
                           cands := cands, fillTol := FromDbl.ofDbl ft, milu := e.milu, dropSum := ds, freeRow := e.freeRow }
  let o := realPivotG (ThrMul.thr u) inp
  let after := iluApply cands o
  { ret := o.ret, pos := o.pos, pivrow := o.pivrow, usepr := o.usepr,
    rowsAfter := (after.map (·.row)).toArray, bitsAfter := Wire.enc (after.map (·.val)).toArray }
end real

section cplx
variable (R : Type) [Inhabited R] [Mag (Cx R) R] [Wire (Cx R)] [Zero R] [One R] [Neg R] [Add R] [Sub R] [Mul R] [Div R]
  [LT R] [DecidableLT R] [LE R] [DecidableLE R] [BEq R] [ThrMul R] [FromDbl R] [Modulus R]

/-- `ilu_[cz]pivotL` on one recorded event -/
def predCplx (e : IEv) (u ft : Float) (dsBits : Array UInt64) (rows : Array Nat) (elig : Array Int) (valBits : Array UInt64) : Pred :=
  let vals : Array (Cx R) := Wire.dec valBits
  let ds : Cx R := (Wire.dec dsBits : Array (Cx R))[0]!
  let cands := mkCands rows elig vals
  let inp : PivIn (Cx R) R := { jcol := e.jcol, u := FromDbl.ofDbl u, usepr := e.useprIn, pivrowIn := natOr e.oldrowRaw, diagind := e.diagind,
                                cands := cands, fillTol := FromDbl.ofDbl ft, milu := e.milu, dropSum := ds, freeRow := e.freeRow }
  let o := complexPivotG (ThrMul.thr u) Modulus.zabs inp
  let after := iluApply cands o
  { ret := o.ret, pos := o.pos, pivrow := o.pivrow, usepr := o.usepr,
    rowsAfter := (after.map (·.row)).toArray, bitsAfter := Wire.enc (after.map (·.val)).toArray }
end cplx

def pred (ty : Char) (e : IEv) (u ft : Float) (dsBits : Array UInt64) (rows : Array Nat) (elig : Array Int) (valBits : Array UInt64) : Pred :=
  match ty with
  | 'd' => predReal Float e u ft dsBits rows elig valBits
  | 's' => predReal Float32 e u ft dsBits rows elig valBits
  | 'z' => predCplx Float e u ft dsBits rows elig valBits
  | _ => predCplx Float32 e u ft dsBits rows elig valBits

/-- per-event slices of the protocol arrays -/
structure Slices where
  rows0 : Array Int
  rows1 : Array Int
  elig : Array Int
  v0 : Array UInt64
  v1 : Array UInt64
  ds : Array UInt64
  u : Float
  ft : Float
  ftBits : UInt64

structure Pools where
  rows0 : Array Int
  rows1 : Array Int
  elig : Array Int
  v0 : Array UInt64
  v1 : Array UInt64
  ds : Array UInt64
  us : Array UInt64
  fts : Array UInt64

def Pools.ofCase (c : Case) : Pools :=
  { rows0 := c.int "ie.rows0", rows1 := c.int "ie.rows1", elig := c.int "ie.elig0", v0 := c.raw "ie.vals0", v1 := c.raw "ie.vals1",
    ds := c.raw "ie.ds", us := c.raw "ie.u", fts := c.raw "ie.filltol" }

def Pools.slice (p : Pools) (w : Nat) (i : Nat) (e : IEv) : Slices :=
  { rows0 := p.rows0.extract e.off (e.off + e.ncand), rows1 := p.rows1.extract e.off (e.off + e.ncand),
    elig := p.elig.extract e.off (e.off + e.ncand),
    v0 := p.v0.extract (e.off * w) ((e.off + e.ncand) * w), v1 := p.v1.extract (e.off * w) ((e.off + e.ncand) * w),
    ds := p.ds.extract (i * w) ((i + 1) * w), u := Float.ofBits (p.us.getD i 0), ft := Float.ofBits (p.fts.getD i 0), ftBits := p.fts.getD i 0 }

/-- exact value of a stored scalar (`w` words starting at `k*w`) as (re, im); `none` = not finite -/
def ratAt (dbl : Bool) (w : Nat) (a : Array UInt64) (k : Nat) : Option (Rat × Rat) :=
  let f (b : UInt64) : Option Rat := if dbl then f64ToRat? b else f32ToRat? b
  match f (a.getD (k * w) 0), (if w == 2 then f (a.getD (k * w + 1) 0) else some 0) with
  | some x, some y => some (x, y)
  | _, _ => none

/-- `fill_tol` as the routine stores it: the double rounded to the storage type (`pivmax = fill_tol`) -/
def fillTolStored (dbl : Bool) (ftBits : UInt64) : Option Rat :=
  if dbl then f64ToRat? ftBits else f32ToRat? ((Float.ofBits ftBits).toFloat32.toBits.toUInt64)

/-- events outside the scope of the comparison: garbage subscripts / negative candidate counts only arise
after the routine returned without a pivot (open finding) -/
def IEv.usable (e : IEv) : Bool := e.haveExit && !e.clamped && !e.badrow

/-- Prop clauses on the implementation's outputs; `none` = all hold -/
def evProp (c : Case) (evs : Array IEv) (unitLevel : Bool := false) : Option String := Id.run do
  let dbl := c.isDouble
  let w := if c.isComplex then 2 else 1
  let P := Pools.ofCase c
  let call := s!"ilu_{c.ty}pivotL"
  let mut idx := 0
  for e in evs do
    let i := idx; idx := idx + 1
    if !e.usable then continue
    let s := P.slice w i e
    let eligRows : List Int := (List.range e.ncand).filterMap fun k => if (s.elig.getD k 0) == 1 then some (s.rows0.getD k 0) else none
    let anyElig := !eligRows.isEmpty
    let where_ := s!"{call} column {e.jcol} (milu={e.miluRaw}, {e.ncand} candidates)"
    if e.info ≠ 0 ∧ e.info ≠ (e.jcol : Int) + 1 then
      return some s!"{where_}: returns {e.info}, neither 0 nor jcol+1"
    if e.info == 0 then
      if e.ncand == 0 then return some s!"{where_}: returns 0 for a column without candidate rows"
      match ratAt dbl w s.v1 0 with
      | some (x, y) => if x == 0 ∧ y == 0 then return some s!"{where_}: returns 0 but the pivot it leaves is exactly zero"
      | none => pure ()
    -- a remembered row that is not an eligible candidate of the column (dropped from L by the new values) is
    -- abandoned by the routine since "fix: ilu_[sdcz]pivotL: a remembered pivot row that is absent ..." -- the
    -- clauses below hold with or without it (theorem ilu_pivot_row_recorded)
    let reuseOk := true
    -- `drop_sum >= 0` (and real) in the variants where it is a sum of magnitudes: hypothesis `hds` of the theorems
    let dsOk := !e.milu.absVariant || (match ratAt dbl w s.ds 0 with | some (x, y) => x ≥ 0 ∧ y == 0 | none => false)
    if anyElig ∧ reuseOk ∧ dsOk then
      -- a pivot must have been chosen: an eligible candidate row heading the column
      if !(eligRows.contains e.pivrow) then
        return some s!"{where_}: the chosen pivot row {e.pivrow} is not an eligible candidate (eligible rows {eligRows})"
      if s.rows1[0]! ≠ e.pivrow then
        return some s!"{where_}: after the interchange the column is headed by row {s.rows1[0]!}, not by the pivot row {e.pivrow}"
      if e.info ≠ 0 then
        match ratAt dbl w s.v1 0, fillTolStored dbl s.ftBits with
        | some (x, y), some ft =>
          if x ≠ ft ∨ y ≠ 0 then return some s!"{where_}: returns jcol+1 but the stored pivot is not fill_tol"
        | none, _ => return some s!"{where_}: returns jcol+1 but the stored pivot is not finite"
        | _, none => pure ()
    else if e.info == 0 ∧ !unitLevel then
      return some s!"{where_}: returns 0 although no candidate row is eligible (chosen row {e.pivrow})"
  return none

/-- bit mirror of `ilu_[sdcz]pivotL` on every recorded event; `none` = all agree.  Second component:
tags describing which paths the events of this case exercised. -/
def evCorr (c : Case) (evs : Array IEv) : Option String × List String := Id.run do
  let w := if c.isComplex then 2 else 1
  let P := Pools.ofCase c
  let call := s!"ilu_{c.ty}pivotL"
  let mut idx := 0
  let mut tags : List String := []
  let addTag (ts : List String) (t : String) : List String := if ts.contains t then ts else ts ++ [t]
  for e in evs do
    let i := idx; idx := idx + 1
    if !e.haveExit then return (some s!"{call} event {i} (column {e.jcol}) has no exit record", tags)
    if !e.usable then tags := addTag tags "ie=skipped-garbage"; continue
    let s := P.slice w i e
    let p := pred c.ty e s.u s.ft s.ds (s.rows0.map Int.toNat) s.elig s.v0
    let where_ := s!"{call} column {e.jcol} (milu={e.miluRaw}, u={s.u}, usepr={e.useprIn})"
    if (p.ret : Int) ≠ e.info then return (some s!"{where_}: return value model={p.ret} impl={e.info}", tags)
    if p.usepr ≠ e.useprOut then return (some s!"{where_}: usepr model={p.usepr} impl={e.useprOut}", tags)
    -- paths
    let dsZero := s.ds.all fun b => b == 0 || b == 0x8000000000000000 || b == 0x80000000
    if !dsZero then tags := addTag tags s!"ie=ds!=0:milu{e.miluRaw}"
    if e.info ≠ 0 then tags := addTag tags (if p.pos.isSome then "ie=zero-pivot-replaced" else "ie=no-pivot")
    if e.info ≠ 0 ∧ !dsZero ∧ e.milu == .smilu1 then tags := addTag tags "ie=smilu1-cancel"
    if e.useprIn then tags := addTag tags (if e.useprOut then "ie=reuse-kept" else "ie=reuse-abandoned")
    if (s.elig.any (· ≠ 1)) then tags := addTag tags "ie=ineligible-rows"
    if e.ncand == 0 then continue     -- nothing the routine may touch
    match p.pos with
    | none =>
      if e.pivrow ≠ e.oldrowRaw then return (some s!"{where_}: return without a pivot but *pivrow changed from {e.oldrowRaw} to {e.pivrow}", tags)
    | some _ =>
      if (p.pivrow : Int) ≠ e.pivrow then return (some s!"{where_}: pivot row model={p.pivrow} impl={e.pivrow}", tags)
    if p.rowsAfter.map (Int.ofNat ·) ≠ s.rows1 then return (some s!"{where_}: row interchange differs: model={p.rowsAfter} impl={s.rows1}", tags)
    match firstDiff p.bitsAfter s.v1 with
    | some k => return (some s!"{where_}: value {k / w} of the column after reset/interchange/cdiv: model={showBits p.bitsAfter k} impl={showBits s.v1 k}", tags)
    | none => pure ()
  return (none, tags)

end Slu.Drv.IluEvents
