import Slu.Proto
import Slu.Model.Ldperm
-- HANDLER ldperm => Slu.Drv.Ldperm.handle
/-
Driver for family `ldperm` (C17).

Prop (exact rationals on the implementation's outputs): index arrays returned unchanged; on inputs
whose nonzero pattern has no perfect matching the return value is nonzero; otherwise `perm` is a
permutation, every diagonal position of the permuted matrix holds a nonzero, and the returned duals
`u`, `v` (logarithms, as `ldperm` returns them) satisfy the certificate
`|a_ij| * exp(u_i) * exp(v_j) ≤ 1 + s_ij`, `≥ 1 - s_ij` on the matched entries — evaluated with the
verified checker `matchingCertS` — and, for n ≤ 7, the matched product is compared with the brute-force
optimum over all n! matchings exactly as `matchingCertS_optimal` states it.

Corr: the glue model `Slu.Ldperm.ldperm`, run with the implementation's MC64 outputs as the oracle,
reproduces every observable; MC64 does not write the values; the return value follows the
documented MC64 rule (1: no perfect matching of the stored pattern, 2: some dual ≥ log(huge)/2);
no block is left allocated.
-/
namespace Slu.Drv.Ldperm
open Slu Slu.Ldperm

def entriesOf (n : Nat) (colptr rowind : Array Int) (mags : Array Rat) : List WEntry :=
  (List.range n).flatMap fun j =>
    let a := (colptr.getD j 0).toNat; let b := (colptr.getD (j+1) 0).toNat
    (List.range (b - a)).map fun d => ((rowind.getD (a + d) 0).toNat, j, mags.getD (a + d) 0)

/-- crude upper bound of `|ln x|` for a positive rational: `(|log2| + 1) * 0.7` -/
def absLnBound (x : Rat) : Rat :=
  if x ≤ 0 then 0 else
  let a := Nat.log2 x.num.toNat; let b := Nat.log2 x.den
  let d : Nat := if a ≥ b then a - b else b - a
  ((d + 1 : Nat) : Rat) * (7 / 10)

structure Verdict where
  prop : Option String := none
  corr : Option String := none
  tags : List String := []
  cls : String := "exact"
  nontrivial : Bool := false

def run (c : Case) : Verdict := Id.run do
  let n := c.pNat "n"
  let dbl := c.isDouble
  let eps : Rat := if dbl then pow2 (-53) else pow2 (-24)
  let colptr0 := c.int "colptr0"; let rowind0 := c.int "rowind0"
  let colptr1 := c.int "colptr1"; let rowind1 := c.int "rowind1"
  let ret := c.pInt "ret" (-999)
  let perm := c.int "perm"
  let nnz := rowind0.size
  let kindTag := s!"kind={c.p "kind"}"
  let baseTags := [s!"ty={c.ty}", kindTag, s!"vmode={c.p "vmode"}", s!"ret={ret}", s!"n={n}"] ++
    (if c.p "sub" ≠ "-" then [s!"sub={c.p "sub"}"] else [])
  -- magnitudes as the library measures them: |x| resp. |re|+|im|
  let some av := ratsOf dbl (c.raw "val0") | return { prop := some "input values not finite", tags := baseTags }
  let mags : Array Rat := if c.isComplex then (Array.range (av.size / 2)).map (fun k => rabs av[2*k]! + rabs av[2*k+1]!) else av.map rabs
  let es := entriesOf n colptr0 rowind0 mags
  let stored := es.map fun e => (e.1, e.2.1)
  let nz := (es.filter fun e => decide (e.2.2 > 0)).map fun e => (e.1, e.2.1)
  let mStored := maxMatching n stored
  let mNz := maxMatching n nz
  let structTag := if mStored < n then "struct=singular" else if mNz < n then "struct=zero-forced" else "struct=nonsingular"
  let tags := structTag :: baseTags
  -- ---------- Prop 1: the caller's index arrays come back unchanged
  let diffAt (a b : Array Int) : Nat := ((List.range (max a.size b.size)).find? fun i => a.getD i 0 ≠ b.getD i 0).getD 0
  if colptr1 ≠ colptr0 then
    let i := diffAt colptr0 colptr1
    return { prop := some s!"clause=arrays colptr changed by the call: position {i} was {colptr0.getD i 0}, is {colptr1.getD i 0}", tags := tags }
  if rowind1 ≠ rowind0 then
    let i := diffAt rowind0 rowind1
    return { prop := some s!"clause=arrays row indices changed by the call: position {i} was {rowind0.getD i 0}, is {rowind1.getD i 0}", tags := tags }
  -- ---------- Corr (computed now, reported only if Prop holds)
  let corr : Option String := Id.run do
    if firstDiff (c.raw "val0") (c.raw "val1") |>.isSome then return some "nzval modified by the call"
    if c.pInt "leak" ≠ 0 then return some s!"ldperm left {c.pInt "leak"} block(s) allocated"
    -- glue model with the implementation's MC64 outputs as the oracle
    let dw : Array UInt64 := (c.raw "u") ++ (c.raw "v")
    let o := ldperm (R := UInt64) (W := Unit) (fun _ _ _ _ => { cperm := perm.map (· + 1), dw := dw, info := ret }) n colptr0 rowind0 ()
    if o.colptr ≠ colptr1 ∨ o.adjncy ≠ rowind1 then return some "model: index arrays differ"
    if o.perm ≠ perm ∨ o.u ≠ c.raw "u" ∨ o.v ≠ c.raw "v" ∨ o.ret ≠ ret then return some "model: glue outputs differ"
    -- return-value rule of MC64 (mc64ad.c:601-622)
    if nnz = 0 then return (if ret = -3 then none else some s!"ret={ret} for an empty matrix, MC64 documents -3")
    if mStored < n then return (if ret = 1 ∨ ret = 2 then none else some s!"stored pattern has no perfect matching (size {mStored}) but ret={ret}, expected 1 (or 2)")
    if ret = 1 then return some s!"ret=1 although the stored pattern has a perfect matching"
    match ratsOf dbl dw with
    | none => return (if ret = 2 then none else some s!"non-finite duals but ret={ret}")
    | some ds =>
      let fact : Rat := 35489 / 100       -- log(DBL_MAX)/2 = 354.891...
      let big := ds.any fun d => decide (d > fact * (1 + 1/1000))
      let small := ds.all fun d => decide (d < fact * (1 - 1/1000))
      if big ∧ ret ≠ 2 then return some s!"a dual exceeds log(huge)/2 but ret={ret}, expected 2"
      if small ∧ ret ≠ 0 then return some s!"all duals below log(huge)/2 and a perfect matching exists but ret={ret}, expected 0"
      return none
  -- ---------- Prop 2: structural singularity is reported
  if mNz < n then
    if mStored < n then
      if ret = 0 then return { prop := some s!"clause=singular-reported structurally singular input (maximum matching {mStored} of {n}) but the return value is 0", tags := tags }
      return { corr := corr, tags := tags, cls := "exact", nontrivial := n ≥ 2 }
    -- "zero-forced": the stored pattern has a perfect matching but only through explicitly stored zeros.
    -- The property speaks about nonzero patterns; what the code does here is recorded, and asserted only
    -- with strictzero=1 (see the C17 level note: an explicitly stored all-zero column is NOT reported).
    if ret ≠ 0 then return { corr := corr, tags := "zero-forced:reported" :: tags, cls := "exact", nontrivial := n ≥ 2 }
    let zeroCol := (List.range n).any fun j => (es.filter fun e => e.2.1 == j).all fun e => decide (e.2.2 = 0)
    let ztag := if zeroCol then "zero-forced:ret0-zero-column" else "zero-forced:ret0-other"
    if c.p "strictzero" == "1" then
      return { prop := some s!"clause=singular-reported no perfect matching on the nonzero entries (maximum {mNz} of {n}) but the return value is 0", tags := ztag :: tags }
    let okPerm := perm.size = n ∧ (perm.all fun p => decide (0 ≤ p ∧ p < (n : Int))) ∧ isPermFn n (fun i => (perm.getD i 0).toNat) ∧
      (List.range n).all fun i => stored.contains (i, (perm.getD i 0).toNat)
    if ¬ okPerm then return { prop := some s!"clause=perm return value 0 but perm is not a bijection onto stored entries: {perm}", tags := ztag :: tags }
    return { corr := corr, tags := ztag :: tags, cls := "exact", nontrivial := n ≥ 2 }
  -- ---------- Prop 3: structurally nonsingular — permutation, nonzero diagonal, certificate, optimum
  let inRange := perm.size = n ∧ perm.all fun p => decide (0 ≤ p ∧ p < (n : Int))
  if ¬ inRange then return { prop := some s!"clause=perm perm is not a map into 0..n-1: {perm}", tags := tags }
  let σ : Nat → Nat := fun i => (perm.getD i 0).toNat
  if ¬ isPermFn n σ then return { prop := some s!"clause=perm perm is not a bijection: {perm}", tags := tags }
  match (List.range n).find? (fun i => decide (Wof es i (σ i) ≤ 0)) with
  | some i => return { prop := some s!"clause=diag-nonzero row {i} is matched to column {σ i} where the matrix has no nonzero: zero on the diagonal", tags := tags }
  | none =>
  let some us := ratsOf dbl (c.raw "u") | return { prop := some "u not finite on a structurally nonsingular input", tags := tags }
  let some vs := ratsOf dbl (c.raw "v") | return { prop := some "v not finite on a structurally nonsingular input", tags := tags }
  if us.size ≠ n ∨ vs.size ≠ n then return { prop := some "u/v length", tags := tags }
  let some eu := us.mapM expQ | return { prop := some "a row dual exceeds 131072 in magnitude", tags := tags }
  let some ev := vs.mapM expQ | return { prop := some "a column dual exceeds 131072 in magnitude", tags := tags }
  let r : Nat → Rat := fun i => eu.getD i 0
  let cc : Nat → Rat := fun j => ev.getD j 0
  -- per-entry slack: the duals are logarithms evaluated in floating point
  let lnMax : Rat := es.foldl (fun acc e => max acc (absLnBound e.2.2)) 0
  let slack (i j : Nat) : Rat := (rabs (us.getD i 0) + rabs (vs.getD j 0) + 8) * eps
  let wide (i j : Nat) : Rat := 16 * (rabs (us.getD i 0) + rabs (vs.getD j 0) + 2 * lnMax + 8) * eps
  let mut worst : Rat := 0     -- largest violation measured in units of the DESIGN slack
  let mut worstW : Rat := 0    -- ... and in units of the slack actually applied
  let mut bad : Option String := none
  for e in es do
    let (i, j, w) := e
    if w = 0 then continue
    let b := r i * w * cc j
    let dev := if j = σ i then rabs (b - 1) else (if b > 1 then b - 1 else 0)
    let q := dev / slack i j
    if q > worst then worst := q
    if dev / wide i j > worstW then worstW := dev / wide i j
    if dev > wide i j ∧ bad.isNone then
      let what := if j = σ i then "matched entry" else "entry"
      bad := some s!"{what} ({i},{j}): |a|*exp(u_i+v_j) - 1 = {(dev * 1000000).floor}e-6 exceeds the rounding slack"
  let ratioTag := if worst ≤ 1/4 then "slackuse<=1/4" else if worst ≤ 1 then "slackuse<=1" else if worst ≤ 4 then "slackuse<=4" else if worst ≤ 16 then "slackuse<=16" else "slackuse>16"
  let wTag := if worstW ≤ 1/64 then "wideuse<=1/64" else if worstW ≤ 1/16 then "wideuse<=1/16" else "wideuse<=1"
  let tags := if bad.isSome then tags else ratioTag :: wTag :: tags
  let cls := s!"[n={n} vmode={c.p "vmode"} kind={c.p "kind"}]"
  -- the verified checker with global bounds
  let smax : Rat := (List.range n).foldl (fun acc i => (List.range n).foldl (fun acc j => max acc (wide i j)) acc) 0
  let lo := 1 - smax; let hi := 1 + smax
  let certOk := matchingCertS lo hi n es σ r cc
  -- brute-force optimum (the failing-input search for the optimality clause)
  let tags := if n ≤ 7 then "brute" :: tags else tags
  if n ≤ 7 then
    let best := bruteBest n es
    let matched := prodAlong es ((List.range n).map σ)
    if lo ^ n * best > hi ^ n * matched then
      return { prop := some s!"clause=optimal {cls} the matched product of magnitudes is not maximal: another perfect matching has a product larger by the factor {((best / matched) * 1000).floor}e-3", tags := tags }
  match bad with
  | some msg => return { prop := some s!"clause=scaling {cls} {msg}", tags := tags }
  | none =>
  if ¬ certOk then return { prop := some s!"clause=scaling {cls} matchingCertS rejects the returned permutation and scalings", tags := tags }
  return { corr := corr, tags := tags, cls := "tolerance", nontrivial := n ≥ 2 }

def handle (c : Case) : Res :=
  let v := run c
  match v.prop with
  | some msg => Res.propFalse msg v.tags
  | none =>
    match v.corr with
    | some msg => Res.corr msg v.tags
    | none => Res.ok v.nontrivial v.tags v.cls

end Slu.Drv.Ldperm
