import Slu.Proto
import Slu.Model.History
import Slu.Model.Struct
import Slu.Model.Mem
import Slu.Model.Order
import Slu.Drv.Lu
-- HANDLER history => Slu.Drv.History.handle
/-
Driver for family `history` (C06): one case = one history of `[sdcz]gssvx` calls over one pattern.

Every step `k` is emitted under the prefix `s<k>.`; `subCase` strips it, so the clause evaluators of
family `lu` (`Slu.Drv.Lu`: `propFactors`, `propDiagPref`, `evCorr`, `decodeEvents`, `roundingFree`,
`decodeFac`) are applied unchanged to each step.

Prop  (on the implementation's outputs, exact rationals), per factoring step w.r.t. THAT step's
      matrix (as the driver left it, i.e. equilibrated): perm_c / perm_r bijections, inherited
      perm_c / etree untouched, scaling relation `Aout = diag(R) Ain diag(C)`, wfSC, identity
      `Pr A Pc = L U` within the bound (exactly on rounding-free steps), multiplier bound, nonzero
      diagonal, diagonal preference, one pivot event per column with a consistent reuse flag;
      per solve (factoring or FACTORED step): scaling of B, residual bound w.r.t. the matrix that
      was factored; FACTORED: L, U, perm_c, perm_r, etree, R, C, equed, A byte-identical before and
      after (hash + array comparison with the last factoring step's output); after the caller's
      documented clean-up no library-owned block is left alive.
Corr  (a) bit mirror of `[sdcz]pivotL` on every pivot event incl. those with `usepr = 1`;
      (b) the history replayed through `Slu.History.stepCall` in `Cx Rat`: on rounding-free steps
          perm_r, L, U and the reuse/abandon decision must equal the implementation's.

Storage clauses (messages start with `storage:`; C07 / C08 run this family with `only=…|storage:` in a caller
work area).  The harness samples the allocator state (hook H2 side: `Glu->stack`, the four base pointers,
`nzlumax/nzumax/nzlmax`, `num_expansions`, `expanders[].size`) on entry of every factoring call (`mem.in`), at
its first pivot call (`mem.first`) and on return (`mem.out`).
Prop  on `mem.first` and `mem.out` (caller work area): the pointer arrays and the four L/U arrays lie in
      address order inside `[0, top2]`, `top2 <= size <= lwork` — nothing handed to a writer is outside the
      caller's buffer or inside the work arrays at its tail.
Corr  (c) `SamePattern_SameRowPerm` steps: `Slu.Mem.memInitReuse` applied to `mem.in` must give `mem.first`
          field by field (mode, n, used/top1/top2/size, the four offsets resp. pointer identity, the four
          recorded lengths, nzlumax/nzumax/nzlmax, num_expansions, alignment, end of the pointer arrays);
      (d) every factoring step: from `mem.first` the model grows each array (`memXpand`, UCOL together with
          USUB) to the length the implementation ended with, then `workFree`: lengths, `num_expansions`,
          used/top1/top2/size and the four offsets must equal `mem.out`;
      (e) `mem.in` of a step equals `mem.out` of the previous factoring step (FACTORED calls and the
          caller's clean-up of the two Store headers do not touch `Glu`).
-/
namespace Slu.Drv.History
open Slu Slu.LU Slu.Drv.Lu Slu.History

/-- the entries of step `k`, prefix stripped; `ty` inherited -/
def subCase (c : Case) (k : Nat) : Case :=
  let pfx := s!"s{k}."
  let strip {α : Type} (l : List (String × α)) : List (String × α) :=
    l.filterMap fun kv => if kv.1.startsWith pfx then some ((kv.1.drop pfx.length).toString, kv.2) else none
  { fam := c.fam, id := c.id, params := ("ty", c.p "ty") :: strip c.params, ints := strip c.ints, bits := strip c.bits }

def equedOf (s : String) : Option Equed :=
  match s with
  | "N" => some .N | "R" => some .R | "C" => some .C | "B" => some .B | _ => none

def transOf (s : String) : Trans := match s with | "T" => .TRANS | "C" => .CONJ | _ => .NOTRANS

def qconj (z : Q) : Q := ⟨z.re, -z.im⟩
def qscale (z : Q) (r : Rat) : Q := ⟨z.re * r, z.im * r⟩

/-- what a factoring step left behind (implementation side) -/
structure Held where
  step : Nat
  sc : Case
  I : Impl
  equed : Equed
  R : Array Rat
  C : Array Rat

def intNames : List String := ["L.dims", "LU.nnz", "L.xsup", "L.supno", "L.xlsub", "L.lsub", "L.xlusup", "U.colptr", "U.rowind", "perm_c", "perm_r", "etree"]
def bitNames : List String := ["L.lusup", "U.val", "R", "C", "Aout"]

/-- `|x - y| <= rel * |y|` componentwise (re and im separately) -/
def closeTo (x y : Q) (rel : Rat) : Bool :=
  rabs (x.re - y.re) ≤ rel * rabs y.re && rabs (x.im - y.im) ≤ rel * rabs y.im

/-- scaling relation of the matrix: `Aout = diag(R) Ain diag(C)` as `laqgs` applies it (at most two
roundings per component), or bit-identical when `equed = N` -/
def propScaleA (sc : Case) (n : Nat) (colptr rowind : Array Nat) (eq : Equed) (R C : Array Rat) (eps : Rat) : Option String := Id.run do
  if eq = .N then
    if sc.raw "Ain" ≠ sc.raw "Aout" then return some "equed = N but the matrix was modified"
    return none
  let some ain := decQ? sc "Ain" | return some "matrix has non-finite entries"
  let some aout := decQ? sc "Aout" | return some "equilibrated matrix has non-finite entries"
  for j in List.range n do
    for q in List.range (colptr[j+1]! - colptr[j]!) do
      let p := colptr[j]! + q
      let i := rowind[p]!
      let f : Rat := (if eq.row then R.getD i 0 else 1) * (if eq.col then C.getD j 0 else 1)
      let e := qscale ain[p]! f
      if ¬ closeTo aout[p]! e (3 * eps) then return some s!"equed = {repr eq}: entry ({i},{j}) is not R*A*C up to rounding"
  return none

/-- the documented threshold rule, on exact ratios of the matrix handed in: with Equil = YES a factoring call
(any Fact except FACTORED) scales the rows iff min/max of the row maxima is below 0.1, the columns iff min/max of
the column maxima of the row-scaled matrix is below 0.1 (entries measured as |re|+|im|).  Only clear cases are
decided (ratio off the threshold by more than one part in a million, no empty row or column, magnitudes far from
the ends of the exponent range - the histories use moderate values). -/
def propEquilRule (sc : Case) (n : Nat) (colptr rowind : Array Nat) (eq : Equed) : Option String := Id.run do
  let some ain := decQ? sc "Ain" | return none
  let mag (z : Q) : Rat := rabs z.re + rabs z.im
  let mut rmax : Array Rat := Array.replicate n 0
  for j in List.range n do
    for p in List.range' colptr[j]! (colptr[j+1]! - colptr[j]!) do
      let i := rowind[p]!; let m := mag ain[p]!
      if m > rmax.getD i 0 then rmax := rmax.setIfInBounds i m
  if rmax.any (· == 0) then return none
  let big : Rat := (2 : Rat) ^ 60
  if rmax.any (fun x => x > big ∨ x < 1 / big) then return none
  let hi := rmax.foldl max 0; let lo := rmax.foldl min hi
  let rowcnd := lo / hi
  let mut cmax : Array Rat := Array.replicate n 0
  for j in List.range n do
    for p in List.range' colptr[j]! (colptr[j+1]! - colptr[j]!) do
      let i := rowind[p]!; let m := mag ain[p]! / rmax.getD i 1
      if m > cmax.getD j 0 then cmax := cmax.setIfInBounds j m
  if cmax.any (· == 0) then return none
  let chi := cmax.foldl max 0; let clo := cmax.foldl min chi
  let colcnd := clo / chi
  let thr : Rat := 1 / 10; let mrg : Rat := 1 / 1000000
  if rowcnd < thr * (1 - mrg) ∧ ¬ eq.row then return some s!"equil: Equil = YES and min/max of the row maxima is {(rowcnd * 1000).floor}/1000 < 0.1, but equed = {repr eq}: the rows were not scaled"
  if rowcnd > thr * (1 + mrg) ∧ eq.row then return some s!"equil: min/max of the row maxima is {(rowcnd * 1000).floor}/1000 >= 0.1, but equed = {repr eq}: the rows were scaled"
  if colcnd < thr * (1 - mrg) ∧ ¬ eq.col then return some s!"equil: Equil = YES and min/max of the column maxima of the row-scaled matrix is {(colcnd * 1000).floor}/1000 < 0.1, but equed = {repr eq}: the columns were not scaled"
  if colcnd > thr * (1 + mrg) ∧ eq.col then return some s!"equil: min/max of the column maxima of the row-scaled matrix is {(colcnd * 1000).floor}/1000 >= 0.1, but equed = {repr eq}: the columns were scaled"
  return none

/-- scaling of the right-hand side (dgssvx.c:599-611) and untouched padding rows -/
def propScaleB (sc : Case) (n : Nat) (eq : Equed) (R C : Array Rat) (eps : Rat) : Option String := Id.run do
  let nrhs := sc.pNat "nrhs"; let ldb := sc.pNat "ldb"
  let trant := sc.p "trant"
  let w := if sc.isComplex then 2 else 1
  let useR := trant == "N" && eq.row
  let useC := trant != "N" && eq.col
  if ¬ useR ∧ ¬ useC then
    if sc.raw "B0" ≠ sc.raw "Bout" then return some "B was modified although no scaling applies"
    return none
  let some b0 := decQ? sc "B0" | return some "B has non-finite entries"
  let some b1 := decQ? sc "Bout" | return some "scaled B has non-finite entries"
  for r in List.range nrhs do
    for i in List.range ldb do
      let p := i + r * ldb
      if i < n then
        let f := if useR then R.getD i 0 else C.getD i 0
        if ¬ closeTo b1[p]! (qscale b0[p]! f) (2 * eps) then return some s!"B({i},{r}) is not scaled by {if useR then "R" else "C"}({i})"
      else if (sc.raw "B0").extract (p * w) (p * w + w) ≠ (sc.raw "Bout").extract (p * w) (p * w + w) then
        return some s!"padding row {i} of B was modified"
  return none

/-- residual of one solve w.r.t. the matrix that was factored (`H.I.F`, equilibrated):
`|B' - op(F) x'| <= g(4n+4) (|L||U| permuted back)|x'| + g(n+1)|B'|` with `B'` the scaled right-hand
side the driver left in B and `x' = X / C` (resp. `X / R`), plus the rounding of that final scaling -/
def propSolveStep (sc : Case) (H : Held) : Option String := Id.run do
  let eps := epsOf sc
  let I := H.I; let n := I.n
  let nrhs := sc.pNat "nrhs"; let ldb := sc.pNat "ldb"; let ldx := sc.pNat "ldx"
  if nrhs = 0 then return none
  let trant := sc.p "trant"
  let some b := decQ? sc "Bout" | return some "B has non-finite entries"
  let some x := decQ? sc "X" | return some "X has non-finite entries"
  let cm : Rat := if sc.isComplex then 4 else 1
  let g1 := gam eps (4 * n + 4) * cm * (1 + 4 * eps); let g2 := gam eps (n + 1) * cm
  let W : Array (Array Rat) := (Array.range n).map fun i => (Array.range n).map fun j =>
    (List.range (min (i + 1) (j + 1))).foldl (fun s k => s + qabs (I.fac.decodeL i k) * qabs (I.fac.decodeU k j)) 0
  let Fd : Array (Array Q) := (Array.range n).map fun j => denseCol I.F j
  let tiny : Rat := if sc.isDouble then pow2 (-1000) else pow2 (-120)
  let unscale (i : Nat) (z : Q) : Q :=
    if trant == "N" then (if H.equed.col then qscale z (1 / H.C.getD i 1) else z)
    else (if H.equed.row then qscale z (1 / H.R.getD i 1) else z)
  for r in List.range nrhs do
    let xs : Array Q := (Array.range n).map fun j => unscale j x[j + r * ldx]!
    for i in List.range n do
      let mut s : Q := 0
      let mut wsum : Rat := 0
      let mut asum : Rat := 0
      for j in List.range n do
        let a := if trant == "N" then (Fd[j]!)[i]! else if trant == "T" then (Fd[i]!)[j]! else qconj ((Fd[i]!)[j]!)
        let xv := xs[j]!
        s := s + a * xv
        asum := asum + qabs a * qabs xv
        let wij := if trant == "N" then (W[I.permR.getD i 0]!)[I.permC.getD j 0]! else (W[I.permR.getD j 0]!)[I.permC.getD i 0]!
        wsum := wsum + wij * qabs xv
      let bi := b[i + r * ldb]!
      if qabs (bi - s) > g1 * wsum + g2 * qabs bi + 4 * eps * cm * asum + tiny then
        return some s!"residual of equation {i}, right-hand side {r} exceeds the factor-derived bound (trans {trant})"
    for i in List.range (ldx - n) do
      let w := if sc.isComplex then 2 else 1
      let p := (n + i + r * ldx) * w
      if (sc.raw "X").extract p (p + w) ≠ (if sc.isDouble then (if sc.isComplex then #[0xc01c000000000000, 0xc01c000000000000] else #[0xc01c000000000000]) else (if sc.isComplex then #[0xc0e00000, 0xc0e00000] else #[0xc0e00000])) then
        return some s!"padding row {n + i} of X was modified"
  return none

/-- structural consistency of the pivot events of a factoring step -/
def propEvents (n : Nat) (evs : Array Ev) (sameRowPerm : Bool) (permRin permR : Array Int) : Option String := Id.run do
  if evs.size ≠ n then return some s!"{evs.size} pivot events for {n} columns"
  let mut flag := sameRowPerm
  let mut j := 0
  for e in evs do
    if e.jcol ≠ j then return some s!"pivot event {j} reports column {e.jcol}"
    if !e.haveExit then return some s!"pivot event of column {j} has no exit record"
    if e.useprIn ≠ flag then return some s!"column {j}: reuse flag on entry is {e.useprIn}, expected {flag}"
    if e.useprIn then
      -- the remembered pivot is the row that the previous factorization put at position j
      if permRin.getD e.oldrow (-1) ≠ (j : Int) then return some s!"column {j}: remembered pivot row {e.oldrow} is not the row with old perm_r = {j}"
      if e.useprOut ∧ e.pivrow ≠ (e.oldrow : Int) then return some s!"column {j}: reuse kept but pivot row {e.pivrow} != remembered row {e.oldrow}"
    else if e.useprOut then return some s!"column {j}: reuse flag switched on by the pivot routine"
    if e.info ≠ 0 then return some s!"column {j}: zero pivot reported on a nonsingular matrix"
    if permR.getD e.pivrow.toNat (-1) ≠ (j : Int) then return some s!"column {j}: perm_r of pivot row {e.pivrow} is {permR.getD e.pivrow.toNat (-1)}"
    flag := e.useprOut
    j := j + 1
  return none

/-- number of events that abandon the remembered pivot / keep it -/
def reuseStats (evs : Array Ev) : Nat × Nat :=
  evs.foldl (fun (a : Nat × Nat) e => if e.useprIn ∧ e.info = 0 then (if e.useprOut then (a.1, a.2 + 1) else (a.1 + 1, a.2)) else a) (0, 0)


/-! ### allocator replay (storage clauses) -/
section Storage
open Slu.Mem

/-- one sampled record (see harness/fam_history.c, `hm_sample`) -/
def memRec (sc : Case) (nm : String) : Option (Array Int) :=
  let a := sc.int nm
  if a.size = 20 then some a else none

/-- the record as an allocator state.  Library allocation: the four "offsets" are block numbers; the previous
factorization's blocks are numbered 1..4 (`mallocs = 4`), so that the model's answer "same block" can be
compared with the pointer-identity flags of the sample. -/
def stOfRec (a : Array Int) : St :=
  let g (i : Nat) : Int := a.getD i 0
  let user := g 0 ≠ 0
  { user := user, base4 := g 18 = 4, n := g 1, size := g 5, used := g 2, top1 := g 3, top2 := g 4, hdrOk := true,
    hdrEnd := if user then g 19 else 0,
    offL := if user then g 6 else 1, offU := if user then g 7 else 2, offS := if user then g 8 else 3, offB := if user then g 9 else 4,
    capL := if g 14 ≥ 0 then g 14 else g 10, capU := if g 15 ≥ 0 then g 15 else g 11, capS := if g 16 ≥ 0 then g 16 else g 12,
    capB := if g 17 ≥ 0 then g 17 else g 11, nexp := g 13, mallocs := if user then 0 else 4 }

def memWords (c : Case) : Words :=
  let a := c.int "mem.words"
  { iw := a.getD 0 4, liw := a.getD 1 4, dw := a.getD 2 8 }

def memCfg (c : Case) (n : Nat) (annz : Nat) : Cfg :=
  let e := c.int "mem.ienv"
  let ms := e.getD 3 0; let ims := e.getD 7 0
  { m := n, n := n, annz := annz, panel := e.getD 1 0, maxsuper := if ms > ims then ms else ims, rowblk := e.getD 4 0,
    fill := e.getD 6 0, lwork := c.pInt "lwork", w := memWords c }

/-- Prop: everything handed to a writer lies inside the caller's buffer, below the work arrays, in address order -/
def propConfined (w : Words) (lwork : Int) (a : Array Int) : Option String :=
  let s := stOfRec a
  if ¬ s.user then none else
  let hdr := 2 * ((s.n + 1) * w.iw) + 3 * ((s.n + 1) * w.liw)
  if s.hdrEnd - hdr < 0 then some s!"the pointer arrays start at offset {s.hdrEnd - hdr} of the work area" else
  if ¬ (s.hdrEnd ≤ s.offL ∧ s.offL + s.capL * w.dw ≤ s.offU ∧ s.offU + s.capU * w.dw ≤ s.offS ∧ s.offS + s.capS * w.liw ≤ s.offB) then
    some s!"L/U arrays overlap: pointer arrays end at {s.hdrEnd}, LUSUP {s.offL}+{s.capL}x{w.dw}, UCOL {s.offU}+{s.capU}x{w.dw}, LSUB {s.offS}+{s.capS}x{w.liw}, USUB {s.offB}"
  else if ¬ (s.offB + s.capU * w.liw ≤ s.top2) then
    some s!"USUB ({s.offB}+{s.capU}x{w.liw}) reaches into the work arrays at the tail (top2 = {s.top2})"
  else if ¬ (0 ≤ s.top2 ∧ s.top2 ≤ s.size ∧ s.size ≤ lwork) then some s!"top2 = {s.top2}, size = {s.size}, lwork = {lwork}"
  else none

def showSt (s : St) : String :=
  s!"user={s.user} n={s.n} used/top1/top2/size={s.used}/{s.top1}/{s.top2}/{s.size} off={s.offL},{s.offU},{s.offS},{s.offB} len={s.capL},{s.capU},{s.capS},{s.capB} nexp={s.nexp} hdrEnd={s.hdrEnd} base4={s.base4}"

/-- the fields of two states that a sample determines -/
def sameSt (x y : St) : Bool :=
  x.user == y.user && x.n == y.n && x.capL == y.capL && x.capU == y.capU && x.capS == y.capS && x.capB == y.capB && x.nexp == y.nexp &&
  (x.offL, x.offU, x.offS, x.offB) == (y.offL, y.offU, y.offS, y.offB) &&
  (!x.user || ((x.used, x.top1, x.top2, x.size) == (y.used, y.top1, y.top2, y.size) && x.hdrEnd == y.hdrEnd && x.base4 == y.base4))

/-- Corr (c): the re-adopting `LUMemInit` -/
def corrReuseInit (cfg : Cfg) (ain afirst : Array Int) : Option String :=
  let prev := stOfRec ain
  let impl := stOfRec afirst
  let r := memInitReuse (fun _ => false) cfg prev
  if r.info ≠ 0 then some s!"model: LUMemInit (SamePattern_SameRowPerm) fails with info={r.info} from [{showSt prev}], the implementation went on"
  else
  -- library allocation: the sample says whether each base pointer is the one seen on entry
  let ptrOk := impl.user || ((afirst.getD 6 0, afirst.getD 7 0, afirst.getD 8 0, afirst.getD 9 0) == ((1 : Int), (1 : Int), (1 : Int), (1 : Int)))
  let nzOk := (afirst.getD 10 0, afirst.getD 11 0, afirst.getD 12 0) == (r.st.capL, r.st.capU, r.st.capS)
  if sameSt r.st impl && ptrOk && nzOk then none
  else
    let rr := memInitReuseReset (fun _ => false) cfg prev
    let hint := if rr.info = 0 && sameSt rr.st impl then " - this is what a set-up through SetupSpace (used = top1 = 0) gives" else ""
    some s!"LUMemInit (SamePattern_SameRowPerm) model [{showSt r.st}] implementation [{showSt impl}] nz={afirst.getD 10 0},{afirst.getD 11 0},{afirst.getD 12 0} pointers-kept={ptrOk} from [{showSt prev}]{hint}"

def growLoop (fx : Fixes) (w : Words) (t : MemType) (target : Int) : Nat → St → Except String St
  | 0, _ => .error "more than 64 expansions of one array"
  | f+1, s =>
    if s.nz t = target then .ok s
    else if s.nz t > target then .error s!"model length {s.nz t} of {repr t} passed the implementation's {target}"
    else match memXpand fx w (fun _ => false) t s with
      | (s1, 0) =>
        if t = .UCOL then
          match memXpand fx w (fun _ => false) .USUB s1 with
          | (s2, 0) => growLoop fx w t target f s2
          | (_, e) => .error s!"model USUB expansion fails (info {e})"
        else growLoop fx w t target f s1
      | (_, e) => .error s!"model {repr t} expansion fails (info {e}) where the implementation reached length {target}"

/-- Corr (d): from the state at the first pivot call to the state on return -/
def corrGrowth (w : Words) (afirst aout : Array Int) : Option String :=
  let s0 := stOfRec afirst
  let out := stOfRec aout
  let tryFx (fx : Fixes) : Except String Unit := do
    let s1 ← growLoop fx w .LUSUP out.capL 64 s0
    let s2 ← growLoop fx w .UCOL out.capU 64 s1
    let s3 ← growLoop fx w .LSUB out.capS 64 s2
    let s := workFree s3
    if s.nexp - 1 ≠ out.nexp then throw s!"num_expansions model {s.nexp - 1} implementation {out.nexp}"
    if s.user ∧ ((s.used, s.top1, s.top2, s.size) ≠ (out.used, out.top1, out.top2, out.size) ∨ (s.offL, s.offU, s.offS, s.offB) ≠ (out.offL, out.offU, out.offS, out.offB)) then
      throw s!"on return: model [{showSt s}] implementation [{showSt out}]"
    return ()
  match tryFx current with
  | .ok _ => none
  | .error e1 => match tryFx fixed with
    | .ok _ => none
    | .error e2 => some s!"growth from [{showSt s0}]: current model: {e1}; repaired model: {e2}"

end Storage

def bucket (k : Nat) : String := if k = 0 then "0" else if k = 1 then "1" else if k ≤ 3 then "2-3" else "4+"

def handleAll (c : Case) : Res := Id.run do
  let n := c.pNat "n"; let nsteps := c.pNat "nsteps"
  let colptr := c.nat "A.colptr"; let rowind := c.nat "A.rowind"
  let eps := epsOf c
  let w := if c.isComplex then 2 else 1
  let tags0 := [s!"ty={c.ty}", s!"cls={c.p "cls"}", s!"stor={c.p "stor"}", s!"mode={c.p "mode"}", s!"colperm={c.p "colperm"}", s!"symm={c.p "symm"}",
                s!"len={nsteps}", if (c.int "tuning").getD 6 0 ≠ 0 ∧ (c.int "tuning").getD 6 0 < 4 then "fill-small" else "fill-normal"] ++
                (if c.p "zeroed_pivot" "0" == "1" then ["zeroed-remembered-pivot"] else [])
  let mut held : Option Held := none
  let mut ms : DriverState Q Rat := Slu.History.init
  let mut allExact := true
  let mut nAbandonSteps := 0; let mut nKeptSteps := 0; let mut nAbandonEv := 0; let mut nKeptEv := 0
  let mut nFactored := 0; let mut nSameRow := 0; let mut nSamePat := 0; let mut nDofact := 0
  let mut nExactSteps := 0; let mut nExactAbandon := 0; let mut nResync := 0; let mut nExpand := 0; let mut nEquil := 0; let mut nReuseExpand := 0
  let mut corrMsg : Option String := none
  let mut transSeen : List String := []
  -- storage clauses: allocator samples of the factoring calls
  let memW := memWords c
  let memC := memCfg c n rowind.size
  let mut lastOut : Option (Array Int) := none
  let mut nReuseInit := 0; let mut nGrowth := 0; let mut nReuseGrew := 0
  for k in List.range nsteps do
    let sc := subCase c k
    let fact := sc.p "fact"
    let info := (sc.pInt "info").toNat
    let infoRaw := sc.pInt "info"
    let tg := tags0 ++ [s!"fail-step={k}", s!"fail-fact={fact}"]
    if !transSeen.contains (sc.p "trans") then transSeen := sc.p "trans" :: transSeen
    if fact != "F" then
      ---------------------------------------------------------------- factoring step
      if fact == "D" then nDofact := nDofact + 1 else if fact == "P" then nSamePat := nSamePat + 1 else nSameRow := nSameRow + 1
      if sc.p "evoverflow" ≠ "0" then return Res.skip "event log inconsistent"
      if infoRaw < 0 then return Res.propFalse s!"step {k} ({fact}): info = {infoRaw} on legal arguments" tg
      if info > n + 1 then return Res.propFalse s!"step {k} ({fact}): info = {info} (memory failure) although storage is ample" tg
      -- storage, Prop: what was handed to writers lies inside the caller's work area
      -- the length of the work area is an argument of every call (a refactorization may be told a smaller one)
      let lworkK : Int := if (sc.p "lwork" "") == "" then memC.lwork else sc.pInt "lwork"
      if sc.pInt "oob" ≠ 0 then
        return Res.propFalse s!"step {k} ({fact}): storage: {sc.pInt "oob"} byte(s) beyond work + lwork (lwork = {lworkK} for this call, {memC.lwork} for the first) were written" tg
      for nm in ["mem.first", "mem.out"] do
        match memRec sc nm with
        | some a =>
          match propConfined memW lworkK a with
          | some msg => return Res.propFalse s!"step {k} ({fact}): storage: {nm}: {msg}" tg
          | none => pure ()
        | none => pure ()
      -- storage, Prop: mem_usage describes the factors this call returned (QuerySpace of the returned L and U)
      if (info == 0 ∨ info == n + 1) ∧ (sc.raw "memusage").size == 2 ∧ (sc.int "L.xlusup").size == n + 1 then
        let q := Slu.Mem.querySpace memW ((c.int "mem.ienv").getD 1 0) n ((sc.int "L.xlusup").getD n 0) ((sc.int "L.xlsub").getD n 0) ((sc.int "U.colptr").getD n 0)
        let got := sc.raw "memusage"
        if got.getD 0 0 ≠ q.1.toUInt64 ∨ got.getD 1 0 ≠ q.2.toUInt64 then
          return Res.propFalse s!"step {k} ({fact}): storage: mem_usage (for_lu, total_needed) = bits {got.getD 0 0}, {got.getD 1 0} but the returned factors give {q.1}, {q.2}" tg
      let some eq := equedOf (sc.p "equed") | return Res.propFalse s!"step {k}: equed = '{sc.p "equed"}'" tg
      if sc.p "equil" == "0" ∧ eq ≠ .N then return Res.propFalse s!"step {k}: Equil = NO but equed = {sc.p "equed"}" tg
      if eq ≠ .N then nEquil := nEquil + 1
      if sc.p "equil" == "1" then
        match propEquilRule sc n colptr rowind eq with
        | some msg => return Res.propFalse s!"step {k} ({fact}): {msg}" tg
        | none => pure ()
      let some Rv := ratsOf c.isDouble (sc.raw "R") | return Res.propFalse s!"step {k}: R non-finite" tg
      let some Cv := ratsOf c.isDouble (sc.raw "C") | return Res.propFalse s!"step {k}: C non-finite" tg
      if eq.row ∧ ¬ (Rv.all (· > 0)) then return Res.propFalse s!"step {k}: a row scale factor is not positive" tg
      if eq.col ∧ ¬ (Cv.all (· > 0)) then return Res.propFalse s!"step {k}: a column scale factor is not positive" tg
      match propScaleA sc n colptr rowind eq Rv Cv eps with
      | some msg => return Res.propFalse s!"step {k} ({fact}): {msg}" tg
      | none => pure ()
      let some fvals := decQ? sc "Aout" | return Res.skip "non-finite matrix entries"
      let F : CSC Q := { m := n, n := n, colptr := colptr, rowind := rowind, val := fvals }
      let some uArr := ratsOf true (sc.raw "u") | return Res.skip "u"
      let u := uArr[0]!
      let evs := decodeEvents sc
      let permCi := sc.int "perm_c"; let permRi := sc.int "perm_r"
      if !isPermArr permCi n then return Res.propFalse s!"step {k} ({fact}): order: perm_c is not a permutation of 0..n-1" tg
      if fact != "D" then
        if permCi ≠ sc.int "perm_c_in" then return Res.propFalse s!"step {k} ({fact}): order: the inherited perm_c was modified" tg
        match held with
        | some H => if sc.int "etree" ≠ H.sc.int "etree" then return Res.propFalse s!"step {k} ({fact}): order: the inherited etree was modified" tg
        | none => pure ()
      let permC := permCi.map Int.toNat
      let ipc := Slu.Drv.Lu.invPerm permC
      if fact == "D" then
        -- the tree handed back by a call that orders the columns itself is the column elimination tree of A*Pc
        -- (it is independent of the row scaling and of SymmetricMode's heap_relax_snode, which relabels it in place and restores it)
        let pat : Slu.Order.Pat := { m := n, n := n, colptr := colptr, rowind := rowind }
        let ct := Slu.Order.coletree n n (Slu.Order.permView pat permC).col
        if (sc.int "etree").toList ≠ ct.toList.map Int.ofNat then
          return Res.propFalse s!"step {k} ({fact}): order: the elimination tree returned is not the column elimination tree of A*Pc: returned {(sc.int "etree").toList} expected {ct.toList}" tg
      if info ≠ 0 ∧ info ≤ n then
        -- the generator only produces nonsingular matrices: decide with the exact model
        let P0 : Params Q Rat := { m := n, n := n, col := fun j => denseCol F (ipc.getD j 0), u := u, order := fun _ => List.range n,
                                   oldPiv := fun _ => big, diagRow := fun j => ipc.getD j 0 }
        let st0 := luFactor P0 false
        if st0.info = 0 ∧ roundingFree c.isDouble n n P0.col st0 then
          return Res.propFalse s!"step {k} ({fact}): info = {info} but exact elimination finds every pivot nonzero (rounding-free case)" tg
        return Res.ok false (tags0 ++ ["info-singular"]) "tolerance"
      let some fac := decodeFac sc | return Res.propFalse s!"step {k} ({fact}): factors: factors contain non-finite values" tg
      match Struct.wfSC fac with
      | some msg => return Res.propFalse s!"step {k} ({fact}): structure: {msg}" tg
      | none => pure ()
      if !isPermArr permRi n then return Res.propFalse s!"step {k} ({fact}): factors: perm_r is not a permutation of 0..n-1" tg
      let permR := permRi.map Int.toNat
      let I : Impl := { m := n, n := n, F := F, permC := permC, permR := permR, fac := fac, info := 0 }
      -- the model's view of this call (Corr b); the matrix handed to the model is the one whose exact
      -- scaling by (equed, R, C) is what the code factored
      let Rq := Rv; let Cq := Cv
      let unsc (i j : Nat) (z : Q) : Q :=
        let z1 := if eq.row then qscale z (1 / Rq.getD i 1) else z
        if eq.col then qscale z1 (1 / Cq.getD j 1) else z1
      let rows0 := sc.nat "ev.rows0"
      let orderOf (j : Nat) : List Nat :=
        match evs.toList.find? (fun e => e.jcol = j) with
        | some e => (rows0.extract e.off (e.off + e.ncand)).toList ++ (List.range n)
        | none => List.range n
      let Acols : Array (Array Q) := (Array.range n).map fun j => (denseCol F j).mapIdx fun i z => unsc i j z
      let call : Call Q Rat := { fact := (if fact == "D" then Fact.DOFACT else if fact == "P" then Fact.SamePattern else Fact.SamePattern_SameRowPerm),
                                 trans := transOf (sc.p "trant"), n := n, A := fun j => Acols.getD j #[], u := u, order := orderOf,
                                 permC := permC, etree := (sc.int "etree").map Int.toNat, equed := eq, Rs := Rq, Cs := Cq, B := [] }
      -- remembered pivots of the implementation (inverse of the incoming perm_r)
      let permRin := sc.int "perm_r_in"
      if fact == "R" then
        if !isPermArr permRin n then return Res.skip "incoming perm_r is not a permutation (harness)"
        let implOld := Slu.Drv.Lu.invPerm (permRin.map Int.toNat)
        if ms.fac.piv ≠ implOld then
          nResync := nResync + 1
          ms := { ms with fac := { ms.fac with piv := implOld } }
      let (ms', mo) := stepCall ms call
      let certified := ms'.fac.info = 0 && roundingFree c.isDouble n n ms'.P.col ms'.fac
      if certified then nExactSteps := nExactSteps + 1 else allExact := false
      -- Prop: C02 clause set on the implementation's outputs w.r.t. this step's matrix
      match propFactors sc I u certified with
      | some msg => return Res.propFalse s!"step {k} ({fact}): factors: {msg}" tg
      | none => pure ()
      match propDiagPref sc evs with
      | some msg => return Res.propFalse s!"step {k} ({fact}): factors: {msg}" tg
      | none => pure ()
      match propEvents n evs (fact == "R") permRin permRi with
      | some msg => return Res.propFalse s!"step {k} ({fact}): factors: {msg}" tg
      | none => pure ()
      if sc.p "colalone" "1" == "0" then
        return Res.propFalse s!"step {k} ({fact}): factors: re-solving (FACTORED, IterRefine={sc.p "colalone_refine"}) the second of two right-hand sides alone gives different bits than solving it together with the first (X or berr)" tg
      let H : Held := { step := k, sc := sc, I := I, equed := eq, R := Rv, C := Cv }
      match propScaleB sc n eq Rv Cv eps with
      | some msg => return Res.propFalse s!"step {k} ({fact}): {msg}" tg
      | none => pure ()
      match propSolveStep sc H with
      | some msg => return Res.propFalse s!"step {k} ({fact}): {msg}" tg
      | none => pure ()
      held := some H
      let (ab, kp) := reuseStats evs
      nAbandonEv := nAbandonEv + ab; nKeptEv := nKeptEv + kp
      if fact == "R" ∧ ab > 0 then nAbandonSteps := nAbandonSteps + 1
      if fact == "R" ∧ ab = 0 then nKeptSteps := nKeptSteps + 1
      if sc.pNat "expansions" > 0 then nExpand := nExpand + 1
      if fact == "R" ∧ sc.pNat "expansions" > 0 then nReuseExpand := nReuseExpand + 1
      -- Corr (c), (d), (e): the allocator model against the sampled states
      match memRec sc "mem.in", memRec sc "mem.first", memRec sc "mem.out" with
      | some ain, some afirst, some aout =>
        if corrMsg.isNone then
          match lastOut with
          | some prevOut =>
            if !(sameSt (stOfRec prevOut) (stOfRec ain) && prevOut.extract 10 13 == ain.extract 10 13) then
              corrMsg := some s!"step {k} ({fact}): storage: allocator state on entry [{showSt (stOfRec ain)}] is not what the previous factoring call left [{showSt (stOfRec prevOut)}]"
          | none => pure ()
        if corrMsg.isNone ∧ fact == "R" then
          nReuseInit := nReuseInit + 1
          match corrReuseInit { memC with lwork := (if (sc.p "lwork" "") == "" then memC.lwork else sc.pInt "lwork") } ain afirst with
          | some msg => corrMsg := some s!"step {k} (R): storage: {msg}"
          | none => pure ()
        if corrMsg.isNone then
          nGrowth := nGrowth + 1
          if fact == "R" ∧ (aout.extract 10 13 != afirst.extract 10 13) then nReuseGrew := nReuseGrew + 1
          match corrGrowth memW afirst aout with
          | some msg => corrMsg := some s!"step {k} ({fact}): storage: {msg}"
          | none => pure ()
        lastOut := some aout
      | _, _, _ => pure ()
      -- Corr (a): bit mirror of the pivot routine on every event
      if corrMsg.isNone then
        let ec := match c.ty with
          | 'd' => evCorr Float Float sc evs w
          | 's' => evCorr Float32 Float32 sc evs w
          | 'z' => evCorr (Cx Float) Float sc evs w
          | _ => evCorr (Cx Float32) Float32 sc evs w
        match ec with
        | some msg => corrMsg := some s!"step {k} ({fact}): {msg}"
        | none => pure ()
      -- Corr (b): exact replay through the history model
      if certified ∧ corrMsg.isNone then
        let st := ms'.fac
        if ab > 0 then nExactAbandon := nExactAbandon + 1
        let modelPermR := LU.permR n st.piv
        if modelPermR ≠ permR then corrMsg := some s!"step {k} ({fact}): perm_r model={modelPermR} impl={permR} (rounding-free step)"
        else
          let implReused := fact == "R" && ab == 0
          if fact == "R" ∧ mo.reused ≠ implReused then corrMsg := some s!"step {k}: reuse decision model={mo.reused} impl={implReused} (rounding-free step)"
          else
            for j in List.range n do
              for kk in List.range (j + 1) do
                if corrMsg.isNone ∧ (st.U.getD j #[]).getD kk 0 ≠ fac.decodeU kk j then corrMsg := some s!"step {k} ({fact}): U({kk},{j}) differs from the exact model (rounding-free step)"
              for i in List.range n do
                let pi := permR.getD i 0
                if corrMsg.isNone ∧ pi > j ∧ (st.L.getD j #[]).getD i 0 ≠ fac.decodeL pi j then corrMsg := some s!"step {k} ({fact}): L({pi},{j}) differs from the exact model (rounding-free step)"
      -- carry the model state; when the step was not rounding-free the model follows the implementation's pivots
      if certified then ms := ms'
      else ms := { ms' with fac := { ms'.fac with piv := Slu.Drv.Lu.invPerm permR } }
    else
      ---------------------------------------------------------------- FACTORED step
      nFactored := nFactored + 1
      let some H := held | return Res.skip "FACTORED step without factors (harness)"
      if infoRaw ≠ 0 ∧ ¬ (sc.p "cond" == "1" ∧ info = n + 1) then return Res.propFalse s!"step {k} (F): info = {infoRaw}" tg
      -- re-solving never alters the factors
      if sc.p "same" ≠ "1" ∨ sc.p "hash0" ≠ sc.p "hash1" then
        return Res.propFalse s!"step {k} (F): L, U, perm_c, perm_r, etree, R, C, equed or A changed during a FACTORED call (hash {sc.p "hash0"} -> {sc.p "hash1"})" tg
      for nm in intNames do
        if sc.int nm ≠ H.sc.int nm then return Res.propFalse s!"step {k} (F): {nm} differs from what the factoring step {H.step} returned" tg
      for nm in bitNames do
        if sc.raw nm ≠ H.sc.raw nm then return Res.propFalse s!"step {k} (F): {nm} differs from what the factoring step {H.step} returned" tg
      if sc.p "equed" ≠ H.sc.p "equed" then return Res.propFalse s!"step {k} (F): equed changed" tg
      if sc.raw "Ain" ≠ sc.raw "Aout" then return Res.propFalse s!"step {k} (F): the matrix was modified" tg
      match propScaleB sc n H.equed H.R H.C eps with
      | some msg => return Res.propFalse s!"step {k} (F): {msg}" tg
      | none => pure ()
      match propSolveStep sc H with
      | some msg => return Res.propFalse s!"step {k} (F, factors of step {H.step}): {msg}" tg
      | none => pure ()
      -- model: a FACTORED call leaves the state alone (`factored_step_preserves_factors`)
      let callF : Call Q Rat := { fact := Fact.FACTORED, trans := transOf (sc.p "trant"), n := n, A := fun _ => #[], u := 1, order := fun _ => [] }
      let (msF, _) := stepCall ms callF
      if msF.fac.piv ≠ ms.fac.piv ∨ msF.permC ≠ ms.permC then corrMsg := some s!"step {k}: the model's FACTORED step changed its state"
      ms := msF
  if c.pInt "live_delta" ≠ 0 then
    return Res.propFalse s!"{c.pInt "live_delta"} block(s) allocated by the library are still alive after the documented clean-up of the history" tags0
  match corrMsg with
  | some msg => return Res.corr msg tags0
  | none => pure ()
  let tags := tags0 ++ [s!"sameRowPermSteps={bucket nSameRow}", s!"abandonSteps={bucket nAbandonSteps}", s!"keptSteps={bucket nKeptSteps}",
                        s!"factoredSteps={bucket nFactored}", s!"samePatternSteps={bucket nSamePat}", s!"refreshSteps={bucket (nDofact - 1)}",
                        s!"exactAbandonSteps={bucket nExactAbandon}", s!"equilibratedSteps={bucket nEquil}", s!"expansionSteps={bucket nExpand}", s!"reuseExpansionSteps={bucket nReuseExpand}",
                        s!"trans-kinds={transSeen.length}", if nResync > 0 then "resynced" else "chain-exact",
                        s!"abandonEvents={bucket nAbandonEv}", s!"keptEvents={bucket nKeptEv}", s!"exactSteps={bucket nExactSteps}",
                        s!"allocReuseInits={bucket nReuseInit}", s!"allocGrowthReplays={bucket nGrowth}", s!"allocReuseGrew={bucket nReuseGrew}"]
  return Res.ok (n ≥ 2 ∧ nsteps ≥ 2 ∧ (nSameRow + nSamePat + nFactored) ≥ 1) tags (if allExact then "exact" else "tolerance")


/-- `p only struct` (property C03 runs the histories for the structure of the returned factors only): a verdict
other than a structure clause is left to C06 -/
def handle (c : Case) : Res :=
  let r := handleAll c
  let only := c.p "only" ""
  if only == "" then r else
  -- `p only <a|b|…>`: another property runs these histories for some clauses only (C03: structure:, C02: factors:
  -- and structure:, C10: order:, C07 / C08: also storage:); a verdict about any other clause is left to C06
  let keys := (only.splitOn "|").map fun k => if k == "struct" then "structure:" else k
  if (r.status == "prop-false" ∨ r.status == "corr-mismatch") ∧ keys.any (fun k => (r.msg.splitOn k).length > 1) then r
  else if r.status == "prop-false" ∨ r.status == "corr-mismatch" then Res.ok true r.tags "other-clause"
  else r

end Slu.Drv.History
