import Slu.Proto
import Slu.Model.Mem
import Slu.Drv.Storage
-- HANDLER workspace => Slu.Drv.Workspace.handle
/-
Driver for family `workspace` (C08).

Prop (on the implementation's outputs): for every workspace length of the sweep (every multiple of
4 from 4 up to 1.25x the first sufficient length, both alignments) the factor routine returns — no
hang, no ABORT, nothing written in front of the buffer — and either reports info > n or returns
info and factors byte-identical to the library-allocation run; the same for a failure of every
allocation request issued from `[sdcz]memory.c` under library allocation; the size query leaves every
argument but info / mem_usage as it was and reports `total_needed = info - n`.

Corr: `LUMemInit` of the model predicts, for every length of the sweep, whether the allocation phase
fails and with which byte count; traced runs (five lengths around the boundary per alignment, and
every fault position) are replayed step by step as in family `storage`; the query value equals the
model's formula.
-/
namespace Slu.Drv.Workspace
open Slu Slu.Mem Slu.Drv.Storage

def variants : List (String × Fixes) := [("current", current), ("fixed", fixed), ("pinned", asIs)]

/-- first model variant that replays the run; `none` = some variant agrees -/
def replayAny (c : Case) (p : String) (cf : Conf) (r : Run) (n : Nat) : Option String :=
  let errs := variants.map fun (nm, fx) => match replay fx c p cf r n with
    | .ok _ => none
    | .error e => some s!"{nm} model: {e}"
  if errs.any Option.isNone then none else some ("; ".intercalate (errs.filterMap id))

def sweepCheck (c : Case) (a4 : Nat) (n : Nat) (ref : Run) : Option String × Option String × Nat × Nat := Id.run do
  let rec_ := c.int s!"sw{a4}"
  let cnt := rec_.size / 8
  let fill := c.pInt "fill"
  let mut prop : Option String := none
  let mut corr : Option String := none
  let mut nshort := 0
  for i in [0:cnt] do
    let g (k : Nat) : Int := rec_.getD (8*i+k) 0
    let lw := g 0; let info := g 1
    let what := s!"lwork={lw} align4={a4} fill={fill} n={n}"
    if prop.isNone then
      if g 2 ≠ 0 then prop := some s!"hang: the factor routine does not return ({what})"
      else if g 3 ≠ 0 then prop := some s!"ABORT inside the library ({what})"
      else if g 6 ≠ 0 then prop := some s!"bytes in front of the workspace overwritten ({what})"
      else if info > n then pure ()
      else if info < 0 then prop := some s!"info={info} ({what})"
      else if info ≠ ref.info then prop := some s!"info={info} but library allocation gives {ref.info} ({what})"
      else if g 4 = 0 then prop := some s!"factors differ from the library-allocation run although info={info} ({what})"
    if info > n then nshort := nshort + 1
    if corr.isNone ∧ g 2 = 0 ∧ g 3 = 0 then
      let cf : Conf := ⟨1, fill, lw, a4, 0, 0, 0⟩
      let mc := cfgOf c cf
      let agree := variants.any fun (_, fx) =>
        let ini := memInit fx (fun _ => false) mc
        if ini.spin then false
        else if ini.info ≠ 0 then info = ini.info
        else info ≤ n ∨ info > n     -- allocation phase succeeds: the rest is judged by the traced runs
      if ¬ agree then
        let ini := memInit current (fun _ => false) mc
        corr := some s!"LUMemInit: model info={ini.info} spin={ini.spin}, implementation info={info} ({what})"
  return (prop, corr, cnt, nshort)

def handle (c : Case) : Res :=
  let n := c.pNat "n"
  let ref := getRun c "k0."
  let tags0 := [s!"ty={c.ty}", s!"pat={c.p "pat"}", s!"fill={c.p "fill"}", s!"heavy={c.p "heavy"}"]
  if ref.hang ∨ ref.aborted ∨ ref.info < 0 ∨ ref.info > n then
    Res.propFalse s!"library-allocation run did not complete: info={ref.info} hang={ref.hang} abort={ref.aborted}" tags0
  else
  let (p0, c0, cnt0, sh0) := sweepCheck c 0 n ref
  let (p1, c1, cnt1, sh1) := sweepCheck c 1 n ref
  -- fault injection under library allocation
  let nf := c.pNat "nfault"
  let faults := (List.range nf).map fun i => (s!"f{i}.", getConf c s!"f{i}.", getRun c s!"f{i}.", c.pNat s!"f{i}.same")
  let pf := faults.findSome? fun (_, cf, r, same) =>
    let what := s!"library allocation, request #{cf.fault} from memory.c fails, fill={cf.fill} n={n}"
    if r.hang then some s!"hang ({what})"
    else if r.aborted then some s!"ABORT instead of info > n ({what})"
    else if r.info > n then none
    else if r.info ≠ ref.info then some s!"info={r.info}, without the fault {ref.info} ({what})"
    else if same = 0 then some s!"factors differ from the run without the fault although info={r.info} ({what})"
    else none
  -- size query
  let q := c.int "query"
  let qinfo := q.getD 0 0
  let qg := c.int "query.gstrf"
  let qm := c.raw "query.mem"
  let pq : Option String :=
    if q.getD 1 0 ≠ 0 then some "size query hangs"
    else if q.getD 2 0 ≠ 0 then some "size query ABORTs"
    else if q.getD 3 0 ≠ 0 then some s!"size query (gssvx, lwork=-1, Equil={q.getD 4 0}, ColPerm={c.p "colperm"}) modified: {c.p "query.changed"}"
    else if qinfo ≤ n then some s!"size query returned info={qinfo} <= n"
    else if qg.getD 1 0 ≠ 0 then some "size query (gstrf, lwork=-1) modified L, U or perm_r"
    else match f32ToRat? (qm.getD 1 0) with
      | none => some "total_needed not finite"
      | some t =>
        let ex : Rat := qinfo - n
        let d := if t - ex < 0 then ex - t else t - ex
        if d * 4194304 > ex then some s!"total_needed={t} but info - n = {qinfo - n}" else none
  let tags := tags0 ++ [s!"lworks={(cnt0 + cnt1) / 100 * 100}+", s!"faults={nf}", s!"equil={q.getD 4 0}"] ++
    (if ref.info ≠ 0 then ["singular"] else []) ++
    (if c.pInt "sw0.truncated" ≠ 0 ∨ c.pInt "sw1.truncated" ≠ 0 then ["sweep-truncated"] else [])
  match p0.orElse (fun _ => p1) |>.orElse (fun _ => pf) with
  | some msg => Res.propFalse msg tags
  | none =>
  -- Corr
  let nt := c.pNat "ntraced"
  let traced := (List.range nt).map fun i => (s!"t{i}.", getConf c s!"t{i}.", getRun c s!"t{i}.")
  let ct := traced.findSome? fun (p, cf, r) =>
    (replayAny c p cf r n).map fun e => s!"{p} lwork={cf.lwork} align4={cf.align4} fill={cf.fill}: {e}"
  let cfault := faults.findSome? fun (p, cf, r, _) =>
    (replayAny c p cf r n).map fun e => s!"{p} fault #{cf.fault} fill={cf.fill}: {e}"
  let mc := cfgOf c ⟨1, c.pInt "fill", 0, 0, 0, 0, 0⟩
  let cq : Option String :=
    if qinfo ≠ queryInfo mc then some s!"query info: model {queryInfo mc}, gssvx {qinfo}"
    else if qg.getD 0 0 ≠ queryInfo mc then some s!"query info: model {queryInfo mc}, gstrf {qg.getD 0 0}" else none
  let withexp := traced.filter fun (_, _, r) => r.exp > 0
  match c0.orElse (fun _ => c1) |>.orElse (fun _ => ct) |>.orElse (fun _ => cfault) |>.orElse (fun _ => cq) with
  | some msg => Res.corr msg tags
  | none =>
  -- the query clause is judged last so that a finding there does not hide the other clauses
  match pq with
  | some msg => Res.propFalse msg tags
  | none =>
    -- sw?.first_ok = -2: alignment left out in a 64-bit index build (see harness/storage_util.h)
    Res.ok (n ≥ 2 ∧ c.pInt "sw0.first_ok" > 0 ∧ (c.pInt "sw1.first_ok" > 0 ∨ c.pInt "sw1.first_ok" = -2) ∧ sh0 + sh1 ≥ 50 ∧ nf ≥ 5)
      (tags ++ [s!"traced-with-exp={withexp.length}"]) "bit"

end Slu.Drv.Workspace
