import Slu.Proto
import Slu.Model.Struct
import Slu.Model.Symb
-- HANDLER symb => Slu.Drv.Symb.handle
/-
Driver for family `symb` (C03).

Prop  `Slu.Struct.wfb` (the checker proved sound in Props/C03.lean) on the structure `[sdcz]gstrf`
      returned.
Corr  the returned structure equals the one `Slu.Symb.symbNaive` predicts from the pattern of A, the
      final `perm_c`, the etree, `perm_r`, `relax`, `maxsuper`:  `xsup`, `supno` exactly; for every
      supernode the leading `nsupc` row entries in order and the remaining rows as a set; for every
      column the set of U rows; `nnz(L)`, `nnz(U)`.
-/
namespace Slu.Drv.Symb
open Slu Slu.Symb

def sortNat (l : List Nat) : List Nat := (l.toArray.insertionSort (· < ·)).toList

def isPermArr (p : Array Int) (n : Nat) : Bool :=
  p.size = n && (List.range n).all (fun k => p.toList.count (k : Int) = 1)

/-- the returned structure without values (`wfb` only looks at the lengths of the value arrays) -/
def decodeFac (c : Case) : LUFac Unit :=
  let w := if c.isComplex then 2 else 1
  let f : LUFac Unit := LUFac.ofCase c (fun _ => (#[] : Array Unit))
  { f with L := { f.L with lusup := Array.replicate ((c.raw "L.lusup").size / w) () },
           U := { f.U with val := Array.replicate ((c.raw "U.val").size / w) () } }

def handle (c : Case) : Res := Id.run do
  let dims := c.nat "A.dims"; let m := dims[0]!; let n := dims[1]!
  let info := c.pInt "info"
  let symm := c.p "symm" == "1"
  let relax := c.pNat "relax"; let maxsuper := c.pNat "maxsuper"
  let tun := c.nat "tuning"
  let tags0 := [s!"ty={c.ty}", s!"pat={c.p "pat"}", s!"dom={c.p "dom"}", s!"colperm={c.p "colperm"}", s!"symm={c.p "symm"}",
                s!"u={Float.ofBits ((c.raw "u").getD 0 0)}", (if m > n then "tall" else "square"),
                (if tun.getD 3 0 = 0 then "tuning=default" else s!"maxsuper={maxsuper}"),
                (if tun.getD 3 0 = 0 then "panel=default" else s!"panel={c.p "panel"}"),
                (if c.pNat "expansions" > 0 then "expansions" else "no-expansion")]
  if info ≠ 0 then
    -- dom = 2: every column has one entry of magnitude >= 0.75 (m+n+1) on a transversal, all others below sqrt 2 in
    -- magnitude: strictly column-dominant after a row permutation, hence nonsingular - a positive info is a false report
    if c.p "dom" == "2" ∧ m == n then
      return Res.propFalse s!"singular: info = {info} on a matrix with a strictly dominant transversal (nonsingular for every pivot order)" tags0
    return Res.skip s!"info = {info} on an input built to be nonsingular"
  let fac := decodeFac c
  ------------------------------------------------------------------ Prop
  if !Struct.wfb fac then
    return Res.propFalse s!"structure: {(Struct.wfSC fac).getD "rejected by wfb"}" tags0
  if let some msg := Struct.wfSC fac then return Res.propFalse s!"structure: {msg}" tags0
  ------------------------------------------------------------------ model
  let permCi := c.int "perm_c"; let permRi := c.int "perm_r"
  if !isPermArr permCi n then return Res.skip "perm_c is not a permutation (C10)"
  if !isPermArr permRi m then return Res.skip "perm_r is not a permutation (C02)"
  let permC := permCi.map Int.toNat; let permR := permRi.map Int.toNat
  let A : Order.Pat := { m := m, n := n, colptr := c.nat "A.colptr", rowind := c.nat "A.rowind" }
  let cols := permutedCols A permC permR
  let etree := c.nat "etree"
  let relaxEnd := relaxEndOf n relax etree symm
  let o := symbNaive n maxsuper cols relaxEnd
  let pred := toFac m o
  let L := fac.L
  let ns := L.nsuper + 1
  let nrel := ((List.range n).filter fun j => (relaxEnd j).isSome).length
  let nrelMulti := ((List.range n).filter fun j => match relaxEnd j with | some k => k > j | none => false).length
  let multi := ns < n
  let nnzA := (List.range n).foldl (fun s j => s + (sortNat (cols j)).eraseDups.length) 0
  let fill := fac.nnzL + fac.nnzU > nnzA + n
  let offdiag := (List.range n).any fun i => permR.getD i 0 ≠ permC.getD i 0
  let tags := tags0 ++ [if multi then "multicol-snode" else "singletons", if fill then "fill" else "no-fill",
                        (if nrelMulti > 0 then "relaxed-multicol" else if nrel > 0 then "relaxed-single" else "no-relaxed"),
                        (if offdiag then "offdiag-pivots" else "diag-pivots"), s!"off-transversal={c.p "offtr"}"]
  ------------------------------------------------------------------ Corr
  -- the model's own output must pass the checker too (it does, for every input: Lemmas/Symb.lean)
  if !Struct.wfb pred then
    return Res.corr s!"predicted structure is not well-formed: {(Struct.wfSC pred).getD "rejected by wfb"}" tags
  let ixsup := (L.xsup.extract 0 (ns + 1)).toList
  if o.xsup ≠ ixsup then return Res.corr s!"xsup model={o.xsup} impl={ixsup}" tags
  let isupno := (L.supno.extract 0 n).toList
  if o.supno ≠ isupno then return Res.corr s!"supno model={o.supno} impl={isupno}" tags
  for s in List.range ns do
    let f := L.xsup[s]!; let w := L.xsup[s+1]! - f
    let ir := Struct.rowsOf L s
    let mr := o.rows.getD s []
    if ir.take w ≠ mr.take w then return Res.corr s!"supernode {s} [{f}..{f+w-1}]: leading rows model={mr.take w} impl={ir.take w}" tags
    if sortNat (ir.drop w) ≠ sortNat (mr.drop w) then
      return Res.corr s!"supernode {s} [{f}..{f+w-1}]: rows below model={sortNat (mr.drop w)} impl={sortNat (ir.drop w)}" tags
  for j in List.range n do
    let iu := sortNat (Struct.ucolRows fac j)
    let mu := sortNat (o.ucols.getD j [])
    if iu ≠ mu then return Res.corr s!"U column {j}: rows model={mu} impl={iu}" tags
  if pred.nnzL ≠ fac.nnzL then return Res.corr s!"nnz(L) model={pred.nnzL} impl={fac.nnzL}" tags
  if pred.nnzU ≠ fac.nnzU then return Res.corr s!"nnz(U) model={pred.nnzU} impl={fac.nnzU}" tags
  return Res.ok (n ≥ 4 ∧ (multi ∨ fill)) tags "exact"

end Slu.Drv.Symb
