import Slu.Proto
import Slu.Model.Equil
-- HANDLER equil => Slu.Drv.Equil.handle
/-
Driver for family `equil` (C11).  Corr: bit-exact comparison of every output of gsequ/laqgs with the
model run at the case's arithmetic type.  Prop: the property's clauses evaluated in exact rational
arithmetic on the implementation's own outputs.
-/
namespace Slu.Drv.Equil
open Slu Slu.Equil

def mkEntries {K : Type} [Inhabited K] (n : Nat) (colptr rowind : Array Nat) (vals : Array K) : List (Entry K) :=
  (List.range n).flatMap fun j =>
    (List.range (colptr[j+1]! - colptr[j]!)).map fun d =>
      let k := colptr[j]! + d
      { row := rowind[k]!, col := j, val := vals[k]! }

def sentinel (dbl : Bool) : UInt64 := if dbl then 0xc01c000000000000 else 0xc0e00000  -- -7.0

section corr
variable (K R : Type) [Mag K R] [Wire K] [FBits R] [Inhabited K] [Inhabited R]
variable [Zero R] [One R] [Mul R] [Div R] [LT R] [DecidableLT R] [LE R] [DecidableLE R] [BEq R]

/-- bit-exact comparison of the model with the implementation; `none` = agree -/
def corr (c : Case) (thresh : R) : Option String :=
  let dims := c.nat "A.dims"; let m := dims[0]!; let n := dims[1]!
  let es := mkEntries (K := K) n (c.nat "A.colptr") (c.nat "A.rowind") (Wire.dec (c.raw "A.val"))
  let sml : R := FBits.ofBits (c.raw "sml")[0]!
  let prec : R := FBits.ofBits (c.raw "prec")[0]!
  let big : R := 1 / sml
  let o := gsequ m n es sml big
  let sen := sentinel (FBits.isDouble R)
  let expR : Array UInt64 := (Array.range m).map fun i => match o.r with | some f => FBits.toBits (f i) | none => sen
  let expC : Array UInt64 := (Array.range n).map fun j => match o.c with | some f => FBits.toBits (f j) | none => sen
  let opt (x : Option R) : Array UInt64 := #[match x with | some v => FBits.toBits v | none => sen]
  let cmp (what : String) (e g : Array UInt64) : Option String :=
    (firstDiff e g).map fun i => s!"{what}[{i}] model={showBits e i} impl={showBits g i}"
  if o.info ≠ c.pNat "info" 9999 then some s!"info model={o.info} impl={c.p "info"}" else
  (cmp "R" expR (c.raw "R")).orElse fun _ =>
  (cmp "C" expC (c.raw "C")).orElse fun _ =>
  (cmp "rowcnd" (opt o.rowcnd) (c.raw "rowcnd")).orElse fun _ =>
  (cmp "colcnd" (opt o.colcnd) (c.raw "colcnd")).orElse fun _ =>
  (cmp "amax" (opt o.amax) (c.raw "amax")).orElse fun _ =>
  if o.info ≠ 0 then none else
  -- laqgs is run by the harness on gsequ's outputs
  let small := sml / prec
  let large : R := 1 / small
  let rf : Nat → R := fun i => FBits.ofBits ((c.raw "R").getD i 0)
  let cf : Nat → R := fun j => FBits.ofBits ((c.raw "C").getD j 0)
  let g (k : String) : R := FBits.ofBits ((c.raw k).getD 0 0)
  -- (`rowcnd.q`, `colcnd.q`: the ratios actually handed to laqgs; gsequ's, or values at the threshold)
  let gq (k : String) : R := if (c.raw (k ++ ".q")).size > 0 then g (k ++ ".q") else g k
  let (q, vals) := laqgs m n es rf cf thresh small large (gq "rowcnd") (gq "colcnd") (g "amax")
  if q.toChar.toString ≠ c.p "equed" then some s!"equed model={q.toChar} impl={c.p "equed"}" else
  cmp "Aout" (Wire.enc vals.toArray) (c.raw "Aout")
end corr

/-! ### Prop: the property's clauses on the implementation's outputs, exact rationals -/

def maxOf (l : List Rat) : Rat := l.foldl max 0
def minOf (d : Rat) (l : List Rat) : Rat := l.foldl min d

def prop (c : Case) : Option String := Id.run do
  let dbl := c.isDouble
  let dims := c.nat "A.dims"; let m := dims[0]!; let n := dims[1]!
  if m = 0 ∨ n = 0 then return none
  let eps : Rat := if dbl then pow2 (-53) else pow2 (-24)
  let tiny : Rat := if dbl then pow2 (-1074) else pow2 (-149)
  let some av := ratsOf dbl (c.raw "A.val") | return some "A has non-finite entries"
  let mags : Array Rat := if c.isComplex then (Array.range (av.size / 2)).map (fun k => rabs av[2*k]! + rabs av[2*k+1]!) else av.map rabs
  let es := mkEntries n (c.nat "A.colptr") (c.nat "A.rowind") mags
  let info := c.pNat "info"
  let some sml := (ratsOf dbl (c.raw "sml")).bind (·[0]?) | return some "sml"
  let big := 1 / sml
  let rowM (i : Nat) : Rat := maxOf ((es.filter (·.row = i)).map (·.val))
  let firstZeroRow := (List.range m).find? (fun i => rowM i = 0)
  -- an all-zero row is reported by its position
  match firstZeroRow with
  | some i => return (if info = i + 1 then none else some s!"zero row {i} but info={info}")
  | none =>
  if 1 ≤ info ∧ info ≤ m then return some s!"info={info} names a row that is not zero"
  let some rr := ratsOf dbl (c.raw "R") | return some "R not finite"
  -- row factors: positive, inside the safe range, make the row maximum one unless clamped
  for i in List.range m do
    let ri := rr[i]!
    if ¬ (ri > 0 ∧ sml * (1 - 4 * eps) ≤ ri ∧ ri ≤ big * (1 + 4 * eps)) then return some s!"R[{i}] outside the safe range"
    let M := rowM i
    let cl := max (min M big) sml
    if rabs (cl * ri - 1) > 4 * eps then return some s!"row {i}: clamp(max)*R differs from 1 by more than 4 eps"
  -- amax and rowcnd equal their definitions
  let some amax := (ratsOf dbl (c.raw "amax")).bind (·[0]?) | return some "amax not finite"
  let trueAmax := maxOf mags.toList
  if rabs (amax - trueAmax) > 2 * eps * trueAmax then return some "amax is not the largest magnitude"
  let rmin := minOf (rowM 0) ((List.range m).map rowM); let rmax := trueAmax
  let some rowcnd := (ratsOf dbl (c.raw "rowcnd")).bind (·[0]?) | return some "rowcnd not finite"
  -- LAPACK's definition: the running minimum starts at bignum
  let defRowcnd := max (min rmin big) sml / min rmax big
  if rabs (rowcnd - defRowcnd) > 8 * eps * defRowcnd + tiny then return some "rowcnd differs from min/max ratio"
  -- columns (with the returned R)
  let colM (j : Nat) : Rat := maxOf ((es.filter (·.col = j)).map (fun e => e.val * rr[e.row]!))
  -- a product |a|*r can underflow to zero only from subnormal inputs; exact zero columns are reported
  let exactZeroCol (j : Nat) : Bool := (es.filter (·.col = j)).all (fun e => e.val = 0)
  if info ≠ 0 then
    -- the reported column must be zero (exactly, or |a|*r below the least subnormal: underflow) and no
    -- exactly-zero column may precede it
    let j := info - m - 1
    if ¬ (info > m ∧ j < n ∧ colM j ≤ tiny) then return some s!"info={info} but no zero row/column there"
    match (List.range j).find? exactZeroCol with
    | some j' => return some s!"zero column {j'} precedes the reported column {j}"
    | none => return none
  match (List.range n).find? exactZeroCol with
  | some j => return some s!"zero column {j} but info=0"
  | none =>
  let some cc := ratsOf dbl (c.raw "C") | return some "C not finite"
  for j in List.range n do
    let cj := cc[j]!
    if ¬ (cj > 0 ∧ sml * (1 - 4 * eps) ≤ cj ∧ cj ≤ big * (1 + 4 * eps)) then return some s!"C[{j}] outside the safe range"
    let M := colM j
    let cl := max (min M big) sml
    if rabs (cl * cj - 1) > 8 * eps + (if M < big * sml * 4 then 1 else 0) then return some s!"column {j}: clamp(max)*C differs from 1"
  let some colcnd := (ratsOf dbl (c.raw "colcnd")).bind (·[0]?) | return some "colcnd not finite"
  -- threshold rule on the reported ratios and exact application of the selected factors
  let some prec := (ratsOf dbl (c.raw "prec")).bind (·[0]?) | return some "prec"
  let small := sml / prec; let large := 1 / small
  let thresh : Rat := 1 / 10
  -- (the single-precision code compares against the double constant 0.1; a float is >= 0.1 iff it is >= 0.1f)
  -- the ratios handed to laqgs (gsequ's, or in the directed class values at / next to the threshold)
  let rowcndQ := ((ratsOf dbl (c.raw "rowcnd.q")).bind (·[0]?)).getD rowcnd
  let colcndQ := ((ratsOf dbl (c.raw "colcnd.q")).bind (·[0]?)).getD colcnd
  let q := laqgsRule thresh (small * (1 - 2 * eps)) (large * (1 + 2 * eps)) rowcndQ colcndQ amax
  let q2 := laqgsRule thresh (small * (1 + 2 * eps)) (large * (1 - 2 * eps)) rowcndQ colcndQ amax
  let eq := c.p "equed"
  if q.toChar.toString ≠ eq ∧ q2.toChar.toString ≠ eq then return some s!"equed={eq} but the threshold rule gives {q.toChar}"
  let qq := if q.toChar.toString = eq then q else q2
  let aoRaw := c.raw "Aout"
  let ao? (t : Nat) : Option Rat := if dbl then f64ToRat? (aoRaw.getD t 0) else f32ToRat? (aoRaw.getD t 0)
  let ces := mkEntries n (c.nat "A.colptr") (c.nat "A.rowind") (Array.range mags.size)
  for e in ces do
    let k := e.val
    let f : Rat := match qq with
      | .N => 1 | .R => rr[e.row]! | .C => cc[e.col]! | .B => cc[e.col]! * rr[e.row]!
    let comps := if c.isComplex then [2*k, 2*k+1] else [k]
    for t in comps do
      let want := av[t]! * f
      -- the product cj*r[i] is formed first: if it overflows the clause is outside "up to rounding";
      -- if it underflows its absolute error (<= tiny) is amplified by |a|
      let huge : Rat := if dbl then pow2 1024 else pow2 128
      if rabs f ≥ huge then continue
      let some got := ao? t | return some s!"entry {k}: scaled value not finite although the factors are"
      if rabs (got - want) > 3 * eps * rabs want + tiny * (1 + rabs av[t]!) then return some s!"entry {k}: not multiplied by the selected factors"
      if qq == .N ∧ got ≠ av[t]! then return some s!"entry {k}: changed although equed=N"
  return none

def handle (c : Case) : Res :=
  let nnz := (c.nat "A.rowind").size
  let info := c.pNat "info"
  let dims := c.nat "A.dims"
  let tags := [s!"ty={c.ty}", s!"mode={c.p "mode"}", s!"pat={c.p "pat"}",
    if info = 0 then s!"equed={c.p "equed"}" else if info ≤ dims[0]! then "zero-row" else "zero-col"]
  match prop c with
  | some msg => Res.propFalse msg tags
  | none =>
    let r := match c.ty with
      | 'd' => corr Float Float c 0.1
      | 's' => corr Float32 Float32 c 0.1
      | 'z' => corr (Cx Float) Float c 0.1
      | _ => corr (Cx Float32) Float32 c 0.1
    match r with
    | some msg => Res.corr msg tags
    | none => { Res.ok (nnz ≥ 2) tags "bit" with }

end Slu.Drv.Equil
