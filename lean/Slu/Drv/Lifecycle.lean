import Slu.Proto
import Slu.Model.Ledger
-- HANDLER lifecycle => Slu.Drv.Lifecycle.handle
-- HANDLER lifecycle_sing => Slu.Drv.Lifecycle.handle
-- HANDLER lifecycle_ilu => Slu.Drv.Lifecycle.handle
/-
Driver for the `lifecycle*` families (C19).

Prop (the property's own predicate on what the implementation did):
  * after the caller destroyed everything it was handed, no library block is live (`live_end = 0`),
    in both runs;
  * the ledger recorded no free of a block that was not live (`double_frees = 0`);
  * the outputs of the two runs (fresh blocks filled 0xA5 / 0x5A) are bit-identical and the two runs
    went through the same operations with the same live counts.
Corr: the operation sequence is replayed through `Slu.Ledger.step`; the model's `liveCount` must
equal the harness' `led_live_blocks(1)` after every operation (quiescent point), and every call must
be `documented` in the state it is made in.  The first operation whose count exceeds the model's
names the routine and exit path that kept a block; the allocation sites come from `led_dump`.
-/
namespace Slu.Drv.Lifecycle
open Slu Slu.Ledger

def outOf (k : Int) : Out := match k with | 0 => .ok | 1 => .singular | 2 => .oos | _ => .query
def factOf (k : Int) : Fact := match k % 8 with | 0 => .dofact | 1 => .samePattern | 2 => .sameRowPerm | _ => .factored
def outName (k : Int) : String := match k with | 0 => "ok" | 1 => "singular(info in 1..n)" | 2 => "out-of-space(info>n)" | _ => "query(lwork=-1)"
def factName (k : Int) : String := match k % 8 with | 0 => "DOFACT" | 1 => "SamePattern" | 2 => "SamePattern_SameRowPerm" | _ => "FACTORED"

def objOf (kind h : Int) (ws : Bool) : Obj :=
  match kind with
  | 0 => .mat h.toNat | 1 => .dense h.toNat | 2 => .stat h.toNat | 3 => .acview h.toNat
  | 4 => .facL h.toNat ws | _ => .facU h.toNat ws

/-- decode one recorded operation `(code, h, a, b, out)`; `none` = abort marker / unknown -/
def opOf (code h a b out : Int) : Option Op :=
  match code with
  | 1 => some (.createMat h.toNat)
  | 2 => some (.createDense h.toNat)
  | 3 => some (.statInit h.toNat)
  | 4 => some .getPermC
  | 5 => some (.preorder h.toNat)
  | 6 => some (.gstrf h.toNat (factOf a) (b != 0) (outOf out))
  | 7 => some .gstrs
  | 8 => some .gsrfs
  | 9 => some .gscon
  | 10 => some .querySpace
  | 11 => some (.gssv h.toNat (a != 0) (outOf out))
  | 12 => some (.gssvx h.toNat (a != 0) (factOf b) (b / 8 % 2 != 0) (outOf out))
  | 13 => some (.destroy (objOf a h (b != 0)))
  | _ => none

def opName (style : String) (code a b out : Int) : String :=
  match code with
  | 1 => "Create_Comp*_Matrix" | 2 => "Create_Dense_Matrix" | 3 => "StatInit" | 4 => "get_perm_c" | 5 => "sp_preorder"
  | 6 => s!"gstrf[{factName a}{if b != 0 then ",workspace" else ""}]->{outName out}"
  | 7 => "gstrs" | 8 => "gsrfs" | 9 => "gscon" | 10 => "QuerySpace"
  | 11 => s!"gssv[{if a != 0 then "NR" else "NC"}]->{outName out}"
  | 12 => s!"{if style == "gsisx" then "gsisx" else "gssvx"}[{if a != 0 then "NR" else "NC"},{factName b}{if b / 8 % 2 != 0 then ",workspace" else ""}]->{outName out}"
  | 13 => s!"Destroy(obj {a})" | 14 => "ABORT" | _ => "?"

structure Replay where
  st : State := {}
  firstBad : Option String := none     -- first count mismatch (full text)
  badOp : String := ""                 -- routine[flags]->exit of that operation
  drivers : List String := []          -- factor/driver calls made, in order
  undocumented : Option String := none
  idx : Nat := 0

def replay (style : String) (ops : Array Int) : Replay := Id.run do
  let mut r : Replay := {}
  let n := ops.size / 6
  for k in List.range n do
    let code := ops[6*k]!; let h := ops[6*k+1]!; let a := ops[6*k+2]!; let b := ops[6*k+3]!; let out := ops[6*k+4]!; let live := ops[6*k+5]!
    match opOf code h a b out with
    | none => return r
    | some op =>
      if !documented r.st op ∧ r.undocumented.isNone then
        r := { r with undocumented := some s!"op#{k} {opName style code a b out}" }
      let st := step r.st op
      r := { r with st := st, idx := k }
      if code == 6 ∨ code == 11 ∨ code == 12 then r := { r with drivers := r.drivers ++ [opName style code a b out] }
      if r.firstBad.isNone ∧ (Int.ofNat st.liveCount) ≠ live then
        r := { r with firstBad := some s!"op#{k}: model live={st.liveCount} impl live={live}", badOp := opName style code a b out }
  return r

def handle (c : Case) : Res :=
  let ops := c.int "ops"
  let stream := c.p "stream"
  let aborted := c.pNat "aborted" != 0
  let outs := (List.range (ops.size / 6)).filterMap fun k =>
    let code := ops[6*k]!
    if code == 6 ∨ code == 11 ∨ code == 12 then some (ops[6*k+4]!) else none
  let has (o : Int) : Bool := outs.any (· == o)
  let facts := (List.range (ops.size / 6)).filterMap fun k =>
    if ops[6*k]! == 12 then some (ops[6*k+3]! % 8) else if ops[6*k]! == 6 then some (ops[6*k+2]! % 8) else none
  let tags := [s!"ty={c.ty}", s!"style={c.p "style"}", s!"stream={stream}"] ++
    (if has 1 then ["exit=singular"] else []) ++ (if has 2 then ["exit=out-of-space"] else []) ++ (if has 3 then ["exit=query"] else []) ++
    (if facts.any (· == 1) then ["fact=SamePattern"] else []) ++ (if facts.any (· == 2) then ["fact=SameRowPerm"] else []) ++
    (if facts.any (· == 3) then ["fact=FACTORED"] else []) ++
    (if c.pNat "oos" == 1 then ["oos=lwork"] else if c.pNat "oos" == 2 then ["oos=fault"] else []) ++
    (if aborted then ["ABORT-longjmp"] else []) ++ (if c.pNat "fault_fired" != 0 then ["fault-fired"] else []) ++
    (if c.pNat "singular" != 0 then ["singular-input"] else [])
  let r := replay (c.p "style") ops
  let marker := s!"[{stream}] "
  -- Prop
  let leakMsg (n : String) : String :=
    marker ++ s!"leak after {if r.badOp.isEmpty then "?" else r.badOp}: {n} library block(s) ({c.p "bytes_end"} bytes) still live after the caller destroyed everything; " ++
      (match r.firstBad with | some m => s!"first excess at {m}; " | none => "") ++ s!"allocated at {c.str "leak"}"
  if c.pInt "double_frees" ≠ 0 ∨ c.pInt "double_frees2" ≠ 0 then
    Res.propFalse (marker ++ s!"double free in a lifecycle with calls {r.drivers}: the ledger saw {c.p "double_frees"} free(s) of blocks that were not live") tags
  else if !aborted ∧ c.pInt "live_end" ≠ 0 then Res.propFalse (leakMsg (c.p "live_end")) tags
  else if !aborted ∧ c.pInt "live_end2" ≠ 0 then Res.propFalse (leakMsg (c.p "live_end2")) tags
  else if c.pNat "ndiff" ≠ 0 then
    Res.propFalse (marker ++ s!"outputs depend on the fill byte of fresh allocations (0xA5 vs 0x5A): uninitialised read reaches {c.str "diff"}") tags
  else if c.pNat "same_trace" = 0 then
    Res.propFalse (marker ++ "the two runs of the same lifecycle (fill 0xA5 / 0x5A) took different paths or live counts") tags
  else
  -- Corr
  match r.undocumented with
  | some m => Res.skip s!"harness made a call the model calls undocumented: {m}"
  | none =>
    match r.firstBad with
    | some m => if aborted then Res.ok false tags "exact" else Res.corr (marker ++ s!"ledger model disagrees after {r.badOp} at {m}") tags
    | none =>
      let nontrivial := (ops.size / 6 ≥ 8) ∧ !aborted
      Res.ok nontrivial tags "exact"

end Slu.Drv.Lifecycle
