import Slu.Proto
import Slu.Model.Gssvx
import Slu.Model.Struct
import Slu.Drv.Equil
import Slu.Drv.Lu
-- HANDLER gssvx => Slu.Drv.Gssvx.handle
/-
Driver for family `gssvx` (C05).

Prop  (the property's own clauses, evaluated on the implementation's outputs)
  P1  the index arrays of A are untouched and the stored values on exit are BIT-equal to the C11
      bit mirror `laqgsEntry` applied with the returned `equed`, `R`, `C` (for `equed = N`, in
      particular for Equil = NO: byte-identical);
  P2  B on exit is BIT-equal to `Gssvx.scaleB` applied to B on entry with the returned `equed`, `R`,
      `C` (R when notran && rowequ, C when !notran && colequ, after the SLU_NR flip; untouched when
      nothing was solved; the rows beyond n of each column are never touched);
  P3  rows beyond n of X are never touched; X is untouched when nothing was solved;
  P4  X solves the caller's ORIGINAL system: in exact rational arithmetic, with the returned factors,
        |B0 - op(A0) X|_i <= (1/s_i) ( g(4n+10) (|L||U| permuted back) |X_eq| + g(n+3) |B_eq| )_i
      and the equilibrated system `|B_eq - op(A_eq) X_eq| <= g(4n+6) (..)|X_eq| + g(n+1)|B_eq|`, where
      `X_eq = X / C` (resp. `X / R`) is formed exactly, `B_eq`, `A_eq` are B and A on exit and `s` is the
      factor that was applied to B (x4 for complex data).  With refinement on, a row may instead meet
      the componentwise backward error that the driver itself reports (`2 berr + g(n+3)`), where `berr` is
      capped at four times the worst row of the factor-derived bound expressed as a backward error.
Corr  `equed`, `R`, `C`, A and B on exit against the glue model `Gssvx.gssvx` (gsequ + laqgs on A on
      entry, scaling of B) run at the case's arithmetic type, bit for bit (R, C untouched when
      Equil = NO).

SLU_NR with Trans = CONJ: the documented system is `A^H X = B`; if that fails while `A^T X = B`
passes the case is reported with the fixed text of the open finding.
-/
namespace Slu.Drv.Gssvx
open Slu Slu.Equil Slu.Lacon Slu.Gssvx Slu.Drv.Lu

def knownMsg : String := "Stype=NR Trans=CONJ: X solves the transposed system, not the conjugate-transposed one"

def equedOf? (s : String) : Option Equed :=
  if s = "N" then some .N else if s = "R" then some .R else if s = "C" then some .C else if s = "B" then some .B else none

def optsOf (c : Case) : Opts :=
  { trans := Trans.ofString (c.p "trans"), equil := c.p "equil" == "1", rowStored := c.p "stor" == "NR", refine := c.p "refine" ≠ "0" }

/-- `X` was computed: a successful factorization (info = 0, or n+1 = the rcond warning) and nrhs > 0 -/
def solved (c : Case) : Bool :=
  let n := c.pNat "n"; let info := c.pInt "info"
  (info == 0 || info == (n : Int) + 1) && c.pNat "nrhs" > 0

section bits
variable (K R : Type) [Mag K R] [Wire K] [FBits R] [Inhabited K] [Inhabited R] [HasConj K]
variable [Zero R] [One R] [Mul R] [Div R] [LT R] [DecidableLT R] [LE R] [DecidableLE R] [BEq R]

/-- bit-level clauses; returns (prop failure, corr failure) -/
def bitChecks (c : Case) (thresh : R) : Option String × Option String := Id.run do
  let n := c.pNat "n"; let nrhs := c.pNat "nrhs"; let ldb := c.pNat "ldb"
  let o := optsOf c
  let w : Nat := if c.isComplex then 2 else 1
  let es := Slu.Drv.Equil.mkEntries (K := K) n (c.nat "A0.colptr") (c.nat "A0.rowind") (Wire.dec (c.raw "A0.val"))
  let cmp (what : String) (e g : Array UInt64) (unit : Nat) : Option String :=
    (firstDiff e g).map fun i => s!"{what}: differs bit-wise from the model of the documented behaviour at entry {i / unit}: expected={showBits e i} returned={showBits g i}"
  let rI : Nat → R := fun i => FBits.ofBits ((c.raw "R").getD i 0)
  let cI : Nat → R := fun j => FBits.ofBits ((c.raw "C").getD j 0)
  let some q := equedOf? (c.p "equed") | return (some s!"equed = '{c.p "equed"}' is not one of N R C B", none)
  -- P1
  if c.int "A1.colptr" ≠ c.int "A0.colptr" ∨ c.int "A1.rowind" ≠ c.int "A0.rowind" ∨ c.int "A1.dims" ≠ c.int "A0.dims" then
    return (some "the index arrays of A were modified", none)
  if c.p "Astype" ≠ (if o.rowStored then "2" else "0") then return (some "A->Stype was modified", none)
  if !o.equil ∧ q ≠ .N then return (some s!"Equil = NO but equed = {q.toChar}", none)
  let expA : Array UInt64 := Wire.enc (es.map (laqgsEntry q rI cI)).toArray
  match cmp (if o.equil then s!"A on exit is not A scaled as named by equed={q.toChar} (nzval)" else "Equil = NO but A was modified (nzval)") expA (c.raw "A1.val") w with
  | some m => return (some m, none)
  | none => pure ()
  -- P2
  let notran := (effTrans o.rowStored o.trans).2
  let b0 : Array K := Wire.dec (c.raw "B0")
  let expB : Array K := if solved c then scaleB notran q n nrhs ldb b0 rI cI else b0
  let which := if !solved c then "nothing was solved but B was modified" else
    if notran then (if Equed.rowequ q then "B on exit is not diag(R)*B" else s!"B was modified although notran and equed={q.toChar}")
    else (if Equed.colequ q then "B on exit is not diag(C)*B" else s!"B was modified although !notran and equed={q.toChar}")
  match cmp which (Wire.enc expB) (c.raw "B1") w with
  | some m => return (some m, none)
  | none => pure ()
  if c.p "Bdims" ≠ s!"{n} {nrhs} {ldb}" ∨ c.p "Xdims" ≠ s!"{n} {nrhs} {c.pNat "ldx"}" then return (some "the descriptors of B or X were modified", none)
  -- Corr: the whole glue model `Gssvx.gssvx` run on the inputs at the case's arithmetic type (the inner
  -- solver is irrelevant for equed, R, C, A and B on exit)
  let sen : R := FBits.ofBits (Slu.Drv.Equil.sentinel (FBits.isDouble R))
  let sml : R := FBits.ofBits (c.raw "sml")[0]!
  let prec : R := FBits.ofBits (c.raw "prec")[0]!
  let small := sml / prec
  let M : Mach R := { sml := sml, big := 1 / sml, thresh := thresh, small := small, large := 1 / small }
  let info := c.pInt "info"
  let facOk := info == 0 || info == (n : Int) + 1
  let out := gssvx true o M n nrhs ldb (c.pNat "ldx") es (fun _ => sen) (fun _ => sen) b0 (Wire.dec (c.raw "X0")) facOk (fun _ b => b)
  if out.equed ≠ q then return (none, some s!"equed model={out.equed.toChar} impl={q.toChar}")
  let encR (f : Nat → R) : Array UInt64 := (Array.range n).map fun i => FBits.toBits (f i)
  match cmp "R" (encR out.r) (c.raw "R") 1 with
  | some m => return (none, some m)
  | none => pure ()
  match cmp "C" (encR out.c) (c.raw "C") 1 with
  | some m => return (none, some m)
  | none => pure ()
  match cmp "model A on exit" (Wire.enc out.aout.toArray) (c.raw "A1.val") w with
  | some m => return (none, some m)
  | none => pure ()
  match cmp "model B on exit" (Wire.enc out.bout) (c.raw "B1") w with
  | some m => return (none, some m)
  | none => pure ()
  return (none, none)
end bits

/-! ### exact part -/

def cj (z : Q) : Q := ⟨z.re, -z.im⟩

structure Sys where
  n : Nat
  nrhs : Nat
  ldb : Nat
  ldx : Nat
  A0 : Array (Array Q)      -- dense, A0[j][i] = stored matrix (i, j), on entry
  A1 : Array (Array Q)      -- on exit
  B0 : Array Q
  B1 : Array Q
  X : Array Q
  sB : Array Rat            -- factor applied to B (per row)
  sX : Array Rat            -- factor applied to X (per row)
  W : Array (Array Rat)     -- |L||U| in factored coordinates
  permC : Array Nat
  permR : Array Nat
  berr : Array Rat
  refineOn : Bool
  eps : Rat
  cm : Rat
  tiny : Rat

def opEntry (op : Op) (F : Array (Array Q)) (i j : Nat) : Q :=
  match op with
  | .N => (F[j]!)[i]!
  | .T => (F[i]!)[j]!
  | .C => cj ((F[i]!)[j]!)
  | .J => cj ((F[j]!)[i]!)

def wEntry (S : Sys) (op : Op) (i j : Nat) : Rat :=
  match op with
  | .N | .J => (S.W[S.permR.getD i 0]!)[S.permC.getD j 0]!
  | .T | .C => (S.W[S.permR.getD j 0]!)[S.permC.getD i 0]!

/-- first violated residual clause for the operator `op` (`none` when X solves both systems); also
returns: some row needed the reported backward error; every residual is exactly zero -/
def residual (S : Sys) (op : Op) : Option String × Bool × Bool := Id.run do
  let n := S.n
  let mut viaBerr := false
  let mut allZero := true
  let g1e := gam S.eps (4 * n + 6) * S.cm; let g2e := gam S.eps (n + 1) * S.cm
  let g1o := gam S.eps (4 * n + 10) * S.cm; let g2o := gam S.eps (n + 3) * S.cm
  for r in List.range S.nrhs do
    let xeq : Array Q := (Array.range n).map fun j =>
      let x := S.X[j + r * S.ldx]!; let s := S.sX[j]!; (⟨x.re / s, x.im / s⟩ : Q)
    -- the backward error the driver reports is accepted in place of the factor-derived bound only up to (four
    -- times) the worst row of that bound expressed as a backward error: a refined X whose reported error is
    -- larger than anything the factors allow for is not excused by the report
    let mut betaMax : Rat := 0
    for i in List.range n do
      let mut wsum0 : Rat := 0
      let mut dsum0 : Rat := 0
      for j in List.range n do
        let xe := xeq[j]!
        wsum0 := wsum0 + wEntry S op i j * qabs xe
        dsum0 := dsum0 + qabs (opEntry op S.A1 i j) * qabs xe
      let be0 := qabs S.B1[i + r * S.ldb]!
      let den := dsum0 + be0
      if den > 0 then
        let b := (g1e * wsum0 + g2e * be0) / den
        if b > betaMax then betaMax := b
    let berrRep := S.berr.getD r 0
    let berr := if berrRep ≤ 4 * betaMax then berrRep else 4 * betaMax
    for i in List.range n do
      let mut se : Q := 0      -- (op(A1) X_eq)_i
      let mut so : Q := 0      -- (op(A0) X)_i
      let mut wsum : Rat := 0
      let mut dsum : Rat := 0  -- (|op(A1)||X_eq|)_i
      for j in List.range n do
        let xe := xeq[j]!
        let a1 := opEntry op S.A1 i j
        se := se + a1 * xe
        so := so + opEntry op S.A0 i j * S.X[j + r * S.ldx]!
        wsum := wsum + wEntry S op i j * qabs xe
        dsum := dsum + qabs a1 * qabs xe
      let be := S.B1[i + r * S.ldb]!
      let bo := S.B0[i + r * S.ldb]!
      let re := qabs (be - se)
      let ro := qabs (bo - so)
      let s := S.sB[i]!
      let okE := re ≤ g1e * wsum + g2e * qabs be + S.tiny
      let okO := ro * s ≤ g1o * wsum + g2o * qabs be + S.tiny * (1 + s)
      -- refinement: the componentwise backward error reported by the driver
      let bw := (2 * berr + g2o) * (dsum + qabs be) + S.tiny
      let okEr := S.refineOn && decide (re ≤ bw)
      let okOr := S.refineOn && decide (ro * s ≤ bw + 4 * S.eps * S.cm * (dsum + qabs be) + S.tiny * s)
      if ¬ (okO ∨ okOr) then
        return (some s!"residual of equation {i}, right-hand side {r} of the ORIGINAL system exceeds the factor-derived bound", viaBerr, false)
      if ¬ (okE ∨ okEr) then
        return (some s!"residual of equation {i}, right-hand side {r} of the equilibrated system exceeds the factor-derived bound", viaBerr, false)
      if ¬ okO ∨ ¬ okE then viaBerr := true
      if ro ≠ 0 ∨ re ≠ 0 then allZero := false
  return (none, viaBerr, allZero)

def dense (n : Nat) (colptr rowind : Array Nat) (val : Array Q) : Array (Array Q) :=
  let A : CSC Q := { m := n, n := n, colptr := colptr, rowind := rowind, val := val }
  (Array.range n).map fun j => denseCol A j

def handle (c : Case) : Res := Id.run do
  let n := c.pNat "n"; let nrhs := c.pNat "nrhs"; let ldb := c.pNat "ldb"; let ldx := c.pNat "ldx"
  let info := c.pInt "info"
  let o := optsOf c
  let cplxConj := c.isComplex && o.trans == .C
  let tags0 := [s!"ty={c.ty}", s!"stor={c.p "stor"}", s!"trans={c.p "trans"}", s!"equil={c.p "equil"}", s!"refine={c.p "refine"}",
    s!"equed={c.p "equed"}", s!"nrhs={nrhs}", s!"val={c.p "val"}", s!"smode={c.p "smode"}", s!"colperm={c.p "colperm"}",
    s!"ldpad={if ldb > n ∨ ldx > n then 1 else 0}", if cplxConj then s!"conj-complex-{c.p "stor"}" else "no-conj-path",
    if info == 0 then "info0" else if info == (n : Int) + 1 then "info-rcond" else if info > 0 ∧ info ≤ n then "info-singular" else "info-other"]
  if info < 0 ∨ info > (n : Int) + 1 then return Res.propFalse s!"unexpected info = {info} on legal input" tags0
  -- bit-level clauses
  let (pf, cf) := match c.ty with
    | 'd' => bitChecks Float Float c 0.1
    | 's' => bitChecks Float32 Float32 c 0.1
    | 'z' => bitChecks (Cx Float) Float c 0.1
    | _ => bitChecks (Cx Float32) Float32 c 0.1
  if let some m := pf then return Res.propFalse m tags0
  -- P3: X outside the solution block
  let w := if c.isComplex then 2 else 1
  let xr := c.raw "X"; let x0r := c.raw "X0"
  if xr.size ≠ x0r.size then return Res.propFalse "X changed size" tags0
  for k in List.range (ldx * nrhs) do
    if (!solved c ∨ k % ldx ≥ n) then
      for t in List.range w do
        if xr[k * w + t]! ≠ x0r[k * w + t]! then
          return Res.propFalse (if solved c then s!"padding row {k % ldx} of X was modified" else "nothing was solved but X was modified") tags0
  if !solved c then
    if let some m := cf then return Res.corr m tags0
    return Res.ok false tags0 "bit"
  -- smode 7 (a row or column at the bottom of the exponent range): equilibration clauses only
  if c.p "smode" == "7" then
    if let some m := cf then return Res.corr m tags0
    return Res.ok (n ≥ 2) tags0 "bit"
  -- P4: exact residuals
  let some q := equedOf? (c.p "equed") | return Res.propFalse "equed" tags0
  let fin (name : String) : Option (Array Q) := decQ? c name
  let some a0 := fin "A0.val" | return Res.skip "non-finite matrix entries"
  let some a1 := fin "A1.val" | return Res.propFalse "A on exit has non-finite entries" tags0
  let some b0 := fin "B0" | return Res.skip "non-finite right-hand side"
  let some b1 := fin "B1" | return Res.propFalse "B on exit has non-finite entries" tags0
  let ovf := c.p "smode" == "4"
  let some x := fin "X" | return (if ovf then Res.skip "non-finite X next to the overflow threshold" else Res.propFalse "X has non-finite entries" tags0)
  let some rr := ratsOf c.isDouble (c.raw "R") | return Res.propFalse "R not finite" tags0
  let some cc := ratsOf c.isDouble (c.raw "C") | return Res.propFalse "C not finite" tags0
  let some fac := decodeFac c | return (if ovf then Res.skip "non-finite factors next to the overflow threshold" else Res.propFalse "factors contain non-finite values" tags0)
  if (Struct.wfSC fac).isSome then return Res.skip "structure not well-formed (reported under C03)"
  let permCi := c.int "perm_c"; let permRi := c.int "perm_r"
  if !isPermArr permCi n ∨ !isPermArr permRi n then return Res.propFalse "perm_c / perm_r is not a permutation of 0..n-1" tags0
  let notran := (effTrans o.rowStored o.trans).2
  let rowequ := Equed.rowequ q; let colequ := Equed.colequ q
  -- positive scalings (C11 `gsequ_range`)
  if rowequ ∧ (List.range n).any (fun i => rr[i]! ≤ 0) then return Res.propFalse "equed names R but some R[i] <= 0" tags0
  if colequ ∧ (List.range n).any (fun i => cc[i]! ≤ 0) then return Res.propFalse "equed names C but some C[i] <= 0" tags0
  let ones : Array Rat := Array.replicate n 1
  let sB := if notran then (if rowequ then rr else ones) else (if colequ then cc else ones)
  let sX := if notran then (if colequ then cc else ones) else (if rowequ then rr else ones)
  let W : Array (Array Rat) := (Array.range n).map fun i => (Array.range n).map fun j =>
    (List.range (min (i + 1) (j + 1))).foldl (fun s k => s + qabs (fac.decodeL i k) * qabs (fac.decodeU k j)) 0
  let berr : Array Rat := match ratsOf c.isDouble (c.raw "berr") with | some b => b | none => Array.replicate nrhs 1
  let S : Sys := { n := n, nrhs := nrhs, ldb := ldb, ldx := ldx,
                      A0 := dense n (c.nat "A0.colptr") (c.nat "A0.rowind") a0, A1 := dense n (c.nat "A0.colptr") (c.nat "A0.rowind") a1,
                      B0 := b0, B1 := b1, X := x, sB := sB, sX := sX, W := W, permC := permCi.map Int.toNat, permR := permRi.map Int.toNat,
                      berr := berr, refineOn := o.refine, eps := epsOf c, cm := if c.isComplex then 4 else 1,
                      tiny := if c.isDouble then pow2 (-1060) else pow2 (-140) }
  let (rm, viaBerr, allZero) := residual S (docOp o)
  if let some m := rm then
    if docOp o == .J ∧ (residual S (implOp o)).1.isNone then return Res.propFalse knownMsg tags0
    return Res.propFalse m tags0
  if let some m := cf then return Res.corr m tags0
  let tags := tags0 ++ [if !o.refine then "bound=factors" else if viaBerr then "bound=berr" else "bound=factors-refined"]
  -- class: `exact` = X solves the original and the equilibrated system with zero residual
  return Res.ok (n ≥ 2) tags (if allZero then "exact" else "tolerance")

end Slu.Drv.Gssvx
