import Slu.Proto
import Slu.Model.Cblas
import Slu.Model.Cblas2
-- HANDLER cblas => Slu.Drv.Cblas.handle
/-
Driver for family `cblas` (C14): the bundled reference BLAS called directly.

Prop (on the implementation's outputs; bit patterns / exact rationals):
  * every array position that is not a strided element of an output vector is unchanged, read-only
    operands (x of asum/iamax/copy/axpy/dot/nrm2/gemv, A) are unchanged;
  * `i?amax`: the returned index is the 1-based index of the FIRST element of maximal magnitude
    (`|re|+|im|`), 0 when `n < 1` or `incx <= 0` (exact rationals, finite data);
  * `?copy` / `?swap` with nonzero increments: the strided elements are the source's bit patterns.
Corr: the Lean mirror (Slu/Model/Cblas.lean, Cblas2.lean) executed at the case's floating type
  reproduces every output word — vectors including stride gaps, scalar results — bit for bit
  (NaN payloads canonicalised).
-/
namespace Slu.Drv.Cblas
open Slu Slu.Cblas Slu.Kernels

structure Out where
  x : Array UInt64 := #[]
  y : Array UInt64 := #[]
  rres : Array UInt64 := #[]
  sres : Array UInt64 := #[]
  ires : Int := -1
  a : Array UInt64 := #[]

section real
variable (R : Type) {W : Type} [Zero R] [One R] [Add R] [Mul R] [Div R] [Neg R] [LE R] [DecidableLE R]
  [LT R] [DecidableLT R] [IsZero R] [Add W] [Mul W] [Widen R W] [HasSqrt W] [Wire R]

def runReal (c : Case) : Out :=
  let x : Array R := Wire.dec (c.raw "xin"); let y : Array R := Wire.dec (c.raw "yin")
  let alpha : R := (Wire.dec (c.raw "alpha") : Array R).getD 0 0
  let n := c.pInt "n"; let incx := c.pInt "incx"; let incy := c.pInt "incy"
  let e (v : Array R) := Wire.enc v
  let z : Array UInt64 := e #[(0 : R)]
  match c.p "rt" with
  | "asum" => { x := e x, y := e y, rres := e #[asumR n x incx], sres := z }
  | "iamax" => { x := e x, y := e y, rres := z, sres := z, ires := iamaxR n x incx }
  | "copy" => { x := e x, y := e (copyR n x incx y incy), rres := z, sres := z }
  | "scal" => { x := e (scalR n alpha x incx), y := e y, rres := z, sres := z }
  | "axpy" => { x := e x, y := e (axpyR n alpha x incx y incy), rres := z, sres := z }
  | "dot" => { x := e x, y := e y, rres := z, sres := e #[dotR n x incx y incy] }
  | "swap" => let s := swapR n x incx y incy; { x := e s.1, y := e s.2, rres := z, sres := z }
  | _ => { x := e x, y := e y, rres := e #[nrm2R n x incx], sres := z }
end real

section cplx
variable (R : Type) {W : Type} [Zero R] [One R] [Add R] [Sub R] [Mul R] [Div R] [Neg R] [LE R] [DecidableLE R]
  [LT R] [DecidableLT R] [IsZero R] [Add W] [Mul W] [LE W] [DecidableLE W] [IsZero W] [Widen R W]
  [HasSqrt W] [Wire R] [Wire (Cx R)]

def runCx (c : Case) (single : Bool) : Out :=
  let x : Array (Cx R) := Wire.dec (c.raw "xin"); let y : Array (Cx R) := Wire.dec (c.raw "yin")
  let alpha : Cx R := (Wire.dec (c.raw "alpha") : Array (Cx R)).getD 0 0
  let n := c.pInt "n"; let incx := c.pInt "incx"; let incy := c.pInt "incy"
  let e (v : Array (Cx R)) := Wire.enc v
  let er (v : Array R) := Wire.enc v
  let z : Array UInt64 := e #[(0 : Cx R)]
  let zr : Array UInt64 := er #[(0 : R)]
  match c.p "rt" with
  | "asum" => { x := e x, y := e y, rres := er #[if single then asumC n x incx else asumZ n x incx], sres := z }
  | "iamax" => { x := e x, y := e y, rres := zr, sres := z, ires := iamaxC n x incx }
  | "copy" => { x := e x, y := e (copyC n x incx y incy), rres := zr, sres := z }
  | "scal" => { x := e (scalC n alpha x incx), y := e y, rres := zr, sres := z }
  | "axpy" => { x := e x, y := e (axpyC n alpha x incx y incy), rres := zr, sres := z }
  | "dot" => { x := e x, y := e y, rres := zr, sres := e #[dotcC n x incx y incy] }
  | "swap" => let s := swapC n x incx y incy; { x := e s.1, y := e s.2, rres := zr, sres := z }
  | _ => { x := e x, y := e y, rres := er #[nrm2C n x incx], sres := z }
end cplx

section lvl2
variable (K : Type) [Inhabited K] [Zero K] [One K] [Add K] [Sub K] [Mul K] [Div K] [Conj K] [BEq K] [Wire K]

def trOf (s : String) : Tr := if s = "N" then Tr.N else if s = "T" then Tr.T else Tr.C

def runL2 (c : Case) : Out :=
  let a : Array K := Wire.dec (c.raw "a"); let x : Array K := Wire.dec (c.raw "xin")
  let e (v : Array K) := Wire.enc v
  if c.p "rt" = "gemv" then
    let y : Array K := Wire.dec (c.raw "yin")
    let alpha : K := (Wire.dec (c.raw "alpha") : Array K)[0]!
    let beta : K := (Wire.dec (c.raw "beta") : Array K)[0]!
    { a := e a, x := e x,
      y := e (gemv (trOf (c.p "trans")) (c.pNat "m") (c.pNat "n") alpha a (c.pNat "lda") x (c.pInt "incx") beta y (c.pInt "incy")) }
  else
    { a := e a, y := #[],
      x := e (trsv (c.p "uplo" = "U") (trOf (c.p "trans")) (c.p "diag" = "N") (c.pNat "n") a (c.pNat "lda") x (c.pInt "incx")) }
end lvl2

/-- words per scalar -/
def wps (c : Case) : Nat := if c.isComplex then 2 else 1

/-- the positions (in scalars) of the `n` strided elements -/
def strided (n : Int) (inc : Int) : List Nat := (List.range n.toNat).map (spos n.toNat inc)

/-- words of `a`/`b` agree at every scalar position not in `pos` -/
def untouched (w : Nat) (a b : Array UInt64) (pos : List Nat) : Option Nat :=
  if a.size ≠ b.size then some 0 else
  (List.range a.size).find? fun k => !(pos.contains (k / w)) && canonNaN a[k]! != canonNaN b[k]!

/-- |re|+|im| of scalar `i` of a word array, exact (`none` if not finite) -/
def magAt (c : Case) (a : Array UInt64) (i : Nat) : Option Rat :=
  let f (b : UInt64) := if c.isDouble then f64ToRat? b else f32ToRat? b
  if c.isComplex then do let r ← f (a.getD (2 * i) 0); let m ← f (a.getD (2 * i + 1) 0); pure (rabs r + rabs m)
  else (f (a.getD i 0)).map rabs

def iamaxRef (c : Case) (x : Array UInt64) (n incx : Int) : Option Int :=
  if n < 1 ∨ incx ≤ 0 then some 0 else do
  let mags ← (List.range n.toNat).mapM fun i => magAt c x (spos n.toNat incx i)
  let mx := mags.foldl max 0
  pure ((mags.findIdx (· == mx) : Nat) + 1 : Int)

def incTag (k : Int) : String := if k = 1 then "+1" else if k > 1 then "+k" else if k = 0 then "0" else if k = -1 then "-1" else "-k"

def propCheck (c : Case) : Option String :=
  let w := wps c
  let xin := c.raw "xin"; let xout := c.raw "xout"; let yin := c.raw "yin"; let yout := c.raw "yout"
  let rt := c.p "rt"
  let n := c.pInt "n"; let incx := c.pInt "incx"; let incy := c.pInt "incy"
  if rt = "gemv" ∨ rt = "trsv" then
    if firstDiff (c.raw "a") (c.raw "aout") |>.isSome then some "A was modified" else
    if rt = "gemv" then
      if (firstDiff xin xout).isSome then some "x was modified" else
      let leny : Int := if c.p "trans" = "N" then c.pInt "m" else c.pInt "n"
      (untouched w yin yout (strided leny incy)).map fun k => s!"y word {k} off the stride was modified"
    else (untouched w xin xout (strided n incx)).map fun k => s!"x word {k} off the stride was modified"
  else
  let xw := rt = "scal" ∨ rt = "swap"
  let yw := rt = "copy" ∨ rt = "axpy" ∨ rt = "swap"
  match untouched w xin xout (if xw then strided n incx else []) with
  | some k => some s!"x word {k} {if xw then "off the stride " else ""}was modified"
  | none =>
  match untouched w yin yout (if yw then strided n incy else []) with
  | some k => some s!"y word {k} {if yw then "off the stride " else ""}was modified"
  | none =>
  if rt = "iamax" then
    match iamaxRef c xin n incx with
    | some r => if r = c.pInt "ires" then none else some s!"i?amax returned {c.pInt "ires"}, first element of maximal magnitude is {r}"
    | none => none
  else if (rt = "copy" ∨ rt = "swap") ∧ incx ≠ 0 ∧ incy ≠ 0 then
    let N := n.toNat
    let bad := (List.range N).find? fun i => (List.range w).any fun q =>
      canonNaN (yout.getD (w * spos N incy i + q) 0) != canonNaN (xin.getD (w * spos N incx i + q) 0) ||
      (rt = "swap" && canonNaN (xout.getD (w * spos N incx i + q) 0) != canonNaN (yin.getD (w * spos N incy i + q) 0))
    bad.map fun i => s!"element {i} was not copied/swapped"
  else none

def handle (c : Case) : Res :=
  let rt := c.p "rt"
  let lvl2 := rt = "gemv" ∨ rt = "trsv"
  let n := c.pInt "n"
  let k : Nat := match rt with | "asum" => 6 | "copy" => 7 | "scal" => 5 | "axpy" => 4 | "dot" => 5 | "swap" => 3 | _ => 1
  let cplxNoUnroll := c.isComplex
  let tags := [s!"ty={c.ty}", s!"rt={rt}", s!"vcls={c.p "vcls"}", s!"incx={incTag (c.pInt "incx")}"] ++
    (if lvl2 then [s!"trans={c.p "trans"}"] ++
        (if rt = "gemv" then [s!"incy={incTag (c.pInt "incy")}", s!"alpha={c.p "alphac"}", s!"beta={c.p "betac"}",
          if c.pNat "m" = 0 ∨ c.pNat "n" = 0 then "empty" else "nonempty"]
         else [s!"uplo={c.p "uplo"}", s!"diag={c.p "diag"}", s!"n%4={c.pNat "n" % 4}"])
     else [if n ≤ 0 then "n<=0" else if n = 1 then "n=1" else "n>=2"] ++
        (if k > 1 ∧ ¬cplxNoUnroll ∧ n ≥ 0 then [s!"unroll{k}res={n.toNat % k}", if n.toNat ≥ k then "blocks>=1" else "blocks=0"] else []) ++
        (if rt = "copy" ∨ rt = "axpy" ∨ rt = "dot" ∨ rt = "swap" then [s!"incy={incTag (c.pInt "incy")}"] else []) ++
        (if rt = "scal" ∨ rt = "axpy" then [s!"alpha={c.p "alphac"}"] else []))
  match propCheck c with
  | some msg => Res.propFalse s!"{c.ty}{rt}: {msg}" tags
  | none =>
  let o : Out :=
    if lvl2 then
      match c.ty with
      | 'd' => runL2 Float c | 's' => runL2 Float32 c | 'z' => runL2 (Cx Float) c | _ => runL2 (Cx Float32) c
    else
      match c.ty with
      | 'd' => runReal Float c | 's' => runReal Float32 c
      | 'z' => runCx Float c false | _ => runCx Float32 c true
  let cmp (what : String) (m i : Array UInt64) : Option String :=
    (firstDiff m i).map fun k => s!"{what} word {k}: model={showBits m k} impl={showBits i k}"
  let d :=
    if lvl2 then
      (cmp "x" o.x (c.raw "xout")).orElse fun _ => if rt = "gemv" then cmp "y" o.y (c.raw "yout") else none
    else
      (cmp "x" o.x (c.raw "xout")).orElse fun _ => (cmp "y" o.y (c.raw "yout")).orElse fun _ =>
      (cmp "result" o.rres (c.raw "rres")).orElse fun _ => (cmp "result" o.sres (c.raw "sres")).orElse fun _ =>
      if o.ires ≠ c.pInt "ires" then some s!"index: model={o.ires} impl={c.pInt "ires"}" else none
  match d with
  | some msg => Res.corr s!"{c.ty}{rt} n={c.p "n"} incx={c.p "incx"} incy={c.p "incy"}: {msg}" tags
  | none =>
    let nontrivial :=
      if rt = "gemv" then c.pNat "m" ≥ 1 ∧ c.pNat "n" ≥ 1 ∧ ¬(c.p "alphac" = "0" ∧ c.p "betac" = "1")
      else if rt = "trsv" then c.pNat "n" ≥ 2
      else n ≥ 2 ∧ (¬(rt = "asum" ∨ rt = "iamax" ∨ rt = "scal") ∨ c.pInt "incx" > 0) ∧ ¬(rt = "axpy" ∧ (c.p "alphac" = "0" ∨ c.p "alphac" = "-0"))
    Res.ok nontrivial tags "bit"

end Slu.Drv.Cblas
