import Slu.Proto
import Slu.Model.Ilu
import Slu.Model.Order
import Slu.Drv.Kernels
import Slu.Drv.IluEvents
-- HANDLER ilu => Slu.Drv.Ilu.handle
/-
Driver for family `ilu` (C15): the property's clauses evaluated on the outputs of `[sdcz]gsisx`.

  * the call completes (a crash / exit is recorded by `check` as a crash failure of the case);
  * 0 <= info <= n (info = n+1 only with ConditionNumber = YES);
  * perm_c, perm_r are bijections of 0..n-1;
  * L, U structurally well-formed; every stored value finite; U's diagonal nonzero;
  * A's index arrays byte-identical on exit (MC64 permutation undone), A's values untouched when
    equed = 'N', B untouched when equed = 'N';
  * X bit-identical to an independent [sdcz]gstrs on the returned factors (with the driver's scaling
    steps), padding rows of X untouched; X untouched when nrhs = 0;
  * dropping off (ILU_DropRule = NODROP, or DROP_BASIC with tolerance 0) and info = 0:
    |Pr*A_out*Pc - L*U| <= gamma(n+2) |L||U| and the documented system op(A) X = B is solved within
    gamma(4n+5) (|L||U|)|X| + gamma(n+1)|B| — exact rationals;
  * every pivot step (hook H2 of ilu_?pivotL, `ie.*`): the Prop clauses and the bit mirror of
    `Slu.Drv.IluEvents` (Prop first, then Corr).
-/
namespace Slu.Drv.Ilu
open Slu Slu.Kernels Slu.Ilu Slu.Drv.Kernels

section generic
variable {K : Type} [Inhabited K] [Zero K] [One K] [Add K] [Sub K] [Mul K] [Div K] [Conj K] [BEq K]

/-- structural well-formedness of the (L, U) pair (light version of C03's `wfSC`) -/
def wfLU (F : LUFac K) : Option String := Id.run do
  let L := F.L; let n := L.n
  if L.xsup.size ≠ L.nsuper + 2 then return some "xsup length"
  if L.xsup[0]! ≠ 0 ∨ L.xsup[L.nsuper + 1]! ≠ n then return some "xsup does not cover 0..n"
  if L.supno.size < n then return some "supno length"
  if L.xlsub.size ≠ n + 1 ∨ L.xlusup.size ≠ n + 1 ∨ F.U.colptr.size ≠ n + 1 then return some "pointer array length"
  for k in List.range (L.nsuper + 1) do
    let f := L.xsup[k]!; let l := L.xsup[k+1]!
    if l ≤ f then return some s!"supernode {k} empty"
    let nsupr := L.xlsub[f+1]! - L.xlsub[f]!
    let nsupc := l - f
    if L.xlsub[f+1]! < L.xlsub[f]! ∨ nsupr < nsupc then return some s!"supernode {k}: fewer rows than columns"
    if L.xlsub[f]! + nsupr > L.lsub.size then return some s!"supernode {k}: row list out of range"
    for j in List.range nsupc do
      if L.supno[f + j]! ≠ k then return some s!"col_to_sup[{f + j}] inconsistent"
      if L.lsub[L.xlsub[f]! + j]! ≠ f + j then return some s!"supernode {k}: leading row {j} is not its own column"
      if L.xlusup[f + j + 1]! - L.xlusup[f + j]! ≠ nsupr ∨ L.xlusup[f + j + 1]! < L.xlusup[f + j]! then return some s!"column {f + j}: nzval_colptr inconsistent with the row count"
    let below := (List.range (nsupr - nsupc)).map fun i => L.lsub[L.xlsub[f]! + nsupc + i]!
    if below.any (fun r => r < l ∨ r ≥ L.m) then return some s!"supernode {k}: a row below the block is not below the supernode"
    if below.any (fun r => (below.filter (· == r)).length ≠ 1) then return some s!"supernode {k}: repeated row"
    for j in List.range nsupc do
      let lo := F.U.colptr[f + j]!; let hi := F.U.colptr[f + j + 1]!
      if hi < lo ∨ hi > F.U.rowind.size then return some s!"U column {f + j}: pointers"
      if (List.range (hi - lo)).any (fun d => F.U.rowind[lo + d]! ≥ f) then return some s!"U column {f + j}: row not strictly above the supernode"
  if L.xlusup[n]! > L.lusup.size ∨ F.U.colptr[n]! > F.U.val.size then return some "value arrays too short"
  return none

def absM (o : Ops K) (n : Nat) (M : Array (Array K)) : Array (Array Rat) :=
  (Array.range n).map fun i => (Array.range n).map fun j => o.mag (at2 M i j)
def at2r (M : Array (Array Rat)) (i j : Nat) : Rat := (M.getD i #[]).getD j 0

/-- the documented threshold rule on exact ratios (clear cases only; see `Slu.Drv.History.propEquilRule`):
`some (rows, cols)` = whether gsequ/laqgs must scale the rows / the columns of the matrix handed in -/
def equilRule (dbl : Bool) (w n : Nat) (colptr rowind : Array Nat) (raw : Array UInt64) : Option (Option Bool × Option Bool) := Id.run do
  let some comps := ratsOf dbl raw | return none
  let mag (p : Nat) : Rat := (List.range w).foldl (fun a t => a + rabs (comps.getD (w * p + t) 0)) 0
  let mut rmax : Array Rat := Array.replicate n 0
  for j in List.range n do
    for p in List.range' (colptr.getD j 0) (colptr.getD (j+1) 0 - colptr.getD j 0) do
      let i := rowind.getD p 0
      if mag p > rmax.getD i 0 then rmax := rmax.setIfInBounds i (mag p)
  let big : Rat := (2 : Rat) ^ 60
  if rmax.any (fun x => x == 0 ∨ x > big ∨ x < 1 / big) then return none
  let hi := rmax.foldl max 0; let lo := rmax.foldl min hi
  let mut cmax : Array Rat := Array.replicate n 0
  for j in List.range n do
    for p in List.range' (colptr.getD j 0) (colptr.getD (j+1) 0 - colptr.getD j 0) do
      let m := mag p / rmax.getD (rowind.getD p 0) 1
      if m > cmax.getD j 0 then cmax := cmax.setIfInBounds j m
  if cmax.any (· == 0) then return none
  let chi := cmax.foldl max 0; let clo := cmax.foldl min chi
  let thr : Rat := 1 / 10; let mrg : Rat := 1 / 1000000
  let dec (x : Rat) : Option Bool := if x < thr * (1 - mrg) then some true else if x > thr * (1 + mrg) then some false else none
  return some (dec (lo / hi), dec (clo / chi))

def handleG (o : Ops K) (c : Case) : Res := Id.run do
  let dbl := c.isDouble
  let n := c.pNat "n"; let nrhs := c.pNat "nrhs"; let ldb := c.pNat "ldb"; let ldx := c.pNat "ldx"
  let info := c.pInt "info"
  let w := if o.cplx then 2 else 1
  let rule := c.pNat "rule"
  let nodrop := rule == 0 || (rule == 1 && c.p "droptol" == "0")
  let tags := [s!"ty={c.ty}", s!"stype={c.p "stype"}", s!"rule={rule}", s!"milu={c.p "milu"}", s!"rowperm={c.p "rowperm"}",
    s!"trans={c.p "trans"}", s!"vcls={c.p "vcls"}", s!"equed={c.p "equed"}", s!"norm={c.p "norm"}", s!"colperm={c.p "colperm"}",
    (if info == 0 then "info=0" else if info ≤ n then "info=replaced" else "info>n"),
    (if nodrop then "nodrop" else "drop"), s!"dmode={c.p "dmode" "0"}", s!"u={c.p "u"}"] ++
    (if c.p "refact" == "1" then [if c.p "refkind" == "0" then "refactor=same-values" else "refactor=new-values"] else []) ++ (if c.p "symm" == "1" then ["symmetric-mode"] else []) ++
    (if c.p "userwork" "0" == "1" then ["user-workspace", s!"user-workspace-fill={c.p "fill"}"] ++ (if c.pNat "expansions" > 0 then ["user-workspace-expanded"] else []) else [])
  let call := s!"{c.ty}gsisx Stype={c.p "stype"} Trans={c.p "trans"} rule={rule} milu={c.p "milu"} rowperm={c.p "rowperm"}"
  let lib := c.str "libout"
  let tags := if lib ≠ "" then tags ++ ["library-printed"] else tags
  if info < 0 then return Res.propFalse s!"{call}: info={info} (argument rejected; library printed \"{lib}\")" tags
  -- a deliberately small caller work area: info > n is the documented outcome; the caller's matrix must come
  -- back with its own index arrays (the driver permutes the row indices in place around the factorization)
  if info > n + 1 ∧ c.p "tinywork" "0" == "1" then
    if c.p "aidx_changed" ≠ "none" then
      return Res.propFalse s!"{call}: out-of-space return (info={info} > n={n}) but A's {c.p "aidx_changed"} array differs on exit (row indices not restored)" ("out-of-space" :: tags)
    return Res.ok (n ≥ 2) ("out-of-space" :: tags) "exact"
  if info > n ∧ !(info == n + 1 ∧ c.pNat "condnum" = 1) then
    return Res.propFalse s!"{call}: info={info} exceeds n={n}" tags
  if c.p "aidx_changed" ≠ "none" then return Res.propFalse s!"{call}: A's {c.p "aidx_changed"} array differs on exit (row indices not restored)" tags
  let permc := c.nat "perm_c"; let permr := c.nat "perm_r"
  if (c.int "perm_c").any (· < 0) ∨ !isPerm n permc then return Res.propFalse s!"{call}: perm_c is not a permutation of 0..n-1" tags
  if (c.int "perm_r").any (· < 0) ∨ !isPerm n permr then return Res.propFalse s!"{call}: perm_r is not a permutation of 0..n-1" tags
  if c.pNat "havefac" ≠ 1 then return Res.propFalse s!"{call}: no factors returned" tags
  -- order: (C10) the elimination tree handed back is the column elimination tree of A*Pc for the perm_c handed back - with
  -- or without SymmetricMode (ilu_heap_relax_snode relabels the caller's tree in place and must restore it); the column
  -- elimination tree does not depend on the row order, so the arrays of A as they went in serve (MC64 permutes rows only)
  let pat : Slu.Order.Pat := { m := n, n := n, colptr := c.nat "A.colptr", rowind := c.nat "A.rowind" }
  let ct := Slu.Order.coletree n n (Slu.Order.permView pat permc).col
  if (c.int "etree").toList ≠ ct.toList.map Int.ofNat then
    return Res.propFalse s!"{call}: order: the elimination tree returned is not the column elimination tree of A*Pc: returned {(c.int "etree").toList} expected {ct.toList}" tags
  -- values
  let some _ := o.dec dbl (c.raw "L.lusup") | return Res.propFalse s!"{call}: non-finite value stored in L (or in U's diagonal blocks)" tags
  let some _ := o.dec dbl (c.raw "U.val") | return Res.propFalse s!"{call}: non-finite value stored in U" tags
  let F : LUFac K := LUFac.ofCase c (fun a => (o.dec dbl a).getD #[])
  if let some e := wfLU F then return Res.propFalse s!"{call}: factors not well-formed: {e}" tags
  -- the nnz fields describe the returned structure (ilu_countnz), also after a refactorization into reused storage
  if F.nnzL ≠ Slu.Struct.countnzL F.L ∨ F.nnzU ≠ Slu.Struct.countnzU F then
    return Res.propFalse s!"{call}: storage: L.nnz, U.nnz = {F.nnzL}, {F.nnzU} but the returned structure holds {Slu.Struct.countnzL F.L}, {Slu.Struct.countnzU F} entries (refact={c.p "refact"})" tags
  let Ud := tabulate n (fun i j => F.decodeU i j)
  if let some j := (List.range n).find? (fun j => at2 Ud j j == 0) then
    return Res.propFalse s!"{call}: U({j},{j}) is zero" tags
  -- A and B on exit
  let equed := c.p "equed"
  -- equed is an output of a factorizing call: one of the four letters, and N when no equilibration was asked for
  if ¬ (equed == "N" ∨ equed == "R" ∨ equed == "C" ∨ equed == "B") then
    return Res.propFalse s!"{call}: equed={equed} returned by a factorizing call (not one of N R C B; on entry it held {c.p "equed_in"})" tags
  -- "If MC64 fails, ?gsequ() is used to equilibrate the system": the threshold rule then decides equed
  if c.p "rowperm" == "MC64" ∧ c.pInt "mc64ret" (-99) ≠ 0 ∧ c.pInt "mc64ret" (-99) ≠ -99 ∧ c.pNat "equil" = 1 ∧ c.p "refact" ≠ "1" then
    match equilRule dbl w n (c.nat "A.colptr") (c.nat "A.rowind") (c.raw "A.val") with
    | some (rw, cl) =>
      let hasR := equed == "R" || equed == "B"; let hasC := equed == "C" || equed == "B"
      if rw == some (!hasR) ∨ cl == some (!hasC) then
        return Res.propFalse s!"{call}: equil: MC64 fails on this matrix (ldperm returns {c.pInt "mc64ret"}), Equil = YES, the threshold rule asks for rows={repr rw} columns={repr cl}, but equed={equed}" ("mc64-failed" :: tags)
    | none => pure ()
  if c.pNat "equil" = 0 ∧ equed != "N" then
    return Res.propFalse s!"{call}: Equil=NO but equed={equed} is returned (on entry it held {c.p "equed_in"})" tags
  if equed == "N" ∧ (firstDiff (c.raw "A.val") (c.raw "Ao.val")).isSome then
    return Res.propFalse s!"{call}: equed=N but A's values changed" tags
  if equed == "N" ∧ (firstDiff (c.raw "Bin") (c.raw "Bout")).isSome then
    return Res.propFalse s!"{call}: equed=N but B changed" tags
  -- X
  let xRaw := c.raw "X"; let xinRaw := c.raw "Xin"; let x2Raw := c.raw "X2"
  let solved := nrhs > 0   -- replaced pivots (0 < info <= n) are a successful outcome: the solve is performed
  if let some k := (List.range xRaw.size).find? (fun k => (k / w) % ldx ≥ n && xRaw[k]! != xinRaw.getD k 0) then
    return Res.propFalse s!"{call}: padding row {(k / w) % ldx} of X was written" tags
  if !solved then
    if (firstDiff xRaw xinRaw).isSome then return Res.propFalse s!"{call}: no solve expected but X was written" tags
  else
    if c.pInt "info2" ≠ 0 then return Res.propFalse s!"{call}: the independent gstrs call on the returned factors failed (info={c.p "info2"})" tags
    if let some k := firstDiff xRaw x2Raw then
      return Res.propFalse s!"{call}: X differs from an independent {c.ty}gstrs on the returned factors at element {k / w} (column {(k / w) / ldx}, row {(k / w) % ldx})" tags
  -- dropping off and no pivot replaced: complete-LU accuracy
  let mut cls := "robust"
  if nodrop ∧ info == 0 then
    let some ao := o.dec dbl (c.raw "Ao.val") | return Res.propFalse s!"{call}: non-finite value in A on exit" tags
    let AA : CSC K := { m := n, n := n, colptr := c.nat "A.colptr", rowind := c.nat "A.rowind", val := ao }
    let Ld := tabulate n (fun i j => F.decodeL i j)
    let LU := tabulate n (fun i j => (List.range n).foldl (fun acc k => acc + at2 Ld i k * at2 Ud k j) (0 : K))
    let La := absM o n Ld; let Ua := absM o n Ud
    let LUa : Array (Array Rat) := (Array.range n).map fun i => (Array.range n).map fun j =>
      (List.range n).foldl (fun acc k => acc + at2r La i k * at2r Ua k j) (0 : Rat)
    let cm := if o.cplx then 4 else 1
    let g0 := gamma (cm * (n + 2)) dbl
    let Ad := tabulate n (fun i j => AA.get i j)
    -- (Pr AA Pc)(perm_r[i], perm_c[j]) = AA(i, j)
    for i in List.range n do
      for j in List.range n do
        let r := at2 Ad i j - at2 LU permr[i]! permc[j]!
        if o.cmax r > g0 * at2r LUa permr[i]! permc[j]! + uflow (8 * n + 16) dbl then
          return Res.propFalse s!"{call}: dropping is off and no pivot was replaced, but (Pr*A*Pc - L*U) at A({i},{j}) exceeds gamma(n+2)|L||U|" tags
    cls := "tolerance"
    -- documented system on the equilibrated data
    if solved then
      let some bo := o.dec dbl (c.raw "Bout") | return Res.propFalse s!"{call}: non-finite B on exit" tags
      let some xs := o.dec dbl xRaw | return Res.propFalse s!"{call}: non-finite X" tags
      let some rr := ratsOf dbl (c.raw "R") | return Res.skip "R not finite"
      let some cc := ratsOf dbl (c.raw "C") | return Res.skip "C not finite"
      let nr := c.p "stype" == "NR"
      let tr := c.p "trans"
      -- in terms of the column-compressed arrays AA: which op is documented
      let useN : Bool := (!nr && tr == "N") || (nr && tr != "N")      -- system uses AA untransposed
      let conjd : Bool := tr == "C"
      let rowequ := equed == "R" || equed == "B"; let colequ := equed == "C" || equed == "B"
      let opA (i j : Nat) : K := let v := if useN then at2 Ad i j else at2 Ad j i; if conjd then Conj.conj v else v
      let opAa (i j : Nat) : Rat := if useN then at2r LUa permr[i]! permc[j]! else at2r LUa permr[j]! permc[i]!
      let g1 := gamma (cm * (4 * n + 5)) dbl; let g2 := gamma (cm * (n + 1)) dbl
      let sc (i : Nat) : Rat := if useN then (if colequ then cc[i]! else 1) else (if rowequ then rr[i]! else 1)
      for jr in List.range nrhs do
        for i in List.range n do
          let xe (k : Nat) : K := xs.getD (jr * ldx + k) default
          let rs : K := (List.range n).foldl (fun acc k =>
            let xk := xe k
            acc - opA i k * xk) (bo.getD (jr * ldb + i) default)
          let bd := g1 * (List.range n).foldl (fun acc k => acc + opAa i k * o.mag (xe k)) 0 + g2 * o.mag (bo.getD (jr * ldb + i) default)
          -- only when no unscaling took place is X itself the solution of the equilibrated system
          if (List.range n).all (fun k => sc k == 1) then
            if o.cmax rs > bd + uflow (16 * n + 32) dbl * (List.range n).foldl (fun acc k => acc + opAa i k) (1 : Rat) then
              if nr && conjd && o.cplx then
                return Res.propFalse s!"{call}: Stype=NR Trans=CONJ: X solves the transposed system, not the conjugate-transposed one (row {i})" tags
              else
                return Res.propFalse s!"{call}: dropping off, info=0, but the residual of op(A)X=B at row {i} of column {jr} exceeds the backward-error bound" tags
  let nsn := F.L.nsuper + 1
  return Res.ok (n ≥ 2) (tags ++ [if nsn == n then "sn=single" else "sn=multi", if solved then "solved" else "nosolve"]) cls
end generic

/-- the driver-level clauses, then the pivot events: Prop clauses on the recorded outputs, then the bit
mirror of `ilu_[sdcz]pivotL` -/
def handle (c : Case) : Res :=
  let r := if c.isComplex then handleG opsC c else handleG opsR c
  if r.status == "prop-false" ∨ r.status == "skip" then r else
  if (c.int? "ie.hdr").isNone then r else
  let evs := IluEvents.decodeIluEvents c
  if c.pNat "ie.overflow" ≠ 0 then Res.corr "ILU pivot-event log inconsistent (entry/exit records do not pair up)" r.tags else
  match IluEvents.evProp c evs with
  | some m => Res.propFalse m r.tags
  | none =>
    -- "info counts the zero pivots it replaced": every nonzero return of ilu_?pivotL and every pivot replaced inside
    -- ilu_?drop_row (hook phase 2) is one replaced pivot of the (single) factorization of this case
    let info := c.pInt "info"; let n := c.pNat "n"
    let dz := c.int "ie.dropnzp"
    let inPiv := (evs.toList.filter fun e => e.haveExit && e.info != 0).length
    let inDrop := (dz.getD 0 0).toNat
    if c.p "refact" "0" != "1" ∧ dz.size == 2 ∧ evs.all (·.haveExit) ∧ 0 ≤ info ∧ info ≤ (n : Int) ∧ info ≠ ((inPiv + inDrop : Nat) : Int) then
      Res.propFalse s!"{c.ty}gsisx: info = {info} but {inPiv + inDrop} pivots were replaced ({inPiv} by ilu_{c.ty}pivotL, {inDrop} inside ilu_{c.ty}drop_row)" r.tags
    else
    let r := if inDrop > 0 then { r with tags := r.tags ++ ["ie=droprow-replaced"] } else r
    let (cm, tg) := IluEvents.evCorr c evs
    match cm with
    | some m => Res.corr m (r.tags ++ tg)
    | none => if r.status == "ok" then { r with tags := r.tags ++ tg ++ [if evs.size > 0 then "ie=checked" else "ie=none"], cls := if r.cls == "robust" ∧ evs.size > 0 then "bit" else r.cls } else r

end Slu.Drv.Ilu
