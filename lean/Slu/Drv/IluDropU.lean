import Slu.Proto
import Slu.Scalar
import Slu.Model.IluDropU
import Slu.Drv.IluDrop
-- HANDLER iludropu => Slu.Drv.IluDropU.handle
/-
Driver for family `iludropu` (C15): direct calls of `ilu_[sdcz]copy_to_ucol`.

Prop, on the implementation's outputs (the column = the (perm_r[row], value) pairs of the rows the U-segments list, a row
listed again counting with value zero): (count) return value 0 and `*nnzUj` grows by `xusub[jcol+1] - xusub[jcol]`;
(subset) the stored (usub, ucol) pairs are a sub-multiset of the column's pairs, values bit for bit; (threshold) every
pair of the column that is not stored has `|u| < drop_tol` (not `>=`), or `quota <= 0`, or `|u| <= tol` of the secondary
rule in force (the model's threshold); with NODROP nothing is dropped; (zeroed) `dense` is zero on every listed row and
unchanged elsewhere; (sum, real files, exact rationals) `*sum` = sum of the dropped values (SMILU_1), its modulus
(SMILU_2), the sum of their moduli (SMILU_3) within `eps * (k+2) * sum|.|`, exactly zero for SILU.  The complex files add
a STALE modulus in the second sweep under SMILU_3 (ilu_zcopy_to_ucol.c:204): tag `stale=1`, checked (real part = sum of
moduli) and reported as prop-false only with `strictsum=1`.
Corr: ucol, usub, xusub, dense, *sum, *nnzUj, work (after qselect) bit for bit against `Slu.IluDropU.copyToUcol`.
-/
namespace Slu.Drv.IluDropU
open Slu Slu.Ilu Slu.IluDrop Slu.IluDropU Slu.QSelect Slu.Drv.IluDrop

section
variable (K R : Type) [Wire K] [Inhabited K] [FBits R] [Inhabited R] [LT R] [DecidableLT R]

/-- remove one occurrence; `none` when absent -/
def eraseOne (p : Int × List UInt64) : List (Int × List UInt64) → Option (List (Int × List UInt64))
  | [] => none
  | q :: t => if q == p then some t else (eraseOne p t).map (q :: ·)

def dropUCase (cplx : Bool) (ops : UOps K R Float) (c : Case) : Res :=
  let dbl := FBits.isDouble R
  let w := if cplx then 2 else 1
  let jcol := c.pNat "jcol"; let nseg := c.pNat "nseg"; let gn := c.pNat "gn"
  let dr := c.pNat "droprule"; let rule := ruleOf dr; let milu := miluOf (c.pNat "milu")
  let dropTol : Float := Float.ofBits (c.raw "droptol")[0]!
  let quota := c.pInt "quota"
  let dense0b := c.raw "dense0"; let dense1b := c.raw "dense1"
  let ucol0b := c.raw "ucol0"; let ucol1b := c.raw "ucol1"
  let usub0 := c.int "usub0"; let usub1 := c.int "usub1"; let xusub0 := c.int "xusub0"; let xusub1 := c.int "xusub1"
  let permR := c.int "perm_r"
  let havework := c.pNat "havework" == 1
  let work0 : Array R := if havework then (c.raw "work0").map FBits.ofBits else #[]
  let inp : UIn K R Float :=
    { jcol := jcol, nseg := nseg, segrep := c.int "segrep", repfnz := c.int "repfnz", permR := permR, dense := Wire.dec dense0b,
      rule := rule, milu := milu, dropTol := dropTol, quota := quota, nnzUj := c.pInt "nnzUj0", n := gn,
      xsup := c.int "xsup", supno := c.int "supno", lsub := c.int "lsub", xlsub := c.int "xlsub",
      ucol := Wire.dec ucol0b, usub := usub0, xusub := xusub0, work := work0 }
  let o := copyToUcol ops inp
  let rows := segRows jcol nseg inp.segrep inp.repfnz inp.xsup inp.supno inp.lsub inp.xlsub
  let x0 := (xusub0[jcol]!).toNat
  let cnt := ((xusub1[jcol + 1]!) - xusub0[jcol]!).toNat
  let ret := c.pInt "ret" 99999
  let total := rows.length
  let qEff : Int := if rule.nodrop then gn else quota
  let removed2 := o.s2.removed.length
  let stale := cplx && milu == .smilu3 && removed2 > 0
  let tags := [s!"ty={c.ty}", s!"milu={c.p "milu"}", s!"rule={dr}", s!"path={o.path}", s!"tk={c.p "tk"}", s!"qk={c.p "qk"}", s!"vmode={c.p "vmode"}",
    s!"joined={c.p "joined"}", s!"dup={c.p "dup"}", s!"ownwork={decide (o.path == "select" ∧ gn < o.m1)}",
    s!"total={if total == 0 then "0" else if total ≤ 3 then "1-3" else if total ≤ 8 then "4-8" else "9+"}",
    s!"drop1={if o.s1.dropped.length == 0 then "0" else if o.m1 == 0 then "all" else "some"}",
    s!"drop2={if removed2 == 0 then "0" else if o.cnt == 0 then "all" else "some"}",
    s!"quota={if qEff ≤ 0 then "nonpos" else if qEff < total then "small" else "large"}", s!"stale={stale}",
    s!"nempty={c.p "nempty"}", s!"nskip={c.p "nskip"}"]
  -- ---------------- Prop ----------------
  let bitsAt (b : Array UInt64) (i : Nat) : List UInt64 := (List.range w).map fun t => b[i * w + t]!
  let zeroBits : List UInt64 := (List.range w).map fun _ => 0
  -- the column's pairs: first visit carries the value, later visits of the same row carry zero
  let colPairs : List (Nat × Int × List UInt64) :=
    (rows.foldl (fun (acc : List (Nat × Int × List UInt64) × List Nat) ir =>
      ((ir, permR[ir]!, if acc.2.contains ir then zeroBits else bitsAt dense0b ir) :: acc.1, ir :: acc.2)) ([], [])).1.reverse
  let keptPairs : List (Int × List UInt64) := (List.range cnt).map fun i => (usub1[x0 + i]!, bitsAt ucol1b (x0 + i))
  let rest : Option (List (Int × List UInt64)) :=
    keptPairs.foldl (fun acc p => acc.bind (eraseOne p)) (some (colPairs.map (·.2)))
  let absOf (b : List UInt64) : R := ops.abs1 ((Wire.dec b.toArray : Array K)[0]!)
  let prop : Option String :=
    if ret ≠ 0 then some s!"count: return value {ret}" else
    if c.pInt "nnzUj1" - c.pInt "nnzUj0" ≠ cnt then some s!"count: *nnzUj grew by {c.pInt "nnzUj1" - c.pInt "nnzUj0"}, the column holds {cnt}" else
    match rest with
    | none => some "subset: a stored (row, value) pair is not a pair of the column"
    | some dropped =>
      if rule.nodrop ∧ !dropped.isEmpty then some "threshold: NODROP but an entry was dropped" else
      if dropped.any (fun p =>
          let a := absOf p.2
          !(decide (qEff ≤ 0) || !(ops.geTol a (if rule.nodrop then ops.negOneT else dropTol)) ||
            (match o.tol with | some t => ops.base.leTol a t | none => false))) then
        some "threshold: a dropped entry is above both thresholds" else
      if (List.range (dense1b.size / w)).any (fun i =>
          if rows.contains i then bitsAt dense1b i != zeroBits else bitsAt dense1b i != bitsAt dense0b i) then
        some "zeroed: dense not zero on a listed row / changed elsewhere" else
      let sumb := c.raw "sum1"
      if milu == .silu then (if sumb.any (· != 0) then some "sum: SILU but *sum != 0" else none) else
      let eps : Rat := if dbl then pow2 (-52) else pow2 (-23)
      if !cplx then
        match ratsOf dbl (dropped.map (fun p => p.2[0]!)).toArray, ratsOf dbl sumb with
        | some dv, some sv =>
          let S : Rat := (dv.toList.map rabsR).sum
          let t : Rat := dv.toList.sum
          let expct : Rat := match milu with | .smilu1 => t | .smilu2 => rabsR t | _ => S
          if rabsR (sv[0]! - expct) ≤ eps * ((dv.size : Rat) + 2) * S then none
          else some "sum: *sum is not the (signed / absolute) sum of the dropped entries within the rounding bound"
        | _, _ => none
      else if milu == .smilu3 ∧ c.pNat "strictsum" == 1 then
        match ratsOf dbl (dropped.flatMap (·.2)).toArray, ratsOf dbl sumb with
        | some dv, some sv =>
          let S : Rat := (dv.toList.map rabsR).sum
          if rabsR (sv[0]! - S) ≤ eps * ((dv.size : Rat) + 2) * S then none
          else some "sum: SMILU_3 real part of *sum is not the sum of the moduli of the dropped entries (stale tmp, ilu_zcopy_to_ucol.c:204)"
        | _, _ => none
      else none
  match prop with
  | some msg => Res.propFalse msg tags
  | none =>
  -- ---------------- Corr ----------------
  let dmin0 := (c.raw "dmin0")[0]!
  let corr : Option String :=
    if !o.fuelOk then some "model qselect ran out of fuel" else
    if FBits.toBits ops.dminInit ≠ dmin0 then some "d_min initial value differs" else
    if o.nnzUj ≠ c.pInt "nnzUj1" then some s!"nnzUj model={o.nnzUj} impl={c.p "nnzUj1"}" else
    (cmpInts "xusub" o.xusub xusub1).orElse fun _ =>
    (cmpInts "usub" o.usub usub1).orElse fun _ =>
    (cmpBits "ucol" (Wire.enc o.ucol) ucol1b).orElse fun _ =>
    (cmpBits "dense" (Wire.enc o.dense) dense1b).orElse fun _ =>
    (cmpBits "sum" (Wire.enc #[o.sum]) (c.raw "sum1")).orElse fun _ =>
    if havework then cmpBits "work" (o.work.map FBits.toBits) (c.raw "work1") else none
  match corr with
  | some msg => Res.corr msg tags
  | none => Res.ok (total ≥ 2 ∧ !rule.nodrop) tags "bit"
end

def handle (c : Case) : Res :=
  if c.ty == 'z' then dropUCase (Cx Float) Float true uopsC64 c
  else if c.ty == 'c' then dropUCase (Cx Float32) Float32 true uopsC32 c
  else if c.isDouble then dropUCase Float Float false uopsF64 c else dropUCase Float32 Float32 false uopsF32 c

end Slu.Drv.IluDropU
