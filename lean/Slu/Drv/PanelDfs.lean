import Slu.Proto
import Slu.Model.PanelDfs
import Slu.Drv.ColDfs
-- HANDLER paneldfs => Slu.Drv.PanelDfs.handle
/-
Driver for family `paneldfs` (C02): `[sdcz]panel_dfs` called directly on synthetic factorization states.

Prop  evaluated on the IMPLEMENTATION's outputs only (the reach is recomputed here by a plain worklist,
      not with the model's machine): for each panel column jj the set {s : repfnz_col[s] != EMPTY} is exactly
      the set of representatives reachable from the column's pivoted rows through the pruned lists, and
      repfnz_col[s] is a column of the supernode of s; `segrep[0..nseg)` has no duplicates, equals the union
      over the panel, places every successor before its node, and lists the representatives grouped by the
      first panel column that reaches them; `panel_lsub` of jj (up to the EMPTY fill) = the unpivoted rows
      among the column's own rows and the pruned lists of its reached representatives, once each;
      `dense_col` holds A's (last) value at each row of the column and its input value elsewhere.
Corr  `nseg dense panel_lsub segrep repfnz marker parent xplore` equal `Slu.PanelDfs.panelDfs` entry by entry
      (`dense` as bit patterns); `perm_r xprune xsup supno lsub xlsub` and A untouched.
-/
namespace Slu.Drv.PanelDfs
open Slu
open Slu.ColDfs (EMPTY rd repOf adjG adjRows rootCols repN)
open Slu.PanelDfs
open Slu.Drv.ColDfs (cmpArr bucket reach posOf sortI)

abbrev W := UInt64 × UInt64

def group (cplx : Bool) (a : Array UInt64) : Array W :=
  if cplx then (Array.range (a.size / 2)).map fun k => (a[2 * k]!, a[2 * k + 1]!)
  else a.map fun x => (x, 0)

def handle (c : Case) : Res := Id.run do
  let m := c.pInt "m"; let jcol := c.pInt "jcol"; let w := c.pInt "w"
  let cx := c.isComplex
  let inp : Input W :=
    { m := m, w := w, jcol := jcol, asub := c.int "A.rowind", nzval := group cx (c.raw "A.nzval"),
      colbeg := c.int "A.colbeg", colend := c.int "A.colend", perm_r := c.int "in.perm_r",
      dense := group cx (c.raw "in.dense"), panelLsub := c.int "in.panel_lsub", segrep := c.int "in.segrep",
      repfnz := c.int "in.repfnz", xprune := c.int "in.xprune", marker := c.int "in.marker", parent := c.int "in.parent",
      xplore := c.int "in.xplore", xsup := c.int "in.xsup", supno := c.int "in.supno", lsub := c.int "in.lsub",
      xlsub := c.int "in.xlsub" }
  let e := inp.cenv
  let j := jcol.toNat; let mn := m.toNat; let wn := w.toNat
  let tags0 := [s!"ty={c.ty}", s!"jcol={bucket j}", s!"w={w}", s!"ns={bucket (c.pNat "ns")}", s!"dup={c.p "dup"}",
                s!"dens={c.p "dens"}", s!"share={c.p "share"}", s!"nroot={bucket (c.pNat "nroot")}"]
  if !wfPanelIn inp then return Res.skip "generated state is outside wfPanelIn"
  if c.p "moved" == "1" then return Res.corr "Glu pointers changed" tags0
  let oSegrep := c.int "out.segrep"; let oRepfnz := c.int "out.repfnz"; let oPl := c.int "out.panel_lsub"
  let oNseg := c.pInt "nseg"; let oDense := group cx (c.raw "out.dense")
  ------------------------------------------------------------------ Prop
  let adj := adjG e inp.lsub
  let seg := (oSegrep.toList.take oNseg.toNat).map Int.toNat
  let mut union : List Nat := []
  let mut owners : List (Nat × Nat) := []
  let mut anyDepth2 := false
  let mut anyShared := false
  let mut totalApp := 0
  if oNseg < 0 ∨ oNseg > m then return Res.propFalse s!"nseg = {oNseg}" tags0
  for k in List.range wn do
    let jj := jcol + k
    let rows := colRows inp jj
    let roots := (rootCols e rows).map (repN e)
    let R := reach adj (fun _ => false) ((j + 1) * (inp.lsub.size + rows.length + 2)) roots []
    if R.any fun a => !(roots.contains a) then anyDepth2 := true
    if R.any union.contains then anyShared := true
    for s in List.range mn do
      let v := rd oRepfnz (k * m + s)
      if (v ≠ EMPTY) ≠ R.contains s then
        return Res.propFalse s!"column {jj}: repfnz_col[{s}]={v} but reached={R.contains s} (reach {R})" tags0
      if v ≠ EMPTY ∧ repOf e v ≠ s then
        return Res.propFalse s!"column {jj}: repfnz_col[{s}]={v} is not a column of the supernode of {s}" tags0
    for a in R do
      if !union.contains a then
        union := a :: union
        owners := (a, k) :: owners
    let app := ((oPl.toList.drop (k * mn)).take mn).takeWhile (· ≠ EMPTY)
    totalApp := totalApp + app.length
    let expectRows := (rows ++ R.flatMap (fun (a : Nat) => adjRows e inp.lsub (a : Int))).filter (fun r => rd inp.perm_r r = EMPTY)
    if app.eraseDups.length ≠ app.length then return Res.propFalse s!"column {jj}: panel_lsub lists a row twice: {app}" tags0
    if sortI app ≠ sortI expectRows.eraseDups then
      return Res.propFalse s!"column {jj}: panel_lsub = {app} but the unpivoted reachable rows are {sortI expectRows.eraseDups}" tags0
    let ents := colEntries inp jj
    for r in List.range mn do
      let pos := k * mn + r
      let want : W := match (ents.reverse.find? fun p => p.1 == (r : Int)) with
        | some p => p.2
        | none => inp.dense.getD pos (0, 0)
      let got : W := oDense.getD pos (1, 1)
      if got != want then
        return Res.propFalse s!"column {jj}: dense_col[{r}] bits {got} expected {want}" tags0
  let tags := tags0 ++ [if anyDepth2 then "depth2" else "depth1", if anyShared then "shared-rep" else "no-shared-rep",
                        s!"nseg={bucket seg.length}", s!"appended={bucket totalApp}"]
  if seg.eraseDups.length ≠ seg.length then return Res.propFalse s!"segrep lists a representative twice: {seg}" tags
  if !(seg.all union.contains && union.all seg.contains) then
    return Res.propFalse s!"segrep = {seg} but the union of the reaches is {union}" tags
  for a in union do
    for b in adj a do
      if b ≠ a ∧ !(posOf seg b < posOf seg a) then
        return Res.propFalse s!"not topological: {b} is a successor of {a} but is placed after it in segrep = {seg}" tags
  let own := seg.map fun a => ((owners.find? fun p => p.1 == a).map (·.2)).getD 0
  if !(own.zip (own.drop 1)).all (fun p => p.1 ≤ p.2) then
    return Res.propFalse s!"segrep = {seg} is not grouped by first reaching column: {own}" tags
  ------------------------------------------------------------------ Corr
  let ro := [("A.rowind", "out.A.rowind"), ("A.colbeg", "out.A.colbeg"), ("A.colend", "out.A.colend"), ("in.perm_r", "out.perm_r"),
             ("in.xprune", "out.xprune"), ("in.xsup", "out.xsup"), ("in.supno", "out.supno"), ("in.lsub", "out.lsub"), ("in.xlsub", "out.xlsub")]
  for (a, b) in ro do
    if let some msg := cmpArr a (c.int a) (c.int b) then return Res.corr s!"read-only array changed: {msg}" tags
  if c.raw "A.nzval" ≠ c.raw "out.A.nzval" then return Res.corr "A.nzval changed" tags
  match panelDfs inp (fuelBound inp) with
  | none => return Res.corr "model ran out of fuel" tags
  | some o =>
    if o.nseg ≠ oNseg then return Res.corr s!"nseg model={o.nseg} impl={oNseg}" tags
    let cmps := [cmpArr "panel_lsub" o.panelLsub oPl, cmpArr "segrep" o.segrep oSegrep, cmpArr "repfnz" o.repfnz oRepfnz,
                 cmpArr "marker" o.marker (c.int "out.marker"), cmpArr "parent" o.parent (c.int "out.parent"),
                 cmpArr "xplore" o.xplore (c.int "out.xplore")]
    for r in cmps do
      if let some msg := r then return Res.corr msg tags
    if o.dense.size ≠ oDense.size then return Res.corr "dense size" tags
    for k in List.range oDense.size do
      if o.dense[k]! != oDense[k]! then return Res.corr s!"dense[{k}] bits model={o.dense[k]!} impl={oDense[k]!}" tags
    return Res.ok (anyDepth2 && anyShared && seg.length ≥ 2) tags "exact"

end Slu.Drv.PanelDfs
