import Slu.Proto
import Slu.Model.Mem
-- HANDLER storage => Slu.Drv.Storage.handle
/-
Driver for family `storage` (C07).

Prop (the property's own predicate on the implementation's outputs): every configuration that
completes returns the same info, perm_r, L and U — every array, bit for bit — and the same nnz(L),
nnz(U), mem_usage as the reference configuration (library allocation, fill estimate 30); the reported
nnz equal a recount from the returned structure and `for_lu` equals the byte size of the returned
arrays' used prefixes.

Corr: every configuration is replayed through `Slu.Mem`: `memInit`, then, column by column, the
growth requests of the factor routine (LSUB*, LUSUP*, (UCOL,USUB)* — taken from the returned
structure and the allocator trace of hook H2), comparing lengths, `num_expansions`, `used/top1/top2`
after every column, the malloc count, `stat->expansions`, and `QuerySpace` bit for bit.
-/
namespace Slu.Drv.Storage
open Slu Slu.Mem

structure Conf where
  mode : Int
  fill : Int
  lwork : Int
  align4 : Int
  fault : Int
  driver : Int
  /-- index of the configuration this one must agree with (0 = LU reference; the ILU runs have their own) -/
  ref : Nat := 0
deriving Repr, Inhabited

structure Run where
  info : Int
  hang : Bool
  aborted : Bool
  haveLU : Bool
  exp : Int
  nzlu : Int
  nzu : Int
  nzl : Int
  used : Int
  top1 : Int
  top2 : Int
  size : Int
  mallocs : Int
  fired : Int
  nnzL : Int
  nnzU : Int
  guardBad : Bool
deriving Repr, Inhabited

def getConf (c : Case) (p : String) : Conf :=
  let a := c.int (p ++ "cfg")
  ⟨a.getD 0 0, a.getD 1 0, a.getD 2 0, a.getD 3 0, a.getD 4 0, a.getD 5 0, (a.getD 6 0).toNat⟩

def getRun (c : Case) (p : String) : Run :=
  let a := c.int (p ++ "res")
  let g (i : Nat) : Int := a.getD i 0
  ⟨g 0, g 1 ≠ 0, g 2 ≠ 0, g 3 ≠ 0, g 4, g 5, g 6, g 7, g 8, g 9, g 10, g 11, g 12, g 13, g 14, g 15, g 16 ≠ 0⟩

def wordsOf (c : Case) : Words :=
  let a := c.int "words"
  { iw := a.getD 0 4, liw := a.getD 1 4, dw := a.getD 2 8 }

def cfgOf (c : Case) (cf : Conf) : Cfg :=
  let e := c.int "ienv"
  let n : Int := c.pInt "n"
  let ms := e.getD 3 0; let ims := e.getD 7 0
  { m := n, n := n, annz := c.pInt "annz", panel := e.getD 1 0, maxsuper := if ms > ims then ms else ims,
    rowblk := e.getD 4 0, fill := cf.fill, lwork := if cf.mode = 0 then 0 else cf.lwork,
    base4 := cf.align4 ≠ 0, w := wordsOf c, ilu := cf.driver = 2 }

def intNames : List String := ["perm_r", "dims", "xsup", "supno", "xlsub", "lsub", "xlusup", "xusub", "usub"]
def bitNames : List String := ["lusup", "ucol"]

/-- recount of `countnz` (util.c) from the returned structure -/
def recount (xsup xlsub xusub : Array Int) (n nsuper : Nat) : Int × Int := Id.run do
  let mut nl : Int := 0
  let mut nu : Int := xusub.getD n 0
  for i in [0:nsuper+1] do
    let fs := (xsup.getD i 0).toNat
    let mut jlen := xlsub.getD (fs+1) 0 - xlsub.getD fs 0
    for j in [fs:(xsup.getD (i+1) 0).toNat] do
      nl := nl + jlen
      nu := nu + (Int.ofNat (j - fs) + 1)
      jlen := jlen - 1
  return (nl, nu)

/-- Prop for configuration `p` against the reference `k0.` -/
def propCfg (c : Case) (n : Nat) (p : String) (cf : Conf) (r : Run) : Option String :=
  let rp := s!"k{cf.ref}."
  let ref := getRun c rp
  if p == rp then
    (if r.hang ∨ r.aborted ∨ r.info < 0 ∨ r.info > n then
      some s!"{p} reference configuration (library allocation, fill 30, driver {cf.driver}) did not complete: info={r.info} hang={r.hang} abort={r.aborted}"
     else none)
  else
  if ref.hang ∨ ref.aborted ∨ ref.info < 0 ∨ ref.info > n then none else
  if r.guardBad then some s!"{p} bytes in front of the workspace were overwritten" else
  if r.aborted then some s!"{p} ABORT in the library (mode={cf.mode} fill={cf.fill} lwork={cf.lwork})" else
  if r.hang then none else           -- a hang is C08's finding; counted in the tags
  if r.info < 0 then some s!"{p} info={r.info}" else
  if r.info > n then
    (if cf.mode = 0 then some s!"{p} library allocation reported a shortage info={r.info} (fill={cf.fill})" else none)
  else
  if r.info ≠ ref.info then some s!"{p} info={r.info} but the reference configuration gives {ref.info} (mode={cf.mode} fill={cf.fill} lwork={cf.lwork} align4={cf.align4} driver={cf.driver})" else
  let di := intNames.findSome? fun nm =>
    if c.int (p ++ nm) != c.int (rp ++ nm) then some nm else none
  let db := bitNames.findSome? fun nm =>
    if c.raw (p ++ nm) != c.raw (rp ++ nm) then some nm else none
  match di.orElse (fun _ => db) with
  | some nm => some s!"{p}{nm} differs from the reference configuration (mode={cf.mode} fill={cf.fill} lwork={cf.lwork} align4={cf.align4} driver={cf.driver})"
  | none =>
  if r.nnzL ≠ ref.nnzL ∨ r.nnzU ≠ ref.nnzU then some s!"{p} nnz(L),nnz(U)={r.nnzL},{r.nnzU} reference {ref.nnzL},{ref.nnzU}" else
  let dims := c.int (p ++ "dims")
  let (nl, nu) := recount (c.int (p ++ "xsup")) (c.int (p ++ "xlsub")) (c.int (p ++ "xusub")) n (dims.getD 2 0).toNat
  if (nl, nu) ≠ (r.nnzL, r.nnzU) then some s!"{p} reported nnz(L),nnz(U)={r.nnzL},{r.nnzU} but the returned structure holds {nl},{nu}" else
  if (c.raw (p ++ "mem")).size = 0 then none else
  if c.raw (p ++ "mem") != c.raw (rp ++ "mem") then some s!"{p} mem_usage differs from the reference configuration" else
  -- ilu_[sdcz]QuerySpace counts sizeof(double) per stored value whatever the precision (reported defect);
  -- the byte-count clause is applied to incomplete factors only when the case asks for it (ilumem=1)
  if cf.driver = 2 ∧ c.pNat "ilumem" = 0 then none else
  -- for_lu describes the returned arrays: exact byte count, rounded to float once or twice
  let w := wordsOf c
  let exact := forLuExact w n ((c.int (p ++ "xlusup")).getD n 0) ((c.int (p ++ "xlsub")).getD n 0) ((c.int (p ++ "xusub")).getD n 0)
  match f32ToRat? ((c.raw (p ++ "mem")).getD 0 0) with
  | none => some s!"{p} for_lu is not finite"
  | some fl =>
    let ex : Rat := exact
    let d := if fl - ex < 0 then ex - fl else fl - ex
    if d * 4194304 > ex then some s!"{p} for_lu={fl} but the returned arrays occupy {exact} bytes" else none

/-! ### Corr: replay through the model -/

def growTo (fx : Fixes) (w : Words) (fail : Nat → Bool) (t : MemType) (target : Int) : Nat → St → Except String St
  | 0, _ => .error "more than 64 expansions in one step"
  | f+1, s =>
    if s.cap t = target then .ok s
    else if s.cap t > target then .error s!"model length {s.cap t} passed the implementation's {target}"
    else match memXpand fx w fail t s with
      | (s1, 0) => growTo fx w fail t target f s1
      | (_, e) => .error s!"model expansion fails (info {e}) where the implementation went on to length {target}"

def growNeed (fx : Fixes) (w : Words) (fail : Nat → Bool) (t : MemType) (need : Int) (s : St) : Except String St :=
  match growUntil fx w fail t need 64 s with
  | none => .error "model: growth loop does not terminate (expand succeeds without growing)"
  | some (s1, 0) => .ok s1
  | some (_, e) => .error s!"model expansion fails (info {e}) where the implementation went on"

def replay (fx : Fixes) (c : Case) (p : String) (cf : Conf) (r : Run) (n : Nat) : Except String Unit := do
  if cf.driver = 2 then return ()     -- incomplete factorization: Prop only (its growth protocol is not modelled)
  let w := wordsOf c
  let mc := cfgOf c cf
  let fail : Nat → Bool := fun k => cf.fault > 0 && Int.ofNat (k + 1) == cf.fault
  let ini := memInit fx fail mc
  if ini.spin then
    if r.hang then return () else throw "model: LUMemInit does not terminate"
  if ini.info ≠ 0 then
    if r.info = ini.info then return () else throw s!"LUMemInit fails in the model with info={ini.info}, implementation info={r.info}"
  if r.hang then return ()     -- judged by Prop / C08
  let tr := c.int (p ++ "tr")
  let nev := tr.size / 8
  let xlusup := c.int "k0.xlusup"; let xusub := c.int "k0.xusub"
  let xsup := c.int "k0.xsup"; let supno := c.int "k0.supno"
  let failed := r.info > n
  if ¬ failed ∧ nev ≠ n then throw s!"trace has {nev} columns, n={n}"
  let mut s := ini.st
  for e in [0:nev] do
    let g (i : Nat) : Int := tr.getD (8*e+i) 0
    let j := (g 0).toNat
    -- LSUB: whatever the symbolic phase asked for
    s ← (growTo fx w fail .LSUB (g 3) 64 s).mapError (s!"col {j} LSUB: " ++ ·)
    -- LUSUP: the column's own request, or the whole relaxed supernode's
    let r1 := xlusup.getD (j+1) 0
    let r2 := xlusup.getD (xsup.getD ((supno.getD j 0).toNat + 1) 0).toNat 0
    let s1 ← (growNeed fx w fail .LUSUP r1 s).mapError (s!"col {j} LUSUP: " ++ ·)
    if s1.capL = g 1 then s := s1
    else
      let s2 ← (growNeed fx w fail .LUSUP r2 s1).mapError (s!"col {j} LUSUP(snode): " ++ ·)
      if s2.capL = g 1 then s := s2
      else throw s!"col {j}: nzlumax model {s1.capL} (column) / {s2.capL} (supernode), implementation {g 1}"
    -- UCOL + USUB
    s ← (growNeed fx w fail .UCOL (xusub.getD (j+1) 0) s).mapError (s!"col {j} UCOL: " ++ ·)
    if s.capU ≠ g 2 then throw s!"col {j}: nzumax model {s.capU} implementation {g 2}"
    if s.nexp ≠ g 4 then throw s!"col {j}: num_expansions model {s.nexp} implementation {g 4}"
    if cf.mode ≠ 0 ∧ (s.used, s.top1, s.top2) ≠ (g 5, g 6, g 7) then
      throw s!"col {j}: used/top1/top2 model {s.used}/{s.top1}/{s.top2} implementation {g 5}/{g 6}/{g 7}"
  if failed then
    -- shortage during the factorization: the reported byte count is that of the current lengths
    let want := memoryUsage w r.nzl r.nzu r.nzlu n + n
    if r.info ≠ want then throw s!"info={r.info} but memory_usage of the current lengths + n = {want}"
    if (s.capL, s.capU) ≠ (r.nzlu, r.nzu) ∧ nev = 0 then pure () -- lengths at entry are not observable before the first column
    -- the model must be able to fail in the next column: after some number of LSUB expansions, either
    -- one of them, or the column's LUSUP / UCOL request, is refused
    let j := nev
    let r1 := xlusup.getD (j+1) 0
    let r2 := xlusup.getD (xsup.getD ((supno.getD j 0).toNat + 1) 0).toNat 0
    let need := xusub.getD (j+1) 0
    let mut cur := s
    let mut canFail := false
    for _ in [0:24] do
      if canFail then break
      let refusesLU (rq : Int) : Bool := match growNeed fx w fail .LUSUP rq cur with
        | .error _ => true
        | .ok s1 => match growNeed fx w fail .UCOL need s1 with
          | .error _ => true
          | .ok _ => false
      if refusesLU r1 ∨ refusesLU r2 then canFail := true
      else match memXpand fx w fail .LSUB cur with
        | (s1, 0) => cur := s1
        | (_, _) => canFail := true
    if ¬ canFail then throw s!"implementation reports a shortage in column {j} (info={r.info}) but the model can carry on"
    return ()
  s := workFree s
  if (s.capL, s.capU, s.capS) ≠ (r.nzlu, r.nzu, r.nzl) then
    throw s!"final lengths model {s.capL}/{s.capU}/{s.capS} implementation {r.nzlu}/{r.nzu}/{r.nzl}"
  if s.nexp - 1 ≠ r.exp then throw s!"stat->expansions model {s.nexp - 1} implementation {r.exp}"
  if cf.mode ≠ 0 ∧ (s.used, s.top1, s.top2, s.size) ≠ (r.used, r.top1, r.top2, r.size) then
    throw s!"final stack model {s.used}/{s.top1}/{s.top2}/{s.size} implementation {r.used}/{r.top1}/{r.top2}/{r.size}"
  if cf.mode = 0 ∧ Int.ofNat s.mallocs ≠ r.mallocs then throw s!"mallocs from memory.c model {s.mallocs} implementation {r.mallocs}"
  if cf.mode ≠ 0 ∧ r.mallocs ≠ 1 then throw s!"workspace mode issued {r.mallocs} mallocs from memory.c (expected 1)"
  -- QuerySpace, bit for bit
  let e := c.int "ienv"
  let q := querySpace w (e.getD 1 0) n (xlusup.getD n 0) ((c.int "k0.xlsub").getD n 0) (xusub.getD n 0)
  let m := c.raw (p ++ "mem")
  if m.size = 2 ∧ (m[0]!.toNat ≠ q.1.toNat ∨ m[1]!.toNat ≠ q.2.toNat) then
    throw s!"QuerySpace model {q.1},{q.2} implementation {m[0]!},{m[1]!}"
  return ()

/-- probe of the float arithmetic: `(int_t)(alpha*p)` from C against both model versions -/
def probeBad (c : Case) : Option String :=
  let a := c.int "probe"
  (List.range (a.size / 3)).findSome? fun i =>
    let k := (a.getD (3*i) 0).toNat; let p := a.getD (3*i+1) 0; let q := a.getD (3*i+2) 0
    if growLen k p ≠ q ∨ growLenF32 k p ≠ q then some s!"(int)(alpha_{k} * {p}): C {q}, integer model {growLen k p}, Float32 model {growLenF32 k p}" else none

def handle (c : Case) : Res :=
  let n := c.pNat "n"
  let ncfg := c.pNat "ncfg"
  let ref := getRun c "k0."
  let baseTags := [s!"ty={c.ty}", s!"pat={c.p "pat"}", s!"colperm={c.p "colperm"}", s!"minfill={c.p "minfill"}"]
  if ref.hang ∨ ref.aborted ∨ ref.info < 0 ∨ ref.info > n then
    Res.propFalse s!"reference configuration (library allocation, fill 30) did not complete: info={ref.info} hang={ref.hang} abort={ref.aborted}" baseTags
  else
  let ks := List.range ncfg
  let confs := ks.map fun k => (s!"k{k}.", getConf c s!"k{k}.", getRun c s!"k{k}.")
  -- Prop
  match confs.findSome? (fun (p, cf, r) => propCfg c n p cf r) with
  | some msg => Res.propFalse msg baseTags
  | none =>
  -- Corr
  let corr := confs.findSome? fun (p, cf, r) =>
    match replay current c p cf r n with
    | .ok _ => none
    | .error e1 =>
      match replay fixed c p cf r n with
      | .ok _ => none
      | .error e2 =>
        match replay asIs c p cf r n with
        | .ok _ => none
        | .error e3 => some s!"{p} mode={cf.mode} fill={cf.fill} lwork={cf.lwork} align4={cf.align4}: current model: {e1}; repaired model: {e2}; pinned model: {e3}"
  let ilu := confs.filter fun (_, cf, r) => cf.driver = 2 ∧ ¬ r.hang ∧ r.info ≤ n
  let done := confs.filter fun (_, _, r) => ¬ r.hang ∧ r.info ≤ n
  let nexp := done.filter fun (_, _, r) => r.exp > 0
  let tags := baseTags ++ [s!"done={done.length}", s!"withexp={nexp.length}",
      s!"short={(confs.filter fun (_, _, r) => r.info > n).length}", s!"ilu={ilu.length}"] ++
      (if confs.any (fun (_, _, r) => r.hang) then ["cfg-hang"] else []) ++
      (if c.pNat "bisect_hangs" > 0 then ["bisect-hang"] else []) ++
      (if ref.info ≠ 0 then ["singular"] else [])
  match (probeBad c).orElse (fun _ => corr) with
  | some msg => Res.corr msg tags
  | none => Res.ok (n ≥ 2 ∧ done.length ≥ 6 ∧ nexp.length ≥ 1) tags "bit"

end Slu.Drv.Storage
