import Slu.Proto
import Slu.Model.LU
import Slu.Model.Struct
-- HANDLER lu => Slu.Drv.Lu.handle
/-
Driver for family `lu` (C01, C02, C03, C04).

Corr  (a) every pivot event (hook H2): `pivotChoice`/`cdiv` at the case's arithmetic type on the
          candidate values the real code saw must choose the same row / info / reuse flag and give
          bit-identical multipliers;
      (b) `luFactor` in exact arithmetic (`Cx Rat`), driven by the event candidate orders, must give
          the same pivot sequence and — when the rounding-free certificate (DESIGN 3.3) holds — the
          same L and U, entry for entry.
Prop  the clauses of the property selected by `p prop`, evaluated on the implementation's outputs
      in exact rational arithmetic.
-/
namespace Slu.Drv.Lu
open Slu Slu.LU

abbrev Q := Cx Rat

def qabs (z : Q) : Rat := rabs z.re + rabs z.im
def qOfReal (x : Rat) : Q := ⟨x, 0⟩

/-- exact values of a protocol array as `Cx Rat` (real types: im = 0) -/
def decQ? (c : Case) (name : String) : Option (Array Q) :=
  if c.isComplex then cxRatsOf c.isDouble (c.raw name)
  else (ratsOf c.isDouble (c.raw name)).map (·.map qOfReal)

def epsOf (c : Case) : Rat := if c.isDouble then pow2 (-53) else pow2 (-24)
/-- `g(k) = k eps / (1 - k eps)` -/
def gam (eps : Rat) (k : Nat) : Rat := (k : Rat) * eps / (1 - (k : Rat) * eps)

/-! ### events -/
structure Ev where
  jcol : Nat
  useprIn : Bool
  oldrow : Nat
  diagind : Nat
  ncand : Nat
  pivrow : Int
  useprOut : Bool
  info : Nat
  haveExit : Bool
  off : Nat
deriving Inhabited

def big : Nat := 1000000000
def natOr (x : Int) : Nat := if x < 0 then big else x.toNat

def decodeEvents (c : Case) : Array Ev := Id.run do
  let h := c.int "ev.hdr"
  let k := h.size / 9
  let mut off := 0
  let mut out : Array Ev := #[]
  for i in List.range k do
    let g (t : Nat) : Int := h[9*i+t]!
    out := out.push { jcol := (g 0).toNat, useprIn := g 1 ≠ 0, oldrow := natOr (g 2), diagind := natOr (g 3), ncand := (g 4).toNat,
                      pivrow := g 5, useprOut := g 6 ≠ 0, info := (g 7).toNat, haveExit := g 8 ≠ 0, off := off }
    off := off + (g 4).toNat
  return out

class ThrMul (R : Type) where
  /-- `thresh = u * pivmax` with `u` a C double (also in the single-precision files) -/
  thr : Float → R → R
instance : ThrMul Float := ⟨fun u p => u * p⟩
instance : ThrMul Float32 := ⟨fun u p => (u * p.toFloat).toFloat32⟩

section evcorr
variable (K R : Type) [Mag K R] [Wire K] [Inhabited K] [One K] [Mul K] [Div K]
variable [Zero R] [LT R] [DecidableLT R] [LE R] [DecidableLE R] [IsZero R] [ThrMul R]

/-- bit mirror of `[sdcz]pivotL` on every recorded event; `none` = all agree -/
def evCorr (c : Case) (evs : Array Ev) (w : Nat) : Option String := Id.run do
  let rows0 := c.nat "ev.rows0"; let rows1 := c.nat "ev.rows1"
  let v0 := c.raw "ev.vals0"; let v1 := c.raw "ev.vals1"
  let us := c.raw "ev.u"
  let mut idx := 0
  for e in evs do
    let i := idx; idx := idx + 1
    if !e.haveExit then return some s!"event {i} (column {e.jcol}) has no exit record"
    let rs := rows0.extract e.off (e.off + e.ncand)
    let vals : Array K := Wire.dec (v0.extract (e.off * w) ((e.off + e.ncand) * w))
    let cands := (rs.toList.zip vals.toList)
    let u : Float := Float.ofBits us[i]!
    let o := pivotChoice (R := R) e.jcol cands (ThrMul.thr u) e.useprIn e.oldrow e.diagind
    if o.info ≠ e.info then return some s!"pivot event col {e.jcol}: info model={o.info} impl={e.info}"
    if e.info ≠ 0 then
      if e.useprOut then return some s!"pivot event col {e.jcol}: usepr not cleared on a zero pivot"
      continue
    if (o.row : Int) ≠ e.pivrow then return some s!"pivot event col {e.jcol}: pivot row model={o.row} impl={e.pivrow}"
    if o.usepr ≠ e.useprOut then return some s!"pivot event col {e.jcol}: usepr model={o.usepr} impl={e.useprOut}"
    let after := cdiv cands o.pos
    let expRows := (after.map (·.1)).toArray
    let gotRows := rows1.extract e.off (e.off + e.ncand)
    if expRows ≠ gotRows then return some s!"pivot event col {e.jcol}: row interchange differs"
    let expBits := Wire.enc (after.map (·.2)).toArray
    let gotBits := v1.extract (e.off * w) ((e.off + e.ncand) * w)
    match firstDiff expBits gotBits with
    | some k => return some s!"pivot event col {e.jcol}: cdiv value {k} model={showBits expBits k} impl={showBits gotBits k}"
    | none => pure ()
  return none
end evcorr

/-! ### exact model run -/

/-- 2-adic valuation data of a rational `p/q` with `q` a power of two: `some e` with `x = odd * 2^e`
(`none` when the denominator is not a power of two; zero gives a large valuation) -/
def val2 (x : Rat) : Option Int :=
  if x = 0 then some 100000 else
  let d := x.den
  let rec twos (n : Nat) (fuel : Nat) : Nat × Nat := match fuel with
    | 0 => (0, n)
    | f + 1 => if n % 2 = 0 ∧ n ≠ 0 then let r := twos (n / 2) f; (r.1 + 1, r.2) else (0, n)
  let dd := twos d 4000
  if dd.2 ≠ 1 then none else
  let nn := twos x.num.natAbs 4000
  some ((nn.1 : Int) - (dd.1 : Int))

def isPow2Mag (x : Rat) : Bool :=
  x ≠ 0 && (match val2 x with | some e => rabs x = pow2 e | none => false)

/-- the rounding-free certificate of DESIGN 3.3 for the factorization, evaluated on the exact factors:
every term of every inner product is a dyadic rational with valuation >= e and the sum of the
magnitudes of the terms stays below 2^p * 2^e; every pivot is +-2^k (pure real or pure imaginary).
Then every partial sum in any order/association is exactly representable. -/
def roundingFree (dbl : Bool) (m n : Nat) (acol : Nat → Array Q) (st : St Q) : Bool := Id.run do
  let p : Int := if dbl then 53 else 24
  let parts (z : Q) : List Rat := [z.re, z.im]
  for j in List.range n do
    let uj := st.U.getD j #[]
    -- pivot
    let pv := uj.getD j 0
    if ¬ ((pv.im = 0 ∧ isPow2Mag pv.re) ∨ (pv.re = 0 ∧ isPow2Mag pv.im)) then return false
    for i in List.range m do
      -- terms of (A Pc)_{ij} - sum_k l_ik u_kj ; k runs over previous columns
      let mut terms : List Rat := parts ((acol j).getD i 0)
      for k in List.range j do
        let l := (st.L.getD k #[]).getD i 0
        let u := uj.getD k 0
        terms := terms ++ [l.re * u.re, l.im * u.im, l.re * u.im, l.im * u.re]
      let mut emin : Int := 100000
      let mut s : Rat := 0
      for t in terms do
        match val2 t with
        | none => return false
        | some e =>
          if t ≠ 0 then emin := min emin e
          s := s + rabs t
      if emin < -900 ∨ (emin ≠ 100000 ∧ emin > 900) then return false
      if s ≠ 0 ∧ ¬ (s < pow2 (p + emin)) then return false
  return true

/-! ### decoding helpers -/

def invPerm (p : Array Nat) : Array Nat :=
  (List.range p.size).foldl (fun (a : Array Nat) i => a.setIfInBounds (p.getD i 0) i) (Array.replicate p.size 0)

def isPermArr (p : Array Int) (n : Nat) : Bool :=
  p.size = n && (List.range n).all (fun k => p.toList.count (k : Int) = 1)

/-- column `j` of the factored matrix as a dense length-m vector -/
def denseCol (A : CSC Q) (j : Nat) : Array Q :=
  (A.col j).foldl (fun (v : Array Q) (e : Nat × Q) => v.setIfInBounds e.1 (v.getD e.1 0 + e.2)) (Array.replicate A.m 0)

structure Impl where
  m : Nat
  n : Nat
  F : CSC Q
  permC : Array Nat
  permR : Array Nat
  fac : LUFac Q
  info : Nat

/-! ### Prop clauses -/

/-- C02: identity `Pr A Pc = L U` within `g(n+2)|L||U|` (exactly when `exact`), shapes, bounds -/
def propFactors (c : Case) (I : Impl) (u : Rat) (exact : Bool) (lead : Option Nat := none) : Option String := Id.run do
  let eps := epsOf c
  let n := I.n; let m := I.m
  let ipc := invPerm I.permC
  let ipr := invPerm I.permR
  -- `lead = some k`: only the leading k columns (a singular return: the pivots found before the reported column)
  let nc := match lead with | some k => min k n | none => n
  let bnd := gam eps (n + 2) * (if c.isComplex then 4 else 1)
  let tiny : Rat := if c.isDouble then pow2 (-1000) else pow2 (-120)
  -- dense L (m x n) and U (n x n) as read out of the storage
  let Lm : Array (Array Q) := (Array.range m).map fun i => (Array.range n).map fun k => I.fac.decodeL i k
  let Um : Array (Array Q) := (Array.range n).map fun k => (Array.range n).map fun j => I.fac.decodeU k j
  for k in List.range nc do
    if (Um[k]!)[k]! = 0 then return some s!"U({k},{k}) = 0 {if lead.isSome then "before the reported column" else "although info = 0"}"
  -- with u = 0 (legal: any nonzero diagonal is accepted) there is no multiplier bound
  let lim : Rat := (if c.isComplex then 2 else 1) / u * (1 + 4 * eps)
  for i in List.range m do
    for k in List.range nc do
      if u > 0 ∧ i > k ∧ qabs ((Lm[i]!)[k]!) > lim then return some s!"|L({i},{k})| exceeds 1/u"
  for j in List.range nc do
    let col := denseCol I.F (ipc.getD j 0)       -- column j of A*Pc
    for i in List.range m do
      -- (Pr A Pc)(i, j) = A(ipr i, ipc j)
      let a := col.getD (ipr.getD i 0) 0
      let mut s : Q := 0
      let mut sa : Rat := 0
      for k in List.range (min (i + 1) (j + 1)) do
        let l := (Lm[i]!)[k]!; let uu := (Um[k]!)[j]!
        s := s + l * uu
        sa := sa + qabs l * qabs uu
      let e := qabs (a - s)
      if exact then
        if e ≠ 0 then return some s!"(Pr A Pc - L U)({i},{j}) != 0 on a rounding-free case"
      else if e > bnd * sa + tiny then return some s!"|(Pr A Pc - L U)({i},{j})| exceeds g(n+2)|L||U| (ratio {(e / (bnd * sa + tiny)).floor})"
  return none

/-- C02: the diagonal is the pivot whenever it passes the threshold test (no reuse), from the event
values themselves (exact rationals of the floats the code compared) -/
def propDiagPref (c : Case) (evs : Array Ev) : Option String := Id.run do
  let w := if c.isComplex then 2 else 1
  let rows0 := c.nat "ev.rows0"
  let some v0 := ratsOf c.isDouble (c.raw "ev.vals0") | return none
  let some us := ratsOf true (c.raw "ev.u") | return none
  let mut idx := 0
  for e in evs do
    let i := idx; idx := idx + 1
    if e.info ≠ 0 ∨ e.useprIn then continue
    let mags := (List.range e.ncand).map fun t =>
      if w = 2 then rabs v0[(e.off + t) * 2]! + rabs v0[(e.off + t) * 2 + 1]! else rabs v0[e.off + t]!
    let pivmax := mags.foldl max 0
    let rs := (List.range e.ncand).map fun t => rows0[e.off + t]!
    match rs.idxOf? e.diagind with
    | none => pure ()
    | some t =>
      let d := mags[t]!
      -- strict margin so that the rounding of `u * pivmax` in the code cannot matter
      if d ≠ 0 ∧ d > us[i]! * pivmax * (1 + pow2 (-20)) ∧ e.pivrow ≠ (e.diagind : Int) then
        return some s!"column {e.jcol}: diagonal passes the threshold test but row {e.pivrow} was chosen"
  return none

/-- C01: residual `|B - op(F) X| <= g(4n+4) (|L||U| permuted back) |X| + g(n+1)|B|` per column -/
def propSolve (c : Case) (I : Impl) (trans : Bool) : Option String := Id.run do
  let eps := epsOf c
  let n := I.n
  let nrhs := c.pNat "nrhs"; let ldb := c.pNat "ldb"
  if nrhs = 0 then return none
  let some b0 := decQ? c "B0" | return some "B has non-finite entries"
  let some x := decQ? c "X" | return some "X has non-finite entries"
  let cm : Rat := if c.isComplex then 4 else 1
  let g1 := gam eps (4 * n + 4) * cm; let g2 := gam eps (n + 1) * cm
  let ipc := invPerm I.permC; let ipr := invPerm I.permR
  -- W = |L||U| in factored coordinates; M(i, c) = W(perm_r i, perm_c c) is |L||U| permuted back onto F
  let W : Array (Array Rat) := (Array.range n).map fun i => (Array.range n).map fun j =>
    (List.range (min (i + 1) (j + 1))).foldl (fun s k => s + qabs (I.fac.decodeL i k) * qabs (I.fac.decodeU k j)) 0
  let Fd : Array (Array Q) := (Array.range n).map fun j => denseCol I.F j     -- Fd[j][i] = F(i, j)
  let tiny : Rat := if c.isDouble then pow2 (-1000) else pow2 (-120)
  for r in List.range nrhs do
    for i in List.range n do
      -- row i of op(F): F(i, :) or F(:, i)
      let mut s : Q := 0
      let mut wsum : Rat := 0
      for j in List.range n do
        let a := if trans then (Fd[i]!)[j]! else (Fd[j]!)[i]!
        let xv := x[j + r * ldb]!
        s := s + a * xv
        let wij := if trans then (W[I.permR.getD j 0]!)[I.permC.getD i 0]! else (W[I.permR.getD i 0]!)[I.permC.getD j 0]!
        wsum := wsum + wij * qabs xv
      let bi := b0[i + r * ldb]!
      if qabs (bi - s) > g1 * wsum + g2 * qabs bi + tiny then
        return some s!"residual of equation {i}, right-hand side {r} exceeds the factor-derived bound"
    -- padding rows of B (ldb > n) are not touched
    for i in List.range (ldb - n) do
      if (c.raw "X")[(n + i + r * ldb) * (if c.isComplex then 2 else 1)]! ≠ (c.raw "B0")[(n + i + r * ldb) * (if c.isComplex then 2 else 1)]! then
        return some s!"padding row {n + i} of B was modified"
  let _ := ipc; let _ := ipr
  return none

/-- the returned factors with exact rational values (`none`: non-finite values) -/
def decodeFac (c : Case) : Option (LUFac Q) :=
  match decQ? c "L.lusup", decQ? c "U.val" with
  | some lv, some uv =>
    let f : LUFac Q := LUFac.ofCase c (fun _ => (#[] : Array Q))
    some { f with L := { f.L with lusup := lv }, U := { f.U with val := uv } }
  | _, _ => none

/-! ### the handler -/

def handle (c : Case) : Res := Id.run do
  let prop := c.p "prop" "C02"
  let dims := c.nat "F.dims"; let m := dims[0]!; let n := dims[1]!
  let info := (c.pInt "info").toNat
  let path := c.p "path"
  let tags := [s!"ty={c.ty}", s!"path={path}", s!"ws={c.p "ws" "0"}", (if c.pNat "expansions" > 0 then (if c.p "ws" "0" == "1" then "expansions-in-workspace" else "expansions-malloc") else "no-expansion"), s!"stor={c.p "stor"}", s!"val={c.p "val"}", s!"sing={c.p "sing"}",
               s!"colperm={c.p "colperm"}", s!"symm={c.p "symm"}", if m > n then "tall" else "square",
               if info = 0 then "info0" else if info ≤ n then "info-singular" else "info-mem"]
  if c.p "evoverflow" ≠ "0" then return Res.skip "event log inconsistent"
  let some fvals := decQ? c "F.val" | return Res.skip "non-finite matrix entries"
  let F : CSC Q := { m := m, n := n, colptr := c.nat "F.colptr", rowind := c.nat "F.rowind", val := fvals }
  let some uArr := ratsOf true (c.raw "u") | return Res.skip "u"
  let u := uArr[0]!
  let evs := decodeEvents c
  let permCi := c.int "perm_c"; let permRi := c.int "perm_r"
  let singular := c.p "sing" ≠ "none"
  -- exact model of the factorization, candidate order from the events
  let ipcOK := isPermArr permCi n
  if !ipcOK then
    return (if prop == "C02" ∨ prop == "C01" then Res.propFalse "perm_c is not a permutation of 0..n-1" tags else Res.ok false tags)
  let permC := permCi.map Int.toNat
  let ipc := invPerm permC
  let rows0 := c.nat "ev.rows0"
  let orderOf (j : Nat) : List Nat :=
    match evs.toList.find? (fun e => e.jcol = j) with
    | some e => (rows0.extract e.off (e.off + e.ncand)).toList ++ (List.range m)   -- event order first, then any other row
    | none => List.range m
  let P : Params Q Rat := { m := m, n := n, col := fun j => denseCol F (ipc.getD j 0), u := u,
                            order := orderOf, oldPiv := fun _ => big, diagRow := fun j => ipc.getD j 0 }
  let st := luFactor P false
  ------------------------------------------------------------------ C04
  if prop == "C04" then
    -- info in 1..n exactly when elimination meets a column without a nonzero candidate (exact arithmetic
    -- on a rounding-free run); the leading pivots form a valid factorization; B untouched; success never
    -- with a zero on U's diagonal
    -- the expert driver equilibrates first: the exact model of the unscaled matrix is not comparable
    let certified := path != "gssvx" && roundingFree c.isDouble m (min n (if st.info = 0 then n else st.info - 1)) P.col st
    if info > n then return Res.ok false tags "tolerance"
    if certified then
      if st.info ≠ info then
        return Res.propFalse s!"info = {info} but exact elimination {if st.info = 0 then "finds every pivot nonzero" else s!"meets its first all-zero pivot column at {st.info}"} (rounding-free case)" tags
    if info ≠ 0 then
      -- no solve attempted: B is returned untouched
      if c.raw "X" ≠ c.raw "B0" then return Res.propFalse "singular return but the right-hand side was modified" tags
      -- every candidate of the reported column is exactly zero (from the event the code saw)
      match evs.toList.find? (fun e => e.jcol + 1 = info ∧ e.info ≠ 0) with
      | some e =>
        let w := if c.isComplex then 2 else 1
        let vs := (c.raw "ev.vals0").extract (e.off * w) ((e.off + e.ncand) * w)
        if ¬ vs.all (fun b => b == 0 || b == 0x8000000000000000 || b == 0x80000000) then
          return Res.propFalse s!"info = {info} but a candidate of that column is not exactly zero" tags
      | none => return Res.propFalse s!"info = {info} but no zero-pivot event for column {info - 1}" tags
      -- the leading pivots form a valid factorization of the leading columns: the identity Pr A Pc = L U restricted to the
      -- columns before the reported one (exact on certified cases, within the rounding bound otherwise).  Only when the
      -- returned storage can be read at all (what lies beyond the reported column is covered by an open finding).
      if path != "gssvx" ∧ info ≥ 2 ∧ isPermArr permRi m then
        match decodeFac c with
        | some fac =>
          if (Struct.wfSC fac).isNone then
            let I : Impl := { m := m, n := n, F := F, permC := permC, permR := permRi.map Int.toNat, fac := fac, info := info }
            match propFactors c I u certified (some (info - 1)) with
            | some msg => return Res.propFalse s!"info = {info}: the columns before the reported one are not a valid factorization: {msg}" tags
            | none => pure ()
        | none => pure ()
      return Res.ok (n ≥ 2) tags (if certified then "exact" else "tolerance")
    else
      -- success: never a zero on U's diagonal
      let some fac := decodeFac c | return Res.propFalse "factors contain non-finite values" tags
      for k in List.range n do
        if fac.decodeU k k = 0 then return Res.propFalse s!"info = 0 with U({k},{k}) = 0" tags
      if singular ∧ certified ∧ st.info ≠ 0 then
        return Res.propFalse "exactly singular matrix but info = 0" tags
      return Res.ok (n ≥ 2 ∧ singular) tags (if certified then "exact" else "tolerance")
  ------------------------------------------------------------------ common: decode factors
  if info ≠ 0 then
    -- C01/C02/C03 speak about successful returns; B must be untouched on failure (C01 glue)
    if prop == "C01" ∧ info ≤ n ∧ c.raw "X" ≠ c.raw "B0" then return Res.propFalse "info != 0 but B was modified" tags
    return Res.ok false tags
  let some fac := decodeFac c | return Res.propFalse "factors contain non-finite values" tags
  ------------------------------------------------------------------ C03
  if prop == "C03" then
    -- `wfb` is the predicate whose soundness is proved (Props/C03.lean); `wfSC` only words the message
    if !Struct.wfb fac then
      return Res.propFalse s!"structure: {(Struct.wfSC fac).getD "rejected by wfb"}" tags
    match Struct.wfSC fac with
    | some msg => return Res.propFalse s!"structure: {msg}" tags
    | none => return Res.ok (n ≥ 2 ∧ fac.L.nsuper + 1 < n ∨ n ≥ 3) (tags ++ [if fac.L.nsuper + 1 < n then "multicol-snode" else "singletons"]) "exact"
  -- C02's own clause "the returned row permutation is a bijection" does not need the factors
  if prop == "C02" ∧ info = 0 ∧ !isPermArr permRi m then
    return Res.propFalse "perm_r is not a permutation of 0..m-1" tags
  -- everything below needs a well-formed structure to read the factors
  if (Struct.wfSC fac).isSome then return Res.skip "structure not well-formed (reported under C03)"
  if !isPermArr permRi m then
    return (if prop == "C02" then Res.propFalse "perm_r is not a permutation of 0..m-1" tags else Res.skip "perm_r")
  let permR := permRi.map Int.toNat
  -- C01/C02 on the expert-driver path belong to C05 (the factors are those of the equilibrated matrix)
  if path == "gssvx" then return Res.ok false tags
  let I : Impl := { m := m, n := n, F := F, permC := permC, permR := permR, fac := fac, info := info }
  let certified := st.info = 0 && roundingFree c.isDouble m n P.col st
  ------------------------------------------------------------------ C01
  if prop == "C01" then
    if m ≠ n then return Res.ok false tags
    let trans := c.p "stor" == "NR"      -- the driver factors Aᵀ and solves with TRANS
    match propSolve c I trans with
    | some msg => return Res.propFalse msg tags
    | none => return Res.ok (n ≥ 2 ∧ c.pNat "nrhs" > 0) tags (if certified then "exact" else "tolerance")
  ------------------------------------------------------------------ C02
  -- Prop on the implementation's outputs
  match propFactors c I u certified with
  | some msg => return Res.propFalse msg tags
  | none => pure ()
  match propDiagPref c evs with
  | some msg => return Res.propFalse msg tags
  | none => pure ()
  -- Corr (a): pivot events, bit mirror
  let w := if c.isComplex then 2 else 1
  let ec := match c.ty with
    | 'd' => evCorr Float Float c evs w
    | 's' => evCorr Float32 Float32 c evs w
    | 'z' => evCorr (Cx Float) Float c evs w
    | _ => evCorr (Cx Float32) Float32 c evs w
  match ec with
  | some msg => return Res.corr msg tags
  | none => pure ()
  -- Corr (b): exact model vs implementation on certified cases
  if certified then
    let modelPermR := LU.permR m st.piv
    if modelPermR ≠ permR then return Res.corr s!"perm_r model={modelPermR} impl={permR} (rounding-free case)" tags
    for j in List.range n do
      for k in List.range (j + 1) do
        if (st.U.getD j #[]).getD k 0 ≠ fac.decodeU k j then return Res.corr s!"U({k},{j}) differs from the exact model (rounding-free case)" tags
      for i in List.range m do
        let pi := permR.getD i 0
        if pi > j ∧ (st.L.getD j #[]).getD i 0 ≠ fac.decodeL pi j then return Res.corr s!"L({pi},{j}) differs from the exact model (rounding-free case)" tags
  let swaps := (List.range n).any fun k => st.piv.getD k 0 ≠ ipc.getD k 0
  return Res.ok (n ≥ 2) (tags ++ [if swaps then "offdiag-pivots" else "diag-pivots"]) (if certified then "exact" else "tolerance")

end Slu.Drv.Lu
