import Slu.Proto
import Slu.Drv.IluEvents
-- HANDLER ilupiv => Slu.Drv.IluPiv.handle
/-
Driver for family `ilupiv` (C15, unit level): `ilu_[sdcz]pivotL` called directly on a synthetic supernode.
Prop clauses of `Slu.Drv.IluEvents.evProp` (restricted to the hypotheses of `ilu_pivot_total`: they are
only asserted for columns with an eligible candidate) + the integer bookkeeping computed by the harness
(perm_r[pivrow] = jcol, swap/iswap stay inverse permutations with the pivot row at position jcol, the
earlier columns of the supernode see the same row interchange); then the bit mirror `evCorr`.
-/
namespace Slu.Drv.IluPiv
open Slu Slu.Drv.IluEvents

def handle (c : Case) : Res :=
  let tags := [s!"ty={c.ty}", s!"milu={c.p "milu"}", s!"vmode={c.p "vmode"}", s!"pin={c.p "pin"}", (if ["0", "0.000976562", "0.125", "0.5", "1", "0.1"].contains (c.p "u") then s!"u={c.p "u"}" else "u=random"), s!"usepr={c.p "usepr"}",
    s!"dkind={c.p "dkind"}", (if c.pInt "ret" == 0 then "ret=0" else "ret=jcol+1")]
  let evs := decodeIluEvents c
  if c.pNat "ie.overflow" ≠ 0 ∨ evs.size ≠ 1 then Res.corr "expected exactly one entry/exit record of the pivot hook" tags else
  match evProp c evs (unitLevel := true) with
  | some m => Res.propFalse m tags
  | none =>
    if c.pNat "bookkeeping" ≠ 0 then
      Res.propFalse s!"ilu_{c.ty}pivotL column {c.p "jcol"}: bookkeeping clause {c.p "bookkeeping"} fails (1 swap/iswap not inverse, 2 pivot row not at swap[jcol], 3 earlier columns of the supernode not interchanged alike, 4 more than one perm_r entry written)" tags
    else
    let (cm, tg) := evCorr c evs
    match cm with
    | some m => Res.corr m (tags ++ tg)
    | none => Res.ok (c.pNat "ncand" ≥ 2) (tags ++ tg) "bit"

end Slu.Drv.IluPiv
