import Slu.Proto
import Slu.Scalar
import Slu.Model.SymbArrays
-- HANDLER symbarr => Slu.Drv.SymbArrays.handle
/-
Driver for family `symbarr` (C03): [sdcz]pruneL / [sdcz]copy_to_ucol / [sdcz]snode_dfs called directly.
Prop: list-level predicates of the property evaluated on the implementation's own outputs (written
independently of the model: sorting / filtering / first-seen union on lists).
Corr: every output array compared exactly with `Slu.SymbArr.{pruneL, copyToUcol, snodeDfs}`; numeric
values are carried as bit patterns (`V` = (re bits, im bits)); the routines only move them.
-/
namespace Slu.Drv.SymbArrays
open Slu Slu.SymbArr

abbrev V := UInt64 × UInt64
def vz : V := (0, 0)

def decV (cplx : Bool) (a : Array UInt64) : Array V :=
  if cplx then (Array.range (a.size / 2)).map fun k => (a[2*k]!, a[2*k+1]!) else a.map fun x => (x, 0)

def cmpArr {α : Type} [BEq α] [ToString α] [Inhabited α] (what : String) (model impl : Array α) : Option String :=
  if model.size ≠ impl.size then some s!"{what}: size model={model.size} impl={impl.size}" else
  ((List.range model.size).find? fun i => !(model[i]! == impl[i]!)).map fun i =>
    s!"{what}[{i}] model={model[i]!} impl={impl[i]!}"

def natsToInts (a : Array Nat) : Array Int := a.map Int.ofNat

/-- read-only arguments must come back unchanged -/
def unchanged (c : Case) (names : List String) : Option String :=
  names.findSome? fun nm =>
    if c.int nm == c.int (nm ++ ".o") ∧ c.raw nm == c.raw (nm ++ ".o") then none
    else some s!"read-only argument {nm} was modified"

def insertSorted (x : Nat × V) : List (Nat × V) → List (Nat × V)
  | [] => [x]
  | y :: ys => if x.1 < y.1 ∨ (x.1 = y.1 ∧ (x.2.1 < y.2.1 ∨ (x.2.1 = y.2.1 ∧ x.2.2 ≤ y.2.2))) then x :: y :: ys else y :: insertSorted x ys
def sortPairs (l : List (Nat × V)) : List (Nat × V) := l.foldr insertSorted []

def firstSeen (rows : List Nat) : List Nat := rows.foldl (fun acc r => if acc.contains r then acc else acc ++ [r]) []

/-! ### (a) pruneL -/
def handlePrune (c : Case) : Res := Id.run do
  let cplx := c.isComplex
  let n := c.pNat "n"; let jcol := c.pNat "jcol"; let nseg := c.pNat "nseg"
  let a : PruneArgs := { jcol := jcol, permR := c.int "perm_r", pivrow := c.pNat "pivrow", segrep := c.nat "segrep", repfnz := c.int "repfnz", xsup := c.nat "xsup", supno := c.int "supno", xlsub := c.nat "xlsub", xlusup := c.nat "xlusup" }
  let lsub := c.nat "lsub"; let lusup := decV cplx (c.raw "lusup"); let xprune := c.nat "xprune"
  let lsubO := c.nat "lsub.o"; let lusupO := decV cplx (c.raw "lusup.o"); let xpruneO := c.nat "xprune.o"
  -- which representatives the routine has to partition (tests of dpruneL.c:82-105 on the INPUT state)
  let reps := (a.segrep.toList.take nseg).filter fun irep => eligible a irep && doPrune a lsub xprune irep
  let movs := reps.filter fun irep => a.xsup.getD (a.supno.getD irep 0).toNat 0 == irep
  let nswap := ((List.range lsub.size).filter fun k => lsub[k]! != lsubO[k]!).length / 2
  let tags := [s!"rt=prune", s!"elig={min 3 ((a.segrep.toList.take nseg).filter (eligible a)).length}",
    s!"pruned={min 3 reps.length}", s!"movnum={min 2 movs.length}", s!"swaps={min 4 nswap}", s!"nseg={min 4 nseg}"]
  -- Prop
  if let some m := unchanged c ["xsup", "supno", "perm_r", "xlsub", "xlusup", "segrep", "repfnz"] then return Res.propFalse m tags
  if lsubO.size ≠ lsub.size ∨ lusupO.size ≠ lusup.size ∨ xpruneO.size ≠ xprune.size then return Res.propFalse "output sizes" tags
  let piv (r : Nat) : Bool := a.permR.getD r EMPTY != EMPTY
  for irep in reps do
    let lo := a.xlsub[irep]!; let hi := a.xlsub[irep+1]!; let xlu := a.xlusup[irep]!
    let mov := movs.contains irep
    let pairs (ls : Array Nat) (lu : Array V) : List (Nat × V) :=
      (List.range (hi - lo)).map fun t => (ls[lo+t]!, if mov then lu[xlu+t]! else vz)
    if sortPairs (pairs lsub lusup) != sortPairs (pairs lsubO lusupO) then
      return Res.propFalse s!"irep={irep}: the pruned segment (with its values) is not a permutation of the original" tags
    let p := xpruneO[irep]!
    if ¬ (lo ≤ p ∧ p ≤ hi) then return Res.propFalse s!"irep={irep}: xprune={p} outside [{lo},{hi}]" tags
    for k in List.range' lo (hi - lo) do
      if k < p ∧ ! piv lsubO[k]! then return Res.propFalse s!"irep={irep}: unpivoted row {lsubO[k]!} before xprune" tags
      if k ≥ p ∧ piv lsubO[k]! then return Res.propFalse s!"irep={irep}: pivoted row {lsubO[k]!} at or after xprune" tags
    -- the leading pivoted entries (the diagonal block of a singleton supernode) stay where they are
    let lead := ((List.range' lo (hi - lo)).takeWhile fun k => piv lsub[k]!).length
    for k in List.range' lo lead do
      if lsubO[k]! != lsub[k]! ∨ (mov ∧ lusupO[xlu + (k - lo)]! != lusup[xlu + (k - lo)]!) then
        return Res.propFalse s!"irep={irep}: leading pivoted entry at {k} moved" tags
  -- frame: nothing outside the processed segments changes
  let inSeg (k : Nat) : Bool := reps.any fun irep => a.xlsub[irep]! ≤ k ∧ k < a.xlsub[irep+1]!
  let inVal (k : Nat) : Bool := movs.any fun irep => a.xlusup[irep]! ≤ k ∧ k < a.xlusup[irep]! + (a.xlsub[irep+1]! - a.xlsub[irep]!)
  for k in List.range lsub.size do
    if ! inSeg k ∧ lsubO[k]! != lsub[k]! then return Res.propFalse s!"lsub[{k}] changed outside the pruned segments" tags
  for k in List.range lusup.size do
    if ! inVal k ∧ lusupO[k]! != lusup[k]! then return Res.propFalse s!"lusup[{k}] changed outside a singleton supernode being pruned" tags
  for k in List.range n do
    if ! reps.contains k ∧ xpruneO[k]! != xprune[k]! then return Res.propFalse s!"xprune[{k}] changed" tags
  -- Corr
  let o := pruneL vz a nseg { lsub := lsub, lusup := lusup, xprune := xprune }
  if let some m := cmpArr "lsub" o.lsub lsubO then return Res.corr m tags
  if let some m := cmpArr "xprune" o.xprune xpruneO then return Res.corr m tags
  if let some m := cmpArr "lusup" o.lusup lusupO then return Res.corr m tags
  return Res.ok (reps.length ≥ 1 ∧ nswap ≥ 1) tags "bit"

/-! ### (b) copy_to_ucol -/
def handleUcol (c : Case) : Res := Id.run do
  let cplx := c.isComplex
  let n := c.pNat "n"; let jcol := c.pNat "jcol"; let nseg := c.pNat "nseg"; let nzumax := c.pNat "nzumax"
  let a : UcolArgs := { jcol := jcol, nseg := nseg, segrep := c.nat "segrep", repfnz := c.int "repfnz", permR := c.int "perm_r", xsup := c.nat "xsup", supno := c.int "supno", lsub := c.nat "lsub", xlsub := c.nat "xlsub" }
  let xusub := c.nat "xusub"; let usub := c.int "usub"; let ucol := decV cplx (c.raw "ucol"); let dense := decV cplx (c.raw "dense")
  let xusubO := c.nat "xusub.o"; let usubO := c.int "usub.o"; let ucolO := decV cplx (c.raw "ucol.o"); let denseO := decV cplx (c.raw "dense.o")
  let jsupno := a.supno[jcol]!
  -- the listed segments in the listed order (segrep[nseg-1..0]), as rows
  let kept := (a.segrep.toList.take nseg).reverse.filter fun krep => a.supno[krep]! != jsupno && a.repfnz[krep]! != EMPTY
  let segRows (krep : Nat) : List Nat :=
    let kfnz := (a.repfnz[krep]!).toNat; let fsupc := a.xsup[(a.supno[krep]!).toNat]!
    (List.range (krep + 1 - kfnz)).map fun t => a.lsub[a.xlsub[fsupc]! + (kfnz - fsupc) + t]!
  let rows := kept.flatMap segRows
  let nextu0 := xusub[jcol]!
  let tags := [s!"rt=ucol", s!"kept={min 4 kept.length}", s!"rows={min 8 rows.length}", s!"frag={min 1 (c.pNat "nfrag")}",
    s!"empty={min 1 (c.pNat "nempty")}", s!"own={min 1 (c.pNat "nown")}", s!"slack={min 1 (c.pNat "extra")}", s!"nextu0={min 1 nextu0}"]
  -- Prop
  if c.pInt "info" 99 ≠ 0 ∨ c.pNat "moved" 9 ≠ 0 then return Res.propFalse s!"capacity suffices but info={c.p "info"} moved={c.p "moved"}" tags
  if let some m := unchanged c ["xsup", "supno", "perm_r", "xlsub", "lsub", "xlusup", "segrep", "repfnz"] then return Res.propFalse m tags
  if usubO.size ≠ usub.size ∨ ucolO.size ≠ ucol.size ∨ denseO.size ≠ dense.size ∨ xusubO.size ≠ xusub.size then return Res.propFalse "output sizes" tags
  if nextu0 + rows.length > nzumax then return Res.skip "generator: capacity does not suffice"
  if xusubO[jcol+1]! ≠ nextu0 + rows.length then return Res.propFalse s!"xusub[jcol+1]={xusubO[jcol+1]!}, expected {nextu0 + rows.length}" tags
  for k in List.range (n+1) do
    if k ≠ jcol + 1 ∧ xusubO[k]! ≠ xusub[k]! then return Res.propFalse s!"xusub[{k}] changed" tags
  let mut t := 0
  for r in rows do
    let k := nextu0 + t
    if usubO[k]! ≠ a.permR[r]! then return Res.propFalse s!"usub[{k}]={usubO[k]!}, expected perm_r[{r}]={a.permR[r]!}" tags
    if ucolO[k]! != dense[r]! then return Res.propFalse s!"ucol[{k}] is not dense[{r}]" tags
    if denseO[r]! != vz then return Res.propFalse s!"dense[{r}] not reset to zero" tags
    -- U holds only rows strictly above the column's supernode
    if ¬ (0 ≤ usubO[k]! ∧ usubO[k]! < (a.xsup[jsupno.toNat]! : Int)) then return Res.propFalse s!"usub[{k}]={usubO[k]!} not strictly above supernode of column {jcol}" tags
    t := t + 1
  let newU := (List.range rows.length).map fun t => usubO[nextu0 + t]!
  if newU.eraseDups.length ≠ newU.length then return Res.propFalse "a row repeats in the U column" tags
  for k in List.range usub.size do
    if (k < nextu0 ∨ k ≥ nextu0 + rows.length) ∧ (usubO[k]! ≠ usub[k]! ∨ ucolO[k]! != ucol[k]!) then
      return Res.propFalse s!"usub/ucol[{k}] changed outside column {jcol}" tags
  for r in List.range dense.size do
    if ! rows.contains r ∧ denseO[r]! != dense[r]! then return Res.propFalse s!"dense[{r}] changed outside the gathered segments" tags
  -- Corr
  let (st, xu) := copyToUcol vz a xusub usub ucol dense
  if let some m := cmpArr "xusub" xu xusubO then return Res.corr m tags
  if let some m := cmpArr "usub" st.usub usubO then return Res.corr m tags
  if let some m := cmpArr "ucol" st.ucol ucolO then return Res.corr m tags
  if let some m := cmpArr "dense" st.dense denseO then return Res.corr m tags
  return Res.ok (rows.length ≥ 2 ∧ kept.length ≥ 1) tags "bit"

/-! ### (c) snode_dfs -/
def handleSnode (c : Case) : Res := Id.run do
  let n := c.pNat "n"; let jcol := c.pNat "jcol"; let kcol := c.pNat "kcol"; let nzlmax := c.pNat "nzlmax"
  let asub := c.nat "asub"; let xaB := c.nat "xa_begin"; let xaE := c.nat "xa_end"
  let marker := c.int "marker"; let xsup := c.nat "xsup"; let supno := c.int "supno"
  let lsub := c.nat "lsub"; let xlsub := c.nat "xlsub"; let xprune := c.nat "xprune"
  let markerO := c.int "marker.o"; let xsupO := c.nat "xsup.o"; let supnoO := c.int "supno.o"
  let lsubO := c.nat "lsub.o"; let xlsubO := c.nat "xlsub.o"; let xpruneO := c.nat "xprune.o"
  let allRows := (List.range' jcol (kcol + 1 - jcol)).flatMap fun i => (List.range' xaB[i]! (xaE[i]! - xaB[i]!)).map fun k => asub[k]!
  let U := firstSeen allRows
  let first := xlsub[jcol]!
  let multi := decide (jcol < kcol)
  let stop := first + U.length * (if multi then 2 else 1)
  let tags := [s!"rt=snode", s!"w={min 4 (kcol + 1 - jcol)}", s!"rows={min 8 U.length}", s!"dups={min 4 (allRows.length - U.length)}",
    s!"share={c.p "share"}", s!"slack={min 1 (c.pNat "extra")}", s!"first={min 1 first}"]
  -- Prop
  if c.pInt "info" 99 ≠ 0 ∨ c.pNat "moved" 9 ≠ 0 then return Res.propFalse s!"capacity suffices but info={c.p "info"} moved={c.p "moved"}" tags
  if let some m := unchanged c ["asub", "xa_begin", "xa_end"] then return Res.propFalse m tags
  if markerO.size ≠ marker.size ∨ xsupO.size ≠ xsup.size ∨ supnoO.size ≠ supno.size ∨ lsubO.size ≠ lsub.size ∨ xlsubO.size ≠ xlsub.size ∨ xpruneO.size ≠ xprune.size then
    return Res.propFalse "output sizes" tags
  if stop ≥ nzlmax then return Res.skip "generator: capacity does not suffice"
  let seg := (List.range U.length).map fun t => lsubO[first + t]!
  if seg.eraseDups.length ≠ seg.length then return Res.propFalse "duplicate subscript in the relaxed supernode" tags
  if seg != U then return Res.propFalse s!"lsub of the supernode {seg} is not the union of its columns in first-seen order {U}" tags
  if multi then
    let seg2 := (List.range U.length).map fun t => lsubO[first + U.length + t]!
    if seg2 != U then return Res.propFalse "the second copy of the subscripts differs from the first" tags
    for i in List.range' (jcol+1) (kcol - jcol) do
      if xlsubO[i]! ≠ first + U.length then return Res.propFalse s!"xlsub[{i}]={xlsubO[i]!}, expected {first + U.length}" tags
  if xlsubO[kcol+1]! ≠ stop ∨ xpruneO[kcol]! ≠ stop then return Res.propFalse s!"xlsub[kcol+1]={xlsubO[kcol+1]!} xprune[kcol]={xpruneO[kcol]!}, expected {stop}" tags
  for k in List.range lsub.size do
    if (k < first ∨ k ≥ stop) ∧ lsubO[k]! ≠ lsub[k]! then return Res.propFalse s!"lsub[{k}] changed outside the supernode" tags
  for i in List.range (n+1) do
    if (i ≤ jcol ∨ i > kcol + 1) ∧ xlsubO[i]! ≠ xlsub[i]! then return Res.propFalse s!"xlsub[{i}] changed" tags
    if i < n ∧ i ≠ kcol ∧ xpruneO[i]! ≠ xprune[i]! then return Res.propFalse s!"xprune[{i}] changed" tags
  let nsuper : Int := supno[jcol]! + 1
  for i in List.range (n+1) do
    if jcol ≤ i ∧ i ≤ kcol + 1 then
      if supnoO[i]! ≠ nsuper then return Res.propFalse s!"supno[{i}]={supnoO[i]!}, expected {nsuper}" tags
    else if supnoO[i]! ≠ supno[i]! then return Res.propFalse s!"supno[{i}] changed" tags
    if i = (nsuper + 1).toNat then
      if xsupO[i]! ≠ kcol + 1 then return Res.propFalse s!"xsup[{i}]={xsupO[i]!}, expected {kcol+1}" tags
    else if xsupO[i]! ≠ xsup[i]! then return Res.propFalse s!"xsup[{i}] changed" tags
  for r in List.range marker.size do
    if U.contains r then
      if markerO[r]! ≠ (kcol : Int) then return Res.propFalse s!"marker[{r}] not set" tags
    else if markerO[r]! ≠ marker[r]! then return Res.propFalse s!"marker[{r}] changed" tags
  -- Corr
  let o := snodeDfs jcol kcol asub xaB xaE xprune marker xsup supno lsub xlsub
  if let some m := cmpArr "lsub" o.lsub lsubO then return Res.corr m tags
  if let some m := cmpArr "xlsub" o.xlsub xlsubO then return Res.corr m tags
  if let some m := cmpArr "xprune" o.xprune xpruneO then return Res.corr m tags
  if let some m := cmpArr "marker" o.marker markerO then return Res.corr m tags
  if let some m := cmpArr "supno" o.supno supnoO then return Res.corr m tags
  if let some m := cmpArr "xsup" o.xsup xsupO then return Res.corr m tags
  return Res.ok (U.length ≥ 2 ∧ (multi ∨ allRows.length > U.length)) tags "bit"

def handle (c : Case) : Res :=
  match c.p "rt" with
  | "prune" => handlePrune c
  | "ucol" => handleUcol c
  | "snode" => handleSnode c
  | other => Res.skip s!"unknown routine {other}"

end Slu.Drv.SymbArrays
