import Slu.Proto
import Slu.Scalar
import Slu.Model.IluDrop
-- HANDLER iludrop => Slu.Drv.IluDrop.handle
/-
Driver for family `iludrop` (C15): direct calls of `[sd]qselect` and `ilu_[sdcz]drop_row` (the exact-rational MILU
clause is evaluated for the real files only).

qselect.  Prop (finite inputs): the array afterwards is a permutation of the array before (bit patterns), the
value returned is the element of rank `clamp k` of the descending order (exact rationals), it sits at position
`clamp k`, everything before it is >= and everything after it is <=.  Inputs with NaN/Inf (tag special=1): only
"returned" is a property.  Corr: value and array bit for bit against `Slu.QSelect.qselect`.

drop_row.  Prop, on the implementation's outputs: (count) the value returned = rows before − rows after as the
pointer arrays say; (diag) the first n subscripts are unchanged; (subset) the kept subscripts are distinct
original subscripts and each kept row carries its original values bit for bit, diagonal entries of the diagonal
block excepted; (zeroed) `dwork[0..m-n)` is zero on exit; (threshold) every removed row has norm < drop_tol or
<= the secondary threshold in force — this clause is FALSE of the routine (the secondary loop judges a moved row by
its neighbour's norm, ilu_ddrop_row.c:257-259), violations are counted in the tag `thr=` and only reported as
prop-false when the case was generated with `strictthr=1`; (milu) in exact rationals, for MILU_Dim > 0: new diagonal
= old diagonal * (1 + c_j) with c_j from the exact (signed / absolute) column sums of the removed rows, within a
rounding bound.  Corr: the whole of lusup, lsub, xlsub, xlusup, the return value, *nnzLj, *fill_tol, nzp (hook H2
phase 2), dwork2 (the array qselect permuted) bit for bit against `Slu.IluDrop.dropRow`.
-/
namespace Slu.Drv.IluDrop
open Slu Slu.Ilu Slu.IluDrop Slu.QSelect

def cmpBits (what : String) (e g : Array UInt64) : Option String :=
  (firstDiff e g).map fun i => s!"{what}[{i}] model={showBits e i} impl={showBits g i}"

def cmpInts (what : String) (e g : Array Int) : Option String :=
  if e.size ≠ g.size then some s!"{what}: size model={e.size} impl={g.size}" else
  ((List.range e.size).find? fun i => e[i]! != g[i]!).map fun i => s!"{what}[{i}] model={e[i]!} impl={g[i]!}"

def sortNat (a : Array UInt64) : List Nat := (a.toList.map (·.toNat)).mergeSort (· ≤ ·)

section qsel
variable (R : Type) [FBits R] [Inhabited R] [LT R] [DecidableLT R]

def qselCase (c : Case) : Res :=
  let n := c.pNat "n"; let k := c.pInt "k"
  let a0b := c.raw "a0"; let a1b := c.raw "a1"; let retb := c.raw "ret"
  let special := c.pNat "special" == 1
  let tags := [s!"ty={c.ty}", "kind=qselect", s!"pat={c.p "pat"}", s!"kk={c.p "kk"}", s!"nbucket={if n ≤ 1 then "1" else if n ≤ 8 then "2-8" else if n ≤ 50 then "9-50" else "51-200"}"]
  let kc := clampK n k
  let prop : Option String :=
    if a1b.size ≠ n ∨ retb.size ≠ 1 then some "qselect did not return an array / a value" else
    if special then none else
    match ratsOf (FBits.isDouble R) a0b, ratsOf (FBits.isDouble R) a1b, ratsOf (FBits.isDouble R) retb with
    | some x0, some x1, some rv =>
      let v := rv[0]!
      let sorted := x0.toList.mergeSort (fun a b => decide (b ≤ a))
      if sortNat (a0b.map canonNaN) != sortNat (a1b.map canonNaN) then some "qselect: the array afterwards is not a permutation of the array before"
      else if sorted[kc]! != v then some s!"qselect: returned value is not the element of rank {kc} (descending)"
      else if x1[kc]! != v then some s!"qselect: A[{kc}] is not the returned value"
      else if (List.range n).any (fun i => (i < kc && decide (x1[i]! < v)) || (kc < i && decide (v < x1[i]!))) then
        some "qselect: array not partitioned around position k"
      else none
    | _, _, _ => some "qselect: non-finite value from finite input"
  match prop with
  | some m => Res.propFalse m tags
  | none =>
    let a0 : Array R := a0b.map FBits.ofBits
    match qselect n a0 k with
    | none => Res.corr "model qselect ran out of fuel" tags
    | some (v, a1) =>
      match (cmpBits "ret" #[FBits.toBits v] retb).orElse fun _ => cmpBits "A" (a1.map FBits.toBits) a1b with
      | some m => Res.corr m tags
      | none => Res.ok (n ≥ 2) tags "bit"
end qsel

def miluOf (k : Nat) : Milu := match k with | 0 => .silu | 1 => .smilu1 | 2 => .smilu2 | _ => .smilu3
def nrmOf (k : Nat) : Nrm := match k with | 0 => .one | 1 => .two | _ => .inf
def ruleOf (dr : Nat) : Rule :=
  { nodrop := dr == 0, basic := dr % 2 == 1, secondary := (dr / 2) % 8 != 0, interp := (dr / 256) % 2 == 1 }

section drow
variable (K R : Type) [Wire K] [Inhabited K] [FBits R] [Inhabited R] [LT R] [DecidableLT R]

def rabsR (x : Rat) : Rat := if x < 0 then -x else x

def dropCase (cplx : Bool) (ops : DropOps K R Float) (c : Case) : Res :=
  let dbl := FBits.isDouble R
  let w := if cplx then 2 else 1
  let m := c.pNat "m"; let n := c.pNat "n"; let first := c.pNat "first"; let last := c.pNat "last"
  let lastc := c.pNat "lastc" == 1
  let dr := c.pNat "droprule"; let rule := ruleOf dr; let milu := miluOf (c.pNat "milu"); let nrm := nrmOf (c.pNat "nrm")
  let dropTol : Float := Float.ofBits (c.raw "droptol")[0]!
  let fillTol0 : Float := Float.ofBits (c.raw "filltol0")[0]!
  let alpha : R := FBits.ofBits (c.raw "alpha")[0]!
  let lusup0b := c.raw "lusup0"; let lusup1b := c.raw "lusup1"
  let lsub0 := c.int "lsub0"; let lsub1 := c.int "lsub1"
  let xlsub0 := c.int "xlsub0"; let xlsub1 := c.int "xlsub1"; let xlusup0 := c.int "xlusup0"; let xlusup1 := c.int "xlusup1"
  let ret := c.pNat "ret" 99999
  let inp : DropIn K R Float :=
    { rule := rule, milu := milu, nrm := nrm, first := first, last := last, dropTol := dropTol, quota := c.pInt "quota",
      nnzLj := c.pInt "nnzLj0", fillTol := fillTol0, alpha := alpha, lastc := lastc, lusup := Wire.dec lusup0b,
      lsub := lsub0, xlsub := xlsub0, xlusup := xlusup0 }
  let o := dropRow ops inp
  let xf := (xlusup0[first]!).toNat; let sf := (xlsub0[first]!).toNat
  let m' := ((xlusup1[first + 1]!) - xlusup1[first]!).toNat
  let path := if o.quick then "quick" else if o.ret == 0 then "nodrop" else
    (if o.p2.usedSelect then "select" else if o.p2.usedInterp then "interp" else if o.p2.ran then "dmax" else "basic")
  let p1 := match o.st with | some s => s.trace.length | none => 0
  let tags0 := [s!"ty={c.ty}", "kind=droprow", s!"milu={c.p "milu"}", s!"nrm={c.p "nrm"}", s!"rule={dr}", s!"path={path}", s!"tk={c.p "tk"}", s!"qk={c.p "qk"}",
    s!"vmode={c.p "vmode"}", s!"lastc={c.p "lastc"}", s!"dim={c.p "dim"}",
    s!"dropped={if ret == 0 then "0" else if ret == m - n then "all" else "some"}", s!"nzp={c.p "hooknzp"}"]
  -- ---------------- Prop: on the implementation's outputs ----------------
  let subs0 := lsub0.extract sf (sf + m)
  let subs1 := lsub1.extract sf (sf + m')
  let row0 (i : Nat) : Array UInt64 := (Array.range (n * w)).map fun jj => lusup0b[(xf + i + (jj / w) * m) * w + jj % w]!
  let row1 (i : Nat) : Array UInt64 := (Array.range (n * w)).map fun jj => lusup1b[(xf + i + (jj / w) * m') * w + jj % w]!
  let posOf (s : Int) : Option Nat := (List.range m).find? fun i => subs0[i]! == s
  -- threshold clause (on the implementation's kept set, norms by the model's arithmetic)
  let keptSet := subs1.toList
  let removed : List Nat := (List.range m).filter fun i => !(keptSet.contains subs0[i]!)
  let tolSec : Option Float := o.p2.tol
  let thrViol : Nat := (removed.filter fun i =>
      let nr : R := ops.rowNorm nrm (Wire.dec (row0 i))
      !((rule.basic && ops.ltTol nr dropTol) || (match tolSec with | some t => ops.leTol nr t | none => false))).length
  let tags := tags0 ++ [s!"thr={if thrViol == 0 then "ok" else "viol"}", s!"pass1={if p1 == 0 then "0" else "some"}"]
  let prop : Option String :=
    if m + n == 0 then none else
    if m' + ret ≠ m then some s!"count: returned {ret} but the supernode went from {m} to {m'} rows" else
    if (List.range (min n m')).any (fun i => subs1[i]! != subs0[i]!) then some "diag: a subscript of the diagonal block changed" else
    if m > n ∧ m' < n then some "diag: fewer rows than columns left" else
    if !(subs1.toList.eraseDups.length == m') then some "subset: kept subscripts not distinct" else
    match (List.range m').findSome? (fun i =>
        match posOf subs1[i]! with
        | none => some s!"subset: kept subscript {subs1[i]!} is not a subscript of the supernode"
        | some i0 =>
          if (List.range (n * w)).any (fun jj => !(i < n && jj / w == i) && canonNaN (row1 i)[jj]! != canonNaN (row0 i0)[jj]!) then
            some s!"subset: kept row {subs1[i]!} changed value outside the diagonal"
          else none) with
    | some msg => some msg
    | none =>
      if (c.raw "dwork1").any (fun b => b != 0) then some "zeroed: dwork not zero on exit" else
      if thrViol ≠ 0 ∧ c.pNat "strictthr" == 1 then some s!"threshold: {thrViol} removed row(s) with norm above both thresholds" else
      -- MILU compensation, exact rationals
      if cplx ∨ ret == 0 ∨ milu == .silu ∨ !(c.p "dim" == "3" || c.p "dim" == "2" || c.p "dim" == "1") then none else
      match ratsOf dbl lusup0b, ratsOf dbl lusup1b, ratsOf dbl (c.raw "alpha") with
      | some v0, some v1, some al =>
        let eps : Rat := if dbl then pow2 (-52) else pow2 (-23)
        (List.range n).findSome? fun j =>
          let col := removed.map fun i => v0[xf + i + j * m]!
          let S : Rat := (col.map rabsR).sum
          let t : Rat := if milu == .smilu3 then S else col.sum
          let cap : Rat := 2 * (1 - al[0]!)
          let tw : Rat := if rabsR t < cap then rabsR t else cap      -- t * omega in exact arithmetic (real files: always >= 0)
          let d0 := v0[xf + j + j * m]!
          let d1 := v1[xf + j + j * m']!
          let expct := d0 * (1 + tw)
          let bound := rabsR d0 * eps * ((ret : Rat) + 10) * (1 + S) * 2
          if rabsR (d1 - expct) ≤ bound then none
          else some s!"milu: diagonal of column {j} is not old*(1+min(|t|,2(1-alpha))) within the rounding bound"
      | _, _, _ => none
  match prop with
  | some msg => Res.propFalse msg tags
  | none =>
  -- ---------------- Corr ----------------
  let corr : Option String :=
    if !o.p2.fuelOk then some "model qselect ran out of fuel" else
    if o.ret ≠ ret then some s!"return value model={o.ret} impl={ret}" else
    if o.nnzLj ≠ c.pInt "nnzLj1" then some s!"nnzLj model={o.nnzLj} impl={c.p "nnzLj1"}" else
    if o.nzp ≠ c.pNat "hooknzp" then some s!"nzp model={o.nzp} hook={c.p "hooknzp"}" else
    (cmpBits "fill_tol" #[o.fillTol.toBits] (c.raw "filltol1")).orElse fun _ =>
    (cmpInts "xlsub" o.xlsub xlsub1).orElse fun _ =>
    (cmpInts "xlusup" o.xlusup xlusup1).orElse fun _ =>
    (cmpInts "lsub" o.lsub lsub1).orElse fun _ =>
    (cmpBits "lusup" (Wire.enc o.lusup) lusup1b).orElse fun _ =>
    if o.p2.usedSelect ∧ c.pNat "have2" == 1 then
      cmpBits "dwork2" (o.p2.work2.map FBits.toBits) ((c.raw "dwork2").extract 0 o.p2.work2.size)
    else none
  match corr with
  | some msg => Res.corr msg tags
  | none => Res.ok (m > n ∧ !rule.nodrop) tags "bit"
end drow

def handle (c : Case) : Res :=
  if c.p "kind" == "qselect" then
    (if c.isDouble then qselCase Float c else qselCase Float32 c)
  else
    (if c.ty == 'z' then dropCase (Cx Float) Float true opsC64 c
     else if c.ty == 'c' then dropCase (Cx Float32) Float32 true opsC32 c
     else if c.isDouble then dropCase Float Float false opsF64 c else dropCase Float32 Float32 false opsF32 c)

end Slu.Drv.IluDrop
