import Slu.Proto
import Slu.Scalar
-- HANDLER fparith => Slu.Drv.Fparith.handle
/-
Driver for family `fparith` (trusted-base self test, run with C11 — the bit-mirrored property — and
by `./check setup`): every Float / Float32 operation the executed models use, recomputed here and
compared bit for bit with what the C compiler produced for the same operands.  A difference means
the executable model's arithmetic is not the implementation's (different rounding, FMA contraction,
flush-to-zero, a libm `sqrt` that is not correctly rounded) and every bit mirror would be void.
-/
namespace Slu.Drv.Fparith
open Slu

def evalD (op : Int) (a b : Float) : Float :=
  match op with
  | 0 => a + b | 1 => a - b | 2 => a * b | 3 => a / b | 4 => Float.sqrt a.abs | 5 => a.abs | 6 => -a
  | 7 => a.toFloat32.toFloat
  | 8 => if a ≤ b then 1 else 0 | 9 => if a < b then 1 else 0
  | _ => (a * b) + b

def evalS (op : Int) (a b : Float32) : Float32 :=
  match op with
  | 0 => a + b | 1 => a - b | 2 => a * b | 3 => a / b | 4 => Float32.sqrt a.abs | 5 => a.abs | 6 => -a
  | 7 => (a.toFloat * 3.0).toFloat32
  | 8 => if a ≤ b then 1 else 0 | 9 => if a < b then 1 else 0
  | _ => (a * b) + b

def handle (c : Case) : Res :=
  let ops := c.int "op"; let a := c.raw "a"; let b := c.raw "b"; let r := c.raw "r"
  let dbl := c.p "ty" == "d"
  if ops.size == 0 ∨ a.size ≠ ops.size ∨ b.size ≠ ops.size ∨ r.size ≠ ops.size then Res.skip "malformed fparith case" else
  let mine : Array UInt64 := (Array.range ops.size).map fun k =>
    if dbl then FBits.toBits (evalD ops[k]! (FBits.ofBits a[k]! : Float) (FBits.ofBits b[k]! : Float))
    else FBits.toBits (evalS ops[k]! (FBits.ofBits a[k]! : Float32) (FBits.ofBits b[k]! : Float32))
  let tags := [s!"ty={c.p "ty"}"] ++ ((List.range 11).filterMap fun (o : Nat) => if ops.any (· == Int.ofNat o) then some s!"op={o}" else none)
  match firstDiff mine r with
  | some k => Res.corr s!"operation {ops[k]!} on {showBits a k}, {showBits b k}: Lean {showBits mine k} C {showBits r k}" tags
  | none => Res.ok true tags "bit"

end Slu.Drv.Fparith
