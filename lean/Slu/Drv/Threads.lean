import Slu.Proto
-- HANDLER threads => Slu.Drv.Threads.handle
/-
Driver for family `threads` (C09).

Prop (the property's own predicate on the implementation's outputs): for every job of the case the
bytes produced concurrently (mode conc) / on repetition between unrelated calls (mode hist) equal the
bytes the same job produced when run alone: equal length and equal 64-bit FNV hash, and the harness'
own byte-wise comparison found no difference.  `Slu.C09.interleaving_eq_serial` / `determinism`
predict exactly this equality for calls with disjoint write footprints, so Corr and Prop coincide
here; a difference is reported as prop-false.  A data race itself is observed by TSan (the process
exits 66 and `check` records a crash for the case).
-/
namespace Slu.Drv.Threads
open Slu

def kindName (k : Int) : String :=
  match k with
  | 0 => "gssv" | 1 => "gssvx" | 2 => "pipe" | 3 => "perm" | 4 => "gsisx" | _ => "?"

def handle (c : Case) : Res :=
  let mode := c.p "mode"
  let kinds := c.int "kind"
  let infos := c.int "info"
  let refH := c.int "ref_hash"; let gotH := c.int "got_hash"
  let refL := c.int "ref_len"; let gotL := c.int "got_len"
  let nthreads := c.pNat "threads"
  let kindTags := (List.range 5).filterMap fun (k : Nat) =>
    if kinds.any (· == Int.ofNat k) then some s!"job={kindName (Int.ofNat k)}" else none
  let tags := [s!"mode={mode}", s!"threads={nthreads}", s!"tuned={c.p "tuned"}"] ++ kindTags ++
    (if infos.any (fun i => i > 0) then ["some-info>0"] else []) ++
    (if c.pNat "userwork" > 0 then [s!"{mode}-userwork"] else []) ++
    (if c.pNat "userwork" > 0 ∧ c.pNat "symm" > 0 then [s!"{mode}-userwork-symm"] else [])
  let njobs := kinds.size
  -- malformed block
  if njobs = 0 ∨ refL.size ≠ njobs ∨ refH.size ≠ 2 * njobs then Res.skip "malformed threads case" else
  let bad : Option String :=
    if mode == "conc" then
      if gotL.size ≠ njobs ∨ gotH.size ≠ 2 * njobs then some "missing concurrent outputs" else
      (List.range njobs).findSome? fun q =>
        if refL[q]! ≠ gotL[q]! then some s!"job {q} ({kindName kinds[q]!}): output length alone={refL[q]!} concurrent={gotL[q]!}"
        else if refH[2*q]! ≠ gotH[2*q]! ∨ refH[2*q+1]! ≠ gotH[2*q+1]! then some s!"job {q} ({kindName kinds[q]!}): output bytes differ between the call alone and the same call run concurrently"
        else none
    else
      if gotL.size ≠ 3 ∨ gotH.size ≠ 6 then some "missing repeated outputs" else
      if refL[0]! ≠ gotL[0]! ∨ refH[0]! ≠ gotH[0]! ∨ refH[1]! ≠ gotH[1]! then
        some s!"{kindName kinds[0]!}: repeating the call after unrelated calls gave different output"
      else if refL[0]! ≠ gotL[1]! ∨ refH[0]! ≠ gotH[2]! ∨ refH[1]! ≠ gotH[3]! then
        some s!"{kindName kinds[0]!}: output depends on the fill byte of fresh allocations (uninitialised read)"
      else if refL[0]! ≠ gotL[2]! ∨ refH[0]! ≠ gotH[4]! ∨ refH[1]! ≠ gotH[5]! then
        some s!"{kindName kinds[0]!}: output depends on the fill byte of fresh allocations (uninitialised read, fill 0xFF)"
      else none
  match bad with
  | some m => Res.propFalse (m ++ " [" ++ c.str "diff" ++ "]") tags
  | none =>
    if c.pNat "ndiff" ≠ 0 then Res.propFalse ("harness byte comparison differs: " ++ c.str "diff") tags else
    if c.pNat "double_frees" ≠ 0 then Res.propFalse s!"double free recorded by the ledger: {c.p "double_frees"}" tags else
    -- non-trivial: at least two jobs whose output is more than an error code, and (conc) >= 2 threads
    let big := (List.range njobs).filter fun q => refL[q]! > 64
    let nt := if mode == "conc" then nthreads ≥ 2 ∧ big.length ≥ 2 else big.length ≥ 1
    Res.ok nt tags "bit"

end Slu.Drv.Threads
