import Slu.Model.Sparse
/-
Exact rational helpers for the C12 / C13 drivers: complex rationals, dense matrices as
`Array (Array (Cx Rat))` (real data has zero imaginary parts), exact inverse by Gauss-Jordan,
rational lower / upper bounds of the complex modulus.  Oracle side only (not part of the model).
-/
namespace Slu.Drv.CondUtil
open Slu

abbrev Q := Cx Rat
def qz : Q := ⟨0, 0⟩
def q1 : Q := ⟨1, 0⟩
def qadd (a b : Q) : Q := ⟨a.re + b.re, a.im + b.im⟩
def qsub (a b : Q) : Q := ⟨a.re - b.re, a.im - b.im⟩
def qmul (a b : Q) : Q := ⟨a.re * b.re - a.im * b.im, a.im * b.re + a.re * b.im⟩
def qconj (a : Q) : Q := ⟨a.re, -a.im⟩
def qsq (a : Q) : Rat := a.re * a.re + a.im * a.im
def qinv (a : Q) : Q := let d := qsq a; ⟨a.re / d, -a.im / d⟩
def qdiv (a b : Q) : Q := qmul a (qinv b)
def qisZero (a : Q) : Bool := a.re == 0 && a.im == 0
def qscale (a : Q) (r : Rat) : Q := ⟨a.re * r, a.im * r⟩
/-- the library's cheap magnitude |re| + |im| -/
def qabs1 (a : Q) : Rat := rabs a.re + rabs a.im

/-- floor(sqrt(q) * 2^64) / 2^64 ≤ sqrt q, for q ≥ 0 -/
def sqrtLo (q : Rat) : Rat :=
  if q ≤ 0 then 0 else
  let a := q.num.toNat; let b := q.den
  -- sqrt(a/b) = sqrt(a*b)/b
  (Nat.sqrt (a * b * 2 ^ 128) : Rat) / ((b * 2 ^ 64 : Nat) : Rat)
def sqrtHi (q : Rat) : Rat :=
  if q ≤ 0 then 0 else
  let a := q.num.toNat; let b := q.den
  let s := Nat.sqrt (a * b * 2 ^ 128)
  ((if s * s = a * b * 2 ^ 128 then s else s + 1 : Nat) : Rat) / ((b * 2 ^ 64 : Nat) : Rat)
/-- bounds of the modulus; exact when the imaginary (or real) part vanishes -/
def qmodLo (a : Q) : Rat := if a.im == 0 then rabs a.re else if a.re == 0 then rabs a.im else sqrtLo (qsq a)
def qmodHi (a : Q) : Rat := if a.im == 0 then rabs a.re else if a.re == 0 then rabs a.im else sqrtHi (qsq a)

abbrev Mat := Array (Array Q)   -- row major: m[i][j]
def Mat.get (m : Mat) (i j : Nat) : Q := (m.getD i #[]).getD j qz
def Mat.zero (r c : Nat) : Mat := Array.replicate r (Array.replicate c qz)
def Mat.ofFn (r c : Nat) (f : Nat → Nat → Q) : Mat := (Array.range r).map fun i => (Array.range c).map fun j => f i j
def Mat.transpose (m : Mat) (r c : Nat) : Mat := Mat.ofFn c r fun i j => m.get j i
def Mat.map (m : Mat) (f : Q → Q) : Mat := Array.map (fun (row : Array Q) => Array.map f row) m
def Mat.mul (a b : Mat) (r k c : Nat) : Mat :=
  Mat.ofFn r c fun i j => (List.range k).foldl (fun acc t => qadd acc (qmul (a.get i t) (b.get t j))) qz
def Mat.mulVec (a : Mat) (x : Array Q) : Array Q :=
  Array.map (fun (row : Array Q) => (List.range row.size).foldl (fun acc t => qadd acc (qmul (row.getD t qz) (x.getD t qz))) qz) a

/-- dense matrix of a CSC (duplicates summed) -/
def Mat.ofCSC (A : CSC Q) : Mat := Id.run do
  let mut m := Mat.zero A.m A.n
  for j in [0:A.n] do
    for k in [A.colptr[j]!:A.colptr[j+1]!] do
      let i := A.rowind[k]!
      if i < A.m then
        m := m.set! i ((m.getD i #[]).set! j (qadd (m.get i j) (A.val.getD k qz)))
  return m

/-- exact inverse (Gauss-Jordan with first-nonzero pivoting); `none` if singular -/
def Mat.inverse (a : Mat) (n : Nat) : Option Mat := Id.run do
  -- augmented rows [a | I]
  let mut w : Array (Array Q) := (Array.range n).map fun i =>
    ((Array.range n).map fun j => a.get i j) ++ ((Array.range n).map fun j => if i = j then q1 else qz)
  for c in [0:n] do
    let mut p := n
    for r in [c:n] do
      if p = n && !qisZero ((w.getD r #[]).getD c qz) then p := r
    if p = n then return none
    let rp := w.getD p #[]; let rc := w.getD c #[]
    w := (w.set! p rc).set! c rp
    let piv := qinv (rp.getD c qz)
    let prow := rp.map fun v => qmul v piv
    w := w.set! c prow
    for r in [0:n] do
      if r ≠ c then
        let f := (w.getD r #[]).getD c qz
        if !qisZero f then
          let row := w.getD r #[]
          w := w.set! r ((Array.range (2 * n)).map fun t => qsub (row.getD t qz) (qmul f (prow.getD t qz)))
  return some (w.map fun row => row.extract n (2 * n))

/-- max column sum / max row sum of `mag` of the entries -/
def Mat.norm1 (m : Mat) (r c : Nat) (mag : Q → Rat) : Rat :=
  (List.range c).foldl (fun acc j => max acc ((List.range r).foldl (fun s i => s + mag (m.get i j)) 0)) 0
def Mat.normI (m : Mat) (r c : Nat) (mag : Q → Rat) : Rat :=
  (List.range r).foldl (fun acc i => max acc ((List.range c).foldl (fun s j => s + mag (m.get i j)) 0)) 0

/-- decode a protocol scalar array into complex rationals (real data: im = 0) -/
def decQ (c : Case) (name : String) : Option (Array Q) :=
  if c.isComplex then decCxRat? c name else (decRat? c name).map fun a => a.map fun x => ⟨x, 0⟩
def decR1 (c : Case) (name : String) : Option Rat := (decRat? c name).bind (·[0]?)

def epsOf (c : Case) : Rat := if c.isDouble then pow2 (-53) else pow2 (-24)
def tinyOf (c : Case) : Rat := if c.isDouble then pow2 (-1074) else pow2 (-149)

end Slu.Drv.CondUtil

namespace Slu.Drv.CondUtil
/-- the field operations of `Cx Rat`, so that the generic storage decoders (`CSC.get`,
`LUFac.decodeL/decodeU`) can be evaluated exactly -/
scoped instance : Zero Q := ⟨qz⟩
scoped instance : One Q := ⟨q1⟩
scoped instance : Add Q := ⟨qadd⟩
instance : Inhabited Q := ⟨qz⟩

/-- protocol decoder into exact complex rationals; inf/nan decode to an empty array -/
def decQraw (cplx dbl : Bool) (raw : Array UInt64) : Array Q :=
  if cplx then (cxRatsOf dbl raw).getD #[] else ((ratsOf dbl raw).map fun a => a.map fun x => (⟨x, 0⟩ : Q)).getD #[]

def realQ (r : Rat) : Q := ⟨r, 0⟩
/-- entrywise upper bound of the modulus, as a matrix -/
def Mat.absHi (m : Mat) : Mat := m.map fun z => realQ (qmodHi z)
def Mat.addM (a b : Mat) (r c : Nat) : Mat := Mat.ofFn r c fun i j => qadd (a.get i j) (b.get i j)
def Mat.subM (a b : Mat) (r c : Nat) : Mat := Mat.ofFn r c fun i j => qsub (a.get i j) (b.get i j)
def Mat.scaleM (a : Mat) (s : Rat) : Mat := a.map fun z => qscale z s
end Slu.Drv.CondUtil
