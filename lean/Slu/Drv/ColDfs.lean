import Slu.Proto
import Slu.Model.ColDfs
-- HANDLER coldfs => Slu.Drv.ColDfs.handle
/-
Driver for family `coldfs` (C02): `[sdcz]column_dfs` called directly on synthetic factorization states.

Prop  evaluated on the IMPLEMENTATION's outputs only (the reach is recomputed here by a plain worklist,
      not with the model's machine): the representatives appended to `segrep` are exactly the
      representatives reachable from the column without entering one that was visited on entry, each
      once; a successor is placed BEFORE its node (reverse = topological order); the rows appended to
      `lsub` (the list of column jcol in the output) are, without duplicates, exactly the unpivoted rows
      among the column's own rows and the pruned lists of the reached representatives; `repfnz` is set
      exactly on visited-on-entry ∪ reached and lies in the representative's supernode; return value 0.
Corr  every array the routine may write (`nseg segrep repfnz parent xplore marker lsub xlsub xsup supno
      xprune lsub_col`, and `perm_r` untouched) equals `Slu.ColDfs.columnDfs` entry by entry.
-/
namespace Slu.Drv.ColDfs
open Slu Slu.ColDfs

def firstDiffI (a b : Array Int) : Option Nat :=
  if a.size ≠ b.size then some (min a.size b.size)
  else (List.range a.size).find? fun k => a[k]! ≠ b[k]!

def cmpArr (name : String) (model impl : Array Int) : Option String :=
  match firstDiffI model impl with
  | none => none
  | some k => some s!"{name}[{k}] model={model.getD k 0} impl={impl.getD k 0} (sizes {model.size}/{impl.size})"

def bucket (n : Nat) : String := if n = 0 then "0" else if n = 1 then "1" else if n ≤ 3 then "2-3" else if n ≤ 7 then "4-7" else "8+"

/-- representatives reachable from `work` without entering (or expanding) a blocked one -/
def reach (adj : Nat → List Nat) (blocked : Nat → Bool) : Nat → List Nat → List Nat → List Nat
  | 0, _, seen => seen
  | _, [], seen => seen
  | fuel + 1, x :: work, seen =>
    if blocked x || seen.contains x then reach adj blocked fuel work seen
    else reach adj blocked fuel (adj x ++ work) (x :: seen)

def posOf (l : List Nat) (x : Nat) : Nat := (l.findIdx? (· == x)).getD l.length

def sortI (l : List Int) : List Int := (l.toArray.insertionSort (· < ·)).toList

def handleCore (requireWf : Bool) (c : Case) : Res := Id.run do
  let m := c.pInt "m"; let jcol := c.pInt "jcol"; let nseg0 := c.pInt "nseg0"
  let inp : Input :=
    { m := m, jcol := jcol, maxsuper := c.pInt "maxsuper", perm_r := c.int "in.perm_r", nseg := nseg0,
      lsubCol := c.int "in.lsub_col", segrep := c.int "in.segrep", repfnz := c.int "in.repfnz",
      xprune := c.int "in.xprune", marker := c.int "in.marker", parent := c.int "in.parent",
      xplore := c.int "in.xplore", xsup := c.int "in.xsup", supno := c.int "in.supno",
      lsub := c.int "in.lsub", xlsub := c.int "in.xlsub" }
  let e := inp.env
  let j := jcol.toNat
  let tags0 := [s!"ty={c.ty}", s!"jcol={bucket j}", s!"ns={bucket (c.pNat "ns")}", s!"mode={c.p "mode"}", s!"pv={c.p "pv"}",
                s!"closev={c.p "closev"}", s!"dup={c.p "dup"}", s!"dens={c.p "dens"}", s!"openlen={bucket (c.pNat "openlen")}",
                s!"maxsuper={c.p "maxsuper"}"]
  if requireWf && !wfIn inp then return Res.skip "generated state is outside wfIn"
  let tags0 := if requireWf then tags0 else (if wfIn inp then "wfIn=1" else "wfIn=0") :: tags0
  if c.p "moved" == "1" then return Res.corr "lsub was reallocated: the growth request fired although the capacity was sufficient" tags0
  let oSegrep := c.int "out.segrep"; let oRepfnz := c.int "out.repfnz"; let oLsub := c.int "out.lsub"
  let oXlsub := c.int "out.xlsub"; let oNseg := c.pInt "nseg"; let ret := c.pInt "ret"
  ------------------------------------------------------------------ Prop
  let rows := colRows inp.lsubCol
  let roots := (rootCols e rows).map (repN e)
  let adj := adjG e inp.lsub
  let blocked := fun (s : Nat) => rd inp.repfnz s ≠ EMPTY
  let R := reach adj blocked ((j + 1) * (inp.lsub.size + rows.length + 2)) roots []
  let newSeg := ((oSegrep.toList.drop nseg0.toNat).take (oNseg - nseg0).toNat).map Int.toNat
  let viaOther := R.any fun a => !(roots.contains a)
  let skippedVisited := R.any fun a => (adj a).any fun b => blocked b
  let appended := slice oLsub (rd oXlsub jcol) (rd oXlsub (jcol + 1))
  let expectRows := (rows ++ R.flatMap (fun (a : Nat) => adjRows e inp.lsub (a : Int))).filter (fun r => rd inp.perm_r r = EMPTY)
  let sameSnode := jcol > 0 && rd (c.int "out.supno") jcol == rd inp.supno jcol
  let compressed := rd oXlsub jcol ≠ rd inp.xlsub jcol
  let tags := tags0 ++ [if jcol = 0 then "col0" else if sameSnode then "same-snode" else "new-snode",
                        if compressed then "compressed" else "not-compressed",
                        if viaOther then "depth2" else "depth1", s!"nreach={bucket R.length}",
                        s!"appended={bucket appended.length}", if skippedVisited then "skipped-visited" else "no-visited-succ"]
  if ret ≠ 0 then return Res.propFalse s!"return value {ret} although lsub had room" tags
  if oNseg < nseg0 then return Res.propFalse s!"nseg decreased: {nseg0} -> {oNseg}" tags
  if !newSeg.eraseDups.length == newSeg.length then return Res.propFalse s!"segrep lists a representative twice: {newSeg}" tags
  if !(newSeg.all R.contains && R.all newSeg.contains) then
    return Res.propFalse s!"segrep new={newSeg} but the reachable representatives are {R}" tags
  for a in R do
    for b in adj a do
      if b ≠ a ∧ R.contains b ∧ !(posOf newSeg b < posOf newSeg a) then
        return Res.propFalse s!"not topological: {b} is a successor of {a} but is placed after it in segrep new={newSeg}" tags
  if oSegrep.toList.take nseg0.toNat ≠ inp.segrep.toList.take nseg0.toNat then
    return Res.propFalse "segrep[0..nseg0) changed" tags
  for s in List.range m.toNat do
    let set := rd oRepfnz s ≠ EMPTY
    let want := blocked s || R.contains s
    if set ≠ want then return Res.propFalse s!"repfnz[{s}]={rd oRepfnz s} but visited-or-reached={want}" tags
    if R.contains s ∧ repOf e (rd oRepfnz s) ≠ s then
      return Res.propFalse s!"repfnz[{s}]={rd oRepfnz s} is not a column of the supernode of {s}" tags
  if appended.eraseDups.length ≠ appended.length then return Res.propFalse s!"lsub of column {jcol} lists a row twice: {appended}" tags
  if sortI appended ≠ sortI expectRows.eraseDups then
    return Res.propFalse s!"lsub of column {jcol} = {appended} but the unpivoted reachable rows are {sortI expectRows.eraseDups}" tags
  ------------------------------------------------------------------ Corr
  match columnDfs inp (fuelBound inp) with
  | none => return Res.corr "model ran out of fuel" tags
  | some o =>
    if o.ret ≠ ret then return Res.corr s!"ret model={o.ret} impl={ret}" tags
    if o.nseg ≠ oNseg then return Res.corr s!"nseg model={o.nseg} impl={oNseg}" tags
    let cmps := [cmpArr "perm_r" inp.perm_r (c.int "out.perm_r"), cmpArr "lsub_col" o.lsubCol (c.int "out.lsub_col"),
                 cmpArr "segrep" o.segrep oSegrep, cmpArr "repfnz" o.repfnz oRepfnz, cmpArr "xprune" o.xprune (c.int "out.xprune"),
                 cmpArr "marker" o.marker (c.int "out.marker"), cmpArr "parent" o.parent (c.int "out.parent"),
                 cmpArr "xplore" o.xplore (c.int "out.xplore"), cmpArr "xsup" o.xsup (c.int "out.xsup"),
                 cmpArr "supno" o.supno (c.int "out.supno"), cmpArr "lsub" o.lsub oLsub, cmpArr "xlsub" o.xlsub oXlsub]
    for r in cmps do
      if let some msg := r then return Res.corr msg tags
    return Res.ok (viaOther && newSeg.length ≥ 2) tags "exact"


/-- family `coldfs`: synthetic states, which must satisfy `wfIn` -/
def handle (c : Case) : Res := handleCore true c

end Slu.Drv.ColDfs
