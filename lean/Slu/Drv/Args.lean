import Slu.Proto
import Slu.Model.ArgSpec
-- HANDLER args => Slu.Drv.Args.handle
/-
Driver for family `args` (C18).

Prop (the property's own predicate on the implementation's outputs), with `doc` = the documented
-(position of the first offending argument) computed by the hand-written `Slu.ArgSpec` from the
scalar facts of the call:
  * the returned info (for sp_gemv, which has no info argument: minus the parameter number it
    prints) equals `doc`;
  * when `doc < 0`: the routine returned normally (no ABORT), printed exactly one input_error line
    naming itself and parameter `-doc`, every caller-owned object is byte-identical to the snapshot
    taken before the call, and the allocation ledger holds no additional library-owned block;
  * when `doc = 0` (valid control): no input_error line, no ABORT.
Corr: info equals `check_<fn>` of the REGENERATED chain, and the printed number equals `errparam_<fn>`.

The one tolerated write: `[sdcz]gssvx/gsisx` store 'N' into *equed before screening when
Fact != FACTORED (equed is an output argument in that mode); counted under tag `equed-prewrite`, and a
failure with `strict_equed=1`.
-/
namespace Slu.Drv.Args
open Slu Slu.ArgChains Slu.ArgSpec

def parseArgs (s : String) : List (String × Int) :=
  (s.splitOn " ").filterMap fun t =>
    match t.splitOn "=" with
    | [k, v] => v.toInt?.map (fun i => (k, i))
    | _ => none

def fnName (routine : String) (ty : Char) : String :=
  if routine.startsWith "sp_" then "sp_" ++ ty.toString ++ (routine.drop 3).toString else ty.toString ++ routine

def lookupI (k : String) : List (String × Int) → Option Int
  | [] => none
  | (k', v) :: t => if k = k' then some v else lookupI k t

/-- name of a known deviation of the tree from the documentation (gives the finding a stable signature) -/
def devToken (routine kind : String) (info : Int) : String :=
  if (routine = "sp_trsv" ∨ routine = "sp_gemv") ∧ kind = "unscreened-tag" ∧ info = 0 then s!"DEV-{routine}-tags-unchecked"
  else "UNEXPECTED"

def siteOf (cls : String) : String := (cls.splitOn "=").head!

def handle (c : Case) : Res :=
  if c.has "skip" then Res.skip "site does not exist for this call" else
  let routine := c.p "routine"
  let ty := c.ty
  let fn := fnName routine ty
  let kv := parseArgs (c.str "args")
  let a := Args.ofFn (fun k => (lookupI k kv).getD 0)
  let kind := c.p "kind"
  let cls := c.p "class"
  let tags := [routine, s!"kind-{kind}", s!"site-{routine}-{siteOf cls}", s!"ncorr-{c.p "ncorr"}", s!"store-{c.p "store"}", s!"fact-{c.p "fact"}", s!"ty-{ty}"]
  match lookup? routine specTable, lookup? fn checkTable, lookup? fn errparamTable, lookup? fn readsTable, lookup? fn srnameTable with
  | some spec, some chk, some ep, some reads, some srname =>
    let missing := reads.filter (fun k => (lookupI k kv).isNone)
    let doc := firstViolated (spec (dtOf ty)) a
    let chain := chk a
    let nmsg := c.pInt "nmsg"
    let mparam := c.pInt "msg_param"
    let info : Int := if routine = "sp_gemv" then (if nmsg > 0 then -mparam else 0) else c.pInt "info" 99
    let aborted := c.pInt "aborted" != 0
    let changed := c.p "changed"
    let live := c.pInt "live_delta"
    let ncorr := c.pInt "ncorr"
    let pos := c.pInt "pos"
    let strictEq := c.has "strict_equed"
    let equedPrewrite := changed = "equed" ∧ a.options_Fact ≠ FACTORED ∧ c.pInt "equed_out" = 78 ∧ (routine = "gssvx" ∨ routine = "gsisx")
    let tags := tags ++ [s!"doc{doc}"] ++ (if equedPrewrite then ["equed-prewrite"] else [])
    let head := s!"{fn} {cls}" ++ (if ncorr = 2 then s!" + {c.p "class2"}" else "")
    firstFail [
      -- the oracle must agree with what the harness did (single corruption: the corrupted argument's position)
      fun _ => if ncorr = 1 ∧ kind ≠ "ncol0-tags" ∧ doc ≠ -pos then
          some (Res.corr s!"ORACLE {head}: documented spec gives {doc} but the harness corrupted argument {pos}" tags) else none,
      fun _ => if (ncorr = 0 ∨ kind = "ncol0-tags") ∧ doc ≠ 0 then
          some (Res.corr s!"ORACLE {head}: documented spec gives {doc} for a call the harness built as valid" tags) else none,
      -- Prop
      fun _ => if aborted then some (Res.propFalse s!"[ABORT] {head}: the library called ABORT (documented info {doc})" tags) else none,
      fun _ => if info ≠ doc then
          some (Res.propFalse s!"[{devToken routine kind info}] {head}: info={info} documented={doc} chain={chain}" tags) else none,
      fun _ => if doc < 0 ∧ changed ≠ "none" ∧ !(equedPrewrite ∧ !strictEq) then
          some (Res.propFalse s!"[MODIFIED] {head}: rejected with info={info} but caller objects changed: {changed}" tags) else none,
      fun _ => if doc < 0 ∧ live ≠ 0 then
          some (Res.propFalse s!"[RETAINED] {head}: rejected with info={info} but {live} library-owned block(s) retained" tags) else none,
      fun _ => if doc < 0 ∧ (nmsg ≠ 1 ∨ mparam ≠ -doc ∨ c.p "msg_fn" ≠ fn) then
          some (Res.propFalse s!"[MESSAGE] {head}: input_error lines={nmsg} routine={c.p "msg_fn"} parameter={mparam}, documented position {-doc}" tags) else none,
      fun _ => if doc = 0 ∧ nmsg ≠ 0 then
          some (Res.propFalse s!"[MESSAGE] {head}: valid call but input_error printed parameter {mparam}" tags) else none,
      -- Corr: the regenerated chain predicts the implementation
      fun _ => if !missing.isEmpty then
          some (Res.corr s!"{fn}: the regenerated chain reads {missing} which the harness does not supply" tags) else none,
      fun _ => if routine ≠ "sp_gemv" ∧ info ≠ chain then
          some (Res.corr s!"{head}: info={info} but the regenerated chain gives {chain}" tags) else none,
      fun _ => if (if nmsg > 0 then mparam else 0) ≠ (if chain ≠ 0 then ep a else 0) then
          some (Res.corr s!"{head}: input_error printed {mparam} ({nmsg} lines) but the regenerated chain gives {ep a}" tags) else none,
      fun _ => if nmsg > 0 ∧ c.p "msg_fn" ≠ srname.trimAscii.toString then
          some (Res.corr s!"{head}: input_error names {c.p "msg_fn"}, source says {srname}" tags) else none
    ] (Res.ok true tags "exact")
  | _, _, _, _, _ => Res.corr s!"no spec / generated chain for routine {routine} ({fn})" tags

end Slu.Drv.Args
