import Slu.Proto
import Slu.Model.ColBmod
-- HANDLER colbmod => Slu.Drv.ColBmod.handle
/-
Driver for family `colbmod` (C01): direct calls of `[sdcz]column_bmod` (non-vendor build).

Corr (every case): `Slu.ColBmod.colBmod` run at the case's floating type reproduces EVERY output bit
for bit (NaN canonicalised): the whole `lusup`, `dense`, `tempv` buffers, `xlusup`, the two flop
counters, return value 0; the read-only integer inputs and the `Glu` pointers did not change (`inchg`).
Exact (value class `int`, informational tag `xq`): the same model run at `Rat` / `Cx Rat` — the
arithmetic the theorems `colBmod_segment_spec`, `colBmod_spec` are stated in — on the same inputs; when it
equals the implementation's outputs read as exact rationals the case is classed `exact`
(no rounding happened anywhere), otherwise it stays `bit` (a chain of updates outgrew the mantissa; not
a failure).
-/
namespace Slu.Drv.ColBmod
open Slu Slu.MyBlas2 Slu.ColBmod

def cmpBits (what : String) (e g : Array UInt64) : Option String :=
  (firstDiff e g).map fun i => s!"{what}[{i}] model={showBits e i} impl={showBits g i}"

section run
variable (K : Type) [Inhabited K] [Zero K] [Add K] [Sub K] [Mul K]

def run (c : Case) (cplx : Bool) (dec : String → Array K) : SnodeSt K :=
  let st : SnodeSt K := { lusup := dec "lusup", xlusup := c.nat "xlusup", dense := dec "dense", tempv := dec "tempv" }
  colBmod cplx (c.ty != 'c') (c.pNat "jcol") (c.pNat "nseg") (c.pNat "fpanelc") (c.nat "segrep") (c.nat "repfnz")
    (c.nat "xsup") (c.nat "supno") (c.nat "lsub") (c.nat "xlsub") st

def corr [Wire K] (c : Case) (cplx : Bool) : Option String :=
  let o := run K c cplx (fun k => Wire.dec (c.raw k))
  if c.pNat "ret" 99 ≠ 0 then some s!"return value {c.p "ret"}" else
  if c.pNat "inchg" 99 ≠ 0 then some "a read-only input (lsub/xlsub/xsup/supno/repfnz/segrep/Glu pointers) changed" else
  if o.xlusup ≠ c.nat "xlusup.out" then some s!"xlusup model={o.xlusup} impl={c.nat "xlusup.out"}" else
  if o.opsTrsv ≠ c.pNat "opsTrsv" 99999999 then some s!"ops[TRSV] model={o.opsTrsv} impl={c.p "opsTrsv"}" else
  if o.opsGemv ≠ c.pNat "opsGemv" 99999999 then some s!"ops[GEMV] model={o.opsGemv} impl={c.p "opsGemv"}" else
  (cmpBits "lusup" (Wire.enc o.lusup) (c.raw "lusup.out")).orElse fun _ =>
  (cmpBits "dense" (Wire.enc o.dense) (c.raw "dense.out")).orElse fun _ =>
  cmpBits "tempv" (Wire.enc o.tempv) (c.raw "tempv.out")

def exactEq [BEq K] (c : Case) (cplx : Bool) (dec : String → Array K) : Bool :=
  let o := run K c cplx dec
  o.lusup == dec "lusup.out" && o.dense == dec "dense.out" && o.tempv == dec "tempv.out"
end run

def exact (c : Case) : Bool :=
  let keys := ["lusup", "lusup.out", "dense", "dense.out", "tempv", "tempv.out"]
  if c.isComplex then
    keys.all (fun k => (cxRatsOf c.isDouble (c.raw k)).isSome) &&
      exactEq (Cx Rat) c true (fun k => (cxRatsOf c.isDouble (c.raw k)).getD #[])
  else
    keys.all (fun k => (ratsOf c.isDouble (c.raw k)).isSome) &&
      exactEq Rat c false (fun k => (ratsOf c.isDouble (c.raw k)).getD #[])

def handle (c : Case) : Res :=
  let jcol := c.pNat "jcol"; let fpanelc := c.pNat "fpanelc"; let nseg := c.pNat "nseg"
  let supno := c.nat "supno"; let xsup := c.nat "xsup"
  let segs := (List.range nseg).map fun k => (c.nat "segrep")[k]!
  let live := segs.filter fun krep => supno[krep]! ≠ supno[jcol]!
  let geo := live.map fun krep => (segGeom fpanelc xsup supno (c.nat "xlsub") (c.nat "xlusup") (c.nat "repfnz") krep,
    decide (xsup[supno[krep]!]! < fpanelc))
  let cnt (p : Seg × Bool → Bool) : String := let n := (geo.filter p).length; if n ≥ 2 then "2+" else toString n
  let fsupc := xsup[supno[jcol]!]!
  let tailKind := if max fsupc fpanelc < jcol then (if fsupc < fpanelc then "partial" else "full") else "none"
  let tags := [s!"ty={c.ty}", s!"vc={c.p "vc"}", s!"nseg={if nseg ≥ 4 then "4+" else toString nseg}",
    s!"sz1={cnt fun g => g.1.segsze = 1}", s!"sz2={cnt fun g => g.1.segsze = 2}", s!"sz3={cnt fun g => g.1.segsze = 3}",
    s!"sz4-7={cnt fun g => 4 ≤ g.1.segsze ∧ g.1.segsze ≤ 7}", s!"sz8+={cnt fun g => 8 ≤ g.1.segsze}",
    s!"own={segs.length - live.length}", s!"dfsupc>0={cnt fun g => g.2}", s!"nozeros>0={cnt fun g => g.1.noZeros > 0}",
    s!"nrow0={cnt fun g => g.1.nrow = 0}", s!"tail={tailKind}", s!"shuffled={c.p "shuffled"}"]
  let r := match c.ty with
    | 'd' => corr Float c false
    | 's' => corr Float32 c false
    | 'z' => corr (Cx Float) c true
    | _ => corr (Cx Float32) c true
  match r with
  | some msg => Res.corr msg tags
  | none =>
    let ex := c.p "vc" = "int" && exact c
    let tags := if c.p "vc" = "int" then tags ++ [s!"xq={if ex then "eq" else "rounded"}"] else tags
    Res.ok (live.length ≥ 1 ∨ tailKind ≠ "none") tags (if ex then "exact" else "bit")

end Slu.Drv.ColBmod
