import Slu.Proto
import Slu.Model.Order
import Slu.Model.PostorderNR
-- HANDLER order => Slu.Drv.Order.handle
/-
Driver for family `order` (C10).
Prop: the property's clauses evaluated on the implementation's outputs only (no executable model of
the code involved, except `isPerm` and the cubic definition `etreeDef`):
  P1 the ordering returned by get_perm_c is a bijection of 0..n-1 (all five methods)
  P2 it depends only on the pattern (three value sets / arithmetic types, identical perm_c)
  P3 perm_c after sp_preorder is a bijection; A itself is untouched
  P4 the permuted-column view lists exactly A's columns: AC.col (perm_c i) = A.col i
  P5 parent index exceeds the child's (or is the root marker n)
  P6 the returned tree is the column elimination tree of the permuted matrix *by definition*
     (elimination game on the graph of (A Pc)ᵀ(A Pc); n <= cap)
  P7 unless SymmetricMode: every subtree occupies consecutive indices
  P8 the ordering handed in (MY_PERMC, or the heuristic's raw result) is respected up to a postorder
     of its own elimination tree: q = perm_c_out ∘ perm_c_in⁻¹ maps the definition tree of A·Pc_in onto
     the returned tree (SymmetricMode: q = id)
Corr: exact equality with the model: spPreorder (given the raw ordering), getata, atPlusA, coletree,
treePostorder, symetree, relaxSnode.
-/
namespace Slu.Drv.Order
open Slu Slu.Order

def cap : Nat := 40

def natsOk (a : Array Int) : Bool := a.all (· ≥ 0)

def showArr (a : Array Nat) : String := toString a.toList

/-- ancestors test in a parent array with root marker `n`: does `u` reach `v` by parent steps? -/
def reaches (n : Nat) (par : Array Nat) (u v : Nat) : Bool := Id.run do
  let mut x := u
  for _ in [0:n+1] do
    if x == v then return true
    if x ≥ n then return false
    x := par.getD x n
  return x == v

/-- every subtree occupies a block of consecutive indices ending at its root -/
def subtreesConsecutive (n : Nat) (par : Array Nat) : Option Nat :=
  (List.range n).find? fun v =>
    let ds := (List.range n).filter fun u => reaches n par u v
    !(ds == (List.range ds.length).map (· + (v + 1 - ds.length)))

def heapOrdered (n : Nat) (par : Array Nat) : Option Nat :=
  (List.range n).find? fun j => !(par.getD j 0 == n || (j < par.getD j 0 && par.getD j 0 < n))

def invPerm (n : Nat) (p : Array Nat) : Array Nat :=
  (List.range n).foldl (fun a i => a.setIfInBounds (p.getD i 0) i) (Array.replicate n 0)

def prop (c : Case) : Option String := Id.run do
  let dims := c.nat "A.dims"; let m := dims[0]!; let n := dims[1]!
  let A : Pat := { m := m, n := n, colptr := c.nat "A.colptr", rowind := c.nat "A.rowind" }
  let meth := c.p "method"
  let sym := c.pNat "sym" == 1
  -- P1
  if !natsOk (c.int "permc0") then return some s!"perm_c from {meth} has a negative entry"
  let p0 := c.nat "permc0"
  if !isPerm n p0 then return some s!"perm_c from {meth} is not a permutation: {showArr p0}"
  -- P2
  if c.int "permc0.v1" != c.int "permc0" || c.int "permc0.v2" != c.int "permc0" then
    return some s!"perm_c from {meth} depends on the values, not only on the pattern"
  if c.pNat "okperm" != 1 then return some "harness and checker disagree on permc0"
  -- P3
  if !natsOk (c.int "permc1") then return some "perm_c after sp_preorder has a negative entry"
  let p1 := c.nat "permc1"
  if !isPerm n p1 then return some s!"perm_c after sp_preorder is not a permutation: {showArr p1}"
  if c.pNat "Achanged" != 0 then return some "sp_preorder modified A"
  let hdr := c.nat "AC.hdr"
  if hdr != #[m, n, A.rowind.size, 7] then return some s!"AC header wrong: {showArr hdr}"
  -- P4
  if !natsOk (c.int "colbeg") || !natsOk (c.int "colend") then return some "negative colbeg/colend"
  let V : View := { colbeg := c.nat "colbeg", colend := c.nat "colend", rowind := A.rowind }
  if V.colbeg.size != n || V.colend.size != n then return some "colbeg/colend length"
  for i in List.range n do
    let j := p1.getD i 0
    if V.colbeg.getD j 0 > V.colend.getD j 0 || V.colend.getD j 0 > A.rowind.size then
      return some s!"view column {j} has an invalid range"
    if V.col j != A.col i then return some s!"view column {j} = perm_c[{i}] does not list column {i} of A"
  if c.p "fact" != "DOFACT" then
    -- nothing but the view is formed
    if p1 != p0 then return some "perm_c changed although Fact != DOFACT"
    if c.int "etree" != ((Array.range n).map fun i => (Int.ofNat (1000 + i))) then return some "etree changed although Fact != DOFACT"
    return none
  -- P5
  if !natsOk (c.int "etree") then return some "etree has a negative entry"
  let et := c.nat "etree"
  if et.size != n then return some "etree length"
  match heapOrdered n et with
  | some j => return some s!"etree[{j}] = {et.getD j 0} does not exceed its child (n = {n})"
  | none => pure ()
  -- P6
  if n ≤ cap then
    let d := etreeDef n V.col
    if d != et then return some s!"etree differs from the definition on the permuted matrix: def={showArr d} impl={showArr et}"
  -- P7
  if !sym then
    match subtreesConsecutive n et with
    | some v => return some s!"subtree of {v} does not occupy consecutive indices: etree={showArr et}"
    | none => pure ()
  -- P8
  if sym then
    if p1 != p0 then return some "SymmetricMode: perm_c was changed"
  else if n ≤ cap then
    let V0 := permView A p0
    let t0 := etreeDef n V0.col
    let q := (invPerm n p0).map fun i => p1.getD i 0     -- q[j] = p1[p0⁻¹ j]
    let qx (j : Nat) : Nat := if j ≥ n then n else q.getD j 0
    match (List.range n).find? fun j => et.getD (qx j) 0 != qx (t0.getD j 0) with
    | some j => return some s!"input ordering not respected up to a postorder of its own etree (vertex {j}): t0={showArr t0} q={showArr q} etree={showArr et}"
    | none => pure ()
  return none

def cmpNat (what : String) (model : Array Nat) (impl : Array Int) : Option String :=
  if model.map Int.ofNat == impl then none else some s!"{what} model={toString model.toList} impl={toString impl.toList}"

def relaxProp (n relax : Nat) (et : Array Nat) (desc : Array Nat) (rend : Array Int) : Option String := Id.run do
  -- relaxed supernodes: disjoint consecutive ranges [s, e], each a whole subtree rooted at e whose
  -- root has fewer than `relax` descendants, covering every leaf
  let mut covered : Array Bool := Array.replicate n false
  for s in List.range n do
    let e := rend.getD s (-1)
    if e == -1 then continue
    let e := e.toNat
    if e < s || e ≥ n then return some s!"relax_end[{s}] = {e} out of range"
    if desc.getD e 0 != e - s then return some s!"relaxed supernode [{s},{e}] is not the whole subtree of {e}"
    if e > s && desc.getD e 0 ≥ relax then return some s!"relaxed supernode [{s},{e}] has {desc.getD e 0} >= relax descendants"
    for k in [s:e+1] do
      if covered.getD k false then return some s!"relaxed supernodes overlap at {k}"
      covered := covered.setIfInBounds k true
  for j in List.range n do
    if desc.getD j 0 == 0 && !covered.getD j false then return some s!"leaf {j} in no relaxed supernode"
  let _ := et
  return none

def corr (c : Case) : Option String := Id.run do
  let dims := c.nat "A.dims"; let m := dims[0]!; let n := dims[1]!
  let A : Pat := { m := m, n := n, colptr := c.nat "A.colptr", rowind := c.nat "A.rowind" }
  let sym := c.pNat "sym" == 1
  let p0 := c.nat "permc0"
  if c.p "fact" == "DOFACT" then
    let o := spPreorder A p0 sym
    if let some e := cmpNat "perm_c" o.permc (c.int "permc1") then return some e
    if let some e := cmpNat "etree" o.etree (c.int "etree") then return some e
    if let some e := cmpNat "colbeg" o.colbeg (c.int "colbeg") then return some e
    if let some e := cmpNat "colend" o.colend (c.int "colend") then return some e
    let relax := c.pNat "relax"
    if c.int "relax.etree" != c.int "etree" then return some "relax_snode changed etree"
    if !sym then
      let (d, re) := relaxSnode n relax o.etree
      if let some e := cmpNat "relax.desc" d (c.int "relax.desc") then return some e
      if re != c.int "relax.end" then return some s!"relax.end model={re.toList} impl={(c.int "relax.end").toList}"
      if let some e := relaxProp n relax o.etree (c.nat "relax.desc") (c.int "relax.end") then return some ("relax_snode: " ++ e)
    else
      let (d, re) := heapRelaxSnode n relax o.etree
      if let some e := cmpNat "heap_relax.desc" d (c.int "relax.desc") then return some e
      if re != c.int "relax.end" then return some s!"heap_relax.end model={re.toList} impl={(c.int "relax.end").toList}"
  else
    let V := permView A p0
    if let some e := cmpNat "colbeg" V.colbeg (c.int "colbeg") then return some e
    if let some e := cmpNat "colend" V.colend (c.int "colend") then return some e
  -- building blocks
  let B := getata A
  if let some e := cmpNat "ata.colptr" B.colptr (c.int "ata.colptr") then return some e
  if let some e := cmpNat "ata.rowind" B.rowind (c.int "ata.rowind") then return some e
  if let some e := cmpNat "ata.nz" #[B.rowind.size] (c.int "ata.nz") then return some e
  if m == n then
    let S := atPlusA A
    if let some e := cmpNat "apa.colptr" S.colptr (c.int "apa.colptr") then return some e
    if let some e := cmpNat "apa.rowind" S.rowind (c.int "apa.rowind") then return some e
    if let some e := cmpNat "apa.nz" #[S.rowind.size] (c.int "apa.nz") then return some e
    let sp := symetree n S.col
    if let some e := cmpNat "sym.parent" sp (c.int "sym.parent") then return some e
    if n ≤ cap then
      if let some e := cmpNat "sym.parent(def)" (etreeOfGraph n (symAdj n A.col)) (c.int "sym.parent") then return some e
  let ct := coletree m n A.col
  if let some e := cmpNat "ct.parent" ct (c.int "ct.parent") then return some e
  if n ≤ cap then
    if let some e := cmpNat "ct.parent(def)" (etreeDef n A.col) (c.int "ct.parent") then return some e
  if let some e := cmpNat "ct.post" (treePostorder n ct) (c.int "ct.post") then return some e
  -- the loop form nr_etdfs as executed (Model/PostorderNR.lean; proved equal to the recursive form: treePostorderNR_eq)
  if !NR.finished n ct then return some "ct.post(loop form): nr_etdfs model did not reach an exit within 2n+3 loop heads"
  if let some e := cmpNat "ct.post(loop form)" (NR.treePostorderNR n ct) (c.int "ct.post") then return some e
  return none

def handle (c : Case) : Res :=
  let dims := c.nat "A.dims"; let m := dims[0]!; let n := dims[1]!
  let et := c.nat "etree"
  let edges := (List.range n).any fun j => et.getD j n < n
  let tags := [s!"method={c.p "method"}", s!"sym={c.p "sym"}", s!"pat={c.p "pat"}",
    (if m == n then "shape=square" else if m < n then "shape=wide" else "shape=tall"),
    s!"fact={c.p "fact"}", s!"idx={c.p "idxbytes"}",
    (if n ≤ 4 then "n=1..4" else if n ≤ 12 then "n=5..12" else if n ≤ 25 then "n=13..25" else if n ≤ 40 then "n=26..40" else if n ≤ 120 then "n=60..120(no-def)" else "n=121..300(no-def)"),
    (if c.p "shuffled" == "1" then "rows=unsorted" else "rows=sorted")]
  match prop c with
  | some msg => Res.propFalse msg tags
  | none =>
    match corr c with
    | some msg => Res.corr msg tags
    | none => Res.ok (n ≥ 3 && edges && c.p "fact" == "DOFACT") tags "exact"

end Slu.Drv.Order
