import Slu.Proto
import Slu.Model.Lacon
import Slu.Model.Cond
import Slu.Drv.CondUtil
-- HANDLER cond => Slu.Drv.Cond.handle
/-
Driver for family `cond` (C12).

Prop (exact rationals, on the implementation's outputs):
 * `info = n+1` exactly when the returned `rcond < eps` (else 0);
 * the reciprocal pivot growth equals `min_j max|A_j| / max|U_j|` over the leading `ncols` columns of
   `decodeU` (one rounding of the quotient), also for `ncols = info` of a singular factorization;
 * one-sided bound: with `A_p = Pr AA Pc` the matrix that was factored, `E = L^U^ - A_p` (exact),
   `W = |L^||U^|`, `g = 2 g_n + g_n^2` the backward error constant of the two triangular solves and
   `d = || |A_p^-1| (|E| + g W) ||`, every matrix the estimator can have applied is
   `(A_p + D)^-1, |D| <= |E| + g W`, hence
       rcond >= (1 - d) / (||A|| ||A^-1||) / (1 + a)      (checked when d < 1)
       rcond <= (1 + || |E| + g W || / ||A||) (1 + a)
   in the norm named by `normChar`, `a` = roundings of the vector sums, of `anorm` and of the two
   divisions.  `d` is proportional to the exactly known condition number, so ill-conditioned inputs
   cannot raise a false alarm.
Corr (bit): `langs` for '1','O','I','M'; `PivotGrowth` for `ncols = n | info` and for a random
`ncols`; `rcond` of `gssvx` = `gscon(normChar(storage, Trans), ..., langs(normChar, AA))`.
-/
namespace Slu.Drv.Cond
open Slu Slu.Lacon Slu.Cond Slu.Drv.CondUtil

section corr
variable (K R : Type) [Inhabited K] [Wire K] [FBits R] [Mag K R]
variable [Zero R] [One R] [Add R] [Div R] [LT R] [DecidableLT R] [BEq R]

def corr (absK : K → R) (c : Case) : Option String :=
  let n := c.pNat "n"
  let info := c.pNat "info"
  let AA : CSC K := CSC.ofCase c "AA" Wire.dec
  let F : LUFac K := LUFac.ofCase c Wire.dec
  let sml : R := FBits.ofBits ((c.raw "sml").getD 0 0)
  let cmp (what : String) (e : R) (g : Array UInt64) : Option String :=
    (firstDiff #[FBits.toBits e] g).map fun _ => s!"{what} model={showBits #[FBits.toBits e] 0} impl={showBits g 0}"
  let ncols := if 1 ≤ info ∧ info ≤ n then info else n
  (cmp s!"rpg(ncols={ncols})" (pivotGrowth ncols AA (c.nat "perm_c") F sml) (c.raw "rpg")).orElse fun _ =>
  (cmp s!"rpg(ncols={c.pNat "pgk"})" (pivotGrowth (c.pNat "pgk") AA (c.nat "perm_c") F sml) (c.raw "rpgk")).orElse fun _ =>
  let lg (ch : Char) (key : String) : Option String :=
    match langs absK ch AA with
    | some v => cmp s!"langs({ch})" v (c.raw key)
    | none => some s!"langs({ch}) model aborts"
  (lg '1' "anorm1").orElse fun _ => (lg 'O' "anormO").orElse fun _ => (lg 'I' "anormI").orElse fun _ => (lg 'M' "amax").orElse fun _ =>
  if 1 ≤ info ∧ info ≤ n then none else
  -- norm selection glue: gssvx's rcond is gscon's for the norm named by (storage, Trans)
  let ch := normChar (c.p "storage" == "NR") (Trans.ofString (c.p "trans"))
  let sel := if ch = '1' then c.raw "rc1" else c.raw "rcI"
  (firstDiff sel (c.raw "rcond")).map fun _ =>
    s!"rcond of gssvx {showBits (c.raw "rcond") 0} is not gscon('{ch}') = {showBits sel 0} (gscon('1') = {showBits (c.raw "rc1") 0}, gscon('I') = {showBits (c.raw "rcI") 0})"
end corr

/-- exact growth factor from the decoded factors: `min(1/sml, min_{j<ncols} max|A_j| / max_i |U_ij|)` -/
def growthSpec (ncols : Nat) (AA : CSC Q) (perm_c : Array Nat) (F : LUFac Q) (sml : Rat) : Rat :=
  let n := AA.n
  (List.range (min ncols n)).foldl (fun rpg j =>
    let old := ((List.range n).find? fun t => perm_c.getD t n == j).getD 0
    let maxaj := (AA.col old).foldl (fun m e => max m (qabs1 e.2)) 0
    let maxuj := (List.range (j + 1)).foldl (fun m i => max m (qabs1 (decodeUg F i j))) 0
    if maxuj = 0 then min rpg 1 else min rpg (maxaj / maxuj)) (1 / sml)

structure Bounds where
  delta : Rat
  lower : Rat     -- rcond must be >= lower (when delta < 1)
  upper : Rat     -- rcond must be <= upper
  rtrue : Rat

/-- the two one-sided bounds in the 1-norm (`one = true`) or the infinity norm -/
def bounds (one : Bool) (n : Nat) (Ap D : Mat) (Ainv : Option Mat) (alpha : Rat) : Bounds :=
  let nrm (m : Mat) (mag : Q → Rat) : Rat := if one then m.norm1 n n mag else m.normI n n mag
  let nAhi := nrm Ap qmodHi
  let nAlo := nrm Ap qmodLo
  let upper := if nAlo = 0 then 1 + alpha else (1 + nrm D qmodHi / nAlo) * (1 + alpha)
  match Ainv with
  | none => { delta := 1, lower := 0, upper := upper, rtrue := 0 }
  | some Ai =>
    let nAi := nrm Ai qmodHi
    let delta := nrm (Mat.mul Ai.absHi D n n n) qmodHi
    let rtrue := if nAhi * nAi = 0 then 0 else 1 / (nAhi * nAi)
    { delta := delta, lower := if delta < 1 then rtrue * (1 - delta) / (1 + alpha) else 0, upper := upper, rtrue := rtrue }

def prop (c : Case) : Option String × List String := Id.run do
  let n := c.pNat "n"
  let info := c.pNat "info"
  let dbl := c.isDouble; let cplx := c.isComplex
  let eps := epsOf c
  let AA : CSC Q := CSC.ofCase c "AA" (decQraw cplx dbl)
  let F : LUFac Q := LUFac.ofCase c (decQraw cplx dbl)
  if AA.val.size ≠ (c.raw "AA.val").size / (if cplx then 2 else 1) then return (some "AA not finite", [])
  if F.L.lusup.size ≠ (c.raw "L.lusup").size / (if cplx then 2 else 1) ∨ F.U.val.size ≠ (c.raw "U.val").size / (if cplx then 2 else 1) then
    return (some "factors contain non-finite values", ["nonfinite-factors"])
  let some sml := decR1 c "sml" | return (some "sml", [])
  let perm_c := c.nat "perm_c"; let perm_r := c.nat "perm_r"
  let singular := 1 ≤ info ∧ info ≤ n
  -- growth factor
  let chk (ncols : Nat) (key : String) : Option String :=
    match decR1 c key with
    | none => some s!"{key} is not finite"
    | some rpg =>
      let want := growthSpec ncols AA perm_c F sml
      -- real: one rounding (the quotient); complex: |re|+|im| rounds once in each maximum
      if rabs (rpg - want) > (if cplx then 5 else 2) * eps * want then
        let empty := (List.range (min ncols n)).find? fun j => F.L.nsupr j = 0
        some (s!"reciprocal pivot growth over {ncols} columns is not min_j max|A_j|/max|U_j| of the returned factors" ++
          (match empty with | some j => s!" (column {j}: its supernode stores no rows)" | none => ""))
      else none
  if let some m := chk (if singular then info else n) "rpg" then return (some m, [])
  if let some m := chk (c.pNat "pgk") "rpgk" then return (some m, [])
  if singular then return (none, ["singular"])
  -- warning clause
  let some rcond := decR1 c "rcond" | return (some "rcond is not finite", [])
  let some epsLib := decR1 c "eps" | return (some "eps", [])
  -- machine epsilon is the relative machine precision of the arithmetic at hand (2^-53 / 2^-24: what [sd]mach("E")
  -- is documented to return), not whatever the library's own constant routine says
  let epsM : Rat := if c.isDouble then 1 / (2 : Rat) ^ 53 else 1 / (2 : Rat) ^ 24
  if epsLib ≠ epsM then return (some s!"mach('E') returns {epsLib}, the relative machine precision is {epsM}", [])
  if info ≠ warnInfo rcond epsM n then return (some s!"info = {info} but rcond {if rcond < epsM then "<" else ">="} eps", [])
  if rcond < 0 then return (some "rcond negative", [])
  -- one-sided bounds
  let A : Mat := Mat.ofCSC AA
  let Ap : Mat := Id.run do
    let mut m := Mat.zero n n
    for i in [0:n] do
      for j in [0:n] do
        let pi := perm_r.getD i 0; let pj := perm_c.getD j 0
        m := m.set! pi ((m.getD pi #[]).set! pj (A.get i j))
    return m
  let Lh : Mat := Mat.ofFn n n fun i j => F.decodeL i j
  let Uh : Mat := Mat.ofFn n n fun i j => decodeUg F i j
  let M := Mat.mul Lh Uh n n n
  let E := Mat.subM M Ap n n
  let W := Mat.mul Lh.absHi Uh.absHi n n n
  let u : Rat := if cplx then 8 * eps else eps
  let gn : Rat := n * u / (1 - n * u)
  let g := 2 * gn + gn * gn
  let D := Mat.addM E.absHi (W.scaleM g) n n
  let alpha : Rat := (4 * n + 20) * u
  let Ainv := Ap.inverse n
  let b1 := bounds true n Ap D Ainv alpha
  let bI := bounds false n Ap D Ainv alpha
  let one := normChar (c.p "storage" == "NR") (Trans.ofString (c.p "trans")) = '1'
  let bsel := if one then b1 else bI
  let tags := [if bsel.delta < 1 / 2 then "bound=active" else "bound=vacuous", if Ainv.isNone then "exact-singular" else "invertible",
    if bsel.rtrue < epsM then "rtrue<eps" else if bsel.rtrue < 1 / 1000 then "rtrue<1e-3" else "rtrue>=1e-3"]
  let test (what : String) (b : Bounds) (rc : Rat) : Option String :=
    if rc < b.lower then some s!"{what} underestimates the true reciprocal condition number beyond rounding: rcond/true = {(rc / b.rtrue * 1000).floor}/1000, allowed loss {(b.delta * 1000).ceil}/1000"
    else if rc > b.upper then some s!"{what} exceeds one beyond rounding: (rcond-1)/eps = {((rc - 1) / eps).floor}, allowed {((b.upper - 1) / eps).ceil}"
    else none
  if let some m := test s!"rcond (norm {if one then "1" else "I"} selected by storage/Trans)" bsel rcond then return (some m, tags)
  let some rc1 := decR1 c "rc1" | return (some "gscon('1') not finite", tags)
  let some rcI := decR1 c "rcI" | return (some "gscon('I') not finite", tags)
  if let some m := test "gscon('1')" b1 rc1 then return (some m, tags)
  if let some m := test "gscon('I')" bI rcI then return (some m, tags)
  -- NORM = 'O' is the documented other name of the one norm
  if (c.raw "rcO").size > 0 then
    let some rcO := decR1 c "rcO" | return (some "gscon('O') not finite", tags)
    if let some m := test "gscon('O')" b1 rcO then return (some m, tags)
    if c.raw "rcO" != c.raw "rc1" ∧ c.raw "anormO" == c.raw "anorm1" then
      return (some "gscon('O') and gscon('1') return different values for the same factors and the same norm of A", tags)
  return (none, tags)

def handle (c : Case) : Res :=
  let n := c.pNat "n"
  let info := c.pInt "info"
  let tags0 := [s!"ty={c.ty}", s!"kind={c.p "kind"}", s!"storage={c.p "storage"}", s!"trans={c.p "trans"}", s!"equed={c.p "equed"}",
    s!"info={if info = 0 then "0" else if info = n + 1 then "n+1" else if info > 0 ∧ info ≤ n then "singular" else "other"}"]
  if info < 0 ∨ info > n + 1 then Res.skip s!"info={info}" else
  let (pr, tags1) := prop c
  let tags := tags0 ++ tags1
  match pr with
  | some msg => Res.propFalse msg tags
  | none =>
    let r := match c.ty with
      | 'd' => corr Float Float Float.abs c
      | 's' => corr Float32 Float32 Float32.abs c
      | 'z' => corr (Cx Float) Float zabsD c
      | _ => corr (Cx Float32) Float32 zabsS c
    match r with
    | some msg => Res.corr msg tags
    | none =>
      let sing := tags1.contains "singular"
      Res.ok (n ≥ 2 && (tags1.contains "bound=active" || (sing && info ≥ 2))) tags
        (if sing then "bit" else if tags1.contains "bound=active" then "robust" else "tolerance")

end Slu.Drv.Cond
