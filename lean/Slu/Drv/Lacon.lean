import Slu.Proto
import Slu.Model.Lacon
import Slu.Drv.CondUtil
-- HANDLER lacon => Slu.Drv.Lacon.handle
/-
Driver for family `lacon` (C12).  Corr: every call of `[sdcz]lacon2_` recorded by the harness is
replayed by `Lacon.step` at the case's arithmetic type from the *implementation's* previous state
and the vector the caller handed back; kase, isave, est, x, v, isgn must agree bit for bit.
Prop (faithful operator only): the returned estimate is non-negative and does not exceed the exact
1-norm of the operator by more than the rounding of forming `T x` and summing it, and the machine
stops within `maxCalls` calls.
-/
namespace Slu.Drv.Lacon
open Slu Slu.Lacon Slu.Drv.CondUtil

section corr
variable (K R : Type) [Wire K] [FBits R] [LT R] [DecidableLT R] [LE R] [DecidableLE R]

def stateAt (c : Case) (k : Nat) (x : Array K) : St K R :=
  let st := c.nat s!"st{k}"
  { kase := st.getD 0 0, jump := st.getD 1 0, j := st.getD 2 0, iter := st.getD 3 0,
    est := FBits.ofBits ((c.raw s!"est{k}").getD 0 0), x := x,
    v := Wire.dec (c.raw s!"v{k}"), isgn := c.int s!"isgn{k}" }

def corr (P : Prim K R) (c : Case) : Option String :=
  let ncalls := c.pNat "ncalls"
  (List.range ncalls).findSome? fun t =>
    let k := t + 1
    let s : St K R := stateAt K R c t (Wire.dec (c.raw s!"xin{k}"))
    let o := step P s
    let st := c.nat s!"st{k}"
    let cmp (what : String) (e g : Array UInt64) : Option String :=
      (firstDiff e g).map fun i => s!"call {k} (jump {s.jump}): {what}[{i}] model={showBits e i} impl={showBits g i}"
    if #[o.kase, o.jump, o.j, o.iter] != st then
      some s!"call {k} (jump {s.jump}): kase/isave model={#[o.kase, o.jump, o.j, o.iter]} impl={st}"
    else
    (cmp "est" #[FBits.toBits o.est] (c.raw s!"est{k}")).orElse fun _ =>
    (cmp "x" (Wire.enc o.x) (c.raw s!"x{k}")).orElse fun _ =>
    (cmp "v" (Wire.enc o.v) (c.raw s!"v{k}")).orElse fun _ =>
    if o.isgn != c.int s!"isgn{k}" then some s!"call {k} (jump {s.jump}): isgn model={o.isgn} impl={c.int s!"isgn{k}"}"
    else none
end corr

def prop (c : Case) : Option String := Id.run do
  let n := c.pNat "n"
  let ncalls := c.pNat "ncalls"
  if ncalls > maxCalls then return some s!"{ncalls} calls, more than {maxCalls}"
  if (c.nat s!"st{ncalls}").getD 0 9 ≠ 0 then return some "the machine did not stop (kase != 0 after the last call)"
  let some est := decR1 c s!"est{ncalls}" | return some "final estimate is not finite"
  if est < 0 then return some "negative estimate"
  if c.pNat "faithful" = 0 then return none
  let some t := decQ c "T" | return some "operator not finite"
  let T : Mat := Mat.ofFn n n fun i j => t.getD (i + j * n) qz
  let N := T.norm1 n n qmodHi
  let eps := epsOf c
  let bound := N * (1 + (4 * n + 16) * eps) + (2 * n * n + 4 * n + 4) * tinyOf c
  if est > bound then return some s!"estimate exceeds the 1-norm of the operator: est/norm - 1 = {((est / N - 1) / eps).floor} eps"
  return none

def handle (c : Case) : Res :=
  let n := c.pNat "n"
  let ncalls := c.pNat "ncalls"
  let altwin := (c.raw s!"est{ncalls}") != (c.raw s!"est{ncalls - 1}") && ncalls ≥ 4
  let tags := [s!"ty={c.ty}", s!"n={if n ≤ 2 then toString n else if n < 6 then "3-5" else if n < 12 then "6-11" else "12+"}",
    s!"mode={c.p "mode"}", s!"faithful={c.p "faithful"}", s!"calls={ncalls}", s!"altwin={if altwin then 1 else 0}"]
  match prop c with
  | some msg => Res.propFalse msg tags
  | none =>
    let safD : Float := Float.ofBits ((c.raw "safmin").getD 0 0)
    let safS : Float32 := Float32.ofBits ((c.raw "safmin").getD 0 0).toUInt32
    let r := match c.ty with
      | 'd' => corr Float Float primD c
      | 's' => corr Float32 Float32 primS c
      | 'z' => corr (Cx Float) Float (primZ safD) c
      | _ => corr (Cx Float32) Float32 (primC safS) c
    match r with
    | some msg => Res.corr msg tags
    | none => Res.ok (n ≥ 2 && ncalls ≥ 4) tags "bit"

end Slu.Drv.Lacon
