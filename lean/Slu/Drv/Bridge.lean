import Slu.Proto
import Slu.Scalar
import Slu.Model.Bridge
-- HANDLER bridge => Slu.Drv.Bridge.handle
/-
Driver for family `bridge` (C20).

Prop (on the implementation's outputs): every solve through a handle leaves B bit-identical to what the
C simple driver `[sdcz]gssv` computed for the same matrix and right-hand sides in the same process
(padding rows included), with info = 0; after every factor request the caller's 1-based `colptr`,
`rowind` and `values` are byte-equal to what was passed; handles that are live at the same time are
distinct; after the last free no library-owned block is left allocated.

Corr: the history is replayed through the model `Slu.Bridge.run`, with the numerics parameter `N`
instantiated by the direct `gssv` results of this very case (factor ↦ gssv's info, solve ↦ gssv's B);
the model's outputs (handle numbering, info, arrays, B, ok/err) and its ledger size after every
operation (16 blocks per live handle) must equal the implementation's.
-/
namespace Slu.Drv.Bridge
open Slu Slu.Bridge

/-- right-hand side as seen by the model: (nrhs, ldb, bit patterns incl. padding rows) -/
abbrev BT := Nat × Nat × Array UInt64

structure OpRec where
  t : Nat
  kind : String      -- factor | solve | free | skip
  k : Nat
  nrhs : Nat := 0
  ldb : Nat := 0
deriving Inhabited

def parseOps (c : Case) : List OpRec :=
  (List.range (c.pNat "nops")).map fun t =>
    match ((c.p s!"op{t}").splitOn " ").filter (· ≠ "") with
    | [kind, k] => { t := t, kind := kind, k := k.toNat?.getD 0 }
    | [kind, k, nrhs, ldb] => { t := t, kind := kind, k := k.toNat?.getD 0, nrhs := nrhs.toNat?.getD 0, ldb := ldb.toNat?.getD 0 }
    | _ => { t := t, kind := "bad", k := 0 }

def fmat (c : Case) (k : Nat) : FMat Nat :=
  { n := c.pNat s!"M{k}.n", colptr := c.int s!"M{k}.colptr", rowind := c.int s!"M{k}.rowind", values := k }

structure Verdict where
  prop : Option String := none
  corr : Option String := none
  tags : List String := []
  nontrivial : Bool := false

def run' (c : Case) : Verdict := Id.run do
  let ops := parseOps c
  let nh := c.pNat "nh"
  let live0 := c.pInt "live_start"
  let nsolve := (ops.filter (·.kind == "solve")).length
  let anySing := ops.any fun o => o.kind == "factor" && c.pInt s!"info{o.t}" ≠ 0
  -- interleaving: some handle is used while another one, created later, is live
  let tags := [s!"ty={c.ty}", s!"nh={nh}", s!"solves={nsolve}", s!"nops={ops.length}"] ++
    (if anySing then ["singular-factor"] else []) ++ (if c.p "exh" == "1" then ["exhaustive-short-history"] else []) ++
    (if ops.any (fun o => o.kind == "solve" && o.nrhs == 0) then ["nrhs0"] else []) ++
    (if ops.any (fun o => o.kind == "solve" && o.ldb > c.pNat s!"M{o.k}.n") then ["ldb>n"] else [])
  if ops.any (·.kind == "bad") then return { prop := some "unparsable op line", tags := tags }
  -- ---------------- Prop
  let mut liveH : List (Nat × String) := []    -- matrix index ↦ handle value (hex) of live handles
  let mut maxLive := 0
  for o in ops do
    let t := o.t
    if o.kind == "factor" then
      if c.int s!"cpA{t}" ≠ c.int s!"M{o.k}.colptr" then
        return { prop := some s!"op {t} factor: the caller's colptr changed", tags := tags }
      if c.int s!"riA{t}" ≠ c.int s!"M{o.k}.rowind" then
        return { prop := some s!"op {t} factor: the caller's rowind changed", tags := tags }
      if (firstDiff (c.raw s!"vaA{t}") (c.raw s!"M{o.k}.val")).isSome then
        return { prop := some s!"op {t} factor: the caller's values changed", tags := tags }
      let hv := c.p s!"handle{t}"
      if hv == "0" ∨ hv == "" then return { prop := some s!"op {t} factor: no handle returned", tags := tags }
      if liveH.any (fun p => p.2 == hv) then
        return { prop := some s!"op {t} factor: handle {hv} equals a handle that is still live", tags := tags }
      liveH := (o.k, hv) :: liveH
      if liveH.length > maxLive then maxLive := liveH.length
    else if o.kind == "solve" then
      if c.pInt s!"ginfo{t}" 99 ≠ 0 then return { corr := some s!"op {t}: direct gssv failed with info {c.p s!"ginfo{t}"} on a matrix the bridge factored", tags := tags }
      if c.pInt s!"info{t}" 99 ≠ 0 then return { prop := some s!"op {t} solve: bridge info = {c.p s!"info{t}"}", tags := tags }
      match firstDiff (c.raw s!"Bb{t}") (c.raw s!"Bg{t}") with
      | some i =>
        return { prop := some s!"op {t} solve (handle of matrix {o.k}, nrhs={o.nrhs}, ldb={o.ldb}): B differs from gssv's at position {i}: bridge {showBits (c.raw s!"Bb{t}") i} gssv {showBits (c.raw s!"Bg{t}") i}", tags := tags }
      | none => pure ()
      -- rows n+1..ldb of the caller's array are not part of the right-hand sides: they must come back untouched
      let nM := c.pNat s!"M{o.k}.n"; let w := if c.isComplex then 2 else 1
      let bin := c.raw s!"Bin{t}"; let bb := c.raw s!"Bb{t}"
      for j in List.range o.nrhs do
        for i in List.range (o.ldb - nM) do
          for q in List.range w do
            let idx := (j * o.ldb + nM + i) * w + q
            if bin.getD idx 0 ≠ bb.getD idx 0 then
              return { prop := some s!"op {t} solve (nrhs={o.nrhs}, ldb={o.ldb}, n={nM}): padding row {nM + i + 1} of column {j + 1} of the caller's array was overwritten", tags := tags }
      -- the solution is the one the C driver returns for the same matrix and right-hand sides held compactly (ldb = n)
      let bc := c.raw s!"Bc{t}"
      if bc.size == o.nrhs * nM * w then
        for j in List.range o.nrhs do
          for i in List.range (nM * w) do
            if bc.getD (j * nM * w + i) 0 ≠ bb.getD (j * o.ldb * w + i) 0 then
              return { prop := some s!"op {t} solve (nrhs={o.nrhs}, ldb={o.ldb}, n={nM}): column {j + 1} differs from what gssv returns for the same right-hand sides stored with ldb = n", tags := tags }
    else if o.kind == "free" then
      liveH := liveH.filter (fun p => p.1 != o.k)
  if c.pInt "live_end" ≠ live0 then
    return { prop := some s!"after the last free {c.pInt "live_end" - live0} library-owned block(s) are still allocated", tags := tags }
  let tags := s!"maxlive={maxLive}" :: tags
  -- ---------------- Corr: replay through the model
  let ginfoOf (k : Nat) : Int :=
    match ops.find? (fun o => o.kind == "factor" && o.k == k) with
    | some o => c.pInt s!"ginfo{o.t}" 99
    | none => 99
  let solveTable : List ((Nat × BT) × Array UInt64) :=
    (ops.filter (·.kind == "solve")).map fun o => ((o.k, (o.nrhs, o.ldb, c.raw s!"Bin{o.t}")), c.raw s!"Bg{o.t}")
  let N : Num Nat Nat BT :=
    { factor := fun A => (A.values, ginfoOf A.values),
      solve := fun f b => match solveTable.find? (fun e => e.1 == (f, b)) with
        | some e => (b.1, b.2.1, e.2)
        | none => (b.1, b.2.1, #[]) }
  -- handle numbering of the model: k-th factor request gets handle k
  -- (a matrix may be factored again after its handle was freed: the handle in force at operation t is the one of the
  -- latest factor request for that matrix at or before t)
  let factorOps : List OpRec := ops.filter (·.kind == "factor")
  let hAt (k t : Nat) : Nat :=
    ((List.range factorOps.length).filter fun i => (factorOps[i]!).k == k && (factorOps[i]!).t ≤ t).getLastD 0
  let real := ops.filter (·.kind != "skip")
  let mops : List (Op Nat BT) := real.map fun o =>
    if o.kind == "factor" then Op.factor (fmat c o.k)
    else if o.kind == "solve" then Op.solve (hAt o.k o.t) (o.nrhs, o.ldb, c.raw s!"Bin{o.t}")
    else Op.free (hAt o.k o.t)
  -- step by step, to compare the ledger after every operation
  let mut st : St Nat := init
  for (o, mop) in real.zip mops do
    let t := o.t
    let (st', out) := step N st mop
    st := st'
    match out with
    | .factored h info A' =>
      if h ≠ hAt o.k o.t then return { corr := some s!"op {t}: model handle {h} vs sequence number {hAt o.k o.t}", tags := tags }
      if info ≠ c.pInt s!"info{t}" 99 then return { corr := some s!"op {t} factor: bridge info {c.p s!"info{t}"} but gssv reports {info} for the same matrix", tags := tags }
      if A'.colptr ≠ c.int s!"cpA{t}" ∨ A'.rowind ≠ c.int s!"riA{t}" then return { corr := some s!"op {t} factor: arrays differ from the model's", tags := tags }
    | .solved b =>
      if (firstDiff b.2.2 (c.raw s!"Bb{t}")).isSome then return { corr := some s!"op {t} solve: model B differs from the bridge's", tags := tags }
    | .freed => if o.kind != "free" then return { corr := some s!"op {t}: model freed", tags := tags }
    | .err => return { corr := some s!"op {t} {o.kind}: the model rejects the request (outside the protocol) but the bridge performed it", tags := tags }
    if (st.ledger.length : Int) + live0 ≠ c.pInt s!"live{t}" (-1) then
      return { corr := some s!"op {t} {o.kind}: {c.pInt s!"live{t}" (-1) - live0} library blocks live, the model's ledger holds {st.ledger.length}", tags := tags }
  if ¬ st.live.isEmpty ∨ ¬ st.ledger.isEmpty then return { corr := some "model: handles left live at the end of the history", tags := tags }
  let nontrivial := ops.any fun o => o.kind == "solve" && o.nrhs ≥ 1 && c.pNat s!"M{o.k}.n" ≥ 2
  return { tags := tags, nontrivial := nontrivial }

def handle (c : Case) : Res :=
  let v := run' c
  match v.prop with
  | some msg => Res.propFalse msg v.tags
  | none =>
    match v.corr with
    | some msg => Res.corr msg v.tags
    | none => Res.ok v.nontrivial v.tags "bit"

end Slu.Drv.Bridge
