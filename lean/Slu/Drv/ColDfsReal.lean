import Slu.Proto
import Slu.Model.ColDfs
import Slu.Drv.ColDfs
-- HANDLER coldfsreal => Slu.Drv.ColDfsReal.handle
/-
Driver for family `coldfsreal` (C02): one call of `[sdcz]column_dfs` captured INSIDE a real factorization through hook H3
(arguments snapshotted right before and right after the call), in the protocol of family `coldfs`.

  * `wfIn` - the hypothesis of `colDfs_eq_recursive` / `colDfs_segrep_topo` / `colDfs_lsub_nodup` - must hold on the state
    the factorization handed to the routine (a state outside it is a correspondence failure: the theorems would not apply
    to what `gstrf` does);
  * then everything family `coldfs` checks: the property predicate on the implementation's outputs and the exact
    comparison of all twelve arrays with the array-level model.
A call during which `lsub` was reallocated is outside the model (the growth request is C07/C08's) and only counted.
-/
namespace Slu.Drv.ColDfsReal
open Slu Slu.ColDfs

/-- which conjunct of `wfIn` fails (for the message only) -/
def wfWhy (i : Input) : String :=
  let e := i.env
  let nextl0 := rd i.xlsub i.jcol
  if !(decide (0 ≤ i.jcol) && decide (i.jcol < i.m)) then "jcol range" else
  if !(decide ((i.perm_r.size : Int) = i.m) && decide ((i.marker.size : Int) = 3 * i.m)) then "sizes" else
  if !(decide (i.jcol ≤ i.repfnz.size) && decide (i.jcol ≤ i.parent.size) && decide (i.jcol ≤ i.xplore.size)) then "sizes2" else
  if !(decide (0 ≤ i.nseg) && decide (i.jcol ≤ i.segrep.size)) then
    s!"segrep capacity: nseg={i.nseg} jcol={i.jcol} |segrep|={i.segrep.size}" else
  if !(decide (slice i.segrep 0 i.nseg).Nodup && (slice i.segrep 0 i.nseg).all (fun v => 0 ≤ v && v < i.jcol)) then
    s!"segrep entries: segrep[0..nseg)={slice i.segrep 0 i.nseg} are not distinct columns below jcol={i.jcol}" else
  if !((slice i.segrep 0 i.nseg).all (fun v => rd i.repfnz v ≠ EMPTY ||
     (colRows i.lsubCol).all fun row => rd i.perm_r row = EMPTY || v < repOf e (rd i.perm_r row))) then
    s!"segrep unreached: an entry of segrep[0..nseg)={slice i.segrep 0 i.nseg} with repfnz = EMPTY is not below the representative of a pivoted nonzero: rows={colRows i.lsubCol} perm_r={i.perm_r.toList} xsup={i.xsup.toList} supno={i.supno.toList} repfnz={i.repfnz.toList}" else
  if !(decide (0 ≤ nextl0) && decide (nextl0 + (unpivoted i.m i.perm_r).length ≤ i.lsub.size)) then
    s!"lsub capacity: nextl={nextl0} unpivoted={(unpivoted i.m i.perm_r).length} |lsub|={i.lsub.size}" else
  if !(allBelow i.m (fun r => rd i.perm_r r = EMPTY || (0 ≤ rd i.perm_r r && rd i.perm_r r < i.jcol))) then "perm_r range" else
  if !(allBelow i.m (fun r => mk2 e i.st0 r ≠ i.jcol)) then "a row already carries the mark jcol" else
  if !(allBelow i.jcol (fun k => (k : Int) ≤ repOf e k && repOf e k < i.jcol && repOf e (repOf e k) = repOf e k)) then "representatives" else
  if !(allBelow i.jcol (fun s => repOf e s ≠ s ||
    (0 ≤ rd i.xlsub s && rd i.xlsub s ≤ rd i.xprune s && rd i.xprune s ≤ nextl0 &&
     (adjRows e i.lsub s).all fun row => 0 ≤ row && row < i.m && (rd i.perm_r row = EMPTY || (s : Int) ≤ rd i.perm_r row || repOf e (rd i.perm_r row) = s)))) then
    let bad := (List.range i.jcol.toNat).filter (fun (s : Nat) => repOf e s = s && !(0 ≤ rd i.xlsub s && rd i.xlsub s ≤ rd i.xprune s && rd i.xprune s ≤ nextl0 &&
      (adjRows e i.lsub s).all fun row => 0 ≤ row && row < i.m && (rd i.perm_r row = EMPTY || (s : Int) ≤ rd i.perm_r row || repOf e (rd i.perm_r row) = s)))
    let s0 := bad.headD 0
    s!"pruned lists: s={s0} xsup={i.xsup.toList} supno={i.supno.toList} xlsub[s]={rd i.xlsub s0} xprune[s]={rd i.xprune s0} nextl0={nextl0} rows={adjRows e i.lsub s0} perm_r={i.perm_r.toList}" else
  if !((colRows i.lsubCol).all (fun row => 0 ≤ row && row < i.m)) then "column rows" else "?"

def handle (c : Case) : Res :=
  let tags := [s!"ty={c.ty}", s!"colperm={c.p "colperm"}", s!"symm={c.p "symm"}", s!"panel={c.p "panel"}", s!"relax={c.p "relax"}"]
  if c.p "have" ≠ "2" then Res.skip s!"no column_dfs call captured (calls={c.p "calls"}, info={c.p "info"})" else
  if c.p "moved" == "1" then Res.ok false ("lsub-grew" :: tags) "exact" else
  let inp : Input :=
    { m := c.pInt "m", jcol := c.pInt "jcol", maxsuper := c.pInt "maxsuper", perm_r := c.int "in.perm_r", nseg := c.pInt "nseg0",
      lsubCol := c.int "in.lsub_col", segrep := c.int "in.segrep", repfnz := c.int "in.repfnz",
      xprune := c.int "in.xprune", marker := c.int "in.marker", parent := c.int "in.parent",
      xplore := c.int "in.xplore", xsup := c.int "in.xsup", supno := c.int "in.supno",
      lsub := c.int "in.lsub", xlsub := c.int "in.xlsub" }
  -- a state outside `wfIn` is not a failure of the code: the predicate is the HYPOTHESIS of the search theorems, and the
  -- captured states show where it is stronger than what `gstrf` guarantees (tag wfIn=0 with the clause); the comparison
  -- with the array-level model and the property predicate are evaluated on every captured state all the same
  let r := Slu.Drv.ColDfs.handleCore false c
  { r with tags := r.tags ++ tags ++ (if wfIn inp then [] else [s!"outside={(wfWhy inp).takeWhile (· ≠ ':')}"]) }

end Slu.Drv.ColDfsReal
