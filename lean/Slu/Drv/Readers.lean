import Slu.Proto
import Slu.Scalar
import Slu.Model.Readers
-- HANDLER readers => Slu.Drv.Readers.handle
-- HANDLER readers_bad => Slu.Drv.Readers.handleBad
-- HANDLER readers_fmt => Slu.Drv.Readers.handleFmt
/-
Driver for the families `readers` / `readers_bad` (C16).

Prop (the property's own predicate, on the implementation's outputs and the harness's *intended*
matrix — the file text is not consulted): the reader returned normally; dimensions equal; the
column pointers are a well-formed compressed-column structure with `colptr[n] = nnz`; the returned
entries are exactly the intended entries of the FULL matrix (0-based, symmetric files expanded,
entries with equal position in file order); every returned value is the floating-point number
nearest to the decimal printed (double), resp. within one ulp of it (single, whose fixed-format
readers go through a double).

Corr: the Lean model (`Slu.Readers.readHB/readRB/readMM/readTriple`) reads the very same bytes;
its dimensions, pointers and indices must equal the implementation's *in storage order*, and its
exact rational values, correctly rounded (`roundBits`; through a double first where the C code
does), must equal the returned bit patterns.  For Harwell-Boeing / Rutherford-Boeing files the value
block is read a second time by the statement-level model of `[sdcz]ReadValues`
(`Slu.Readers.Values.readValues` / `readValuesCx` through `readHBRBLoops`: line by line, field cut,
D -> E, pair toggle carried across lines) and compared the same way (messages `values: ...`).
-/
namespace Slu.Drv.Readers
open Slu Slu.Readers

/-! ### correctly rounded conversion Rat -> IEEE bits (round to nearest, ties to even) -/

/-- largest `e` with `2^e ≤ a` for a positive rational -/
def floorLog2 (a : Rat) : Int :=
  let e0 : Int := (Nat.log2 a.num.natAbs : Int) - (Nat.log2 a.den : Int)
  -- e0 is within 1 of the answer
  let e1 := if pow2 e0 > a then e0 - 1 else e0
  if pow2 (e1 + 1) ≤ a then e1 + 1 else e1

/-- bit pattern (without sign handling of NaN) of the float with `p` stored mantissa bits and
`eb` exponent bits nearest to `q` -/
def roundBits (p eb : Nat) (q : Rat) : Nat :=
  let signBit : Nat := if q < 0 then 2 ^ (p + eb) else 0
  let a := if q < 0 then -q else q
  if a == 0 then signBit else
  let bias : Int := (2 ^ (eb - 1) - 1 : Nat)
  let emin : Int := 1 - bias
  let e := floorLog2 a
  let E := if e < emin then emin else e
  let k : Rat := a / pow2 (E - (p : Int))
  let fl : Int := k.floor
  let r : Rat := k - (fl : Rat)
  let N : Int := if r > 1/2 then fl + 1 else if r < 1/2 then fl else (if fl % 2 = 0 then fl else fl + 1)
  let bits : Int := (E + bias - 1) * (2 ^ p : Nat) + N
  let inf : Int := ((2 ^ eb - 1) * 2 ^ p : Nat)
  signBit + (if bits ≥ inf then inf else bits).toNat

def roundF64 (q : Rat) : UInt64 := UInt64.ofNat (roundBits 52 11 q)
def roundF32 (q : Rat) : UInt64 := UInt64.ofNat (roundBits 23 8 q)

/-- neighbours `(below, x, above)` of a finite float, as rationals (infinity counted as `2^emax+1`) -/
def neighbours (dbl : Bool) (b : UInt64) : Option (Rat × Rat × Rat) :=
  let p := if dbl then 52 else 23
  let eb := if dbl then 11 else 8
  let n := b.toNat % 2 ^ (p + eb + 1)
  let neg := n / 2 ^ (p + eb) = 1
  let k := n % 2 ^ (p + eb)
  let infk := (2 ^ eb - 1) * 2 ^ p
  if k ≥ infk then none else
  let magVal (k : Nat) : Rat :=
    if k ≥ infk then pow2 ((2 ^ (eb - 1) : Nat) : Int)
    else ((if dbl then f64ToRat? (UInt64.ofNat k) else f32ToRat? (UInt64.ofNat k)).getD 0)
  let x := magVal k
  let up := magVal (k + 1)
  let down := if k = 0 then -(magVal 1) else magVal (k - 1)
  if neg then some (-up, -x, -down) else some (down, x, up)

/-- `x` is a floating-point number nearest to `d` -/
def isNearest (dbl : Bool) (d : Rat) (b : UInt64) : Bool :=
  match neighbours dbl b with
  | some (lo, x, hi) => lo + x ≤ 2 * d && 2 * d ≤ x + hi
  | none => false
/-- `|x - d| < 1 ulp`: `d` lies strictly between the neighbours of `x` -/
def within1 (dbl : Bool) (d : Rat) (b : UInt64) : Bool :=
  match neighbours dbl b with
  | some (lo, _, hi) => lo < d && d < hi
  | none => false

/-! ### decoding the case -/

structure Ent where
  row : Int
  col : Int
  vals : List Rat
deriving Inhabited

def textOf (c : Case) : List Char := (c.int "text").toList.map fun b => Char.ofNat b.toNat

def intended (c : Case) : List Ent :=
  let vpe := if c.isComplex then 2 else 1
  let rows := c.int "M.row"; let cols := c.int "M.col"; let ms := c.int "M.mant"; let es := c.int "M.exp"
  (List.range rows.size).map fun k =>
    { row := rows[k]!, col := cols[k]!, vals := (List.range vpe).map fun t => (ms[vpe*k+t]! : Rat) * pow10 es[vpe*k+t]! }

/-- stable insertion sort of entries by (col, row): equal positions keep their order -/
def sortEnts (l : List Ent) : List Ent :=
  (l.toArray.insertionSort (fun a b => a.col < b.col || (a.col == b.col && a.row < b.row))).toList

def fmtTag (c : Case) : String := c.p "fmt"

def tagsOf (c : Case) : List String :=
  let fmt := fmtTag c
  [s!"ty={c.ty}", s!"fmt={fmt}", s!"sym={c.p "sym"}/{c.p "diag"}", s!"vstyle={c.p "vstyle"}", s!"status={c.p "status"}"] ++
  (if fmt == "hb" || fmt == "rb" then [s!"pform={(c.p "pform").replace "," ";"}", s!"letter={c.p "letter"}", s!"rhs={c.p "rhs"}", s!"tight={c.p "tight"}"]
   else [s!"base={c.p "base"}", s!"order={c.p "order"}", s!"dups={if c.pNat "dups" > 0 then 1 else 0}"]) ++
  (if c.p "hdr" == "compat" then ["hdr=compat"] else []) ++ (if c.pNat "longtok" > 0 then ["longtok=1"] else [])

/-- short description of the encoding for failure messages (stable: no case-specific numbers) -/
def encOf (c : Case) : String :=
  let fmt := fmtTag c
  let cx := if c.isComplex then "complex" else "real"
  if fmt == "hb" || fmt == "rb" then s!"fmt={fmt} {cx} pform={c.p "pform"} letter={c.p "letter"} sym={c.p "sym"}/{c.p "diag"}"
  else s!"fmt={fmt} {cx} sym={c.p "sym"}/{c.p "diag"} longtok={c.p "longtok"} hdr={c.p "hdr"}"

def runModel (c : Case) : Except String Result :=
  let t := textOf c
  let cx := c.isComplex
  match fmtTag c with
  | "hb" => readHB cx t
  | "rb" => readRB cx t
  | "mm" => readMM cx t (if c.p "hdr" == "compat" then "real" else if cx then "complex" else "real")
  | _ => readTriple cx t

/-! ### Prop -/

def prop (c : Case) : Option String := Id.run do
  let st := c.p "status"
  if st ≠ "ok" then
    let fmt := fmtTag c
    let what := if st == "memerr" then s!"memory error: {c.str "diag"}"
      else if st == "hang" then "the reader does not terminate"
      else if st.startsWith "exit" then s!"the reader refuses the file ({st})"
      else if st == "abort" then s!"the reader aborts: {c.str "diag"}"
      else s!"the reader failed ({st})"
    -- the head of the message names the trait of the file that (by the model) is legal, so that equal
    -- defects share one signature; details follow
    let trait :=
      if (fmt == "hb" || fmt == "rb") && st == "hang" && c.p "pform" == "sP," then
        "fixed-format value descriptor with a comma after the scale factor, as in (1P,3E10.3)"
      else if fmt == "mm" && c.isComplex && st.startsWith "exit" && c.p "hdr" == "std" then
        "complex Matrix Market file (header 'complex')"
      else if fmt == "mm" && st == "memerr" && c.pNat "longtok" > 0 then
        "Matrix Market comment line with a token of 64 or more characters"
      else if fmt == "mm" && c.p "hdr" == "compat" then
        "complex Matrix Market data under the header 'real' (what the pinned [cz]readMM accept)"
      else if c.p "sym" == "1" && c.p "diag" ≠ "all" && (st == "memerr" || st == "abort") then
        "symmetric file without all diagonal entries"
      else "well-formed file"
    return some s!"{trait}: {what} [{encOf c} valfmt={c.p "valfmt"}]"
  let dbl := c.isDouble
  let vpe := if c.isComplex then 2 else 1
  let md := c.int "M.dims"; let rd := c.int "R.dims"
  if rd[0]! ≠ md[0]! ∨ rd[1]! ≠ md[1]! then return some s!"dimensions {rd[0]!}x{rd[1]!} returned, file says {md[0]!}x{md[1]!}"
  let n := md[1]!.toNat; let m := md[0]!
  let cp := c.int "R.colptr"; let ri := c.int "R.rowind"; let rv := c.raw "R.val"
  let nnz := rd[2]!
  if nnz ≠ md[2]! then return some s!"nnz {nnz} returned, the full matrix has {md[2]!} entries ({encOf c})"
  if cp.size ≠ n + 1 then return some "colptr length"
  if cp[0]! ≠ 0 then return some "colptr[0] is not 0"
  if cp[n]! ≠ nnz then return some s!"colptr[n] = {cp[n]!} differs from nnz = {nnz}"
  for j in List.range n do
    if cp[j]! > cp[j+1]! then return some s!"colptr not monotone at column {j}"
  if ri.size ≠ nnz.toNat ∨ rv.size ≠ vpe * nnz.toNat then return some "array lengths"
  for k in List.range ri.size do
    if ri[k]! < 0 ∨ ri[k]! ≥ m then return some s!"row index {ri[k]!} out of range at position {k}"
  -- returned entries (column-major) against the intended ones, both stably sorted by position
  let got : List (Int × Int × Nat) := (List.range n).flatMap fun j =>
    (List.range (cp[j+1]! - cp[j]!).toNat).map fun d => let k := cp[j]!.toNat + d; (ri[k]!, (j : Int), k)
  let gotS := (got.toArray.insertionSort (fun a b => a.2.1 < b.2.1 || (a.2.1 == b.2.1 && a.1 < b.1))).toList
  let want := sortEnts (intended c)
  for (g, w) in gotS.zip want do
    if g.1 ≠ w.row ∨ g.2.1 ≠ w.col then
      return some s!"pattern differs: returned entry ({g.1},{g.2.1}) where the file has ({w.row},{w.col}) ({encOf c})"
    for t in List.range vpe do
      let b := rv[vpe * g.2.2 + t]!
      let d := w.vals[t]!
      let good := if dbl then isNearest true d b else within1 false d b
      if !good then
        let fixedFmt := fmtTag c == "hb" || fmtTag c == "rb"
        let trait := if fixedFmt && c.p "vstyle" == "fixed" && c.p "pform" ≠ "none" then "F-edited fields under a scale factor sP: "
          else if c.p "expstyle" == "3" then "exponent printed without its letter (Fortran output of 3-digit exponents): " else ""
        return some s!"{trait}value of entry ({w.row},{w.col}) part {t} is not the printed decimal to working precision: bits {hexOfNat b.toNat (if dbl then 16 else 8)} ({encOf c})"
  return none

/-! ### Corr -/

/-- exact rational values of a model run against the returned bit patterns (`pre` prefixes the message) -/
def valuesDiffer (c : Case) (pre : String) (vals : Array Rat) : Option String := Id.run do
  let dbl := c.isDouble
  let fmt := fmtTag c
  let rv := c.raw "R.val"
  if vals.size ≠ rv.size then return some s!"{pre}value count model={vals.size} impl={rv.size}"
  -- fixed-format single-precision readers: atof (double) then a cast; free-format: scanf("%f")
  let viaDouble := !dbl && (fmt == "hb" || fmt == "rb")
  for k in List.range rv.size do
    let q := vals[k]!
    let e : UInt64 :=
      if dbl then roundF64 q
      else if viaDouble then roundF32 ((f64ToRat? (roundF64 q)).getD 0)
      else roundF32 q
    -- a printed "-0.0" reads as the negative zero; a rational has no sign of zero
    let signMask : UInt64 := if dbl then 0x7fffffffffffffff else 0x7fffffff
    let same := e == rv[k]! || (q == 0 && (rv[k]! &&& signMask) == 0)
    if !same then
      return some s!"{pre}value[{k}] model={hexOfNat e.toNat (if dbl then 16 else 8)} impl={hexOfNat rv[k]!.toNat (if dbl then 16 else 8)}"
  return none

def corr (c : Case) : Option String := Id.run do
  let fmt := fmtTag c
  match runModel c with
  | .error e => return some s!"the model rejects a generated file: {e} ({encOf c})"
  | .ok r =>
    let rd := c.int "R.dims"
    if r.m ≠ rd[0]! ∨ r.n ≠ rd[1]! ∨ r.nnz ≠ rd[2]! then
      return some s!"dims/nnz model=({r.m},{r.n},{r.nnz}) impl=({rd[0]!},{rd[1]!},{rd[2]!})"
    let cp := c.int "R.colptr"; let ri := c.int "R.rowind"
    if r.colptr ≠ cp then
      let i := ((List.range cp.size).find? fun i => r.colptr.getD i (-99) ≠ cp[i]!).getD 0
      return some s!"colptr[{i}] model={r.colptr.getD i (-99)} impl={cp.getD i (-99)}"
    if r.rowind ≠ ri then
      let i := ((List.range ri.size).find? fun i => r.rowind.getD i (-99) ≠ ri[i]!).getD 0
      return some s!"rowind[{i}] model={r.rowind.getD i (-99)} impl={ri.getD i (-99)} (storage order)"
    if let some msg := valuesDiffer c "" r.vals then return some msg
    -- the value block once more, through the statement-level loops of `[sdcz]ReadValues`
    -- (`Values.readValues` / `Values.readValuesCx`: the objects of `read_print_values*`)
    if fmt == "hb" || fmt == "rb" then
      match readHBRBLoops (fmt == "rb") c.isComplex (textOf c) with
      | .error e => return some s!"values: the loop model of ReadValues fails on a generated file: {e} ({encOf c})"
      | .ok r2 =>
        if r2.colptr ≠ cp ∨ r2.rowind ≠ ri then return some s!"values: structure differs after the loop model ({encOf c})"
        if let some msg := valuesDiffer c "values: " r2.vals then return some s!"{msg} ({encOf c})"
    return none

def handle (c : Case) : Res :=
  let tags := tagsOf c
  match prop c with
  | some msg =>
    -- a failure of the reader on a file the model cannot read either is the generator's fault
    if c.p "status" ≠ "ok" then
      match runModel c with
      | .error e => Res.corr s!"the model rejects a generated file: {e} ({encOf c}); reader status {c.p "status"}" tags
      | .ok _ => Res.propFalse msg tags
    else Res.propFalse msg tags
  | none =>
    match corr c with
    | some msg => Res.corr msg tags
    | none =>
      let nnz := (c.int "R.dims")[2]!
      { Res.ok (nnz ≥ 2) tags "exact" with }

/-- malformed stream: anything but a memory error is acceptable -/
def handleBad (c : Case) : Res :=
  let st := c.p "status"
  let cls := if st == "ok" then "returned" else if st.startsWith "exit" then "exit" else st
  let tags := [s!"ty={c.ty}", s!"fmt={c.p "fmt"}", s!"mut={c.p "mut"}", s!"outcome={cls}"]
  if st == "memerr" then
    Res.propFalse s!"malformed file ({c.p "mut"}, fmt={c.p "fmt"}): memory error: {c.str "diag"}" tags
  else if st.startsWith "signal" then
    Res.propFalse s!"malformed file ({c.p "mut"}, fmt={c.p "fmt"}): killed by {st}" tags
  else { Res.ok true tags "robust" with }

/-- descriptor grammar: Prop = the parser returned the count and width written in the descriptor;
Corr = the model's parsers return the same on the same buffer (field + stale tail) -/
def handleFmt (c : Case) : Res :=
  let chars (k : String) (n : Nat) : List Char := ((c.int k).toList.take n).map fun b => Char.ofNat b.toNat
  let want := c.int "want"; let got := c.int "got"
  let pv := c.p "pv"
  let tags := [s!"ty={c.ty}", s!"letter={c.p "letter"}", s!"pv={pv.replace "," ";"}"]
  let shown := String.ofList ((chars "fbuf" 20).filter (· ≠ ' '))
  if got[0]! ≠ want[0]! ∨ got[1]! ≠ want[1]! then
    Res.propFalse s!"integer descriptor {String.ofList (chars "ibuf" 16)} parsed as count {got[0]!} width {got[1]!}" tags
  else if got[2]! ≠ want[2]! ∨ got[3]! ≠ want[3]! then
    let trait := if pv.contains ',' then "fixed-format value descriptor with a comma after the scale factor, as in (1P,3E10.3): " else ""
    Res.propFalse s!"{trait}descriptor {shown} parsed as count {got[2]!} width {got[3]!}" tags
  else
    -- the C parsers see the whole 100-byte buffer; so does the model
    match parseIntFormat (chars "ibuf" 99), parseFloatFormat (chars "fbuf" 99) with
    | some (k, w), some ff =>
      if (k : Int) ≠ got[0]! ∨ (w : Int) ≠ got[1]! then Res.corr s!"integer descriptor: model ({k},{w}) impl ({got[0]!},{got[1]!})" tags
      else if (ff.count : Int) ≠ got[2]! ∨ (ff.width : Int) ≠ got[3]! then Res.corr s!"descriptor {shown}: model ({ff.count},{ff.width}) impl ({got[2]!},{got[3]!})" tags
      else { Res.ok true tags "exact" with }
    | _, _ => Res.corr s!"the model rejects descriptor {shown}" tags

end Slu.Drv.Readers
