import Slu.Proto
import Slu.Model.Refine
import Slu.Drv.CondUtil
-- HANDLER refine => Slu.Drv.Refine.handle
/-
Driver for family `refine` (C13).

Prop (exact rationals, on the implementation's outputs), refinement on: for every right-hand side
the reported BERR is the componentwise relative backward error
    omega = max_i |b - op(A) x|_i / (|op(A)||x| + |b|)_i        (|.| = |re| + |im| for complex)
of the *returned* X with respect to the system that was factored (`AA` after equilibration, the
scaled B, `x = X / C` resp. `X / R` when the driver unscaled X), up to the rounding of one residual
evaluation: `|BERR - omega| <= c (n + 8) eps (1 + omega)` (+ the safe1 safeguard for denominators
below safe2); rows with a zero denominator have a zero residual; FERR finite and >= 0;
`0 <= RefineSteps <= 5`.  Refinement off: BERR = FERR = 1 exactly and X is bit-for-bit the separately
computed `gstrs` solution, unscaled by the model's glue.
Corr (bit, direct calls): `Refine.berrX` evaluated at the case's arithmetic type on the returned X
equals BERR bit for bit; the first stopping decision replayed from the X that entered the routine;
B is not modified.
-/
namespace Slu.Drv.Refine
open Slu Slu.Lacon Slu.Refine Slu.Drv.CondUtil

def colOf {α : Type} (a : Array α) (ld n j : Nat) : Array α := a.extract (j * ld) (j * ld + n)

/-- the transpose argument `gsrfs` was called with -/
def opTrans (c : Case) : Trans :=
  if c.p "via" == "direct" then Trans.ofString (c.p "trans")
  else (effTrans (c.p "storage" == "NR") (Trans.ofString (c.p "trans"))).1

/-- which equilibration factor the driver multiplies X by after the solve (dgssvx.c:627-639) -/
def unscaleBy (c : Case) : Option String :=
  if c.p "via" == "direct" then none else
  let notran := (effTrans (c.p "storage" == "NR") (Trans.ofString (c.p "trans"))).2
  let e := c.p "equed"
  if notran then (if e == "C" || e == "B" then some "C" else none)
  else (if e == "R" || e == "B" then some "R" else none)

section corr
variable (K R : Type) [Inhabited K] [Wire K] [FBits R]
variable [Zero R] [Add R] [Mul R] [Div R] [LT R] [DecidableLT R] [LE R] [DecidableLE R] [BEq R] [OfNat R 2] [OfNat R 3]

def corr (Ar : Arith K R) (c : Case) : Option String :=
  let n := c.pNat "n"; let nrhs := c.pNat "nrhs"; let ldb := c.pNat "ldb"; let ldx := c.pNat "ldx"
  let AA : CSC K := CSC.ofCase c "AA" Wire.dec
  let B : Array K := Wire.dec (c.raw "B"); let X : Array K := Wire.dec (c.raw "X")
  let eps : R := FBits.ofBits ((c.raw "eps").getD 0 0); let sml : R := FBits.ofBits ((c.raw "sml").getD 0 0)
  let tr := opTrans c
  if c.p "via" == "direct" then
    let Xin : Array K := Wire.dec (c.raw "Xin")
    if (firstDiff (c.raw "B") (c.raw "Bafter")).isSome then some "gsrfs modified B" else
    (List.range nrhs).findSome? fun j =>
      let b := colOf B ldb n j
      let be := berrX Ar tr AA sml eps b (colOf X ldx n j)
      let got := (c.raw "berr").getD j 0
      if canonNaN (FBits.toBits be) != canonNaN got then
        some s!"berr[{j}] recomputed from the returned X: model={hexOfNat (FBits.toBits be).toNat 16} impl={hexOfNat got.toNat 16}"
      else
        -- first stopping decision, from the X that entered the routine (lstres = 3, count = 0)
        let be0 := berrX Ar tr AA sml eps b (colOf Xin ldx n j)
        let go := continue? be0 eps (3 : R) 0
        let same := (firstDiff (Wire.enc (colOf Xin ldx n j)) (Wire.enc (colOf X ldx n j))).isNone
        if !go && !same then some s!"rhs {j}: X was changed although the stopping rule holds for the incoming X"
        else if !go && canonNaN (FBits.toBits be0) != canonNaN got then some s!"rhs {j}: no step taken but berr is not that of the incoming X"
        else if j + 1 == nrhs && go && c.pInt "steps" == 0 then some s!"rhs {j}: the stopping rule asks for a step but RefineSteps = 0"
        else if j + 1 == nrhs && !go && c.pInt "steps" != 0 then some s!"rhs {j}: the stopping rule forbids a step but RefineSteps = {c.pInt "steps"}"
        else none
  else none
end corr

/-- exact componentwise backward error of `x` for `op(A) x = b`; also reports whether a row has a
zero denominator with a nonzero residual, and the safeguarded variants -/
structure Omega where
  lo : Rat
  hi : Rat
  slack : Rat
  badZeroRow : Bool

def omega (tr : Trans) (A : Mat) (n : Nat) (x b : Array Q) (safe1 safe2 eps tiny : Rat) (cmul : Rat) : Omega := Id.run do
  let opA (i k : Nat) : Q := match tr with
    | .N => A.get i k
    | .T => A.get k i
    | .C => qconj (A.get k i)
  let mut lo : Rat := 0; let mut hi : Rat := 0; let mut slack : Rat := 0; let mut bad := false
  for i in [0:n] do
    let ax := (List.range n).foldl (fun acc k => qadd acc (qmul (opA i k) (x.getD k qz))) qz
    let r := qabs1 (qsub (b.getD i qz) ax)
    let den := (List.range n).foldl (fun acc k => acc + qabs1 (opA i k) * qabs1 (x.getD k qz)) (qabs1 (b.getD i qz))
    if den = 0 then
      if r ≠ 0 then bad := true
    else
      let plain := r / den
      let safeg := (r + safe1) / den
      let (l, h) := if den > 2 * safe2 then (plain, plain) else if 2 * den < safe2 then (safeg, safeg) else (plain, safeg)
      lo := max lo l; hi := max hi h
      -- relative error of numerator and denominator: roundings, plus underflow (absolute `tiny` per operation)
      slack := max slack ((cmul * (n + 8) * eps + cmul * (n + 2) * tiny / den) * (1 + h))
  return { lo := lo, hi := hi, slack := slack, badZeroRow := bad }

def prop (c : Case) : Option String × List String := Id.run do
  let n := c.pNat "n"; let nrhs := c.pNat "nrhs"; let ldb := c.pNat "ldb"; let ldx := c.pNat "ldx"
  let dbl := c.isDouble; let cplx := c.isComplex
  let eps := epsOf c
  let refineOn := c.pNat "refine" = 1
  let some berr := decRat? c "berr" | return (some "BERR is not finite", [])
  let some ferr := decRat? c "ferr" | return (some "FERR is not finite", [])
  if berr.size ≠ nrhs ∨ ferr.size ≠ nrhs then return (some "berr/ferr length", [])
  let steps := c.pInt "steps"
  if !refineOn then
    -- refinement disabled: both exactly one, X is the unrefined solution
    for j in [0:nrhs] do
      if berr[j]! ≠ 1 ∨ ferr[j]! ≠ 1 then return (some s!"refinement off but berr[{j}], ferr[{j}] are not exactly 1", [])
    let dec (k : String) : Array UInt64 := c.raw k
    let w := if cplx then 2 else 1
    let sc : Option (Array UInt64) := (unscaleBy c).map fun k => c.raw k
    -- unscale the separately solved X with the model's glue, at the case's arithmetic type
    let mulBits (xb sb : UInt64) : UInt64 :=
      if dbl then (Float.ofBits xb * Float.ofBits sb).toBits
      else ((Float32.ofBits xb.toUInt32) * (Float32.ofBits sb.toUInt32)).toBits.toUInt64
    for j in [0:nrhs] do
      for i in [0:n] do
        for t in [0:w] do
          let p := (j * ldx + i) * w + t
          let want := match sc with
            | some s => mulBits ((dec "Xsep").getD p 0) (s.getD i 0)
            | none => (dec "Xsep").getD p 0
          if canonNaN want != canonNaN ((dec "X").getD p 0) then
            return (some s!"refinement off but X[{i},{j}] is not the gstrs solution{if sc.isSome then " times the equilibration factor" else ""}", [])
    if steps ≠ 0 then return (some s!"refinement off but RefineSteps = {steps}", [])
    return (none, ["norefine"])
  if steps < 0 ∨ steps > 5 then return (some s!"RefineSteps = {steps} outside 0..5", [])
  for j in [0:nrhs] do
    if ferr[j]! < 0 then return (some s!"ferr[{j}] negative", [])
    if berr[j]! < 0 then return (some s!"berr[{j}] negative", [])
  let AAq : CSC Q := CSC.ofCase c "AA" (decQraw cplx dbl)
  if AAq.val.size ≠ (c.raw "AA.val").size / (if cplx then 2 else 1) then return (some "AA not finite", [])
  let A := Mat.ofCSC AAq
  let some B := decQ c "B" | return (some "B not finite", [])
  let some X := decQ c "X" | return (some "the returned X is not finite", [])
  let some sml := decR1 c "sml" | return (some "sml", [])
  let some epsM := decR1 c "eps" | return (some "eps", [])
  let safe1 : Rat := (n + 1) * sml
  let safe2 := safe1 / epsM
  let sc : Option (Array Rat) := (unscaleBy c).bind fun k => decRat? c k
  let tr := opTrans c
  let mut tags : List String := []
  let mut worst : Rat := 0
  for j in [0:nrhs] do
    let b := colOf B ldb n j
    let x0 := colOf X ldx n j
    let x := match sc with
      | some s => (Array.range n).map fun i => qscale (x0.getD i qz) (1 / s.getD i 1)
      | none => x0
    let om := omega tr A n x b safe1 safe2 eps (tinyOf c) (if cplx then 4 else 1)
    if om.badZeroRow then return (some s!"rhs {j}: a row with zero |op(A)||x|+|b| has a nonzero residual", tags)
    if berr[j]! < om.lo - om.slack ∨ berr[j]! > om.hi + om.slack then
      return (some s!"berr[{j}] is not the componentwise backward error of the returned X: (berr - omega)/eps = {((berr[j]! - om.lo) / eps).floor}, allowed {(om.slack / eps).ceil}; omega/eps = {(om.lo / eps).floor}", tags)
    worst := max worst om.hi
  tags := [if worst = 0 then "omega=0" else if worst ≤ epsM then "omega<=eps" else if worst < 1 / 1000 then "omega<1e-3" else "omega>=1e-3"]
  return (none, tags)

def handle (c : Case) : Res :=
  let n := c.pNat "n"
  let info := c.pInt "info"
  let tags0 := [s!"ty={c.ty}", s!"via={c.p "via"}", s!"kind={c.p "kind"}", s!"storage={c.p "storage"}", s!"trans={c.p "trans"}",
    s!"equed={c.p "equed"}", s!"refine={c.p "refine"}", s!"tiny={c.p "tiny"}", s!"spoil={c.p "spoil"}"]
  if info ≠ 0 then Res.skip s!"info={info}" else
  -- overflow is outside the property's numeric scope: skip solutions in the upper half of the exponent range
  let huge : Rat := if c.isDouble then pow2 500 else pow2 60
  let xs := (decQ c "X").getD #[]
  let n' := c.pNat "n"; let ldx := c.pNat "ldx"
  if (List.range (c.pNat "nrhs")).any (fun j => (colOf xs ldx n' j).any fun z => qabs1 z > huge) then Res.skip "solution in the overflow range" else
  let (pr, tags1) := prop c
  let tags := tags0 ++ tags1 ++ [s!"steps={c.p "steps"}"]
  match pr with
  | some msg => Res.propFalse msg tags
  | none =>
    let r := match c.ty with
      | 'd' => corr Float Float arithD c
      | 's' => corr Float32 Float32 arithS c
      | 'z' => corr (Cx Float) Float arithZ c
      | _ => corr (Cx Float32) Float32 arithC c
    match r with
    | some msg => Res.corr msg tags
    | none => Res.ok (n ≥ 2) tags (if c.p "via" == "direct" || c.pNat "refine" = 0 then "bit" else "tolerance")

end Slu.Drv.Refine
