import Slu.Proto
import Slu.Model.Kernels
-- HANDLER kernels => Slu.Drv.Kernels.handle
/-
Driver for family `kernels` (C14).

Prop (on the implementation's outputs, exact rational arithmetic):
  * only the output vector was written (harness byte snapshots of L, U, A, x, b, perms; padding and
    stride gaps of the output compared bit for bit here);
  * no documented flag spelling of the products is rejected;
  * sp_trsv : op(T) x = b for T = decodeL / decodeU with the DOCUMENTED meaning of diag —
    exactly on cases certified rounding-free, within the componentwise backward-error bound
    otherwise;
  * sp_gemv / sp_gemm : y' = alpha op(A) x + beta y (exact / bound);
  * gstrs : op(Pr' L U Pc') X = B (exact / bound), every column bit-identical to the same column
    solved alone with ldb = n, padding untouched.
Corr:
  * sp_gemv / sp_gemm : the model run at the case's floating type reproduces y bit for bit;
  * sp_trsv / gstrs : `spTrsv`/`gstrsCol` in exact arithmetic equal the implementation's result on
    certified cases, and `spTrsv = trsvRef` (the dense reference the theorems are about) always.
-/
namespace Slu.Drv.Kernels
open Slu Slu.Kernels

/-! ### dyadic bookkeeping for the rounding-free certificate (DESIGN 3.3) -/

def tz (n : Nat) : Nat := Id.run do
  if n = 0 then return 0
  let mut k := 0
  let mut m := n
  for _ in [0:n.log2 + 1] do
    if m % 2 = 0 then
      m := m / 2
      k := k + 1
  return k

/-- 2-adic valuation of a nonzero dyadic rational -/
def val2 (r : Rat) : Int := (tz r.num.natAbs : Int) - (tz r.den : Int)
def isPow2 (r : Rat) : Bool := r ≠ 0 && rabs r == pow2 (val2 r)

/-- every partial sum (any order, any association) of these real terms is representable with `P`
significand bits -/
def certTerms (P : Nat) (terms : List Rat) : Bool :=
  let nz := terms.filter (· ≠ 0)
  match nz with
  | [] => true
  | t :: _ =>
    let q := nz.foldl (fun q t => min q (val2 t)) (val2 t)
    let s := nz.foldl (fun s t => s + rabs t) 0
    decide (s < pow2 (q + P)) && decide (q ≥ -100) && decide (s < pow2 100)

/-- what the driver needs from a scalar type besides the model's operator classes -/
structure Ops (K : Type) where
  dec : Bool → Array UInt64 → Option (Array K)
  /-- non-finite entries read as 0 (for vectors that need not be set on entry) -/
  decLoose : Bool → Array UInt64 → Array K
  mag : K → Rat            -- |re| + |im|
  cmax : K → Rat           -- max(|re|, |im|)
  parts : K → List Rat
  prods : K → K → List Rat -- the real products formed by a*b
  pureP2 : K → Bool        -- ±2^e, pure real or pure imaginary
  cplx : Bool

def looseRats (dbl : Bool) (a : Array UInt64) : Array Rat :=
  a.map fun b => ((if dbl then f64ToRat? b else f32ToRat? b).getD 0)

def opsR : Ops Rat :=
  { dec := ratsOf, decLoose := looseRats, mag := rabs, cmax := rabs, parts := fun x => [x],
    prods := fun a b => [a * b], pureP2 := isPow2, cplx := false }
def opsC : Ops (Cx Rat) :=
  { dec := cxRatsOf,
    decLoose := fun dbl a => let xs := looseRats dbl a; (Array.range (xs.size / 2)).map fun k => ⟨xs[2*k]!, xs[2*k+1]!⟩,
    mag := fun z => rabs z.re + rabs z.im, cmax := fun z => max (rabs z.re) (rabs z.im),
    parts := fun z => [z.re, z.im],
    prods := fun a b => [a.re * b.re, a.im * b.im, a.im * b.re, a.re * b.im],
    pureP2 := fun z => (z.im == 0 && isPow2 z.re) || (z.re == 0 && isPow2 z.im), cplx := true }

def gamma (k : Nat) (dbl : Bool) : Rat :=
  let eps : Rat := if dbl then pow2 (-53) else pow2 (-24)
  (k : Rat) * eps / (1 - (k : Rat) * eps)

def sumL (l : List Rat) : Rat := l.foldl (· + ·) 0

/-- absolute slack for gradual underflow: `k` operations, each off by at most one least subnormal
(relative bounds are meaningless below the normal range) -/
def uflow (k : Nat) (dbl : Bool) : Rat := (k : Rat) * (if dbl then pow2 (-1074) else pow2 (-149))

section generic
variable {K : Type} [Inhabited K] [Zero K] [One K] [Add K] [Sub K] [Mul K] [Div K] [Conj K] [BEq K]

/-- dense n x n table of a matrix function -/
def tabulate (n : Nat) (M : Nat → Nat → K) : Array (Array K) :=
  (Array.range n).map fun i => (Array.range n).map fun j => M i j
def at2 (M : Array (Array K)) (i j : Nat) : K := (M.getD i #[]).getD j default

/-- rounding-free certificate of one substitution `M x = b` (x the exact solution) -/
def certSolve (o : Ops K) (P n : Nat) (M : Array (Array K)) (unit : Bool) (x b : Array K) : Bool :=
  (List.range n).all fun i =>
    (unit || o.pureP2 (at2 M i i)) &&
    certTerms P (o.parts (b.getD i default) ++ (List.range n).flatMap fun j =>
      if j = i then (if unit then [] else o.parts (x.getD i default * at2 M i i)) else o.prods (at2 M i j) (x.getD j default))

/-- first row whose residual `b - M x` exceeds `g * (|M||x| + |b|)` -/
def residFail (o : Ops K) (n : Nat) (M : Array (Array K)) (x b : Array K) (g : Rat) (dbl : Bool) : Option Nat :=
  (List.range n).find? fun i =>
    let r := (List.range n).foldl (fun acc j => acc - at2 M i j * x.getD j default) (b.getD i default)
    let bd := (List.range n).foldl (fun acc j => acc + o.mag (at2 M i j) * o.mag (x.getD j default)) (o.mag (b.getD i default))
    let rowm := (List.range n).foldl (fun acc j => acc + o.mag (at2 M i j)) (1 : Rat)
    decide (o.cmax r > g * bd + uflow (8 * n + 16) dbl * rowm)

def eqArr (a b : Array K) (n : Nat) : Option Nat := (List.range n).find? fun i => !(a.getD i default == b.getD i default)

def flagTags (c : Case) : List String :=
  [s!"ty={c.ty}", s!"mode={c.p "mode"}"]

def snTag (F : LUFac K) : String :=
  let sizes := (List.range (F.L.nsuper + 1)).map fun k => F.L.xsup[k+1]! - F.L.xsup[k]!
  if sizes.all (· == 1) then "sn=single" else if sizes.all (· > 1) then "sn=multi" else "sn=mixed"

def offdiagCount (n : Nat) (M : Array (Array K)) : Nat :=
  ((List.range n).flatMap fun i => (List.range n).filter fun j => j ≠ i && !(at2 M i j == 0)).length

/-! ### sp_trsv -/
def handleTrsv (o : Ops K) (c : Case) : Res :=
  let dbl := c.isDouble
  let P := if dbl then 53 else 24
  let n := c.pNat "n"
  let t := c.ty
  let su := c.p "uplo"; let st := c.p "trans"; let sd := c.p "diag"
  let tags0 := flagTags c ++ [s!"vc={c.p "vc"}", s!"uplo={su}", s!"trans={st}", s!"diag={sd}"] ++
    (if c.pNat "directed" = 1 then ["directed-stale-work"] else [])
  let call := s!"sp_{t}trsv uplo={su} trans={st} diag={sd}"
  if c.pInt "finfo" ≠ 0 then Res.skip s!"factorization returned info={c.p "finfo"}" else
  match UpLo.ofFlag? su, Tr.ofFlag? st, unitOfFlag? sd with
  | some uplo, some tr, some unit =>
    let xbRaw := c.raw "xb"; let xaRaw := c.raw "xa"
    let w := if o.cplx then 2 else 1
    let info := c.pInt "info"
    let lib := c.str "libout"
    if c.p "inputs_changed" ≠ "none" then Res.propFalse s!"{call}: an input was modified: {c.p "inputs_changed"}" tags0 else
    -- padding behind the n entries
    match (List.range (xbRaw.size - w * n)).find? (fun k => xbRaw[w*n+k]! != xaRaw.getD (w*n+k) 0) with
    | some k => Res.propFalse s!"{call}: padding element {k / w} behind x was written" tags0
    | none =>
    if c.pNat "lc" = 1 ∧ info < 0 then
      -- lower-case spellings of the trsv flags: recorded only (not part of the property's clause)
      (match firstDiff xbRaw xaRaw with
       | some i => Res.propFalse s!"{call}: rejected (info={info}) but x[{i / w}] was modified" tags0
       | none => Res.ok false (tags0 ++ ["trsv-lowercase-rejected"]) "")
    else if info ≠ 0 ∨ lib ≠ "" then
      Res.propFalse s!"{call}: rejected documented flag spelling (info={info}; library printed \"{lib}\")" tags0
    else
    match o.dec dbl (c.raw "L.lusup"), o.dec dbl (c.raw "U.val"), o.dec dbl xbRaw, o.dec dbl xaRaw with
    | some _, some _, some xb, some xa =>
      let F : LUFac K := LUFac.ofCase c (fun a => (o.dec dbl a).getD #[])
      let tags := tags0 ++ [snTag F]
      let M := tabulate n (trsvMat F uplo tr unit)
      let b := xb.extract 0 n
      -- hypothesis of the theorem: decodeL is lower triangular / nonzero diagonal
      let Tl := tabulate n (fun i j => F.decodeL i j)
      if uplo == UpLo.L && (List.range n).any (fun i => (List.range n).any fun j => j > i && !(at2 Tl i j == 0)) then
        Res.propFalse s!"{call}: L storage is not lower triangular" tags else
      if (List.range n).any (fun i => at2 M i i == 0) then Res.skip "zero diagonal in U" else
      let xm := spTrsv F uplo tr unit b
      let xr := trsvRef F uplo tr unit b
      match eqArr xm xr n with
      | some i => Res.corr s!"{call}: model spTrsv differs from the dense reference trsvRef at {i}" tags
      | none =>
      let exact := certSolve o P n M unit xm b
      let nontriv := n ≥ 2 && offdiagCount n M > 0
      let kk := (if o.cplx then 4 else 1) * (2 * n + 8)
      let g := gamma kk dbl
      let bad : Option Nat := if exact then eqArr xa xm n else residFail o n M xa b g dbl
      match bad with
      | none => Res.ok nontriv (tags ++ [if exact then "certified" else "bound"]) (if exact then "exact" else "tolerance")
      | some i =>
        -- does x solve the system with the stored diagonal instead?
        let Ms := tabulate n (trsvMat F uplo tr false)
        let xs := spTrsv F uplo tr false b
        let stored : Bool := unit && uplo == UpLo.U &&
          (if certSolve o P n Ms false xs b then (eqArr xa xs n).isNone else (residFail o n Ms xa b g dbl).isNone)
        if stored then
          Res.propFalse s!"{call}: x solves op(U)x=b with the stored diagonal but diag=U selects the unit-diagonal system (row {i})" tags
        else if exact then
          Res.propFalse s!"{call}: op(T)x=b violated: x[{i}] differs from the exact solution on a rounding-free case" tags
        else
          Res.propFalse s!"{call}: op(T)x=b violated: residual of row {i} exceeds the backward-error bound" tags
    | _, _, _, _ => Res.propFalse s!"{call}: non-finite value in the factors or in x" tags0
  | _, _, _ => Res.skip "bad flags"

/-! ### gstrs -/
def handleGstrs (o : Ops K) (c : Case) : Res :=
  let dbl := c.isDouble
  let P := if dbl then 53 else 24
  let n := c.pNat "n"; let nrhs := c.pNat "nrhs"; let ldb := c.pNat "ldb"
  let st := c.p "trans"
  let tags0 := flagTags c ++ [s!"vc={c.p "vc"}", s!"trans={st}", s!"nrhs={nrhs}", if ldb > n then "ldb>n" else "ldb=n"]
  let call := s!"{c.ty}gstrs trans={st} nrhs={nrhs} ldb={ldb}"
  if c.pInt "finfo" ≠ 0 then Res.skip s!"factorization returned info={c.p "finfo"}" else
  match Tr.ofFlag? st with
  | none => Res.skip "bad flags"
  | some tr =>
    let w := if o.cplx then 2 else 1
    let bbRaw := c.raw "bb"; let baRaw := c.raw "ba"; let xsRaw := c.raw "xs"
    if c.p "inputs_changed" ≠ "none" then Res.propFalse s!"{call}: an input was modified: {c.p "inputs_changed"}" tags0 else
    if c.pInt "info" ≠ 0 ∨ c.str "libout" ≠ "" then Res.propFalse s!"{call}: info={c.p "info"} library printed \"{c.str "libout"}\"" tags0 else
    -- padding rows and tail untouched
    let isPad (k : Nat) : Bool := let e := k / w; e ≥ ldb * nrhs || e % ldb ≥ n
    match (List.range bbRaw.size).find? (fun k => isPad k && bbRaw[k]! != baRaw.getD k 0) with
    | some k => Res.propFalse s!"{call}: padding element {k / w} (row {(k / w) % ldb} of column {(k / w) / ldb}) was written" tags0
    | none =>
    -- every column bit-identical to the same column solved alone (bundled kernels only: vendor BLAS
    -- kernels may round differently depending on batch size / alignment, there the columns are checked
    -- through the exact / bounded comparison below)
    match (if c.p "blas" "internal" == "vendor" then [] else List.range (w * n * nrhs)).find? (fun k => let e := k / w; let j := e / n; let i := e % n
            canonNaN (baRaw.getD (w * (j * ldb + i) + k % w) 0) != canonNaN (xsRaw.getD k 0)) with
    | some k => Res.propFalse s!"{call}: column {(k / w) / n} row {(k / w) % n} differs from the same right-hand side solved alone (nrhs=1, ldb=n)" tags0
    | none =>
    match o.dec dbl (c.raw "L.lusup"), o.dec dbl (c.raw "U.val"), o.dec dbl bbRaw, o.dec dbl baRaw with
    | some _, some _, some bb, some ba =>
      let F : LUFac K := LUFac.ofCase c (fun a => (o.dec dbl a).getD #[])
      let tags := tags0 ++ [snTag F]
      let permc := c.nat "perm_c"; let permr := c.nat "perm_r"
      let Lm := tabulate n (trsvMat F .L tr true)
      let Um := tabulate n (trsvMat F .U tr false)
      if (List.range n).any (fun i => at2 Um i i == 0) then Res.skip "zero diagonal in U" else
      -- dense A = Pr' L U Pc' and |L||U|
      let Ld := tabulate n (fun i j => F.decodeL i j); let Ud := tabulate n (fun i j => F.decodeU i j)
      let LU := tabulate n (fun i j => (List.range n).foldl (fun acc k => acc + at2 Ld i k * at2 Ud k j) (0 : K))
      let LUa : Array (Array Rat) := (Array.range n).map fun i => (Array.range n).map fun j =>
        (List.range n).foldl (fun acc k => acc + o.mag (at2 Ld i k) * o.mag (at2 Ud k j)) (0 : Rat)
      let opA (i j : Nat) : K := -- op(A)(i,j)
        if tr == Tr.N then at2 LU permr[i]! permc[j]! else cj tr (at2 LU permr[j]! permc[i]!)
      let opAa (i j : Nat) : Rat :=
        if tr == Tr.N then (LUa.getD permr[i]! #[]).getD permc[j]! 0 else (LUa.getD permr[j]! #[]).getD permc[i]! 0
      let g1 := gamma ((if o.cplx then 4 else 1) * (4 * n + 4)) dbl
      let g2 := gamma ((if o.cplx then 4 else 1) * (n + 1)) dbl
      let colRes : List (Option String × Bool) := (List.range nrhs).map fun j =>
        let b := slice bb (ldb * j) n
        let xa := slice ba (ldb * j) n
        let xm := gstrsCol F permc permr tr b
        -- intermediate vectors for the certificate
        let s1 : Array K := (List.range n).foldl (fun (s : Array K) k => s.setIfInBounds (if tr == Tr.N then permr[k]! else permc[k]!) b[k]!) (Array.replicate n (0 : K))
        let ex : Bool :=
          if tr == Tr.N then
            let y := spTrsv F .L .N true s1; let z := spTrsv F .U .N false y
            certSolve o P n Lm true y s1 && certSolve o P n Um false z y
          else
            let y := spTrsv F .U tr false s1; let z := spTrsv F .L tr true y
            certSolve o P n Um false y s1 && certSolve o P n Lm true z y
        if ex then
          match eqArr xa xm n with
          | some i => (some s!"column {j}: X[{i}] differs from the exact solution on a rounding-free case", true)
          | none => (none, true)
        else
          let bad := (List.range n).find? fun i =>
            let r := (List.range n).foldl (fun acc k => acc - opA i k * xa.getD k default) (b.getD i default)
            let bd := g1 * (List.range n).foldl (fun acc k => acc + opAa i k * o.mag (xa.getD k default)) 0 + g2 * o.mag (b.getD i default) +
              uflow (16 * n + 32) dbl * (List.range n).foldl (fun acc k => acc + opAa i k) (1 : Rat)
            decide (o.cmax r > bd)
          match bad with
          | some i => (some s!"column {j}: residual of row {i} of op(A)X=B exceeds the backward-error bound", false)
          | none => (none, false)
      match colRes.findSome? (·.1) with
      | some msg => Res.propFalse s!"{call}: {msg}" tags
      | none =>
        let allEx := colRes.all (·.2)
        Res.ok (n ≥ 2 && nrhs ≥ 1 && (offdiagCount n Lm > 0 || offdiagCount n Um > 0))
          (tags ++ [if allEx then "certified" else "bound"]) (if allEx then "exact" else "tolerance")
    | _, _, _, _ => Res.propFalse s!"{call}: non-finite value in the factors or in X" tags0

/-! ### sp_gemv / sp_gemm : Prop in exact arithmetic -/

/-- exact `alpha*op(A)*x + beta*y` (entry i), the magnitude sum used by the bound, the real products
`a*x` of the inner sum, and whether every `alpha*x_j` is formed without rounding -/
def gemvExact (o : Ops K) (P : Nat) (tr : Tr) (alpha : K) (A : CSC K) (x : Nat → K) (beta : K) (y : Nat → K) (i : Nat) :
    K × Rat × List Rat × Bool :=
  -- entries of row i of op(A): (j, value)
  let ents : List (Nat × K) :=
    if tr == Tr.N then A.entries.filterMap (fun e => if e.1 = i then some (e.2.1, e.2.2) else none)
    else (A.col i).map (fun e => (e.1, cj tr e.2))
  let s := ents.foldl (fun acc e => acc + e.2 * x e.1) (0 : K)
  let sa := ents.foldl (fun acc e => acc + o.mag e.2 * o.mag (x e.1)) (0 : Rat)
  let terms := ents.flatMap (fun e => o.prods e.2 (x e.1))
  let alphaOk := ents.all (fun e => certTerms P (o.prods alpha (x e.1)))
  (alpha * s + beta * y i, o.mag alpha * sa + o.mag beta * o.mag (y i), terms, alphaOk)

/-- checks one output vector: returns an error message or whether the case was certified exact.
Certificate (3.3): the inner products `a*x`, the products `alpha*x_j`, and the final accumulation
`beta*y_i + sum alpha*(a*x)` have only representable partial sums in any order. -/
def checkGemvVec (o : Ops K) (dbl : Bool) (what : String) (tr : Tr) (alpha beta : K) (A : CSC K)
    (x y ya : Nat → K) (leny : Nat) : Except String Bool :=
  let P := if dbl then 53 else 24
  let quick := A.m == 0 || A.n == 0 || (alpha == 0 && beta == 1)
  (List.range leny).foldl (fun (acc : Except String Bool) i =>
    match acc with
    | .error e => .error e
    | .ok ex =>
      if quick then (if ya i == y i then .ok ex else .error s!"{what}[{i}] changed on a quick-return call") else
      let (r, bd, terms, alphaOk) := gemvExact o P tr alpha A x beta y i
      let ex1 := alphaOk && certTerms P terms &&
        certTerms P (o.prods beta (y i) ++ terms.flatMap fun t => (o.parts alpha).map (· * t))
      if ex1 then
        (if ya i == r then .ok ex else .error s!"{what}[{i}] differs from alpha*op(A)*x+beta*y on a rounding-free case")
      else
        let g := gamma ((if o.cplx then 4 else 1) * (terms.length + 4)) dbl
        if o.cmax (ya i - r) > g * bd + uflow (4 * terms.length + 16) dbl * (1 + o.mag alpha) then .error s!"{what}[{i}] differs from alpha*op(A)*x+beta*y by more than the rounding bound"
        else .ok false) (.ok true)

end generic

/-! ### sp_gemv / sp_gemm : Corr, bit mirror at the floating type -/
section mirror
variable (K : Type) [Inhabited K] [Zero K] [One K] [Add K] [Sub K] [Mul K] [Conj K] [BEq K] [Wire K]

def mirrorGemv (c : Case) (tr : Tr) : Option String :=
  let A : CSC K := CSC.ofCase c "A" Wire.dec
  let alpha : K := (Wire.dec (c.raw "alpha") : Array K)[0]!
  let beta : K := (Wire.dec (c.raw "beta") : Array K)[0]!
  if c.p "mode" = "gemv" then
    let y := spGemv tr alpha A (Wire.dec (c.raw "xb")) (c.pInt "incx") beta (Wire.dec (c.raw "yb")) (c.pInt "incy")
    (firstDiff (Wire.enc y) (c.raw "ya")).map fun i => s!"y word {i}: model={showBits (Wire.enc y) i} impl={showBits (c.raw "ya") i}"
  else
    let cm := spGemm tr (c.pNat "nc") alpha A (Wire.dec (c.raw "bb")) (c.pNat "ldb") beta (Wire.dec (c.raw "cb")) (c.pNat "ldc")
    (firstDiff (Wire.enc cm) (c.raw "ca")).map fun i => s!"C word {i}: model={showBits (Wire.enc cm) i} impl={showBits (c.raw "ca") i}"
end mirror

section gemv
variable {K : Type} [Inhabited K] [Zero K] [One K] [Add K] [Sub K] [Mul K] [Div K] [Conj K] [BEq K]

def handleGemv (o : Ops K) (c : Case) (mirror : Tr → Option String) : Res :=
  let dbl := c.isDouble
  let t := c.ty
  let st := c.p "trans"
  let gemm := c.p "mode" = "gemm"
  let name := if gemm then s!"sp_{t}gemm" else s!"sp_{t}gemv"
  let dims := c.nat "A.dims"; let m := dims[0]!; let n := dims[1]!
  let tags := flagTags c ++ [s!"trans={st}", s!"alpha={c.p "alphac"}", s!"beta={c.p "betac"}",
    if m = n then "square" else if m < n then "wide" else "tall"] ++
    (if gemm then [s!"transb={c.p "transb"}", s!"nc={c.p "nc"}"] else [s!"incx={c.p "incx"}", s!"incy={c.p "incy"}"])
  let call := s!"{name} trans={st}"
  match Tr.ofFlag? st with
  | none => Res.skip "bad flags"
  | some tr =>
    let lib := c.str "libout"
    if lib ≠ "" then Res.propFalse s!"{call}: rejected documented flag spelling (library printed \"{lib}\")" tags else
    if c.p "inputs_changed" ≠ "none" then Res.propFalse s!"{call}: an input was modified: {c.p "inputs_changed"}" tags else
    match o.dec dbl (c.raw "A.val"), o.dec dbl (c.raw "alpha"), o.dec dbl (c.raw "beta") with
    | some _, some al, some be =>
      let alpha := al[0]!; let beta := be[0]!
      let A : CSC K := CSC.ofCase c "A" (fun a => (o.dec dbl a).getD #[])
      let lenx := if tr == Tr.N then n else m
      let leny := if tr == Tr.N then m else n
      let w := if o.cplx then 2 else 1
      let nontriv := A.nnz ≥ 1 && !(alpha == 0 && beta == 1)
      let quick := m == 0 || n == 0 || (alpha == 0 && beta == 1)
      if !gemm then
        let incx := c.pInt "incx"; let incy := c.pInt "incy"
        let ybRaw := c.raw "yb"; let yaRaw := c.raw "ya"
        let x := o.decLoose dbl (c.raw "xb"); let y := o.decLoose dbl ybRaw
        if quick then
          -- empty A or alpha = 0, beta = 1: the routine returns at once (as the reference BLAS does)
          match firstDiff ybRaw yaRaw with
          | some k => Res.propFalse s!"{call}: quick-return call (empty A or alpha=0, beta=1) but element {k / w} of y was written" tags
          | none => (match mirror tr with
            | some e => Res.corr s!"{call}: {e}" tags
            | none => Res.ok false (tags ++ ["quick-return"]) "bit")
        else
        match o.dec dbl yaRaw with
        | none =>
          -- non-finite output: allowed only where the output was not written (gaps keep their bits)
          Res.propFalse s!"{call}: non-finite value in y on exit" tags
        | some ya =>
          let pos := (List.range leny).map (vpos leny incy)
          match (List.range yaRaw.size).find? (fun k => !(pos.contains (k / w)) && ybRaw.getD k 0 != yaRaw[k]!) with
          | some k => Res.propFalse s!"{call}: element {k / w} of the y array lies between the strided entries but was written" tags
          | none =>
          match checkGemvVec o dbl "y" tr alpha beta A (fun j => x.getD (vpos lenx incx j) default)
                  (fun i => y.getD (vpos leny incy i) default) (fun i => ya.getD (vpos leny incy i) default) leny with
          | .error e => Res.propFalse s!"{call} alpha={c.p "alphac"} beta={c.p "betac"} {m}x{n} incx={incx} incy={incy}: {e}" tags
          | .ok ex =>
            match mirror tr with
            | some e => Res.corr s!"{call}: {e}" tags
            | none => Res.ok nontriv (tags ++ [if ex then "certified" else "bound"]) (if ex then "exact" else "bit")
      else
        let nc := c.pNat "nc"; let ldb := c.pNat "ldb"; let ldc := c.pNat "ldc"
        let cbRaw := c.raw "cb"; let caRaw := c.raw "ca"
        let b := o.decLoose dbl (c.raw "bb"); let cb := o.decLoose dbl cbRaw
        if quick then
          match firstDiff cbRaw caRaw with
          | some k => Res.propFalse s!"{call}: quick-return call (empty A or alpha=0, beta=1) but element {k / w} of C was written" tags
          | none => (match mirror tr with
            | some e => Res.corr s!"{call}: {e}" tags
            | none => Res.ok false (tags ++ ["quick-return"]) "bit")
        else
        match o.dec dbl caRaw with
        | none => Res.propFalse s!"{call}: non-finite value in C on exit" tags
        | some ca =>
          match (List.range caRaw.size).find? (fun k => (k / w) % ldc ≥ leny && cbRaw.getD k 0 != caRaw[k]!) with
          | some k => Res.propFalse s!"{call}: padding row {(k / w) % ldc} of column {(k / w) / ldc} of C was written" tags
          | none =>
          let r := (List.range nc).foldl (fun (acc : Except String Bool) j =>
            match acc with
            | .error e => .error e
            | .ok ex =>
              match checkGemvVec o dbl s!"C[:,{j}]" tr alpha beta A (fun k => b.getD (ldb * j + k) default)
                      (fun i => cb.getD (ldc * j + i) default) (fun i => ca.getD (ldc * j + i) default) leny with
              | .error e => .error e
              | .ok e2 => .ok (ex && e2)) (.ok true)
          match r with
          | .error e => Res.propFalse s!"{call} alpha={c.p "alphac"} beta={c.p "betac"} {m}x{n} nc={nc}: {e}" tags
          | .ok ex =>
            match mirror tr with
            | some e => Res.corr s!"{call}: {e}" tags
            | none => Res.ok (nontriv && nc ≥ 1) (tags ++ [if ex then "certified" else "bound"]) (if ex then "exact" else "bit")
    | _, _, _ => Res.propFalse s!"{call}: non-finite input" tags

end gemv

def handle (c : Case) : Res :=
  let cplx := c.isComplex
  match c.p "mode" with
  | "trsv" => if cplx then handleTrsv opsC c else handleTrsv opsR c
  | "gstrs" => if cplx then handleGstrs opsC c else handleGstrs opsR c
  | "gemv" | "gemm" =>
    (match c.ty with
     | 'd' => handleGemv opsR c (mirrorGemv Float c)
     | 's' => handleGemv opsR c (mirrorGemv Float32 c)
     | 'z' => handleGemv opsC c (mirrorGemv (Cx Float) c)
     | _ => handleGemv opsC c (mirrorGemv (Cx Float32) c))
  | m => Res.skip s!"unknown mode {m}"

end Slu.Drv.Kernels
