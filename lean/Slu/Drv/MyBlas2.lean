import Slu.Proto
import Slu.Model.MyBlas2
-- HANDLER myblas => Slu.Drv.MyBlas2.handle
/-
Driver for family `myblas` (C01): direct calls of `[sdcz]lsolve / usolve / matvec / snode_bmod`.

Corr (every case): the model of `Slu/Model/MyBlas2.lean` run at the case's floating type reproduces
EVERY output array bit for bit (NaN canonicalised) — the whole buffers, prefix / tail / unaddressed
cells included — and the arrays that must not change did not change.
Prop (value class `int`, rounding-free by construction): the implementation's outputs, read as exact
rationals, satisfy the exact-arithmetic specification the theorems are about:
  lsolve : x_i + Σ_{j<i} M(i,j) x_j = b_i;   usolve : Σ_{j≥i} M(i,j) x_j = b_i;
  matvec : y'_k = y_k + Σ_j M(k,j) v_j;
  snode  : column jcol of the supernode = unit lower solve on the diagonal block rows, original −
           tempv_in − L21·u below (no update at all when jcol = fsupc), `dense` zero on the rows of the supernode and unchanged elsewhere,
           `tempv` zero on 0..nrow-1, `lusup` unchanged outside the column, `xlusup[jcol+1]` set.
-/
namespace Slu.Drv.MyBlas2
open Slu Slu.MyBlas2

def cmpBits (what : String) (e g : Array UInt64) : Option String :=
  (firstDiff e g).map fun i => s!"{what}[{i}] model={showBits e i} impl={showBits g i}"

section corr
variable (K : Type) [Wire K] [Inhabited K] [Zero K] [Add K] [Sub K] [Mul K] [Div K]

def corr (c : Case) (cplx : Bool) : Option String :=
  let ldm := c.pNat "ldm"; let ncol := c.pNat "ncol"; let nrow := c.pNat "nrow"
  match c.p "op" with
  | "lsolve" =>
    let M : Array K := Wire.dec (c.raw "M"); let rhs : Array K := Wire.dec (c.raw "rhs")
    (cmpBits "rhs" (Wire.enc (lsolve cplx ldm ncol M (c.pNat "mo") rhs (c.pNat "ro"))) (c.raw "rhs.out")).orElse fun _ =>
    cmpBits "M" (c.raw "M") (c.raw "M.out")
  | "usolve" =>
    let M : Array K := Wire.dec (c.raw "M"); let rhs : Array K := Wire.dec (c.raw "rhs")
    (cmpBits "rhs" (Wire.enc (usolve ldm ncol M (c.pNat "mo") rhs (c.pNat "ro"))) (c.raw "rhs.out")).orElse fun _ =>
    cmpBits "M" (c.raw "M") (c.raw "M.out")
  | "matvec" =>
    let M : Array K := Wire.dec (c.raw "M"); let v : Array K := Wire.dec (c.raw "vec"); let y : Array K := Wire.dec (c.raw "y")
    (cmpBits "Mxvec" (Wire.enc (matvec cplx ldm nrow ncol M (c.pNat "mo") v (c.pNat "vo") y)) (c.raw "y.out")).orElse fun _ =>
    (cmpBits "M" (c.raw "M") (c.raw "M.out")).orElse fun _ => cmpBits "vec" (c.raw "vec") (c.raw "vec.out")
  | "snode" =>
    let st : SnodeSt K := { lusup := Wire.dec (c.raw "lusup"), xlusup := c.nat "xlusup", dense := Wire.dec (c.raw "dense"),
                            tempv := Wire.dec (c.raw "tempv") }
    let o := snodeBmod cplx (c.pNat "jcol") (c.pNat "fsupc") (c.nat "lsub") (c.nat "xlsub") st
    if c.pNat "ret" 99 ≠ 0 then some s!"return value {c.p "ret"}" else
    if o.xlusup ≠ c.nat "xlusup.out" then some s!"xlusup model={o.xlusup} impl={c.nat "xlusup.out"}" else
    if o.opsTrsv ≠ c.pNat "opsTrsv" 99999999 then some s!"ops[TRSV] model={o.opsTrsv} impl={c.p "opsTrsv"}" else
    if o.opsGemv ≠ c.pNat "opsGemv" 99999999 then some s!"ops[GEMV] model={o.opsGemv} impl={c.p "opsGemv"}" else
    (cmpBits "lusup" (Wire.enc o.lusup) (c.raw "lusup.out")).orElse fun _ =>
    (cmpBits "dense" (Wire.enc o.dense) (c.raw "dense.out")).orElse fun _ =>
    cmpBits "tempv" (Wire.enc o.tempv) (c.raw "tempv.out")
  | o => some s!"unknown op {o}"
end corr

/-! ### Prop: the exact-arithmetic specification on the implementation's outputs -/
section prop
variable {Q : Type} [Inhabited Q] [Zero Q] [Add Q] [Sub Q] [Mul Q] [BEq Q]

def sumN (n : Nat) (f : Nat → Q) : Q := (List.range n).foldl (fun acc j => acc + f j) 0

def firstBad (n : Nat) (what : String) (p : Nat → Bool) : Option String :=
  ((List.range n).find? fun i => !p i).map fun i => s!"{what} {i}"

def propQ (c : Case) (dec : String → Array Q) : Option String :=
  let ldm := c.pNat "ldm"; let ncol := c.pNat "ncol"; let nrow := c.pNat "nrow"
  let mo := c.pNat "mo"; let ro := c.pNat "ro"
  match c.p "op" with
  | "lsolve" =>
    let M := dec "M"; let b := dec "rhs"; let x := dec "rhs.out"
    (firstBad ncol "lsolve: L x = rhs fails in row" fun i =>
      x[ro + i]! + sumN i (fun j => M[mo + j * ldm + i]! * x[ro + j]!) == b[ro + i]!).orElse fun _ =>
    firstBad b.size "lsolve: rhs changed outside 0..ncol-1 at" fun p => (ro ≤ p && p < ro + ncol) || x[p]! == b[p]!
  | "usolve" =>
    let M := dec "M"; let b := dec "rhs"; let x := dec "rhs.out"
    (firstBad ncol "usolve: U x = rhs fails in row" fun i =>
      sumN (ncol - i) (fun d => M[mo + (i + (i + d) * ldm)]! * x[ro + i + d]!) == b[ro + i]!).orElse fun _ =>
    firstBad b.size "usolve: rhs changed outside 0..ncol-1 at" fun p => (ro ≤ p && p < ro + ncol) || x[p]! == b[p]!
  | "matvec" =>
    let M := dec "M"; let v := dec "vec"; let y := dec "y"; let y' := dec "y.out"; let vo := c.pNat "vo"
    (firstBad nrow "matvec: Mxvec' = Mxvec + M vec fails in row" fun k =>
      y'[k]! == y[k]! + sumN ncol (fun j => M[mo + j * ldm + k]! * v[vo + j]!)).orElse fun _ =>
    firstBad y.size "matvec: Mxvec changed outside 0..nrow-1 at" fun p => p < nrow || y'[p]! == y[p]!
  | "snode" =>
    let lsub := c.nat "lsub"; let xlsub := c.nat "xlsub"; let xlusup := c.nat "xlusup"
    let jcol := c.pNat "jcol"; let fsupc := c.pNat "fsupc"
    let istart := xlsub[fsupc]!; let nsupr := xlsub[fsupc + 1]! - istart
    let luptr := xlusup[fsupc]!; let ufirst := xlusup[jcol]!; let nsupc := jcol - fsupc
    let lu := dec "lusup"; let lu' := dec "lusup.out"; let d := dec "dense"; let d' := dec "dense.out"
    let t := dec "tempv"; let t' := dec "tempv.out"
    let isRow (r : Nat) : Bool := (List.range nsupr).any fun k => lsub[istart + k]! == r
    (firstBad nsupc "snode_bmod: unit lower system fails in row" fun i =>
      lu'[ufirst + i]! + sumN i (fun r => lu[luptr + r * nsupr + i]! * lu'[ufirst + r]!) == d[lsub[istart + i]!]!).orElse fun _ =>
    (firstBad (nsupr - nsupc) "snode_bmod: update below the diagonal block fails in row" fun i =>
      lu'[ufirst + nsupc + i]! == d[lsub[istart + nsupc + i]!]! - ((if fsupc < jcol then t[i]! else 0) + sumN nsupc (fun r => lu[luptr + r * nsupr + nsupc + i]! * lu'[ufirst + r]!))).orElse fun _ =>
    (firstBad lu.size "snode_bmod: lusup changed outside column jcol at" fun p => (ufirst ≤ p && p < ufirst + nsupr) || lu'[p]! == lu[p]!).orElse fun _ =>
    (firstBad d.size "snode_bmod: dense wrong at" fun r => if isRow r then d'[r]! == 0 else d'[r]! == d[r]!).orElse fun _ =>
    (firstBad t.size "snode_bmod: tempv wrong at" fun i => if fsupc < jcol && i < nsupr - nsupc then t'[i]! == 0 else t'[i]! == t[i]!).orElse fun _ =>
    if (c.nat "xlusup.out")[jcol + 1]! ≠ ufirst + nsupr then some "snode_bmod: xlusup[jcol+1]" else none
  | _ => none
end prop

def prop (c : Case) : Option String :=
  if c.p "vc" ≠ "int" then none else
  if c.isComplex then
    let keys := ["M", "rhs", "rhs.out", "vec", "y", "y.out", "lusup", "lusup.out", "dense", "dense.out", "tempv", "tempv.out"]
    match keys.find? (fun k => (cxRatsOf c.isDouble (c.raw k)).isNone) with
    | some k => some s!"non-finite value in {k} (class int)"
    | none => propQ c (fun k => (cxRatsOf c.isDouble (c.raw k)).getD #[])
  else
    let keys := ["M", "rhs", "rhs.out", "vec", "y", "y.out", "lusup", "lusup.out", "dense", "dense.out", "tempv", "tempv.out"]
    match keys.find? (fun k => (ratsOf c.isDouble (c.raw k)).isNone) with
    | some k => some s!"non-finite value in {k} (class int)"
    | none => propQ c (fun k => (ratsOf c.isDouble (c.raw k)).getD #[])

def handle (c : Case) : Res :=
  let ncol := c.pNat "ncol"; let nrow := c.pNat "nrow"; let op := c.p "op"
  let tags := [s!"ty={c.ty}", s!"op={op}", s!"vc={c.p "vc"}", s!"ncol={ncol}", s!"ncol%8={ncol % 8}",
    s!"nrow={if nrow = 0 then "0" else if nrow ≤ 3 then "1-3" else if nrow ≤ 8 then "4-8" else "9+"}"] ++
    (if op = "snode" then [s!"dirty={c.p "dirty"}"] else [s!"slack={c.pNat "ldm" - (if op = "matvec" then nrow else ncol)}"])
  match prop c with
  | some msg => Res.propFalse msg tags
  | none =>
    let r := match c.ty with
      | 'd' => corr Float c false
      | 's' => corr Float32 c false
      | 'z' => corr (Cx Float) c true
      | _ => corr (Cx Float32) c true
    match r with
    | some msg => Res.corr msg tags
    | none =>
      let nontrivial := if op = "matvec" then ncol ≥ 1 ∧ nrow ≥ 1 else if op = "snode" then ncol ≥ 1 else ncol ≥ 2
      Res.ok nontrivial tags (if c.p "vc" = "int" then "exact" else "bit")

end Slu.Drv.MyBlas2
