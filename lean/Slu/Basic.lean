/-
Basic utilities shared by the model and the driver (core Lean only).
-/
namespace Slu

/-- `SUPERLU_MAX(x,y) = (x) > (y) ? (x) : (y)` — statement-exact, so that the `Float` instance is a
bit mirror of the C macro. -/
@[inline] def smax {R : Type} [LT R] [DecidableLT R] (x y : R) : R := if x > y then x else y
/-- `SUPERLU_MIN(x,y) = (x) < (y) ? (x) : (y)` -/
@[inline] def smin {R : Type} [LT R] [DecidableLT R] (x y : R) : R := if x < y then x else y

/-- complex numbers over a real type, laid out as the library's `doublecomplex {r, i}` -/
structure Cx (R : Type) where
  re : R
  im : R
deriving Repr, BEq, DecidableEq, Inhabited

/-- `2^k` as a rational for integer `k` -/
def pow2 (k : Int) : Rat :=
  if k ≥ 0 then ((2 ^ k.toNat : Nat) : Rat) else 1 / ((2 ^ (-k).toNat : Nat) : Rat)

/-- exact value of an IEEE double given by its bit pattern; `none` for inf/nan -/
def f64ToRat? (b : UInt64) : Option Rat :=
  let n : Nat := b.toNat
  let sign : Rat := if n / 2 ^ 63 = 1 then -1 else 1
  let e : Nat := (n / 2 ^ 52) % 2048
  let m : Nat := n % 2 ^ 52
  if e = 2047 then none
  else if e = 0 then some (sign * (m : Rat) * pow2 (-1074))
  else some (sign * (((2 ^ 52 + m : Nat)) : Rat) * pow2 ((e : Int) - 1075))

/-- exact value of an IEEE single given by its bit pattern (low 32 bits); `none` for inf/nan -/
def f32ToRat? (b : UInt64) : Option Rat :=
  let n : Nat := b.toNat % 2 ^ 32
  let sign : Rat := if n / 2 ^ 31 = 1 then -1 else 1
  let e : Nat := (n / 2 ^ 23) % 256
  let m : Nat := n % 2 ^ 23
  if e = 255 then none
  else if e = 0 then some (sign * (m : Rat) * pow2 (-149))
  else some (sign * (((2 ^ 23 + m : Nat)) : Rat) * pow2 ((e : Int) - 150))

def hexDigit? (c : Char) : Option Nat :=
  if '0' ≤ c ∧ c ≤ '9' then some (c.toNat - '0'.toNat)
  else if 'a' ≤ c ∧ c ≤ 'f' then some (c.toNat - 'a'.toNat + 10)
  else if 'A' ≤ c ∧ c ≤ 'F' then some (c.toNat - 'A'.toNat + 10)
  else none

def parseHex? (s : String) : Option Nat :=
  if s.isEmpty then none else
  s.foldl (fun acc c => match acc, hexDigit? c with
    | some a, some d => some (a * 16 + d)
    | _, _ => none) (some 0)

def hexOfNat (n : Nat) (width : Nat) : String :=
  let ds := Nat.toDigits 16 n
  String.ofList (List.replicate (width - ds.length) '0' ++ ds)

/-- positive part of a list lookup -/
def lookup? {α : Type} (k : String) : List (String × α) → Option α
  | [] => none
  | (k', v) :: t => if k = k' then some v else lookup? k t

end Slu
