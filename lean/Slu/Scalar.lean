import Slu.Basic
/-
Scalar abstraction (DESIGN.md 3.1).  Model code is written over standard operator classes plus
`Mag K R` (the magnitude the library uses: |x| for real data, |re|+|im| for complex data) so that
the very same definitions are *executed* at `Float`/`Float32`/`Cx _` (bit mirror of the C code)
and *reasoned about* at `Rat` (every finite float is a rational).
-/
namespace Slu

class Mag (K : Type) (R : outParam Type) where
  /-- `fabs(x)` resp. `z_abs1(&x) = |re| + |im|` -/
  abs1 : K → R
  /-- `x * r` resp. `zd_mult(&c, &x, r)` -/
  rscale : K → R → K

/-- absolute value written with a comparison (core only; equals `|x|` on `Rat`, see Lemmas) -/
@[inline] def rabs (x : Rat) : Rat := if x < 0 then -x else x

instance : Mag Float Float := ⟨Float.abs, fun x r => x * r⟩
instance : Mag Float32 Float32 := ⟨Float32.abs, fun x r => x * r⟩
instance : Mag Rat Rat := ⟨rabs, fun x r => x * r⟩
/-- `if (x < 0) x = -x;` as in `z_abs1`/`c_abs1` (dcomplex.c, scomplex.c): keeps `-0.0` -/
@[inline] def cmpAbs {R : Type} [Zero R] [Neg R] [LT R] [DecidableLT R] (x : R) : R := if x < 0 then -x else x
instance : Mag (Cx Float) Float := ⟨fun z => cmpAbs z.re + cmpAbs z.im, fun z r => ⟨z.re * r, z.im * r⟩⟩
instance : Mag (Cx Float32) Float32 := ⟨fun z => cmpAbs z.re + cmpAbs z.im, fun z r => ⟨z.re * r, z.im * r⟩⟩
instance : Mag (Cx Rat) Rat := ⟨fun z => rabs z.re + rabs z.im, fun z r => ⟨z.re * r, z.im * r⟩⟩

/-- decoding/encoding of the protocol's bit patterns -/
class FBits (R : Type) where
  ofBits : UInt64 → R
  toBits : R → UInt64
  toRat? : UInt64 → Option Rat
  isDouble : Bool

instance : FBits Float := ⟨Float.ofBits, Float.toBits, f64ToRat?, true⟩
instance : FBits Float32 := ⟨fun b => Float32.ofBits b.toUInt32, fun x => x.toBits.toUInt64, f32ToRat?, false⟩

/-- decode a protocol array of reals -/
def decReals (R : Type) [FBits R] (a : Array UInt64) : Array R := a.map FBits.ofBits
/-- decode interleaved (re, im) pairs -/
def decCx (R : Type) [FBits R] [Inhabited R] (a : Array UInt64) : Array (Cx R) :=
  (Array.range (a.size / 2)).map fun k => ⟨FBits.ofBits a[2*k]!, FBits.ofBits a[2*k+1]!⟩
def encReals {R : Type} [FBits R] (a : Array R) : Array UInt64 := a.map FBits.toBits
def encCx {R : Type} [FBits R] (a : Array (Cx R)) : Array UInt64 :=
  a.foldl (fun acc z => (acc.push (FBits.toBits z.re)).push (FBits.toBits z.im)) #[]

/-- scalars that can be read from / written to the protocol -/
class Wire (K : Type) where
  dec : Array UInt64 → Array K
  enc : Array K → Array UInt64

instance : Wire Float := ⟨decReals Float, encReals⟩
instance : Wire Float32 := ⟨decReals Float32, encReals⟩
instance : Wire (Cx Float) := ⟨decCx Float, encCx⟩
instance : Wire (Cx Float32) := ⟨decCx Float32, encCx⟩

/-- exact rational value of a protocol array (none if any entry is inf/nan) -/
def ratsOf (dbl : Bool) (a : Array UInt64) : Option (Array Rat) :=
  a.foldl (fun acc b => match acc, (if dbl then f64ToRat? b else f32ToRat? b) with
    | some xs, some x => some (xs.push x)
    | _, _ => none) (some #[])

def cxRatsOf (dbl : Bool) (a : Array UInt64) : Option (Array (Cx Rat)) :=
  (ratsOf dbl a).map fun xs => (Array.range (xs.size / 2)).map fun k => ⟨xs[2*k]!, xs[2*k+1]!⟩

/-- NaN payload/sign are not part of any comparison (Lean's `toBits` canonicalises NaN) -/
def canonNaN (b : UInt64) : UInt64 :=
  let n := b.toNat
  if n < 2 ^ 32 then (if (n / 2 ^ 23) % 256 = 255 ∧ n % 2 ^ 23 ≠ 0 then 0x7fc00000 else b)
  else (if (n / 2 ^ 52) % 2048 = 2047 ∧ n % 2 ^ 52 ≠ 0 then 0x7ff8000000000000 else b)

/-- first index at which two bit arrays differ -/
def firstDiff (a b : Array UInt64) : Option Nat :=
  if a.size ≠ b.size then some (min a.size b.size) else
  (List.range a.size).find? fun i => canonNaN a[i]! != canonNaN b[i]!

def showBits (a : Array UInt64) (i : Nat) : String := hexOfNat (a.getD i 0).toNat 16

end Slu
