import Slu.Basic
/-
Line protocol between the C harness and the Lean driver (DESIGN.md 2.3, CONVENTIONS.md).

  case <family> <index>
  p <key> <value...>
  i <name> <count> <decimal ints...>
  f <name> <count> <16-hex-digit double bit patterns...>
  g <name> <count> <8-hex-digit float bit patterns...>
  s <name> <rest of line: free text>
  end
-/
namespace Slu

structure Case where
  fam : String := ""
  id : Nat := 0
  params : List (String × String) := []
  ints : List (String × Array Int) := []
  bits : List (String × Array UInt64) := []   -- both f and g lines (g widened)
  strs : List (String × String) := []
  bad : List String := []
deriving Inhabited

namespace Case
def p (c : Case) (k : String) (d : String := "") : String := (lookup? k c.params).getD d
def pNat (c : Case) (k : String) (d : Nat := 0) : Nat := ((lookup? k c.params).bind String.toNat?).getD d
def pInt (c : Case) (k : String) (d : Int := 0) : Int := ((lookup? k c.params).bind String.toInt?).getD d
def has (c : Case) (k : String) : Bool := (lookup? k c.params).isSome
def ty (c : Case) : Char := (c.p "ty" "d").front
def int? (c : Case) (k : String) : Option (Array Int) := lookup? k c.ints
def int (c : Case) (k : String) : Array Int := (lookup? k c.ints).getD #[]
def nat (c : Case) (k : String) : Array Nat := (c.int k).map Int.toNat
def raw? (c : Case) (k : String) : Option (Array UInt64) := lookup? k c.bits
def raw (c : Case) (k : String) : Array UInt64 := (lookup? k c.bits).getD #[]
def str (c : Case) (k : String) : String := (lookup? k c.strs).getD ""
def isDouble (c : Case) : Bool := c.ty == 'd' || c.ty == 'z'
def isComplex (c : Case) : Bool := c.ty == 'c' || c.ty == 'z'
end Case

def parseLine (c : Case) (line : String) : Case :=
  let toks := (line.splitOn " ").filter (· ≠ "")
  match toks with
  | "p" :: k :: rest => { c with params := (k, " ".intercalate rest) :: c.params }
  | "s" :: k :: rest => { c with strs := (k, " ".intercalate rest) :: c.strs }
  | "i" :: k :: _ :: vals =>
    let arr := vals.foldl (fun (a : Array Int) s => a.push (s.toInt?.getD 0)) (Array.mkEmpty vals.length)
    { c with ints := (k, arr) :: c.ints }
  | "f" :: k :: _ :: vals =>
    let arr := vals.foldl (fun (a : Array UInt64) s => a.push (UInt64.ofNat ((parseHex? s).getD 0))) (Array.mkEmpty vals.length)
    { c with bits := (k, arr) :: c.bits }
  | "g" :: k :: _ :: vals =>
    let arr := vals.foldl (fun (a : Array UInt64) s => a.push (UInt64.ofNat ((parseHex? s).getD 0))) (Array.mkEmpty vals.length)
    { c with bits := (k, arr) :: c.bits }
  | [] => c
  | _ => { c with bad := line :: c.bad }

/-- result of one case, printed as `res <id> <status> k=v ... | message` -/
structure Res where
  status : String := "ok"       -- ok | corr-mismatch | prop-false | skip
  cls : String := ""            -- exact | robust | tolerance | bit | ""
  nontrivial : Bool := false
  tags : List String := []
  msg : String := ""
deriving Inhabited

def Res.ok (nontrivial : Bool) (tags : List String := []) (cls : String := "") : Res :=
  { status := "ok", nontrivial := nontrivial, tags := tags, cls := cls }
def Res.corr (msg : String) (tags : List String := []) : Res := { status := "corr-mismatch", msg := msg, tags := tags }
def Res.propFalse (msg : String) (tags : List String := []) : Res := { status := "prop-false", msg := msg, tags := tags }
def Res.skip (msg : String) : Res := { status := "skip", msg := msg }

/-- cheap content hash (FNV-1a, 64 bit) of the case text, for the distinct count -/
def fnv (h : UInt64) (s : String) : UInt64 :=
  s.foldl (fun h c => (h ^^^ (UInt64.ofNat c.toNat)) * 1099511628211) h

def Res.render (r : Res) (id : Nat) (hash : UInt64) : String :=
  let kv := s!"nontrivial={if r.nontrivial then 1 else 0} hash={hexOfNat hash.toNat 16}" ++
    (if r.cls.isEmpty then "" else s!" class={r.cls}") ++
    (if r.tags.isEmpty then "" else " tags=" ++ ",".intercalate r.tags)
  s!"res {id} {r.status} {kv} | {r.msg}"

/-- combinator: first failing check wins -/
def firstFail (checks : List (Unit → Option Res)) (ok : Res) : Res :=
  match checks.findSome? (fun f => f ()) with
  | some r => r
  | none => ok

end Slu
