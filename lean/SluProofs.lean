import SluProofs.Lemmas.RatBasic
import SluProofs.Lemmas.Fold
import SluProofs.Props.C11
