import SluProofs.Lemmas.ElimOrder
/-
The supernodal block update of [sdcz]column_bmod / panel_bmod equals the column-by-column
elimination `Slu.LU.elim`, in exact arithmetic.

For one supernode with columns `(p_1,l_1),…,(p_s,l_s)` the real code
  1. gathers the U-segment `w[p_1..p_s]` and solves the dense unit lower triangular system
     `u_t = w[p_t] − Σ_{r<t} l_r(p_t) · u_r`            ([sdcz]trsv / [sdcz]lsolve)   — `snodeSolve`
  2. updates the rows below by a dense matrix-vector product
     `w'[i] = w[i] − Σ_t l_t(i) · u_t`                  ([sdcz]gemv / [sdcz]matvec)   — `snodeGemv`
  3. stores the `u_t` as the U-segment; the pivot rows `p_t` of the work vector are reset to 0
     when the segment is copied out (copy_to_ucol).                                     — `snodeBlock`
`snodeBlock_eq_elim` : steps 1–3 give exactly `elim cols w` (vector AND multipliers).
`elimBlocks_eq_elim` : supernode after supernode = column after column.
`elimBlocks_schedule`: with `ElimOrder`: any dependency-respecting sequence of supernodes that leaves
out only columns with a zero multiplier reproduces the model's natural-order result.
-/
namespace Slu.LU
open Slu List

variable {K : Type} [Field K]

/-- forward substitution with the dense unit lower triangular block of the supernode:
`done` holds the columns already solved together with their solution component -/
def snodeSolveAux (w : Vec K) : List (Nat × Vec K) → List (Vec K × K) → List K
  | [], _ => []
  | (p, l) :: rest, done =>
    let u := w.get p - (done.map fun d => d.1.get p * d.2).sum
    u :: snodeSolveAux w rest (done ++ [(l, u)])

/-- the U-segment of one supernode: `u_t = w[p_t] − Σ_{r<t} l_r(p_t) · u_r` -/
def snodeSolve (cols : List (Nat × Vec K)) (w : Vec K) : List K := snodeSolveAux w cols []

/-- the matrix-vector update `w'[i] = w[i] − Σ_t u_t · l_t(i)` (all rows) -/
def snodeGemv (cols : List (Nat × Vec K)) (us : List K) (w : Vec K) : Vec K :=
  w.mapIdx fun i x => x - dotL us cols i

/-- the complete block update of one supernode: triangular solve, matrix-vector product on the
rows outside the diagonal block, pivot rows of the work vector reset to 0 -/
def snodeBlock (cols : List (Nat × Vec K)) (w : Vec K) : Vec K × List K :=
  let us := snodeSolve cols w
  (w.mapIdx fun i x => if cols.any (fun pl => pl.1 == i) then 0 else x - dotL us cols i, us)

theorem snodeSolveAux_eq (w w' : Vec K) (rest : List (Nat × Vec K)) (done : List (Vec K × K))
    (hsz : w'.size = w.size) (hr : ∀ x ∈ rest, x.1 < w.size)
    (hinv : ∀ x ∈ rest, w'.get x.1 = w.get x.1 - (done.map fun d => d.1.get x.1 * d.2).sum) :
    snodeSolveAux w rest done = (elim rest w').2 := by
  induction rest generalizing w' done with
  | nil => simp [snodeSolveAux, elim]
  | cons x rest ih =>
    obtain ⟨p, l⟩ := x
    have hu : w.get p - (done.map fun d => d.1.get p * d.2).sum = w'.get p := (hinv (p, l) mem_cons_self).symm
    simp only [snodeSolveAux, elim]
    rw [hu]
    congr 1
    apply ih _ _ (by simpa using hsz) (fun x hx => hr x (mem_cons_of_mem _ hx))
    intro x hx
    have hx' : x.1 < w'.size := by rw [hsz]; exact hr x (mem_cons_of_mem _ hx)
    rw [axpy_get _ _ _ _ hx', hinv x (mem_cons_of_mem _ hx)]
    simp only [map_append, map_cons, map_nil, sum_append, sum_cons, sum_nil]
    ring

/-- **Triangular solve = multipliers.** The dense forward substitution returns exactly the
multipliers of the column-by-column elimination. -/
theorem snodeSolve_eq_elim (cols : List (Nat × Vec K)) (w : Vec K) (hr : ∀ x ∈ cols, x.1 < w.size) :
    snodeSolve cols w = (elim cols w).2 :=
  snodeSolveAux_eq w w cols [] rfl hr (by simp)

theorem mapIdx_get (w : Vec K) (f : Nat → K → K) (i : Nat) (hi : i < w.size) :
    Vec.get (w.mapIdx f) i = f i (w.get i) := by
  simp [Vec.get, Array.getD, hi]

theorem snodeGemv_size (cols : List (Nat × Vec K)) (us : List K) (w : Vec K) :
    (snodeGemv cols us w).size = w.size := by simp [snodeGemv]

theorem snodeGemv_get (cols : List (Nat × Vec K)) (us : List K) (w : Vec K) (i : Nat) (hi : i < w.size) :
    (snodeGemv cols us w).get i = w.get i - dotL us cols i := by
  simp [snodeGemv, Vec.get, Array.getD, hi]

/-- **Matrix-vector update = remaining vector**, on every row. -/
theorem snodeGemv_eq_elim (cols : List (Nat × Vec K)) (w : Vec K) :
    snodeGemv cols (elim cols w).2 w = (elim cols w).1 := by
  apply vec_ext_get _ _ (by rw [snodeGemv_size, elim_size])
  intro i hi
  rw [elim_size] at hi
  rw [snodeGemv_get _ _ _ _ hi, elim_spec cols w i hi]
  ring

/-- **Block update = column by column.** For a unit lower supernode with in-range pivot rows the
block update returns exactly what `elim` returns: the same work vector (zero at the pivot rows of
the supernode) and the same U-segment. -/
theorem snodeBlock_eq_elim (cols : List (Nat × Vec K)) (w : Vec K) (hU : UnitLower cols)
    (hr : ∀ x ∈ cols, x.1 < w.size) : snodeBlock cols w = elim cols w := by
  have hus := snodeSolve_eq_elim cols w hr
  apply Prod.ext
  · simp only [snodeBlock, hus]
    apply vec_ext_get _ _ (by rw [elim_size]; simp)
    intro i hi
    rw [elim_size] at hi
    have hz := (elim_zero_at_pivots cols w hU hr [] (by simp) (by simp)).1
    by_cases hany : cols.any (fun pl => pl.1 == i) = true
    · obtain ⟨x, hx, hxi⟩ := any_eq_true.mp hany
      have : x.1 = i := by simpa using hxi
      rw [mapIdx_get _ _ _ hi, if_pos hany, ← this, hz x hx]
    · rw [mapIdx_get _ _ _ hi, if_neg hany, elim_spec cols w i hi]
      ring
  · exact hus

/-- supernode after supernode -/
def elimBlocks : List (List (Nat × Vec K)) → Vec K → Vec K × List K
  | [], w => (w, [])
  | b :: bs, w =>
    let r := snodeBlock b w
    let s := elimBlocks bs r.1
    (s.1, r.2 ++ s.2)

/-- **Supernodal elimination = column elimination** over the concatenated column list. -/
theorem elimBlocks_eq_elim (bs : List (List (Nat × Vec K))) (w : Vec K)
    (hU : ∀ b ∈ bs, UnitLower b) (hr : ∀ b ∈ bs, ∀ x ∈ b, x.1 < w.size) :
    elimBlocks bs w = elim bs.flatten w := by
  induction bs generalizing w with
  | nil => simp [elimBlocks, elim]
  | cons b bs ih =>
    have hb := snodeBlock_eq_elim b w (hU b mem_cons_self) (hr b mem_cons_self)
    simp only [elimBlocks, flatten_cons, elim_append, hb]
    rw [ih _ (fun c hc => hU c (mem_cons_of_mem _ hc))
      (fun c hc x hx => by rw [elim_size]; exact hr c (mem_cons_of_mem _ hc) x hx)]

/-- **The real schedule.** `Ls` is the model's list of previous columns (unit lower, pivots in
range).  `bs` is any sequence of supernodes (lists of columns) whose concatenation
* consists of the columns selected by `keep`, each once,
* respects the dependencies among them (a topological order, e.g. the reverse postorder of the
  depth-first search), and
* leaves out only columns whose multiplier is zero.
Then block elimination by `bs` leaves the model's vector, and reading its multipliers by pivot
row gives the model's multiplier for every column (0 for the columns that were not visited). -/
theorem elimBlocks_schedule (keep : Nat × Vec K → Bool) (Ls : List (Nat × Vec K))
    (bs : List (List (Nat × Vec K))) (w : Vec K)
    (hU : UnitLower Ls) (hr : ∀ x ∈ Ls, x.1 < w.size)
    (hp : bs.flatten.Perm (Ls.filter keep)) (hd : DepRespecting (Ls.filter keep) bs.flatten)
    (h : ∀ e ∈ Ls.zip (elim Ls w).2, keep e.1 = false → e.2 = 0) :
    (elimBlocks bs w).1 = (elim Ls w).1 ∧
    ∀ k (hk : k < Ls.length), multAt bs.flatten (elimBlocks bs w).2 (Ls[k]).1 = (elim Ls w).2.getD k 0 := by
  have hUσ := unitLower_of_depRespecting _ _ (hU.sublist filter_sublist) hp hd
  have he : elimBlocks bs w = elim bs.flatten w :=
    elimBlocks_eq_elim bs w (fun b hb => hUσ.sublist (sublist_flatten_of_mem hb))
      (fun b hb x hx => hr x (mem_filter.mp (hp.subset ((sublist_flatten_of_mem hb).subset hx))).1)
  rw [he]
  exact ⟨(elim_schedule keep Ls _ w hU hp hd h).1, fun k hk => multAt_schedule keep Ls _ w hU hp hd h k hk⟩

end Slu.LU
