import Slu.Model.Readers
import Mathlib.Data.List.Basic
import Mathlib.Tactic.Ring
import Mathlib.Tactic.Linarith
import Mathlib.Algebra.BigOperators.Group.List.Basic
/-
C16 helper lemmas: the counting sort `cscOfTriplets` (dreadMM.c:183-207, dreadtriple.c:98-122, and
the transposition inside FormFullA) is the stable grouping of the triplets by column.
-/
namespace Slu.Readers

variable {α : Type}

/-- number of triplets in column `j` -/
def cntCol (ts : List (Trip α)) (j : Nat) : Nat := ts.countP (fun t => decide (t.col = j))
/-- number of triplets in columns before `j` -/
def cntLt (ts : List (Trip α)) (j : Nat) : Nat := ts.countP (fun t => decide (t.col < j))

theorem cntLt_zero (ts : List (Trip α)) : cntLt ts 0 = 0 := by
  simp [cntLt]

theorem cntLt_succ (ts : List (Trip α)) (j : Nat) : cntLt ts (j + 1) = cntLt ts j + cntCol ts j := by
  induction ts with
  | nil => simp [cntLt, cntCol]
  | cons t ts ih =>
    unfold cntLt cntCol at *
    rw [List.countP_cons, List.countP_cons, List.countP_cons, ih]
    simp only [decide_eq_true_eq]
    split_ifs <;> omega

theorem cntLt_mono (ts : List (Trip α)) {j j' : Nat} (h : j ≤ j') : cntLt ts j ≤ cntLt ts j' := by
  unfold cntLt
  apply List.countP_mono_left
  intro t _ ht
  simp only [decide_eq_true_eq] at ht ⊢
  omega

theorem cntLt_le_length (ts : List (Trip α)) (j : Nat) : cntLt ts j ≤ ts.length := List.countP_le_length

theorem cntLt_all (ts : List (Trip α)) (n : Nat) (h : ∀ t ∈ ts, t.col < n) : cntLt ts n = ts.length := by
  unfold cntLt
  rw [List.countP_eq_length]
  intro t ht
  simpa using h t ht

theorem cntCol_append (p q : List (Trip α)) (j : Nat) : cntCol (p ++ q) j = cntCol p j + cntCol q j := by
  simp [cntCol, List.countP_append]

theorem cntCol_cons (t : Trip α) (q : List (Trip α)) (j : Nat) :
    cntCol (t :: q) j = cntCol q j + (if t.col = j then 1 else 0) := by
  simp [cntCol, List.countP_cons]

theorem cntCol_snoc (p : List (Trip α)) (t : Trip α) (j : Nat) :
    cntCol (p ++ [t]) j = cntCol p j + (if t.col = j then 1 else 0) := by
  simp [cntCol, List.countP_append, List.countP_cons]

theorem cntCol_eq_length_filter (ts : List (Trip α)) (j : Nat) :
    cntCol ts j = (ts.filter (fun t => decide (t.col = j))).length := by
  simp [cntCol, List.countP_eq_length_filter]

/-! ### `countCols` -/

theorem countFold_getElem? (ts : List (Trip α)) (xa : Array Nat) (j : Nat) :
    (ts.foldl (fun xa t => xa.modify t.col (· + 1)) xa)[j]? = xa[j]?.map (· + cntCol ts j) := by
  induction ts generalizing xa with
  | nil => simp [cntCol]
  | cons t ts ih =>
    rw [List.foldl_cons, ih, Array.getElem?_modify, cntCol_cons]
    by_cases h : t.col = j
    · simp only [h, if_true, Option.map_map]
      congr 1
      funext x
      simp only [Function.comp]
      omega
    · simp [h]

theorem countFold_size (ts : List (Trip α)) (xa : Array Nat) :
    (ts.foldl (fun xa t => xa.modify t.col (· + 1)) xa).size = xa.size := by
  induction ts generalizing xa with
  | nil => rfl
  | cons t ts ih => rw [List.foldl_cons, ih, Array.size_modify]

theorem countCols_size (n : Nat) (ts : List (Trip α)) : (countCols n ts).size = n := by
  simp [countCols, countFold_size]

theorem countCols_getElem? (n : Nat) (ts : List (Trip α)) (j : Nat) (hj : j < n) :
    (countCols n ts)[j]? = some (cntCol ts j) := by
  simp [countCols, countFold_getElem?, Array.getElem?_replicate, hj]

/-! ### `startsOf`: exclusive prefix sums -/

/-- the fold of `startsOf` on a list, from accumulator `(acc, s)` -/
def preFold (l : List Nat) (acc : Array Nat) (s : Nat) : Array Nat :=
  (l.foldl (fun (a : Array Nat × Nat) c => (a.1.push a.2, a.2 + c)) (acc, s)).1

theorem preFold_cons (c : Nat) (l : List Nat) (acc : Array Nat) (s : Nat) :
    preFold (c :: l) acc s = preFold l (acc.push s) (s + c) := rfl

theorem preFold_size (l : List Nat) (acc : Array Nat) (s : Nat) : (preFold l acc s).size = acc.size + l.length := by
  induction l generalizing acc s with
  | nil => simp [preFold]
  | cons c l ih => rw [preFold_cons, ih, Array.size_push, List.length_cons]; omega

theorem preFold_old (l : List Nat) (acc : Array Nat) (s : Nat) (i : Nat) (hi : i < acc.size) :
    (preFold l acc s)[i]? = acc[i]? := by
  induction l generalizing acc s with
  | nil => simp [preFold]
  | cons c l ih =>
    rw [preFold_cons, ih _ _ (by rw [Array.size_push]; omega), Array.getElem?_push]
    have : i ≠ acc.size := by omega
    simp [this]

theorem preFold_new (l : List Nat) (acc : Array Nat) (s : Nat) (j : Nat) (hj : j < l.length) :
    (preFold l acc s)[acc.size + j]? = some (s + (l.take j).sum) := by
  induction l generalizing acc s j with
  | nil => simp at hj
  | cons c l ih =>
    rw [preFold_cons]
    cases j with
    | zero =>
      rw [Nat.add_zero, preFold_old _ _ _ _ (by rw [Array.size_push]; omega), Array.getElem?_push]
      simp
    | succ j =>
      have hj' : j < l.length := by simpa using hj
      have := ih (acc.push s) (s + c) j hj'
      rw [Array.size_push] at this
      rw [show acc.size + (j + 1) = acc.size + 1 + j by omega, this]
      simp [List.take_succ_cons, List.sum_cons]; omega

theorem startsOf_eq (cnt : Array Nat) : startsOf cnt = preFold cnt.toList #[] 0 := by
  simp [startsOf, preFold, Array.foldl_toList]

theorem take_sum_countCols (n : Nat) (ts : List (Trip α)) (j : Nat) (hj : j ≤ n) :
    ((countCols n ts).toList.take j).sum = cntLt ts j := by
  induction j with
  | zero => simp [cntLt_zero]
  | succ j ih =>
    have hj' : j < n := by omega
    have hlen : j < (countCols n ts).toList.length := by simp [countCols_size]; exact hj'
    rw [List.take_add_one, List.sum_append, ih (by omega), cntLt_succ]
    have : (countCols n ts).toList[j]? = some (cntCol ts j) := by
      rw [Array.getElem?_toList]; exact countCols_getElem? n ts j hj'
    simp [this]

theorem starts_size (n : Nat) (ts : List (Trip α)) : (startsOf (countCols n ts)).size = n := by
  rw [startsOf_eq, preFold_size]; simp [countCols_size]

theorem starts_getElem? (n : Nat) (ts : List (Trip α)) (j : Nat) (hj : j < n) :
    (startsOf (countCols n ts))[j]? = some (cntLt ts j) := by
  rw [startsOf_eq]
  have h := preFold_new (countCols n ts).toList #[] 0 j (by simp [countCols_size]; exact hj)
  simp only [Array.size_empty, Nat.zero_add] at h
  rw [h, take_sum_countCols n ts j (by omega)]

/-! ### `scatter` -/

/-- invariant of the scatter loop after the prefix `p` of `ts` has been placed -/
structure ScInv (n : Nat) (ts p : List (Trip α)) (xa : Array Nat) (out : Array (Trip α)) : Prop where
  xa_size : xa.size = n
  out_size : out.size = ts.length
  xa_val : ∀ j, j < n → xa[j]? = some (cntLt ts j + cntCol p j)
  out_val : ∀ j, j < n → ∀ r, r < cntCol p j →
    out[cntLt ts j + r]? = (p.filter (fun t => decide (t.col = j)))[r]?

theorem scInv_step (n : Nat) (ts p q : List (Trip α)) (t : Trip α) (xa : Array Nat) (out : Array (Trip α))
    (hts : ts = p ++ t :: q) (hc : t.col < n) (inv : ScInv n ts p xa out) :
    ScInv n ts (p ++ [t]) (xa.modify t.col (· + 1)) (out.setIfInBounds (xa.getD t.col 0) t) := by
  obtain ⟨hxs, hos, hxv, hov⟩ := inv
  have hk : xa.getD t.col 0 = cntLt ts t.col + cntCol p t.col := by
    rw [Array.getD_eq_getD_getElem?, hxv _ hc]; rfl
  -- counts of the whole list
  have hcnt : ∀ j, cntCol ts j = cntCol p j + (if t.col = j then 1 else 0) + cntCol q j := by
    intro j; rw [hts, cntCol_append, cntCol_cons]; omega
  have hkb : cntLt ts t.col + cntCol p t.col < out.size := by
    have h1 := hcnt t.col
    simp only [if_true] at h1
    have h2 := cntLt_succ ts t.col
    have h3 := cntLt_le_length ts (t.col + 1)
    omega
  refine ⟨by rw [Array.size_modify, hxs], by rw [Array.size_setIfInBounds, hos], ?_, ?_⟩
  · intro j hj
    rw [Array.getElem?_modify, cntCol_snoc]
    by_cases h : t.col = j
    · subst h; simp [hxv _ hc, cntCol]; omega
    · simp [h, hxv _ hj, cntCol]
  · intro j hj r hr
    rw [cntCol_snoc] at hr
    rw [hk, Array.getElem?_setIfInBounds, List.filter_append]
    by_cases h : t.col = j
    · subst h
      simp only [if_true] at hr
      have hflen := cntCol_eq_length_filter p t.col
      have hsingle : List.filter (fun t' : Trip α => decide (t'.col = t.col)) [t] = [t] := by simp
      rw [hsingle]
      by_cases hr2 : r = cntCol p t.col
      · subst hr2
        simp only [if_true, hkb]
        rw [List.getElem?_append_right (by omega)]
        simp [hflen]
      · have hne : ¬ (cntLt ts t.col + cntCol p t.col = cntLt ts t.col + r) := by omega
        simp only [hne, if_false]
        rw [hov _ hc r (by omega), List.getElem?_append_left (by omega)]
    · have hnil : List.filter (fun t' : Trip α => decide (t'.col = j)) [t] = [] := by simp [h]
      simp only [h, if_false, Nat.add_zero] at hr
      rw [hnil, List.append_nil]
      have hne : ¬ (cntLt ts t.col + cntCol p t.col = cntLt ts j + r) := by
        have hj1 := hcnt j
        simp only [h, if_false] at hj1
        have hc1 := hcnt t.col
        simp only [if_true] at hc1
        rcases Nat.lt_or_gt_of_ne h with hlt | hgt
        · -- t.col < j : k < cntLt (t.col+1) ≤ cntLt j
          have := cntLt_mono ts (show t.col + 1 ≤ j by omega)
          have := cntLt_succ ts t.col
          omega
        · -- j < t.col
          have := cntLt_mono ts (show j + 1 ≤ t.col by omega)
          have := cntLt_succ ts j
          omega
      simp only [hne, if_false]
      exact hov _ hj r hr

theorem scatter_inv (n : Nat) (ts : List (Trip α)) (hall : ∀ t ∈ ts, t.col < n) :
    ∀ (q p : List (Trip α)) (xa : Array Nat) (out : Array (Trip α)), ts = p ++ q → ScInv n ts p xa out →
      ScInv n ts ts (scatter xa q out).1 (scatter xa q out).2 := by
  intro q
  induction q with
  | nil =>
    intro p xa out hts inv
    simp only [List.append_nil] at hts
    subst hts
    simpa [scatter] using inv
  | cons t q ih =>
    intro p xa out hts inv
    have hc : t.col < n := hall t (by rw [hts]; simp)
    have step := scInv_step n ts p q t xa out hts hc inv
    have := ih (p ++ [t]) _ _ (by rw [hts]; simp) step
    simpa [scatter, List.foldl_cons] using this

/-- **Counting sort = stable grouping by column.**  For in-range column indices the pointer array has
`n+1` entries with `colptr[j] = #{triplets with column < j}` and the storage segment of column `j`
is exactly the sub-list of triplets of that column, in file order. -/
theorem cscOfTriplets_spec [Inhabited α] (n : Nat) (ts : List (Trip α)) (hall : ∀ t ∈ ts, t.col < n) :
    (cscOfTriplets n ts).1.size = n + 1 ∧ (cscOfTriplets n ts).2.size = ts.length ∧
    (∀ j, j ≤ n → (cscOfTriplets n ts).1[j]? = some (cntLt ts j)) ∧
    (∀ j, j < n → colSeg (cscOfTriplets n ts).1 (cscOfTriplets n ts).2 j = ts.filter (fun t => decide (t.col = j))) := by
  have inv0 : ScInv n ts [] (startsOf (countCols n ts)) (Array.replicate ts.length default) := by
    refine ⟨starts_size n ts, by simp, ?_, ?_⟩
    · intro j hj; rw [starts_getElem? n ts j hj]; simp [cntCol]
    · intro j _ r hr; simp [cntCol] at hr
  have inv := scatter_inv n ts hall ts [] _ _ (by simp) inv0
  obtain ⟨hxs, hos, hxv, hov⟩ := inv
  have hptr : ∀ j, j ≤ n → (cscOfTriplets n ts).1[j]? = some (cntLt ts j) := by
    intro j hj
    simp only [cscOfTriplets]
    rw [Array.getElem?_append]
    cases j with
    | zero => simp [cntLt_zero]
    | succ j =>
      have : ¬ (j + 1 < (#[0] : Array Nat).size) := by simp
      simp only [this, if_false]
      have h2 : j + 1 - (#[0] : Array Nat).size = j := by simp
      rw [h2, hxv j (by omega), cntLt_succ]
  refine ⟨?_, ?_, hptr, ?_⟩
  · simp only [cscOfTriplets, Array.size_append, hxs]; simp; omega
  · simpa [cscOfTriplets] using hos
  · intro j hj
    have h0 := hptr j (by omega)
    have h1 := hptr (j + 1) (by omega)
    unfold colSeg
    rw [Array.getD_eq_getD_getElem?, Array.getD_eq_getD_getElem?, h0, h1]
    simp only [Option.getD_some]
    have hsz : (cscOfTriplets n ts).2.size = ts.length := by simpa [cscOfTriplets] using hos
    have hle : cntLt ts (j + 1) ≤ ts.length := cntLt_le_length ts (j + 1)
    have hsucc := cntLt_succ ts j
    have hflen := cntCol_eq_length_filter ts j
    apply List.ext_getElem?
    intro r
    by_cases hr : r < cntCol ts j
    · rw [List.getElem?_take_of_lt (by omega), List.getElem?_drop, Array.getElem?_toList]
      have := hov j hj r hr
      simpa [cscOfTriplets] using this
    · rw [List.getElem?_eq_none (by simp [List.length_take]; omega), List.getElem?_eq_none (by omega)]

/-! ### symmetric expansions -/

theorem swap_swap (t : Trip α) : t.swap.swap = t := by cases t; rfl

theorem mmExpand_cons (t : Trip α) (ts : List (Trip α)) :
    mmExpand (t :: ts) = (if t.row ≠ t.col then [t, t.swap] else [t]) ++ mmExpand ts := by
  simp [mmExpand]

theorem mmExpand_length (ts : List (Trip α)) :
    (mmExpand ts).length + ts.countP (fun t => decide (t.row = t.col)) = 2 * ts.length := by
  induction ts with
  | nil => simp [mmExpand]
  | cons t ts ih =>
    rw [mmExpand_cons, List.length_append, List.countP_cons, List.length_cons]
    by_cases h : t.row = t.col
    · simp only [h, ne_eq, not_true_eq_false, if_false, List.length_cons, List.length_nil, decide_true, if_true]
      omega
    · simp only [h, ne_eq, not_false_eq_true, if_true, List.length_cons, List.length_nil, decide_false]
      simp only [Bool.false_eq_true, if_false]
      omega

theorem mem_mmExpand (ts : List (Trip α)) (t : Trip α) :
    t ∈ mmExpand ts ↔ t ∈ ts ∨ (t.row ≠ t.col ∧ t.swap ∈ ts) := by
  simp only [mmExpand, List.mem_flatMap]
  constructor
  · rintro ⟨e, he, ht⟩
    by_cases h : e.row = e.col
    · simp [h] at ht; subst ht; exact Or.inl he
    · simp only [ne_eq, h, not_false_eq_true, if_true, List.mem_cons, List.not_mem_nil, or_false] at ht
      rcases ht with rfl | rfl
      · exact Or.inl he
      · right; refine ⟨?_, by rw [swap_swap]; exact he⟩
        simp only [Trip.swap]; exact fun h' => h h'.symm
  · rintro (h | ⟨hne, hs⟩)
    · refine ⟨t, h, ?_⟩; by_cases h' : t.row = t.col <;> simp [h']
    · refine ⟨t.swap, hs, ?_⟩
      have : t.swap.row ≠ t.swap.col := by simp only [Trip.swap]; exact fun h' => hne h'.symm
      simp [this, swap_swap]

/-- splitting a count along the values of an index function -/
theorem countP_fiber_succ {β : Type} (f : β → Nat) (P : β → Bool) (l : List β) (n : Nat) :
    l.countP (fun e => decide (f e < n + 1) && P e) =
      l.countP (fun e => decide (f e < n) && P e) + l.countP (fun e => decide (f e = n) && P e) := by
  induction l with
  | nil => simp
  | cons e l ih =>
    simp only [List.countP_cons, ih]
    by_cases h1 : f e < n <;> by_cases h2 : f e = n <;> cases hP : P e <;>
      simp [h1, h2, show (f e < n + 1) ↔ (f e < n ∨ f e = n) by omega] <;> omega

theorem sum_countP_fiber {β : Type} (f : β → Nat) (P : β → Bool) (l : List β) (n : Nat) :
    ((List.range n).map (fun j => l.countP (fun e => decide (f e = j) && P e))).sum =
      l.countP (fun e => decide (f e < n) && P e) := by
  induction n with
  | zero => simp
  | succ n ih => rw [List.range_succ, List.map_append, List.sum_append, ih, countP_fiber_succ]; simp

theorem formFull_eq [Inhabited α] (n : Nat) (es : List (Trip α)) :
    formFull n es = (List.range n).map fun j =>
      (colSeg (cscOfTriplets n (es.map Trip.swap)).1 (cscOfTriplets n (es.map Trip.swap)).2 j).filter
        (fun t => decide (t.row ≠ j)) ++ es.filter (fun t => decide (t.col = j)) := rfl

/-- column `j` of `FormFullA`'s result: the mirror images of the off-diagonal entries of row `j`
(in storage order) followed by the stored column `j` -/
theorem formFull_cols [Inhabited α] (n : Nat) (es : List (Trip α)) (hrow : ∀ e ∈ es, e.row < n) :
    formFull n es = (List.range n).map fun j =>
      (es.filter (fun e => decide (e.row = j) && decide (e.row ≠ e.col))).map Trip.swap ++
        es.filter (fun e => decide (e.col = j)) := by
  have hall : ∀ t ∈ es.map Trip.swap, t.col < n := by
    intro t ht
    obtain ⟨e, he, rfl⟩ := List.mem_map.mp ht
    exact hrow e he
  obtain ⟨_, _, _, hseg⟩ := cscOfTriplets_spec n (es.map Trip.swap) hall
  rw [formFull_eq]
  apply List.map_congr_left
  intro j hj
  have hj' : j < n := List.mem_range.mp hj
  rw [hseg j hj', List.filter_map, List.filter_map, List.filter_filter]
  congr 2
  apply List.filter_congr
  intro e _
  simp only [Function.comp, Trip.swap, ne_eq, decide_not, Bool.and_eq_true, Bool.not_eq_true',
    decide_eq_false_iff_not, decide_eq_true_eq]
  by_cases h1 : e.row = j <;> by_cases h2 : e.col = j <;> simp [h1, h2] <;> omega

theorem formFull_length [Inhabited α] (n : Nat) (es : List (Trip α)) : (formFull n es).length = n := by
  simp [formFull]

theorem formFull_count [Inhabited α] (n : Nat) (es : List (Trip α))
    (hrow : ∀ e ∈ es, e.row < n) (hcol : ∀ e ∈ es, e.col < n) :
    (formFull n es).flatten.length + es.countP (fun e => decide (e.row = e.col)) = 2 * es.length := by
  rw [formFull_cols n es hrow, List.length_flatten, List.map_map]
  have hfun : (List.length ∘ fun j =>
      (es.filter (fun e => decide (e.row = j) && decide (e.row ≠ e.col))).map Trip.swap ++
        es.filter (fun e => decide (e.col = j))) =
      fun j => es.countP (fun e => decide (e.row = j) && decide (e.row ≠ e.col)) +
        es.countP (fun e => decide (e.col = j) && true) := by
    funext j
    simp [List.countP_eq_length_filter]
  rw [hfun, List.sum_map_add, sum_countP_fiber (fun e : Trip α => e.row) (fun e => decide (e.row ≠ e.col)),
    sum_countP_fiber (fun e : Trip α => e.col) (fun _ => true)]
  have h1 : es.countP (fun e => decide (e.col < n) && true) = es.length := by
    rw [List.countP_eq_length]; intro e he; simpa using hcol e he
  have h2 : es.countP (fun e => decide (e.row < n) && decide (e.row ≠ e.col)) =
      es.countP (fun e => decide (¬ (decide (e.row = e.col) = true))) := by
    apply List.countP_congr
    intro e he
    have := hrow e he
    simp [this]
  have h3 := List.length_eq_countP_add_countP (fun e : Trip α => decide (e.row = e.col)) (l := es)
  rw [h1, h2]
  omega

theorem mem_formFull [Inhabited α] (n : Nat) (es : List (Trip α))
    (hrow : ∀ e ∈ es, e.row < n) (hcol : ∀ e ∈ es, e.col < n) (t : Trip α) :
    t ∈ (formFull n es).flatten ↔ t ∈ es ∨ (t.row ≠ t.col ∧ t.swap ∈ es) := by
  rw [formFull_cols n es hrow]
  simp only [List.mem_flatten, List.mem_map, List.mem_range]
  constructor
  · rintro ⟨l, ⟨j, hj, rfl⟩, ht⟩
    rcases List.mem_append.mp ht with h | h
    · obtain ⟨e, he, rfl⟩ := List.mem_map.mp h
      have := List.mem_filter.mp he
      simp only [ne_eq, decide_not, Bool.and_eq_true, decide_eq_true_eq, Bool.not_eq_true',
        decide_eq_false_iff_not] at this
      right
      refine ⟨?_, by rw [swap_swap]; exact this.1⟩
      simp only [Trip.swap]; exact fun h' => this.2.2 h'.symm
    · exact Or.inl (List.mem_filter.mp h).1
  · rintro (h | ⟨hne, hs⟩)
    · refine ⟨_, ⟨t.col, hcol t h, rfl⟩, ?_⟩
      apply List.mem_append_right
      exact List.mem_filter.mpr ⟨h, by simp⟩
    · have hr := hrow _ hs
      refine ⟨_, ⟨t.swap.row, hr, rfl⟩, ?_⟩
      apply List.mem_append_left
      refine List.mem_map.mpr ⟨t.swap, List.mem_filter.mpr ⟨hs, ?_⟩, swap_swap t⟩
      simp only [Trip.swap, ne_eq, decide_not, Bool.and_eq_true, decide_eq_true_eq, Bool.not_eq_true',
        decide_eq_false_iff_not, true_and]
      exact decide_eq_true (fun h' : t.col = t.row => hne h'.symm)

end Slu.Readers
