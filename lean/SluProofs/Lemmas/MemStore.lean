import Slu.Model.Mem
import SluProofs.Lemmas.Mem
/-
Contents lemmas for C07: the backward byte copy of `user_bcopy` is a `memmove`, and the data
movement of `expand` keeps every array's bytes.
-/
namespace Slu.Mem

/-- **`user_bcopy` is a correct overlapping move upward**: copying `n` bytes from `src` to
`dst ≥ src` with the descending loop leaves `m (a - (dst - src))` at every destination address and
nothing else changed — although source and destination overlap. -/
theorem bcopyDesc_spec {β : Type} (src dst : Int) (hd : src ≤ dst) :
    ∀ (n : Nat) (m : Int → β) (a : Int),
      bcopyDesc src dst n m a = if dst ≤ a ∧ a < dst + Int.ofNat n then m (a - (dst - src)) else m a := by
  intro n
  induction n with
  | zero =>
    intro m a
    simp only [bcopyDesc, Int.ofNat_eq_natCast]
    rw [if_neg (by omega)]
  | succ n ih =>
    intro m a
    simp only [bcopyDesc]
    rw [ih]
    simp only [Int.ofNat_eq_natCast]
    have hn : ((n + 1 : Nat) : Int) = (n : Int) + 1 := by omega
    by_cases h1 : dst ≤ a ∧ a < dst + (n : Int)
    · have h3 : dst ≤ a ∧ a < dst + ((n + 1 : Nat) : Int) := by omega
      have h4 : ¬ (a - (dst - src) = dst + (n : Int)) := by omega
      rw [if_pos h1, if_pos h3, if_neg h4]
    · rw [if_neg h1]
      by_cases h2 : a = dst + (n : Int)
      · have h3 : dst ≤ a ∧ a < dst + ((n + 1 : Nat) : Int) := by omega
        rw [if_pos h2, if_pos h3]
        congr 1; omega
      · have h3 : ¬ (dst ≤ a ∧ a < dst + ((n + 1 : Nat) : Int)) := by omega
        rw [if_neg h2, if_neg h3]

/-- **workspace mode**: after a granted expansion of array `t` to `nl` entries every byte of every
array's old capacity is where the new offsets say (later arrays were shifted by the overlapping
backward copy, `t` itself and earlier arrays did not move). -/
theorem shift_preserves {β : Type} (w : Words) (hw : w.Ok) (t : MemType) (nl : Int) (s : St)
    (hinv : Inv w s) (hge : s.cap t ≤ nl) (σ : Store β) (len : Int) (t' : MemType) (j : Int)
    (hj0 : 0 ≤ j) (hj : j < s.cap t' * w.lword t') :
    rbyte (moveStore w t len s
        { (shiftAfter t ((nl - s.cap t) * w.lword t) s).setCap t nl with nexp := s.nexp + 1 } σ)
      { (shiftAfter t ((nl - s.cap t) * w.lword t) s).setCap t nl with nexp := s.nexp + 1 } t' j
      = rbyte σ s t' j := by
  obtain ⟨hu, hne, hn0, hh0, hL0, hU0, hS0, hB0, hBU, c1, c2, c3, c4, c5, t12, t2s, hused, dl, il, d1, d2, d3⟩ := hinv
  have hdw := hw.dw_pos
  have hliw := hw.liw_pos
  have e5 : s.capB * w.liw ≤ s.capU * w.liw := Int.mul_le_mul_of_nonneg_right hBU (by omega)
  have eL : 0 ≤ s.capL * w.dw := Int.mul_nonneg hL0 (by omega)
  have eU : 0 ≤ s.capU * w.dw := Int.mul_nonneg hU0 (by omega)
  have eS : 0 ≤ s.capS * w.liw := Int.mul_nonneg hS0 (by omega)
  have eBU : 0 ≤ s.capU * w.liw := Int.mul_nonneg hU0 (by omega)
  have eB : 0 ≤ s.capB * w.liw := Int.mul_nonneg hB0 (by omega)
  cases t with
  | USUB => cases t' <;> simp [rbyte, moveStore, St.blk, St.boff, hu, shiftAfter, St.setCap, St.off]
  | LUSUP =>
    have ex : 0 ≤ (nl - s.capL) * w.dw := Int.mul_nonneg (by simp [St.cap] at hge; omega) (by omega)
    simp only [St.cap, Words.lword] at hge hj ⊢
    generalize (nl - s.capL) * w.dw = extra at *
    cases t' <;>
      simp only [rbyte, moveStore, St.blk, St.boff, hu, shiftAfter, St.setCap, St.off, MemType.next, if_true,
        St.cap, Words.lword] at hj ⊢ <;>
      rw [bcopyDesc_spec _ _ (by omega)] <;>
      simp only [Int.ofNat_eq_natCast] <;>
      split <;> first | (congr 1; omega) | omega | rfl
  | UCOL =>
    have ex : 0 ≤ (nl - s.capU) * w.dw := Int.mul_nonneg (by simp [St.cap] at hge; omega) (by omega)
    simp only [St.cap, Words.lword] at hge hj ⊢
    generalize (nl - s.capU) * w.dw = extra at *
    cases t' <;>
      simp only [rbyte, moveStore, St.blk, St.boff, hu, shiftAfter, St.setCap, St.off, MemType.next, if_true,
        St.cap, Words.lword] at hj ⊢ <;>
      rw [bcopyDesc_spec _ _ (by omega)] <;>
      simp only [Int.ofNat_eq_natCast] <;>
      split <;> first | (congr 1; omega) | omega | rfl
  | LSUB =>
    have ex : 0 ≤ (nl - s.capS) * w.liw := Int.mul_nonneg (by simp [St.cap] at hge; omega) (by omega)
    simp only [St.cap, Words.lword] at hge hj ⊢
    generalize (nl - s.capS) * w.liw = extra at *
    cases t' <;>
      simp only [rbyte, moveStore, St.blk, St.boff, hu, shiftAfter, St.setCap, St.off, MemType.next, if_true,
        St.cap, Words.lword] at hj ⊢ <;>
      rw [bcopyDesc_spec _ _ (by omega)] <;>
      simp only [Int.ofNat_eq_natCast] <;>
      split <;> first | (congr 1; omega) | omega | rfl

/-! ### library allocation -/

/-- invariant under library allocation: the four arrays live in four different blocks, all handed out
earlier -/
structure SysInv (s : St) : Prop where
  user : s.user = false
  nexp : 0 < s.nexp
  lL : 0 < s.offL ∧ s.offL ≤ (s.mallocs : Int)
  lU : 0 < s.offU ∧ s.offU ≤ (s.mallocs : Int)
  lS : 0 < s.offS ∧ s.offS ≤ (s.mallocs : Int)
  lB : 0 < s.offB ∧ s.offB ≤ (s.mallocs : Int)
  dLU : s.offL ≠ s.offU
  dLS : s.offL ≠ s.offS
  dLB : s.offL ≠ s.offB
  dUS : s.offU ≠ s.offS
  dUB : s.offU ≠ s.offB
  dSB : s.offS ≠ s.offB

/-- shape of the state after a granted expansion under library allocation: a fresh block number -/
theorem expand_sys_shape (fx : Fixes) (w : Words) (fail : Nat → Bool) (prev : Int) (t : MemType) (keep : Bool)
    (s : St) (hu : s.user = false) (hn : s.nexp ≠ 0) (nl : Int)
    (h : (expand fx w fail prev t keep s).2 = some nl) :
    ∃ c : Nat, s.mallocs < c ∧
      (expand fx w fail prev t keep s).1 =
        { (({ s with mallocs := c }).setOff t (Int.ofNat c)).setCap t nl with nexp := s.nexp + 1 } := by
  cases keep with
  | false =>
    rw [expand_sys_later _ _ _ _ _ _ hu hn] at h ⊢
    cases hf : sysSearch fx fail prev 10 1 (firstLen fx prev) s.mallocs with
    | mk r c =>
      cases r with
      | none => rw [hf] at h; simp at h
      | some r =>
        rw [hf] at h; simp at h; subst h
        obtain ⟨_, hc⟩ := sysSearch_spec _ _ _ _ _ _ _ _ _ hf
        exact ⟨c, hc, rfl⟩
  | true =>
    unfold expand at h ⊢
    rw [if_neg hn, if_pos hu, if_pos rfl] at h ⊢
    by_cases hfl : fail s.mallocs = true
    · simp [hfl] at h
    · simp only [hfl] at h ⊢
      simp at h; subst h
      refine ⟨s.mallocs + 1, by omega, ?_⟩
      simp

/-- **library allocation**: after a granted expansion the first `len_to_copy` elements of the expanded
array are in the new block, the other three arrays are untouched, and the four blocks are still
distinct. -/
theorem sys_preserves {β : Type} (fx : Fixes) (w : Words) (fail : Nat → Bool) (prev : Int) (t : MemType)
    (keep : Bool) (s : St) (hinv : SysInv s) (nl : Int)
    (h : (expand fx w fail prev t keep s).2 = some nl) (σ : Store β) (len : Int) :
    SysInv (expand fx w fail prev t keep s).1 ∧
    (∀ j, 0 ≤ j → j < len * w.lword t →
      rbyte (moveStore w t len s (expand fx w fail prev t keep s).1 σ) (expand fx w fail prev t keep s).1 t j
        = rbyte σ s t j) ∧
    (∀ t', t' ≠ t → ∀ j,
      rbyte (moveStore w t len s (expand fx w fail prev t keep s).1 σ) (expand fx w fail prev t keep s).1 t' j
        = rbyte σ s t' j) := by
  obtain ⟨c, hc, hs⟩ := expand_sys_shape fx w fail prev t keep s hinv.user (ne_of_gt hinv.nexp) nl h
  rw [hs]
  obtain ⟨hu, hne, lL, lU, lS, lB, dLU, dLS, dLB, dUS, dUB, dSB⟩ := hinv
  have hc' : (s.mallocs : Int) < (c : Int) := by omega
  refine ⟨?_, ?_, ?_⟩
  · cases t <;> constructor <;> simp [St.setOff, St.setCap, hu] <;> omega
  · intro j hj0 hj
    cases t <;>
      simp [rbyte, moveStore, St.blk, St.boff, hu, St.setOff, St.setCap, St.off, hj0, hj]
  · intro t' ht' j
    cases t <;> cases t' <;> simp_all [rbyte, moveStore, St.blk, St.boff, St.setOff, St.setCap, St.off] <;>
      intro h1 <;> omega

end Slu.Mem
