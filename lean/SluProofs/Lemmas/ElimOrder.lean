import SluProofs.Lemmas.LU
import Mathlib.Data.List.Nodup
/-
Order independence of the forward elimination `Slu.LU.elim`.

The model eliminates a column by ALL previous L columns in natural order.  The real code
([sdcz]panel_dfs / column_dfs / panel_bmod / column_bmod) visits only the columns reached by a
depth-first search, in a topological order of the dependency relation "L_k(p_k') ≠ 0".  This file
proves, in exact arithmetic over any field, that this makes no difference:

* `elim_perm_unitLower`  — two `UnitLower` orderings of the same columns give the same remaining
  vector and the same multiplier for every column;
* `DepRespecting`, `elim_depRespecting` — the same, stated for a permutation that respects the
  dependencies of a `UnitLower` list (the two formulations are equivalent: `unitLower_of_depRespecting`);
* `elim_skip_zero`, `elim_filter` — columns whose multiplier is zero can be left out;
* `elim_schedule` — both together: a dependency-respecting order of any subset of the columns that
  contains every column with a nonzero multiplier.

No range hypothesis (`p < w.size`) and no separate distinctness hypothesis is needed: `UnitLower`
already forces the pivots to be pairwise distinct (`UnitLower.nodup_pivots`), and an out-of-range
pivot reads 0 before and after every update.
-/
namespace Slu.LU
open Slu List

variable {K : Type} [Field K]

/-! ### vector updates -/

/-- an update by a column that vanishes at row `i` leaves row `i` alone (no range hypothesis) -/
theorem axpy_get_of_zero (w l : Vec K) (u : K) (i : Nat) (h : l.get i = 0) :
    (axpy w l u).get i = w.get i := by
  by_cases hi : i < w.size
  · rw [axpy_get w l u i hi, h]; ring
  · rw [get_of_size_le _ i (by simpa using Nat.le_of_not_lt hi), get_of_size_le _ i (Nat.le_of_not_lt hi)]

/-- two column updates commute (as arrays) -/
theorem axpy_comm (w l l' : Vec K) (u u' : K) : axpy (axpy w l u) l' u' = axpy (axpy w l' u') l u := by
  apply Array.ext
  · simp
  · intro i h1 h2
    simp [axpy]
    ring

/-- an update with multiplier zero does nothing (as arrays) -/
theorem axpy_zero (w l : Vec K) : axpy w l 0 = w := by
  apply Array.ext
  · simp
  · intro i h1 h2
    simp [axpy]

theorem vec_ext_get (v w : Vec K) (hs : v.size = w.size) (h : ∀ i < w.size, v.get i = w.get i) : v = w := by
  apply Array.ext hs
  intro i h1 h2
  have := h i h2
  simpa [Vec.get, Array.getD, h1, h2] using this

/-! ### `elim` on concatenations -/

theorem elim_cons (x : Nat × Vec K) (rest : List (Nat × Vec K)) (w : Vec K) :
    elim (x :: rest) w =
      ((elim rest (axpy w x.2 (w.get x.1))).1, w.get x.1 :: (elim rest (axpy w x.2 (w.get x.1))).2) := by
  obtain ⟨p, l⟩ := x; rfl

theorem elim_append (A B : List (Nat × Vec K)) (w : Vec K) :
    elim (A ++ B) w = ((elim B (elim A w).1).1, (elim A w).2 ++ (elim B (elim A w).1).2) := by
  induction A generalizing w with
  | nil => simp [elim]
  | cons x A ih => simp [elim_cons, ih]

/-- a row where all the columns vanish is not touched -/
theorem elim_get_of_zero (A : List (Nat × Vec K)) (w : Vec K) (i : Nat) (h : ∀ y ∈ A, y.2.get i = 0) :
    (elim A w).1.get i = w.get i := by
  induction A generalizing w with
  | nil => simp [elim]
  | cons x A ih =>
    rw [elim_cons]
    simp only
    rw [ih _ (fun y hy => h y (mem_cons_of_mem _ hy)), axpy_get_of_zero _ _ _ _ (h x mem_cons_self)]

/-- the multiplier of the column at position `A.length` of `A ++ x :: B` is the value the running
vector has at its pivot row after the columns of `A` -/
theorem elim_mult_at (A B : List (Nat × Vec K)) (x : Nat × Vec K) (w : Vec K) :
    (elim (A ++ x :: B) w).2[A.length]? = some ((elim A w).1.get x.1) := by
  rw [elim_append, elim_cons]
  simp [← elim_length A w]

/-! ### `UnitLower` as "ones on the diagonal" + `Pairwise` -/

theorem unitLower_iff (Ls : List (Nat × Vec K)) :
    UnitLower Ls ↔ (∀ x ∈ Ls, x.2.get x.1 = 1) ∧ Ls.Pairwise (fun a b => b.2.get a.1 = 0) := by
  induction Ls with
  | nil => simp [UnitLower]
  | cons x rest ih =>
    obtain ⟨p, l⟩ := x
    simp only [UnitLower, ih, mem_cons, forall_eq_or_imp, pairwise_cons]
    tauto

theorem UnitLower.sublist {Ls Ls' : List (Nat × Vec K)} (h : UnitLower Ls) (hs : Ls' <+ Ls) : UnitLower Ls' := by
  rw [unitLower_iff] at h ⊢
  exact ⟨fun x hx => h.1 x (hs.subset hx), h.2.sublist hs⟩

/-- `UnitLower` forces pairwise distinct pivot rows (`L_k(p_k) = 1` but `L_k(p_k') = 0` for `k' < k`) -/
theorem UnitLower.nodup_pivots {Ls : List (Nat × Vec K)} (h : UnitLower Ls) : (Ls.map Prod.fst).Nodup := by
  rw [unitLower_iff] at h
  rw [List.Nodup, pairwise_map]
  refine (Pairwise.and_mem.mp h.2).imp ?_
  rintro a b ⟨ha, hb, hab⟩ heq
  have h1 := h.1 b hb
  rw [← heq, hab] at h1
  exact zero_ne_one h1

theorem UnitLower.nodup {Ls : List (Nat × Vec K)} (h : UnitLower Ls) : Ls.Nodup :=
  Nodup.of_map _ h.nodup_pivots

/-! ### moving an independent column to the front -/

/-- If `x` and every column of `A` are mutually independent (each vanishes at the other's pivot row),
`x` can be eliminated before `A` instead of after it: same remaining vector, and every column keeps
its multiplier. -/
theorem elim_move_front (A B : List (Nat × Vec K)) (x : Nat × Vec K) (w : Vec K)
    (h : ∀ y ∈ A, x.2.get y.1 = 0 ∧ y.2.get x.1 = 0) :
    (elim (A ++ x :: B) w).1 = (elim (x :: (A ++ B)) w).1 ∧
    ((A ++ x :: B).zip (elim (A ++ x :: B) w).2).Perm ((x :: (A ++ B)).zip (elim (x :: (A ++ B)) w).2) := by
  induction A generalizing w with
  | nil => exact ⟨rfl, Perm.refl _⟩
  | cons y A ih =>
    obtain ⟨hxy, hyx⟩ := h y mem_cons_self
    obtain ⟨ih1, ih2⟩ := ih (axpy w y.2 (w.get y.1)) (fun z hz => h z (mem_cons_of_mem _ hz))
    have e1 : (axpy w y.2 (w.get y.1)).get x.1 = w.get x.1 := axpy_get_of_zero _ _ _ _ hyx
    have e2 : (axpy w x.2 (w.get x.1)).get y.1 = w.get y.1 := axpy_get_of_zero _ _ _ _ hxy
    have e3 := axpy_comm w y.2 x.2 (w.get y.1) (w.get x.1)
    rw [elim_cons, e1, e3] at ih1 ih2
    simp only [cons_append]
    constructor
    · rw [elim_cons, ih1, elim_cons x, elim_cons y, e2]
    · rw [elim_cons y, elim_cons x, elim_cons y, e2]
      simp only [zip_cons_cons] at ih2 ⊢
      exact (Perm.cons _ ih2).trans (Perm.swap _ _ _)

/-- **Adjacent swap.** Two adjacent independent columns commute: same vector, same two multipliers. -/
theorem elim_swap (x y : Nat × Vec K) (B : List (Nat × Vec K)) (w : Vec K)
    (hxy : x.2.get y.1 = 0) (hyx : y.2.get x.1 = 0) :
    (elim (y :: x :: B) w).1 = (elim (x :: y :: B) w).1 ∧
    (elim (y :: x :: B) w).2.take 2 = [w.get y.1, w.get x.1] ∧
    (elim (x :: y :: B) w).2.take 2 = [w.get x.1, w.get y.1] ∧
    (elim (y :: x :: B) w).2.drop 2 = (elim (x :: y :: B) w).2.drop 2 := by
  have e1 : (axpy w y.2 (w.get y.1)).get x.1 = w.get x.1 := axpy_get_of_zero _ _ _ _ hyx
  have e2 : (axpy w x.2 (w.get x.1)).get y.1 = w.get y.1 := axpy_get_of_zero _ _ _ _ hxy
  have e3 := axpy_comm w y.2 x.2 (w.get y.1) (w.get x.1)
  simp only [elim_cons, e1, e2, e3, take_succ_cons, take_zero, drop_succ_cons, drop_zero, and_self]

/-! ### order independence -/

/-- **Order independence (symmetric form).** If `Ls` and `Ls'` are two orderings of the same columns
and BOTH are unit lower (ones at the own pivot, every later column vanishes at every earlier pivot),
then eliminating in either order leaves the same vector and computes the same multiplier for every
column (`zip` pairs each column with its multiplier). -/
theorem elim_perm_unitLower (Ls Ls' : List (Nat × Vec K)) (w : Vec K)
    (hU : UnitLower Ls) (hU' : UnitLower Ls') (hp : Ls'.Perm Ls) :
    (elim Ls' w).1 = (elim Ls w).1 ∧ (Ls'.zip (elim Ls' w).2).Perm (Ls.zip (elim Ls w).2) := by
  induction Ls generalizing Ls' w with
  | nil => rw [hp.eq_nil]; exact ⟨rfl, Perm.refl _⟩
  | cons x rest ih =>
    obtain ⟨A, B, rfl⟩ := append_of_mem (hp.symm.subset mem_cons_self)
    have hU0 := hU
    rw [unitLower_iff] at hU hU'
    have hrest : (A ++ B).Perm rest := (perm_middle.symm.trans hp).cons_inv
    have hUAB : UnitLower (A ++ B) := by
      rw [unitLower_iff]
      refine ⟨fun z hz => hU'.1 z ?_, hU'.2.sublist ?_⟩
      · rcases mem_append.mp hz with hz | hz
        · exact mem_append_left _ hz
        · exact mem_append_right _ (mem_cons_of_mem _ hz)
      · exact Sublist.append (Sublist.refl A) (sublist_cons_self x B)
    have hUrest : UnitLower rest := UnitLower.sublist hU0 (sublist_cons_self x rest)
    have hind : ∀ y ∈ A, x.2.get y.1 = 0 ∧ y.2.get x.1 = 0 := by
      intro y hy
      have h1 : x.2.get y.1 = 0 := (pairwise_append.mp hU'.2).2.2 y hy x mem_cons_self
      refine ⟨h1, ?_⟩
      rcases mem_cons.mp (hp.subset (mem_append_left _ hy)) with rfl | hyr
      · rw [hU.1 y mem_cons_self] at h1; exact absurd h1 one_ne_zero
      · exact (pairwise_cons.mp hU.2).1 y hyr
    obtain ⟨m1, m2⟩ := elim_move_front A B x w hind
    obtain ⟨i1, i2⟩ := ih (A ++ B) (axpy w x.2 (w.get x.1)) hUrest hUAB hrest
    constructor
    · rw [m1, elim_cons, elim_cons x rest, i1]
    · refine m2.trans ?_
      rw [elim_cons, elim_cons x rest]
      simp only [zip_cons_cons]
      exact Perm.cons _ i2

/-- `Ls'` RESPECTS THE DEPENDENCIES of `Ls`: whenever column `a` occurs before column `b` in `Ls`
and `b`'s pivot row is in the structure of `a` (so that `a`'s update changes the multiplier of `b`),
`a` also occurs before `b` in `Ls'`.  (`[a, b] <+ l` says: `a` occurs before `b` in `l`.) -/
def DepRespecting (Ls Ls' : List (Nat × Vec K)) : Prop :=
  ∀ a b, [a, b] <+ Ls → a.2.get b.1 ≠ 0 → [a, b] <+ Ls'

theorem pair_sublist_or {α : Type} (L : List α) (a b : α) (ha : a ∈ L) (hb : b ∈ L) (hab : a ≠ b) :
    [a, b] <+ L ∨ [b, a] <+ L := by
  induction L with
  | nil => simp at ha
  | cons c L ih =>
    rcases mem_cons.mp ha with rfl | ha' <;> rcases mem_cons.mp hb with rfl | hb'
    · exact absurd rfl hab
    · exact Or.inl (Sublist.cons_cons _ (singleton_sublist.mpr hb'))
    · exact Or.inr (Sublist.cons_cons _ (singleton_sublist.mpr ha'))
    · rcases ih ha' hb' with h | h
      · exact Or.inl (h.cons _)
      · exact Or.inr (h.cons _)

theorem pair_sublist_antisymm {α : Type} (L : List α) (hL : L.Nodup) (a b : α)
    (h1 : [a, b] <+ L) (h2 : [b, a] <+ L) : False := by
  have he := (hL.perm_iff_eq_of_sublist h1 h2).mp (Perm.swap _ _ _)
  have hab : a = b := by simp at he; exact he.1
  subst hab
  have := h1.nodup hL
  simp at this

/-- a dependency-respecting permutation of a unit lower list is itself unit lower … -/
theorem unitLower_of_depRespecting (Ls Ls' : List (Nat × Vec K))
    (hU : UnitLower Ls) (hp : Ls'.Perm Ls) (hd : DepRespecting Ls Ls') : UnitLower Ls' := by
  have hnd : Ls.Nodup := hU.nodup
  have hnd' : Ls'.Nodup := hp.nodup_iff.mpr hnd
  rw [unitLower_iff] at hU ⊢
  refine ⟨fun x hx => hU.1 x (hp.subset hx), pairwise_iff_forall_sublist.mpr ?_⟩
  intro a b hab
  by_contra hne
  have ha : a ∈ Ls := hp.subset (hab.subset (by simp))
  have hb : b ∈ Ls := hp.subset (hab.subset (by simp))
  have hneq : b ≠ a := by
    rintro rfl
    have := hab.nodup hnd'
    simp at this
  rcases pair_sublist_or Ls b a hb ha hneq with h | h
  · exact pair_sublist_antisymm Ls' hnd' a b hab (hd b a h hne)
  · exact hne (pairwise_iff_forall_sublist.mp hU.2 h)

/-- … and conversely every unit lower permutation respects the dependencies, so the two
formulations of "topological order" coincide. -/
theorem depRespecting_of_unitLower (Ls Ls' : List (Nat × Vec K))
    (hU : UnitLower Ls) (hU' : UnitLower Ls') (hp : Ls'.Perm Ls) : DepRespecting Ls Ls' := by
  intro a b hab hne
  have ha : a ∈ Ls' := hp.symm.subset (hab.subset (by simp))
  have hb : b ∈ Ls' := hp.symm.subset (hab.subset (by simp))
  have hneq : a ≠ b := by
    rintro rfl
    have := hab.nodup hU.nodup
    simp at this
  rcases pair_sublist_or Ls' a b ha hb hneq with h | h
  · exact h
  · exact absurd (pairwise_iff_forall_sublist.mp ((unitLower_iff _).mp hU').2 h) hne

/-- **Order independence.** `Ls` unit lower, `Ls'` a permutation of `Ls` that respects the
dependencies.  Then (a) the remaining vector is the same and (b) every column gets the same
multiplier in both orders. -/
theorem elim_depRespecting (Ls Ls' : List (Nat × Vec K)) (w : Vec K)
    (hU : UnitLower Ls) (hp : Ls'.Perm Ls) (hd : DepRespecting Ls Ls') :
    (elim Ls' w).1 = (elim Ls w).1 ∧ (Ls'.zip (elim Ls' w).2).Perm (Ls.zip (elim Ls w).2) :=
  elim_perm_unitLower Ls Ls' w hU (unitLower_of_depRespecting Ls Ls' hU hp hd) hp

/-! ### reading a multiplier by pivot row -/

/-- the multiplier that the elimination in the order `Ls` computes for the column whose pivot row
is `p` (0 when there is no such column) -/
def multAt (Ls : List (Nat × Vec K)) (us : List K) (p : Nat) : K :=
  match (Ls.zip us).find? (fun e => e.1.1 == p) with
  | some e => e.2
  | none => 0

theorem find?_key_of_mem {α : Type} (key : α → Nat) (L : List α) (hnd : (L.map key).Nodup) (e : α) (he : e ∈ L) :
    L.find? (fun z => key z == key e) = some e := by
  induction L with
  | nil => simp at he
  | cons c L ih =>
    rw [map_cons, nodup_cons] at hnd
    rcases mem_cons.mp he with rfl | he'
    · simp
    · have hne : key c ≠ key e := fun h => hnd.1 (h ▸ mem_map_of_mem he')
      rw [find?_cons_of_neg (by simpa using hne)]
      exact ih hnd.2 he'

omit [Field K] in
theorem zip_fst_nodup {β : Type} (Ls : List (Nat × Vec K)) (us : List β) (h : (Ls.map Prod.fst).Nodup) :
    ((Ls.zip us).map (fun e => e.1.1)).Nodup := by
  induction Ls generalizing us with
  | nil => simp
  | cons x rest ih =>
    cases us with
    | nil => simp
    | cons u us =>
      rw [map_cons, nodup_cons] at h
      rw [zip_cons_cons, map_cons, nodup_cons]
      refine ⟨?_, ih us h.2⟩
      intro hmem
      obtain ⟨e, he, he1⟩ := mem_map.mp hmem
      exact h.1 (he1 ▸ mem_map_of_mem (of_mem_zip he).1)

theorem multAt_of_mem (Ls : List (Nat × Vec K)) (us : List K) (h : (Ls.map Prod.fst).Nodup)
    (x : Nat × Vec K) (u : K) (hx : (x, u) ∈ Ls.zip us) : multAt Ls us x.1 = u := by
  unfold multAt
  rw [find?_key_of_mem (fun e : (Nat × Vec K) × K => e.1.1) _ (zip_fst_nodup Ls us h) (x, u) hx]

theorem multAt_of_not_mem (Ls : List (Nat × Vec K)) (us : List K) (p : Nat) (h : p ∉ Ls.map Prod.fst) :
    multAt Ls us p = 0 := by
  unfold multAt
  rw [find?_eq_none.mpr]
  intro e he
  simp only [beq_iff_eq]
  rintro rfl
  exact h (mem_map_of_mem (of_mem_zip he).1)

/-- (b) in lookup form: the multiplier of the column with pivot row `p` does not depend on the order -/
theorem multAt_depRespecting (Ls Ls' : List (Nat × Vec K)) (w : Vec K)
    (hU : UnitLower Ls) (hp : Ls'.Perm Ls) (hd : DepRespecting Ls Ls') (p : Nat) :
    multAt Ls' (elim Ls' w).2 p = multAt Ls (elim Ls w).2 p := by
  have hU' := unitLower_of_depRespecting Ls Ls' hU hp hd
  have hz := (elim_depRespecting Ls Ls' w hU hp hd).2
  by_cases hmem : p ∈ Ls.map Prod.fst
  · obtain ⟨x, hx, rfl⟩ := mem_map.mp hmem
    obtain ⟨k, hk, rfl⟩ := getElem_of_mem hx
    have hk2 : k < (elim Ls w).2.length := by rw [elim_length]; exact hk
    have hmemz : (Ls[k], (elim Ls w).2[k]) ∈ Ls.zip (elim Ls w).2 := by
      have : (Ls.zip (elim Ls w).2)[k]'(by simp [hk, hk2]) = (Ls[k], (elim Ls w).2[k]) := by simp
      rw [← this]; exact getElem_mem _
    rw [multAt_of_mem Ls _ hU.nodup_pivots _ _ hmemz,
      multAt_of_mem Ls' _ hU'.nodup_pivots _ _ (hz.symm.subset hmemz)]
  · rw [multAt_of_not_mem Ls _ p hmem, multAt_of_not_mem Ls' _ p (fun h => hmem ((hp.map _).subset h))]

/-! ### skipping columns with a zero multiplier -/

/-- **(c) one column.** If the running vector vanishes at the pivot row of `x` when `x`'s turn
comes (its multiplier is 0, `elim_mult_at`), leaving `x` out changes neither the remaining vector
nor any other multiplier. -/
theorem elim_skip_zero (A B : List (Nat × Vec K)) (x : Nat × Vec K) (w : Vec K)
    (h : (elim A w).1.get x.1 = 0) :
    (elim (A ++ x :: B) w).1 = (elim (A ++ B) w).1 ∧
    (elim (A ++ x :: B) w).2 = (elim A w).2 ++ 0 :: (elim B (elim A w).1).2 ∧
    (elim (A ++ B) w).2 = (elim A w).2 ++ (elim B (elim A w).1).2 := by
  simp [elim_append, elim_cons, h, axpy_zero]

/-- in particular a column that is not reached: the vector vanishes at its pivot row to begin with
and so do all the columns eliminated before it -/
theorem elim_skip_unreached (A B : List (Nat × Vec K)) (x : Nat × Vec K) (w : Vec K)
    (hw : w.get x.1 = 0) (hA : ∀ y ∈ A, y.2.get x.1 = 0) :
    (elim (A ++ x :: B) w).1 = (elim (A ++ B) w).1 ∧
    (elim (A ++ x :: B) w).2 = (elim A w).2 ++ 0 :: (elim B (elim A w).1).2 ∧
    (elim (A ++ B) w).2 = (elim A w).2 ++ (elim B (elim A w).1).2 :=
  elim_skip_zero A B x w (by rw [elim_get_of_zero A w x.1 hA, hw])

/-- **(c) any set of columns.** Keep only the columns selected by `keep`; if every dropped column
has multiplier 0 in the full elimination, the remaining vector is unchanged and the kept columns
keep their multipliers. -/
theorem elim_filter (keep : Nat × Vec K → Bool) (Ls : List (Nat × Vec K)) (w : Vec K)
    (h : ∀ e ∈ Ls.zip (elim Ls w).2, keep e.1 = false → e.2 = 0) :
    (elim (Ls.filter keep) w).1 = (elim Ls w).1 ∧
    (Ls.filter keep).zip (elim (Ls.filter keep) w).2 = (Ls.zip (elim Ls w).2).filter (fun e => keep e.1) := by
  induction Ls generalizing w with
  | nil => simp [elim]
  | cons x rest ih =>
    rw [elim_cons] at h
    simp only [zip_cons_cons, mem_cons, forall_eq_or_imp] at h
    obtain ⟨hx, hrest⟩ := h
    cases hk : keep x with
    | true =>
      obtain ⟨i1, i2⟩ := ih _ hrest
      rw [filter_cons_of_pos hk, elim_cons, elim_cons x rest]
      simp only [zip_cons_cons]
      rw [filter_cons_of_pos (by simpa using hk)]
      exact ⟨i1, by rw [i2]⟩
    | false =>
      have hu : w.get x.1 = 0 := hx hk
      rw [hu, axpy_zero] at hrest
      obtain ⟨i1, i2⟩ := ih _ hrest
      rw [filter_cons_of_neg (by simp [hk]), elim_cons x rest, hu, axpy_zero]
      simp only [zip_cons_cons]
      rw [filter_cons_of_neg (by simp [hk])]
      exact ⟨i1, i2⟩

/-- **Schedules.** `Ls` unit lower (the model's natural order).  A schedule `σ` that
* consists of the columns selected by `keep` (each once),
* respects the dependencies among them, and
* leaves out only columns whose multiplier is 0
produces the model's remaining vector and, for every column it visits, the model's multiplier. -/
theorem elim_schedule (keep : Nat × Vec K → Bool) (Ls σ : List (Nat × Vec K)) (w : Vec K)
    (hU : UnitLower Ls) (hp : σ.Perm (Ls.filter keep)) (hd : DepRespecting (Ls.filter keep) σ)
    (h : ∀ e ∈ Ls.zip (elim Ls w).2, keep e.1 = false → e.2 = 0) :
    (elim σ w).1 = (elim Ls w).1 ∧
    (σ.zip (elim σ w).2).Perm ((Ls.zip (elim Ls w).2).filter (fun e => keep e.1)) := by
  obtain ⟨f1, f2⟩ := elim_filter keep Ls w h
  obtain ⟨d1, d2⟩ := elim_depRespecting (Ls.filter keep) σ w (hU.sublist filter_sublist) hp hd
  exact ⟨d1.trans f1, f2 ▸ d2⟩

/-- lookup form of `elim_schedule`: reading the multipliers of the schedule by pivot row gives the
model's multiplier for EVERY column of `Ls` (0 for the columns that were not visited) -/
theorem multAt_schedule (keep : Nat × Vec K → Bool) (Ls σ : List (Nat × Vec K)) (w : Vec K)
    (hU : UnitLower Ls) (hp : σ.Perm (Ls.filter keep)) (hd : DepRespecting (Ls.filter keep) σ)
    (h : ∀ e ∈ Ls.zip (elim Ls w).2, keep e.1 = false → e.2 = 0)
    (k : Nat) (hk : k < Ls.length) :
    multAt σ (elim σ w).2 (Ls[k]).1 = (elim Ls w).2.getD k 0 := by
  have hk2 : k < (elim Ls w).2.length := by rw [elim_length]; exact hk
  have hmemz : (Ls[k], (elim Ls w).2[k]) ∈ Ls.zip (elim Ls w).2 := by
    have : (Ls.zip (elim Ls w).2)[k]'(by simp [hk, hk2]) = (Ls[k], (elim Ls w).2[k]) := by simp
    rw [← this]; exact getElem_mem _
  have hUf : UnitLower (Ls.filter keep) := hU.sublist filter_sublist
  have hUσ := unitLower_of_depRespecting _ σ hUf hp hd
  have hz := (elim_schedule keep Ls σ w hU hp hd h).2
  rw [getD_eq_getElem?_getD, getElem?_eq_getElem hk2, Option.getD_some]
  cases hkeep : keep Ls[k] with
  | true =>
    have : (Ls[k], (elim Ls w).2[k]) ∈ (Ls.zip (elim Ls w).2).filter (fun e => keep e.1) :=
      mem_filter.mpr ⟨hmemz, hkeep⟩
    exact multAt_of_mem σ _ hUσ.nodup_pivots _ _ (hz.symm.subset this)
  | false =>
    have h0 : (elim Ls w).2[k] = 0 := h _ hmemz hkeep
    rw [h0]
    apply multAt_of_not_mem
    intro hmem
    obtain ⟨y, hy, hy1⟩ := mem_map.mp hmem
    have hyf : y ∈ Ls.filter keep := hp.subset hy
    have hyL : y ∈ Ls := (mem_filter.mp hyf).1
    have : y = Ls[k] := by
      have hinj := inj_on_of_nodup_map hU.nodup_pivots hyL (getElem_mem hk) hy1
      exact hinj
    rw [this] at hyf
    have := (mem_filter.mp hyf).2
    rw [hkeep] at this
    exact Bool.false_ne_true this

end Slu.LU
