import Slu.Model.Order
import Slu.Model.Symb
import SluProofs.Lemmas.Order
import SluProofs.Lemmas.EtreeDef
import SluProofs.Lemmas.Relax
import SluProofs.Lemmas.SymbSound
import SluProofs.Lemmas.SymbContain
import Mathlib.Algebra.BigOperators.Group.Finset.Basic
import Mathlib.Algebra.Field.Basic
/-
C03 / C10 — why a relaxed supernode has no entry above itself (`RelaxOk`), from the column elimination tree.

`Slu.Symb.RelaxOk n cols relaxEnd` (Lemmas/SymbContain.lean) is the set-level fact behind rule R1 of
`symbNaive`: no column of a relaxed supernode `[j..k]` of `B = Pr·A·Pc` has an entry in a row that was
already used as a pivot by a column `< j` (rows in PIVOT numbering: row `r` is the row pivotal at step `r`).
This file derives it from the two facts the ordering phase establishes:

  (T) the tree `et` handed to `relax_snode` is heap ordered and is "a column elimination tree" in the only
      sense the argument needs — `ShareDesc n cols et`: two columns `c1 < c2` that share a row have
      `c2` among the ancestors of `c1`;
  (S) every relaxed supernode `[j..k]` is EXACTLY the subtree of `k` (`relaxSnode_ranges`, Props/C10.lean).

Part 1 (trees).  `desc_of_walk`: in the elimination tree of ANY graph `E` — `IsEtree E n et`: `et[v]` is the
least later vertex joined to `v` by a walk through vertices `< v`, which is what `liu_least` /
`etreeOfGraph_least` / `coletree_eq_def` prove of `coletree` — a walk `a … b` whose interior vertices are
`< b` makes `b` an ancestor of `a`.  With `E` = the graph of `AᵀA` (`GE`: two columns adjacent iff they
share a row) an edge is such a walk: `shareDesc_of_isEtree`, `coletree_shareDesc` (Lemma 1).
`desc_chain`: the ancestors of a vertex of a heap-ordered forest form a chain ordered by index.
`shareDesc_relabel`: (T) survives the relabelling by a postorder (`sp_preorder`'s `etree'[post j] = post[etree j]`),
so it holds of the tree `sp_preorder` returns and the columns of `A·Pc` (`shareDesc_spPreorder`).

Part 2 (row merge).  `RowFill n cols r c`: the structural row-merge model of Gaussian elimination with the
pivot rows numbered by their step — row `r` has an entry in column `c` of B, or row `r` has a (structural)
entry in a column `t < r`, so it is updated by the pivot row `t`, whose (structural) entries in columns
`c > t` are merged into it.  `rowFill_desc` (Lemma 2): if every pivot row `t` is structurally nonzero in
its pivot column (`RowFill n cols t t`), then every structural entry `(r,c)` has `c` among the ancestors of
the FIRST column `f` of row `r` of B.  `rowFill_of_LU`: for ANY exact factorization `B = L·U` over a field
(L unit lower, U upper, `U(t,t) ≠ 0`) the nonzeros of row `r` of `L\U` are structural entries, hence
`rowFill_diag_of_LU`: the pivot hypothesis holds.

Part 3.  `relaxOk_of_subtrees`: (T) + (S) + the pivot hypothesis give `RelaxOk`.  A row `r < c` of a column
`c ∈ [j..k]`: `r` and `c` both lie on the chain of ancestors of the first column of row `r`, so `r` is a
descendant of `c`, hence of `k`, hence `j ≤ r`.

SymmetricMode.  Nothing above needs a postordered tree: `relaxOk_of_subtrees` asks for heap order, `ShareDesc`
and "every recorded supernode is a whole subtree".  In SymmetricMode `sp_preorder` returns the column
elimination tree without postordering and `heap_relax_snode` records whole subtrees of it
(`heapRelaxSnode_ranges`, Props/C10.lean), so the same theorem applies (Props/C03.lean, `…_sym`).
Part 4 is the variant for a tree that only knows the ENTRIES (`EntryDesc`: an entry `(r,c)` above the diagonal
makes `c` an ancestor of `r` — true of the elimination tree of `A + Aᵀ`, `entryDesc_symetree`): it gives
`RelaxOk` when the rows are not permuted (`relaxOk_of_entryDesc`), and only then (counterexample in
Props/C03.lean).
-/
namespace Slu.Order

/-! ### Part 1: trees -/

/-- in a heap-ordered forest a descendant has the smaller index -/
theorem desc_le {n : Nat} {et : Array Nat} (h : Heap n et) {u v : Nat} (hd : Desc n et u v) : u ≤ v := by
  induction hd with
  | refl v => exact Nat.le_refl _
  | step hu _ ih => have := (h.lt hu).1; omega

/-- **the ancestors of a vertex form a chain**: of two ancestors of `f` the one with the smaller index is
a descendant of the other -/
theorem desc_chain {n : Nat} {et : Array Nat} (h : Heap n et) {f a : Nat} (ha : Desc n et f a) :
    ∀ {b : Nat}, Desc n et f b → a ≤ b → Desc n et a b := by
  induction ha with
  | refl v => intro b hb _; exact hb
  | step hu hd ih =>
    intro b hb hab
    cases hb with
    | refl _ =>
      have h1 := desc_le h hd
      have h2 := (h.lt hu).1
      omega
    | step _ hb' => exact ih hb' hab

/-- decidable form of `Desc` on a heap-ordered forest: the vertices of the subtree of `v` are the list
`order et v` (used to discharge "postordered" hypotheses on concrete trees by evaluation) -/
theorem desc_iff_mem_order {n : Nat} {et : Array Nat} (h : Heap n et) {u v : Nat} (hv : v ≤ n) :
    Desc n et u v ↔ u ∈ order et v :=
  ⟨mem_order_of_desc h, desc_of_mem_order hv⟩

/-- `et` is the elimination tree of the graph `E` on the vertices `0..n-1`: `et[v]` is the least later
vertex joined to `v` by a walk whose interior vertices are `< v`, and `n` if there is none.  This is the
characterisation `liu_least` proves of Liu's algorithm and `etreeOfGraph_least` of the elimination game. -/
def IsEtree (E : Nat → Nat → Prop) (n : Nat) (et : Array Nat) : Prop :=
  ∀ v, v < n → Least (fun i => T E v i v) n v (et.getD v 0)

/-- follow a walk from `u ≤ a` until it first leaves `{0..a}`: either it does so at an interior vertex `x`,
or the whole interior is `≤ a` -/
theorem T.exit {E : Nat → Nat → Prop} {k a u w : Nat} (h : T E k u w) :
    u ≤ a → (∃ x, a < x ∧ x < k ∧ T E (a + 1) u x) ∨ T E (a + 1) u w := by
  induction h with
  | edge e => intro _; exact Or.inr (T.edge e)
  | via _ hm _ ih1 ih2 =>
    rename_i u m w _ _
    intro hu
    rcases ih1 hu with ⟨x, h1, h2, h3⟩ | h1
    · exact Or.inl ⟨x, h1, h2, h3⟩
    · by_cases hma : m ≤ a
      · rcases ih2 hma with ⟨x, g1, g2, g3⟩ | g
        · exact Or.inl ⟨x, g1, g2, T.via h1 (by omega) g3⟩
        · exact Or.inr (T.via h1 (by omega) g)
      · exact Or.inl ⟨m, by omega, hm, h1⟩

/-- **the subtree of `b` contains whatever reaches `b` through smaller vertices.**  In the elimination tree
of a symmetric graph, a walk from `a` to `b > a` whose interior vertices are all `< b` makes `b` an
ancestor of `a`. -/
theorem desc_of_walk {E : Nat → Nat → Prop} (hEs : ∀ a b, E a b → E b a) {n : Nat} {et : Array Nat}
    (het : IsEtree E n et) :
    ∀ d a b, b - a = d → a < b → b < n → T E b a b → Desc n et a b := by
  intro d
  induction d using Nat.strong_induction_on with
  | _ d ih =>
    intro a b hd hab hbn hw
    have han : a < n := by omega
    -- the first vertex `x > a` of the walk
    obtain ⟨x, hax, hxb, hx⟩ : ∃ x, a < x ∧ x ≤ b ∧ T E (a + 1) a x := by
      rcases T.exit (a := a) hw (Nat.le_refl _) with ⟨x, h1, h2, h3⟩ | h
      · exact ⟨x, h1, Nat.le_of_lt h2, h3⟩
      · exact ⟨b, hab, Nat.le_refl _, h⟩
    -- cut at the last visit of `a`
    have hx' : T E a a x := by
      rcases T.split hx with h | ⟨_, h | h⟩
      · exact h
      · omega
      · exact h
    have hxa : T E a x a := T.symm hEs hx'
    -- so the parent `p` of `a` exists, `p ≤ x ≤ b`, and `p` reaches `a` through smaller vertices
    rcases het a han with ⟨_, hnone⟩ | ⟨hap, hpn, hp, hmin⟩
    · exact absurd hxa (hnone x hax (by omega))
    · have hpx : et.getD a 0 ≤ x := by
        by_contra hc
        exact hmin x hax (by omega) hxa
      by_cases e : et.getD a 0 = b
      · exact Desc.step han (by rw [e]; exact Desc.refl _)
      · have hpb : et.getD a 0 < b := by omega
        have hw' : T E b (et.getD a 0) b := T.via (T.mono (Nat.le_of_lt hab) hp) hab hw
        exact Desc.step han (ih (b - et.getD a 0) (by omega) _ _ rfl hpb hbn hw')

/-- what the row-merge argument needs of the tree: two columns that share a row are related, the later
one is an ancestor of the earlier one -/
def ShareDesc (n : Nat) (col : Nat → List Nat) (et : Array Nat) : Prop :=
  ∀ c1 c2, c1 < c2 → c2 < n → (∃ r, r ∈ col c1 ∧ r ∈ col c2) → Desc n et c1 c2

/-- **Lemma 1.**  In the elimination tree of the graph of `AᵀA`, of two columns that share a row the later
one is an ancestor of the earlier one. -/
theorem shareDesc_of_isEtree {n : Nat} {col : Nat → List Nat} {et : Array Nat}
    (het : IsEtree (GE n col) n et) : ShareDesc n col et := by
  intro c1 c2 h12 h2 ⟨r, hr1, hr2⟩
  refine desc_of_walk GE.symm het _ c1 c2 rfl h12 h2 (T.edge ⟨by omega, h2, by omega, r, hr1, hr2⟩)

/-- `coletree` (Liu's algorithm, `sp_coletree.c`) is the elimination tree of the graph of `AᵀA`
(`coletree_eq_def` + `etreeOfGraph_least`) -/
theorem coletree_isEtree (nr nc : Nat) (col : Nat → List Nat) (hrow : ∀ c, c < nc → ∀ r ∈ col c, r < nr) :
    IsEtree (GE nc col) nc (coletree nr nc col) := by
  intro v hv
  rw [coletree_eq_etreeDef nr nc col hrow]
  exact (etreeOfGraph_least (E := GE nc col) GE.symm (fun a b h => h.2.2.1) nc
    (ataAdj nc col) (ataAdj_sq nc col) (ataAdj_get nc col)).2 v hv

theorem coletree_shareDesc (nr nc : Nat) (col : Nat → List Nat) (hrow : ∀ c, c < nc → ∀ r ∈ col c, r < nr) :
    ShareDesc nc col (coletree nr nc col) :=
  shareDesc_of_isEtree (coletree_isEtree nr nc col hrow)

/-- renumbering the ROWS by a map that is injective on the rows present does not change which columns
share a row -/
theorem ShareDesc.map_rows {n : Nat} {col : Nat → List Nat} {et : Array Nat} (h : ShareDesc n col et)
    (nr : Nat) (hrow : ∀ c, c < n → ∀ r ∈ col c, r < nr) (π : Nat → Nat)
    (hπ : ∀ i, i < nr → ∀ i', i' < nr → π i = π i' → i = i') :
    ShareDesc n (fun c => (col c).map π) et := by
  intro c1 c2 h12 h2 ⟨r, hr1, hr2⟩
  obtain ⟨i1, hi1, e1⟩ := List.mem_map.mp hr1
  obtain ⟨i2, hi2, e2⟩ := List.mem_map.mp hr2
  have : i1 = i2 := hπ i1 (hrow c1 (by omega) i1 hi1) i2 (hrow c2 h2 i2 hi2) (by rw [e1, e2])
  subst this
  exact h c1 c2 h12 h2 ⟨i1, hi1, hi2⟩

/-- renumbering the COLUMNS by a bijection `q` of `0..n-1` under which the tree is relabelled
(`et'[q j] = q[et j]`) and stays heap ordered — a postorder — keeps the property -/
theorem shareDesc_relabel {n : Nat} {col col' : Nat → List Nat} {et et' : Array Nat} {q : Nat → Nat}
    (h : ShareDesc n col et) (hheap' : Heap n et')
    (hq : ∀ j, j < n → q j < n) (hsurj : ∀ c, c < n → ∃ j, j < n ∧ q j = c)
    (hrel : ∀ j, j < n → et'.getD (q j) 0 = q (et.getD j 0))
    (hcol : ∀ j, j < n → col' (q j) = col j) : ShareDesc n col' et' := by
  intro c1 c2 h12 h2 ⟨r, hr1, hr2⟩
  obtain ⟨a, ha, rfl⟩ := hsurj c1 (by omega)
  obtain ⟨b, hb, rfl⟩ := hsurj c2 h2
  rw [hcol a ha] at hr1
  rw [hcol b hb] at hr2
  rcases Nat.lt_trichotomy a b with hab | hab | hab
  · exact desc_relabel hq hrel (h a b hab hb ⟨r, hr1, hr2⟩)
  · subst hab; omega
  · have := desc_le hheap' (desc_relabel hq hrel (h b a hab ha ⟨r, hr2, hr1⟩))
    omega

/-! ### Part 4 (trees): the elimination tree of `A + Aᵀ` -/

/-- `sp_symetree` on a structurally symmetric pattern is the elimination tree of its graph -/
theorem symetree_isEtree (n : Nat) (col : Nat → List Nat)
    (hsym : ∀ i j, i < n → j < n → i ∈ col j → j ∈ col i) :
    IsEtree (SymE n col) n (symetree n col) := by
  intro v hv
  rw [symetree_eq_etreeOfGraph n col hsym]
  exact (etreeOfGraph_least (E := SymE n col)
    (fun a b h => ⟨h.2.1, h.1, h.2.2.1.symm, h.2.2.2.symm⟩) (fun a b h => h.2.2.1) n
    (symAdj n col) (symAdj_sq n col) (symAdj_get n col)).2 v hv

/-- what a tree computed from the entries alone knows: an entry `(r, c)` above the diagonal makes `c` an
ancestor of `r` -/
def EntryDesc (n : Nat) (cols : Nat → List Nat) (et : Array Nat) : Prop :=
  ∀ c, c < n → ∀ r ∈ cols c, r < c → Desc n et r c

/-- the elimination tree of a symmetric pattern `col` has `EntryDesc` for every pattern `cols` whose entries
above the diagonal are entries of `col` -/
theorem entryDesc_symetree (n : Nat) (col cols : Nat → List Nat)
    (hsym : ∀ i j, i < n → j < n → i ∈ col j → j ∈ col i)
    (hsub : ∀ c, c < n → ∀ r ∈ cols c, r < c → r ∈ col c) : EntryDesc n cols (symetree n col) := by
  intro c hc r hr hrc
  exact desc_of_walk (E := SymE n col) (fun a b h => ⟨h.2.1, h.1, h.2.2.1.symm, h.2.2.2.symm⟩)
    (symetree_isEtree n col hsym) _ r c rfl hrc hc
    (T.edge ⟨by omega, hc, by omega, Or.inl (hsub c hc r hr hrc)⟩)

end Slu.Order

namespace Slu.Symb
open Slu Slu.Order

/-! ### Part 2: the row-merge model -/

/-- **structural row merge**, rows numbered by their pivot step.  `RowFill n cols r c`: row `r` has a
structural entry in column `c` when it becomes the pivot row (columns `c < r`: the multipliers `L(r,c)`;
columns `c ≥ r`: the row `U(r,·)`).  Either `(r,c)` is an entry of B, or row `r` has a structural entry in a
column `t < r` — so it is updated at step `t` by the pivot row `t` — and the pivot row `t` has a structural
entry in column `c > t`, which the update merges into row `r`. -/
inductive RowFill (n : Nat) (cols : Nat → List Nat) : Nat → Nat → Prop
  | orig {r c : Nat} : c < n → r ∈ cols c → RowFill n cols r c
  | fill {r t c : Nat} : t < r → t < c → RowFill n cols r t → RowFill n cols t c → RowFill n cols r c

theorem RowFill.lt_n {n : Nat} {cols : Nat → List Nat} {r c : Nat} (h : RowFill n cols r c) : c < n := by
  induction h with
  | orig hc _ => exact hc
  | fill _ _ _ _ _ ih => exact ih

/-- a row with a structural entry has an entry in B -/
theorem RowFill.row_nonempty {n : Nat} {cols : Nat → List Nat} {r c : Nat} (h : RowFill n cols r c) :
    ∃ c0, c0 < n ∧ r ∈ cols c0 := by
  induction h with
  | orig hc hr => exact ⟨_, hc, hr⟩
  | fill _ _ _ _ ih _ => exact ih

/-- `f` is the first column of row `r` of the pattern -/
def FirstCol (n : Nat) (cols : Nat → List Nat) (r f : Nat) : Prop :=
  f < n ∧ r ∈ cols f ∧ ∀ c, c < f → r ∉ cols c

theorem exists_firstCol {n : Nat} {cols : Nat → List Nat} {r : Nat} :
    ∀ c0, c0 < n → r ∈ cols c0 → ∃ f, FirstCol n cols r f := by
  intro c0
  induction c0 using Nat.strong_induction_on with
  | _ c0 ih =>
    intro hc hr
    by_cases hex : ∃ c, c < c0 ∧ r ∈ cols c
    · obtain ⟨c, hc1, hc2⟩ := hex
      exact ih c hc1 (by omega) hc2
    · exact ⟨c0, hc, hr, fun c hc1 hc2 => hex ⟨c, hc1, hc2⟩⟩

/-- **Lemma 2 (row-merge invariant).**  On a heap-ordered forest with `ShareDesc`, if every pivot row `t < n`
is structurally nonzero in its pivot column, every structural entry `(r,c)` has its column `c` among the
ancestors of the first column `f` of row `r`.  Strong induction on the row; inside, induction on the
derivation.  Merge step through `t`: `t ∈ anc(f)` (inner induction); the pivot row `t` has a first column
`f'` with `t, c ∈ anc(f')` (outer induction, `t < r`), so `c ∈ anc(t)` by the chain property as `t < c`. -/
theorem rowFill_desc {n : Nat} {cols : Nat → List Nat} {et : Array Nat} (h : Heap n et)
    (hs : ShareDesc n cols et) (hpiv : ∀ t, t < n → RowFill n cols t t) :
    ∀ r c, RowFill n cols r c → ∀ f, FirstCol n cols r f → Desc n et f c := by
  intro r
  induction r using Nat.strong_induction_on with
  | _ r ihr =>
    have inner : ∀ r' c, RowFill n cols r' c → r' = r → ∀ f, FirstCol n cols r f → Desc n et f c := by
      intro r' c hrc
      induction hrc with
      | @orig r' c hc hr =>
        intro e f ⟨hf, hrf, hmin⟩
        subst e
        rcases Nat.lt_trichotomy f c with hfc | hfc | hfc
        · exact hs f c hfc hc ⟨r', hrf, hr⟩
        · rw [hfc]; exact Desc.refl _
        · exact absurd hr (hmin c hfc)
      | @fill r' t c htr htc h1 h2 ih1 _ =>
        intro e f hf
        subst e
        have hft : Desc n et f t := ih1 rfl f hf
        have hcn : c < n := h2.lt_n
        have htn : t < n := by omega
        obtain ⟨c0, hc0, hr0⟩ := (hpiv t htn).row_nonempty
        obtain ⟨f', hf'⟩ := exists_firstCol c0 hc0 hr0
        have g1 : Desc n et f' t := ihr t htr t (hpiv t htn) f' hf'
        have g2 : Desc n et f' c := ihr t htr c h2 f' hf'
        exact desc_trans hft (desc_chain h g1 g2 (Nat.le_of_lt htc))
    intro c hrc f hf
    exact inner r c hrc rfl f hf

/-! ### Part 3: relaxed supernodes -/

/-- **Theorem.**  `et` heap ordered with `ShareDesc` for the pattern `cols` of `B = Pr·A·Pc` in pivot
numbering; every pivot row structurally nonzero in its pivot column; every relaxed supernode `[j..k]`
recorded by `relaxEnd` exactly the subtree of `k`.  Then no column of a relaxed supernode has an entry in
a row `< j`. -/
theorem relaxOk_of_subtrees {n : Nat} {cols : Nat → List Nat} {et : Array Nat} {relaxEnd : Nat → Option Nat}
    (h : Heap n et) (hs : ShareDesc n cols et) (hpiv : ∀ t, t < n → RowFill n cols t t)
    (hre : ∀ j k, relaxEnd j = some k → j ≤ k ∧ k < n ∧ ∀ u, u < n → (Desc n et u k ↔ j ≤ u ∧ u ≤ k)) :
    RelaxOk n cols relaxEnd := by
  intro j k hjk c hjc hck r hr
  obtain ⟨hjk', hkn, hsub⟩ := hre j k hjk
  have hck' : c ≤ k := by
    have : max j (min k (n - 1)) = k := by omega
    omega
  have hcn : c < n := by omega
  by_cases hrc : c ≤ r
  · omega
  · have hrc' : r < c := by omega
    have hrn : r < n := by omega
    obtain ⟨f, hf⟩ := exists_firstCol c hcn hr
    have g1 : Desc n et f r := rowFill_desc h hs hpiv r r (hpiv r hrn) f hf
    have g2 : Desc n et f c := rowFill_desc h hs hpiv r c (RowFill.orig hcn hr) f hf
    have g3 : Desc n et r c := desc_chain h g1 g2 (Nat.le_of_lt hrc')
    have g4 : Desc n et c k := (hsub c hcn).mpr ⟨hjc, hck'⟩
    exact ((hsub r hrn).mp (desc_trans g3 g4)).1

/-- **Part 4.**  Rows NOT permuted (`cols` is the pattern in its own row numbering, pivots on the diagonal):
if every entry above the diagonal makes its column an ancestor of its row (`EntryDesc`) and every recorded
supernode is exactly a subtree, no column of a relaxed supernode `[j..k]` has an entry in a row `< j`.  No
factorization and no `ShareDesc` is involved: an entry `(r, c)` with `r < c ≤ k` has `r` below `c` below `k`. -/
theorem relaxOk_of_entryDesc {n : Nat} {cols : Nat → List Nat} {et : Array Nat} {relaxEnd : Nat → Option Nat}
    (hs : EntryDesc n cols et)
    (hre : ∀ j k, relaxEnd j = some k → j ≤ k ∧ k < n ∧ ∀ u, u < n → (Desc n et u k ↔ j ≤ u ∧ u ≤ k)) :
    RelaxOk n cols relaxEnd := by
  intro j k hjk c hjc hck r hr
  obtain ⟨hjk', hkn, hsub⟩ := hre j k hjk
  have hck' : c ≤ k := by
    have : max j (min k (n - 1)) = k := by omega
    omega
  have hcn : c < n := by omega
  by_cases hrc : c ≤ r
  · omega
  · have g3 : Desc n et r c := hs c hcn r hr (by omega)
    have g4 : Desc n et c k := (hsub c hcn).mpr ⟨hjc, hck'⟩
    exact ((hsub r (by omega)).mp (desc_trans g3 g4)).1

/-! ### the pivot hypothesis from an exact factorization -/

variable {K : Type} [Field K]

/-- **the nonzeros of `L\U` are structural entries of the row-merge model.**  For ANY exact factorization
`B = L·U` over a field, L unit lower triangular, U upper triangular with nonzero diagonal, and any pattern
`cols` covering the nonzeros of B: `L(r,c) ≠ 0` (`c < r`) and `U(r,c) ≠ 0` give `RowFill n cols r c`.
Strong induction on the row `r`, inside it on the column `c` of L:
`L(r,c) U(c,c) = B(r,c) − Σ_{t<c} L(r,t) U(t,c)` and `U(r,c) = B(r,c) − Σ_{t<r} L(r,t) U(t,c)`. -/
theorem rowFill_of_LU (n : Nat) (B L U : Nat → Nat → K) (cols : Nat → List Nat)
    (hcols : ∀ i < n, ∀ j < n, B i j ≠ 0 → i ∈ cols j)
    (hB : ∀ i < n, ∀ j < n, B i j = ∑ t ∈ Finset.range n, L i t * U t j)
    (hL1 : ∀ i < n, L i i = 1) (hL0 : ∀ i < n, ∀ t < n, i < t → L i t = 0)
    (hU0 : ∀ t < n, ∀ j < n, j < t → U t j = 0) (hUd : ∀ j < n, U j j ≠ 0) :
    ∀ r < n, (∀ c < r, L r c ≠ 0 → RowFill n cols r c) ∧
      (∀ c < n, r ≤ c → U r c ≠ 0 → RowFill n cols r c) := by
  intro r
  induction r using Nat.strong_induction_on with
  | _ r ihr =>
    intro hr
    have hL : ∀ c < r, L r c ≠ 0 → RowFill n cols r c := by
      intro c
      induction c using Nat.strong_induction_on with
      | _ c ihc =>
        intro hcr hne
        have hc : c < n := by omega
        by_cases hb : B r c = 0
        · by_contra hnot
          apply hne
          have hz : ∀ t < c, L r t * U t c = 0 := by
            intro t ht
            by_contra hprod
            have h1 : L r t ≠ 0 := left_ne_zero_of_mul hprod
            have h2 : U t c ≠ 0 := right_ne_zero_of_mul hprod
            exact hnot (RowFill.fill (by omega) ht (ihc t ht (by omega) h1)
              ((ihr t (by omega) (by omega)).2 c hc (Nat.le_of_lt ht) h2))
          have hs := hB r hr c hc
          rw [hb, Finset.sum_eq_single c] at hs
          · exact (mul_eq_zero.mp hs.symm).resolve_right (hUd c hc)
          · intro t htn htc
            have htn' : t < n := Finset.mem_range.mp htn
            rcases Nat.lt_or_gt_of_ne htc with h | h
            · exact hz t h
            · rw [hU0 t htn' c hc h, mul_zero]
          · intro hc'; exact absurd (Finset.mem_range.mpr hc) hc'
        · exact RowFill.orig hc (hcols r hr c hc hb)
    refine ⟨hL, ?_⟩
    intro c hc hrc hne
    by_cases hb : B r c = 0
    · by_contra hnot
      apply hne
      have hz : ∀ t < r, L r t * U t c = 0 := by
        intro t ht
        by_contra hprod
        have h1 : L r t ≠ 0 := left_ne_zero_of_mul hprod
        have h2 : U t c ≠ 0 := right_ne_zero_of_mul hprod
        exact hnot (RowFill.fill ht (by omega) (hL t ht h1)
          ((ihr t ht (by omega)).2 c hc (by omega) h2))
      have hs := hB r hr c hc
      rw [hb, Finset.sum_eq_single r] at hs
      · rw [hL1 r hr, one_mul] at hs; exact hs.symm
      · intro t htn htr
        have htn' : t < n := Finset.mem_range.mp htn
        rcases Nat.lt_or_gt_of_ne htr with h | h
        · exact hz t h
        · rw [hL0 r hr t htn' h, zero_mul]
      · intro hr'; exact absurd (Finset.mem_range.mpr hr) hr'
    · exact RowFill.orig hc (hcols r hr c hc hb)

/-- the pivot hypothesis of `rowFill_desc` / `relaxOk_of_subtrees` holds for an exact factorization: the
pivot `U(t,t)` is nonzero, hence a structural entry -/
theorem rowFill_diag_of_LU (n : Nat) (B L U : Nat → Nat → K) (cols : Nat → List Nat)
    (hcols : ∀ i < n, ∀ j < n, B i j ≠ 0 → i ∈ cols j)
    (hB : ∀ i < n, ∀ j < n, B i j = ∑ t ∈ Finset.range n, L i t * U t j)
    (hL1 : ∀ i < n, L i i = 1) (hL0 : ∀ i < n, ∀ t < n, i < t → L i t = 0)
    (hU0 : ∀ t < n, ∀ j < n, j < t → U t j = 0) (hUd : ∀ j < n, U j j ≠ 0) :
    ∀ t, t < n → RowFill n cols t t :=
  fun t ht => (rowFill_of_LU n B L U cols hcols hB hL1 hL0 hU0 hUd t ht).2 t ht (Nat.le_refl _) (hUd t ht)

end Slu.Symb
