import Slu.Model.Kernels
import SluProofs.Lemmas.Kernels
/-
Lemmas for `sp_gemv_spec` (C14): folds that update an array at injectively chosen positions,
scatter-add folds, strided positions.
-/
namespace Slu.Kernels
open Finset

/-! ### strided positions are distinct -/

theorem vpos_inj (len : Nat) (inc : Int) (hinc : inc ≠ 0) (i j : Nat) (hi : i < len) (hj : j < len)
    (h : vpos len inc i = vpos len inc j) : i = j := by
  unfold vpos at h
  by_cases hp : inc > 0
  · simp only [hp, if_true] at h
    have : 0 < inc.toNat := by omega
    exact Nat.eq_of_mul_eq_mul_right this h
  · simp only [hp, if_false] at h
    have : 0 < (-inc).toNat := by omega
    have := Nat.eq_of_mul_eq_mul_right this h
    omega

section upd
variable {K : Type} [Inhabited K]

/-- first `m` steps of a fold that rewrites position `pos i` from its current content -/
def updTo (pos : Nat → Nat) (f : Nat → K → K) (y : Array K) (m : Nat) : Array K :=
  (List.range m).foldl (fun (y : Array K) i => y.setIfInBounds (pos i) (f i y[pos i]!)) y

theorem updTo_spec (n : Nat) (pos : Nat → Nat) (f : Nat → K → K) (y : Array K)
    (hinj : ∀ i j, i < n → j < n → pos i = pos j → i = j) (hb : ∀ i, i < n → pos i < y.size) (m : Nat) (hm : m ≤ n) :
    (updTo pos f y m).size = y.size ∧
    (∀ i, i < n → (updTo pos f y m)[pos i]! = if i < m then f i y[pos i]! else y[pos i]!) ∧
    (∀ p, (∀ i, i < n → pos i ≠ p) → (updTo pos f y m)[p]! = y[p]!) := by
  induction m with
  | zero => simp [updTo]
  | succ m ih =>
    obtain ⟨h1, h2, h3⟩ := ih (by omega)
    have hstep : updTo pos f y (m + 1) =
        (updTo pos f y m).setIfInBounds (pos m) (f m (updTo pos f y m)[pos m]!) := by
      simp [updTo, List.range_succ, List.foldl_append]
    rw [hstep]
    refine ⟨by simp [h1], ?_, ?_⟩
    · intro i hi
      rw [getElem!_setIfInBounds, h1]
      by_cases him : i = m
      · subst him
        have := hb i hi
        simp only [this, and_self, if_true, Nat.lt_succ_self]
        rw [h2 i hi]; simp
      · have hne : ¬ (pos m = pos i ∧ pos m < y.size) := by
          intro hc; exact him (hinj i m hi (by omega) hc.1.symm)
        rw [if_neg hne, h2 i hi]
        by_cases hlt : i < m
        · have : i < m + 1 := by omega
          simp [hlt, this]
        · have : ¬ i < m + 1 := by omega
          simp [hlt, this]
    · intro p hp
      rw [getElem!_setIfInBounds]
      have : ¬ (pos m = p ∧ pos m < (updTo pos f y m).size) := by
        intro hc; exact hp m (by omega) hc.1
      rw [if_neg this]
      exact h3 p hp

end upd

section scatter
variable {K : Type} [Inhabited K] [AddCommMonoid K]

/-- add `e.2` at position `e.1`, entry by entry -/
def scatterAdd (es : List (Nat × K)) (y : Array K) : Array K :=
  es.foldl (fun (y : Array K) e => y.setIfInBounds e.1 (y[e.1]! + e.2)) y

theorem scatterAdd_size (es : List (Nat × K)) (y : Array K) : (scatterAdd es y).size = y.size := by
  induction es generalizing y with
  | nil => rfl
  | cons e es ih => simp only [scatterAdd, List.foldl_cons] at ih ⊢; rw [ih]; simp

theorem scatterAdd_get (es : List (Nat × K)) (y : Array K) (p : Nat) (hp : p < y.size) :
    (scatterAdd es y)[p]! = y[p]! + ((es.filter (fun e => e.1 = p)).map (·.2)).sum := by
  induction es generalizing y with
  | nil => simp [scatterAdd]
  | cons e es ih =>
    simp only [scatterAdd, List.foldl_cons] at ih ⊢
    rw [ih _ (by simpa using hp), getElem!_setIfInBounds]
    by_cases he : e.1 = p
    · have h1 : (e.1 = p ∧ e.1 < y.size) := ⟨he, by omega⟩
      rw [if_pos h1]
      simp only [List.filter_cons, he, decide_true, if_true, List.map_cons, List.sum_cons]
      rw [add_assoc]
    · have h1 : ¬ (e.1 = p ∧ e.1 < y.size) := fun hc => he hc.1
      rw [if_neg h1]
      simp only [List.filter_cons, he, decide_false, Bool.false_eq_true, if_false]

theorem scatterAdd_get_ge (es : List (Nat × K)) (y : Array K) (p : Nat) (hp : y.size ≤ p) :
    (scatterAdd es y)[p]! = y[p]! := by
  have h1 : (scatterAdd es y)[p]! = default := by
    simp only [Array.getElem!_eq_getD, Array.getD_eq_getD_getElem?]
    rw [Array.getElem?_eq_none (by rw [scatterAdd_size]; exact hp)]; rfl
  have h2 : y[p]! = default := by
    simp only [Array.getElem!_eq_getD, Array.getD_eq_getD_getElem?]
    rw [Array.getElem?_eq_none hp]; rfl
  rw [h1, h2]

/-- `foldl (acc + g e)` is the list sum -/
theorem foldl_add_eq_sum {α : Type} (l : List α) (g : α → K) (a : K) :
    l.foldl (fun acc e => acc + g e) a = a + (l.map g).sum := by
  induction l generalizing a with
  | nil => simp
  | cons e l ih => simp only [List.foldl_cons, List.map_cons, List.sum_cons]; rw [ih, add_assoc]

/-- conditional accumulation is the sum over the filtered list -/
theorem foldl_if_eq_sum (l : List (Nat × K)) (i : Nat) (g : K → K) (a : K) :
    l.foldl (fun acc e => if e.1 = i then acc + g e.2 else acc) a =
      a + ((l.filter (fun e => e.1 = i)).map (fun e => g e.2)).sum := by
  induction l generalizing a with
  | nil => simp
  | cons e l ih =>
    simp only [List.foldl_cons]
    by_cases he : e.1 = i
    · simp only [he, if_true, List.filter_cons, decide_true, List.map_cons, List.sum_cons]
      rw [ih, add_assoc]
    · simp only [he, if_false, List.filter_cons, decide_false, Bool.false_eq_true]
      rw [ih]

/-- a sum over a list whose keys lie below `m`, grouped by key -/
theorem sum_by_key (l : List (Nat × K)) (m : Nat) (g : Nat × K → K) (hl : ∀ e ∈ l, e.1 < m) :
    (l.map g).sum = ∑ i ∈ range m, ((l.filter (fun e => e.1 = i)).map g).sum := by
  induction l with
  | nil => simp
  | cons e l ih =>
    have he : e.1 < m := hl e (List.mem_cons_self)
    have ih := ih (fun x hx => hl x (List.mem_cons_of_mem _ hx))
    have : ∀ i ∈ range m, (((e :: l).filter (fun x => x.1 = i)).map g).sum =
        (if e.1 = i then g e else 0) + ((l.filter (fun x => x.1 = i)).map g).sum := by
      intro i _
      by_cases h : e.1 = i
      · simp [List.filter_cons, h]
      · simp [List.filter_cons, h]
    rw [Finset.sum_congr rfl this, Finset.sum_add_distrib, ← ih, List.map_cons, List.sum_cons]
    congr 1
    rw [Finset.sum_ite_eq (range m) e.1 (fun _ => g e)]
    simp [he]

end scatter

section stages
variable {K : Type} [Field K] [Conj K] [Inhabited K] [BEq K] [LawfulBEq K]

/-- stage 1: `y := beta*y` at the strided positions, nothing else touched -/
theorem gemvScale_spec (beta : K) (leny : Nat) (incy : Int) (y : Array K) (hincy : incy ≠ 0)
    (hy : ∀ i, i < leny → vpos leny incy i < y.size) :
    (gemvScale beta leny incy y).size = y.size ∧
    (∀ i, i < leny → (gemvScale beta leny incy y)[vpos leny incy i]! = beta * y[vpos leny incy i]!) ∧
    (∀ p, (∀ i, i < leny → vpos leny incy i ≠ p) → (gemvScale beta leny incy y)[p]! = y[p]!) := by
  unfold gemvScale
  by_cases hb : beta = 1
  · subst hb; simp
  · have hb' : (beta == 1) = false := by simpa using hb
    simp only [hb', Bool.false_eq_true, if_false]
    have h := updTo_spec leny (vpos leny incy) (fun (_ : Nat) (v : K) => if beta == 0 then 0 else beta * v) y
      (fun i j hi hj hij => vpos_inj leny incy hincy i j hi hj hij) hy leny (le_refl _)
    refine ⟨h.1, fun i hi => ?_, h.2.2⟩
    have := h.2.1 i hi
    simp only [updTo, hi, if_true] at this
    rw [this]
    by_cases h0 : beta = 0
    · subst h0; simp
    · have : (beta == 0) = false := by simpa using h0
      simp [this]

/-- stage 2, op = N: after the pass over the columns every position holds its old content plus the
contributions scattered to it -/
theorem gemvN_spec (alpha : K) (A : CSC K) (x : Array K) (lenx : Nat) (incx : Int) (leny : Nat) (incy : Int)
    (y : Array K) (m : Nat) :
    ((List.range m).foldl (fun (y : Array K) j =>
      if x[vpos lenx incx j]! == 0 then y else
      (A.col j).foldl (fun (y : Array K) (e : Nat × K) =>
        y.setIfInBounds (vpos leny incy e.1) (y[vpos leny incy e.1]! + alpha * x[vpos lenx incx j]! * e.2)) y) y).size = y.size ∧
    ∀ p, p < y.size →
      ((List.range m).foldl (fun (y : Array K) j =>
        if x[vpos lenx incx j]! == 0 then y else
        (A.col j).foldl (fun (y : Array K) (e : Nat × K) =>
          y.setIfInBounds (vpos leny incy e.1) (y[vpos leny incy e.1]! + alpha * x[vpos lenx incx j]! * e.2)) y) y)[p]! =
      y[p]! + ∑ j ∈ range m, (((A.col j).filter (fun e => vpos leny incy e.1 = p)).map
        (fun e => alpha * x[vpos lenx incx j]! * e.2)).sum := by
  induction m with
  | zero => simp
  | succ m ih =>
    obtain ⟨ihs, ihg⟩ := ih
    rw [List.range_succ, List.foldl_append]
    simp only [List.foldl_cons, List.foldl_nil]
    generalize hz : (List.range m).foldl (fun (y : Array K) j =>
      if x[vpos lenx incx j]! == 0 then y else
      (A.col j).foldl (fun (y : Array K) (e : Nat × K) =>
        y.setIfInBounds (vpos leny incy e.1) (y[vpos leny incy e.1]! + alpha * x[vpos lenx incx j]! * e.2)) y) y = z at ihs ihg ⊢
    -- the column step as a scatter-add
    have hcol : (A.col m).foldl (fun (y : Array K) (e : Nat × K) =>
        y.setIfInBounds (vpos leny incy e.1) (y[vpos leny incy e.1]! + alpha * x[vpos lenx incx m]! * e.2)) z =
        scatterAdd ((A.col m).map (fun e => (vpos leny incy e.1, alpha * x[vpos lenx incx m]! * e.2))) z := by
      unfold scatterAdd; rw [List.foldl_map]
    have hsum : ∀ p, (((A.col m).map (fun e => (vpos leny incy e.1, alpha * x[vpos lenx incx m]! * e.2))).filter
        (fun e => e.1 = p)).map (·.2) =
        ((A.col m).filter (fun e => vpos leny incy e.1 = p)).map (fun e => alpha * x[vpos lenx incx m]! * e.2) := by
      intro p
      rw [List.filter_map, List.map_map]
      rfl
    by_cases hx : x[vpos lenx incx m]! = 0
    · have hx' : (x[vpos lenx incx m]! == 0) = true := by simpa using hx
      simp only [hx', if_true]
      refine ⟨ihs, fun p hp => ?_⟩
      rw [ihg p hp, Finset.sum_range_succ]
      have : (((A.col m).filter (fun e => vpos leny incy e.1 = p)).map (fun e => alpha * x[vpos lenx incx m]! * e.2)).sum = 0 := by
        apply List.sum_eq_zero
        intro v hv
        obtain ⟨e, _, rfl⟩ := List.mem_map.mp hv
        rw [hx]; ring
      rw [this, add_zero]
    · have hx' : (x[vpos lenx incx m]! == 0) = false := by simpa using hx
      simp only [hx', Bool.false_eq_true, if_false]
      rw [hcol]
      refine ⟨by rw [scatterAdd_size, ihs], fun p hp => ?_⟩
      rw [scatterAdd_get _ _ p (by rw [ihs]; exact hp), ihg p hp, Finset.sum_range_succ, hsum p, add_assoc]


theorem getElem!_of_size_le (a b : Array K) (h : a.size = b.size) (p : Nat) (hp : b.size ≤ p) : a[p]! = b[p]! := by
  simp only [Array.getElem!_eq_getD, Array.getD_eq_getD_getElem?]
  rw [Array.getElem?_eq_none (by omega), Array.getElem?_eq_none hp]

/-- row `i` of the scattered contributions is `alpha * sum_j A(i,j) x_j` -/
theorem gemvN_row (alpha : K) (A : CSC K) (xs : Nat → K) (leny : Nat) (incy : Int) (hincy : incy ≠ 0)
    (hrows : ∀ j, j < A.n → ∀ e ∈ A.col j, e.1 < leny) (i : Nat) (hi : i < leny) :
    ∑ j ∈ range A.n, (((A.col j).filter (fun e => vpos leny incy e.1 = vpos leny incy i)).map
        (fun e => alpha * xs j * e.2)).sum =
      alpha * ∑ j ∈ range A.n, opEntry Tr.N A i j * xs j := by
  rw [Finset.mul_sum]
  apply Finset.sum_congr rfl
  intro j hj
  have hj' := mem_range.mp hj
  have hf : (A.col j).filter (fun e => vpos leny incy e.1 = vpos leny incy i) = (A.col j).filter (fun e => e.1 = i) := by
    apply List.filter_congr
    intro e he
    have h1 := hrows j hj' e he
    by_cases h : e.1 = i
    · simp [h]
    · have : vpos leny incy e.1 ≠ vpos leny incy i := fun hc => h (vpos_inj leny incy hincy _ _ h1 hi hc)
      simp [h, this]
  rw [hf]
  have hop : opEntry Tr.N A i j = (((A.col j).filter (fun e => e.1 = i)).map (fun e => e.2)).sum := by
    unfold opEntry
    have hNN : (Tr.N == Tr.N) = true := rfl
    simp only [hNN, if_true]
    have := foldl_if_eq_sum (A.col j) i (fun v => v) (0 : K)
    simp only [zero_add] at this
    exact this
  rw [hop]
  have key : (((A.col j).filter (fun e => e.1 = i)).map (fun e => (alpha * xs j) * e.2)).sum =
      (alpha * xs j) * (((A.col j).filter (fun e => e.1 = i)).map (fun e => e.2)).sum :=
    List.sum_map_mul_left _ _ _
  rw [key]; ring

/-- the inner product of column `i` with x, grouped by row -/
theorem gemvT_temp (tr : Tr) (A : CSC K) (xs : Nat → K) (i : Nat) (hrows : ∀ e ∈ A.col i, e.1 < A.m) (htr : tr ≠ Tr.N) :
    (A.col i).foldl (fun (t : K) (e : Nat × K) => t + cj tr e.2 * xs e.1) 0 =
      ∑ j ∈ range A.m, opEntry tr A i j * xs j := by
  rw [foldl_add_eq_sum (A.col i) (fun e => cj tr e.2 * xs e.1) 0, zero_add,
    sum_by_key (A.col i) A.m (fun e => cj tr e.2 * xs e.1) hrows]
  apply Finset.sum_congr rfl
  intro j _
  have hop : opEntry tr A i j = (((A.col i).filter (fun e => e.1 = j)).map (fun e => cj tr e.2)).sum := by
    unfold opEntry
    have : (tr == Tr.N) = false := by
      cases tr
      · exact absurd rfl htr
      · rfl
      · rfl
    simp only [this, Bool.false_eq_true, if_false]
    have := foldl_if_eq_sum (A.col i) j (fun v => cj tr v) (0 : K)
    simp only [zero_add] at this
    exact this
  rw [hop]
  have key : (((A.col i).filter (fun e => e.1 = j)).map (fun e => cj tr e.2 * xs j)).sum =
      (((A.col i).filter (fun e => e.1 = j)).map (fun e => cj tr e.2)).sum * xs j :=
    List.sum_map_mul_right _ _ _
  rw [← key]
  congr 1
  apply List.map_congr_left
  intro e he
  have : e.1 = j := by simpa using (List.mem_filter.mp he).2
  rw [this]

end stages
end Slu.Kernels
