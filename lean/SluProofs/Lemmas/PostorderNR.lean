import Slu.Model.PostorderNR
import SluProofs.Lemmas.Order
/-
C10 — the loop form `nr_etdfs` (Model/PostorderNR.lean) computes the recursive depth-first numbering
(`Slu.Order.order` / `treePostorder`) on every heap-ordered forest.

1. `writeList`: numbering the vertices of a list consecutively;
2. the child lists built by TreePostorder's push loop are the lists `kids` in increasing order (`KidsOK`);
3. the walk: from the outer loop head at `v` the machine numbers the subtree of `v` in `order` and stands at the inner
   loop head of `v` (`sub_walk`), sibling after sibling (`sibs_walk`);
4. assembly: the root, the exit through `next_kid[n] = 0`, the fuel.
-/
namespace Slu.Order.NR
open Slu.Order

/-! ### 1. numbering a list of vertices consecutively -/

def writeList : Array Nat → List Nat → Nat → Array Nat
  | post, [], _ => post
  | post, u :: t, p => writeList (post.setIfInBounds u p) t (p + 1)

theorem writeList_append (post : Array Nat) (l1 l2 : List Nat) (p : Nat) :
    writeList post (l1 ++ l2) p = writeList (writeList post l1 p) l2 (p + l1.length) := by
  induction l1 generalizing post p with
  | nil => simp [writeList]
  | cons u t ih => simp only [List.cons_append, writeList, ih, List.length_cons]; congr 1; omega

@[simp] theorem writeList_size (post : Array Nat) (l : List Nat) (p : Nat) : (writeList post l p).size = post.size := by
  induction l generalizing post p with
  | nil => rfl
  | cons u t ih => simp [writeList, ih]

theorem writeList_getD_of_not_mem (post : Array Nat) (l : List Nat) (p u : Nat) (h : u ∉ l) :
    (writeList post l p).getD u 0 = post.getD u 0 := by
  induction l generalizing post p with
  | nil => rfl
  | cons x t ih =>
    simp only [List.mem_cons, not_or] at h
    simp only [writeList]
    rw [ih _ _ h.2]
    simp only [Array.getD_eq_getD_getElem?, Array.getElem?_setIfInBounds]
    rw [if_neg (fun e => h.1 e.symm)]

theorem writeList_getD_of_mem (post : Array Nat) (l : List Nat) (p u : Nat) (hn : l.Nodup) (h : u ∈ l)
    (hu : u < post.size) : (writeList post l p).getD u 0 = p + l.idxOf u := by
  induction l generalizing post p with
  | nil => cases h
  | cons x t ih =>
    simp only [writeList]
    rw [List.nodup_cons] at hn
    by_cases hx : x = u
    · subst hx
      rw [writeList_getD_of_not_mem _ _ _ _ hn.1]
      simp [Array.getD_eq_getD_getElem?, hu]
    · have hm : u ∈ t := by
        rcases List.mem_cons.mp h with e | e
        · exact absurd e.symm hx
        · exact e
      rw [ih _ _ hn.2 hm (by simpa using hu), List.idxOf_cons_ne _ hx]
      omega

/-! ### 2. the child lists built by TreePostorder -/

def headI : List Nat → Int
  | [] => -1
  | c :: _ => (c : Int)

/-- what `nr_etdfs` needs from the work arrays: `first_kid[d]` is the smallest child, `next_kid[a]` the next larger
sibling, -1 at the ends, and the never-assigned slot `next_kid[n]` is not -1 -/
structure KidsOK (n : Nat) (parent : Array Nat) (K : Kids) : Prop where
  first : ∀ d ≤ n, K.first.getD d 0 = headI (kids parent d)
  nextCons : ∀ d ≤ n, ∀ l1 a b l2, kids parent d = l1 ++ a :: b :: l2 → K.next.getD a 0 = (b : Int)
  nextLast : ∀ d ≤ n, ∀ l1 a, kids parent d = l1 ++ [a] → K.next.getD a 0 = -1
  nextRoot : K.next.getD n 0 ≠ -1

theorem kids_sorted (parent : Array Nat) (v : Nat) : (kids parent v).Pairwise (· < ·) := by
  unfold kids
  exact List.Pairwise.filter _ List.pairwise_lt_range

/-- children not yet pushed when the loop is about to handle `v = k - 1` -/
def fk (parent : Array Nat) (k d : Nat) : List Nat := (kids parent d).filter fun c => decide (k ≤ c)

theorem filter_ge_cons (l : List Nat) (k : Nat) (hs : l.Pairwise (· < ·)) (hk : k ∈ l) :
    l.filter (fun c => decide (k ≤ c)) = k :: l.filter (fun c => decide (k + 1 ≤ c)) := by
  induction l with
  | nil => cases hk
  | cons x t ih =>
    rw [List.pairwise_cons] at hs
    by_cases hx : x = k
    · subst hx
      have h1 : t.filter (fun c => decide (x ≤ c)) = t := by
        apply List.filter_eq_self.mpr; intro c hc; have := hs.1 c hc; simp; omega
      have h2 : t.filter (fun c => decide (x + 1 ≤ c)) = t := by
        apply List.filter_eq_self.mpr; intro c hc; have := hs.1 c hc; simp; omega
      simp [h1, h2]
    · have hm : k ∈ t := by
        rcases List.mem_cons.mp hk with e | e
        · exact absurd e.symm hx
        · exact e
      have hlt := hs.1 k hm
      have e1 : decide (k ≤ x) = false := by simp; omega
      have e2 : decide (k + 1 ≤ x) = false := by simp; omega
      rw [List.filter_cons, List.filter_cons]
      simp only [e1, e2, Bool.false_eq_true, if_false]
      exact ih hs.2 hm

theorem filter_ge_succ_of_not_mem (l : List Nat) (k : Nat) (hk : k ∉ l) :
    l.filter (fun c => decide (k ≤ c)) = l.filter (fun c => decide (k + 1 ≤ c)) := by
  apply List.filter_congr
  intro c hc
  have : c ≠ k := fun e => hk (e ▸ hc)
  simp; omega

theorem fk_dad {n : Nat} {parent : Array Nat} (h : Heap n parent) (k : Nat) (hk : k < n) :
    fk parent k (parent.getD k 0) = k :: fk parent (k + 1) (parent.getD k 0) := by
  unfold fk
  exact filter_ge_cons _ _ (kids_sorted parent _) ((mem_kids parent _ k).mpr ⟨(h.lt hk).1, rfl⟩)

theorem fk_other (parent : Array Nat) (k d : Nat) (hd : d ≠ parent.getD k 0) :
    fk parent k d = fk parent (k + 1) d := by
  unfold fk
  apply filter_ge_succ_of_not_mem
  intro hm
  exact hd ((mem_kids parent d k).mp hm).2.symm

theorem mem_fk (parent : Array Nat) (k d c : Nat) (h : c ∈ fk parent k d) : k ≤ c ∧ c < d ∧ parent.getD c 0 = d := by
  unfold fk at h
  obtain ⟨h1, h2⟩ := List.mem_filter.mp h
  have := (mem_kids parent d c).mp h1
  exact ⟨by simpa using h2, this.1, this.2⟩

structure PInv (n : Nat) (parent : Array Nat) (next0 : Array Int) (k : Nat) (K : Kids) : Prop where
  fsz : K.first.size = n + 1
  nsz : K.next.size = n + 1
  first : ∀ d ≤ n, K.first.getD d 0 = headI (fk parent k d)
  nextCons : ∀ d ≤ n, ∀ l1 a b l2, fk parent k d = l1 ++ a :: b :: l2 → K.next.getD a 0 = (b : Int)
  nextLast : ∀ d ≤ n, ∀ l1 a, fk parent k d = l1 ++ [a] → K.next.getD a 0 = -1
  other : ∀ c, (c < k ∨ n ≤ c) → K.next.getD c 0 = next0.getD c 0

theorem getD_setIfInBounds_ne {α} (a : Array α) (i j : Nat) (x d : α) (h : i ≠ j) :
    (a.setIfInBounds i x).getD j d = a.getD j d := by
  simp [Array.getD_eq_getD_getElem?, h]

theorem getD_setIfInBounds_self {α} (a : Array α) (i : Nat) (x d : α) (h : i < a.size) :
    (a.setIfInBounds i x).getD i d = x := by
  simp [Array.getD_eq_getD_getElem?, h]

theorem pinv_step {n : Nat} {parent : Array Nat} {next0 : Array Int} (h : Heap n parent) (k : Nat) (hk : k < n)
    (K : Kids) (inv : PInv n parent next0 (k + 1) K) : PInv n parent next0 k (pushKid parent K k) := by
  have hdad := h.lt hk
  have hfd := fk_dad h k hk
  have hmem_ne : ∀ d a, a ∈ fk parent (k + 1) d → k ≠ a := fun d a ha => by
    have := (mem_fk parent _ _ _ ha).1; omega
  refine ⟨by simp [pushKid, inv.fsz], by simp [pushKid, inv.nsz], ?_, ?_, ?_, ?_⟩
  · intro d hd
    by_cases e : d = parent.getD k 0
    · subst e
      simp only [pushKid]
      rw [getD_setIfInBounds_self _ _ _ _ (by rw [inv.fsz]; omega), hfd]; rfl
    · simp only [pushKid]
      rw [getD_setIfInBounds_ne _ _ _ _ _ (Ne.symm e), fk_other parent k d e]
      exact inv.first d hd
  · intro d hd l1 a b l2 hl
    by_cases e : d = parent.getD k 0
    · subst e
      rw [hfd] at hl
      cases l1 with
      | nil =>
        simp only [List.nil_append, List.cons.injEq] at hl
        obtain ⟨rfl, hl⟩ := hl
        simp only [pushKid]
        rw [getD_setIfInBounds_self _ _ _ _ (by rw [inv.nsz]; omega), inv.first _ hd, hl]; rfl
      | cons x l1' =>
        simp only [List.cons_append, List.cons.injEq] at hl
        have ha : a ∈ fk parent (k + 1) (parent.getD k 0) := by rw [hl.2]; simp
        simp only [pushKid]
        rw [getD_setIfInBounds_ne _ _ _ _ _ (hmem_ne _ a ha)]
        exact inv.nextCons _ hd l1' a b l2 hl.2
    · rw [fk_other parent k d e] at hl
      have ha : a ∈ fk parent (k + 1) d := by rw [hl]; simp
      simp only [pushKid]
      rw [getD_setIfInBounds_ne _ _ _ _ _ (hmem_ne _ a ha)]
      exact inv.nextCons d hd l1 a b l2 hl
  · intro d hd l1 a hl
    by_cases e : d = parent.getD k 0
    · subst e
      rw [hfd] at hl
      cases l1 with
      | nil =>
        simp only [List.nil_append, List.cons.injEq] at hl
        obtain ⟨rfl, hl⟩ := hl
        simp only [pushKid]
        rw [getD_setIfInBounds_self _ _ _ _ (by rw [inv.nsz]; omega), inv.first _ hd, hl]; rfl
      | cons x l1' =>
        simp only [List.cons_append, List.cons.injEq] at hl
        have ha : a ∈ fk parent (k + 1) (parent.getD k 0) := by rw [hl.2]; simp
        simp only [pushKid]
        rw [getD_setIfInBounds_ne _ _ _ _ _ (hmem_ne _ a ha)]
        exact inv.nextLast _ hd l1' a hl.2
    · rw [fk_other parent k d e] at hl
      have ha : a ∈ fk parent (k + 1) d := by rw [hl]; simp
      simp only [pushKid]
      rw [getD_setIfInBounds_ne _ _ _ _ _ (hmem_ne _ a ha)]
      exact inv.nextLast d hd l1 a hl
  · intro c hc
    simp only [pushKid]
    rw [getD_setIfInBounds_ne _ _ _ _ _ (by omega)]
    exact inv.other c (by omega)

theorem pinv_init (n : Nat) (parent : Array Nat) (next0 : Array Int) (hs : next0.size = n + 1) :
    PInv n parent next0 n { first := Array.replicate (n + 1) (-1), next := next0 } := by
  have hnil : ∀ d ≤ n, fk parent n d = [] := by
    intro d hd
    apply List.filter_eq_nil_iff.mpr
    intro c hc
    have := ((mem_kids parent d c).mp hc).1
    simp; omega
  refine ⟨by simp, hs, ?_, ?_, ?_, fun _ _ => rfl⟩
  · intro d hd
    rw [hnil d hd]
    have hlt : d < n + 1 := by omega
    simp [headI, Array.getD_eq_getD_getElem?, hlt]
  · intro d hd l1 a b l2 hl; rw [hnil d hd] at hl; simp at hl
  · intro d hd l1 a hl; rw [hnil d hd] at hl; simp at hl

theorem pinv_fold {n : Nat} {parent : Array Nat} {next0 : Array Int} (h : Heap n parent) (hs : next0.size = n + 1)
    (m k : Nat) (hkm : k + m = n) :
    PInv n parent next0 k ((List.range' k m).reverse.foldl (pushKid parent)
      { first := Array.replicate (n + 1) (-1), next := next0 }) := by
  induction m generalizing k with
  | zero =>
    have : k = n := by omega
    subst this
    simpa using pinv_init k parent next0 hs
  | succ m ih =>
    rw [List.range'_succ, List.reverse_cons, List.foldl_append]
    simp only [List.foldl_cons, List.foldl_nil]
    exact pinv_step h k (by omega) _ (ih (k + 1) (by omega))

theorem fk_zero (parent : Array Nat) (d : Nat) : fk parent 0 d = kids parent d := by
  unfold fk; apply List.filter_eq_self.mpr; intro c _; simp

theorem buildKidsFrom_ok {n : Nat} {parent : Array Nat} (next0 : Array Int) (h : Heap n parent)
    (hs : next0.size = n + 1) (hroot : next0.getD n 0 ≠ -1) : KidsOK n parent (buildKidsFrom next0 n parent) := by
  have inv := pinv_fold (next0 := next0) h hs n 0 (by omega)
  rw [← List.range_eq_range'] at inv
  refine ⟨?_, ?_, ?_, ?_⟩
  · intro d hd; have := inv.first d hd; rwa [fk_zero] at this
  · intro d hd l1 a b l2 hl; exact inv.nextCons d hd l1 a b l2 (by rw [fk_zero]; exact hl)
  · intro d hd l1 a hl; exact inv.nextLast d hd l1 a (by rw [fk_zero]; exact hl)
  · have := inv.other n (Or.inr (Nat.le_refl n)); unfold buildKidsFrom; rw [this]; exact hroot

theorem buildKids_ok {n : Nat} {parent : Array Nat} (h : Heap n parent) : KidsOK n parent (buildKids n parent) := by
  apply buildKidsFrom_ok _ h (by simp)
  simp [Array.getD_eq_getD_getElem?]

/-! ### 3. the walk -/

theorem run_add (n : Nat) (parent : Array Nat) (K : Kids) (a b : Nat) (s : St) :
    run n parent K (a + b) s = run n parent K b (run n parent K a s) := by
  induction a generalizing s with
  | zero => simp [run]
  | succ a ih => rw [Nat.succ_add]; simp only [run]; exact ih _

theorem run_one (n : Nat) (parent : Array Nat) (K : Kids) (s : St) : run n parent K 1 s = step n parent K s := rfl

theorem run_done (n : Nat) (parent : Array Nat) (K : Kids) (k p : Nat) (post : Array Nat) :
    run n parent K k ⟨.done, p, post⟩ = ⟨.done, p, post⟩ := by
  induction k with
  | zero => rfl
  | succ k ih => simp only [run, step]; exact ih

/-- from the outer loop head at `c` the machine numbers the subtree of `c` in `order` and stands at the inner loop
head of `c`; at most `2·size − 1` loop heads -/
def SubOK (n : Nat) (parent : Array Nat) (K : Kids) (c : Nat) : Prop :=
  ∀ p post, p + (order parent c).length ≤ n →
    ∃ k, k + 1 ≤ 2 * (order parent c).length ∧
      run n parent K k ⟨.down c, p, post⟩ =
        ⟨.up c, p + (order parent c).length, writeList post (order parent c) p⟩

theorem order_length_pos (parent : Array Nat) (c : Nat) : 0 < (order parent c).length :=
  List.length_pos_of_mem (self_mem_order parent c)

theorem sibs_walk {n : Nat} {parent : Array Nat} {K : Kids} (ok : KidsOK n parent K) (d : Nat) (hd : d ≤ n)
    (cs : List Nat) (c : Nat) (pre : List Nat) (hk : kids parent d = pre ++ c :: cs)
    (hsub : ∀ x ∈ c :: cs, SubOK n parent K x) (p : Nat) (post : Array Nat)
    (hp : p + ((c :: cs).flatMap (order parent)).length ≤ n) :
    ∃ k, k + 1 ≤ 2 * ((c :: cs).flatMap (order parent)).length ∧
      run n parent K k ⟨.down c, p, post⟩ =
        ⟨.up ((c :: cs).getLast (by simp)), p + ((c :: cs).flatMap (order parent)).length,
          writeList post ((c :: cs).flatMap (order parent)) p⟩ := by
  induction cs generalizing c pre p post with
  | nil =>
    simp only [List.flatMap_cons, List.flatMap_nil, List.append_nil, List.getLast_singleton] at hp ⊢
    exact hsub c (by simp) p post hp
  | cons c' rest ih =>
    simp only [List.flatMap_cons, List.length_append] at hp
    obtain ⟨k1, hk1, e1⟩ := hsub c (by simp) p post (by omega)
    have hnext : K.next.getD c 0 = (c' : Int) := ok.nextCons d hd pre c c' rest hk
    obtain ⟨k2, hk2, e2⟩ := ih c' (pre ++ [c]) (by rw [hk]; simp) (fun x hx => hsub x (List.mem_cons_of_mem _ hx))
      (p + (order parent c).length) (writeList post (order parent c) p)
      (by simp only [List.flatMap_cons, List.length_append]; omega)
    have hpos := order_length_pos parent c
    refine ⟨k1 + (1 + k2), ?_, ?_⟩
    · simp only [List.flatMap_cons, List.length_append] at hk2 ⊢; omega
    · rw [run_add, e1, run_add, run_one]
      have hstep : step n parent K ⟨.up c, p + (order parent c).length, writeList post (order parent c) p⟩ =
          ⟨.down c', p + (order parent c).length, writeList post (order parent c) p⟩ := by
        have h1 : ¬ ((c' : Int) = -1) := by omega
        have h2 : ¬ (p + (order parent c).length = n + 1) := by omega
        simp only [step, hnext, h1, h2, if_false, Int.toNat_natCast]
      rw [hstep, e2]
      simp only [List.flatMap_cons, List.length_append, writeList_append, List.getLast_cons_cons, Nat.add_assoc]

theorem parent_of_getLast (parent : Array Nat) (d c : Nat) (cs pre : List Nat) (hk : kids parent d = pre ++ c :: cs) :
    parent.getD ((c :: cs).getLast (by simp)) 0 = d := by
  have hm : (c :: cs).getLast (by simp) ∈ kids parent d := by
    rw [hk]; exact List.mem_append_right _ (List.getLast_mem _)
  exact ((mem_kids parent d _).mp hm).2

theorem next_of_getLast {n : Nat} {parent : Array Nat} {K : Kids} (ok : KidsOK n parent K) (d : Nat) (hd : d ≤ n)
    (c : Nat) (cs pre : List Nat) (hk : kids parent d = pre ++ c :: cs) :
    K.next.getD ((c :: cs).getLast (by simp)) 0 = -1 := by
  apply ok.nextLast d hd (pre ++ (c :: cs).dropLast)
  rw [hk, List.append_assoc, List.dropLast_append_getLast]

theorem sub_walk {n : Nat} {parent : Array Nat} {K : Kids} (ok : KidsOK n parent K) (v : Nat) (hv : v < n) :
    SubOK n parent K v := by
  induction v using Nat.strong_induction_on with
  | _ v ih =>
    intro p post hp
    have hord := order_eq parent v
    cases hkids : kids parent v with
    | nil =>
      rw [hkids] at hord
      simp only [List.flatMap_nil, List.nil_append] at hord
      rw [hord] at hp ⊢
      simp only [List.length_singleton] at hp ⊢
      refine ⟨1, by omega, ?_⟩
      have hf : K.first.getD v 0 = -1 := by rw [ok.first v (by omega), hkids]; rfl
      have h1 : ¬ (p = n) := by omega
      simp only [run_one, step, h1, hf, if_false, if_true, writeList]
    | cons c cs =>
      rw [hkids] at hord
      have hp' : p + ((c :: cs).flatMap (order parent)).length + 1 ≤ n := by
        rw [hord] at hp; simpa [Nat.add_assoc] using hp
      have hsub : ∀ x ∈ c :: cs, SubOK n parent K x := by
        intro x hx
        have hxv : x < v := ((mem_kids parent v x).mp (hkids ▸ hx)).1
        exact ih x hxv (by omega)
      obtain ⟨k, hk, e⟩ := sibs_walk ok v (by omega) cs c [] (by simpa using hkids) hsub p post (by omega)
      refine ⟨1 + (k + 1), ?_, ?_⟩
      · rw [hord]; simp only [List.length_append, List.length_singleton]; omega
      · have hf : K.first.getD v 0 = (c : Int) := by rw [ok.first v (by omega), hkids]; rfl
        have h1 : ¬ (p = n) := by omega
        have h2 : ¬ ((c : Int) = -1) := by omega
        have hstep : step n parent K ⟨.down v, p, post⟩ = ⟨.down c, p, post⟩ := by
          simp only [step, h1, hf, h2, if_false, Int.toNat_natCast]
        rw [run_add, run_one, hstep, run_add, e, run_one]
        have hnx := next_of_getLast ok v (by omega) c cs [] (by simpa using hkids)
        have hpar := parent_of_getLast parent v c cs [] (by simpa using hkids)
        simp only [step, hnx, hpar, if_true]
        rw [hord, writeList_append]
        simp only [writeList, List.length_append, List.length_singleton, Nat.add_assoc]

/-! ### 4. the whole routine -/

theorem kids_root_ne_nil {n : Nat} {parent : Array Nat} (h : Heap n parent) (hn : 0 < n) : kids parent n ≠ [] := by
  intro e
  have hm : n - 1 ∈ kids parent n := by
    apply (mem_kids parent n (n - 1)).mpr
    have := h.lt (j := n - 1) (by omega)
    exact ⟨by omega, by omega⟩
  rw [e] at hm; cases hm

theorem nrEtdfs_eq {n : Nat} {parent : Array Nat} {K : Kids} (h : Heap n parent) (ok : KidsOK n parent K) :
    nrEtdfs n parent K =
      ⟨.done, if n = 0 then 0 else n + 1, if n = 0 then Array.replicate 1 0
        else writeList (Array.replicate (n + 1) 0) (order parent n) 0⟩ := by
  unfold nrEtdfs
  by_cases hn : n = 0
  · subst hn
    simp [run, step]
  · simp only [hn, if_false]
    have hord := order_eq parent n
    cases hkids : kids parent n with
    | nil => exact absurd hkids (kids_root_ne_nil h (by omega))
    | cons c cs =>
      rw [hkids] at hord
      have hlen := order_length h
      have hL : ((c :: cs).flatMap (order parent)).length = n := by
        rw [hord] at hlen; simp only [List.length_append, List.length_singleton] at hlen; omega
      have hsub : ∀ x ∈ c :: cs, SubOK n parent K x := by
        intro x hx
        exact sub_walk ok x ((mem_kids parent n x).mp (hkids ▸ hx)).1
      obtain ⟨k, hk, e⟩ := sibs_walk ok n (Nat.le_refl n) cs c [] (by simpa using hkids) hsub 0
        (Array.replicate (n + 1) 0) (by omega)
      have hf : K.first.getD n 0 = (c : Int) := by rw [ok.first n (Nat.le_refl n), hkids]; rfl
      have h1 : ¬ (0 = n) := by omega
      have h2 : ¬ ((c : Int) = -1) := by omega
      have hstep : step n parent K ⟨.down n, 0, Array.replicate (n + 1) 0⟩ = ⟨.down c, 0, Array.replicate (n + 1) 0⟩ := by
        simp only [step, h1, hf, h2, if_false, Int.toNat_natCast]
      have hfuel : 2 * n + 3 = 1 + (k + (1 + (1 + (2 * n - k)))) := by omega
      rw [hfuel, run_add, run_one, hstep, run_add, e, run_add, run_one]
      have hnx := next_of_getLast ok n (Nat.le_refl n) c cs [] (by simpa using hkids)
      have hpar := parent_of_getLast parent n c cs [] (by simpa using hkids)
      have hstep2 : step n parent K ⟨.up ((c :: cs).getLast (by simp)), 0 + ((c :: cs).flatMap (order parent)).length,
            writeList (Array.replicate (n + 1) 0) ((c :: cs).flatMap (order parent)) 0⟩ =
          ⟨.up n, n + 1, writeList (Array.replicate (n + 1) 0) (order parent n) 0⟩ := by
        simp only [step, hnx, hpar, if_true]
        rw [hord, writeList_append]
        simp only [writeList, hL, Nat.zero_add]
      rw [hstep2, run_add, run_one]
      have hstep3 : step n parent K ⟨.up n, n + 1, writeList (Array.replicate (n + 1) 0) (order parent n) 0⟩ =
          ⟨.done, n + 1, writeList (Array.replicate (n + 1) 0) (order parent n) 0⟩ := by
        simp only [step, ok.nextRoot, if_false, if_true]
      rw [hstep3, run_done]

theorem writeList_order_eq_treePostorder {n : Nat} {parent : Array Nat} (h : Heap n parent) :
    writeList (Array.replicate (n + 1) 0) (order parent n) 0 = treePostorder n parent := by
  apply Array.ext
  · simp [treePostorder_size]
  · intro i h1 h2
    have hi : i ≤ n := by simp at h1; omega
    have e1 := writeList_getD_of_mem (Array.replicate (n + 1) 0) (order parent n) 0 i (nodup_order parent n)
      (all_mem_order h i hi) (by simp; omega)
    have e2 := treePostorder_getD n parent i hi
    rw [Array.getD_eq_getD_getElem?, Array.getElem?_eq_getElem h1] at e1
    rw [Array.getD_eq_getD_getElem?, Array.getElem?_eq_getElem h2] at e2
    simp only [Option.getD_some] at e1 e2
    rw [e1, e2]; omega

end Slu.Order.NR
