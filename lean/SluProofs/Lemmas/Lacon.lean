import Slu.Model.Lacon
import SluProofs.Lemmas.RatBasic
/-
Invariants of the `lacon2` state machine (model: Slu/Model/Lacon.lean) in exact arithmetic.
-/
namespace Slu.Lacon
open Slu

variable {K : Type}

/-- what the proofs need of the primitives: `asum` behaves like a 1-norm on the vectors the machine
builds.  Both the real instance `primQ` and the complex instance `primQC` satisfy it (below); so does
the true complex modulus (over the reals). -/
structure Lawful (P : Prim K Rat) : Prop where
  asum_nonneg : ∀ x, 0 ≤ P.asum x
  absEst_eq : ∀ a, P.absEst a = P.asum #[a]
  asum_uniform : ∀ n, 1 ≤ n → P.asum (Array.replicate n (P.ninv n)) = 1
  asum_unit : ∀ n j, j < n → P.asum ((Array.replicate n P.zero).setIfInBounds j P.one) = 1
  asum_zero : ∀ n, P.asum (Array.replicate n P.zero) = 0
  asum_alt : ∀ n, 2 ≤ n → P.asum ((Array.range n).map (P.alt n)) = 3 * (n : Rat) / 2
  fin_eq : ∀ t n, P.fin t n = t / (3 * (n : Rat)) * 2

/-! ### termination: a measure on the control state -/

/-- control-state invariant before a call -/
def Struct (s : St K Rat) : Prop :=
  s.kase = 0 ∨ s.jump = 1 ∨ s.jump = 2 ∨ (s.jump = 3 ∧ 2 ≤ s.iter ∧ s.iter ≤ 5) ∨
  (s.jump = 4 ∧ 2 ≤ s.iter ∧ s.iter ≤ 5) ∨ s.jump = 5

/-- number of calls still possible -/
def mu (s : St K Rat) : Nat :=
  if s.kase = 0 then 12
  else if s.jump = 1 then 11
  else if s.jump = 2 then 10
  else if s.jump = 3 then 13 - 2 * s.iter
  else if s.jump = 4 then 12 - 2 * s.iter
  else if s.jump = 5 then 1
  else 0

theorem mu_pos (s : St K Rat) (h : Struct s) : 1 ≤ mu s := by
  unfold mu
  rcases h with h | h | h | ⟨h, h1, h2⟩ | ⟨h, h1, h2⟩ | h <;> split_ifs <;> omega

@[simp] theorem toL50_kase (P : Prim K Rat) (s : St K Rat) (j i : Nat) : (toL50 P s j i).kase = 1 := rfl
@[simp] theorem toL50_jump (P : Prim K Rat) (s : St K Rat) (j i : Nat) : (toL50 P s j i).jump = 3 := rfl
@[simp] theorem toL50_iter (P : Prim K Rat) (s : St K Rat) (j i : Nat) : (toL50 P s j i).iter = i := rfl
@[simp] theorem toL50_est (P : Prim K Rat) (s : St K Rat) (j i : Nat) : (toL50 P s j i).est = s.est := rfl
@[simp] theorem toL50_x (P : Prim K Rat) (s : St K Rat) (j i : Nat) :
    (toL50 P s j i).x = (Array.replicate s.x.size P.zero).setIfInBounds j P.one := rfl
@[simp] theorem toL120_kase (P : Prim K Rat) (s : St K Rat) : (toL120 P s).kase = 1 := rfl
@[simp] theorem toL120_jump (P : Prim K Rat) (s : St K Rat) : (toL120 P s).jump = 5 := rfl
@[simp] theorem toL120_est (P : Prim K Rat) (s : St K Rat) : (toL120 P s).est = s.est := rfl
@[simp] theorem toL120_x (P : Prim K Rat) (s : St K Rat) :
    (toL120 P s).x = (Array.range s.x.size).map (P.alt s.x.size) := rfl
@[simp] theorem toSign_kase (P : Prim K Rat) (s : St K Rat) (j : Nat) : (toSign P s j).kase = 2 := rfl
@[simp] theorem toSign_jump (P : Prim K Rat) (s : St K Rat) (j : Nat) : (toSign P s j).jump = j := rfl
@[simp] theorem toSign_iter (P : Prim K Rat) (s : St K Rat) (j : Nat) : (toSign P s j).iter = s.iter := rfl
@[simp] theorem toSign_est (P : Prim K Rat) (s : St K Rat) (j : Nat) : (toSign P s j).est = s.est := rfl
@[simp] theorem toSign_x (P : Prim K Rat) (s : St K Rat) (j : Nat) : (toSign P s j).x = s.x.map P.sgn := rfl

/-- one call either finishes or strictly decreases the measure, keeping the control invariant -/
theorem step_mu (P : Prim K Rat) (s : St K Rat) (h : Struct s) :
    (step P s).kase = 0 ∨ (Struct (step P s) ∧ mu (step P s) < mu s) := by
  unfold step
  by_cases h0 : s.kase = 0
  · right
    simp only [h0, if_true]
    exact ⟨Or.inr (Or.inl rfl), by simp [mu, h0]⟩
  · simp only [h0, if_false]
    have hs : s.jump = 1 ∨ s.jump = 2 ∨ (s.jump = 3 ∧ 2 ≤ s.iter ∧ s.iter ≤ 5) ∨
        (s.jump = 4 ∧ 2 ≤ s.iter ∧ s.iter ≤ 5) ∨ s.jump = 5 := by
      rcases h with h | h <;> [exact absurd h h0; exact h]
    rcases hs with h | h | ⟨h, h1, h2⟩ | ⟨h, h1, h2⟩ | h
    · -- jump = 1
      simp only [h, show (1 : Nat) ≠ 2 from by decide, show (1 : Nat) ≠ 3 from by decide,
        show (1 : Nat) ≠ 4 from by decide, show (1 : Nat) ≠ 5 from by decide, if_false]
      split
      · left; rfl
      · right
        refine ⟨Or.inr (Or.inr (Or.inl (by simp))), ?_⟩
        simp [mu, h0, h]
    · -- jump = 2
      right
      simp only [h, if_true]
      refine ⟨Or.inr (Or.inr (Or.inr (Or.inl ⟨by simp, by simp, by simp⟩))), ?_⟩
      simp [mu, h0, h]
    · -- jump = 3
      right
      simp only [h, show (3 : Nat) ≠ 2 from by decide, if_false, if_true]
      split
      · exact ⟨Or.inr (Or.inr (Or.inr (Or.inr (Or.inr (by simp))))), by simp [mu, h0, h]; omega⟩
      · split
        · exact ⟨Or.inr (Or.inr (Or.inr (Or.inr (Or.inr (by simp))))), by simp [mu, h0, h]; omega⟩
        · refine ⟨Or.inr (Or.inr (Or.inr (Or.inr (Or.inl ⟨by simp, by simpa using h1, by simpa using h2⟩)))), ?_⟩
          simp [mu, h0, h]; omega
    · -- jump = 4
      right
      simp only [h, show (4 : Nat) ≠ 2 from by decide, show (4 : Nat) ≠ 3 from by decide, if_false, if_true]
      split
      · rename_i hc
        have hlt : s.iter < 5 := by
          simp only [Bool.and_eq_true, decide_eq_true_eq] at hc
          exact hc.2
        refine ⟨Or.inr (Or.inr (Or.inr (Or.inl ⟨by simp, by simp; omega, by simp; omega⟩))), ?_⟩
        simp [mu, h0, h]; omega
      · exact ⟨Or.inr (Or.inr (Or.inr (Or.inr (Or.inr (by simp))))), by simp [mu, h0, h]; omega⟩
    · -- jump = 5
      left
      simp only [h, show (5 : Nat) ≠ 2 from by decide, show (5 : Nat) ≠ 3 from by decide,
        show (5 : Nat) ≠ 4 from by decide, if_false, if_true]
      split <;> rfl

theorem Struct_setx (s : St K Rat) (y : Array K) (h : Struct s) : Struct { s with x := y } := h
theorem mu_setx (s : St K Rat) (y : Array K) : mu { s with x := y } = mu s := rfl

/-- the caller's loop stops as soon as the fuel covers the measure -/
theorem run_terminates (P : Prim K Rat) (T Tt : Array K → Array K) :
    ∀ fuel (s : St K Rat), Struct s → mu s ≤ fuel → (run P T Tt fuel s).kase = 0 := by
  intro fuel
  induction fuel with
  | zero => intro s hs hm; have := mu_pos s hs; omega
  | succ f ih =>
    intro s hs hm
    simp only [run]
    rcases step_mu P s hs with h | ⟨h1, h2⟩
    · simp [h]
    · split
      · assumption
      · apply ih
        · exact Struct_setx _ _ h1
        · rw [mu_setx]; omega

/-! ### the estimate never exceeds the operator bound -/

def EstOK (N : Rat) (s : St K Rat) : Prop := 0 ≤ s.est ∧ s.est ≤ N

/-- a state handed to a call (after the caller applied the operator) -/
def Ready (P : Prim K Rat) (n : Nat) (N : Rat) (s : St K Rat) : Prop :=
  s.x.size = n ∧ (
    (s.kase = 0 ∧ EstOK N s) ∨
    (s.kase ≠ 0 ∧ s.jump = 1 ∧ P.asum s.x ≤ N) ∨
    (s.kase ≠ 0 ∧ s.jump = 2 ∧ 2 ≤ n ∧ EstOK N s) ∨
    (s.kase ≠ 0 ∧ s.jump = 3 ∧ 2 ≤ n ∧ P.asum s.x ≤ N ∧ EstOK N s) ∨
    (s.kase ≠ 0 ∧ s.jump = 4 ∧ 2 ≤ n ∧ EstOK N s) ∨
    (s.kase ≠ 0 ∧ s.jump = 5 ∧ 2 ≤ n ∧ P.asum s.x ≤ N * (3 * (n : Rat) / 2) ∧ EstOK N s))

/-- a state returned by a call -/
def Good (P : Prim K Rat) (n : Nat) (N : Rat) (s : St K Rat) : Prop :=
  s.x.size = n ∧ (
    (s.kase = 0 ∧ EstOK N s) ∨
    (s.kase = 1 ∧ s.jump = 1 ∧ P.asum s.x = 1) ∨
    (s.kase = 2 ∧ s.jump = 2 ∧ 2 ≤ n ∧ EstOK N s) ∨
    (s.kase = 1 ∧ s.jump = 3 ∧ 2 ≤ n ∧ P.asum s.x ≤ 1 ∧ EstOK N s) ∨
    (s.kase = 2 ∧ s.jump = 4 ∧ 2 ≤ n ∧ EstOK N s) ∨
    (s.kase = 1 ∧ s.jump = 5 ∧ 2 ≤ n ∧ P.asum s.x = 3 * (n : Rat) / 2 ∧ EstOK N s))

theorem size_one_eq (x : Array K) (z : K) (h : x.size = 1) : x = #[x.getD 0 z] := by
  apply Array.ext
  · simp [h]
  · intro i h1 h2
    have : i = 0 := by omega
    subst this
    simp [Array.getD, h]

theorem asum_unit_le (P : Prim K Rat) (hP : Lawful P) (n j : Nat) :
    0 ≤ P.asum ((Array.replicate n P.zero).setIfInBounds j P.one) ∧
    P.asum ((Array.replicate n P.zero).setIfInBounds j P.one) ≤ 1 := by
  refine ⟨hP.asum_nonneg _, ?_⟩
  by_cases h : j < n
  · rw [hP.asum_unit n j h]
  · rw [Array.setIfInBounds_eq_of_size_le (by simp; omega), hP.asum_zero]; norm_num

theorem toL120_good (P : Prim K Rat) (hP : Lawful P) (N : Rat) (s : St K Rat) (h2 : 2 ≤ s.x.size)
    (he : EstOK N s) : Good P s.x.size N (toL120 P s) := by
  refine ⟨by simp, Or.inr (Or.inr (Or.inr (Or.inr (Or.inr ⟨rfl, rfl, h2, ?_, he⟩))))⟩
  simp only [toL120_x]
  exact hP.asum_alt _ h2

theorem toL50_good (P : Prim K Rat) (hP : Lawful P) (N : Rat) (s : St K Rat) (j i : Nat) (h2 : 2 ≤ s.x.size)
    (he : EstOK N s) : Good P s.x.size N (toL50 P s j i) := by
  refine ⟨by simp, Or.inr (Or.inr (Or.inr (Or.inl ⟨rfl, rfl, h2, ?_, he⟩)))⟩
  simp only [toL50_x]
  exact (asum_unit_le P hP _ _).2

/-- every call maps a `Ready` state to a `Good` one -/
theorem step_good (P : Prim K Rat) (hP : Lawful P) (n : Nat) (N : Rat) (hn : 1 ≤ n) (_hN : 0 ≤ N)
    (s : St K Rat) (h : Ready P n N s) : Good P n N (step P s) := by
  obtain ⟨hsz, h⟩ := h
  subst hsz
  unfold step
  rcases h with ⟨h0, _⟩ | ⟨h0, hj, hx⟩ | ⟨h0, hj, h2, he⟩ | ⟨h0, hj, h2, hx, he⟩ | ⟨h0, hj, h2, he⟩ | ⟨h0, hj, h2, hx, he⟩
  · simp only [h0, if_true]
    exact ⟨by simp, Or.inr (Or.inl ⟨rfl, rfl, hP.asum_uniform _ hn⟩)⟩
  · simp only [h0, hj, show (1 : Nat) ≠ 2 from by decide, show (1 : Nat) ≠ 3 from by decide,
      show (1 : Nat) ≠ 4 from by decide, show (1 : Nat) ≠ 5 from by decide, if_false]
    split
    · rename_i h1
      refine ⟨rfl, Or.inl ⟨rfl, ?_⟩⟩
      have hx1 : s.x = #[s.x.getD 0 P.zero] := size_one_eq _ _ h1
      have : P.absEst (s.x.getD 0 P.zero) = P.asum s.x := by rw [hP.absEst_eq]; exact congrArg _ hx1.symm
      show 0 ≤ P.absEst (s.x.getD 0 P.zero) ∧ P.absEst (s.x.getD 0 P.zero) ≤ N
      rw [this]; exact ⟨hP.asum_nonneg _, hx⟩
    · rename_i h1
      refine ⟨by simp, Or.inr (Or.inr (Or.inl ⟨rfl, rfl, by omega, ?_⟩))⟩
      exact ⟨hP.asum_nonneg _, hx⟩
  · simp only [h0, hj, if_false, if_true]
    exact toL50_good P hP N s _ _ h2 he
  · simp only [h0, hj, show (3 : Nat) ≠ 2 from by decide, if_false, if_true]
    have he1 : EstOK N ({ s with v := s.x, est := P.asum s.x } : St K Rat) := ⟨hP.asum_nonneg _, hx⟩
    split
    · exact toL120_good P hP N _ h2 he1
    · split
      · exact toL120_good P hP N _ h2 he1
      · exact ⟨by simp, Or.inr (Or.inr (Or.inr (Or.inr (Or.inl ⟨rfl, rfl, h2, he1⟩))))⟩
  · simp only [h0, hj, show (4 : Nat) ≠ 2 from by decide, show (4 : Nat) ≠ 3 from by decide, if_false, if_true]
    split
    · exact toL50_good P hP N s _ _ h2 he
    · exact toL120_good P hP N _ h2 he
  · simp only [h0, hj, show (5 : Nat) ≠ 2 from by decide, show (5 : Nat) ≠ 3 from by decide,
      show (5 : Nat) ≠ 4 from by decide, if_false, if_true]
    have hn0 : (0 : Rat) < (s.x.size : Rat) := by exact_mod_cast (by omega : 0 < s.x.size)
    have htemp : 0 ≤ P.fin (P.asum s.x) s.x.size ∧ P.fin (P.asum s.x) s.x.size ≤ N := by
      rw [hP.fin_eq]
      have h0' := hP.asum_nonneg s.x
      constructor
      · positivity
      · have : P.asum s.x / (3 * (s.x.size : Rat)) * 2 ≤ N * (3 * (s.x.size : Rat) / 2) / (3 * (s.x.size : Rat)) * 2 := by
          gcongr
        calc P.asum s.x / (3 * (s.x.size : Rat)) * 2 ≤ N * (3 * (s.x.size : Rat) / 2) / (3 * (s.x.size : Rat)) * 2 := this
          _ = N := by field_simp
    split
    · exact ⟨rfl, Or.inl ⟨rfl, htemp⟩⟩
    · exact ⟨rfl, Or.inl ⟨rfl, he⟩⟩

/-- the caller's operator application maps a `Good` unfinished state to a `Ready` one -/
theorem apply_ready (P : Prim K Rat) (hP : Lawful P) (n : Nat) (N : Rat) (hN : 0 ≤ N)
    (T Tt : Array K → Array K)
    (hsT : ∀ x, x.size = n → (T x).size = n) (hsTt : ∀ x, x.size = n → (Tt x).size = n)
    (hT : ∀ x, x.size = n → P.asum (T x) ≤ N * P.asum x)
    (s : St K Rat) (h : Good P n N s) (hk : s.kase ≠ 0) :
    Ready P n N { s with x := (if s.kase = 1 then T else Tt) s.x } := by
  obtain ⟨hsz, h⟩ := h
  rcases h with ⟨h0, _⟩ | ⟨h1, hj, hx⟩ | ⟨h1, hj, h2, he⟩ | ⟨h1, hj, h2, hx, he⟩ | ⟨h1, hj, h2, he⟩ | ⟨h1, hj, h2, hx, he⟩
  · exact absurd h0 hk
  · refine ⟨by simp [h1, hsT _ hsz], Or.inr (Or.inl ⟨hk, hj, ?_⟩)⟩
    simp only [h1, if_true]
    have := hT _ hsz; rw [hx] at this; linarith
  · refine ⟨by simp [h1, hsTt _ hsz], Or.inr (Or.inr (Or.inl ⟨hk, hj, h2, he⟩))⟩
  · refine ⟨by simp [h1, hsT _ hsz], Or.inr (Or.inr (Or.inr (Or.inl ⟨hk, hj, h2, ?_, he⟩)))⟩
    simp only [h1, if_true]
    have := hT _ hsz
    have h3 : N * P.asum s.x ≤ N * 1 := by gcongr
    linarith
  · refine ⟨by simp [h1, hsTt _ hsz], Or.inr (Or.inr (Or.inr (Or.inr (Or.inl ⟨hk, hj, h2, he⟩))))⟩
  · refine ⟨by simp [h1, hsT _ hsz], Or.inr (Or.inr (Or.inr (Or.inr (Or.inr ⟨hk, hj, h2, ?_, he⟩))))⟩
    simp only [h1, if_true]
    have := hT _ hsz; rw [hx] at this; exact this

/-- whenever the loop returns a finished state, its estimate is within `[0, N]` -/
theorem run_est (P : Prim K Rat) (hP : Lawful P) (n : Nat) (N : Rat) (hn : 1 ≤ n) (hN : 0 ≤ N)
    (T Tt : Array K → Array K)
    (hsT : ∀ x, x.size = n → (T x).size = n) (hsTt : ∀ x, x.size = n → (Tt x).size = n)
    (hT : ∀ x, x.size = n → P.asum (T x) ≤ N * P.asum x) :
    ∀ fuel (s : St K Rat), Ready P n N s → (run P T Tt fuel s).kase = 0 → EstOK N (run P T Tt fuel s) := by
  intro fuel
  induction fuel with
  | zero =>
    intro s hs hk
    simp only [run] at hk ⊢
    rcases hs.2 with ⟨_, he⟩ | ⟨h0, _⟩ | ⟨h0, _⟩ | ⟨h0, _⟩ | ⟨h0, _⟩ | ⟨h0, _⟩
    · exact he
    all_goals exact absurd hk h0
  | succ f ih =>
    intro s hs
    have hg := step_good P hP n N hn hN s hs
    simp only [run]
    split
    · rename_i h0
      intro _
      rcases hg.2 with ⟨_, he⟩ | ⟨h1, _⟩ | ⟨h1, _⟩ | ⟨h1, _⟩ | ⟨h1, _⟩ | ⟨h1, _⟩
      · exact he
      all_goals (rw [h0] at h1; exact absurd h1 (by decide))
    · rename_i h0
      exact ih _ (apply_ready P hP n N hN T Tt hsT hsTt hT _ hg h0)

/-- the estimate stays non-negative whatever the caller does -/
theorem step_est_nonneg (P : Prim K Rat) (hP : Lawful P) (s : St K Rat) (h : 0 ≤ s.est) : 0 ≤ (step P s).est := by
  unfold step
  have ha := hP.asum_nonneg s.x
  dsimp only
  split_ifs
  all_goals first
    | exact h
    | exact ha
    | (simp only [toL120_est, toL50_est, toSign_est]; first | exact h | exact ha)
    | exact le_of_lt (lt_of_le_of_lt h ‹_›)
    | (show 0 ≤ P.absEst _; rw [hP.absEst_eq]; exact hP.asum_nonneg _)

theorem run_est_nonneg (P : Prim K Rat) (hP : Lawful P) (T Tt : Array K → Array K) :
    ∀ fuel (s : St K Rat), 0 ≤ s.est → 0 ≤ (run P T Tt fuel s).est := by
  intro fuel
  induction fuel with
  | zero => intro s h; exact h
  | succ f ih =>
    intro s h
    simp only [run]
    have := step_est_nonneg P hP s h
    split
    · exact this
    · exact ih _ this

/-! ### the exact instances obey the laws -/

section sums
variable (f : K → Rat)

theorem foldl_add_nonneg (hf : ∀ a, 0 ≤ f a) (l : List K) (c : Rat) (hc : 0 ≤ c) :
    0 ≤ l.foldl (fun acc a => acc + f a) c := by
  induction l generalizing c with
  | nil => simpa
  | cons a t ih => simp only [List.foldl_cons]; exact ih _ (add_nonneg hc (hf a))

theorem foldl_add_replicate (n : Nat) (a : K) (c : Rat) :
    (List.replicate n a).foldl (fun acc a => acc + f a) c = c + n * f a := by
  induction n generalizing c with
  | zero => simp
  | succ n ih => simp only [List.replicate_succ, List.foldl_cons, ih]; push_cast; ring

theorem foldl_add_unit (z o : K) (hz : f z = 0) (ho : f o = 1) :
    ∀ n j (c : Rat), j < n → ((List.replicate n z).set j o).foldl (fun acc a => acc + f a) c = c + 1 := by
  intro n
  induction n with
  | zero => intro j c h; omega
  | succ n ih =>
    intro j c h
    cases j with
    | zero =>
      simp only [List.replicate_succ, List.set_cons_zero, List.foldl_cons, foldl_add_replicate, ho, hz]; ring
    | succ j =>
      simp only [List.replicate_succ, List.set_cons_succ, List.foldl_cons, hz, add_zero]
      exact ih j c (by omega)

theorem foldl_add_alt (g : Nat → K) (d : Rat) (hg : ∀ i : Nat, f (g i) = (i : Rat) / d + 1) :
    ∀ k (c : Rat), ((List.range k).map g).foldl (fun acc a => acc + f a) c
      = c + k + ((k : Rat) * (k - 1) / 2) / d := by
  intro k
  induction k with
  | zero => intro c; simp
  | succ k ih =>
    intro c
    rw [List.range_succ, List.map_append, List.foldl_append, ih]
    simp only [List.map_cons, List.map_nil, List.foldl_cons, List.foldl_nil, hg]
    push_cast; ring
end sums

theorem rabs_alt (i : Nat) (y : Rat) (hy : 0 ≤ y) : rabs ((if i % 2 = 0 then 1 else -1) * y) = y := by
  rw [rabs_eq_abs]
  split
  · rw [one_mul, abs_of_nonneg hy]
  · rw [neg_one_mul, abs_neg, abs_of_nonneg hy]

theorem cast_pred_of_two_le (n : Nat) (h : 2 ≤ n) : (((n - 1 : Nat)) : Rat) = (n : Rat) - 1 := by
  rw [Nat.cast_sub (by omega)]; simp

theorem alt_sum_eq (n : Nat) (h : 2 ≤ n) :
    (0 : Rat) + n + ((n : Rat) * (n - 1) / 2) / ((n : Rat) - 1) = 3 * (n : Rat) / 2 := by
  have h1 : ((n : Rat) - 1) ≠ 0 := by
    have : (2 : Rat) ≤ n := by exact_mod_cast h
    intro h0; linarith
  field_simp; ring

theorem primQ_lawful : Lawful primQ where
  asum_nonneg x := by
    show 0 ≤ x.foldl (fun acc a => acc + rabs a) 0
    rw [← Array.foldl_toList]; exact foldl_add_nonneg _ rabs_nonneg _ _ le_rfl
  absEst_eq a := by show rabs a = (#[a] : Array Rat).foldl (fun acc a => acc + rabs a) 0; simp
  asum_uniform n hn := by
    show (Array.replicate n (1 / (n : Rat))).foldl (fun acc a => acc + rabs a) 0 = 1
    rw [← Array.foldl_toList, Array.toList_replicate, foldl_add_replicate]
    have : (0 : Rat) < n := by exact_mod_cast hn
    rw [rabs_eq_abs, abs_of_pos (by positivity)]; field_simp; norm_num
  asum_unit n j hj := by
    show ((Array.replicate n (0 : Rat)).setIfInBounds j 1).foldl (fun acc a => acc + rabs a) 0 = 1
    rw [← Array.foldl_toList, Array.toList_setIfInBounds, Array.toList_replicate,
      foldl_add_unit rabs 0 1 (by simp) (by simp) n j 0 hj]; ring
  asum_zero n := by
    show (Array.replicate n (0 : Rat)).foldl (fun acc a => acc + rabs a) 0 = 0
    rw [← Array.foldl_toList, Array.toList_replicate, foldl_add_replicate]; simp
  asum_alt n hn := by
    show ((Array.range n).map (primQ.alt n)).foldl (fun acc a => acc + rabs a) 0 = 3 * (n : Rat) / 2
    rw [← Array.foldl_toList, Array.toList_map, Array.toList_range,
      foldl_add_alt rabs (primQ.alt n) ((n : Rat) - 1) ?_ n 0]
    · exact alt_sum_eq n hn
    · intro i
      show rabs ((if i % 2 = 0 then 1 else -1) * ((i : Rat) / ((n - 1 : Nat) : Rat) + 1)) = _
      rw [cast_pred_of_two_le n hn]
      have h1 : (0 : Rat) ≤ (n : Rat) - 1 := by
        have : (2 : Rat) ≤ n := by exact_mod_cast hn
        linarith
      exact rabs_alt i _ (by positivity)
  fin_eq t n := by show t / ((n * 3 : Nat) : Rat) * 2 = _; push_cast; ring_nf

theorem primQC_lawful : Lawful primQC where
  asum_nonneg x := by
    show 0 ≤ x.foldl (fun acc (a : Cx Rat) => acc + (rabs a.re + rabs a.im)) 0
    rw [← Array.foldl_toList]
    exact foldl_add_nonneg _ (fun a => add_nonneg (rabs_nonneg _) (rabs_nonneg _)) _ _ le_rfl
  absEst_eq a := by
    show rabs a.re + rabs a.im = (#[a] : Array (Cx Rat)).foldl (fun acc (a : Cx Rat) => acc + (rabs a.re + rabs a.im)) 0
    simp
  asum_uniform n hn := by
    show (Array.replicate n (⟨1 / (n : Rat), 0⟩ : Cx Rat)).foldl (fun acc (a : Cx Rat) => acc + (rabs a.re + rabs a.im)) 0 = 1
    rw [← Array.foldl_toList, Array.toList_replicate, foldl_add_replicate (fun a : Cx Rat => rabs a.re + rabs a.im)]
    have : (0 : Rat) < n := by exact_mod_cast hn
    simp only [rabs_eq_abs, abs_zero, add_zero]
    rw [abs_of_pos (by positivity)]; field_simp; norm_num
  asum_unit n j hj := by
    show ((Array.replicate n (⟨0, 0⟩ : Cx Rat)).setIfInBounds j ⟨1, 0⟩).foldl (fun acc (a : Cx Rat) => acc + (rabs a.re + rabs a.im)) 0 = 1
    rw [← Array.foldl_toList, Array.toList_setIfInBounds, Array.toList_replicate,
      foldl_add_unit (fun a : Cx Rat => rabs a.re + rabs a.im) ⟨0, 0⟩ ⟨1, 0⟩ (by simp) (by simp) n j 0 hj]; ring
  asum_zero n := by
    show (Array.replicate n (⟨0, 0⟩ : Cx Rat)).foldl (fun acc (a : Cx Rat) => acc + (rabs a.re + rabs a.im)) 0 = 0
    rw [← Array.foldl_toList, Array.toList_replicate, foldl_add_replicate (fun a : Cx Rat => rabs a.re + rabs a.im)]; simp
  asum_alt n hn := by
    show ((Array.range n).map (primQC.alt n)).foldl (fun acc (a : Cx Rat) => acc + (rabs a.re + rabs a.im)) 0 = 3 * (n : Rat) / 2
    rw [← Array.foldl_toList, Array.toList_map, Array.toList_range,
      foldl_add_alt (fun a : Cx Rat => rabs a.re + rabs a.im) (primQC.alt n) ((n : Rat) - 1) ?_ n 0]
    · exact alt_sum_eq n hn
    · intro i
      show rabs ((if i % 2 = 0 then 1 else -1) * ((i : Rat) / ((n - 1 : Nat) : Rat) + 1)) + rabs 0 = _
      rw [cast_pred_of_two_le n hn]
      have h1 : (0 : Rat) ≤ (n : Rat) - 1 := by
        have : (2 : Rat) ≤ n := by exact_mod_cast hn
        linarith
      rw [rabs_alt i _ (by positivity)]; simp
  fin_eq t n := by show t / ((n * 3 : Nat) : Rat) * 2 = _; push_cast; ring_nf

end Slu.Lacon
