import Slu.Model.Lacon
import SluProofs.Lemmas.RatBasic
/-
Invariants of the `lacon2` state machine (model: Slu/Model/Lacon.lean) in exact arithmetic.
-/
namespace Slu.Lacon
open Slu

variable {K : Type}

/-- what the proofs need of the primitives: `asum` behaves like a 1-norm on the vectors the machine
builds.  Both the real instance `primQ` and the complex instance `primQC` satisfy it (below); so does
the true complex modulus (over the reals). -/
structure Lawful (P : Prim K Rat) : Prop where
  asum_nonneg : ∀ x, 0 ≤ P.asum x
  absEst_eq : ∀ a, P.absEst a = P.asum #[a]
  asum_uniform : ∀ n, 1 ≤ n → P.asum (Array.replicate n (P.ninv n)) = 1
  asum_unit : ∀ n j, j < n → P.asum ((Array.replicate n P.zero).setIfInBounds j P.one) = 1
  asum_zero : ∀ n, P.asum (Array.replicate n P.zero) = 0
  asum_alt : ∀ n, 2 ≤ n → P.asum ((Array.range n).map (P.alt n)) = 3 * (n : Rat) / 2
  fin_eq : ∀ t n, P.fin t n = t / (3 * (n : Rat)) * 2

/-! ### termination: a measure on the control state -/

/-- control-state invariant before a call -/
def Struct (s : St K Rat) : Prop :=
  s.kase = 0 ∨ s.jump = 1 ∨ s.jump = 2 ∨ (s.jump = 3 ∧ 2 ≤ s.iter ∧ s.iter ≤ 5) ∨
  (s.jump = 4 ∧ 2 ≤ s.iter ∧ s.iter ≤ 5) ∨ s.jump = 5

/-- number of calls still possible -/
def mu (s : St K Rat) : Nat :=
  if s.kase = 0 then 12
  else if s.jump = 1 then 11
  else if s.jump = 2 then 10
  else if s.jump = 3 then 13 - 2 * s.iter
  else if s.jump = 4 then 12 - 2 * s.iter
  else if s.jump = 5 then 1
  else 0

theorem mu_pos (s : St K Rat) (h : Struct s) : 1 ≤ mu s := by
  unfold mu
  rcases h with h | h | h | ⟨h, h1, h2⟩ | ⟨h, h1, h2⟩ | h <;> split_ifs <;> omega

@[simp] theorem toL50_kase (P : Prim K Rat) (s : St K Rat) (j i : Nat) : (toL50 P s j i).kase = 1 := rfl
@[simp] theorem toL50_jump (P : Prim K Rat) (s : St K Rat) (j i : Nat) : (toL50 P s j i).jump = 3 := rfl
@[simp] theorem toL50_iter (P : Prim K Rat) (s : St K Rat) (j i : Nat) : (toL50 P s j i).iter = i := rfl
@[simp] theorem toL50_est (P : Prim K Rat) (s : St K Rat) (j i : Nat) : (toL50 P s j i).est = s.est := rfl
@[simp] theorem toL50_x (P : Prim K Rat) (s : St K Rat) (j i : Nat) :
    (toL50 P s j i).x = (Array.replicate s.x.size P.zero).setIfInBounds j P.one := rfl
@[simp] theorem toL120_kase (P : Prim K Rat) (s : St K Rat) : (toL120 P s).kase = 1 := rfl
@[simp] theorem toL120_jump (P : Prim K Rat) (s : St K Rat) : (toL120 P s).jump = 5 := rfl
@[simp] theorem toL120_est (P : Prim K Rat) (s : St K Rat) : (toL120 P s).est = s.est := rfl
@[simp] theorem toL120_x (P : Prim K Rat) (s : St K Rat) :
    (toL120 P s).x = (Array.range s.x.size).map (P.alt s.x.size) := rfl
@[simp] theorem toSign_kase (P : Prim K Rat) (s : St K Rat) (j : Nat) : (toSign P s j).kase = 2 := rfl
@[simp] theorem toSign_jump (P : Prim K Rat) (s : St K Rat) (j : Nat) : (toSign P s j).jump = j := rfl
@[simp] theorem toSign_iter (P : Prim K Rat) (s : St K Rat) (j : Nat) : (toSign P s j).iter = s.iter := rfl
@[simp] theorem toSign_est (P : Prim K Rat) (s : St K Rat) (j : Nat) : (toSign P s j).est = s.est := rfl
@[simp] theorem toSign_x (P : Prim K Rat) (s : St K Rat) (j : Nat) : (toSign P s j).x = s.x.map P.sgn := rfl

/-- one call either finishes or strictly decreases the measure, keeping the control invariant -/
theorem step_mu (P : Prim K Rat) (s : St K Rat) (h : Struct s) :
    (step P s).kase = 0 ∨ (Struct (step P s) ∧ mu (step P s) < mu s) := by
  unfold step
  by_cases h0 : s.kase = 0
  · right
    simp only [h0, if_true]
    exact ⟨Or.inr (Or.inl rfl), by simp [mu, h0]⟩
  · simp only [h0, if_false]
    have hs : s.jump = 1 ∨ s.jump = 2 ∨ (s.jump = 3 ∧ 2 ≤ s.iter ∧ s.iter ≤ 5) ∨
        (s.jump = 4 ∧ 2 ≤ s.iter ∧ s.iter ≤ 5) ∨ s.jump = 5 := by
      rcases h with h | h <;> [exact absurd h h0; exact h]
    rcases hs with h | h | ⟨h, h1, h2⟩ | ⟨h, h1, h2⟩ | h
    · -- jump = 1
      simp only [h, show (1 : Nat) ≠ 2 from by decide, show (1 : Nat) ≠ 3 from by decide,
        show (1 : Nat) ≠ 4 from by decide, show (1 : Nat) ≠ 5 from by decide, if_false]
      split
      · left; rfl
      · right
        refine ⟨Or.inr (Or.inr (Or.inl (by simp))), ?_⟩
        simp [mu, h0, h]
    · -- jump = 2
      right
      simp only [h, if_true]
      refine ⟨Or.inr (Or.inr (Or.inr (Or.inl ⟨by simp, by simp, by simp⟩))), ?_⟩
      simp [mu, h0, h]
    · -- jump = 3
      right
      simp only [h, show (3 : Nat) ≠ 2 from by decide, if_false, if_true]
      split
      · exact ⟨Or.inr (Or.inr (Or.inr (Or.inr (Or.inr (by simp))))), by simp [mu, h0, h]; omega⟩
      · split
        · exact ⟨Or.inr (Or.inr (Or.inr (Or.inr (Or.inr (by simp))))), by simp [mu, h0, h]; omega⟩
        · refine ⟨Or.inr (Or.inr (Or.inr (Or.inr (Or.inl ⟨by simp, by simpa using h1, by simpa using h2⟩)))), ?_⟩
          simp [mu, h0, h]; omega
    · -- jump = 4
      right
      simp only [h, show (4 : Nat) ≠ 2 from by decide, show (4 : Nat) ≠ 3 from by decide, if_false, if_true]
      split
      · rename_i hc
        have hlt : s.iter < 5 := by
          simp only [Bool.and_eq_true, decide_eq_true_eq] at hc
          exact hc.2
        refine ⟨Or.inr (Or.inr (Or.inr (Or.inl ⟨by simp, by simp; omega, by simp; omega⟩))), ?_⟩
        simp [mu, h0, h]; omega
      · exact ⟨Or.inr (Or.inr (Or.inr (Or.inr (Or.inr (by simp))))), by simp [mu, h0, h]; omega⟩
    · -- jump = 5
      left
      simp only [h, show (5 : Nat) ≠ 2 from by decide, show (5 : Nat) ≠ 3 from by decide,
        show (5 : Nat) ≠ 4 from by decide, if_false, if_true]
      split <;> rfl

theorem Struct_setx (s : St K Rat) (y : Array K) (h : Struct s) : Struct { s with x := y } := h
theorem mu_setx (s : St K Rat) (y : Array K) : mu { s with x := y } = mu s := rfl

/-- the caller's loop stops as soon as the fuel covers the measure -/
theorem run_terminates (P : Prim K Rat) (T Tt : Array K → Array K) :
    ∀ fuel (s : St K Rat), Struct s → mu s ≤ fuel → (run P T Tt fuel s).kase = 0 := by
  intro fuel
  induction fuel with
  | zero => intro s hs hm; have := mu_pos s hs; omega
  | succ f ih =>
    intro s hs hm
    simp only [run]
    rcases step_mu P s hs with h | ⟨h1, h2⟩
    · simp [h]
    · split
      · assumption
      · apply ih
        · exact Struct_setx _ _ h1
        · rw [mu_setx]; omega

end Slu.Lacon
