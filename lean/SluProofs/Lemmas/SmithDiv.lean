import SluProofs.Lemmas.CxRat
import SluProofs.Lemmas.RatBasic
import Mathlib.Tactic.FieldSimp
import Mathlib.Tactic.Linarith
/- The division the executable model performs on complex data (Smith's algorithm, mirroring z_div) versus the field division used by the theorems. -/
namespace Slu.Cx
open Slu

theorem smithDiv_unfold (a b : Cx Rat) : smithDiv a b =
    if rabs b.re ≤ rabs b.im then
      ⟨(a.re * (b.re / b.im) + a.im) / (b.im * (1 + (b.re / b.im) * (b.re / b.im))),
       (a.im * (b.re / b.im) - a.re) / (b.im * (1 + (b.re / b.im) * (b.re / b.im)))⟩
    else
      ⟨(a.re + a.im * (b.im / b.re)) / (b.re * (1 + (b.im / b.re) * (b.im / b.re))),
       (a.im - a.re * (b.im / b.re)) / (b.re * (1 + (b.im / b.re) * (b.im / b.re)))⟩ := rfl

/-- Smith's algorithm (`z_div`: the division executed by the model and by the C code) is the exact
quotient of the Gaussian rationals whenever the divisor is nonzero -/
theorem smithDiv_eq (a b : Cx Rat) (hb : b ≠ 0) : smithDiv a b = a * b⁻¹ := by
  have hne : b.re ≠ 0 ∨ b.im ≠ 0 := by
    by_contra h
    rw [not_or, not_not, not_not] at h
    apply hb; apply ext' <;> simp [zero_def, h.1, h.2]
  rw [smithDiv_unfold]
  by_cases hle : rabs b.re ≤ rabs b.im
  · rw [if_pos hle]
    have him : b.im ≠ 0 := by
      intro h0
      rcases hne with h | h
      · rw [h0] at hle; simp at hle; exact h hle
      · exact h h0
    have hs : b.re * b.re + b.im * b.im ≠ 0 := by
      have := mul_self_nonneg b.re; have h2 := mul_self_pos.mpr him; linarith
    apply ext'
    · simp only [mul_def, inv_def]; field_simp; ring
    · simp only [mul_def, inv_def]; field_simp; ring
  · rw [if_neg hle]
    have hre : b.re ≠ 0 := by
      intro h0; apply hle; rw [h0]; simp
    have hs : b.re * b.re + b.im * b.im ≠ 0 := by
      have := mul_self_nonneg b.im; have h2 := mul_self_pos.mpr hre; linarith
    apply ext'
    · simp only [mul_def, inv_def]; field_simp; ring
    · simp only [mul_def, inv_def]; field_simp; ring
end Slu.Cx
