import Slu.Model.ColDfs
import SluProofs.Lemmas.DfsTopo
/-
The explicit-stack search of `Slu/Model/ColDfs.lean` (array-level mirror of [sdcz]column_dfs.c)
computes the recursive depth-first search `dfsVisit`/`dfsList` of `Slu/Model/Dfs.lean` on the graph
read off the arrays.

* `rd_wr_*`, `slice_*`            arrays and slices;
* `EnvOK`, `StOK`, `AppOK`, `MA`, `PostOK`   the invariants (what the search reads is well formed; `lsub` prefix frozen,
                                  sizes, marked pivoted rows have a discovered representative; appended rows
                                  distinct / unpivoted / marked and every marked unpivoted row appended; the list
                                  of finished representatives is duplicate free, below jcol; the filled part of
                                  `segrep` is a duplicate-free list of columns below jcol <= |segrep| - `PostOK.pop`:
                                  there is room for a column that is not in it yet; `ScanAt` carries "an entry of the
                                  filled part that is not discovered lies below the node being scanned", so a node the
                                  search descends to is never one of the panel's segments already there);
* `scan_rows`, `scanAt_all`       the machine started inside the pruned list of a representative `s` reaches the
                                  point where `s` is popped, and in between does exactly what folding the recursive
                                  visit over the successors found in the rest of the list does (`ScanRes`: finished
                                  list, `segrep` extension, frames of `parent`/`xplore`, step bound, marks);
* `rootStep_spec`, `search_spec`  one nonzero of the column = one recursive visit; the `for` loop = `dfsList`;
* `wfIn_unpack`, `wfIn_env`, `wfIn_root`, `wfIn_fuel`   the decidable `wfIn` gives the invariants on entry;
* `columnDfs_eq_dfsList`          the routine's `segrep` output = the recursive search (any visited set on entry);
* `adjR_lt`, `rootCols_lt`, `adjR_eq_map`   the graph satisfies the hypotheses of the DfsTopo theorems / `snodeReps`;
* `search_lsub`, `search_lsub_reach`   the rows appended to `lsub`.
-/
namespace Slu.ColDfs
open Slu Slu.LU List

/-! ### arrays -/

theorem size_wr (a : Array Int) (i v : Int) : (wr a i v).size = a.size := by
  unfold wr; split <;> simp

theorem rd_wr_ne {a : Array Int} {i k v : Int} (h : k ≠ i) : rd (wr a i v) k = rd a k := by
  unfold rd wr
  by_cases hk : 0 ≤ k <;> by_cases hi : 0 ≤ i <;> simp only [hk, hi, if_true, if_false]
  have : i.toNat ≠ k.toNat := by omega
  simp [Array.getD_eq_getD_getElem?, Array.getElem?_setIfInBounds_ne this]

theorem rd_wr_eq {a : Array Int} {i v : Int} (h0 : 0 ≤ i) (h1 : i < a.size) : rd (wr a i v) i = v := by
  unfold rd wr
  simp only [h0, if_true]
  have : i.toNat < a.size := by omega
  simp [Array.getD_eq_getD_getElem?, this]

theorem rd_oob_neg {a : Array Int} {i : Int} (h : i < 0) : rd a i = oob := by
  unfold rd; simp [Int.not_le.mpr h]

/-! ### slices -/

theorem slice_nil (a : Array Int) (lo : Int) : slice a lo lo = [] := by simp [slice]

theorem slice_cons (a : Array Int) {lo hi : Int} (h0 : 0 ≤ lo) (h : lo < hi) :
    slice a lo hi = rd a lo :: slice a (lo + 1) hi := by
  unfold slice
  have e1 : (hi - lo).toNat = (hi - (lo + 1)).toNat + 1 := by omega
  have e2 : (lo + 1).toNat = lo.toNat + 1 := by omega
  rw [e1, List.range'_succ, e2]
  simp [Int.toNat_of_nonneg h0]

theorem slice_snoc (a : Array Int) {lo hi : Int} (h0 : 0 ≤ lo) (h : lo ≤ hi) :
    slice a lo (hi + 1) = slice a lo hi ++ [rd a hi] := by
  unfold slice
  have e1 : (hi + 1 - lo).toNat = (hi - lo).toNat + 1 := by omega
  rw [e1, List.range'_concat, map_append]
  have : ((lo.toNat + 1 * (hi - lo).toNat : Nat) : Int) = hi := by omega
  rw [map_singleton, this]

theorem slice_congr {a b : Array Int} {lo hi : Int} (h0 : 0 ≤ lo)
    (h : ∀ x, lo ≤ x → x < hi → rd a x = rd b x) : slice a lo hi = slice b lo hi := by
  unfold slice
  apply map_congr_left
  intro k hk
  rw [mem_range'_1] at hk
  exact h k (by omega) (by omega)

theorem slice_append (a : Array Int) {lo mid hi : Int} (h0 : 0 ≤ lo) (h1 : lo ≤ mid) (h2 : mid ≤ hi) :
    slice a lo hi = slice a lo mid ++ slice a mid hi := by
  unfold slice
  have e1 : (hi - lo).toNat = (mid - lo).toNat + (hi - mid).toNat := by omega
  have e2 : mid.toNat = lo.toNat + (mid - lo).toNat := by omega
  rw [e1, ← List.range'_append_1, map_append, e2]

theorem nodup_lt_length {l : List Nat} {n : Nat} (hnd : l.Nodup) (hlt : ∀ t ∈ l, t < n) : l.length ≤ n := by
  have : l ⊆ List.range n := fun t ht => List.mem_range.mpr (hlt t ht)
  simpa using (List.subperm_of_subset hnd this).length_le

theorem rd_wr_self_or (a : Array Int) (i v : Int) : rd (wr a i v) i = v ∨ rd (wr a i v) i = rd a i := by
  by_cases h0 : 0 ≤ i
  · by_cases h1 : i < a.size
    · exact Or.inl (rd_wr_eq h0 h1)
    · right; unfold rd wr; simp only [h0, if_true]
      have : ¬ i.toNat < a.size := by omega
      simp [Array.getD_eq_getD_getElem?, this]
  · right; unfold wr; simp [h0]

/-! ### invariants -/

section inv
variable (e : Env) (L : Array Int) (nextl0 : Int)

/-- what the search needs from the arrays it only reads (`L` = `lsub` on entry, `nextl0 = xlsub[jcol]`) -/
structure EnvOK : Prop where
  jcol0 : 0 ≤ e.jcol
  m0 : 0 ≤ e.m
  perm : ∀ r, 0 ≤ r → r < e.m → rd e.perm_r r = EMPTY ∨ (0 ≤ rd e.perm_r r ∧ rd e.perm_r r < e.jcol)
  rep : ∀ k, 0 ≤ k → k < e.jcol → k ≤ repOf e k ∧ repOf e k < e.jcol ∧ repOf e (repOf e k) = repOf e k
  lists : ∀ s, 0 ≤ s → s < e.jcol → repOf e s = s →
    0 ≤ rd e.xlsub s ∧ rd e.xlsub s ≤ rd e.xprune s ∧ rd e.xprune s ≤ nextl0 ∧
    ∀ x, rd e.xlsub s ≤ x → x < rd e.xprune s →
      0 ≤ rd L x ∧ rd L x < e.m ∧ (rd e.perm_r (rd L x) = EMPTY ∨ s ≤ rd e.perm_r (rd L x) ∨ repOf e (rd e.perm_r (rd L x)) = s)

/-- representative `t` has been discovered: `repfnz[t] != EMPTY` -/
def disc (st : St) (t : Int) : Prop := rd st.repfnz t ≠ EMPTY

/-- the rows appended to `lsub` so far (`lsub[nextl0 .. nextl)`): distinct, unpivoted, marked; room for the rest -/
structure AppOK (st : St) : Prop where
  n0 : 0 ≤ nextl0
  nodup : (slice st.lsub nextl0 st.nextl).Nodup
  rows : ∀ r ∈ slice st.lsub nextl0 st.nextl, 0 ≤ r ∧ r < e.m ∧ rd e.perm_r r = EMPTY ∧ mk2 e st r = e.jcol
  cap : nextl0 + (unpivoted e.m e.perm_r).length ≤ st.lsub.size

structure StOK (st : St) : Prop where
  app : AppOK e nextl0 st
  pre : ∀ x, 0 ≤ x → x < nextl0 → rd st.lsub x = rd L x
  nextl : nextl0 ≤ st.nextl
  szRep : e.jcol ≤ st.repfnz.size
  szPar : e.jcol ≤ st.parent.size
  szXpl : e.jcol ≤ st.xplore.size
  szMark : (st.marker.size : Int) = 3 * e.m
  markRep : ∀ r, 0 ≤ r → r < e.m → mk2 e st r = e.jcol → rd e.perm_r r ≠ EMPTY → disc st (repOf e (rd e.perm_r r))
  nseg0 : 0 ≤ st.nseg

structure PostOK (post : List Nat) (st : St) : Prop where
  nodup : post.Nodup
  lt : ∀ t ∈ post, (t : Int) < e.jcol
  fin : ∀ t ∈ post, disc st (t : Int)
  cap : (slice st.segrep 0 st.nseg).Nodup ∧ (∀ v ∈ slice st.segrep 0 st.nseg, 0 ≤ v ∧ v < e.jcol) ∧
    e.jcol ≤ st.segrep.size

variable {e L nextl0}

theorem mk2_mark_ne {st : St} {row r : Int} (h : r ≠ row) :
    mk2 e { st with marker := wr st.marker (2 * e.m + row) e.jcol } r = mk2 e st r := by
  unfold mk2; exact rd_wr_ne (by omega)

theorem AppOK.congr {st st' : St} (h : AppOK e nextl0 st) (h1 : st'.lsub = st.lsub) (h2 : st'.nextl = st.nextl)
    (h3 : ∀ r, mk2 e st r = e.jcol → mk2 e st' r = e.jcol) : AppOK e nextl0 st' :=
  ⟨h.n0, by rw [h1, h2]; exact h.nodup,
   fun r hr => by
    rw [h1, h2] at hr
    obtain ⟨a, b, c, d⟩ := h.rows r hr
    exact ⟨a, b, c, h3 r d⟩,
   by rw [h1]; exact h.cap⟩

theorem mk2_mark_mono {st : St} {row r : Int} (h : mk2 e st r = e.jcol) :
    mk2 e { st with marker := wr st.marker (2 * e.m + row) e.jcol } r = e.jcol := by
  by_cases hr : r = row
  · subst hr
    unfold mk2 at h ⊢
    rcases rd_wr_self_or st.marker (2 * e.m + r) e.jcol with h' | h'
    · exact h'
    · exact h'.trans h
  · rw [mk2_mark_ne hr]; exact h

/-- every unpivoted row that carries the mark of this column has been appended -/
def MA (e : Env) (nextl0 : Int) (st : St) : Prop :=
  ∀ r, 0 ≤ r → r < e.m → mk2 e st r = e.jcol → rd e.perm_r r = EMPTY → r ∈ slice st.lsub nextl0 st.nextl

theorem MA.congr {st st' : St} (h : MA e nextl0 st) (h1 : st'.lsub = st.lsub) (h2 : st'.nextl = st.nextl)
    (h3 : ∀ r, mk2 e st' r = e.jcol → mk2 e st r = e.jcol) : MA e nextl0 st' := by
  intro r r0 r1 hm hp
  rw [h1, h2]; exact h r r0 r1 (h3 r hm) hp

theorem MA.markPivoted {st : St} (h : MA e nextl0 st) {row : Int} (hp : rd e.perm_r row ≠ EMPTY) :
    MA e nextl0 { st with marker := wr st.marker (2 * e.m + row) e.jcol } := by
  intro r r0 r1 hm hun
  by_cases hr : r = row
  · subst hr; exact absurd hun hp
  · rw [mk2_mark_ne hr] at hm; exact h r r0 r1 hm hun

theorem mk2_mark_iff {st : St} {row r : Int} (h0 : 0 ≤ 2 * e.m + row) (h1 : 2 * e.m + row < st.marker.size) :
    mk2 e { st with marker := wr st.marker (2 * e.m + row) e.jcol } r = e.jcol ↔ (mk2 e st r = e.jcol ∨ r = row) := by
  by_cases hr : r = row
  · subst hr
    have : mk2 e { st with marker := wr st.marker (2 * e.m + r) e.jcol } r = e.jcol := by
      unfold mk2; exact rd_wr_eq h0 h1
    simp [this]
  · rw [mk2_mark_ne hr]; simp [hr]

theorem ex_split {P : Nat → Prop} (a b : List Nat) (c : Nat) :
    (∃ t ∈ a ++ c :: b, P t) ↔ ((∃ t ∈ a, P t) ∨ P c ∨ ∃ t ∈ b, P t) := by
  constructor
  · rintro ⟨t, ht, hp⟩
    rcases mem_append.mp ht with h | h
    · exact Or.inl ⟨t, h, hp⟩
    · rcases mem_cons.mp h with rfl | h
      · exact Or.inr (Or.inl hp)
      · exact Or.inr (Or.inr ⟨t, h, hp⟩)
  · rintro (⟨t, h, hp⟩ | hp | ⟨t, h, hp⟩)
    · exact ⟨t, mem_append_left _ h, hp⟩
    · exact ⟨c, mem_append_right _ mem_cons_self, hp⟩
    · exact ⟨t, mem_append_right _ (mem_cons_of_mem _ h), hp⟩

theorem or_shuffle {A B C D E F : Prop} : (((A ∨ B) ∨ C ∨ D) ∨ E ∨ F) ↔ (A ∨ (B ∨ E) ∨ (F ∨ C ∨ D)) := by tauto

theorem slice_length (a : Array Int) (lo hi : Int) : (slice a lo hi).length = (hi - lo).toNat := by
  simp [slice]

theorem nodup_int_length {l : List Int} {n : Int} (hnd : l.Nodup) (hlt : ∀ v ∈ l, 0 ≤ v ∧ v < n) :
    (l.length : Int) ≤ n ∨ l = [] := by
  by_cases hl : l = []
  · exact Or.inr hl
  left
  have h1 : (l.map Int.toNat).Nodup := by
    refine Nodup.map_on ?_ hnd
    intro a ha b hb hab
    have := (hlt a ha).1; have := (hlt b hb).1; omega
  have h2 := nodup_lt_length (n := n.toNat) h1 (by
    intro t ht
    obtain ⟨v, hv, rfl⟩ := mem_map.mp ht
    have := hlt v hv; omega)
  rw [length_map] at h2
  obtain ⟨v, hv⟩ := exists_mem_of_ne_nil l hl
  have := hlt v hv
  omega

/-- the filled part of `segrep` after a stretch of the search that appended `nw` (in reverse) -/
theorem seg_ext {st st2 : St} {nw : List Nat} (hn0 : 0 ≤ st.nseg) (hn2 : st2.nseg = st.nseg + nw.length)
    (hframe : ∀ x, x < st.nseg → rd st2.segrep x = rd st.segrep x)
    (hnew : slice st2.segrep st.nseg st2.nseg = nw.reverse.map Int.ofNat) :
    slice st2.segrep 0 st2.nseg = slice st.segrep 0 st.nseg ++ nw.reverse.map Int.ofNat := by
  rw [slice_append st2.segrep (le_refl 0) hn0 (by omega : st.nseg ≤ st2.nseg), hnew]
  congr 1
  exact slice_congr (le_refl 0) (fun y _ hy => hframe y hy)

theorem seg_mem_ext {st st2 : St} {nw : List Nat} (hn0 : 0 ≤ st.nseg) (hn2 : st2.nseg = st.nseg + nw.length)
    (hframe : ∀ x, x < st.nseg → rd st2.segrep x = rd st.segrep x)
    (hnew : slice st2.segrep st.nseg st2.nseg = nw.reverse.map Int.ofNat) {v : Int}
    (hv : v ∈ slice st2.segrep 0 st2.nseg) : v ∈ slice st.segrep 0 st.nseg ∨ ∃ t ∈ nw, v = ((t : Nat) : Int) := by
  rw [seg_ext hn0 hn2 hframe hnew, mem_append] at hv
  rcases hv with h | h
  · exact Or.inl h
  · right
    obtain ⟨t, ht, rfl⟩ := mem_map.mp h
    exact ⟨t, mem_reverse.mp ht, rfl⟩

theorem seg_push (a : Array Int) {n : Int} (c : Int) (h0 : 0 ≤ n) (h1 : n < a.size) :
    slice (wr a n c) 0 (n + 1) = slice a 0 n ++ [c] := by
  rw [slice_snoc _ (le_refl 0) h0, rd_wr_eq h0 h1]
  congr 1
  exact slice_congr (le_refl 0) (fun y _ hy => rd_wr_ne (by omega))

/-- placing `c` (a column below jcol that is not yet in the filled part of `segrep`) in postorder: there is room,
and the filled part stays a duplicate-free list of columns below jcol -/
theorem PostOK.pop {st2 : St} {post2 : List Nat} (hpo : PostOK e post2 st2) (hn0 : 0 ≤ st2.nseg) {c : Nat}
    (hc : (c : Int) < e.jcol) (hcseg : (c : Int) ∉ slice st2.segrep 0 st2.nseg) :
    st2.nseg < st2.segrep.size ∧
    ((slice (wr st2.segrep st2.nseg (c : Int)) 0 (st2.nseg + 1)).Nodup ∧
      (∀ v ∈ slice (wr st2.segrep st2.nseg (c : Int)) 0 (st2.nseg + 1), 0 ≤ v ∧ v < e.jcol) ∧
      e.jcol ≤ (wr st2.segrep st2.nseg (c : Int)).size) := by
  obtain ⟨nd, lt, sz⟩ := hpo.cap
  have hnd : (slice st2.segrep 0 st2.nseg ++ [(c : Int)]).Nodup := by
    rw [nodup_append]
    exact ⟨nd, by simp, fun a ha b hb => by
      rw [mem_singleton] at hb; subst hb; intro hab; subst hab; exact hcseg ha⟩
  have hlt : ∀ v ∈ slice st2.segrep 0 st2.nseg ++ [(c : Int)], 0 ≤ v ∧ v < e.jcol := by
    intro v hv
    rcases mem_append.mp hv with h | h
    · exact lt v h
    · rw [mem_singleton] at h; subst h; exact ⟨by omega, hc⟩
  have hroom : st2.nseg < st2.segrep.size := by
    rcases nodup_int_length hnd hlt with h | h
    · rw [length_append, slice_length] at h
      simp at h
      omega
    · simp at h
  refine ⟨hroom, ?_, ?_, by rw [size_wr]; exact sz⟩
  · rw [seg_push _ _ hn0 hroom]; exact hnd
  · rw [seg_push _ _ hn0 hroom]; exact hlt

/-- marking a row whose representative (if it is pivoted) is discovered -/
theorem StOK.mark {st : St} (h : StOK e L nextl0 st) (row : Int)
    (hr : rd e.perm_r row ≠ EMPTY → disc st (repOf e (rd e.perm_r row))) :
    StOK e L nextl0 { st with marker := wr st.marker (2 * e.m + row) e.jcol } where
  app := h.app.congr rfl rfl (fun _ hr => mk2_mark_mono hr)
  pre := h.pre
  nextl := h.nextl
  szRep := h.szRep
  szPar := h.szPar
  szXpl := h.szXpl
  szMark := by simpa [size_wr] using h.szMark
  nseg0 := h.nseg0
  markRep := by
    intro r r0 r1 hm hp
    by_cases hrr : r = row
    · subst hrr; exact hr hp
    · rw [mk2_mark_ne hrr] at hm; exact h.markRep r r0 r1 hm hp

theorem StOK.append {st : St} (h : StOK e L nextl0 st) (row mark : Int) (hr0 : 0 ≤ row) (hr1 : row < e.m)
    (hun : rd e.perm_r row = EMPTY) (hmk : mk2 e st row = e.jcol) (hnot : row ∉ slice st.lsub nextl0 st.nextl) :
    StOK e L nextl0 (appendRow e st row mark) := by
  have n0 := h.app.n0
  have hle := h.nextl
  have hnd : (slice st.lsub nextl0 st.nextl ++ [row]).Nodup := by
    rw [nodup_append]
    exact ⟨h.app.nodup, by simp, fun a ha b hb => by
      rw [mem_singleton] at hb; subst hb; intro hab; subst hab; exact hnot ha⟩
  have hall : ∀ r ∈ slice st.lsub nextl0 st.nextl ++ [row], 0 ≤ r ∧ r < e.m ∧ rd e.perm_r r = EMPTY ∧ mk2 e st r = e.jcol := by
    intro r hr
    rcases mem_append.mp hr with hr | hr
    · exact h.app.rows r hr
    · rw [mem_singleton] at hr; subst hr; exact ⟨hr0, hr1, hun, hmk⟩
  have hroom : st.nextl < st.lsub.size := by
    have h1 : ((slice st.lsub nextl0 st.nextl ++ [row]).map Int.toNat).Nodup := by
      refine Nodup.map_on ?_ hnd
      intro a ha b hb hab
      have := (hall a ha).1; have := (hall b hb).1; omega
    have h2 : (slice st.lsub nextl0 st.nextl ++ [row]).map Int.toNat ⊆ unpivoted e.m e.perm_r := by
      intro t ht
      obtain ⟨r, hr, rfl⟩ := mem_map.mp ht
      obtain ⟨a, b, c, _⟩ := hall r hr
      unfold unpivoted
      simp only [mem_filter, mem_range, decide_eq_true_eq]
      exact ⟨by omega, by rw [Int.toNat_of_nonneg a]; exact c⟩
    have h3 := (List.subperm_of_subset h1 h2).length_le
    rw [length_map, length_append, slice_length] at h3
    have := h.app.cap
    simp at h3
    omega
  have hsl : slice (wr st.lsub st.nextl row) nextl0 (st.nextl + 1) = slice st.lsub nextl0 st.nextl ++ [row] := by
    rw [slice_snoc _ n0 hle, rd_wr_eq (by omega) hroom]
    congr 1
    exact slice_congr n0 (fun y _ hy => rd_wr_ne (by omega))
  have key : StOK e L nextl0 { st with lsub := wr st.lsub st.nextl row, nextl := st.nextl + 1 } :=
    { app := ⟨n0, by show (slice (wr st.lsub st.nextl row) nextl0 (st.nextl + 1)).Nodup; rw [hsl]; exact hnd,
        fun r hr => by
          have hr' : r ∈ slice (wr st.lsub st.nextl row) nextl0 (st.nextl + 1) := hr
          rw [hsl] at hr'; exact hall r hr',
        by show nextl0 + _ ≤ ((wr st.lsub st.nextl row).size : Int); rw [size_wr]; exact h.app.cap⟩
      pre := fun x x0 x1 => by
        have : x ≠ st.nextl := by omega
        show rd (wr st.lsub st.nextl row) x = rd L x
        rw [rd_wr_ne this]; exact h.pre x x0 x1
      nextl := by show nextl0 ≤ st.nextl + 1; omega
      szRep := h.szRep, szPar := h.szPar, szXpl := h.szXpl, szMark := h.szMark, nseg0 := h.nseg0
      markRep := h.markRep }
  unfold appendRow
  split
  · exact { key with app := key.app.congr rfl rfl (fun _ hh => hh) }
  · exact key

theorem appendRow_lsub (st : St) (row mark : Int) :
    (appendRow e st row mark).lsub = wr st.lsub st.nextl row ∧ (appendRow e st row mark).nextl = st.nextl + 1 ∧
    (appendRow e st row mark).marker = st.marker := by
  unfold appendRow; split <;> exact ⟨rfl, rfl, rfl⟩

/-- mark an unpivoted, unmarked row and append it -/
theorem MA.markAppend {st : St} (hma : MA e nextl0 st) (h : StOK e L nextl0 st) (row mark : Int)
    (hok : StOK e L nextl0 (appendRow e ({ st with marker := wr st.marker (2 * e.m + row) e.jcol }) row mark))
    (hroom : st.nextl < st.lsub.size) :
    MA e nextl0 (appendRow e ({ st with marker := wr st.marker (2 * e.m + row) e.jcol }) row mark) := by
  obtain ⟨a1, a2, a3⟩ := appendRow_lsub (e := e) ({ st with marker := wr st.marker (2 * e.m + row) e.jcol }) row mark
  have n0 := h.app.n0
  have hle := h.nextl
  intro r r0 r1 hm hun
  rw [a1, a2]
  show r ∈ slice (wr st.lsub st.nextl row) nextl0 (st.nextl + 1)
  rw [slice_snoc _ n0 hle, rd_wr_eq (by omega) hroom]
  by_cases hr : r = row
  · subst hr; simp
  · refine mem_append_left _ ?_
    have : slice (wr st.lsub st.nextl row) nextl0 st.nextl = slice st.lsub nextl0 st.nextl :=
      slice_congr n0 (fun y _ hy => rd_wr_ne (by omega))
    rw [this]
    refine hma r r0 r1 ?_ hun
    unfold mk2 at hm ⊢
    rw [a3] at hm
    rwa [rd_wr_ne (by omega)] at hm

theorem StOK.room {st : St} (h : StOK e L nextl0 st) {row : Int} (hr0 : 0 ≤ row) (hr1 : row < e.m)
    (hun : rd e.perm_r row = EMPTY) (hnot : row ∉ slice st.lsub nextl0 st.nextl) : st.nextl < st.lsub.size := by
  have hnd : (slice st.lsub nextl0 st.nextl ++ [row]).Nodup := by
    rw [nodup_append]
    exact ⟨h.app.nodup, by simp, fun a ha b hb => by
      rw [mem_singleton] at hb; subst hb; intro hab; subst hab; exact hnot ha⟩
  have hall : ∀ r ∈ slice st.lsub nextl0 st.nextl ++ [row], 0 ≤ r ∧ r < e.m ∧ rd e.perm_r r = EMPTY := by
    intro r hr
    rcases mem_append.mp hr with hr | hr
    · obtain ⟨a, b, c, _⟩ := h.app.rows r hr; exact ⟨a, b, c⟩
    · rw [mem_singleton] at hr; subst hr; exact ⟨hr0, hr1, hun⟩
  have h1 : ((slice st.lsub nextl0 st.nextl ++ [row]).map Int.toNat).Nodup := by
    refine Nodup.map_on ?_ hnd
    intro a ha b hb hab
    have := (hall a ha).1; have := (hall b hb).1; omega
  have h2 : (slice st.lsub nextl0 st.nextl ++ [row]).map Int.toNat ⊆ unpivoted e.m e.perm_r := by
    intro t ht
    obtain ⟨r, hr, rfl⟩ := mem_map.mp ht
    obtain ⟨a, b, c⟩ := hall r hr
    unfold unpivoted
    simp only [mem_filter, mem_range, decide_eq_true_eq]
    exact ⟨by omega, by rw [Int.toNat_of_nonneg a]; exact c⟩
  have h3 := (List.subperm_of_subset h1 h2).length_le
  rw [length_map, length_append, slice_length] at h3
  have := h.app.cap
  have := h.nextl
  simp at h3
  omega

theorem disc_wr {a : Array Int} {i v : Int} (hv : v ≠ EMPTY) (hi : rd a i ≠ EMPTY) (t : Int) :
    rd (wr a i v) t ≠ EMPTY ↔ rd a t ≠ EMPTY := by
  by_cases ht : t = i
  · subst ht
    rcases rd_wr_self_or a t v with h | h <;> rw [h] <;> simp [hv, hi]
  · rw [rd_wr_ne ht]

theorem lowerFnz_disc {st : St} {rep myfnz kp : Int} (hkp : kp ≠ EMPTY) (hd : disc st rep) (t : Int) :
    disc (lowerFnz st rep myfnz kp) t ↔ disc st t := by
  unfold lowerFnz
  split
  · exact disc_wr hkp hd t
  · exact Iff.rfl

theorem StOK.lower {st : St} (h : StOK e L nextl0 st) {rep myfnz kp : Int} (hkp : kp ≠ EMPTY) (hd : disc st rep) :
    StOK e L nextl0 (lowerFnz st rep myfnz kp) := by
  have hi := fun t => lowerFnz_disc (myfnz := myfnz) hkp hd t
  unfold lowerFnz at hi ⊢
  split
  · rename_i hlt
    simp only [hlt, if_true] at hi
    exact { app := h.app.congr rfl rfl (fun _ hh => hh),
            pre := h.pre, nextl := h.nextl, szRep := by simpa [size_wr] using h.szRep, szPar := h.szPar, szXpl := h.szXpl,
            szMark := h.szMark, nseg0 := h.nseg0,
            markRep := fun r r0 r1 hm hp => (hi _).mpr (h.markRep r r0 r1 hm hp) }
  · exact h

end inv

section scan
variable (e : Env) (L : Array Int) (nextl0 : Int)

/-- successor representatives read from `L[x .. hi)` below representative `s` -/
def succFrom (s : Nat) (x hi : Int) : List Nat :=
  ((slice L x hi).filterMap fun row =>
    let kp := rd e.perm_r row
    if (s : Int) < kp then some kp.toNat else none).map (repN e)

theorem adjG_eq (s : Nat) : adjG e L s = succFrom e L s (rd e.xlsub s) (rd e.xprune s) := rfl

/-- budget of transitions per finished representative -/
def stepK : Nat := nextl0.toNat + 2

/-- what scanning the rest of the pruned list of `s` (from state `st`, finished list `post`) yields -/
structure ScanRes (s : Nat) (st : St) (post : List Nat) (d : Nat) (st' : St) (post' : List Nat) (n : Nat) : Prop where
  ok : StOK e L nextl0 st'
  pok : PostOK e post' st'
  new : ∃ nw, post' = nw ++ post ∧ (∀ t ∈ nw, ¬ disc st (t : Int)) ∧ st'.nseg = st.nseg + nw.length ∧
    slice st'.segrep st.nseg st'.nseg = nw.reverse.map Int.ofNat
  segFrame : ∀ x, x < st.nseg → rd st'.segrep x = rd st.segrep x
  mono : ∀ t, disc st t → disc st' t
  newFin : ∀ t : Nat, (t : Int) < e.jcol → disc st' t → disc st t ∨ t ∈ post'
  frame : ∀ t : Int, t ≤ s → rd st'.parent t = rd st.parent t ∧ (t < s → rd st'.xplore t = rd st.xplore t)
  bound : n + post.length * stepK nextl0 ≤ d + post'.length * stepK nextl0
  ma : MA e nextl0 st'
  marks : ∀ nw, post' = nw ++ post → ∀ r, mk2 e st' r = e.jcol ↔
    (mk2 e st r = e.jcol ∨ r ∈ slice L (rd e.xprune s - d) (rd e.xprune s) ∨ ∃ t ∈ nw, r ∈ adjRows e L ((t : Nat) : Int))

/-- the statement proved by induction: scanning `L[x .. xprune[s])` with the machine = folding the
recursive visit (fuel `f`) over the successors found there -/
def ScanAt (adj : Nat → List Nat) (f : Nat) : Prop :=
  ∀ (d : Nat) (s : Nat) (x : Int) (st : St) (post : List Nat),
    (s : Int) < e.jcol → e.jcol ≤ s + f + 1 → repOf e s = s →
    rd e.xlsub s ≤ x → x + d = rd e.xprune s →
    StOK e L nextl0 st → PostOK e post st → disc st s →
    (∀ t : Nat, (t : Int) < e.jcol → disc st t → t ∈ post ∨ t ≤ s) → MA e nextl0 st →
    (∀ v ∈ slice st.segrep 0 st.nseg, ¬ disc st v → v < (s : Int)) →
    ∃ n st' post',
      (∀ F, run e (n + F) ⟨s, x, rd e.xprune s, st⟩ = run e F ⟨s, rd e.xprune s, rd e.xprune s, st'⟩) ∧
      post' = (succFrom e L s x (rd e.xprune s)).foldl (fun acc r => dfsVisit adj f r acc) post ∧
      ScanRes e L nextl0 s st post d st' post' n

variable {e L nextl0}

theorem run_row {c : Cfg} (h : c.xdfs < c.maxdfs) (F : Nat) : run e (F + 1) c = run e F (rowStep e c) := by
  simp [run, step, h]

theorem succFrom_cons {s : Nat} {x hi : Int} (h0 : 0 ≤ x) (h : x < hi) :
    succFrom e L s x hi =
      (if (s : Int) < rd e.perm_r (rd L x) then [repN e (rd e.perm_r (rd L x)).toNat] else []) ++ succFrom e L s (x + 1) hi := by
  unfold succFrom
  rw [slice_cons L h0 h]
  by_cases hh : (s : Int) < rd e.perm_r (rd L x) <;> simp [filterMap_cons, hh]

theorem dfsVisit_mem {adj : Nat → List Nat} (f k : Nat) {post : List Nat} (h : k ∈ post) : dfsVisit adj f k post = post := by
  cases f <;> simp [dfsVisit, h]

/-- a step that leaves the stack arrays, `segrep` and the discovered set alone -/
structure Mild (st st1 : St) : Prop where
  nseg : st1.nseg = st.nseg
  segrep : st1.segrep = st.segrep
  parent : st1.parent = st.parent
  xplore : st1.xplore = st.xplore
  disc : ∀ t, disc st1 t ↔ disc st t

theorem ScanRes.of_mild {s : Nat} {st st1 st' : St} {post post' : List Nat} {d n : Nat} (hm : Mild st st1)
    (x : Int) (hx0 : 0 ≤ x) (hxd : x + ((d + 1 : Nat) : Int) = rd e.xprune s)
    (hmark : ∀ r, mk2 e st1 r = e.jcol ↔ (mk2 e st r = e.jcol ∨ r = rd L x))
    (h : ScanRes e L nextl0 s st1 post d st' post' n) : ScanRes e L nextl0 s st post (d + 1) st' post' (n + 1) where
  ok := h.ok
  pok := h.pok
  new := by
    obtain ⟨nw, h1, h2, h3, h4⟩ := h.new
    exact ⟨nw, h1, fun t ht hd => h2 t ht ((hm.disc _).mpr hd), by rw [h3, hm.nseg], by rw [← hm.nseg]; exact h4⟩
  segFrame := fun x hx => by rw [h.segFrame x (by rw [hm.nseg]; exact hx), hm.segrep]
  mono := fun t ht => h.mono t ((hm.disc t).mpr ht)
  newFin := fun t ht hd => (h.newFin t ht hd).imp_left (hm.disc _).mp
  frame := fun t ht => by rw [← hm.parent, ← hm.xplore]; exact h.frame t ht
  bound := by have := h.bound; omega
  ma := h.ma
  marks := fun nw hnw r => by
    rw [h.marks nw hnw r, hmark r]
    have e1 : rd e.xprune s - ((d + 1 : Nat) : Int) = x := by omega
    have e2 : rd e.xprune s - (d : Int) = x + 1 := by push_cast at hxd; omega
    rw [e1, e2, slice_cons L hx0 (by push_cast at hxd; omega : x < rd e.xprune s)]
    simp only [mem_cons]; tauto

theorem PostOK.of_mild {st st1 : St} {post : List Nat} (hm : Mild st st1) (h : PostOK e post st) : PostOK e post st1 where
  nodup := h.nodup
  lt := h.lt
  fin := fun t ht => (hm.disc _).mpr (h.fin t ht)
  cap := by rw [hm.nseg, hm.segrep]; exact h.cap

end scan

section main
variable {e : Env} {L : Array Int} {nextl0 : Int}

theorem repN_cast (hE : EnvOK e L nextl0) {kp : Int} (h0 : 0 ≤ kp) (h1 : kp < e.jcol) :
    ((repN e kp.toNat : Nat) : Int) = repOf e kp := by
  unfold repN
  rw [Int.toNat_of_nonneg h0]
  have := hE.rep kp h0 h1
  omega

theorem rowStep_marked {c : Cfg} (h : mk2 e c.st (rd c.st.lsub c.xdfs) = e.jcol) :
    rowStep e c = { c with xdfs := c.xdfs + 1 } := by
  simp [rowStep, h]

theorem rowStep_append {c : Cfg} (h1 : mk2 e c.st (rd c.st.lsub c.xdfs) ≠ e.jcol)
    (h2 : rd e.perm_r (rd c.st.lsub c.xdfs) = EMPTY) :
    rowStep e c = { c with xdfs := c.xdfs + 1, st := (appendRow e
      ({ c.st with marker := wr c.st.marker (2 * e.m + rd c.st.lsub c.xdfs) e.jcol }) (rd c.st.lsub c.xdfs)
      (mk2 e c.st (rd c.st.lsub c.xdfs))) } := by
  simp [rowStep, h1, h2]

theorem rowStep_lower {c : Cfg} (h1 : mk2 e c.st (rd c.st.lsub c.xdfs) ≠ e.jcol)
    (h2 : rd e.perm_r (rd c.st.lsub c.xdfs) ≠ EMPTY)
    (h3 : rd c.st.repfnz (repOf e (rd e.perm_r (rd c.st.lsub c.xdfs))) ≠ EMPTY) :
    rowStep e c = { c with xdfs := c.xdfs + 1, st := (lowerFnz
      ({ c.st with marker := wr c.st.marker (2 * e.m + rd c.st.lsub c.xdfs) e.jcol })
      (repOf e (rd e.perm_r (rd c.st.lsub c.xdfs))) (rd c.st.repfnz (repOf e (rd e.perm_r (rd c.st.lsub c.xdfs))))
      (rd e.perm_r (rd c.st.lsub c.xdfs))) } := by
  simp [rowStep, h1, h2, h3]

theorem rowStep_descend {c : Cfg} (h1 : mk2 e c.st (rd c.st.lsub c.xdfs) ≠ e.jcol)
    (h2 : rd e.perm_r (rd c.st.lsub c.xdfs) ≠ EMPTY)
    (h3 : rd c.st.repfnz (repOf e (rd e.perm_r (rd c.st.lsub c.xdfs))) = EMPTY) :
    rowStep e c =
      { krep := repOf e (rd e.perm_r (rd c.st.lsub c.xdfs)),
        xdfs := rd e.xlsub (repOf e (rd e.perm_r (rd c.st.lsub c.xdfs))),
        maxdfs := rd e.xprune (repOf e (rd e.perm_r (rd c.st.lsub c.xdfs))),
        st := { c.st with marker := wr c.st.marker (2 * e.m + rd c.st.lsub c.xdfs) e.jcol,
                          xplore := wr c.st.xplore c.krep (c.xdfs + 1),
                          parent := wr c.st.parent (repOf e (rd e.perm_r (rd c.st.lsub c.xdfs))) c.krep,
                          repfnz := wr c.st.repfnz (repOf e (rd e.perm_r (rd c.st.lsub c.xdfs))) (rd e.perm_r (rd c.st.lsub c.xdfs)) } } := by
  simp [rowStep, h1, h2, h3]

theorem scan_rows (hE : EnvOK e L nextl0) {adj : Nat → List Nat}
    (hadj : ∀ s : Nat, (s : Int) < e.jcol → repOf e s = s → adj s = adjG e L s) (f : Nat) (ih : ∀ f', f = f' + 1 → ScanAt e L nextl0 adj f') :
    ScanAt e L nextl0 adj f := by
  intro d
  induction d with
  | zero =>
    intro s x st post hs hf hrs hx hxd hst hpo hds hdf hma hsu
    have hx' : x = rd e.xprune s := by omega
    subst hx'
    refine ⟨0, st, post, fun F => by simp, ?_, ?_⟩
    · simp [succFrom, slice_nil]
    · exact ⟨hst, hpo, ⟨[], by simp, by simp, by simp, by simp [slice_nil]⟩, fun _ _ => rfl, fun _ h => h,
        fun _ _ h => Or.inl h, fun _ _ => ⟨rfl, fun _ => rfl⟩, by omega, hma,
        fun nw hnw r => by
          have : nw = [] := by simpa using hnw
          subst this; simp [slice_nil]⟩
  | succ d ihd =>
    intro s x st post hs hf hrs hx hxd hst hpo hds hdf hma hsu
    obtain ⟨hl0, hl1, hl2, hrows⟩ := hE.lists s (by omega) hs hrs
    have hxlt : x < rd e.xprune s := by omega
    have hx0 : 0 ≤ x := by omega
    obtain ⟨hr0, hr1, hrp⟩ := hrows x hx hxlt
    have hrow : rd st.lsub x = rd L x := hst.pre x hx0 (by omega)
    have hE1 : (EMPTY : Int) = -1 := rfl
    -- the three cases that do not descend
    have cont : ∀ st1, Mild st st1 → StOK e L nextl0 st1 → MA e nextl0 st1 →
        (∀ r, mk2 e st1 r = e.jcol ↔ (mk2 e st r = e.jcol ∨ r = rd L x)) →
        rowStep e ⟨s, x, rd e.xprune s, st⟩ = ⟨s, x + 1, rd e.xprune s, st1⟩ →
        ((s : Int) < rd e.perm_r (rd L x) → repN e (rd e.perm_r (rd L x)).toNat ∈ post) →
        ∃ n st' post',
          (∀ F, run e (n + F) ⟨s, x, rd e.xprune s, st⟩ = run e F ⟨s, rd e.xprune s, rd e.xprune s, st'⟩) ∧
          post' = (succFrom e L s x (rd e.xprune s)).foldl (fun acc r => dfsVisit adj f r acc) post ∧
          ScanRes e L nextl0 s st post (d + 1) st' post' n := by
      intro st1 hm hst1 hma1 hmark hstep hnoop
      obtain ⟨n, st', post', hrun, hpost, hres⟩ := ihd s (x + 1) st1 post hs hf hrs (by omega) (by omega) hst1
        (hpo.of_mild hm) ((hm.disc _).mpr hds) (fun t ht hd => hdf t ht ((hm.disc _).mp hd)) hma1
        (fun v hv hd => hsu v (by rw [← hm.segrep, ← hm.nseg]; exact hv) (fun h => hd ((hm.disc _).mpr h)))
      refine ⟨n + 1, st', post', ?_, ?_, hres.of_mild hm x hx0 (by push_cast; omega) hmark⟩
      · intro F
        rw [show n + 1 + F = (n + F) + 1 by omega, run_row (by exact hxlt), hstep]
        exact hrun F
      · rw [hpost, succFrom_cons hx0 hxlt]
        by_cases hlt : (s : Int) < rd e.perm_r (rd L x)
        · simp only [hlt, if_true, singleton_append, foldl_cons]
          rw [dfsVisit_mem f _ (hnoop hlt)]
        · simp [hlt]
    -- a discovered successor is finished
    have hfin : (s : Int) < rd e.perm_r (rd L x) → disc st (repOf e (rd e.perm_r (rd L x))) →
        repN e (rd e.perm_r (rd L x)).toNat ∈ post := by
      intro hlt hd
      have hkp : rd e.perm_r (rd L x) < e.jcol := by
        rcases hE.perm _ hr0 hr1 with h | h
        · rw [h, hE1] at hlt; omega
        · exact h.2
      have hc := repN_cast hE (by omega) hkp
      have hrep := hE.rep _ (by omega : 0 ≤ rd e.perm_r (rd L x)) hkp
      rcases hdf _ (by rw [hc]; exact hrep.2.1) (by rw [hc]; exact hd) with h | h
      · exact h
      · omega
    have hmr0 : 0 ≤ 2 * e.m + rd L x := by have := hE.m0; omega
    have hmr1 : 2 * e.m + rd L x < st.marker.size := by have := hst.szMark; omega
    by_cases hmk : mk2 e st (rd L x) = e.jcol
    · -- (A) the row carries the mark of this column
      refine cont st ⟨rfl, rfl, rfl, rfl, fun _ => Iff.rfl⟩ hst hma
        (fun r => ⟨Or.inl, fun h => h.elim id (fun h => by rw [h]; exact hmk)⟩) ?_ ?_
      · have := rowStep_marked (e := e) (c := ⟨s, x, rd e.xprune s, st⟩) (by simpa [hrow] using hmk)
        simpa using this
      · intro hlt
        refine hfin hlt (hst.markRep _ hr0 hr1 hmk ?_)
        intro h; rw [h, hE1] at hlt; omega
    · by_cases hkp : rd e.perm_r (rd L x) = EMPTY
      · -- (B) unpivoted row: appended
        have hokB := (hst.mark (rd L x) (fun h => absurd hkp h)).append (rd L x) (mk2 e st (rd L x)) hr0 hr1 hkp
          (by unfold mk2; exact rd_wr_eq (by have := hE.m0; omega) (by have := hst.szMark; omega))
          (fun hin => hmk (hst.app.rows _ hin).2.2.2)
        refine cont _ ⟨?_, ?_, ?_, ?_, ?_⟩ hokB (hma.markAppend hst _ _ hokB
          (hst.room hr0 hr1 hkp (fun hin => hmk (hst.app.rows _ hin).2.2.2)))
          (fun r => by
            have := mk2_mark_iff (e := e) (st := st) (row := rd L x) (r := r) hmr0 hmr1
            unfold mk2 at this ⊢
            rw [(appendRow_lsub _ _ _).2.2]; exact this) ?_ ?_
        · unfold appendRow; split <;> rfl
        · unfold appendRow; split <;> rfl
        · unfold appendRow; split <;> rfl
        · unfold appendRow; split <;> rfl
        · intro t; unfold appendRow; split <;> exact Iff.rfl
        · have := rowStep_append (e := e) (c := ⟨s, x, rd e.xprune s, st⟩) (by simpa [hrow] using hmk) (by simpa [hrow] using hkp)
          simpa [hrow] using this
        · intro hlt; rw [hkp, hE1] at hlt; omega
      · by_cases hdc : disc st (repOf e (rd e.perm_r (rd L x)))
        · -- (C) successor already discovered: repfnz lowered
          have hd' : disc { st with marker := wr st.marker (2 * e.m + rd L x) e.jcol } (repOf e (rd e.perm_r (rd L x))) := hdc
          refine cont (lowerFnz ({ st with marker := wr st.marker (2 * e.m + rd L x) e.jcol }) (repOf e (rd e.perm_r (rd L x)))
            (rd st.repfnz (repOf e (rd e.perm_r (rd L x)))) (rd e.perm_r (rd L x))) ⟨?_, ?_, ?_, ?_, ?_⟩
            ((hst.mark (rd L x) (fun _ => hdc)).lower hkp hd')
            ((hma.markPivoted hkp).congr (by unfold lowerFnz; split <;> rfl) (by unfold lowerFnz; split <;> rfl)
              (fun r hr => by unfold lowerFnz at hr; split at hr <;> exact hr))
            (fun r => by
              have := mk2_mark_iff (e := e) (st := st) (row := rd L x) (r := r) hmr0 hmr1
              unfold mk2 at this ⊢
              unfold lowerFnz
              split <;> exact this) ?_ (fun hlt => hfin hlt hdc)
          · unfold lowerFnz; split <;> rfl
          · unfold lowerFnz; split <;> rfl
          · unfold lowerFnz; split <;> rfl
          · unfold lowerFnz; split <;> rfl
          · intro t; exact lowerFnz_disc hkp hd' t
          · have := rowStep_lower (e := e) (c := ⟨s, x, rd e.xprune s, st⟩) (by simpa [hrow] using hmk) (by simpa [hrow] using hkp)
              (by rw [hrow]; exact hdc)
            simpa [hrow] using this
        · -- (D) descend
          have hdisc : rd st.repfnz (repOf e (rd e.perm_r (rd L x))) = EMPTY := by
            unfold disc at hdc; exact not_not.mp hdc
          have hkpr : 0 ≤ rd e.perm_r (rd L x) ∧ rd e.perm_r (rd L x) < e.jcol := by
            rcases hE.perm _ hr0 hr1 with h | h
            · exact absurd h hkp
            · exact h
          obtain ⟨hrep1, hrep2, hrep3⟩ := hE.rep _ hkpr.1 hkpr.2
          have hskp : (s : Int) < rd e.perm_r (rd L x) := by
            rcases hrp with h | h | h
            · exact absurd h hkp
            · rcases Int.lt_or_eq_of_le h with h | h
              · exact h
              · exfalso; rw [← h, hrs] at hdisc; exact hds hdisc
            · exfalso; rw [h] at hdisc; exact hds hdisc
          obtain ⟨c, hc⟩ := Int.eq_ofNat_of_zero_le (show 0 ≤ repOf e (rd e.perm_r (rd L x)) by omega)
          have hstep := rowStep_descend (e := e) (c := ⟨s, x, rd e.xprune s, st⟩) (by simpa [hrow] using hmk)
            (by simpa [hrow] using hkp) (by rw [hrow]; exact hdisc)
          simp only [hrow, hc] at hstep
          rw [hc] at hdisc hrep1 hrep2 hrep3
          generalize hkpdef : rd e.perm_r (rd L x) = kp at *
          generalize hst1def : ({ st with marker := wr st.marker (2 * e.m + rd L x) e.jcol, xplore := wr st.xplore (s : Int) (x + 1), parent := wr st.parent (c : Int) (s : Int), repfnz := wr st.repfnz (c : Int) kp } : St) = st1 at hstep
          have hcs : (s : Int) < c := by omega
          have e_rep : st1.repfnz = wr st.repfnz (c : Int) kp := by rw [← hst1def]
          have e_par : st1.parent = wr st.parent (c : Int) (s : Int) := by rw [← hst1def]
          have e_xpl : st1.xplore = wr st.xplore (s : Int) (x + 1) := by rw [← hst1def]
          have e_seg : st1.segrep = st.segrep := by rw [← hst1def]
          have e_nseg : st1.nseg = st.nseg := by rw [← hst1def]
          have e_lsub : st1.lsub = st.lsub := by rw [← hst1def]
          have e_nextl : st1.nextl = st.nextl := by rw [← hst1def]
          have e_mark : st1.marker = wr st.marker (2 * e.m + rd L x) e.jcol := by rw [← hst1def]
          have hd1 : ∀ t, disc st t → disc st1 t := by
            intro t ht
            unfold disc; rw [e_rep, rd_wr_ne (fun h => ht (by rw [h]; exact hdisc))]; exact ht
          have hd1c : disc st1 (c : Int) := by
            unfold disc; rw [e_rep, rd_wr_eq (by omega) (by have := hst.szRep; omega), hE1]; omega
          have hd1' : ∀ t, disc st1 t → t = (c : Int) ∨ disc st t := by
            intro t ht
            by_cases h : t = (c : Int)
            · exact Or.inl h
            · right; unfold disc at ht ⊢; rwa [e_rep, rd_wr_ne h] at ht
          have hst1 : StOK e L nextl0 st1 :=
            { app := hst.app.congr e_lsub e_nextl (fun r hr => by
                have := mk2_mark_mono (row := rd L x) hr
                unfold mk2 at this ⊢; rw [e_mark]; exact this)
              pre := by rw [e_lsub]; exact hst.pre
              nextl := by rw [e_nextl]; exact hst.nextl
              szRep := by rw [e_rep, size_wr]; exact hst.szRep
              szPar := by rw [e_par, size_wr]; exact hst.szPar
              szXpl := by rw [e_xpl, size_wr]; exact hst.szXpl
              szMark := by rw [e_mark, size_wr]; exact hst.szMark
              nseg0 := by rw [e_nseg]; exact hst.nseg0
              markRep := by
                intro r r0 r1 hm hp
                by_cases hrr : r = rd L x
                · rw [hrr, hkpdef, hc]; exact hd1c
                · refine hd1 _ (hst.markRep r r0 r1 ?_ hp)
                  unfold mk2 at hm ⊢; rwa [e_mark, rd_wr_ne (by omega)] at hm }
          have hpo1 : PostOK e post st1 :=
            ⟨hpo.nodup, hpo.lt, fun t ht => hd1 _ (hpo.fin t ht), by rw [e_nseg, e_seg]; exact hpo.cap⟩
          obtain ⟨f', rfl⟩ : ∃ f', f = f' + 1 := ⟨f - 1, by omega⟩
          obtain ⟨hc0, hc1, hc2, _⟩ := hE.lists (c : Int) (by omega) hrep2 hrep3
          obtain ⟨nc, st2, post2, hrunc, hpost2, hres2⟩ :=
            ih f' rfl (rd e.xprune c - rd e.xlsub c).toNat c (rd e.xlsub c) st1 post hrep2 (by push_cast at hf ⊢; omega) hrep3
              (le_refl _) (by omega) hst1 hpo1 hd1c
              (fun t ht hd => by
                rcases hd1' _ hd with h | h
                · right; exact_mod_cast (le_of_eq h)
                · rcases hdf t ht h with h | h
                  · exact Or.inl h
                  · right; omega)
              ((hma.markPivoted (row := rd L x) (by rw [hkpdef]; exact hkp)).congr e_lsub e_nextl (fun r hr => by
                unfold mk2 at hr ⊢; rw [e_mark] at hr; exact hr))
              (fun v hv hd => by
                rw [e_seg, e_nseg] at hv
                have := hsu v hv (fun h => hd (hd1 _ h))
                omega)
          obtain ⟨nwc, hnw1, hnw2, hnw3, hnw4⟩ := hres2.new
          have hsegm : ∀ v ∈ slice st2.segrep 0 st2.nseg, v ∈ slice st.segrep 0 st.nseg ∨ ∃ t ∈ nwc, v = ((t : Nat) : Int) := by
            intro v hv
            have := seg_mem_ext (st := st1) (st2 := st2) (by rw [e_nseg]; exact hst.nseg0) hnw3 hres2.segFrame hnw4 hv
            rwa [e_seg, e_nseg] at this
          have hcseg : (c : Int) ∉ slice st2.segrep 0 st2.nseg := by
            intro hin
            rcases hsegm _ hin with h | ⟨t, ht, h⟩
            · have := hsu _ h (fun hd => hd hdisc); omega
            · have : c = t := by exact_mod_cast h
              subst this; exact hnw2 c ht hd1c
          have hpopc := hres2.pok.pop hres2.ok.nseg0 hrep2 hcseg
          -- the pop of c
          have hcpost : c ∉ post := fun h => by have := hpo.fin c h; exact this hdisc
          have hcpost2 : c ∉ post2 := by
            rw [hnw1]; intro h
            rcases mem_append.mp h with h | h
            · exact hnw2 c h hd1c
            · exact hcpost h
          have hlen : post2.length + 1 ≤ e.jcol.toNat := by
            have := nodup_lt_length (l := c :: post2) (n := e.jcol.toNat) (nodup_cons.mpr ⟨hcpost2, hres2.pok.nodup⟩)
              (by
                intro t ht
                rcases mem_cons.mp ht with rfl | ht
                · omega
                · have := hres2.pok.lt t ht; omega)
            simpa using this
          have hnsegr : 0 ≤ st2.nseg ∧ st2.nseg < st2.segrep.size := ⟨hres2.ok.nseg0, hpopc.1⟩
          have hpar : rd st2.parent (c : Int) = (s : Int) := by
            rw [(hres2.frame (c : Int) (le_refl _)).1, e_par, rd_wr_eq (by omega) (by have := hst.szPar; omega)]
          have hxpl : rd st2.xplore (s : Int) = x + 1 := by
            rw [(hres2.frame (s : Int) (by omega)).2 hcs, e_xpl, rd_wr_eq (by omega) (by have := hst.szXpl; omega)]
          generalize hst3def : ({ st2 with segrep := wr st2.segrep st2.nseg (c : Int), nseg := st2.nseg + 1 } : St) = st3
          have hpop : ∀ F, run e (F + 1) ⟨(c : Int), rd e.xprune c, rd e.xprune c, st2⟩ = run e F ⟨(s : Int), x + 1, rd e.xprune s, st3⟩ := by
            intro F
            have hsne : ¬ ((s : Int) = EMPTY) := by rw [hE1]; omega
            simp [run, step, popStep, hpar, hxpl, hsne, hst3def]
          have e3_rep : st3.repfnz = st2.repfnz := by rw [← hst3def]
          have e3_par : st3.parent = st2.parent := by rw [← hst3def]
          have e3_xpl : st3.xplore = st2.xplore := by rw [← hst3def]
          have e3_seg : st3.segrep = wr st2.segrep st2.nseg (c : Int) := by rw [← hst3def]
          have e3_nseg : st3.nseg = st2.nseg + 1 := by rw [← hst3def]
          have hd3 : ∀ t, disc st3 t ↔ disc st2 t := fun t => by unfold disc; rw [e3_rep]
          have hst3 : StOK e L nextl0 st3 := by
            rw [← hst3def]
            exact { app := hres2.ok.app.congr rfl rfl (fun _ hh => hh), pre := hres2.ok.pre, nextl := hres2.ok.nextl, szRep := hres2.ok.szRep, szPar := hres2.ok.szPar,
                    szXpl := hres2.ok.szXpl, szMark := hres2.ok.szMark, markRep := hres2.ok.markRep,
                    nseg0 := by have := hres2.ok.nseg0; show 0 ≤ st2.nseg + 1; omega }
          have hpo3 : PostOK e (c :: post2) st3 :=
            { nodup := nodup_cons.mpr ⟨hcpost2, hres2.pok.nodup⟩
              lt := by
                intro t ht
                rcases mem_cons.mp ht with rfl | ht
                · exact hrep2
                · exact hres2.pok.lt t ht
              fin := by
                intro t ht
                rw [hd3]
                rcases mem_cons.mp ht with rfl | ht
                · exact hres2.mono _ hd1c
                · exact hres2.pok.fin t ht
              cap := by rw [e3_nseg, e3_seg]; exact hpopc.2 }
          have hsu3 : ∀ v ∈ slice st3.segrep 0 st3.nseg, ¬ disc st3 v → v < (s : Int) := by
            intro v hv hd
            rw [e3_nseg, e3_seg, seg_push _ _ hnsegr.1 hnsegr.2, mem_append, mem_singleton] at hv
            rcases hv with hv | hv
            · rcases hsegm v hv with h | ⟨t, ht, h⟩
              · exact hsu v h (fun hd0 => hd ((hd3 _).mpr (hres2.mono _ (hd1 _ hd0))))
              · exfalso; rw [h] at hd
                exact hd ((hd3 _).mpr (hres2.pok.fin t (by rw [hnw1]; exact mem_append_left _ ht)))
            · exfalso; rw [hv] at hd; exact hd ((hd3 _).mpr (hres2.mono _ hd1c))
          have hdf3 : ∀ t : Nat, (t : Int) < e.jcol → disc st3 t → t ∈ c :: post2 ∨ t ≤ s := by
            intro t ht hd
            rcases hres2.newFin t ht ((hd3 _).mp hd) with h | h
            · rcases hd1' _ h with h | h
              · left; have : t = c := by exact_mod_cast h
                rw [this]; exact mem_cons_self
              · rcases hdf t ht h with h | h
                · left; rw [hnw1]; exact mem_cons_of_mem _ (mem_append_right _ h)
                · exact Or.inr h
            · exact Or.inl (mem_cons_of_mem _ h)
          obtain ⟨nr, st4, post4, hrunr, hpost4, hres4⟩ := ihd s (x + 1) st3 (c :: post2) hs hf hrs (by omega) (by omega) hst3 hpo3
            ((hd3 _).mpr (hres2.mono _ (hd1 _ hds))) hdf3
            (hres2.ma.congr (by rw [← hst3def]) (by rw [← hst3def]) (fun r hr => by rw [← hst3def] at hr; exact hr))
            hsu3
          obtain ⟨nwr, hnr1, hnr2, hnr3, hnr4⟩ := hres4.new
          have hmarks : ∀ nw, post4 = nw ++ post → ∀ r, mk2 e st4 r = e.jcol ↔
              (mk2 e st r = e.jcol ∨ r ∈ slice L (rd e.xprune s - ((d + 1 : Nat) : Int)) (rd e.xprune s) ∨
                ∃ t ∈ nw, r ∈ adjRows e L ((t : Nat) : Int)) := by
            intro nw hnw r
            have hnweq : nw = nwr ++ c :: nwc := by
              have : nw ++ post = (nwr ++ c :: nwc) ++ post := by rw [← hnw, hnr1, hnw1]; simp
              exact append_cancel_right this
            have hm1 : mk2 e st1 r = e.jcol ↔ (mk2 e st r = e.jcol ∨ r = rd L x) := by
              have := mk2_mark_iff (e := e) (st := st) (row := rd L x) (r := r) hmr0 hmr1
              unfold mk2 at this ⊢
              rw [e_mark]; exact this
            have hm3 : mk2 e st3 r = mk2 e st2 r := by unfold mk2; rw [← hst3def]
            have hadjc : slice L (rd e.xprune c - ((rd e.xprune c - rd e.xlsub c).toNat : Int)) (rd e.xprune c) = adjRows e L (c : Int) := by
              unfold adjRows; congr 1; omega
            have e1 : rd e.xprune s - ((d + 1 : Nat) : Int) = x := by push_cast; omega
            have e2 : rd e.xprune s - (d : Int) = x + 1 := by omega
            rw [hres4.marks nwr hnr1 r, hm3, hres2.marks nwc hnw1 r, hm1, hadjc, hnweq, ex_split, e1, e2,
              slice_cons L hx0 hxlt]
            simp only [mem_cons]; exact or_shuffle
          refine ⟨1 + nc + 1 + nr, st4, post4, ?_, ?_, ?_⟩
          · intro F
            rw [show 1 + nc + 1 + nr + F = (nc + (nr + F + 1)) + 1 by omega, run_row (by exact hxlt), hstep, hrunc, hpop]
            exact hrunr F
          · rw [hpost4, succFrom_cons hx0 hxlt, hkpdef]
            simp only [hskp, if_true, singleton_append, foldl_cons]
            have hcc : repN e kp.toNat = c := by
              have := repN_cast hE hkpr.1 hkpr.2
              rw [hc] at this; exact_mod_cast this
            rw [hcc]
            have : dfsVisit adj (f' + 1) c post = c :: post2 := by
              rw [hpost2, ← adjG_eq, ← hadj c hrep2 hrep3]
              simp [dfsVisit, hcpost]
            rw [this]
          · exact
              { ok := hres4.ok
                pok := hres4.pok
                new := by
                  refine ⟨nwr ++ c :: nwc, by rw [hnr1, hnw1]; simp, ?_, ?_, ?_⟩
                  · intro t ht hd
                    rcases mem_append.mp ht with h | h
                    · exact hnr2 t h ((hd3 _).mpr (hres2.mono _ (hd1 _ hd)))
                    · rcases mem_cons.mp h with rfl | h
                      · exact hd hdisc
                      · exact hnw2 t h (hd1 _ hd)
                  · rw [hnr3, e3_nseg, hnw3, e_nseg]; simp; omega
                  · have hn0 : 0 ≤ st.nseg := hst.nseg0
                    have hn2 : st2.nseg = st.nseg + nwc.length := by rw [hnw3, e_nseg]
                    rw [slice_append st4.segrep hn0 (show st.nseg ≤ st3.nseg by rw [e3_nseg]; omega)
                      (show st3.nseg ≤ st4.nseg by rw [hnr3]; omega), hnr4]
                    have h1 : slice st4.segrep st.nseg st3.nseg = slice st3.segrep st.nseg st3.nseg :=
                      slice_congr hn0 (fun y _ hy => hres4.segFrame y hy)
                    rw [h1, e3_nseg, slice_snoc _ hn0 (by omega), e3_seg, rd_wr_eq hnsegr.1 hnsegr.2]
                    have h2 : slice (wr st2.segrep st2.nseg (c : Int)) st.nseg st2.nseg = slice st2.segrep st.nseg st2.nseg :=
                      slice_congr hn0 (fun y _ hy => rd_wr_ne (by omega))
                    rw [h2, ← e_nseg, hnw4]
                    simp
                segFrame := by
                  intro y hy
                  rw [hres4.segFrame y (by rw [e3_nseg, hnw3, e_nseg]; omega), e3_seg,
                    rd_wr_ne (by rw [hnw3, e_nseg]; omega), hres2.segFrame y (by rw [e_nseg]; exact hy), e_seg]
                mono := fun t ht => hres4.mono t ((hd3 _).mpr (hres2.mono _ (hd1 _ ht)))
                newFin := by
                  intro t ht hd
                  rcases hres4.newFin t ht hd with h | h
                  · rcases hdf3 t ht h with h' | h'
                    · right; rw [hnr1]; exact mem_append_right _ h'
                    · rcases hres2.newFin t ht ((hd3 _).mp h) with h2 | h2
                      · rcases hd1' _ h2 with h3 | h3
                        · exfalso; have : t = c := by exact_mod_cast h3
                          omega
                        · exact Or.inl h3
                      · right; rw [hnr1]; exact mem_append_right _ (mem_cons_of_mem _ h2)
                  · exact Or.inr h
                frame := by
                  intro t ht
                  have a := hres4.frame t ht
                  have b := hres2.frame t (by omega)
                  constructor
                  · rw [a.1, e3_par, b.1, e_par, rd_wr_ne (by omega)]
                  · intro hts
                    rw [a.2 hts, e3_xpl, b.2 (by omega), e_xpl, rd_wr_ne (by omega)]
                bound := by
                  have b2 := hres2.bound
                  have b4 := hres4.bound
                  have hK : (rd e.xprune c - rd e.xlsub c).toNat + 2 ≤ stepK nextl0 := by unfold stepK; omega
                  rw [length_cons, Nat.succ_mul] at b4
                  omega
                ma := hres4.ma
                marks := hmarks }

end main

section root
variable {e : Env} {L : Array Int} {nextl0 : Int}

theorem scanAt_all (hE : EnvOK e L nextl0) {adj : Nat → List Nat}
    (hadj : ∀ s : Nat, (s : Int) < e.jcol → repOf e s = s → adj s = adjG e L s) : ∀ f, ScanAt e L nextl0 adj f
  | 0 => scan_rows hE hadj 0 (fun f' h => by omega)
  | f + 1 => scan_rows hE hadj (f + 1) (fun f' h => by
      have : f' = f := by omega
      subst this; exact scanAt_all hE hadj f')

/-- between two nonzeros of the column: the stack is empty, every discovered representative is finished -/
structure Root (post : List Nat) (st : St) : Prop where
  ok : StOK e L nextl0 st
  pok : PostOK e post st
  fin : ∀ t : Nat, (t : Int) < e.jcol → disc st t → t ∈ post
  ma : MA e nextl0 st

/-- how `segrep` grew -/
structure SegExt (st : St) (post : List Nat) (st' : St) (post' : List Nat) : Prop where
  new : ∃ nw, post' = nw ++ post ∧ st'.nseg = st.nseg + nw.length ∧
    slice st'.segrep st.nseg st'.nseg = nw.reverse.map Int.ofNat
  segFrame : ∀ x, x < st.nseg → rd st'.segrep x = rd st.segrep x

theorem SegExt.refl (st : St) (post : List Nat) : SegExt st post st post :=
  ⟨⟨[], by simp, by simp, by simp [slice_nil]⟩, fun _ _ => rfl⟩

theorem SegExt.of_mild {st st1 : St} {post : List Nat} (hm : Mild st st1) : SegExt st post st1 post :=
  ⟨⟨[], by simp, by simp [hm.nseg], by simp [hm.nseg, slice_nil]⟩, fun _ _ => by rw [hm.segrep]⟩

theorem SegExt.trans {st st1 st2 : St} {post post1 post2 : List Nat} (h0 : 0 ≤ st.nseg)
    (h1 : SegExt st post st1 post1) (h2 : SegExt st1 post1 st2 post2) : SegExt st post st2 post2 := by
  obtain ⟨n1, a1, a2, a3⟩ := h1.new
  obtain ⟨n2, b1, b2, b3⟩ := h2.new
  refine ⟨⟨n2 ++ n1, by rw [b1, a1, append_assoc], by rw [b2, a2, length_append]; push_cast; omega, ?_⟩, ?_⟩
  · rw [slice_append st2.segrep h0 (show st.nseg ≤ st1.nseg by omega) (show st1.nseg ≤ st2.nseg by omega), b3]
    have : slice st2.segrep st.nseg st1.nseg = slice st1.segrep st.nseg st1.nseg :=
      slice_congr h0 (fun y _ hy => h2.segFrame y hy)
    rw [this, a3]; simp
  · intro x hx
    rw [h2.segFrame x (by omega), h1.segFrame x hx]

/-- which rows carry the mark of this column after a stretch of the search that handled the nonzeros `rows` -/
def MarkExt (e : Env) (L : Array Int) (st : St) (post : List Nat) (st' : St) (post' : List Nat) (rows : List Int) : Prop :=
  ∀ nw, post' = nw ++ post → ∀ r, mk2 e st' r = e.jcol ↔
    (mk2 e st r = e.jcol ∨ r ∈ rows ∨ ∃ t ∈ nw, r ∈ adjRows e L ((t : Nat) : Int))

theorem or_shuffle2 {A B C D E : Prop} : ((A ∨ B ∨ C) ∨ D ∨ E) ↔ (A ∨ (B ∨ D) ∨ (E ∨ C)) := by tauto
theorem or_shuffle3 {A B C D : Prop} : ((A ∨ B) ∨ C ∨ D) ↔ (A ∨ B ∨ C ∨ D) := by tauto

theorem ex_append {P : Nat → Prop} (a b : List Nat) : (∃ t ∈ a ++ b, P t) ↔ ((∃ t ∈ a, P t) ∨ ∃ t ∈ b, P t) := by
  constructor
  · rintro ⟨t, ht, hp⟩
    rcases mem_append.mp ht with h | h
    · exact Or.inl ⟨t, h, hp⟩
    · exact Or.inr ⟨t, h, hp⟩
  · rintro (⟨t, h, hp⟩ | ⟨t, h, hp⟩)
    · exact ⟨t, mem_append_left _ h, hp⟩
    · exact ⟨t, mem_append_right _ h, hp⟩

theorem ex_cons {P : Nat → Prop} (c : Nat) (b : List Nat) : (∃ t ∈ c :: b, P t) ↔ (P c ∨ ∃ t ∈ b, P t) := by
  simp

theorem MarkExt.of_nil {st st' : St} {post : List Nat} {krow : Int}
    (h : ∀ r, mk2 e st' r = e.jcol ↔ (mk2 e st r = e.jcol ∨ r = krow)) : MarkExt e L st post st' post [krow] := by
  intro nw hnw r
  have : nw = [] := by simpa using hnw
  subst this
  rw [h r]; simp

theorem MarkExt.refl (st : St) (post : List Nat) : MarkExt e L st post st post [] := by
  intro nw hnw r
  have : nw = [] := by simpa using hnw
  subst this
  simp

theorem MarkExt.trans {st st1 st2 : St} {post post1 post2 : List Nat} {rows1 rows2 : List Int}
    (h1 : MarkExt e L st post st1 post1 rows1) (h2 : MarkExt e L st1 post1 st2 post2 rows2)
    (hn1 : ∃ n1, post1 = n1 ++ post) (hn2 : ∃ n2, post2 = n2 ++ post1) :
    MarkExt e L st post st2 post2 (rows1 ++ rows2) := by
  intro nw hnw r
  obtain ⟨n1, e1⟩ := hn1
  obtain ⟨n2, e2⟩ := hn2
  have hnweq : nw = n2 ++ n1 := by
    have : nw ++ post = (n2 ++ n1) ++ post := by rw [← hnw, e2, e1]; simp
    exact append_cancel_right this
  rw [h2 n2 e2 r, h1 n1 e1 r, hnweq, ex_append, mem_append]
  exact or_shuffle2

theorem Root.of_mild {st st1 : St} {post : List Nat} (hm : Mild st st1) (h : Root (e := e) (L := L) (nextl0 := nextl0) post st)
    (hok : StOK e L nextl0 st1) (hma : MA e nextl0 st1) : Root (e := e) (L := L) (nextl0 := nextl0) post st1 :=
  ⟨hok, h.pok.of_mild hm, fun t ht hd => h.fin t ht ((hm.disc _).mp hd), hma⟩

/-- one nonzero of the column: the machine does what one recursive visit from its pivot column does -/
theorem rootStep_spec (hE : EnvOK e L nextl0) {adj : Nat → List Nat}
    (hadj : ∀ s : Nat, (s : Int) < e.jcol → repOf e s = s → adj s = adjG e L s) {fuel : Nat} (hfuel : (e.jcol.toNat + 1) * stepK nextl0 ≤ fuel)
    {st : St} {post : List Nat} (hR : Root (e := e) (L := L) (nextl0 := nextl0) post st)
    {krow : Int} (hr0 : 0 ≤ krow) (hr1 : krow < e.m)
    (hfr : ∀ v ∈ slice st.segrep 0 st.nseg, ¬ disc st v → rd e.perm_r krow ≠ EMPTY → v < repOf e (rd e.perm_r krow)) :
    ∃ st' post', rootStep e fuel st krow = some st' ∧
      Root (e := e) (L := L) (nextl0 := nextl0) post' st' ∧ SegExt st post st' post' ∧
      post' = (rootCols e [krow]).foldl (fun acc k => dfsVisit adj e.jcol.toNat (repN e k) acc) post ∧
      MarkExt e L st post st' post' [krow] := by
  have hE1 : (EMPTY : Int) = -1 := rfl
  have hmr0 : 0 ≤ 2 * e.m + krow := by have := hE.m0; omega
  have hmr1 : 2 * e.m + krow < st.marker.size := by have := hR.ok.szMark; omega
  have hst := hR.ok
  have hpo := hR.pok
  have hfin : rd e.perm_r krow ≠ EMPTY → disc st (repOf e (rd e.perm_r krow)) →
      dfsVisit adj e.jcol.toNat (repN e (rd e.perm_r krow).toNat) post = post := by
    intro hkp hd
    have hkpr : 0 ≤ rd e.perm_r krow ∧ rd e.perm_r krow < e.jcol := by
      rcases hE.perm _ hr0 hr1 with h | h
      · exact absurd h hkp
      · exact h
    have hc := repN_cast hE hkpr.1 hkpr.2
    have hrep := hE.rep _ hkpr.1 hkpr.2
    exact dfsVisit_mem _ _ (hR.fin _ (by rw [hc]; exact hrep.2.1) (by rw [hc]; exact hd))
  have hpost : ∀ post' : List Nat, (rd e.perm_r krow = EMPTY → post' = post) →
      (rd e.perm_r krow ≠ EMPTY → post' = dfsVisit adj e.jcol.toNat (repN e (rd e.perm_r krow).toNat) post) →
      post' = (rootCols e [krow]).foldl (fun acc k => dfsVisit adj e.jcol.toNat (repN e k) acc) post := by
    intro post' h1 h2
    by_cases hkp : rd e.perm_r krow = EMPTY
    · simp [rootCols, hkp, h1 hkp]
    · simp [rootCols, hkp, h2 hkp]
  unfold rootStep
  by_cases hmk : mk2 e st krow = e.jcol
  · simp only [hmk, if_true]
    exact ⟨st, post, rfl, hR, SegExt.refl _ _, hpost _ (fun _ => rfl) (fun hkp => (hfin hkp (hst.markRep _ hr0 hr1 hmk hkp)).symm),
      MarkExt.of_nil (fun r => ⟨Or.inl, fun h => h.elim id (fun h => by rw [h]; exact hmk)⟩)⟩
  · simp only [hmk, if_false]
    by_cases hkp : rd e.perm_r krow = EMPTY
    · simp only [hkp, if_true]
      have hm : Mild st (appendRow e ({ st with marker := wr st.marker (2 * e.m + krow) e.jcol }) krow (mk2 e st krow)) := by
        refine ⟨?_, ?_, ?_, ?_, ?_⟩
        · unfold appendRow; split <;> rfl
        · unfold appendRow; split <;> rfl
        · unfold appendRow; split <;> rfl
        · unfold appendRow; split <;> rfl
        · intro t; unfold appendRow; split <;> exact Iff.rfl
      have hokB := (hst.mark krow (fun h => absurd hkp h)).append krow (mk2 e st krow) hr0 hr1 hkp
          (by unfold mk2; exact rd_wr_eq (by have := hE.m0; omega) (by have := hst.szMark; omega))
          (fun hin => hmk (hst.app.rows _ hin).2.2.2)
      exact ⟨_, post, rfl, hR.of_mild hm hokB (hR.ma.markAppend hst _ _ hokB
          (hst.room hr0 hr1 hkp (fun hin => hmk (hst.app.rows _ hin).2.2.2))), SegExt.of_mild hm,
        hpost _ (fun _ => rfl) (fun h => absurd hkp h),
        MarkExt.of_nil (fun r => by
          have := mk2_mark_iff (e := e) (st := st) (row := krow) (r := r) hmr0 hmr1
          unfold mk2 at this ⊢
          rw [(appendRow_lsub _ _ _).2.2]; exact this)⟩
    · simp only [hkp, if_false]
      by_cases hdc : disc st (repOf e (rd e.perm_r krow))
      · have hdc' : rd st.repfnz (repOf e (rd e.perm_r krow)) ≠ EMPTY := hdc
        simp only [hdc', ne_eq, not_false_eq_true, if_true]
        have hd' : disc ({ st with marker := wr st.marker (2 * e.m + krow) e.jcol }) (repOf e (rd e.perm_r krow)) := hdc
        have hm : Mild st (lowerFnz ({ st with marker := wr st.marker (2 * e.m + krow) e.jcol }) (repOf e (rd e.perm_r krow))
            (rd st.repfnz (repOf e (rd e.perm_r krow))) (rd e.perm_r krow)) := by
          refine ⟨?_, ?_, ?_, ?_, ?_⟩
          · unfold lowerFnz; split <;> rfl
          · unfold lowerFnz; split <;> rfl
          · unfold lowerFnz; split <;> rfl
          · unfold lowerFnz; split <;> rfl
          · intro t; exact lowerFnz_disc hkp hd' t
        exact ⟨_, post, rfl, hR.of_mild hm ((hst.mark krow (fun _ => hdc)).lower hkp hd')
          ((hR.ma.markPivoted hkp).congr (by unfold lowerFnz; split <;> rfl) (by unfold lowerFnz; split <;> rfl)
            (fun r hr => by unfold lowerFnz at hr; split at hr <;> exact hr)), SegExt.of_mild hm,
          hpost _ (fun h => absurd h hkp) (fun _ => (hfin hkp hdc).symm),
          MarkExt.of_nil (fun r => by
            have := mk2_mark_iff (e := e) (st := st) (row := krow) (r := r) hmr0 hmr1
            unfold mk2 at this ⊢
            unfold lowerFnz
            split <;> exact this)⟩
      · have hdisc : rd st.repfnz (repOf e (rd e.perm_r krow)) = EMPTY := by
          unfold disc at hdc; exact not_not.mp hdc
        simp only [hdisc, ne_eq, not_true_eq_false, if_false]
        have hkpr : 0 ≤ rd e.perm_r krow ∧ rd e.perm_r krow < e.jcol := by
          rcases hE.perm _ hr0 hr1 with h | h
          · exact absurd h hkp
          · exact h
        obtain ⟨hrep1, hrep2, hrep3⟩ := hE.rep _ hkpr.1 hkpr.2
        obtain ⟨c, hc⟩ := Int.eq_ofNat_of_zero_le (show 0 ≤ repOf e (rd e.perm_r krow) by omega)
        have hcc : repN e (rd e.perm_r krow).toNat = c := by
          have := repN_cast hE hkpr.1 hkpr.2
          rw [hc] at this; exact_mod_cast this
        have hfr' : ∀ v ∈ slice st.segrep 0 st.nseg, ¬ disc st v → v < (c : Int) := fun v hv hd => by
          rw [← hc]; exact hfr v hv hd hkp
        rw [hc] at hdisc hrep1 hrep2 hrep3 ⊢
        clear hfr
        generalize hkpdef : rd e.perm_r krow = kp at *
        generalize hst1def : ({ st with marker := wr st.marker (2 * e.m + krow) e.jcol, parent := wr st.parent (c : Int) EMPTY, repfnz := wr st.repfnz (c : Int) kp } : St) = st1
        have e_rep : st1.repfnz = wr st.repfnz (c : Int) kp := by rw [← hst1def]
        have e_par : st1.parent = wr st.parent (c : Int) EMPTY := by rw [← hst1def]
        have e_xpl : st1.xplore = st.xplore := by rw [← hst1def]
        have e_seg : st1.segrep = st.segrep := by rw [← hst1def]
        have e_nseg : st1.nseg = st.nseg := by rw [← hst1def]
        have e_lsub : st1.lsub = st.lsub := by rw [← hst1def]
        have e_nextl : st1.nextl = st.nextl := by rw [← hst1def]
        have e_mark : st1.marker = wr st.marker (2 * e.m + krow) e.jcol := by rw [← hst1def]
        have hd1 : ∀ t, disc st t → disc st1 t := by
          intro t ht
          unfold disc; rw [e_rep, rd_wr_ne (fun h => ht (by rw [h]; exact hdisc))]; exact ht
        have hd1c : disc st1 (c : Int) := by
          unfold disc; rw [e_rep, rd_wr_eq (by omega) (by have := hst.szRep; omega), hE1]; omega
        have hd1' : ∀ t, disc st1 t → t = (c : Int) ∨ disc st t := by
          intro t ht
          by_cases h : t = (c : Int)
          · exact Or.inl h
          · right; unfold disc at ht ⊢; rwa [e_rep, rd_wr_ne h] at ht
        have hst1 : StOK e L nextl0 st1 :=
          { app := hst.app.congr e_lsub e_nextl (fun r hr => by
              have := mk2_mark_mono (row := krow) hr
              unfold mk2 at this ⊢; rw [e_mark]; exact this)
            pre := by rw [e_lsub]; exact hst.pre
            nextl := by rw [e_nextl]; exact hst.nextl
            szRep := by rw [e_rep, size_wr]; exact hst.szRep
            szPar := by rw [e_par, size_wr]; exact hst.szPar
            szXpl := by rw [e_xpl]; exact hst.szXpl
            szMark := by rw [e_mark, size_wr]; exact hst.szMark
            nseg0 := by rw [e_nseg]; exact hst.nseg0
            markRep := by
              intro r r0 r1 hm hp
              by_cases hrr : r = krow
              · rw [hrr, hkpdef, hc]; exact hd1c
              · refine hd1 _ (hst.markRep r r0 r1 ?_ hp)
                unfold mk2 at hm ⊢; rwa [e_mark, rd_wr_ne (by omega)] at hm }
        have hpo1 : PostOK e post st1 :=
          ⟨hpo.nodup, hpo.lt, fun t ht => hd1 _ (hpo.fin t ht), by rw [e_nseg, e_seg]; exact hpo.cap⟩
        obtain ⟨hc0, hc1, hc2, _⟩ := hE.lists (c : Int) (by omega) hrep2 hrep3
        have hj : (e.jcol.toNat : Int) = e.jcol := Int.toNat_of_nonneg hE.jcol0
        obtain ⟨j', hj'⟩ : ∃ j', e.jcol.toNat = j' + 1 := ⟨e.jcol.toNat - 1, by omega⟩
        obtain ⟨nc, st2, post2, hrunc, hpost2, hres2⟩ :=
          scanAt_all hE hadj j' (rd e.xprune c - rd e.xlsub c).toNat c (rd e.xlsub c) st1 post hrep2 (by omega) hrep3
            (le_refl _) (by omega) hst1 hpo1 hd1c
            (fun t ht hd => by
              rcases hd1' _ hd with h | h
              · right; exact_mod_cast (le_of_eq h)
              · exact Or.inl (hR.fin t ht h))
            ((hR.ma.markPivoted (row := krow) (by rw [hkpdef]; exact hkp)).congr e_lsub e_nextl (fun r hr => by
              unfold mk2 at hr ⊢; rw [e_mark] at hr; exact hr))
            (fun v hv hd => by
              rw [e_seg, e_nseg] at hv
              exact hfr' v hv (fun h => hd (hd1 _ h)))
        obtain ⟨nwc, hnw1, hnw2, hnw3, hnw4⟩ := hres2.new
        have hsegm : ∀ v ∈ slice st2.segrep 0 st2.nseg, v ∈ slice st.segrep 0 st.nseg ∨ ∃ t ∈ nwc, v = ((t : Nat) : Int) := by
          intro v hv
          have := seg_mem_ext (st := st1) (st2 := st2) (by rw [e_nseg]; exact hst.nseg0) hnw3 hres2.segFrame hnw4 hv
          rwa [e_seg, e_nseg] at this
        have hcseg : (c : Int) ∉ slice st2.segrep 0 st2.nseg := by
          intro hin
          rcases hsegm _ hin with h | ⟨t, ht, h⟩
          · have := hfr' _ h (fun hd => hd hdisc); omega
          · have : c = t := by exact_mod_cast h
            subst this; exact hnw2 c ht hd1c
        have hpopc := hres2.pok.pop hres2.ok.nseg0 hrep2 hcseg
        have hcpost : c ∉ post := fun h => by have := hpo.fin c h; exact this hdisc
        have hcpost2 : c ∉ post2 := by
          rw [hnw1]; intro h
          rcases mem_append.mp h with h | h
          · exact hnw2 c h hd1c
          · exact hcpost h
        have hlen : post2.length + 1 ≤ e.jcol.toNat := by
          have := nodup_lt_length (l := c :: post2) (n := e.jcol.toNat) (nodup_cons.mpr ⟨hcpost2, hres2.pok.nodup⟩)
            (by
              intro t ht
              rcases mem_cons.mp ht with rfl | ht
              · omega
              · have := hres2.pok.lt t ht; omega)
          simpa using this
        have hnsegr : 0 ≤ st2.nseg ∧ st2.nseg < st2.segrep.size := ⟨hres2.ok.nseg0, hpopc.1⟩
        have hpar : rd st2.parent (c : Int) = EMPTY := by
          rw [(hres2.frame (c : Int) (le_refl _)).1, e_par, rd_wr_eq (by omega) (by have := hst.szPar; omega)]
        generalize hst3def : ({ st2 with segrep := wr st2.segrep st2.nseg (c : Int), nseg := st2.nseg + 1 } : St) = st3
        have hpop : ∀ F, run e (F + 1) ⟨(c : Int), rd e.xprune c, rd e.xprune c, st2⟩ = some st3 := by
          intro F
          simp [run, step, popStep, hpar, hst3def]
        have e3_rep : st3.repfnz = st2.repfnz := by rw [← hst3def]
        have e3_seg : st3.segrep = wr st2.segrep st2.nseg (c : Int) := by rw [← hst3def]
        have e3_nseg : st3.nseg = st2.nseg + 1 := by rw [← hst3def]
        have hd3 : ∀ t, disc st3 t ↔ disc st2 t := fun t => by unfold disc; rw [e3_rep]
        have hst3 : StOK e L nextl0 st3 := by
          rw [← hst3def]
          exact { app := hres2.ok.app.congr rfl rfl (fun _ hh => hh), pre := hres2.ok.pre, nextl := hres2.ok.nextl, szRep := hres2.ok.szRep, szPar := hres2.ok.szPar,
                  szXpl := hres2.ok.szXpl, szMark := hres2.ok.szMark, markRep := hres2.ok.markRep,
                  nseg0 := by have := hres2.ok.nseg0; show 0 ≤ st2.nseg + 1; omega }
        have hpo3 : PostOK e (c :: post2) st3 :=
          { nodup := nodup_cons.mpr ⟨hcpost2, hres2.pok.nodup⟩
            lt := by
              intro t ht
              rcases mem_cons.mp ht with rfl | ht
              · exact hrep2
              · exact hres2.pok.lt t ht
            fin := by
              intro t ht
              rw [hd3]
              rcases mem_cons.mp ht with rfl | ht
              · exact hres2.mono _ hd1c
              · exact hres2.pok.fin t ht
            cap := by rw [e3_nseg, e3_seg]; exact hpopc.2 }
        have hfuel' : nc + 1 ≤ fuel := by
          have b2 := hres2.bound
          have hK : (rd e.xprune c - rd e.xlsub c).toNat + 2 ≤ stepK nextl0 := by unfold stepK; omega
          have h3 : post2.length * stepK nextl0 + stepK nextl0 ≤ e.jcol.toNat * stepK nextl0 := by
            rw [← Nat.succ_mul]; exact Nat.mul_le_mul_right _ hlen
          rw [Nat.succ_mul] at hfuel
          omega
        refine ⟨st3, c :: post2, ?_, ⟨hst3, hpo3, ?_, hres2.ma.congr (by rw [← hst3def]) (by rw [← hst3def]) (fun r hr => by rw [← hst3def] at hr; exact hr)⟩, ⟨⟨c :: nwc, by rw [hnw1]; rfl, ?_, ?_⟩, ?_⟩, ?_, ?_⟩
        · obtain ⟨F, hF⟩ : ∃ F, fuel = nc + (F + 1) := ⟨fuel - nc - 1, by omega⟩
          rw [hF, hrunc, hpop]
        · intro t ht hd
          rcases hres2.newFin t ht ((hd3 _).mp hd) with h | h
          · rcases hd1' _ h with h | h
            · have : t = c := by exact_mod_cast h
              rw [this]; exact mem_cons_self
            · rw [hnw1]; exact mem_cons_of_mem _ (mem_append_right _ (hR.fin t ht h))
          · exact mem_cons_of_mem _ h
        · rw [e3_nseg, hnw3, e_nseg, length_cons]; push_cast; omega
        · have hn0 : 0 ≤ st.nseg := hst.nseg0
          have hn2 : st2.nseg = st.nseg + nwc.length := by rw [hnw3, e_nseg]
          rw [e3_nseg, slice_snoc _ hn0 (by omega), e3_seg, rd_wr_eq hnsegr.1 hnsegr.2]
          have h2 : slice (wr st2.segrep st2.nseg (c : Int)) st.nseg st2.nseg = slice st2.segrep st.nseg st2.nseg :=
            slice_congr hn0 (fun y _ hy => rd_wr_ne (by omega))
          rw [h2, ← e_nseg, hnw4]
          simp
        · intro y hy
          rw [e3_seg, rd_wr_ne (by rw [hnw3, e_nseg]; omega), hres2.segFrame y (by rw [e_nseg]; exact hy), e_seg]
        · refine hpost _ (fun h => absurd h hkp) (fun _ => ?_)
          rw [hcc, hj', hpost2, ← adjG_eq, ← hadj c hrep2 hrep3]
          simp [dfsVisit, hcpost]
        · intro nw hnw r
          have hnweq : nw = c :: nwc := by
            have : nw ++ post = (c :: nwc) ++ post := by rw [← hnw, hnw1]; simp
            exact append_cancel_right this
          have hm1 : mk2 e st1 r = e.jcol ↔ (mk2 e st r = e.jcol ∨ r = krow) := by
            have := mk2_mark_iff (e := e) (st := st) (row := krow) (r := r) hmr0 hmr1
            unfold mk2 at this ⊢
            rw [e_mark]; exact this
          have hm3 : mk2 e st3 r = mk2 e st2 r := by unfold mk2; rw [← hst3def]
          have hadjc : slice L (rd e.xprune c - ((rd e.xprune c - rd e.xlsub c).toNat : Int)) (rd e.xprune c) = adjRows e L (c : Int) := by
            unfold adjRows; congr 1; omega
          rw [hm3, hres2.marks nwc hnw1 r, hm1, hadjc, hnweq, ex_cons, mem_singleton]
          exact or_shuffle3

end root

section search
variable {e : Env} {L : Array Int} {nextl0 : Int}

theorem rootCols_cons (krow : Int) (rows : List Int) : rootCols e (krow :: rows) = rootCols e [krow] ++ rootCols e rows := by
  unfold rootCols
  rw [← filterMap_append]; rfl

/-- the `for` loop over the nonzeros of the column = the recursive search from their pivot columns -/
theorem search_spec (hE : EnvOK e L nextl0) {adj : Nat → List Nat}
    (hadj : ∀ s : Nat, (s : Int) < e.jcol → repOf e s = s → adj s = adjG e L s) {fuel : Nat}
    (hfuel : (e.jcol.toNat + 1) * stepK nextl0 ≤ fuel) :
    ∀ (rows : List Int) (st : St) (post : List Nat), Root (e := e) (L := L) (nextl0 := nextl0) post st →
      (∀ r ∈ rows, 0 ≤ r ∧ r < e.m) →
      (∀ v ∈ slice st.segrep 0 st.nseg, ¬ disc st v → ∀ row ∈ rows, rd e.perm_r row ≠ EMPTY → v < repOf e (rd e.perm_r row)) →
      ∃ st' post', search e fuel rows st = some st' ∧
        Root (e := e) (L := L) (nextl0 := nextl0) post' st' ∧ SegExt st post st' post' ∧
        post' = (rootCols e rows).foldl (fun acc k => dfsVisit adj e.jcol.toNat (repN e k) acc) post ∧
        MarkExt e L st post st' post' rows := by
  intro rows
  induction rows with
  | nil => intro st post hR _ _; exact ⟨st, post, rfl, hR, SegExt.refl _ _, by simp [rootCols], MarkExt.refl _ _⟩
  | cons krow rows ih =>
    intro st post hR hrows hfr
    obtain ⟨st1, post1, h1, hR1, hS1, hp1, hM1⟩ := rootStep_spec hE hadj hfuel hR (hrows krow mem_cons_self).1 (hrows krow mem_cons_self).2
      (fun v hv hd hk => hfr v hv hd krow mem_cons_self hk)
    have hfr1 : ∀ v ∈ slice st1.segrep 0 st1.nseg, ¬ disc st1 v → ∀ row ∈ rows, rd e.perm_r row ≠ EMPTY → v < repOf e (rd e.perm_r row) := by
      intro v hv hd row hrow hk
      obtain ⟨nw, a1, a2, a3⟩ := hS1.new
      rcases seg_mem_ext hR.ok.nseg0 a2 hS1.segFrame a3 hv with h | ⟨t, ht, h⟩
      · refine hfr v h (fun hd0 => hd ?_) row (mem_cons_of_mem _ hrow) hk
        obtain ⟨v0, v1⟩ := hR.pok.cap.2.1 v h
        obtain ⟨t, rfl⟩ := Int.eq_ofNat_of_zero_le v0
        exact hR1.pok.fin t (by rw [a1]; exact mem_append_right _ (hR.fin t v1 hd0))
      · exfalso; rw [h] at hd
        exact hd (hR1.pok.fin t (by rw [a1]; exact mem_append_left _ ht))
    obtain ⟨st2, post2, h2, hR2, hS2, hp2, hM2⟩ := ih st1 post1 hR1 (fun r hr => hrows r (mem_cons_of_mem _ hr)) hfr1
    refine ⟨st2, post2, by simp [search, h1, h2], hR2, hS1.trans hR.ok.nseg0 hS2, ?_, ?_⟩
    · rw [hp2, hp1]
      conv_rhs => rw [rootCols_cons, foldl_append]
    · obtain ⟨n1, a1, _⟩ := hS1.new
      obtain ⟨n2, b1, _⟩ := hS2.new
      exact hM1.trans hM2 ⟨n1, a1⟩ ⟨n2, b1⟩

end search

section wf

theorem allBelow_iff {n : Int} {p : Nat → Bool} : allBelow n p = true ↔ ∀ k : Nat, (k : Int) < n → p k = true := by
  unfold allBelow; rw [List.all_eq_true]; constructor
  · intro h k hk; exact h k (List.mem_range.mpr (by omega))
  · intro h k hk; exact h k (by have := List.mem_range.mp hk; omega)

theorem mem_slice_iff {a : Array Int} {lo hi row : Int} (h0 : 0 ≤ lo) :
    row ∈ slice a lo hi ↔ ∃ x, lo ≤ x ∧ x < hi ∧ row = rd a x := by
  unfold slice
  simp only [mem_map, mem_range'_1]
  constructor
  · rintro ⟨k, hk, rfl⟩; exact ⟨k, by omega, by omega, rfl⟩
  · rintro ⟨x, h1, h2, rfl⟩; exact ⟨x.toNat, by omega, by rw [Int.toNat_of_nonneg (by omega)]⟩

/-- the graph the search runs on: successor representatives of a representative `s < jcol`, in the
storage order of its pruned list; nothing below a column that is not a representative -/
def adjR (e : Env) (L : Array Int) (s : Nat) : List Nat :=
  if repOf e s = s ∧ (s : Int) < e.jcol then adjG e L s else []

theorem adjR_eq (e : Env) (L : Array Int) (s : Nat) (h1 : (s : Int) < e.jcol) (h2 : repOf e s = s) :
    adjR e L s = adjG e L s := by simp [adjR, h1, h2]

variable {i : Input}

theorem wfIn_unpack (h : wfIn i = true) :
    (0 ≤ i.jcol ∧ i.jcol < i.m ∧ (i.perm_r.size : Int) = i.m ∧ (i.marker.size : Int) = 3 * i.m) ∧
    (i.jcol ≤ i.repfnz.size ∧ i.jcol ≤ i.parent.size ∧ i.jcol ≤ i.xplore.size ∧ 0 ≤ i.nseg) ∧
    ((i.jcol ≤ i.segrep.size ∧ (slice i.segrep 0 i.nseg).Nodup ∧
        ∀ v ∈ slice i.segrep 0 i.nseg, 0 ≤ v ∧ v < i.jcol ∧ (rd i.repfnz v = EMPTY →
          ∀ row ∈ colRows i.lsubCol, rd i.perm_r row ≠ EMPTY → v < repOf i.env (rd i.perm_r row))) ∧
      0 ≤ rd i.xlsub i.jcol ∧
      rd i.xlsub i.jcol + (unpivoted i.m i.perm_r).length ≤ i.lsub.size) ∧
    (∀ r : Nat, (r : Int) < i.m → rd i.perm_r r = EMPTY ∨ (0 ≤ rd i.perm_r r ∧ rd i.perm_r r < i.jcol)) ∧
    (∀ r : Nat, (r : Int) < i.m → mk2 i.env i.st0 r ≠ i.jcol) ∧
    (∀ k : Nat, (k : Int) < i.jcol → (k : Int) ≤ repOf i.env k ∧ repOf i.env k < i.jcol ∧ repOf i.env (repOf i.env k) = repOf i.env k) ∧
    (∀ s : Nat, (s : Int) < i.jcol → repOf i.env s = s →
      0 ≤ rd i.xlsub s ∧ rd i.xlsub s ≤ rd i.xprune s ∧ rd i.xprune s ≤ rd i.xlsub i.jcol ∧
      ∀ row ∈ adjRows i.env i.lsub s, 0 ≤ row ∧ row < i.m ∧
        (rd i.perm_r row = EMPTY ∨ (s : Int) ≤ rd i.perm_r row ∨ repOf i.env (rd i.perm_r row) = s)) ∧
    (∀ row ∈ colRows i.lsubCol, 0 ≤ row ∧ row < i.m) := by
  simp only [wfIn, Bool.and_eq_true, decide_eq_true_eq] at h
  rcases h with ⟨⟨⟨⟨⟨⟨⟨⟨⟨⟨⟨⟨⟨⟨⟨h1, h2⟩, h3⟩, h4⟩, h5⟩, h6⟩, h7⟩, h8⟩, h9⟩, h10⟩, h11⟩, h12⟩, h13⟩, h14⟩, h15⟩, h16⟩
  refine ⟨⟨h1, h2, h3, h4⟩, ⟨h5, h6, h7, h8⟩, ⟨⟨h9.1.1, h9.1.2, ?_⟩, h10, h11⟩, ?_, ?_, ?_, ?_, ?_⟩
  · intro v hv
    have := (List.all_eq_true.mp h9.2) v hv
    simp only [Bool.or_eq_true, Bool.and_eq_true, decide_eq_true_eq, List.all_eq_true, ne_eq, decide_not,
      Bool.not_eq_true', decide_eq_false_iff_not] at this
    obtain ⟨⟨a, b⟩, c⟩ := this
    refine ⟨a, b, fun he row hrow hk => ?_⟩
    rcases c with c | c
    · exact absurd he c
    · rcases c row hrow with c | c
      · exact absurd c hk
      · exact c
  · intro r hr
    have := allBelow_iff.mp h12 r hr
    simpa using this
  · intro r hr
    have := allBelow_iff.mp h13 r hr
    simpa using this
  · intro k hk
    have := allBelow_iff.mp h14 k hk
    simpa [and_assoc] using this
  · intro s hs hrs
    have := allBelow_iff.mp h15 s hs
    simp only [Bool.or_eq_true, Bool.and_eq_true, decide_eq_true_eq, List.all_eq_true, bne_iff_ne, ne_eq, decide_not,
      Bool.not_eq_true', decide_eq_false_iff_not] at this
    rcases this with h | h
    · exact absurd hrs h
    · obtain ⟨⟨⟨a, b⟩, c⟩, d⟩ := h
      exact ⟨a, b, c, fun row hrow => by have := d row hrow; simpa [and_assoc, or_assoc] using this⟩
  · intro row hrow
    have := (List.all_eq_true.mp h16) row hrow
    simpa using this

end wf

section final
variable {i : Input}

theorem wfIn_env (h : wfIn i = true) : EnvOK i.env i.lsub (rd i.xlsub i.jcol) := by
  obtain ⟨⟨a1, a2, a3, a4⟩, ⟨b1, b2, b3, b4⟩, ⟨c1, c2, c3⟩, hperm, hmark, hrep, hlists, hrows⟩ := wfIn_unpack h
  refine ⟨a1, (by show 0 ≤ i.m; omega), ?_, ?_, ?_⟩
  · intro r r0 r1
    obtain ⟨k, rfl⟩ := Int.eq_ofNat_of_zero_le r0
    exact hperm k r1
  · intro k k0 k1
    obtain ⟨n, rfl⟩ := Int.eq_ofNat_of_zero_le k0
    exact hrep n k1
  · intro s s0 s1 hs
    obtain ⟨n, rfl⟩ := Int.eq_ofNat_of_zero_le s0
    obtain ⟨x1, x2, x3, x4⟩ := hlists n s1 hs
    refine ⟨x1, x2, x3, fun x hx1 hx2 => x4 _ ?_⟩
    exact (mem_slice_iff x1).mpr ⟨x, hx1, hx2, rfl⟩

theorem wfIn_root (h : wfIn i = true) :
    Root (e := i.env) (L := i.lsub) (nextl0 := rd i.xlsub i.jcol) (visited0 i.jcol i.repfnz) i.st0 := by
  obtain ⟨⟨a1, a2, a3, a4⟩, ⟨b1, b2, b3, b4⟩, ⟨c1, c2, c3⟩, hperm, hmark, hrep, hlists, hrows⟩ := wfIn_unpack h
  have hmem : ∀ t : Nat, t ∈ visited0 i.jcol i.repfnz ↔ (t : Int) < i.jcol ∧ rd i.repfnz t ≠ EMPTY := by
    intro t; unfold visited0; simp only [mem_filter, mem_range, decide_eq_true_eq]
    constructor
    · rintro ⟨x, y⟩; exact ⟨by omega, y⟩
    · rintro ⟨x, y⟩; exact ⟨by omega, y⟩
  refine ⟨⟨⟨c2, by show (slice i.lsub _ (rd i.xlsub i.jcol)).Nodup; rw [slice_nil]; exact nodup_nil,
      fun r hr => by
        have hr' : r ∈ slice i.lsub (rd i.xlsub i.jcol) (rd i.xlsub i.jcol) := hr
        rw [slice_nil] at hr'; simp at hr',
      c3⟩, fun _ _ _ => rfl, le_refl _, b1, b2, b3, a4, ?_, b4⟩,
    ⟨?_, ?_, ?_, c1.2.1, fun v hv => ⟨(c1.2.2 v hv).1, (c1.2.2 v hv).2.1⟩, c1.1⟩, ?_, ?_⟩
  · intro r r0 r1 hm
    obtain ⟨k, rfl⟩ := Int.eq_ofNat_of_zero_le r0
    exact absurd hm (hmark k r1)
  · exact List.Nodup.filter _ List.nodup_range
  · intro t ht; exact ((hmem t).mp ht).1
  · intro t ht; exact ((hmem t).mp ht).2
  · intro t ht hd; exact (hmem t).mpr ⟨ht, hd⟩
  · intro r r0 r1 hm
    obtain ⟨k, rfl⟩ := Int.eq_ofNat_of_zero_le r0
    exact absurd hm (hmark k r1)

/-- an entry of `segrep[0..nseg)` the column has not reached lies below the representative of every pivoted nonzero -/
theorem wfIn_fresh (h : wfIn i = true) :
    ∀ v ∈ slice i.st0.segrep 0 i.st0.nseg, ¬ disc i.st0 v →
      ∀ row ∈ colRows i.lsubCol, rd i.env.perm_r row ≠ EMPTY → v < repOf i.env (rd i.env.perm_r row) := by
  obtain ⟨_, _, ⟨c1, _, _⟩, _⟩ := wfIn_unpack h
  intro v hv hd row hrow hk
  exact (c1.2.2 v hv).2.2 (not_not.mp hd) row hrow hk

theorem wfIn_fuel (h : wfIn i = true) : (i.env.jcol.toNat + 1) * stepK (rd i.xlsub i.jcol) ≤ fuelBound i := by
  obtain ⟨_, _, ⟨c1, c2, c3⟩, _⟩ := wfIn_unpack h
  unfold fuelBound stepK
  apply Nat.mul_le_mul_left
  omega

/-- **the iterative search of `[sdcz]column_dfs` = the recursive search** (array level, any well-formed
state, any set of representatives already visited on entry) -/
theorem columnDfs_eq_dfsList (h : wfIn i = true) :
    ∃ o nw, columnDfs i (fuelBound i) = some o ∧
      nw ++ visited0 i.jcol i.repfnz =
        dfsList (adjR i.env i.lsub) i.jcol.toNat ((rootCols i.env (colRows i.lsubCol)).map (repN i.env)) (visited0 i.jcol i.repfnz) ∧
      o.nseg = i.nseg + nw.length ∧
      slice o.segrep i.nseg o.nseg = nw.reverse.map Int.ofNat ∧
      (∀ x, x < i.nseg → rd o.segrep x = rd i.segrep x) := by
  have hE := wfIn_env h
  have hR := wfIn_root h
  obtain ⟨st', post', hs, hR', hS, hp, _⟩ := search_spec hE (adj := adjR i.env i.lsub) (fun s h1 h2 => adjR_eq _ _ s h1 h2)
    (wfIn_fuel h) (colRows i.lsubCol) i.st0 _ hR (wfIn_unpack h).2.2.2.2.2.2.2 (wfIn_fresh h)
  obtain ⟨nw, n1, n2, n3⟩ := hS.new
  simp only [columnDfs, hs]
  refine ⟨_, nw, rfl, ?_, n2, n3, hS.segFrame⟩
  rw [← n1, hp, dfsList, foldl_map]
  rfl

end final

section graph
variable {e : Env} {L : Array Int} {nextl0 : Int}

/-- the graph read off a well-formed state is acyclic and stays below `jcol` -/
theorem adjR_lt (hE : EnvOK e L nextl0) : ∀ k, ∀ r ∈ adjR e L k, k < r ∧ r < e.jcol.toNat := by
  intro k r hr
  unfold adjR at hr
  split at hr
  · rename_i hk
    obtain ⟨hk1, hk2⟩ := hk
    unfold adjG adjCols at hr
    simp only [mem_map, mem_filterMap] at hr
    obtain ⟨kp', ⟨row, hrow, hsome⟩, rfl⟩ := hr
    obtain ⟨l0, l1, l2, lrows⟩ := hE.lists k (by omega) hk2 hk1
    obtain ⟨x, x1, x2, rfl⟩ := (mem_slice_iff l0).mp hrow
    obtain ⟨r0, r1, _⟩ := lrows x x1 x2
    split at hsome
    · rename_i hlt
      have hkp' : kp' = (rd e.perm_r (rd L x)).toNat := by simpa using hsome.symm
      have hkpr : 0 ≤ rd e.perm_r (rd L x) ∧ rd e.perm_r (rd L x) < e.jcol := by
        rcases hE.perm _ r0 r1 with h | h
        · rw [h] at hlt; have : (EMPTY : Int) = -1 := rfl; omega
        · exact h
      have hc := repN_cast hE hkpr.1 hkpr.2
      have := hE.rep _ hkpr.1 hkpr.2
      rw [hkp']
      omega
    · simp at hsome
  · simp at hr

theorem rootCols_lt (hE : EnvOK e L nextl0) {rows : List Int} (hrows : ∀ r ∈ rows, 0 ≤ r ∧ r < e.m) :
    ∀ r ∈ (rootCols e rows).map (repN e), r < e.jcol.toNat := by
  intro r hr
  unfold rootCols at hr
  simp only [mem_map, mem_filterMap] at hr
  obtain ⟨kp', ⟨row, hrow, hsome⟩, rfl⟩ := hr
  obtain ⟨r0, r1⟩ := hrows row hrow
  split at hsome
  · simp at hsome
  · rename_i hne
    have hkp' : kp' = (rd e.perm_r row).toNat := by simpa using hsome.symm
    have hkpr : 0 ≤ rd e.perm_r row ∧ rd e.perm_r row < e.jcol := by
      rcases hE.perm _ r0 r1 with h | h
      · exact absurd h hne
      · exact h
    have hc := repN_cast hE hkpr.1 hkpr.2
    have := hE.rep _ hkpr.1 hkpr.2
    rw [hkp']
    omega

/-- successor COLUMNS of a representative (what `snodeReps` calls `adjS`), nothing below a non-representative -/
def adjSR (e : Env) (L : Array Int) (s : Nat) : List Nat :=
  if repOf e s = s ∧ (s : Int) < e.jcol then adjCols e L s else []

theorem adjR_eq_map (e : Env) (L : Array Int) : adjR e L = fun s => (adjSR e L s).map (repN e) := by
  funext s
  unfold adjR adjSR adjG
  split <;> simp

end graph

section lsubfinal
variable {i : Input}

/-- the rows the search appends to `lsub` (array level, before the supernode-boundary part moves them) -/
theorem search_lsub (h : wfIn i = true) :
    ∃ st', search i.env (fuelBound i) (colRows i.lsubCol) i.st0 = some st' ∧
      (slice st'.lsub (rd i.xlsub i.jcol) st'.nextl).Nodup ∧
      (∀ r, r ∈ slice st'.lsub (rd i.xlsub i.jcol) st'.nextl ↔
        (0 ≤ r ∧ r < i.m ∧ rd i.perm_r r = EMPTY ∧ mk2 i.env st' r = i.jcol)) ∧
      (∀ x, 0 ≤ x → x < rd i.xlsub i.jcol → rd st'.lsub x = rd i.lsub x) ∧
      rd i.xlsub i.jcol ≤ st'.nextl ∧ st'.nextl ≤ st'.lsub.size := by
  have hE := wfIn_env h
  have hR := wfIn_root h
  obtain ⟨st', post', hs, hR', _, _, _⟩ := search_spec hE (adj := adjR i.env i.lsub) (fun s h1 h2 => adjR_eq _ _ s h1 h2)
    (wfIn_fuel h) (colRows i.lsubCol) i.st0 _ hR (wfIn_unpack h).2.2.2.2.2.2.2 (wfIn_fresh h)
  refine ⟨st', hs, hR'.ok.app.nodup, fun r => ⟨fun hr => hR'.ok.app.rows r hr, fun ⟨a, b, c, d⟩ => hR'.ma r a b d c⟩,
    hR'.ok.pre, hR'.ok.nextl, ?_⟩
  -- the appended rows are distinct unpivoted rows: they fit
  have h1 : ((slice st'.lsub (rd i.xlsub i.jcol) st'.nextl).map Int.toNat).Nodup := by
    refine Nodup.map_on ?_ hR'.ok.app.nodup
    intro a ha b hb hab
    have := (hR'.ok.app.rows a ha).1; have := (hR'.ok.app.rows b hb).1; omega
  have h2 : (slice st'.lsub (rd i.xlsub i.jcol) st'.nextl).map Int.toNat ⊆ unpivoted i.m i.perm_r := by
    intro t ht
    obtain ⟨r, hr, rfl⟩ := mem_map.mp ht
    obtain ⟨a, b, c, _⟩ := hR'.ok.app.rows r hr
    unfold unpivoted
    simp only [mem_filter, mem_range, decide_eq_true_eq]
    exact ⟨by have : i.env.m = i.m := rfl; omega, by rw [Int.toNat_of_nonneg a]; exact c⟩
  have h3 := (List.subperm_of_subset h1 h2).length_le
  rw [length_map, slice_length] at h3
  have := hR'.ok.app.cap
  have := hR'.ok.nextl
  have : i.env.perm_r = i.perm_r := rfl
  have : i.env.m = i.m := rfl
  simp only [*] at *
  omega

end lsubfinal

section lsubreach
variable {i : Input}

/-- the rows appended to `lsub` are, once each, exactly the unpivoted rows among the column's own rows and
the pruned lists of the representatives the search finished -/
theorem search_lsub_reach (h : wfIn i = true) :
    ∃ st' nw, search i.env (fuelBound i) (colRows i.lsubCol) i.st0 = some st' ∧
      nw ++ visited0 i.jcol i.repfnz =
        dfsList (adjR i.env i.lsub) i.jcol.toNat ((rootCols i.env (colRows i.lsubCol)).map (repN i.env)) (visited0 i.jcol i.repfnz) ∧
      (slice st'.lsub (rd i.xlsub i.jcol) st'.nextl).Nodup ∧
      ∀ r, r ∈ slice st'.lsub (rd i.xlsub i.jcol) st'.nextl ↔
        (0 ≤ r ∧ r < i.m ∧ rd i.perm_r r = EMPTY ∧
          (r ∈ colRows i.lsubCol ∨ ∃ t ∈ nw, r ∈ adjRows i.env i.lsub ((t : Nat) : Int))) := by
  have hE := wfIn_env h
  have hR := wfIn_root h
  obtain ⟨_, _, _, _, hmark, _, _, _⟩ := wfIn_unpack h
  obtain ⟨st', post', hs, hR', hS, hp, hM⟩ := search_spec hE (adj := adjR i.env i.lsub) (fun s h1 h2 => adjR_eq _ _ s h1 h2)
    (wfIn_fuel h) (colRows i.lsubCol) i.st0 _ hR (wfIn_unpack h).2.2.2.2.2.2.2 (wfIn_fresh h)
  obtain ⟨nw, n1, _, _⟩ := hS.new
  refine ⟨st', nw, hs, ?_, hR'.ok.app.nodup, ?_⟩
  · rw [← n1, hp, dfsList, foldl_map]; rfl
  · intro r
    constructor
    · intro hr
      obtain ⟨a, b, c, d⟩ := hR'.ok.app.rows r hr
      refine ⟨a, b, c, ?_⟩
      rcases (hM nw n1 r).mp d with h0 | h0 | h0
      · obtain ⟨k, rfl⟩ := Int.eq_ofNat_of_zero_le a
        exact absurd h0 (hmark k b)
      · exact Or.inl h0
      · exact Or.inr h0
    · rintro ⟨a, b, c, d⟩
      exact hR'.ma r a b ((hM nw n1 r).mpr (Or.inr d)) c

end lsubreach

end Slu.ColDfs
